(* PipeStream proofs, part 1: the walker (Framing/FrmJ2k.v) on the main header the composed
   encoder model writes.  j2k_walk is cut at the first SOT (j2k_walk_split); the header part
   accepts pst_main_header p nl tw th and returns the SIZ / COD / QCD of p. *)
From V Require Import Common.Base Framing.FrmBase Framing.FrmJ2k Framing.FrmWriters
  Framing.FrmProofsSeg Framing.FrmProofsHdr Pipe.PipeModel Pipe.PipeProofsFront
  PipeStream.PstModel PipeStream.PstHeader.

(* ---------- the cut is exact ---------- *)

Lemma j2k_walk_split : forall l,
  j2k_walk l = wbind (j2k_walk_main l) (fun x => let '(s, ms, l2, pos2) := x in j2k_walk_tiles s ms l2 pos2).
Proof.
  intros l. unfold j2k_walk, j2k_walk_main.
  destruct l as [|a [|b r]]; try reflexivity.
  destruct (negb ((a =? 255) && (b =? 79))); [reflexivity|].
  destruct r as [|c [|d r']]; try reflexivity.
  destruct (negb ((c =? 255) && (d =? 81))); [reflexivity|].
  destruct (read_segment (c :: d :: r')) as [code pl rest|rs rel]; [|reflexivity].
  destruct (parse_siz pl) as [s|rs q]; [|reflexivity].
  destruct (main_loop (length rest) (sz_c s) ms_init rest (6 + zlen pl)) as [[[ms l2] pos2]|rs q]; reflexivity.
Qed.

(* ---------- the four writers are header ++ tile-parts ++ EOC ---------- *)

Lemma pipe_main_header_eq : forall p, pipe_main_header p = pst_main_header p 1 0 0.
Proof. reflexivity. Qed.

Lemma pipe_codestream_eq : forall p tile,
  pipe_codestream p tile = pst_main_header p 1 0 0 ++ pst_tile_part 0 tile ++ [255; 217].
Proof.
  intros. unfold pipe_codestream, pipe_main_header, pst_main_header, pst_header_tail, pst_cod_segment, pst_tile_part.
  rewrite <- !app_assoc. reflexivity.
Qed.

Lemma pipe_codestream_layers_eq : forall p nl tile,
  pipe_codestream_layers p nl tile = pst_main_header p nl 0 0 ++ pst_tile_part 0 tile ++ [255; 217].
Proof.
  intros. unfold pipe_codestream_layers, pst_main_header, pst_header_tail, pst_cod_segment, pst_tile_part.
  rewrite <- !app_assoc. reflexivity.
Qed.

Lemma tile_parts_cons : forall t r idx rest,
  tile_parts idx (t :: r) ++ rest = pst_tile_part idx t ++ tile_parts (idx + 1) r ++ rest.
Proof. intros. cbn [tile_parts]. unfold pst_tile_part. rewrite <- !app_assoc. reflexivity. Qed.

Lemma pipe_codestream_tiles_layers_eq : forall p nl tw th tiles,
  pipe_codestream_tiles_layers p nl tw th tiles = pst_main_header p nl tw th ++ tile_parts 0 tiles ++ [255; 217].
Proof.
  intros. unfold pipe_codestream_tiles_layers, pst_main_header, pst_header_tail, pst_cod_segment.
  rewrite <- !app_assoc. reflexivity.
Qed.

Lemma pipe_codestream_tiles_eq : forall p tw th tiles,
  pipe_codestream_tiles p tw th tiles = pst_main_header p 1 tw th ++ tile_parts 0 tiles ++ [255; 217].
Proof.
  intros. unfold pipe_codestream_tiles, pst_main_header, pst_header_tail, pst_cod_segment.
  rewrite <- !app_assoc. reflexivity.
Qed.

(* ---------- one step of the main loop per segment ---------- *)

Lemma ws_cons : forall m data rest, 0 <= m < 256 ->
  write_segment (65280 + m) data ++ rest
  = 255 :: m :: (write_u16 (segment_length_field data) ++ data ++ rest).
Proof.
  intros. unfold write_segment. rewrite write_marker_ff by assumption. rewrite <- !app_assoc. reflexivity.
Qed.

Lemma main_loop_cod : forall fu csiz st data rest pos c,
  zlen data + 2 < 65536 -> ms_cod st = None -> parse_cod data = WOk c ->
  main_loop (S fu) csiz st (write_segment 65362 data ++ rest) pos
  = main_loop fu csiz
      {| ms_cod := Some c; ms_qcd := ms_qcd st; ms_tlm := ms_tlm st;
         ms_tlm_seen := ms_tlm_seen st; ms_ztlm := ms_ztlm st; ms_ncom := ms_ncom st;
         ms_ncap := ms_ncap st; ms_nmct := ms_nmct st; ms_nrgn := ms_nrgn st |}
      rest (pos + 4 + zlen data).
Proof.
  intros fu csiz st data rest pos c Hl Hc Hp.
  pose proof (segment_length 82 data rest ltac:(lia) Hl) as Hs.
  change 65362 with (65280 + 82). rewrite ws_cons in * by lia.
  set (tl := write_u16 _ ++ data ++ rest) in *.
  cbn [main_loop Z.eqb Pos.eqb negb orb]. rewrite Hs, Hc, Hp. reflexivity.
Qed.

Lemma main_loop_qcd : forall fu csiz st sq sp rest pos,
  zlen (sq :: sp) + 2 < 65536 -> ms_qcd st = None -> qcd_shape_ok (sq :: sp) = true ->
  main_loop (S fu) csiz st (write_segment 65372 (sq :: sp) ++ rest) pos
  = main_loop fu csiz
      {| ms_cod := ms_cod st; ms_qcd := Some (sq, zlen sp); ms_tlm := ms_tlm st;
         ms_tlm_seen := ms_tlm_seen st; ms_ztlm := ms_ztlm st; ms_ncom := ms_ncom st;
         ms_ncap := ms_ncap st; ms_nmct := ms_nmct st; ms_nrgn := ms_nrgn st |}
      rest (pos + 4 + zlen (sq :: sp)).
Proof.
  intros fu csiz st sq sp rest pos Hl Hc Hp.
  pose proof (segment_length 92 (sq :: sp) rest ltac:(lia) Hl) as Hs.
  change 65372 with (65280 + 92). rewrite ws_cons in * by lia.
  set (tl := write_u16 _ ++ (sq :: sp) ++ rest) in *.
  cbn [main_loop Z.eqb Pos.eqb negb orb]. rewrite Hs, Hc, Hp. reflexivity.
Qed.

Lemma main_loop_com : forall fu csiz st data rest pos,
  zlen data + 2 < 65536 -> com_ok data = true ->
  main_loop (S fu) csiz st (write_segment 65380 data ++ rest) pos
  = main_loop fu csiz (ms_count st 100) rest (pos + 4 + zlen data).
Proof.
  intros fu csiz st data rest pos Hl Hp.
  pose proof (segment_length 100 data rest ltac:(lia) Hl) as Hs.
  change 65380 with (65280 + 100). rewrite ws_cons in * by lia.
  set (tl := write_u16 _ ++ data ++ rest) in *.
  cbn [main_loop Z.eqb Pos.eqb negb orb is_main_other]. rewrite Hs.
  unfold main_other_ok. cbn [Z.eqb Pos.eqb]. rewrite Hp. reflexivity.
Qed.

(* the list the main loop stops on: SOT or EOC *)
Definition starts_tiles (l : list Z) : Prop :=
  exists r, l = 255 :: 144 :: r \/ l = 255 :: 217 :: r.

Lemma main_loop_stop : forall fu csiz st l pos, starts_tiles l ->
  main_loop (S fu) csiz st l pos = WOk (st, l, pos).
Proof. intros fu csiz st l pos [r [-> | ->]]; reflexivity. Qed.

(* ---------- the QCD payload ---------- *)

Lemma flat3_length : forall (A : Type) (f g h : A -> Z) l,
  length (flat_map (fun r => [f r; g r; h r]) l) = (3 * length l)%nat.
Proof. induction l as [|x l IH]; cbn [flat_map length app]; [reflexivity | rewrite IH; lia]. Qed.

Lemma qcd_expn_len : forall p, 0 <= pp_levels p -> zlen (qcd_expn p) = 3 * pp_levels p + 1.
Proof.
  intros p Hl. unfold qcd_expn, zlen. cbn [length]. rewrite flat3_length, map_length.
  unfold G.zrange. rewrite map_length, seq_length. lia.
Qed.

Lemma qcd_payload_shape : forall p, 0 <= pp_levels p ->
  exists sp, qcd_payload p = 64 :: sp /\ zlen sp = 3 * pp_levels p + 1.
Proof.
  intros p Hl. eexists. split; [reflexivity|]. unfold zlen. rewrite map_length.
  apply qcd_expn_len. exact Hl.
Qed.

(* ---------- the whole main header ---------- *)

Lemma log2_pow2_size : forall v, pow2_size v -> 2 <= Z.log2 v <= 6 /\ v = 2 ^ Z.log2 v.
Proof. intros v [-> | [-> | [-> | [-> | ->]]]]; vm_compute; (split; [split; discriminate | reflexivity]). Qed.

Lemma cb_exponents : forall a b, pow2_size a -> pow2_size b -> a * b <= 4096 ->
  0 <= Z.log2 a - 2 <= 8 /\ 0 <= Z.log2 b - 2 <= 8 /\ (Z.log2 a - 2) + (Z.log2 b - 2) <= 8.
Proof.
  intros a b Ha Hb Hab. destruct (log2_pow2_size a Ha) as [Ha1 Ha2]. destruct (log2_pow2_size b Hb) as [Hb1 Hb2].
  lia.
Qed.

(* the tile grid declared in SIZ is admissible: at most 65535 tiles *)
Definition tile_grid_ok (p : pparams) (tw th : Z) : Prop :=
  0 <= tw < 4294967296 /\ 0 <= th < 4294967296 /\
  ceil_div (pp_w p) (tile_dim tw (pp_w p)) * ceil_div (pp_h p) (tile_dim th (pp_h p)) <= 65535.

Lemma ceil_div_self : forall w, 1 <= w -> ceil_div w w = 1.
Proof.
  intros w Hw. unfold ceil_div. replace (w + w - 1) with (1 * w + (w - 1)) by ring.
  rewrite Z.div_add_l by lia. rewrite Z.div_small by lia. reflexivity.
Qed.

Lemma tile_grid_ok_single : forall p, pp_scope p -> tile_grid_ok p 0 0.
Proof.
  intros p Hsc. unfold pp_scope in Hsc. unfold tile_grid_ok, tile_dim. cbn [Z.eqb].
  rewrite !ceil_div_self by lia. lia.
Qed.

Theorem walk_main_header : forall p nl tw th rest,
  pp_scope p -> 1 <= nl <= 65535 -> tile_grid_ok p tw th -> starts_tiles rest ->
  j2k_walk_main (pst_main_header p nl tw th ++ rest)
  = WOk (pipe_siz_tiles p tw th, pipe_mstate_layers p nl, rest, zlen (pst_main_header p nl tw th)).
Proof.
  intros p nl tw th rest Hsc Hnl [Htw [Hth Hgrid]] Hrest.
  pose proof Hsc as Hsc'. unfold pp_scope in Hsc'.
  destruct Hsc' as (Hw & Hh & Hnc & Hprec & Hlev & Hcbw & Hcbh & Hcb & Hord & _).
  assert (Hnc' : pp_nc p = 1 \/ pp_nc p = 2 \/ pp_nc p = 3 \/ pp_nc p = 4) by lia.
  destruct (j2k_siz_roundtrip false (pp_w p) (pp_h p) tw th (pp_nc p) (pp_prec p) (pp_signed p)
              (pst_header_tail p nl ++ rest) ltac:(lia) ltac:(lia) Htw Hth Hnc' ltac:(lia) Hgrid)
    as (Hseg & Hlen & Hsiz).
  set (pl := j2k_siz_payload false (pp_w p) (pp_h p) tw th (pp_nc p) (pp_prec p) (pp_signed p)) in *.
  unfold pst_main_header. rewrite <- !app_assoc.
  change (write_marker 65359) with [255; 79]. cbn [app].
  unfold j2k_walk_main. cbn [Z.eqb Pos.eqb andb negb].
  assert (Hc : exists tl, W.j2k_siz_segment false (pp_w p) (pp_h p) tw th (pp_nc p) (pp_prec p) (pp_signed p)
                          ++ pst_header_tail p nl ++ rest = 255 :: 81 :: tl).
  { eexists. unfold W.j2k_siz_segment, j2k_siz_segment. cbn [app]. reflexivity. }
  destruct Hc as [tl Htl]. rewrite Htl in *.
  cbn [Z.eqb Pos.eqb andb negb]. rewrite Hseg. rewrite Hsiz. cbn [sz_c].
  (* main loop *)
  destruct (cb_exponents _ _ Hcbw Hcbh Hcb) as (Hx & Hy & Hxy).
  pose proof (j2k_cod_roundtrip (pp_order p) nl (pp_mct p && (pp_nc p >=? 3)) (pp_levels p)
                (Z.log2 (pp_cbw p) - 2) (Z.log2 (pp_cbh p) - 2) false true
                Hord Hnl ltac:(lia) Hx Hy Hxy) as Hcod.
  destruct (qcd_payload_shape p ltac:(lia)) as (sp & Hq & Hsp).
  unfold pst_header_tail, pst_cod_segment, cb_log2. rewrite <- !app_assoc.
  set (codp := W.j2k_cod_payload _ _ _ _ _ _ _ _) in *.
  assert (Hcodlen : zlen codp = 10) by reflexivity.
  match goal with |- context [main_loop (length ?L)] => set (fuel := length L) end.
  assert (Hfuel : (4 <= fuel)%nat).
  { unfold fuel. unfold W.write_segment, write_segment, write_marker, write_u16. rewrite !app_length. cbn [length]. lia. }
  destruct fuel as [|[|[|[|fu]]]]; try lia.
  assert (Hcl : zlen codp + 2 < 65536) by (rewrite Hcodlen; lia).
  rewrite (main_loop_cod _ _ ms_init codp _ _ _ Hcl eq_refl Hcod).
  rewrite Hq.
  assert (Hqlen : zlen (64 :: sp) = 3 * pp_levels p + 2) by (rewrite zlen_cons; lia).
  rewrite main_loop_qcd; [| rewrite Hqlen; lia | reflexivity |].
  2:{ unfold qcd_shape_ok. change (64 mod 32) with 0. cbn [Z.leb Z.compare Z.eqb andb]. apply Z.leb_le. lia. }
  rewrite main_loop_com; [| vm_compute; reflexivity | reflexivity].
  rewrite main_loop_stop by exact Hrest.
  match goal with |- WOk (?a, ?b, ?c, ?d) = WOk (?a', ?b', ?c', ?d') =>
    assert (E1 : a = a'); [| assert (E2 : b = b'); [| assert (E3 : d = d'); [| rewrite E1, E2, E3; reflexivity]]] end.
  - unfold pipe_siz_tiles, tile_dim, ssiz_of, pipe_ssiz. reflexivity.
  - unfold pipe_mstate_layers, pipe_cod_layers, ms_count. cbn [ms_cod ms_qcd ms_tlm ms_tlm_seen ms_ztlm ms_ncom ms_ncap ms_nmct ms_nrgn ms_init Z.eqb Pos.eqb orb].
    rewrite Hsp. f_equal. f_equal. f_equal; lia.
  - rewrite !zlen_cons, !zlen_app. unfold W.j2k_siz_segment, j2k_siz_segment, W.write_segment, write_segment. fold pl. fold codp.
    rewrite !zlen_app. rewrite Hqlen, Hcodlen.
    change (zlen [255; 81]) with 2.
    change (zlen (be16_bytes (zlen pl + 2))) with 2.
    change (zlen (W.write_marker 65362)) with 2. change (zlen (W.write_marker 65372)) with 2.
    change (zlen (W.write_marker 65380)) with 2.
    change (zlen (W.write_u16 (W.segment_length_field codp))) with 2.
    change (zlen (W.write_u16 (W.segment_length_field (64 :: sp)))) with 2.
    change (zlen (W.write_u16 (W.segment_length_field version_com))) with 2.
    change (zlen version_com) with 35. lia.
Qed.
