(* PipeStream: the model of the Go codestream parser (Parsers/PrsJ2k.v: parseMainHeader, parseTile)
   run on the codestream the composed encoder model writes (Pipe/PipeModel.v: pipe_codestream).

   pst_main_header_parse   the main-header parser accepts, returns the SIZ fields of the
                           parameter record and stops exactly on the SOT;
   pst_tile_parse          the tile-part parser consumes SOT / SOD and delimits exactly the
                           tile bytes (by Psot; no scan, so no condition on the tile bytes);
   pst_tile_slice          the bytes between the two offsets are the tile.

   Technique: sfx d o s  ("s is the suffix of d at offset o"); every reader / segment parser gets
   a lemma  sfx d o (segment ++ s) -> parser d o = (Ok (.., o + zlen segment), allocs). *)
From V Require Import Common.Base Parsers.PrsOutcome Parsers.PrsJ2k Pipe.PipeModel Pipe.PipeProofsFront.

(* ---------------------------------------------------------------- lists *)

Lemma pst_zlen_app : forall (A : Type) (a b : list A), zlen (a ++ b) = zlen a + zlen b.
Proof. intros. unfold zlen. rewrite app_length. lia. Qed.

Lemma pst_zlen_cons : forall (A : Type) (x : A) l, zlen (x :: l) = 1 + zlen l.
Proof. intros. unfold zlen. cbn [length]. lia. Qed.

Lemma pst_zlen_nonneg : forall (A : Type) (l : list A), 0 <= zlen l.
Proof. intros. unfold zlen. lia. Qed.

(* ---------------------------------------------------------------- the monad *)

Lemma bind_ret_l : forall {A B} (a : A) (f : A -> M B), bind (ret a) f = f a.
Proof. intros. unfold bind, ret. cbn [app]. destruct (f a); reflexivity. Qed.

Lemma bind_one : forall {A B} (m : M A) (f : A -> M B) a x b l,
  m = (Ok a, [x]) -> f a = (Ok b, l) -> bind m f = (Ok b, x :: l).
Proof. intros A B m f a x b l -> E. unfold bind. rewrite E. reflexivity. Qed.

Lemma alloc_ok : forall n sz, 0 <= n -> n * sz <= maxAlloc -> alloc n sz = (Ok tt, [n * sz]).
Proof.
  intros n sz Hn Hs. unfold alloc.
  replace (n <? 0) with false by (symmetry; apply Z.ltb_ge; lia).
  replace (maxAlloc <? n * sz) with false by (symmetry; apply Z.ltb_ge; lia). reflexivity.
Qed.

(* ---------------------------------------------------------------- suffixes *)

Definition sfx (d : list Z) (o : Z) (s : list Z) : Prop := exists pre, d = pre ++ s /\ zlen pre = o.

Lemma sfx_0 : forall d, sfx d 0 d.
Proof. intros d. exists []. split; reflexivity. Qed.

Lemma sfx_app : forall d o l s, sfx d o (l ++ s) -> sfx d (o + zlen l) s.
Proof.
  intros d o l s [pre [E Hl]]. exists (pre ++ l). split.
  - rewrite <- app_assoc. exact E.
  - rewrite pst_zlen_app. lia.
Qed.

Lemma sfx_cons : forall d o a s, sfx d o (a :: s) -> sfx d (o + 1) s.
Proof.
  intros d o a s H. apply (sfx_app d o [a] s) in H. exact H.
Qed.

Lemma sfx_eq : forall d o o' s, sfx d o s -> o = o' -> sfx d o' s.
Proof. intros; subst; assumption. Qed.

Lemma sfx_len : forall d o s, sfx d o s -> zlen d = o + zlen s.
Proof. intros d o s [pre [-> Hl]]. rewrite pst_zlen_app. lia. Qed.

Lemma sfx_nonneg : forall d o s, sfx d o s -> 0 <= o.
Proof. intros d o s [pre [_ Hl]]. pose proof (pst_zlen_nonneg _ pre). lia. Qed.

Lemma sfx_inj : forall d o o' s, sfx d o s -> sfx d o' s -> o = o'.
Proof. intros d o o' s H H'. apply sfx_len in H. apply sfx_len in H'. lia. Qed.

Lemma sfx_znth : forall d o s i, sfx d o s -> 0 <= i -> znth d (o + i) 0 = znth s i 0.
Proof.
  intros d o s i [pre [-> Hl]] Hi. unfold znth.
  pose proof (pst_zlen_nonneg _ pre) as Hp.
  replace (o + i <? 0) with false by (symmetry; apply Z.ltb_ge; lia).
  replace (i <? 0) with false by (symmetry; apply Z.ltb_ge; lia).
  replace (Z.to_nat (o + i)) with (length pre + Z.to_nat i)%nat by (unfold zlen in Hl; lia).
  apply app_nth2_plus.
Qed.

Lemma sfx_znth0 : forall d o a s, sfx d o (a :: s) -> znth d o 0 = a.
Proof.
  intros d o a s H. replace o with (o + 0) by lia. rewrite (sfx_znth d o (a :: s) 0 H) by lia. reflexivity.
Qed.

(* the bytes delimited by two offsets *)
Lemma sfx_slice : forall d o l s, sfx d o (l ++ s) -> k_slice d o (zlen l) = l.
Proof.
  intros d o l s [pre [-> Hl]]. unfold k_slice.
  replace (Z.to_nat o) with (length pre) by (unfold zlen in Hl; lia).
  rewrite skipn_app, skipn_all, Nat.sub_diag. cbn [skipn app].
  unfold zlen. rewrite Nat2Z.id. rewrite firstn_app, firstn_all, Nat.sub_diag. cbn [firstn]. apply app_nil_r.
Qed.

(* ---------------------------------------------------------------- the readers *)

Lemma rd8_at : forall d o a s, sfx d o (a :: s) -> k_rd8 d o = ret (a, o + 1).
Proof.
  intros d o a s H. unfold k_rd8. pose proof (sfx_len _ _ _ H) as L. rewrite pst_zlen_cons in L.
  pose proof (pst_zlen_nonneg _ s).
  replace (zlen d <? o + 1) with false by (symmetry; apply Z.ltb_ge; lia).
  rewrite (sfx_znth0 _ _ _ _ H). reflexivity.
Qed.

Lemma rd16_at : forall d o a b s, sfx d o (a :: b :: s) -> k_rd16 d o = ret (a * 256 + b, o + 2).
Proof.
  intros d o a b s H. unfold k_rd16. pose proof (sfx_len _ _ _ H) as L. rewrite !pst_zlen_cons in L.
  pose proof (pst_zlen_nonneg _ s).
  replace (zlen d <? o + 2) with false by (symmetry; apply Z.ltb_ge; lia).
  rewrite (sfx_znth0 _ _ _ _ H). rewrite (sfx_znth0 _ _ _ _ (sfx_cons _ _ _ _ H)). reflexivity.
Qed.

Lemma rd32_at : forall d o a b c e s, sfx d o (a :: b :: c :: e :: s) ->
  k_rd32 d o = ret (((a * 256 + b) * 256 + c) * 256 + e, o + 4).
Proof.
  intros d o a b c e s H. unfold k_rd32. pose proof (sfx_len _ _ _ H) as L. rewrite !pst_zlen_cons in L.
  pose proof (pst_zlen_nonneg _ s).
  replace (zlen d <? o + 4) with false by (symmetry; apply Z.ltb_ge; lia).
  rewrite (sfx_znth0 _ _ _ _ H).
  pose proof (sfx_cons _ _ _ _ H) as H1. rewrite (sfx_znth0 _ _ _ _ H1).
  pose proof (sfx_cons _ _ _ _ H1) as H2. replace (o + 1 + 1) with (o + 2) in H2 by lia. rewrite (sfx_znth0 _ _ _ _ H2).
  pose proof (sfx_cons _ _ _ _ H2) as H3. replace (o + 2 + 1) with (o + 3) in H3 by lia. rewrite (sfx_znth0 _ _ _ _ H3).
  reflexivity.
Qed.

(* WriteUint16 / binary.Write big endian read back *)
Lemma rd16_u16 : forall d o v s, sfx d o (W.write_u16 v ++ s) -> k_rd16 d o = ret (v, o + 2) /\ sfx d (o + 2) s.
Proof.
  intros d o v s H. split.
  - unfold W.write_u16 in H. cbn [app] in H. rewrite (rd16_at _ _ _ _ _ H). f_equal. f_equal.
    pose proof (Z.div_mod v 256). lia.
  - apply sfx_app in H. exact H.
Qed.

Lemma rd16_be : forall d o v s, 0 <= v < 65536 -> sfx d o (W.be16_bytes v ++ s) ->
  k_rd16 d o = ret (v, o + 2) /\ sfx d (o + 2) s.
Proof.
  intros d o v s Hv H. split.
  - unfold W.be16_bytes, wrapU in H. change (2 ^ 16) with 65536 in H. rewrite Z.mod_small in H by lia.
    cbn [app] in H. rewrite (rd16_at _ _ _ _ _ H). f_equal. f_equal.
    pose proof (Z.div_mod v 256). lia.
  - apply sfx_app in H. exact H.
Qed.

Lemma rd32_be : forall d o v s, 0 <= v < 4294967296 -> sfx d o (W.be32_bytes v ++ s) ->
  k_rd32 d o = ret (v, o + 4) /\ sfx d (o + 4) s.
Proof.
  intros d o v s Hv H. split.
  - unfold W.be32_bytes, wrapU in H. change (2 ^ 32) with 4294967296 in H. rewrite Z.mod_small in H by lia.
    cbn [app] in H. rewrite (rd32_at _ _ _ _ _ _ _ H). f_equal. f_equal.
    Z.div_mod_to_equations. lia.
  - apply sfx_app in H. exact H.
Qed.

(* make([]byte, n); p.read(buf) over exactly the bytes l *)
Lemma read_buf_at : forall d o l s, zlen l <= 65535 -> sfx d o (l ++ s) ->
  k_read_buf d o (zlen l) = (Ok (o + zlen l), [zlen l * 1]).
Proof.
  intros d o l s Hl H. unfold k_read_buf. pose proof (pst_zlen_nonneg _ l) as Hn.
  rewrite alloc_ok by (rewrite ?maxAlloc_val; try lia; change maxAlloc with 281474976710656; lia).
  pose proof (sfx_len _ _ _ H) as L. rewrite pst_zlen_app in L. pose proof (pst_zlen_nonneg _ s).
  replace (zlen d <? o + zlen l) with false by (symmetry; apply Z.ltb_ge; lia).
  reflexivity.
Qed.

(* ---------------------------------------------------------------- tactics *)

Ltac bleaf := first [ apply Z.eqb_neq; lia | apply Z.ltb_ge; lia | apply Z.leb_gt; lia
                    | apply Bool.negb_false_iff; apply Z.eqb_eq; lia ].
Ltac bsolve := repeat apply Bool.orb_false_intro; bleaf.
(* the guard at the head of the goal is false *)
Ltac cf := match goal with |- context [if ?c then _ else _] => replace c with false by (symmetry; bsolve) end; cbv iota.

Ltac s8 H := lazymatch type of H with sfx ?d ?o (?a :: ?s) =>
  rewrite (rd8_at d o a s H); apply sfx_cons in H; rewrite bind_ret_l; cbn [fst snd] end.
Ltac s16 H := lazymatch type of H with sfx ?d ?o (W.be16_bytes ?v ++ ?s) =>
  let E := fresh "E" in let H' := fresh "H" in
  destruct (rd16_be d o v s ltac:(lia) H) as [E H']; rewrite E, bind_ret_l; cbn [fst snd]; clear E H; rename H' into H end.
Ltac s32 H := lazymatch type of H with sfx ?d ?o (W.be32_bytes ?v ++ ?s) =>
  let E := fresh "E" in let H' := fresh "H" in
  destruct (rd32_be d o v s ltac:(lia) H) as [E H']; rewrite E, bind_ret_l; cbn [fst snd]; clear E H; rename H' into H end.
Ltac su16 H := lazymatch type of H with sfx ?d ?o (W.write_u16 ?v ++ ?s) =>
  let E := fresh "E" in let H' := fresh "H" in
  destruct (rd16_u16 d o v s H) as [E H']; rewrite E, bind_ret_l; cbn [fst snd]; clear E H; rename H' into H end.

(* ---------------------------------------------------------------- SIZ *)

Lemma zlen_siz_comps : forall ssiz k, zlen (W.siz_comps ssiz k) = 3 * Z.of_nat k.
Proof.
  intros ssiz k. induction k as [|k IH]; [reflexivity|].
  cbn [W.siz_comps app]. rewrite !pst_zlen_cons, IH. lia.
Qed.

Lemma siz_comps_at : forall k d o ssiz s, sfx d o (W.siz_comps ssiz k ++ s) ->
  k_siz_comps d k o = ret (o + zlen (W.siz_comps ssiz k)).
Proof.
  induction k as [|k IH]; intros d o ssiz s H.
  - cbn [k_siz_comps W.siz_comps]. change (zlen (@nil Z)) with 0. f_equal. lia.
  - cbn [k_siz_comps]. cbn [W.siz_comps app] in H.
    s8 H. s8 H. s8 H.
    change ((1 =? 0) || (1 =? 0)) with false. cbv iota.
    rewrite (IH _ _ _ _ H). f_equal. cbn [W.siz_comps app]. rewrite !pst_zlen_cons. lia.
Qed.

Lemma zlen_siz_payload : forall w h nc prec sg, 0 <= nc ->
  zlen (W.j2k_siz_payload false w h 0 0 nc prec sg) = 36 + 3 * nc.
Proof.
  intros. unfold W.j2k_siz_payload. cbv zeta. rewrite !pst_zlen_app, zlen_siz_comps.
  change (zlen (W.be16_bytes ?x)) with 2.
  unfold W.be16_bytes, W.be32_bytes. cbv zeta. rewrite !pst_zlen_cons. change (zlen (@nil Z)) with 0. lia.
Qed.

Lemma parse_siz_at : forall d o w h nc prec sg s,
  1 <= w <= 32768 -> 1 <= h <= 32768 -> 1 <= nc <= 16384 ->
  sfx d o (W.be16_bytes (zlen (W.j2k_siz_payload false w h 0 0 nc prec sg) + 2)
           ++ W.j2k_siz_payload false w h 0 0 nc prec sg ++ s) ->
  k_parse_siz d o = (Ok (mkSiz w h 0 0 w h 0 0 nc, o + 2 + zlen (W.j2k_siz_payload false w h 0 0 nc prec sg)), [nc * 3]).
Proof.
  intros d o w h nc prec sg s Hw Hh Hnc H.
  pose proof (zlen_siz_payload w h nc prec sg ltac:(lia)) as ZL. rewrite ZL in *.
  unfold W.j2k_siz_payload in H. cbv zeta in H. change (0 =? 0) with true in H. cbv iota in H.
  rewrite <- !app_assoc in H.
  unfold k_parse_siz.
  s16 H. s16 H. s32 H. s32 H. s32 H. s32 H. s32 H. s32 H. s32 H. s32 H. s16 H.
  cf. cf. cf. cf.
  replace (2 ^ 31 <? (w - 0) * (h - 0)) with false by (symmetry; apply Z.ltb_ge; change (2 ^ 31) with 2147483648; nia).
  rewrite alloc_ok by (change maxAlloc with 281474976710656; lia).
  eapply bind_one; [reflexivity|]. cbv beta.
  rewrite (siz_comps_at _ _ _ _ _ H), bind_ret_l.
  replace (negb (36 + 3 * nc + 2 =? 38 + 3 * nc)) with false by (symmetry; bsolve).
  unfold ret. rewrite zlen_siz_comps. do 3 f_equal. lia.
Qed.

(* ---------------------------------------------------------------- COD *)

Lemma parse_cod_at : forall d o pr l1 l2 mc nl a b c t s,
  a <= 8 -> b <= 8 -> a + b <= 8 -> nl <= 32 ->
  sfx d o (0 :: 12 :: 0 :: pr :: l1 :: l2 :: mc :: nl :: a :: b :: c :: t :: s) ->
  k_parse_cod d o = ret (o + 12).
Proof.
  intros d o pr l1 l2 mc nl a b c t s Ha Hb Hab Hnl H.
  unfold k_parse_cod.
  rewrite (rd16_at _ _ _ _ _ H), bind_ret_l. cbn [fst snd].
  apply sfx_cons in H. apply sfx_cons in H. apply (sfx_eq _ _ (o + 2)) in H; [|lia].
  s8 H. s8 H.
  rewrite (rd16_at _ _ _ _ _ H), bind_ret_l. cbn [fst snd].
  apply sfx_cons in H. apply sfx_cons in H. apply (sfx_eq _ _ (o + 2 + 1 + 1 + 2)) in H; [|lia].
  s8 H. unfold k_coding_style.
  s8 H. s8 H. s8 H. s8 H. s8 H.
  cf. cf. change (Z.odd 0) with false. cbv iota. rewrite bind_ret_l.
  unfold k_len_fix. cbv zeta.
  replace (0 * 256 + 12 - 2 <? o + 2 + 1 + 1 + 2 + 1 + 1 + 1 + 1 + 1 + 1 - (o + 2)) with false
    by (symmetry; apply Z.ltb_ge; lia).
  f_equal. lia.
Qed.

Lemma cb_exponents : forall a b, pow2_size a -> pow2_size b -> a * b <= 4096 ->
  0 <= cb_log2 a - 2 <= 8 /\ 0 <= cb_log2 b - 2 <= 8 /\ (cb_log2 a - 2) + (cb_log2 b - 2) <= 8.
Proof.
  intros a b Ha Hb _. unfold pow2_size in *.
  destruct Ha as [->|[->|[->|[->| ->]]]]; destruct Hb as [->|[->|[->|[->| ->]]]]; vm_compute; intuition discriminate.
Qed.

Lemma byte_small : forall x, 0 <= x < 256 -> W.byte_of x = x.
Proof. intros. unfold W.byte_of, wrapU. apply Z.mod_small. assumption. Qed.

Lemma cod_segment_form : forall prog mct levels x y,
  W.write_segment 65362 (W.j2k_cod_payload prog 1 mct levels x y false true) =
  255 :: 82 :: 0 :: 12 :: 0 :: W.byte_of prog :: 0 :: 1 :: (if mct then 1 else 0) :: W.byte_of levels ::
  W.byte_of x :: W.byte_of y :: 0 :: 1 :: nil.
Proof. intros. reflexivity. Qed.

(* ---------------------------------------------------------------- QCD, COM *)

Lemma parse_qcd_at : forall d o sq rest s, zlen rest <= 65000 ->
  sfx d o (W.write_u16 (W.segment_length_field (sq :: rest)) ++ (sq :: rest) ++ s) ->
  k_parse_qcd d o = (Ok (o + 2 + zlen (sq :: rest)), [zlen rest]).
Proof.
  intros d o sq rest s Hl H. pose proof (pst_zlen_nonneg _ rest) as Hn.
  unfold W.segment_length_field, wrapU in H. change (2 ^ 16) with 65536 in H.
  rewrite pst_zlen_cons in H. rewrite Z.mod_small in H by lia.
  unfold k_parse_qcd. su16 H. cbn [app] in H. s8 H.
  cf. replace (1 + zlen rest + 2 - 3) with (zlen rest) by lia.
  rewrite (read_buf_at _ _ rest s ltac:(lia) H). rewrite pst_zlen_cons, Z.mul_1_r. do 2 f_equal. lia.
Qed.

Lemma parse_com_at : forall d o r1 r2 rest s, zlen rest <= 65000 ->
  sfx d o (W.write_u16 (W.segment_length_field (r1 :: r2 :: rest)) ++ (r1 :: r2 :: rest) ++ s) ->
  k_parse_com d o = (Ok (o + 2 + zlen (r1 :: r2 :: rest)), [zlen rest]).
Proof.
  intros d o r1 r2 rest s Hl H. pose proof (pst_zlen_nonneg _ rest) as Hn.
  unfold W.segment_length_field, wrapU in H. change (2 ^ 16) with 65536 in H.
  rewrite !pst_zlen_cons in H. rewrite Z.mod_small in H by lia.
  unfold k_parse_com. su16 H. cbn [app] in H.
  rewrite (rd16_at _ _ _ _ _ H), bind_ret_l. cbn [fst snd].
  apply sfx_cons in H. apply sfx_cons in H.
  cf. replace (1 + (1 + zlen rest) + 2 - 4) with (zlen rest) by lia.
  apply (sfx_eq _ _ (o + 2 + 2)) in H; [|lia].
  rewrite (read_buf_at _ _ rest s ltac:(lia) H). rewrite !pst_zlen_cons, Z.mul_1_r. do 2 f_equal. lia.
Qed.

Lemma length_flat3 : forall (A : Type) (f g h : Z -> A) l,
  length (flat_map (fun r => [f r; g r; h r]) l) = (3 * length l)%nat.
Proof. intros. induction l as [|x l IH]; [reflexivity|]. cbn [flat_map app length]. rewrite IH. lia. Qed.

Lemma zlen_qcd_expn : forall p, 0 <= pp_levels p -> zlen (qcd_expn p) = 1 + 3 * pp_levels p.
Proof.
  intros p Hl. unfold qcd_expn. rewrite pst_zlen_cons. unfold zlen.
  rewrite length_flat3, map_length. unfold G.zrange. rewrite map_length, seq_length. lia.
Qed.

(* ---------------------------------------------------------------- the main-header loop *)

Lemma bind_assoc : forall {A B C} (m : M A) (g : A -> M B) (f : B -> M C),
  bind (bind m g) f = bind m (fun a => bind (g a) f).
Proof.
  intros A B C [[a| | |] l] g f; cbn [bind]; try reflexivity.
  destruct (g a) as [[b| | |] l']; cbn [bind fst snd]; try reflexivity.
  destruct (f b) as [r l'']. cbn [fst snd]. rewrite app_assoc. reflexivity.
Qed.

Lemma main_step : forall k st d o m s, 0 <= m < 256 -> m <> 144 -> m <> 217 ->
  sfx d o (255 :: m :: s) ->
  k_main_loop (S k) st d o = bind (k_main_segment st m d (o + 2)) (fun x => k_main_loop k (fst x) d (snd x)).
Proof.
  intros k st d o m s Hm H1 H2 H. cbn [k_main_loop].
  rewrite (rd16_at _ _ _ _ _ H), bind_ret_l. cbn [fst snd].
  cf.
  replace (255 * 256 + m) with (m + 255 * 256) by lia.
  rewrite Z.div_add, Z.mod_add, Z.div_small, Z.mod_small by lia.
  change (0 + 255 =? 255) with true. cbv iota. reflexivity.
Qed.

Lemma main_stop : forall k st d o s, sfx d o (255 :: 144 :: s) -> k_main_loop (S k) st d o = ret (st, o).
Proof.
  intros k st d o s H. cbn [k_main_loop].
  rewrite (rd16_at _ _ _ _ _ H), bind_ret_l. cbn [fst snd].
  change ((255 * 256 + 144 =? 65424) || (255 * 256 + 144 =? 65497)) with true. reflexivity.
Qed.

Lemma seg81 : forall d o, k_main_segment kst0 81 d o =
  bind (k_parse_siz d o) (fun x => ret (mkK (Some (fst x)) false false [] [], snd x)).
Proof. reflexivity. Qed.
Lemma seg82 : forall sz d o, k_main_segment (mkK (Some sz) false false [] []) 82 d o =
  bind (k_parse_cod d o) (fun o2 => ret (mkK (Some sz) true false [] [], o2)).
Proof. reflexivity. Qed.
Lemma seg92 : forall sz d o, k_main_segment (mkK (Some sz) true false [] []) 92 d o =
  bind (k_parse_qcd d o) (fun o2 => ret (mkK (Some sz) true true [] [], o2)).
Proof. reflexivity. Qed.
Lemma seg100 : forall sz d o, k_main_segment (mkK (Some sz) true true [] []) 100 d o =
  bind (k_parse_com d o) (fun o2 => ret (mkK (Some sz) true true [] [], o2)).
Proof. reflexivity. Qed.

Lemma sfx_cons2 : forall d o a b s, sfx d o (a :: b :: s) -> sfx d (o + 2) s.
Proof. intros d o a b s H. apply (sfx_app d o [a; b] s) in H. exact H. Qed.

(* the parser on ANY data that starts with the encoder's main header followed by an SOT marker *)
Lemma main_header_run : forall p fuel d rest, pp_scope p ->
  d = pipe_main_header p ++ 255 :: 144 :: rest ->
  k_main_header (S (S (S (S (S fuel))))) d =
    (Ok (mkSiz (pp_w p) (pp_h p) 0 0 (pp_w p) (pp_h p) 0 0 (pp_nc p), zlen (pipe_main_header p)),
     [pp_nc p * 3; 3 * pp_levels p + 1; 33]).
Proof.
  intros p fuel d rest Hsc Hd.
  destruct Hsc as (Hw & Hh & Hnc & HP & Hlv & Hcw & Hch & Hcb & Hord & _).
  assert (HF : sfx d (zlen (pipe_main_header p)) (255 :: 144 :: rest)).
  { exists (pipe_main_header p). split; [exact Hd | reflexivity]. }
  assert (H : sfx d 0 (pipe_main_header p ++ 255 :: 144 :: rest)) by (rewrite <- Hd; apply sfx_0).
  clear Hd.
  destruct (cb_exponents _ _ Hcw Hch Hcb) as (Ex & Ey & Exy).
  unfold pipe_main_header in H. rewrite cod_segment_form in H.
  rewrite (byte_small (pp_levels p)), (byte_small (cb_log2 (pp_cbw p) - 2)), (byte_small (cb_log2 (pp_cbh p) - 2)) in H by lia.
  unfold W.j2k_siz_segment, W.write_segment in H. cbv zeta in H.
  change (W.write_marker 65359) with [255; 79] in H.
  change (W.write_marker 65372) with [255; 92] in H.
  change (W.write_marker 65380) with [255; 100] in H.
  rewrite <- !app_assoc in H. cbn [app] in H.
  unfold k_main_header.
  rewrite (rd16_at _ _ _ _ _ H), bind_ret_l. cbn [fst snd].
  change (negb (255 * 256 + 79 =? 65359)) with false. cbv iota.
  apply sfx_cons2 in H.
  (* SIZ *)
  rewrite (main_step _ _ _ _ 81 _ ltac:(lia) ltac:(lia) ltac:(lia) H), seg81, !bind_assoc.
  apply sfx_cons2 in H.
  assert (Hnc' : 1 <= pp_nc p <= 16384) by lia.
  eapply bind_one; [exact (parse_siz_at _ _ _ _ _ _ _ _ Hw Hh Hnc' H)|]. cbv beta.
  rewrite bind_ret_l. cbn [fst snd].
  apply sfx_app in H. apply sfx_app in H. change (zlen (W.be16_bytes ?x)) with 2 in H.
  set (o1 := 0 + 2 + 2 + 2 + zlen _) in *. clearbody o1.
  (* COD *)
  rewrite (main_step _ _ _ _ 82 _ ltac:(lia) ltac:(lia) ltac:(lia) H), seg82, !bind_assoc.
  apply sfx_cons2 in H.
  pose proof (fun A B C D => parse_cod_at _ _ _ _ _ _ _ _ _ _ _ _ A B C D H) as EC.
  specialize (EC ltac:(lia) ltac:(lia) ltac:(lia) ltac:(lia)). rewrite EC, !bind_ret_l. cbn [fst snd]. clear EC.
  do 6 apply sfx_cons2 in H.
  set (o2 := o1 + 2 + 2 + 2 + 2 + 2 + 2 + 2) in *.
  replace (o1 + 2 + 12) with o2 by (unfold o2; lia). clearbody o2.
  (* QCD *)
  rewrite (main_step _ _ _ _ 92 _ ltac:(lia) ltac:(lia) ltac:(lia) H). rewrite seg92, !bind_assoc.
  apply sfx_cons2 in H.
  unfold qcd_payload in H.
  assert (ZQ : zlen (map (fun e => wrapU 8 (Z.shiftl e 3)) (qcd_expn p)) = 3 * pp_levels p + 1).
  { unfold zlen. rewrite map_length. fold (zlen (qcd_expn p)). rewrite zlen_qcd_expn by lia. lia. }
  pose proof (fun A => parse_qcd_at _ _ _ _ _ A H) as EQ. specialize (EQ ltac:(lia)). rewrite ZQ in EQ.
  eapply bind_one; [exact EQ|]. cbv beta. rewrite bind_ret_l. cbn [fst snd]. clear EQ.
  apply sfx_app in H. apply sfx_app in H.
  change (zlen (W.write_u16 ?x)) with 2 in H.
  set (o3 := o2 + 2 + 2 + zlen _) in *.
  clearbody o3.
  (* COM *)
  rewrite (main_step _ _ _ _ 100 _ ltac:(lia) ltac:(lia) ltac:(lia) H), seg100, !bind_assoc.
  apply sfx_cons2 in H.
  unfold version_com in H.
  pose proof (fun A => parse_com_at _ _ _ _ _ _ A H) as EC. specialize (EC ltac:(vm_compute; discriminate)).
  match type of EC with _ = (_, [?z]) => change z with 33 in EC end.
  eapply bind_one; [exact EC|]. cbv beta. rewrite bind_ret_l. cbn [fst snd]. clear EC.
  apply sfx_app in H. apply sfx_app in H. change (zlen (W.write_u16 ?x)) with 2 in H.
  (* SOT *)
  rewrite (main_stop _ _ _ _ _ H), bind_ret_l. cbn [fst snd k_siz k_cod k_qcd negb].
  rewrite (sfx_inj _ _ _ _ H HF). reflexivity.
Qed.

Lemma pipe_codestream_form : forall p tile, pipe_codestream p tile =
  pipe_main_header p ++ 255 :: 144 :: (W.be16_bytes 10 ++ W.be16_bytes 0 ++ W.be32_bytes (zlen tile + 14) ++
                                        0 :: 1 :: 255 :: 147 :: (tile ++ [255; 217])).
Proof. intros. reflexivity. Qed.

(* parseMainHeader on the encoder's codestream: any fuel >= 5 (SIZ, COD, QCD, COM, then the SOT) *)
Theorem pst_main_header_parse : forall p tile fuel, pp_scope p -> (5 <= fuel)%nat ->
  k_main_header fuel (pipe_codestream p tile) =
    (Ok (mkSiz (pp_w p) (pp_h p) 0 0 (pp_w p) (pp_h p) 0 0 (pp_nc p), zlen (pipe_main_header p)),
     [pp_nc p * 3; 3 * pp_levels p + 1; 33]).
Proof.
  intros p tile fuel Hsc Hf.
  do 5 (destruct fuel as [|fuel]; [lia|]).
  exact (main_header_run p fuel _ _ Hsc (pipe_codestream_form p tile)).
Qed.

Lemma pipe_codestream_fuel : forall p tile, (5 <= fuel_of (pipe_codestream p tile))%nat.
Proof.
  intros. unfold fuel_of. rewrite pipe_codestream_form. unfold pipe_main_header.
  rewrite !app_length. change (length (W.write_marker 65359)) with 2%nat.
  unfold W.j2k_siz_segment. cbv zeta. rewrite !app_length. cbn [length]. lia.
Qed.

(* with the fuel the Go-side wrapper uses *)
Corollary pst_main_header_parse_fuel_of : forall p tile, pp_scope p ->
  fst (k_main_header (fuel_of (pipe_codestream p tile)) (pipe_codestream p tile)) =
    Ok (mkSiz (pp_w p) (pp_h p) 0 0 (pp_w p) (pp_h p) 0 0 (pp_nc p), zlen (pipe_main_header p)).
Proof.
  intros p tile Hsc. rewrite (pst_main_header_parse p tile _ Hsc (pipe_codestream_fuel p tile)). reflexivity.
Qed.

(* ---------------------------------------------------------------- the tile-part *)

Lemma tile_part_run : forall csiz fuel d o tile post, zlen tile + 14 < 4294967296 ->
  sfx d o (255 :: 144 :: (W.be16_bytes 10 ++ W.be16_bytes 0 ++ W.be32_bytes (zlen tile + 14) ++
                          0 :: 1 :: 255 :: 147 :: (tile ++ post))) ->
  k_parse_tile (S fuel) csiz d o = (Ok (0, o + 14 + zlen tile), []) /\
  sfx d (o + 14) (tile ++ post).
Proof.
  intros csiz fuel d o tile post Hlen H. pose proof (pst_zlen_nonneg _ tile) as Hn.
  pose proof (sfx_nonneg _ _ _ H) as Ho.
  unfold k_parse_tile.
  rewrite (rd16_at _ _ _ _ _ H), bind_ret_l. cbn [fst snd].
  change (negb (255 * 256 + 144 =? 65424)) with false. cbv iota.
  apply sfx_cons2 in H.
  unfold k_parse_sot.
  s16 H. change (negb (10 =? 10)) with false. cbv iota.
  s16 H. s32 H. s8 H. s8 H. rewrite bind_ret_l. cbv beta iota.
  cbn [k_tile_loop].
  rewrite (rd16_at _ _ _ _ _ H), bind_ret_l. cbn [fst snd].
  change (255 * 256 + 147 =? 65427) with true. cbv iota. rewrite bind_ret_l.
  apply sfx_cons2 in H.
  pose proof (sfx_len _ _ _ H) as L. rewrite pst_zlen_app in L. pose proof (pst_zlen_nonneg _ post) as Hp.
  unfold k_read_tile_data_len. cbv zeta.
  cf. cf. cf. cf.
  rewrite bind_ret_l. split.
  - unfold ret. do 3 f_equal. lia.
  - apply (sfx_eq _ _ _ _ H). lia.
Qed.

(* parseTile at the offset parseMainHeader returned: SOT and SOD are consumed, the tile-part data is
   delimited by Psot (no marker scan), the parser stops on the EOC *)
Theorem pst_tile_parse : forall p tile csiz fuel, zlen tile + 14 < 2 ^ 32 -> (1 <= fuel)%nat ->
  let hl := zlen (pipe_main_header p) in
  k_parse_tile fuel csiz (pipe_codestream p tile) hl = (Ok (0, hl + 14 + zlen tile), []) /\
  k_slice (pipe_codestream p tile) (hl + 14) (zlen tile) = tile /\
  zlen (pipe_codestream p tile) = hl + 14 + zlen tile + 2 /\
  k_rd16 (pipe_codestream p tile) (hl + 14 + zlen tile) = ret (65497, hl + 14 + zlen tile + 2).
Proof.
  intros p tile csiz fuel Hlen Hf hl. destruct fuel as [|fuel]; [lia|].
  change (2 ^ 32) with 4294967296 in Hlen.
  assert (H : sfx (pipe_codestream p tile) hl
                (255 :: 144 :: (W.be16_bytes 10 ++ W.be16_bytes 0 ++ W.be32_bytes (zlen tile + 14) ++
                                0 :: 1 :: 255 :: 147 :: (tile ++ [255; 217])))).
  { exists (pipe_main_header p). split; [apply pipe_codestream_form | reflexivity]. }
  destruct (tile_part_run csiz fuel _ _ _ _ Hlen H) as [E H'].
  split; [exact E|]. split; [exact (sfx_slice _ _ _ _ H')|].
  pose proof (sfx_len _ _ _ H') as L. rewrite pst_zlen_app in L. change (zlen [255; 217]) with 2 in L.
  split; [lia|].
  apply sfx_app in H'. rewrite (rd16_at _ _ _ _ _ H'). reflexivity.
Qed.

(* ---------------------------------------------------------------- composition with the tile round trip *)

Require V.Pipe.PipeProofsMain.

(* Psot is a uint32: the tile-part (SOT segment 12 bytes, SOD 2 bytes, tile data) fits *)
Definition hyp_psot_fits (p : pparams) (pix : list Z) : Prop :=
  forall tile, pipe_encode_tile p pix = Ok tile -> zlen tile + 14 < 2 ^ 32.

(* pixels -> pipe_encode -> parser model (main header, tile-part) -> the delimited bytes ->
   pipe_decode_tile -> the same pixels.  hl = offset of the SOT = end of the main header,
   hl + 14 = first byte after SOD, e = offset the tile-part parser returns. *)
Theorem pst_stream_roundtrip_partial : forall p, pp_scope p -> forall samples, samples_ok p samples ->
  let pix := pack_image p samples in
  V.Pipe.PipeProofsMain.hyp_block_sizes p pix -> hyp_psot_fits p pix ->
  exists cs hl e, pipe_encode p pix = Ok cs /\
    fst (k_main_header (fuel_of cs) cs) = Ok (mkSiz (pp_w p) (pp_h p) 0 0 (pp_w p) (pp_h p) 0 0 (pp_nc p), hl) /\
    fst (k_parse_tile (fuel_of cs) (pp_nc p) cs hl) = Ok (0, e) /\
    hl + 14 <= e /\ e + 2 = zlen cs /\
    pipe_decode_tile p (k_slice cs (hl + 14) (e - (hl + 14))) = Ok pix.
Proof.
  intros p Hsc samples Hsm pix Hbs Hps.
  destruct (V.Pipe.PipeProofsMain.pipe_roundtrip_partial p Hsc samples Hsm Hbs) as [tile [Eenc Edec]].
  fold pix in Eenc, Edec. specialize (Hps tile Eenc).
  set (hl := zlen (pipe_main_header p)).
  exists (pipe_codestream p tile), hl, (hl + 14 + zlen tile).
  split; [unfold pipe_encode; rewrite Eenc; reflexivity|].
  split; [exact (pst_main_header_parse_fuel_of p tile Hsc)|].
  assert (Hf : (1 <= fuel_of (pipe_codestream p tile))%nat) by (unfold fuel_of; lia).
  destruct (pst_tile_parse p tile (pp_nc p) _ Hps Hf) as (E1 & E2 & E3 & _). fold hl in E1, E2, E3.
  split; [rewrite E1; reflexivity|].
  pose proof (pst_zlen_nonneg _ tile).
  split; [lia|]. split; [lia|].
  replace (hl + 14 + zlen tile - (hl + 14)) with (zlen tile) by lia. rewrite E2. exact Edec.
Qed.

(* ---------------------------------------------------------------- parser model vs strict walker *)

Require V.Framing.FrmBase V.Framing.FrmJ2k V.PipeStream.PstModel.

(* The tile-part parser delimits by Psot and never looks at the tile bytes, so it accepts tile data
   the strict walker (Framing/FrmJ2k.v, no marker code >= FF90 inside tile data) refuses.  Witness:
   tile bytes 01 FF 91 07 in the 2x2 RGB codestream.  The Psot = 0 path (readTileData, a scan for
   FF xx with xx >= 4F) would cut this tile after its first byte (offset 128 instead of 131); the
   encoder never writes Psot = 0. *)
Lemma pst_parser_walker_discrepancy :
  let p := mkPP 2 2 3 8 false 1 4 4 true 2 0 0 2 in
  let tile := [1; 255; 145; 7] in
  let cs := pipe_codestream p tile in
  pp_scope p /\ PstModel.tile_clean tile = false /\
  k_main_header 5 cs = (Ok (mkSiz 2 2 0 0 2 2 0 0 3, 113), [9; 4; 33]) /\
  k_parse_tile 1 3 cs 113 = (Ok (0, 131), []) /\
  k_slice cs 127 4 = tile /\
  FrmJ2k.j2k_walk cs = FrmBase.WBad FrmBase.RTileMarker 128 /\
  k_read_tile_data cs 127 = (Ok 128, []).
Proof.
  cbv zeta. split; [unfold pp_scope, pow2_size; cbn; lia|].
  repeat split; vm_compute; reflexivity.
Qed.
