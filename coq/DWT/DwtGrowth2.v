(* Sharper growth of the multilevel forward 5/3 transform (over Z).  The LOW half of a 1-D
   pass on samples within [-A, A] is within [-Lb A, Lb A], Lb A = (3A+1)/2 (not 2A): the
   low-pass sample is 3/4 c + 1/4 (o + o') - 1/8 (e + e') up to rounding.  Only the low-low
   window is transformed again, so through the levels the window bound grows by Lb . Lb
   (about 9/4) per level while everything else is bounded by 4 x (window bound of the level
   that produced it). *)
From V Require Import Common.Base DWT.DwtModel DWT.DwtProofs DWT.DwtProofs2D DWT.DwtGrowth.
From Coq Require Import ZifyBool ZifyNat.
Ltac Zify.zify_post_hook ::= Z.div_mod_to_equations.

Definition Lb (a : Z) : Z := (3 * a + 1) / 2.

Lemma Lb_ge : forall a, 0 <= a -> a <= Lb a.
Proof. intros a H. unfold Lb. lia. Qed.

Lemma Lb_mono : forall a b, a <= b -> Lb a <= Lb b.
Proof. intros a b H. unfold Lb. lia. Qed.

(* h is 0 or a predict value o - ((c + e) >> 1) next to the sample c *)
Definition adj (A h c : Z) : Prop :=
  h = 0 \/ exists o e, - A <= o <= A /\ - A <= e <= A /\ h = o - sr1 (c + e).

Lemma update_sharp : forall A c h h', 0 <= A -> - A <= c <= A -> adj A h c -> adj A h' c ->
  - Lb A <= c + sr2 (h + h' + 2) <= Lb A.
Proof.
  intros A c h h' HA Hc [H0|(o & e & Ho & He & Hh)] [H0'|(o' & e' & Ho' & He' & Hh')]; subst;
    unfold Lb; rewrite ?sr2_div, ?sr1_div; lia.
Qed.

Lemma sr1_twice : forall c, sr1 (c + c) = c.
Proof. intros c. rewrite sr1_div. lia. Qed.

Lemma adj_int : forall A o c e, - A <= o <= A -> - A <= e <= A -> adj A (o - sr1 (c + e)) c.
Proof. intros. right. exists o, e. auto. Qed.

Lemma adj_int' : forall A o c e, - A <= o <= A -> - A <= e <= A -> adj A (o - sr1 (e + c)) c.
Proof. intros. right. exists o, e. rewrite (Z.add_comm c e). auto. Qed.

Lemma adj_edge : forall A o c, - A <= o <= A -> - A <= c <= A -> adj A (o - c) c.
Proof. intros. right. exists o, c. rewrite sr1_twice. auto. Qed.

Lemma zn_map_seq_app : forall (f : nat -> Z) a n t i,
  zn (map f (seq a n) ++ t) i = if (i <? n)%nat then f (a + i)%nat else zn t (i - n).
Proof.
  intros f a n t i. destruct (Nat.ltb_spec i n) as [H|H].
  - rewrite zn_app1 by (rewrite map_length, seq_length; exact H). apply zn_map_seq. exact H.
  - rewrite zn_app2 by (rewrite map_length, seq_length; exact H). rewrite map_length, seq_length. reflexivity.
Qed.

Lemma zn_opt : forall (c : bool) v j, zn (if c then [v] else []) j = if c && (j =? 0)%nat then v else 0.
Proof. intros [|] v [|[|j]]; reflexivity. Qed.

Lemma zn_cons : forall v t i, zn (v :: t) i = if (i =? 0)%nat then v else zn t (i - 1).
Proof. intros v t [|i]; [reflexivity|]. cbn [Nat.eqb]. unfold zn. cbn [nth]. f_equal. lia. Qed.

Section OneDSharp.
  Variable A : Z.
  Variable x : list Z.
  Hypothesis HA : 0 <= A.
  Hypothesis Hx : bnd A x.

  Let X : forall i, - A <= zn x i <= A := fun i => bnd_zn A x i HA Hx.

  (* ---- even parity ---- *)
  Lemma hiE_adjL : forall i, adj A (zn (hiE x) i) (zn x (2 * i)).
  Proof.
    intros i. unfold hiE. rewrite zn_map_seq_app. cbn [Nat.add].
    destruct (Nat.ltb_spec i (Nat.div2 (length x + 1) - 1)) as [Hi|Hi].
    - replace (i * 2)%nat with (2 * i)%nat by lia. apply adj_int; apply X.
    - rewrite zn_opt. destruct (Nat.even (length x)); cbn [andb]; [|left; reflexivity].
      destruct (Nat.eqb_spec (i - (Nat.div2 (length x + 1) - 1)) 0) as [E|E]; [|left; reflexivity].
      replace (Nat.div2 (length x + 1) - 1)%nat with i by lia.
      replace (i * 2)%nat with (2 * i)%nat by lia. apply adj_edge; apply X.
  Qed.

  Lemma hiE_adjR : forall i, (i + 1 < Nat.div2 (length x + 1))%nat \/ Nat.even (length x) = false ->
    adj A (zn (hiE x) i) (zn x (2 * i + 2)).
  Proof.
    intros i H. unfold hiE. rewrite zn_map_seq_app. cbn [Nat.add].
    destruct (Nat.ltb_spec i (Nat.div2 (length x + 1) - 1)) as [Hi|Hi].
    - replace ((i + 1) * 2)%nat with (2 * i + 2)%nat by lia. apply adj_int'; apply X.
    - destruct H as [H|H]; [lia|]. rewrite H. left. destruct (i - _)%nat; reflexivity.
  Qed.

  Lemma loE_sharp : (2 <= length x)%nat -> bnd (Lb A) (loE x).
  Proof.
    intros Hlen.
    set (sn := Nat.div2 (length x + 1)). set (dn := (length x - sn)%nat).
    assert (Hsn : (dn <= sn /\ 1 <= dn)%nat) by (unfold dn, sn; rewrite Nat.div2_div; lia).
    unfold loE. fold sn. fold dn.
    apply bnd_app; [apply bnd_one; apply update_sharp; auto; apply (hiE_adjL 0)|].
    apply bnd_app.
    - unfold bnd. apply Forall_forall. intros v Hv. apply in_map_iff in Hv.
      destruct Hv as (i & <- & Hi). apply in_seq in Hi.
      apply update_sharp; auto.
      + replace (2 * i)%nat with (2 * (i - 1) + 2)%nat by lia. apply hiE_adjR. left. fold sn. lia.
      + apply hiE_adjL.
    - destruct (Nat.odd (length x)) eqn:Od; [|constructor].
      apply bnd_one. apply update_sharp; auto;
        (replace (2 * dn)%nat with (2 * (dn - 1) + 2)%nat by lia; apply hiE_adjR; right;
         rewrite <- Nat.negb_odd, Od; reflexivity).
  Qed.

  (* ---- odd parity ---- *)
  Hypothesis Hlen : (2 <= length x)%nat.

  Lemma hiO_adjR : forall i, (i < Nat.div2 (length x))%nat \/ Nat.odd (length x) = false ->
    adj A (zn (hiO x) i) (zn x (2 * i + 1)).
  Proof.
    intros i H. unfold hiO. cbn [app]. rewrite zn_cons.
    destruct (Nat.eqb_spec i 0) as [E|E]; [subst i; apply adj_edge; apply X|].
    rewrite zn_map_seq_app.
    destruct (Nat.ltb_spec (i - 1) (Nat.div2 (length x) - 1)) as [Hi|Hi].
    - replace (1 + (i - 1))%nat with i by lia. apply adj_int; apply X.
    - destruct H as [H|H]; [lia|]. rewrite H. left. destruct (i - 1 - _)%nat; reflexivity.
  Qed.

  Lemma hiO_adjL : forall i, (1 <= i)%nat -> adj A (zn (hiO x) i) (zn x (2 * (i - 1) + 1)).
  Proof.
    intros i H1. unfold hiO. cbn [app]. rewrite zn_cons.
    destruct (Nat.eqb_spec i 0) as [E|E]; [lia|].
    rewrite zn_map_seq_app.
    assert (Hsn : (1 <= Nat.div2 (length x))%nat) by (rewrite Nat.div2_div; lia).
    destruct (Nat.ltb_spec (i - 1) (Nat.div2 (length x) - 1)) as [Hi|Hi].
    - replace (1 + (i - 1))%nat with i by lia. apply adj_int'; apply X.
    - rewrite zn_opt. destruct (Nat.odd (length x)); cbn [andb]; [|left; reflexivity].
      destruct (Nat.eqb_spec (i - 1 - (Nat.div2 (length x) - 1)) 0) as [E0|E0]; [|left; reflexivity].
      replace (Nat.div2 (length x)) with i by lia. apply adj_edge; apply X.
  Qed.

  Lemma loO_sharp : bnd (Lb A) (loO x).
  Proof.
    set (sn := Nat.div2 (length x)). set (dn := (length x - sn)%nat).
    assert (Hsn : (dn <= sn + 1 /\ 1 <= dn)%nat) by (unfold dn, sn; rewrite Nat.div2_div; lia).
    unfold loO. fold sn. fold dn.
    apply bnd_app.
    - unfold bnd. apply Forall_forall. intros v Hv. apply in_map_iff in Hv.
      destruct Hv as (i & <- & Hi). apply in_seq in Hi.
      apply update_sharp; auto.
      + apply hiO_adjR. left. fold sn. lia.
      + replace (2 * i + 1)%nat with (2 * (i + 1 - 1) + 1)%nat by lia. apply hiO_adjL. lia.
    - destruct (Nat.even (length x)) eqn:Ev; [|constructor].
      apply bnd_one. apply update_sharp; auto;
        (apply hiO_adjR; right; rewrite <- Nat.negb_even, Ev; reflexivity).
  Qed.
End OneDSharp.

(* the low half of a 1-D pass: the first split_lengths (length x) even samples *)
Theorem fwd53_low_bound : forall A x even, 0 <= A -> bnd A x ->
  bnd (Lb A) (firstn (split_lengths (length x) even) (fwd53 even x)).
Proof.
  intros A x even HA Hx. destruct (Nat.leb_spec (length x) 1) as [H1|H1].
  - destruct even; cbn [fwd53 split_lengths].
    + unfold fwd53_even. destruct (Nat.leb_spec (length x) 1); [|lia].
      apply bnd_firstn. apply bnd_mono with A; [apply Lb_ge; exact HA|exact Hx].
    + replace (Nat.div2 (length x)) with 0%nat by (rewrite Nat.div2_div; lia). constructor.
  - destruct even; cbn [fwd53 split_lengths].
    + rewrite fwd53_even_eq by lia.
      assert (L : length (loE x) = Nat.div2 (length x + 1)).
      { destruct (parity_cases (length x)) as [(k & E & _)|(k & E & _)].
        - rewrite (loE_2k_length x k) by lia. rewrite Nat.div2_div. lia.
        - rewrite (loE_2k1_length x k) by lia. rewrite Nat.div2_div. lia. }
      rewrite firstn_app_exact by exact L. apply loE_sharp; try assumption; lia.
    + rewrite fwd53_odd_eq by lia.
      assert (L : length (loO x) = Nat.div2 (length x)).
      { destruct (parity_cases (length x)) as [(k & E & _)|(k & E & _)].
        - rewrite (loO_2k_length x k) by lia. rewrite Nat.div2_div. lia.
        - rewrite (loO_2k1_length x k) by lia. rewrite Nat.div2_div. lia. }
      rewrite firstn_app_exact by exact L. apply loO_sharp; try assumption; lia.
Qed.

(* ------------------------------------------------------------------------------------ *)
(* 2-D: the low-low corner of a level                                                    *)

Lemma Forall_firstn_gen : forall (T : Type) (P : T -> Prop) n (l : list T), Forall P l -> Forall P (firstn n l).
Proof.
  intros T P n l H. rewrite Forall_forall in *. intros v Hv. apply H.
  rewrite <- (firstn_skipn n l). apply in_or_app. left. exact Hv.
Qed.

Lemma firstn_zip_cons : forall k c R, firstn k (zip_cons c R) = zip_cons (firstn k c) (firstn k R).
Proof.
  induction k as [|k IH]; intros c R; [reflexivity|].
  destruct c as [|a c]; [reflexivity|]. destruct R as [|r R]; [reflexivity|].
  cbn [zip_cons firstn]. rewrite IH. reflexivity.
Qed.

Lemma firstn_app_le : forall (l l' : list Z) n, (n <= length l)%nat -> firstn n (l ++ l') = firstn n l.
Proof.
  intros l l' n H. rewrite firstn_app. replace (n - length l)%nat with 0%nat by lia.
  cbn [firstn]. apply app_nil_r.
Qed.

Lemma cols_map_two_bounds : forall f k B B1 B2 n, 0 <= B -> B <= B1 -> B <= B2 ->
  (forall c, length c = n -> bnd B c -> bnd B1 (firstn k (f c)) /\ bnd B2 (f c)) ->
  forall w M, length M = n -> mbnd B M ->
  mbnd B1 (firstn k (cols_map f w M)) /\ mbnd B2 (cols_map f w M).
Proof.
  intros f k B B1 B2 n HB H1 H2 Hf. induction w as [|w IH]; intros M Hn HM.
  - cbn [cols_map]. split; [apply Forall_firstn_gen; apply mbnd_mono with B; assumption|apply mbnd_mono with B; assumption].
  - cbn [cols_map].
    destruct (Hf (map (fun r => hd 0 r) M)) as [C1 C2]; [rewrite map_length; exact Hn|apply bnd_map_hd; assumption|].
    destruct (IH (map (@tl Z) M)) as [I1 I2]; [rewrite map_length; exact Hn|apply mbnd_map_tl; exact HM|].
    split; [rewrite firstn_zip_cons|]; apply mbnd_zip_cons; assumption.
Qed.

Lemma fwd_pass_sharp : forall cw ch er ec M0 B, rect cw M0 -> length M0 = ch -> 0 <= B -> mbnd B M0 ->
  mbnd (4 * B) (fwd_pass cw ch er ec M0) /\
  mbnd (Lb (Lb B)) (map (firstn (split_lengths cw er)) (firstn (split_lengths ch ec) (fwd_pass cw ch er ec M0))).
Proof.
  intros cw ch er ec M0 B HR HL HB HM. unfold fwd_pass.
  pose proof (Lb_ge B HB) as LB1. pose proof (Lb_ge (Lb B) ltac:(lia)) as LB2.
  set (M1 := if (1 <? ch)%nat then cols_map (fwd53 ec) cw M0 else M0).
  assert (S1 : mbnd (Lb B) (firstn (split_lengths ch ec) M1) /\ mbnd (2 * B) M1 /\ rect cw M1).
  { unfold M1. destruct (1 <? ch)%nat.
    - destruct (cols_map_two_bounds (fwd53 ec) (split_lengths ch ec) B (Lb B) (2 * B) ch HB LB1 ltac:(lia)) with (w := cw) (M := M0)
        as [T1 T2]; try assumption.
      + intros c Hc Hcb. split; [rewrite <- Hc; apply fwd53_low_bound; assumption|apply fwd53_bound; assumption].
      + split; [exact T1|]. split; [exact T2|]. apply cols_map_shape; [apply fwd53_len_pres|exact HR].
    - split; [apply Forall_firstn_gen; apply mbnd_mono with B; assumption|].
      split; [apply mbnd_mono with B; [lia|assumption]|exact HR]. }
  destruct S1 as (W1 & A1 & R1).
  destruct (1 <? cw)%nat.
  - split.
    + apply mbnd_map with (2 * B); [|exact A1]. intros l Hl.
      replace (4 * B) with (2 * (2 * B)) by lia. apply fwd53_bound; [lia|exact Hl].
    + rewrite firstn_map, map_map.
      assert (R1' : rect cw (firstn (split_lengths ch ec) M1)) by (apply Forall_firstn_gen; exact R1).
      unfold mbnd, rect in *. rewrite Forall_forall in *. intros v Hv. apply in_map_iff in Hv.
      destruct Hv as (r & <- & Hr). rewrite <- (R1' r Hr). apply fwd53_low_bound; [lia|]. apply W1. exact Hr.
  - split; [apply mbnd_mono with (2 * B); [lia|exact A1]|].
    unfold mbnd in *. rewrite Forall_forall in *. intros v Hv. apply in_map_iff in Hv.
    destruct Hv as (r & <- & Hr). apply bnd_firstn. apply bnd_mono with (Lb B); [lia|]. apply W1. exact Hr.
Qed.

(* the smaller window of a reassembled buffer *)
Lemma split_win_sub : forall cw stride cw' ch' rs tl, (cw <= stride)%nat -> (cw' <= cw)%nat ->
  win_shape cw stride rs -> (ch' <= length rs)%nat ->
  map fst (fst (split_win cw' stride ch' (join_win rs tl))) = map (firstn cw') (firstn ch' (map fst rs)).
Proof.
  intros cw stride cw' ch' rs tl Hs Hc. revert rs. induction ch' as [|ch' IH]; intros rs HS Hl; [reflexivity|].
  destruct rs as [|[a b] rs]; [simpl in Hl; lia|].
  pose proof (Forall_inv HS) as [Ha Hb]. pose proof (Forall_inv_tail HS) as HS'. cbn [fst snd] in Ha, Hb.
  cbn [split_win]. rewrite join_win_cons.
  assert (Hab : length (a ++ b) = stride) by (rewrite app_length; lia).
  rewrite (skipn_app_exact _ _ _ Hab), (firstn_app_exact _ _ _ Hab).
  specialize (IH rs HS' ltac:(simpl in Hl; lia)).
  destruct (split_win cw' stride ch' (join_win rs tl)) as [rs2 tl2]. cbn [fst snd map firstn] in *.
  rewrite IH. f_equal. apply firstn_app_le. lia.
Qed.

(* ------------------------------------------------------------------------------------ *)
(* multilevel                                                                            *)

(* B bounds the current window, M the whole buffer *)
Fixpoint gM (l : nat) (B M : Z) : Z :=
  match l with
  | O => M
  | S l' => gM l' (Lb (Lb B)) (Z.max M (4 * B))
  end.

Lemma gM_ge : forall l B M, M <= gM l B M.
Proof. induction l as [|l IH]; intros B M; cbn [gM]; [lia|]. specialize (IH (Lb (Lb B)) (Z.max M (4 * B))). lia. Qed.

Lemma ml_loop_sharp : forall l stride d win B M,
  let '(cw, ch, _, _) := win in
  (cw <= stride)%nat -> (stride * ch <= length d)%nat -> 0 <= B -> bnd M d ->
  mbnd B (map fst (fst (split_win cw stride ch d))) ->
  bnd (gM l B M) (fwd53_ml_loop l d stride win).
Proof.
  induction l as [|l IH]; intros stride d [[[cw ch] cx] cy] B M Hw Hd HB HM HW.
  - exact HM.
  - cbn [fwd53_ml_loop gM].
    destruct ((cw <=? 1)%nat && (ch <=? 1)%nat) eqn:G.
    + apply bnd_mono with M; [|exact HM]. pose proof (gM_ge l (Lb (Lb B)) (Z.max M (4 * B))). lia.
    + pose proof (wa_shape cw ch stride d Hw Hd) as SH. pose proof (wa_len cw ch stride d Hw Hd) as LE.
      destruct (split_win_bnd M cw stride ch d HM) as (_ & BS & BT).
      set (rs := fst (split_win cw stride ch d)) in *. set (tl := snd (split_win cw stride ch d)) in *.
      destruct (fwd_pass_sharp cw ch (is_even cx) (is_even cy) (map fst rs) B) as [FA FW];
        [apply win_shape_fst with stride; exact SH|rewrite map_length; exact LE|exact HB|exact HW|].
      destruct (fwd_pass_shape cw ch (is_even cx) (is_even cy) (map fst rs) (win_shape_fst _ _ _ SH)) as [FR FL].
      rewrite map_length in FL.
      assert (E : fwd53_2d d cw ch stride (is_even cx) (is_even cy) =
                  join_win (combine (fwd_pass cw ch (is_even cx) (is_even cy) (map fst rs)) (map snd rs)) tl).
      { rewrite fwd53_2d_eq, G. apply (win_apply_eq cw ch stride d). }
      specialize (IH stride (fwd53_2d d cw ch stride (is_even cx) (is_even cy)) (next_window (cw, ch, cx, cy))
                     (Lb (Lb B)) (Z.max M (4 * B))).
      cbn [next_window] in IH |- *. apply IH.
      * pose proof (split_lengths_le cw (is_even cx)). lia.
      * rewrite fwd53_2d_length by assumption.
        pose proof (split_lengths_le ch (is_even cy)) as Hle.
        apply (Nat.mul_le_mono_l _ _ stride) in Hle. lia.
      * pose proof (Lb_ge B HB). pose proof (Lb_ge (Lb B)). lia.
      * rewrite E. apply join_win_bnd.
        -- apply mbnd_mono with (4 * B); [lia|exact FA].
        -- apply mbnd_mono with M; [lia|exact BS].
        -- apply bnd_mono with M; [lia|exact BT].
      * rewrite E.
        rewrite (split_win_sub cw stride).
        -- rewrite map_fst_combine by (rewrite map_length; lia). exact FW.
        -- exact Hw.
        -- apply split_lengths_le.
        -- apply win_shape_combine; [exact SH|exact FR|exact FL].
        -- rewrite combine_length, map_length, FL. pose proof (split_lengths_le ch (is_even cy)). lia.
Qed.

Theorem fwd53_ml_bound_gM : forall (levels : nat) (A : Z) (d : list Z) (w h : nat) (x0 y0 : Z),
  0 <= A -> bnd A d -> (w * h <= length d)%nat ->
  bnd (gM levels A A) (fwd53_ml d w h levels x0 y0).
Proof.
  intros levels A d w h x0 y0 HA Hd Hl. unfold fwd53_ml.
  apply (ml_loop_sharp levels w d (w, h, x0, y0) A A); try assumption; [lia|].
  apply (split_win_bnd A w w h d Hd).
Qed.

(* closed form for up to 6 levels: 4 * (9/4)^5 = 230.66..., rounding slack included *)
Lemma gM_le_6 : forall levels A, (levels <= 6)%nat -> 0 <= A -> gM levels A A <= 231 * A + 227.
Proof.
  intros levels A Hl HA.
  do 7 (destruct levels as [|levels]; [cbn [gM]; unfold Lb; lia|]). lia.
Qed.

Theorem fwd53_ml_bound_sharp : forall (levels : nat) (A : Z) (d : list Z) (w h : nat) (x0 y0 : Z),
  (levels <= 6)%nat -> 0 <= A -> bnd A d -> (w * h <= length d)%nat ->
  bnd (231 * A + 227) (fwd53_ml d w h levels x0 y0).
Proof.
  intros levels A d w h x0 y0 Hl HA Hd Hlen.
  apply bnd_mono with (gM levels A A); [apply gM_le_6; assumption|]. apply fwd53_ml_bound_gM; assumption.
Qed.

(* multiplicative forms: constant 458 <= 511 for every A >= 1; constant 256 from A >= 10 *)
Corollary fwd53_ml_bound_sharp_458 : forall (levels : nat) (A : Z) (d : list Z) (w h : nat) (x0 y0 : Z),
  (levels <= 6)%nat -> 1 <= A -> bnd A d -> (w * h <= length d)%nat ->
  bnd (458 * A) (fwd53_ml d w h levels x0 y0).
Proof.
  intros levels A d w h x0 y0 Hl HA Hd Hlen.
  apply bnd_mono with (231 * A + 227); [lia|]. apply fwd53_ml_bound_sharp; try assumption; lia.
Qed.

Corollary fwd53_ml_bound_sharp_256 : forall (levels : nat) (A : Z) (d : list Z) (w h : nat) (x0 y0 : Z),
  (levels <= 6)%nat -> 10 <= A -> bnd A d -> (w * h <= length d)%nat ->
  bnd (256 * A) (fwd53_ml d w h levels x0 y0).
Proof.
  intros levels A d w h x0 y0 Hl HA Hd Hlen.
  apply bnd_mono with (231 * A + 227); [lia|]. apply fwd53_ml_bound_sharp; try assumption; lia.
Qed.

(* the bound is attained to within the rounding slack in the 1-D low half: non-vacuity *)
Example fwd53_low_bound_instance :
  bnd 4 [4; 4; -4; 4; 4] /\ fwd53 true [4; 4; -4; 4; 4] = [6; -2; 6; 4; 4] /\ Lb 4 = 6.
Proof. split; [repeat constructor; lia|]. split; vm_compute; reflexivity. Qed.
