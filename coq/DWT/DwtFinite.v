(* FINITE check (not the general theorem, which is DwtProofs.dwt53_inverse_1d): every signal
   of length <= 8 over {-2..2}, both parities, decided by computation over the whole domain.
   The bound is in the statement. *)
From V Require Import Common.Base DWT.DwtModel.

Fixpoint all_signals (n : nat) : list (list Z) :=
  match n with
  | O => [[]]
  | S n' => flat_map (fun s => map (fun v => v :: s) [-2; -1; 0; 1; 2]) (all_signals n')
  end.

Fixpoint zlist_eqb (a b : list Z) : bool :=
  match a, b with
  | [], [] => true
  | x :: a', y :: b' => (x =? y) && zlist_eqb a' b'
  | _, _ => false
  end.

Lemma zlist_eqb_eq : forall a b, zlist_eqb a b = true -> a = b.
Proof.
  induction a as [|x a IH]; intros [|y b] H; simpl in H; try discriminate; [reflexivity|].
  apply andb_true_iff in H. destruct H as [H1 H2]. apply Z.eqb_eq in H1. subst y. f_equal. apply IH. exact H2.
Qed.

Definition roundtrip_ok (even : bool) (s : list Z) : bool := zlist_eqb (inv53 even (fwd53 even s)) s.

Definition small_signal (s : list Z) : Prop := (length s <= 8)%nat /\ Forall (fun v => -2 <= v <= 2) s.

Lemma all_signals_complete : forall s, Forall (fun v => -2 <= v <= 2) s -> In s (all_signals (length s)).
Proof.
  induction s as [|v s IH]; intros H; [left; reflexivity|].
  pose proof (Forall_inv H) as Hv. pose proof (Forall_inv_tail H) as Hs. cbn beta in Hv.
  cbn [length all_signals]. apply in_flat_map. exists s. split; [apply IH; exact Hs|].
  assert (C : v = -2 \/ v = -1 \/ v = 0 \/ v = 1 \/ v = 2) by lia.
  destruct C as [C|[C|[C|[C|C]]]]; subst v; simpl; tauto.
Qed.

Lemma dwt53_exhaustive_check :
  forallb (fun n => forallb (roundtrip_ok true) (all_signals n) && forallb (roundtrip_ok false) (all_signals n))
          (seq 0 9) = true.
Proof. vm_cast_no_check (eq_refl true). Qed.

Theorem dwt53_inverse_1d_finite_len8 : forall (even : bool) (s : list Z),
  small_signal s -> inv53 even (fwd53 even s) = s.
Proof.
  intros even s [Hl Hv]. apply zlist_eqb_eq.
  pose proof dwt53_exhaustive_check as C. rewrite forallb_forall in C.
  specialize (C (length s)). rewrite in_seq in C. specialize (C ltac:(lia)).
  apply andb_true_iff in C. destruct C as [C1 C2]. rewrite forallb_forall in C1, C2.
  destruct even; [apply C1|apply C2]; apply all_signals_complete; exact Hv.
Qed.
