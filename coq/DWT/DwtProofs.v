(* 1-D 5/3 reversible wavelet: the streaming inverse (OpenJPEG cas0/cas1 form) undoes the
   predict/update forward transform, for every signal length and both parities. *)
From V Require Import Common.Base DWT.DwtModel.
From Coq Require Import ZifyBool ZifyNat.
Ltac Zify.zify_post_hook ::= Z.div_mod_to_equations.

(* ------------------------------------------------------------------------------------ *)
(* arithmetic                                                                             *)

Lemma sr1_div : forall x, sr1 x = x / 2.
Proof. intros x. unfold sr1. rewrite Z.shiftr_div_pow2 by lia. reflexivity. Qed.

Lemma sr2_div : forall x, sr2 x = x / 4.
Proof. intros x. unfold sr2. rewrite Z.shiftr_div_pow2 by lia. reflexivity. Qed.

(* boundary form of the update term: (h + h + 2) >> 2 = (h + 1) >> 1 *)
Lemma sr2_double : forall h, sr2 (h + h + 2) = sr1 (h + 1).
Proof. intros h. rewrite sr2_div, sr1_div. lia. Qed.

Lemma quot_double : forall x, Z.quot (x * 2) 2 = x.
Proof. intros x. apply Z.quot_mul. lia. Qed.

(* ------------------------------------------------------------------------------------ *)
(* lists                                                                                  *)

Lemma zn_map_seq : forall (f : nat -> Z) a n i, (i < n)%nat -> zn (map f (seq a n)) i = f (a + i)%nat.
Proof.
  intros f a n i Hi. unfold zn.
  rewrite (nth_indep _ 0 (f 0%nat)) by (rewrite map_length, seq_length; exact Hi).
  rewrite map_nth. rewrite seq_nth by exact Hi. reflexivity.
Qed.

Lemma zn_app1 : forall l l' i, (i < length l)%nat -> zn (l ++ l') i = zn l i.
Proof. intros. unfold zn. apply app_nth1. assumption. Qed.

Lemma zn_app2 : forall l l' i, (length l <= i)%nat -> zn (l ++ l') i = zn l' (i - length l).
Proof. intros. unfold zn. apply app_nth2. lia. Qed.

Lemma zn_app_plus : forall l l' n i, length l = n -> zn (l ++ l') (n + i) = zn l' i.
Proof. intros l l' n i H. subst n. unfold zn. apply app_nth2_plus. Qed.

Lemma skipn_cons_zn : forall (x : list Z) k, (k < length x)%nat -> skipn k x = zn x k :: skipn (S k) x.
Proof.
  induction x as [|a x IH]; intros k Hk; [simpl in Hk; lia|].
  destruct k as [|k]; [reflexivity|].
  cbn [skipn]. unfold zn. cbn [nth]. apply IH. simpl in Hk. lia.
Qed.

Lemma split_at_eq : forall (x : list Z) n t, skipn n x = t -> firstn n x ++ t = x.
Proof. intros x n t H. subst t. apply firstn_skipn. Qed.

Lemma parity_cases : forall w : nat,
  (exists k, w = (2 * k)%nat /\ Nat.even w = true /\ Nat.odd w = false) \/
  (exists k, w = (2 * k + 1)%nat /\ Nat.even w = false /\ Nat.odd w = true).
Proof.
  intros w. destruct (Nat.Even_or_Odd w) as [[k Hk]|[k Hk]]; [left|right]; exists k.
  - split; [exact Hk|]. assert (E : Nat.even w = true) by (apply Nat.even_spec; exists k; exact Hk).
    split; [exact E|]. rewrite <- Nat.negb_even, E. reflexivity.
  - split; [exact Hk|]. assert (O : Nat.odd w = true) by (apply Nat.odd_spec; exists k; exact Hk).
    split; [|exact O]. rewrite <- Nat.negb_odd, O. reflexivity.
Qed.

(* ------------------------------------------------------------------------------------ *)
(* the two halves of the forward transform, as separate lists                            *)

Definition hiE (x : list Z) : list Z :=
  let w := length x in let sn := Nat.div2 (w + 1) in
  map (fun i => zn x (2 * i + 1) - sr1 (zn x (i * 2) + zn x ((i + 1) * 2))) (seq 0 (sn - 1))
  ++ (if Nat.even w then [zn x (2 * (sn - 1) + 1) - zn x ((sn - 1) * 2)] else []).

Definition loE (x : list Z) : list Z :=
  let w := length x in let sn := Nat.div2 (w + 1) in let dn := (w - sn)%nat in
  let hi := hiE x in
  [zn x 0 + sr2 (zn hi 0 + zn hi 0 + 2)]
  ++ map (fun i => zn x (2 * i) + sr2 (zn hi (i - 1) + zn hi i + 2)) (seq 1 (dn - 1))
  ++ (if Nat.odd w then [zn x (2 * dn) + sr2 (zn hi (dn - 1) + zn hi (dn - 1) + 2)] else []).

Lemma fwd53_even_eq : forall x, (2 <= length x)%nat -> fwd53_even x = loE x ++ hiE x.
Proof.
  intros x H. unfold fwd53_even. destruct (Nat.leb_spec (length x) 1) as [H1|H1]; [lia|]. reflexivity.
Qed.

Definition hiO (x : list Z) : list Z :=
  let w := length x in let sn := Nat.div2 w in
  [zn x 0 - zn x 1]
  ++ map (fun i => zn x (2 * i) - sr1 (zn x (2 * i + 1) + zn x (2 * (i - 1) + 1))) (seq 1 (sn - 1))
  ++ (if Nat.odd w then [zn x (2 * sn) - zn x (2 * (sn - 1) + 1)] else []).

Definition loO (x : list Z) : list Z :=
  let w := length x in let sn := Nat.div2 w in let dn := (w - sn)%nat in
  let hi := hiO x in
  map (fun i => zn x (2 * i + 1) + sr2 (zn hi i + zn hi (i + 1) + 2)) (seq 0 (dn - 1))
  ++ (if Nat.even w then [zn x (2 * (dn - 1) + 1) + sr2 (zn hi (dn - 1) + zn hi (dn - 1) + 2)] else []).

Lemma fwd53_odd_eq : forall x, (2 <= length x)%nat -> fwd53_odd x = loO x ++ hiO x.
Proof.
  intros x H. unfold fwd53_odd.
  destruct (Nat.eqb_spec (length x) 1) as [H1|H1]; [lia|].
  destruct (Nat.eqb_spec (length x) 0) as [H0|H0]; [lia|]. reflexivity.
Qed.

(* ---- even parity, width = 2k (k >= 1): sn = dn = k ---------------------------------- *)

Section EvenParityEvenWidth.
  Variable x : list Z.
  Variable k : nat.
  Hypothesis Hw : length x = (2 * k)%nat.
  Hypothesis Hk : (1 <= k)%nat.

  Lemma hiE_2k :
    hiE x = map (fun i => zn x (2 * i + 1) - sr1 (zn x (i * 2) + zn x ((i + 1) * 2))) (seq 0 (k - 1))
            ++ [zn x (2 * (k - 1) + 1) - zn x ((k - 1) * 2)].
  Proof.
    unfold hiE. destruct (parity_cases (length x)) as [(k' & E & Ev & Od)|(k' & E & Ev & Od)]; [|lia].
    rewrite Ev. replace (Nat.div2 (length x + 1)) with k by (rewrite Nat.div2_div; lia). reflexivity.
  Qed.

  Lemma hiE_2k_length : length (hiE x) = k.
  Proof. rewrite hiE_2k, app_length, map_length, seq_length. simpl. lia. Qed.

  Lemma hiE_2k_int : forall i, (i + 1 < k)%nat ->
    zn (hiE x) i = zn x (2 * i + 1) - sr1 (zn x (2 * i) + zn x (2 * i + 2)).
  Proof.
    intros i Hi. rewrite hiE_2k, zn_app1 by (rewrite map_length, seq_length; lia).
    rewrite zn_map_seq by lia. cbn [plus].
    replace (i * 2)%nat with (2 * i)%nat by lia. replace ((i + 1) * 2)%nat with (2 * i + 2)%nat by lia.
    reflexivity.
  Qed.

  Lemma hiE_2k_last : zn (hiE x) (k - 1) = zn x (2 * k - 1) - zn x (2 * k - 2).
  Proof.
    rewrite hiE_2k, zn_app2 by (rewrite map_length, seq_length; lia).
    rewrite map_length, seq_length. replace (k - 1 - (k - 1))%nat with 0%nat by lia.
    unfold zn at 1. cbn [nth].
    replace (2 * (k - 1) + 1)%nat with (2 * k - 1)%nat by lia.
    replace ((k - 1) * 2)%nat with (2 * k - 2)%nat by lia. reflexivity.
  Qed.

  Lemma loE_2k :
    loE x = [zn x 0 + sr2 (zn (hiE x) 0 + zn (hiE x) 0 + 2)]
            ++ map (fun i => zn x (2 * i) + sr2 (zn (hiE x) (i - 1) + zn (hiE x) i + 2)) (seq 1 (k - 1)).
  Proof.
    unfold loE. destruct (parity_cases (length x)) as [(k' & E & Ev & Od)|(k' & E & Ev & Od)]; [|lia].
    rewrite Od. replace (Nat.div2 (length x + 1)) with k by (rewrite Nat.div2_div; lia).
    replace (length x - k)%nat with k by lia. rewrite app_nil_r. reflexivity.
  Qed.

  Lemma loE_2k_length : length (loE x) = k.
  Proof. rewrite loE_2k, app_length, map_length, seq_length. simpl. lia. Qed.

  Lemma loE_2k_0 : zn (loE x) 0 = zn x 0 + sr2 (zn (hiE x) 0 + zn (hiE x) 0 + 2).
  Proof. rewrite loE_2k. reflexivity. Qed.

  Lemma loE_2k_int : forall i, (1 <= i < k)%nat ->
    zn (loE x) i = zn x (2 * i) + sr2 (zn (hiE x) (i - 1) + zn (hiE x) i + 2).
  Proof.
    intros i Hi. rewrite loE_2k, zn_app2 by (simpl; lia). cbn [length].
    rewrite zn_map_seq by lia. replace (1 + (i - 1))%nat with i by lia. reflexivity.
  Qed.
End EvenParityEvenWidth.

(* ---- even parity, width = 2k+1 (k >= 1): sn = k+1, dn = k -------------------------- *)

Section EvenParityOddWidth.
  Variable x : list Z.
  Variable k : nat.
  Hypothesis Hw : length x = (2 * k + 1)%nat.
  Hypothesis Hk : (1 <= k)%nat.

  Lemma hiE_2k1 :
    hiE x = map (fun i => zn x (2 * i + 1) - sr1 (zn x (i * 2) + zn x ((i + 1) * 2))) (seq 0 k).
  Proof.
    unfold hiE. destruct (parity_cases (length x)) as [(k' & E & Ev & Od)|(k' & E & Ev & Od)]; [lia|].
    rewrite Ev. replace (Nat.div2 (length x + 1)) with (k + 1)%nat by (rewrite Nat.div2_div; lia).
    replace (k + 1 - 1)%nat with k by lia. rewrite app_nil_r. reflexivity.
  Qed.

  Lemma hiE_2k1_length : length (hiE x) = k.
  Proof. rewrite hiE_2k1, map_length, seq_length. reflexivity. Qed.

  Lemma hiE_2k1_int : forall i, (i < k)%nat ->
    zn (hiE x) i = zn x (2 * i + 1) - sr1 (zn x (2 * i) + zn x (2 * i + 2)).
  Proof.
    intros i Hi. rewrite hiE_2k1, zn_map_seq by lia. cbn [plus].
    replace (i * 2)%nat with (2 * i)%nat by lia. replace ((i + 1) * 2)%nat with (2 * i + 2)%nat by lia.
    reflexivity.
  Qed.

  Lemma loE_2k1 :
    loE x = [zn x 0 + sr2 (zn (hiE x) 0 + zn (hiE x) 0 + 2)]
            ++ map (fun i => zn x (2 * i) + sr2 (zn (hiE x) (i - 1) + zn (hiE x) i + 2)) (seq 1 (k - 1))
            ++ [zn x (2 * k) + sr2 (zn (hiE x) (k - 1) + zn (hiE x) (k - 1) + 2)].
  Proof.
    unfold loE. destruct (parity_cases (length x)) as [(k' & E & Ev & Od)|(k' & E & Ev & Od)]; [lia|].
    rewrite Od. replace (Nat.div2 (length x + 1)) with (k + 1)%nat by (rewrite Nat.div2_div; lia).
    replace (length x - (k + 1))%nat with k by lia. reflexivity.
  Qed.

  Lemma loE_2k1_length : length (loE x) = (k + 1)%nat.
  Proof. rewrite loE_2k1, !app_length, map_length, seq_length. simpl. lia. Qed.

  Lemma loE_2k1_0 : zn (loE x) 0 = zn x 0 + sr2 (zn (hiE x) 0 + zn (hiE x) 0 + 2).
  Proof. rewrite loE_2k1. reflexivity. Qed.

  Lemma loE_2k1_int : forall i, (1 <= i < k)%nat ->
    zn (loE x) i = zn x (2 * i) + sr2 (zn (hiE x) (i - 1) + zn (hiE x) i + 2).
  Proof.
    intros i Hi. rewrite loE_2k1, zn_app2 by (simpl; lia). cbn [length].
    rewrite zn_app1 by (rewrite map_length, seq_length; lia).
    rewrite zn_map_seq by lia. replace (1 + (i - 1))%nat with i by lia. reflexivity.
  Qed.

  Lemma loE_2k1_last : zn (loE x) k = zn x (2 * k) + sr2 (zn (hiE x) (k - 1) + zn (hiE x) (k - 1) + 2).
  Proof.
    rewrite loE_2k1, zn_app2 by (simpl; lia). cbn [length].
    rewrite zn_app2 by (rewrite map_length, seq_length; lia).
    rewrite map_length, seq_length. replace (k - 1 - (k - 1))%nat with 0%nat by lia. reflexivity.
  Qed.
End EvenParityOddWidth.

(* ---- the cas0 loop ------------------------------------------------------------------ *)

(* If, over the range the loop visits, the coefficient buffer d is related to a signal x by
   the lifting equations, the loop emits x[2 j0 .. 2 (j0+n)) and ends in the state
   (H[j0+n], x[2 (j0+n)]). *)
Lemma inv53_even_loop_ok : forall n j0 sn d x d1n s0n,
  (forall k, (j0 < k <= j0 + n)%nat ->
     zn d k = zn x (2 * k) + sr2 (zn d (sn + (k - 1)) + zn d (sn + k) + 2)) ->
  (forall k, (j0 <= k < j0 + n)%nat ->
     zn d (sn + k) = zn x (2 * k + 1) - sr1 (zn x (2 * k) + zn x (2 * k + 2))) ->
  (2 * (j0 + n) < length x)%nat ->
  d1n = zn d (sn + j0) -> s0n = zn x (2 * j0) ->
  inv53_even_loop n (S j0) sn d d1n s0n =
    (firstn (2 * n) (skipn (2 * j0) x), (zn d (sn + (j0 + n)), zn x (2 * (j0 + n)))).
Proof.
  induction n as [|n IH]; intros j0 sn d x d1n s0n HL HH Hlen Hd Hs.
  - cbn [inv53_even_loop]. rewrite Nat.add_0_r. subst. reflexivity.
  - cbn [inv53_even_loop].
    assert (E1 : zn d (S j0) - sr2 (d1n + zn d (sn + S j0) + 2) = zn x (2 * S j0)).
    { rewrite (HL (S j0)) by lia. replace (S j0 - 1)%nat with j0 by lia. subst d1n. lia. }
    rewrite E1.
    rewrite (IH (S j0) sn d x (zn d (sn + S j0)) (zn x (2 * S j0))); try reflexivity; try lia.
    + replace (S j0 + n)%nat with (j0 + S n)%nat by lia.
      f_equal.
      assert (E2 : d1n + sr1 (s0n + zn x (2 * S j0)) = zn x (2 * j0 + 1)).
      { subst d1n s0n. rewrite (HH j0) by lia. replace (2 * S j0)%nat with (2 * j0 + 2)%nat by lia. lia. }
      rewrite E2. subst s0n.
      rewrite (skipn_cons_zn x (2 * j0)) by lia.
      rewrite (skipn_cons_zn x (S (2 * j0))) by lia.
      replace (2 * S n)%nat with (S (S (2 * n))) by lia. cbn [firstn].
      replace (S (2 * j0)) with (2 * j0 + 1)%nat by lia.
      replace (S (2 * j0 + 1)) with (2 * S j0)%nat by lia. reflexivity.
    + intros k Hk. apply HL. lia.
    + intros k Hk. apply HH. lia.
Qed.

Lemma fwd53_even_length : forall x, length (fwd53_even x) = length x.
Proof.
  intros x. destruct (Nat.leb_spec (length x) 1) as [H1|H1].
  - unfold fwd53_even. destruct (Nat.leb_spec (length x) 1); [reflexivity|lia].
  - rewrite fwd53_even_eq by lia. rewrite app_length.
    destruct (parity_cases (length x)) as [(k & E & _)|(k & E & _)].
    + rewrite (loE_2k_length x k), (hiE_2k_length x k) by lia. lia.
    + rewrite (loE_2k1_length x k), (hiE_2k1_length x k) by lia. lia.
Qed.

Lemma inv_fwd_even_2k : forall x k, length x = (2 * k)%nat -> (1 <= k)%nat ->
  inv53_even (fwd53_even x) = x.
Proof.
  intros x k Hw Hk.
  assert (HLl := loE_2k_length x k Hw Hk). assert (HHl := hiE_2k_length x k Hw Hk).
  unfold inv53_even. rewrite fwd53_even_length.
  destruct (Nat.leb_spec (length x) 1) as [H1|H1]; [lia|].
  rewrite fwd53_even_eq by lia.
  destruct (parity_cases (length x)) as [(k' & E & Ev & Od)|(k' & E & Ev & Od)]; [|lia].
  rewrite Od.
  replace (Nat.div2 (length x + 1)) with k by (rewrite Nat.div2_div; lia).
  replace (Nat.div2 (length x - 2)) with (k - 1)%nat by (rewrite Nat.div2_div; lia).
  set (d := loE x ++ hiE x).
  assert (Dlo : forall j, (j < k)%nat -> zn d j = zn (loE x) j).
  { intros j Hj. unfold d. apply zn_app1. lia. }
  assert (Dhi : forall j, zn d (k + j) = zn (hiE x) j).
  { intros j. unfold d. apply zn_app_plus. exact HLl. }
  assert (Dhi0 : zn d k = zn (hiE x) 0).
  { rewrite <- (Dhi 0%nat). f_equal. lia. }
  rewrite (inv53_even_loop_ok (k - 1) 0 k d x).
  - cbn [fst snd]. rewrite Nat.add_0_l, Nat.mul_0_r. cbn [skipn].
    rewrite Dhi.
    apply split_at_eq.
    rewrite (skipn_cons_zn x (2 * (k - 1))) by lia.
    rewrite (skipn_cons_zn x (S (2 * (k - 1)))) by lia.
    rewrite skipn_all2 by lia. cbn [app]. f_equal. f_equal.
    rewrite (hiE_2k_last x k Hw Hk).
    replace (2 * k - 2)%nat with (2 * (k - 1))%nat by lia.
    replace (2 * k - 1)%nat with (S (2 * (k - 1))) by lia. lia.
  - intros j Hj. rewrite Dlo by lia. rewrite (loE_2k_int x k Hw Hk) by lia. rewrite !Dhi. reflexivity.
  - intros j Hj. rewrite Dhi. apply (hiE_2k_int x k Hw Hk). lia.
  - lia.
  - rewrite Nat.add_0_r. reflexivity.
  - rewrite Dlo by lia. rewrite (loE_2k_0 x k Hw Hk), Dhi0, sr2_double. change (2 * 0)%nat with 0%nat. lia.
Qed.

Lemma inv_fwd_even_2k1 : forall x k, length x = (2 * k + 1)%nat -> (1 <= k)%nat ->
  inv53_even (fwd53_even x) = x.
Proof.
  intros x k Hw Hk.
  assert (HLl := loE_2k1_length x k Hw Hk). assert (HHl := hiE_2k1_length x k Hw Hk).
  unfold inv53_even. rewrite fwd53_even_length.
  destruct (Nat.leb_spec (length x) 1) as [H1|H1]; [lia|].
  rewrite fwd53_even_eq by lia.
  destruct (parity_cases (length x)) as [(k' & E & Ev & Od)|(k' & E & Ev & Od)]; [lia|].
  rewrite Od.
  replace (Nat.div2 (length x + 1)) with (k + 1)%nat by (rewrite Nat.div2_div; lia).
  replace (Nat.div2 (length x - 2)) with (k - 1)%nat by (rewrite Nat.div2_div; lia).
  replace (Nat.div2 (length x - 1)) with k by (rewrite Nat.div2_div; lia).
  set (d := loE x ++ hiE x).
  assert (Dlo : forall j, (j < k + 1)%nat -> zn d j = zn (loE x) j).
  { intros j Hj. unfold d. apply zn_app1. lia. }
  assert (Dhi : forall j, zn d (k + 1 + j) = zn (hiE x) j).
  { intros j. unfold d. apply zn_app_plus. exact HLl. }
  assert (Dhi0 : zn d (k + 1) = zn (hiE x) 0).
  { rewrite <- (Dhi 0%nat). f_equal. lia. }
  rewrite (inv53_even_loop_ok (k - 1) 0 (k + 1) d x).
  - cbn [fst snd]. rewrite Nat.add_0_l, Nat.mul_0_r. cbn [skipn].
    rewrite Dhi. rewrite (Dlo k) by lia.
    apply split_at_eq.
    rewrite (skipn_cons_zn x (2 * (k - 1))) by lia.
    rewrite (skipn_cons_zn x (S (2 * (k - 1)))) by lia.
    rewrite (skipn_cons_zn x (S (S (2 * (k - 1))))) by lia.
    rewrite skipn_all2 by lia. cbn [app].
    assert (EL : zn (loE x) k - sr1 (zn (hiE x) (k - 1) + 1) = zn x (S (S (2 * (k - 1))))).
    { rewrite (loE_2k1_last x k Hw Hk), sr2_double.
      replace (S (S (2 * (k - 1)))) with (2 * k)%nat by lia. lia. }
    rewrite EL. f_equal. f_equal.
    rewrite (hiE_2k1_int x k Hw Hk) by lia.
    replace (2 * (k - 1) + 1)%nat with (S (2 * (k - 1))) by lia.
    replace (2 * (k - 1) + 2)%nat with (S (S (2 * (k - 1)))) by lia. lia.
  - intros j Hj. rewrite Dlo by lia. rewrite (loE_2k1_int x k Hw Hk) by lia. rewrite !Dhi. reflexivity.
  - intros j Hj. rewrite Dhi. apply (hiE_2k1_int x k Hw Hk). lia.
  - lia.
  - rewrite Nat.add_0_r. reflexivity.
  - rewrite Dlo by lia. rewrite (loE_2k1_0 x k Hw Hk), Dhi0, sr2_double. change (2 * 0)%nat with 0%nat. lia.
Qed.

Theorem inv_fwd_even : forall x, inv53_even (fwd53_even x) = x.
Proof.
  intros x. destruct (Nat.leb_spec (length x) 1) as [H1|H1].
  - unfold fwd53_even. destruct (Nat.leb_spec (length x) 1) as [_|H]; [|lia].
    unfold inv53_even. destruct (Nat.leb_spec (length x) 1) as [_|H]; [reflexivity|lia].
  - destruct (parity_cases (length x)) as [(k & E & _)|(k & E & _)].
    + apply (inv_fwd_even_2k x k); lia.
    + apply (inv_fwd_even_2k1 x k); lia.
Qed.

(* ==================================================================================== *)
(* odd parity (cas1)                                                                     *)

Lemma head_split : forall x : list Z, (0 < length x)%nat -> zn x 0 :: skipn 1 x = x.
Proof. intros [|a x] H; [simpl in H; lia|reflexivity]. Qed.

Lemma skipn_skipn1 : forall (x : list Z) n, skipn n (skipn 1 x) = skipn (S n) x.
Proof. intros [|a x] n; [rewrite !skipn_nil; reflexivity|reflexivity]. Qed.

(* ---- odd parity, width = 2k (k >= 1): sn = dn = k ----------------------------------- *)

Section OddParityEvenWidth.
  Variable x : list Z.
  Variable k : nat.
  Hypothesis Hw : length x = (2 * k)%nat.
  Hypothesis Hk : (1 <= k)%nat.

  Lemma hiO_2k :
    hiO x = [zn x 0 - zn x 1]
            ++ map (fun i => zn x (2 * i) - sr1 (zn x (2 * i + 1) + zn x (2 * (i - 1) + 1))) (seq 1 (k - 1)).
  Proof.
    unfold hiO. destruct (parity_cases (length x)) as [(k' & E & Ev & Od)|(k' & E & Ev & Od)]; [|lia].
    rewrite Od. replace (Nat.div2 (length x)) with k by (rewrite Nat.div2_div; lia).
    rewrite app_nil_r. reflexivity.
  Qed.

  Lemma hiO_2k_length : length (hiO x) = k.
  Proof. rewrite hiO_2k, app_length, map_length, seq_length. simpl. lia. Qed.

  Lemma hiO_2k_0 : zn (hiO x) 0 = zn x 0 - zn x 1.
  Proof. rewrite hiO_2k. reflexivity. Qed.

  Lemma hiO_2k_int : forall i, (1 <= i < k)%nat ->
    zn (hiO x) i = zn x (2 * i) - sr1 (zn x (2 * i + 1) + zn x (2 * (i - 1) + 1)).
  Proof.
    intros i Hi. rewrite hiO_2k, zn_app2 by (simpl; lia). cbn [length].
    rewrite zn_map_seq by lia. replace (1 + (i - 1))%nat with i by lia. reflexivity.
  Qed.

  Lemma loO_2k :
    loO x = map (fun i => zn x (2 * i + 1) + sr2 (zn (hiO x) i + zn (hiO x) (i + 1) + 2)) (seq 0 (k - 1))
            ++ [zn x (2 * (k - 1) + 1) + sr2 (zn (hiO x) (k - 1) + zn (hiO x) (k - 1) + 2)].
  Proof.
    unfold loO. destruct (parity_cases (length x)) as [(k' & E & Ev & Od)|(k' & E & Ev & Od)]; [|lia].
    rewrite Ev. replace (Nat.div2 (length x)) with k by (rewrite Nat.div2_div; lia).
    replace (length x - k)%nat with k by lia. reflexivity.
  Qed.

  Lemma loO_2k_length : length (loO x) = k.
  Proof. rewrite loO_2k, app_length, map_length, seq_length. simpl. lia. Qed.

  Lemma loO_2k_int : forall i, (i + 1 < k)%nat ->
    zn (loO x) i = zn x (2 * i + 1) + sr2 (zn (hiO x) i + zn (hiO x) (i + 1) + 2).
  Proof.
    intros i Hi. rewrite loO_2k, zn_app1 by (rewrite map_length, seq_length; lia).
    rewrite zn_map_seq by lia. reflexivity.
  Qed.

  Lemma loO_2k_last :
    zn (loO x) (k - 1) = zn x (2 * (k - 1) + 1) + sr2 (zn (hiO x) (k - 1) + zn (hiO x) (k - 1) + 2).
  Proof.
    rewrite loO_2k, zn_app2 by (rewrite map_length, seq_length; lia).
    rewrite map_length, seq_length. replace (k - 1 - (k - 1))%nat with 0%nat by lia. reflexivity.
  Qed.
End OddParityEvenWidth.

(* ---- odd parity, width = 2k+1 (k >= 1): sn = k, dn = k+1 --------------------------- *)

Section OddParityOddWidth.
  Variable x : list Z.
  Variable k : nat.
  Hypothesis Hw : length x = (2 * k + 1)%nat.
  Hypothesis Hk : (1 <= k)%nat.

  Lemma hiO_2k1 :
    hiO x = [zn x 0 - zn x 1]
            ++ map (fun i => zn x (2 * i) - sr1 (zn x (2 * i + 1) + zn x (2 * (i - 1) + 1))) (seq 1 (k - 1))
            ++ [zn x (2 * k) - zn x (2 * (k - 1) + 1)].
  Proof.
    unfold hiO. destruct (parity_cases (length x)) as [(k' & E & Ev & Od)|(k' & E & Ev & Od)]; [lia|].
    rewrite Od. replace (Nat.div2 (length x)) with k by (rewrite Nat.div2_div; lia). reflexivity.
  Qed.

  Lemma hiO_2k1_length : length (hiO x) = (k + 1)%nat.
  Proof. rewrite hiO_2k1, !app_length, map_length, seq_length. simpl. lia. Qed.

  Lemma hiO_2k1_0 : zn (hiO x) 0 = zn x 0 - zn x 1.
  Proof. rewrite hiO_2k1. reflexivity. Qed.

  Lemma hiO_2k1_int : forall i, (1 <= i < k)%nat ->
    zn (hiO x) i = zn x (2 * i) - sr1 (zn x (2 * i + 1) + zn x (2 * (i - 1) + 1)).
  Proof.
    intros i Hi. rewrite hiO_2k1, zn_app2 by (simpl; lia). cbn [length].
    rewrite zn_app1 by (rewrite map_length, seq_length; lia).
    rewrite zn_map_seq by lia. replace (1 + (i - 1))%nat with i by lia. reflexivity.
  Qed.

  Lemma hiO_2k1_last : zn (hiO x) k = zn x (2 * k) - zn x (2 * (k - 1) + 1).
  Proof.
    rewrite hiO_2k1, zn_app2 by (simpl; lia). cbn [length].
    rewrite zn_app2 by (rewrite map_length, seq_length; lia).
    rewrite map_length, seq_length. replace (k - 1 - (k - 1))%nat with 0%nat by lia. reflexivity.
  Qed.

  Lemma loO_2k1 :
    loO x = map (fun i => zn x (2 * i + 1) + sr2 (zn (hiO x) i + zn (hiO x) (i + 1) + 2)) (seq 0 k).
  Proof.
    unfold loO. destruct (parity_cases (length x)) as [(k' & E & Ev & Od)|(k' & E & Ev & Od)]; [lia|].
    rewrite Ev. replace (Nat.div2 (length x)) with k by (rewrite Nat.div2_div; lia).
    replace (length x - k - 1)%nat with k by lia. rewrite app_nil_r. reflexivity.
  Qed.

  Lemma loO_2k1_length : length (loO x) = k.
  Proof. rewrite loO_2k1, map_length, seq_length. reflexivity. Qed.

  Lemma loO_2k1_int : forall i, (i < k)%nat ->
    zn (loO x) i = zn x (2 * i + 1) + sr2 (zn (hiO x) i + zn (hiO x) (i + 1) + 2).
  Proof. intros i Hi. rewrite loO_2k1, zn_map_seq by lia. reflexivity. Qed.
End OddParityOddWidth.

(* ---- the cas1 loop ------------------------------------------------------------------ *)

Lemma inv53_odd_loop_ok : forall n j0 sn d x s1 dc,
  (forall k, (j0 < k <= j0 + n)%nat ->
     zn d k = zn x (2 * k + 1) + sr2 (zn d (sn + k) + zn d (sn + k + 1) + 2)) ->
  (forall k, (j0 < k <= j0 + n)%nat ->
     zn d (sn + k) = zn x (2 * k) - sr1 (zn x (2 * k + 1) + zn x (2 * (k - 1) + 1))) ->
  (2 * (j0 + n) + 1 < length x)%nat ->
  s1 = zn d (sn + S j0) -> dc = zn x (2 * j0 + 1) ->
  inv53_odd_loop n (S j0) sn d s1 dc =
    (firstn (2 * n) (skipn (2 * j0 + 1) x), (zn d (sn + S (j0 + n)), zn x (2 * (j0 + n) + 1))).
Proof.
  induction n as [|n IH]; intros j0 sn d x s1 dc HL HH Hlen Hs Hd.
  - cbn [inv53_odd_loop]. rewrite Nat.add_0_r. subst. reflexivity.
  - cbn [inv53_odd_loop].
    assert (E1 : zn d (S j0) - sr2 (s1 + zn d (sn + S j0 + 1) + 2) = zn x (2 * S j0 + 1)).
    { rewrite (HL (S j0)) by lia. subst s1. lia. }
    rewrite E1.
    rewrite (IH (S j0) sn d x (zn d (sn + S j0 + 1)) (zn x (2 * S j0 + 1))); try reflexivity; try lia.
    + replace (S j0 + n)%nat with (j0 + S n)%nat by lia.
      f_equal.
      assert (E2 : s1 + sr1 (zn x (2 * S j0 + 1) + dc) = zn x (2 * j0 + 2)).
      { subst s1 dc. rewrite (HH (S j0)) by lia. replace (S j0 - 1)%nat with j0 by lia.
        replace (2 * S j0)%nat with (2 * j0 + 2)%nat by lia. lia. }
      rewrite E2. subst dc.
      rewrite (skipn_cons_zn x (2 * j0 + 1)) by lia.
      rewrite (skipn_cons_zn x (S (2 * j0 + 1))) by lia.
      replace (2 * S n)%nat with (S (S (2 * n))) by lia. cbn [firstn].
      replace (S (2 * j0 + 1)) with (2 * j0 + 2)%nat by lia.
      replace (S (2 * j0 + 2)) with (2 * S j0 + 1)%nat by lia. reflexivity.
    + intros k Hk. apply HL. lia.
    + intros k Hk. apply HH. lia.
    + f_equal. lia.
Qed.

Lemma fwd53_odd_length : forall x, length (fwd53_odd x) = length x.
Proof.
  intros x. destruct (Nat.leb_spec (length x) 1) as [H1|H1].
  - destruct x as [|a [|b x]]; [reflexivity|reflexivity|simpl in H1; lia].
  - rewrite fwd53_odd_eq by lia. rewrite app_length.
    destruct (parity_cases (length x)) as [(k & E & _)|(k & E & _)].
    + rewrite (loO_2k_length x k), (hiO_2k_length x k) by lia. lia.
    + rewrite (loO_2k1_length x k), (hiO_2k1_length x k) by lia. lia.
Qed.

(* width 2: the special case of the inverse *)
Lemma inv_fwd_odd_2 : forall x, length x = 2%nat -> inv53_odd (fwd53_odd x) = x.
Proof.
  intros x Hw.
  assert (Hw' : length x = (2 * 1)%nat) by lia. assert (Hk : (1 <= 1)%nat) by lia.
  assert (HLl := loO_2k_length x 1 Hw' Hk). assert (HHl := hiO_2k_length x 1 Hw' Hk).
  unfold inv53_odd. rewrite fwd53_odd_length, Hw. cbn [Nat.eqb].
  rewrite fwd53_odd_eq by lia.
  rewrite (zn_app1 (loO x) (hiO x) 0) by lia.
  rewrite (zn_app2 (loO x) (hiO x) 1) by lia. rewrite HLl. cbn [Nat.sub].
  pose proof (loO_2k_last x 1 Hw' Hk) as EL. cbn [Nat.sub Nat.mul Nat.add] in EL.
  rewrite EL, (hiO_2k_0 x 1 Hw' Hk), sr2_double.
  transitivity (zn x 0 :: skipn 1 x); [|apply head_split; lia].
  rewrite (skipn_cons_zn x 1) by lia. rewrite skipn_all2 by lia.
  f_equal; [|f_equal]; lia.
Qed.

Lemma inv_fwd_odd_2k : forall x k, length x = (2 * k)%nat -> (2 <= k)%nat ->
  inv53_odd (fwd53_odd x) = x.
Proof.
  intros x k Hw Hk2. assert (Hk : (1 <= k)%nat) by lia.
  assert (HLl := loO_2k_length x k Hw Hk). assert (HHl := hiO_2k_length x k Hw Hk).
  unfold inv53_odd. rewrite fwd53_odd_length.
  destruct (Nat.eqb_spec (length x) 1) as [H1|H1]; [lia|].
  destruct (Nat.eqb_spec (length x) 2) as [H2|H2]; [lia|].
  destruct (Nat.eqb_spec (length x) 0) as [H0|H0]; [lia|].
  rewrite fwd53_odd_eq by lia.
  destruct (parity_cases (length x)) as [(k' & E & Ev & Od)|(k' & E & Ev & Od)]; [|lia].
  rewrite Ev.
  replace (Nat.div2 (length x)) with k by (rewrite Nat.div2_div; lia).
  replace (Nat.div2 (length x - 3)) with (k - 2)%nat by (rewrite Nat.div2_div; lia).
  set (d := loO x ++ hiO x).
  assert (Dlo : forall j, (j < k)%nat -> zn d j = zn (loO x) j).
  { intros j Hj. unfold d. apply zn_app1. lia. }
  assert (Dhi : forall j, zn d (k + j) = zn (hiO x) j).
  { intros j. unfold d. apply zn_app_plus. exact HLl. }
  assert (Dhi0 : zn d k = zn (hiO x) 0).
  { rewrite <- (Dhi 0%nat). f_equal. lia. }
  assert (Edc : zn d 0 - sr2 (zn d k + zn d (k + 1) + 2) = zn x 1).
  { rewrite Dlo by lia. rewrite (loO_2k_int x k Hw Hk) by lia. rewrite Dhi0, Dhi.
    change (2 * 0 + 1)%nat with 1%nat. change (0 + 1)%nat with 1%nat. lia. }
  rewrite Edc.
  rewrite (inv53_odd_loop_ok (k - 2) 0 k d x).
  - cbn [fst snd]. change (2 * 0 + 1)%nat with 1%nat. rewrite Nat.add_0_l.
    transitivity (zn x 0 :: skipn 1 x); [|apply head_split; lia].
    f_equal.
    { rewrite Dhi0, (hiO_2k_0 x k Hw Hk). lia. }
    apply split_at_eq. rewrite skipn_skipn1.
    rewrite (skipn_cons_zn x (S (2 * (k - 2)))) by lia.
    rewrite (skipn_cons_zn x (S (S (2 * (k - 2))))) by lia.
    rewrite (skipn_cons_zn x (S (S (S (2 * (k - 2)))))) by lia.
    rewrite skipn_all2 by lia. cbn [app].
    replace (k + S (k - 2))%nat with (k + (k - 1))%nat by lia. rewrite Dhi.
    rewrite (Dlo (k - 1)%nat) by lia.
    assert (EL : zn (loO x) (k - 1) - sr1 (zn (hiO x) (k - 1) + 1) = zn x (S (S (S (2 * (k - 2)))))).
    { rewrite (loO_2k_last x k Hw Hk), sr2_double.
      replace (S (S (S (2 * (k - 2))))) with (2 * (k - 1) + 1)%nat by lia. lia. }
    rewrite EL.
    replace (2 * (k - 2) + 1)%nat with (S (2 * (k - 2))) by lia.
    f_equal. f_equal.
    rewrite (hiO_2k_int x k Hw Hk (k - 1)%nat) by lia.
    replace (2 * (k - 1) + 1)%nat with (S (S (S (2 * (k - 2))))) by lia.
    replace (2 * (k - 1 - 1) + 1)%nat with (S (2 * (k - 2))) by lia.
    replace (2 * (k - 1))%nat with (S (S (2 * (k - 2)))) by lia. lia.
  - intros j Hj. rewrite Dlo by lia. rewrite (loO_2k_int x k Hw Hk) by lia.
    replace (k + j + 1)%nat with (k + (j + 1))%nat by lia. rewrite !Dhi. reflexivity.
  - intros j Hj. rewrite Dhi. apply (hiO_2k_int x k Hw Hk). lia.
  - lia.
  - reflexivity.
  - reflexivity.
Qed.

Lemma inv_fwd_odd_2k1 : forall x k, length x = (2 * k + 1)%nat -> (1 <= k)%nat ->
  inv53_odd (fwd53_odd x) = x.
Proof.
  intros x k Hw Hk.
  assert (HLl := loO_2k1_length x k Hw Hk). assert (HHl := hiO_2k1_length x k Hw Hk).
  unfold inv53_odd. rewrite fwd53_odd_length.
  destruct (Nat.eqb_spec (length x) 1) as [H1|H1]; [lia|].
  destruct (Nat.eqb_spec (length x) 2) as [H2|H2]; [lia|].
  destruct (Nat.eqb_spec (length x) 0) as [H0|H0]; [lia|].
  rewrite fwd53_odd_eq by lia.
  destruct (parity_cases (length x)) as [(k' & E & Ev & Od)|(k' & E & Ev & Od)]; [lia|].
  rewrite Ev.
  replace (Nat.div2 (length x)) with k by (rewrite Nat.div2_div; lia).
  replace (Nat.div2 (length x - 3)) with (k - 1)%nat by (rewrite Nat.div2_div; lia).
  set (d := loO x ++ hiO x).
  assert (Dlo : forall j, (j < k)%nat -> zn d j = zn (loO x) j).
  { intros j Hj. unfold d. apply zn_app1. lia. }
  assert (Dhi : forall j, zn d (k + j) = zn (hiO x) j).
  { intros j. unfold d. apply zn_app_plus. exact HLl. }
  assert (Dhi0 : zn d k = zn (hiO x) 0).
  { rewrite <- (Dhi 0%nat). f_equal. lia. }
  assert (Edc : zn d 0 - sr2 (zn d k + zn d (k + 1) + 2) = zn x 1).
  { rewrite Dlo by lia. rewrite (loO_2k1_int x k Hw Hk) by lia. rewrite Dhi0, Dhi.
    change (2 * 0 + 1)%nat with 1%nat. change (0 + 1)%nat with 1%nat. lia. }
  rewrite Edc.
  rewrite (inv53_odd_loop_ok (k - 1) 0 k d x).
  - cbn [fst snd]. change (2 * 0 + 1)%nat with 1%nat. rewrite Nat.add_0_l.
    transitivity (zn x 0 :: skipn 1 x); [|apply head_split; lia].
    f_equal.
    { rewrite Dhi0, (hiO_2k1_0 x k Hw Hk). lia. }
    apply split_at_eq. rewrite skipn_skipn1.
    rewrite (skipn_cons_zn x (S (2 * (k - 1)))) by lia.
    rewrite (skipn_cons_zn x (S (S (2 * (k - 1))))) by lia.
    rewrite skipn_all2 by lia. cbn [app].
    replace (k + S (k - 1))%nat with (k + k)%nat by lia. rewrite Dhi.
    replace (2 * (k - 1) + 1)%nat with (S (2 * (k - 1))) by lia.
    f_equal. f_equal.
    rewrite (hiO_2k1_last x k Hw Hk).
    replace (2 * (k - 1) + 1)%nat with (S (2 * (k - 1))) by lia.
    replace (2 * k)%nat with (S (S (2 * (k - 1)))) by lia. lia.
  - intros j Hj. rewrite Dlo by lia. rewrite (loO_2k1_int x k Hw Hk) by lia.
    replace (k + j + 1)%nat with (k + (j + 1))%nat by lia. rewrite !Dhi. reflexivity.
  - intros j Hj. rewrite Dhi. apply (hiO_2k1_int x k Hw Hk). lia.
  - lia.
  - reflexivity.
  - reflexivity.
Qed.

Theorem inv_fwd_odd : forall x, inv53_odd (fwd53_odd x) = x.
Proof.
  intros x. destruct (parity_cases (length x)) as [(k & E & _)|(k & E & _)].
  - destruct k as [|[|k]].
    + destruct x; [reflexivity|simpl in E; lia].
    + apply inv_fwd_odd_2. lia.
    + apply (inv_fwd_odd_2k x (S (S k))); lia.
  - destruct k as [|k].
    + destruct x as [|a [|b x]]; [simpl in E; lia| |simpl in E; lia].
      unfold fwd53_odd, inv53_odd. cbn [length Nat.eqb zn nth]. rewrite quot_double. reflexivity.
    + apply (inv_fwd_odd_2k1 x (S k)); lia.
Qed.

(* ==================================================================================== *)
(* the 1-D theorem                                                                       *)

Theorem dwt53_inverse_1d : forall (even : bool) (l : list Z), inv53 even (fwd53 even l) = l.
Proof. intros [|] l; [apply inv_fwd_even|apply inv_fwd_odd]. Qed.

Lemma fwd53_length : forall even l, length (fwd53 even l) = length l.
Proof. intros [|] l; [apply fwd53_even_length|apply fwd53_odd_length]. Qed.
