(* 2-D and multilevel 5/3 wavelet: the inverse undoes the forward transform on a w x h window
   of a row-major buffer with row distance `stride`, and leaves everything outside the window
   untouched; multilevel for every level count and origin. *)
From V Require Import Common.Base DWT.DwtModel DWT.DwtProofs.
From Coq Require Import ZifyBool ZifyNat.

(* ------------------------------------------------------------------------------------ *)
(* matrices given by rows; column pass                                                   *)

Definition rect (w : nat) (M : list (list Z)) : Prop := Forall (fun r => length r = w) M.

Lemma zip_cons_length : forall c R, length c = length R -> length (zip_cons c R) = length R.
Proof.
  induction c as [|a c IH]; intros [|r R] H; simpl in *; try lia. rewrite IH; lia.
Qed.

Lemma map_hd_zip_cons : forall c R, length c = length R -> map (fun r => hd 0 r) (zip_cons c R) = c.
Proof.
  induction c as [|a c IH]; intros [|r R] H; simpl in *; try lia; try reflexivity.
  rewrite IH by lia. reflexivity.
Qed.

Lemma map_tl_zip_cons : forall c R, length c = length R -> map (@tl Z) (zip_cons c R) = R.
Proof.
  induction c as [|a c IH]; intros [|r R] H; simpl in *; try lia; try reflexivity.
  rewrite IH by lia. reflexivity.
Qed.

Lemma zip_cons_hd_tl : forall w M, rect (S w) M -> zip_cons (map (fun r => hd 0 r) M) (map (@tl Z) M) = M.
Proof.
  intros w M H. induction H as [|r M Hr HM IH]; [reflexivity|].
  destruct r as [|a r]; [simpl in Hr; lia|]. cbn [map hd tl zip_cons]. rewrite IH. reflexivity.
Qed.

Lemma rect_map_tl : forall w M, rect (S w) M -> rect w (map (@tl Z) M).
Proof.
  intros w M H. induction H as [|r M Hr HM IH]; [constructor|].
  cbn [map]. constructor; [|exact IH]. destruct r; simpl in *; lia.
Qed.

Lemma rect_zip_cons : forall w c R, rect w R -> length c = length R -> rect (S w) (zip_cons c R).
Proof.
  intros w c R H. revert c. induction H as [|r R Hr HR IH]; intros [|a c] Hc; simpl in *; try lia; try constructor.
  - simpl. lia.
  - apply IH. lia.
Qed.

Definition len_pres (f : list Z -> list Z) : Prop := forall l, length (f l) = length l.

Lemma cols_map_shape : forall f w M, len_pres f -> rect w M ->
  rect w (cols_map f w M) /\ length (cols_map f w M) = length M.
Proof.
  intros f w. induction w as [|w IH]; intros M Hf HM.
  - split; [exact HM|reflexivity].
  - cbn [cols_map].
    destruct (IH (map (@tl Z) M) Hf (rect_map_tl w M HM)) as [IH1 IH2].
    rewrite map_length in IH2.
    assert (Hc : length (f (map (fun r => hd 0 r) M)) = length (cols_map f w (map (@tl Z) M))).
    { rewrite Hf, map_length. lia. }
    split.
    + apply rect_zip_cons; assumption.
    + rewrite zip_cons_length by exact Hc. exact IH2.
Qed.

Lemma cols_map_inv : forall f g w M, (forall l, g (f l) = l) -> len_pres f -> rect w M ->
  cols_map g w (cols_map f w M) = M.
Proof.
  intros f g w. induction w as [|w IH]; intros M Hgf Hf HM.
  - reflexivity.
  - cbn [cols_map].
    destruct (cols_map_shape f w (map (@tl Z) M) Hf (rect_map_tl w M HM)) as [S1 S2].
    rewrite map_length in S2.
    assert (Hc : length (f (map (fun r => hd 0 r) M)) = length (cols_map f w (map (@tl Z) M))).
    { rewrite Hf, map_length. lia. }
    rewrite map_hd_zip_cons by exact Hc. rewrite map_tl_zip_cons by exact Hc.
    rewrite Hgf. rewrite IH by (try assumption; apply rect_map_tl; assumption).
    apply zip_cons_hd_tl with (w := w). exact HM.
Qed.

Lemma rect_map : forall f w M, len_pres f -> rect w M -> rect w (map f M).
Proof.
  intros f w M Hf H. induction H as [|r M Hr HM IH]; [constructor|].
  cbn [map]. constructor; [rewrite Hf; exact Hr|exact IH].
Qed.

(* ------------------------------------------------------------------------------------ *)
(* window extraction / reassembly                                                        *)

Definition win_shape (w stride : nat) (rs : list (list Z * list Z)) : Prop :=
  Forall (fun p => length (fst p) = w /\ length (snd p) = (stride - w)%nat) rs.

Lemma join_win_cons : forall a b rs tl, join_win ((a, b) :: rs) tl = (a ++ b) ++ join_win rs tl.
Proof. intros. unfold join_win. cbn [map concat fst snd]. rewrite app_assoc. reflexivity. Qed.

Lemma split_win_join : forall w stride h d,
  join_win (fst (split_win w stride h d)) (snd (split_win w stride h d)) = d.
Proof.
  intros w stride h. induction h as [|h IH]; intros d.
  - reflexivity.
  - cbn [split_win]. specialize (IH (skipn stride d)).
    destruct (split_win w stride h (skipn stride d)) as [rs tl]. cbn [fst snd] in *.
    rewrite join_win_cons, IH, firstn_skipn. apply firstn_skipn.
Qed.

Lemma split_win_shape : forall w stride h d, (w <= stride)%nat -> (stride * h <= length d)%nat ->
  win_shape w stride (fst (split_win w stride h d)) /\ length (fst (split_win w stride h d)) = h.
Proof.
  intros w stride h. induction h as [|h IH]; intros d Hw Hd.
  - split; [constructor|reflexivity].
  - cbn [split_win]. rewrite Nat.mul_succ_r in Hd.
    assert (Hd' : (stride * h <= length (skipn stride d))%nat) by (rewrite skipn_length; lia).
    destruct (IH (skipn stride d) Hw Hd') as [I1 I2].
    destruct (split_win w stride h (skipn stride d)) as [rs tl]. cbn [fst snd] in *.
    split; [|simpl; lia].
    constructor; [|exact I1]. cbn [fst snd].
    rewrite firstn_length, skipn_length, firstn_length. lia.
Qed.

Lemma firstn_app_exact : forall (l l' : list Z) n, length l = n -> firstn n (l ++ l') = l.
Proof.
  intros l l' n H. subst n. rewrite firstn_app, Nat.sub_diag, firstn_all. cbn [firstn]. apply app_nil_r.
Qed.

Lemma skipn_app_exact : forall (l l' : list Z) n, length l = n -> skipn n (l ++ l') = l'.
Proof.
  intros l l' n H. subst n. rewrite skipn_app, Nat.sub_diag, skipn_all. reflexivity.
Qed.

Lemma split_win_of_join : forall w stride rs tl, (w <= stride)%nat -> win_shape w stride rs ->
  split_win w stride (length rs) (join_win rs tl) = (rs, tl).
Proof.
  intros w stride rs tl Hw H. induction H as [|[a b] rs [Ha Hb] Hrs IH].
  - reflexivity.
  - cbn [fst snd] in Ha, Hb. cbn [length split_win]. rewrite join_win_cons.
    assert (Hab : length (a ++ b) = stride) by (rewrite app_length; lia).
    rewrite (skipn_app_exact _ _ _ Hab), IH, (firstn_app_exact _ _ _ Hab).
    rewrite (firstn_app_exact _ _ _ Ha), (skipn_app_exact _ _ _ Ha). reflexivity.
Qed.

Lemma combine_fst_snd : forall (rs : list (list Z * list Z)), combine (map fst rs) (map snd rs) = rs.
Proof. induction rs as [|[a b] rs IH]; [reflexivity|]. cbn [map combine fst snd]. rewrite IH. reflexivity. Qed.

Lemma map_fst_combine : forall (A B : list (list Z)), length A = length B -> map fst (combine A B) = A.
Proof.
  induction A as [|a A IH]; intros [|b B] H; simpl in *; try lia; try reflexivity. rewrite IH by lia. reflexivity.
Qed.

Lemma map_snd_combine : forall (A B : list (list Z)), length A = length B -> map snd (combine A B) = B.
Proof.
  induction A as [|a A IH]; intros [|b B] H; simpl in *; try lia; try reflexivity. rewrite IH by lia. reflexivity.
Qed.

Lemma win_shape_fst : forall w stride rs, win_shape w stride rs -> rect w (map fst rs).
Proof.
  intros w stride rs H. induction H as [|p rs [Ha Hb] Hrs IH]; [constructor|].
  cbn [map]. constructor; assumption.
Qed.

Lemma win_shape_combine : forall w stride M rs, win_shape w stride rs -> rect w M -> length M = length rs ->
  win_shape w stride (combine M (map snd rs)).
Proof.
  intros w stride M rs H. revert M. induction H as [|p rs [Ha Hb] Hrs IH]; intros M HM Hl.
  - destruct M; [constructor|simpl in Hl; lia].
  - destruct M as [|r M]; [simpl in Hl; lia|].
    pose proof (Forall_inv HM) as Hr. pose proof (Forall_inv_tail HM) as HM'. cbn beta in Hr.
    cbn [map combine]. constructor; [cbn [fst snd]; split; [exact Hr|exact Hb]|].
    apply IH; [exact HM'|simpl in Hl; lia].
Qed.

Lemma join_win_length_combine : forall w stride rs M tl, win_shape w stride rs -> rect w M ->
  length M = length rs -> length (join_win (combine M (map snd rs)) tl) = length (join_win rs tl).
Proof.
  intros w stride rs M tl H. revert M. induction H as [|[a b] rs [Ha Hb] Hrs IH]; intros M HM Hl.
  - destruct M; [reflexivity|simpl in Hl; lia].
  - destruct M as [|r M]; [simpl in Hl; lia|].
    pose proof (Forall_inv HM) as Hr. pose proof (Forall_inv_tail HM) as HM'. cbn beta in Hr.
    cbn [map combine snd]. rewrite !join_win_cons, !app_length, (IH M HM') by (simpl in Hl; lia).
    cbn [fst snd] in *. lia.
Qed.

(* ------------------------------------------------------------------------------------ *)
(* a transformation of the window                                                        *)

Definition win_apply (F : list (list Z) -> list (list Z)) (w h stride : nat) (d : list Z) : list Z :=
  let '(rs, tl) := split_win w stride h d in
  join_win (combine (F (map fst rs)) (map snd rs)) tl.

Definition shape_pres (w : nat) (F : list (list Z) -> list (list Z)) : Prop :=
  forall M, rect w M -> rect w (F M) /\ length (F M) = length M.

Section WinApply.
  Variables (w h stride : nat) (d : list Z).
  Hypothesis Hw : (w <= stride)%nat.
  Hypothesis Hd : (stride * h <= length d)%nat.

  Let rs := fst (split_win w stride h d).
  Let tl := snd (split_win w stride h d).

  Lemma wa_split : split_win w stride h d = (rs, tl).
  Proof. unfold rs, tl. destruct (split_win w stride h d); reflexivity. Qed.
  Lemma wa_shape : win_shape w stride rs.
  Proof. apply split_win_shape; assumption. Qed.
  Lemma wa_len : length rs = h.
  Proof. apply split_win_shape; assumption. Qed.
  Lemma wa_join : join_win rs tl = d.
  Proof. apply split_win_join. Qed.

  Lemma win_apply_eq : forall F, win_apply F w h stride d = join_win (combine (F (map fst rs)) (map snd rs)) tl.
  Proof. intros F. unfold win_apply. rewrite wa_split. reflexivity. Qed.

  Lemma win_apply_split : forall F, shape_pres w F ->
    split_win w stride h (win_apply F w h stride d) = (combine (F (map fst rs)) (map snd rs), tl).
  Proof.
    intros F HF. rewrite win_apply_eq.
    destruct (HF (map fst rs) (win_shape_fst _ _ _ wa_shape)) as [F1 F2]. rewrite map_length in F2.
    assert (Hl : length (combine (F (map fst rs)) (map snd rs)) = h).
    { rewrite combine_length, map_length, F2, wa_len. lia. }
    rewrite <- Hl at 1. apply split_win_of_join; [exact Hw|].
    apply win_shape_combine; [exact wa_shape|exact F1|exact F2].
  Qed.

  Lemma win_apply_length : forall F, shape_pres w F -> length (win_apply F w h stride d) = length d.
  Proof.
    intros F HF. rewrite win_apply_eq.
    destruct (HF (map fst rs) (win_shape_fst _ _ _ wa_shape)) as [F1 F2]. rewrite map_length in F2.
    rewrite (join_win_length_combine w stride rs _ tl wa_shape F1 F2). f_equal. apply wa_join.
  Qed.
End WinApply.

Lemma win_apply_compose : forall F G w h stride d, (w <= stride)%nat -> (stride * h <= length d)%nat ->
  shape_pres w F ->
  win_apply G w h stride (win_apply F w h stride d) = win_apply (fun M => G (F M)) w h stride d.
Proof.
  intros F G w h stride d Hw Hd HF.
  unfold win_apply at 1. rewrite (win_apply_split w h stride d Hw Hd F HF).
  pose proof (wa_shape w h stride d Hw Hd) as S. pose proof (wa_len w h stride d Hw Hd) as L.
  destruct (HF _ (win_shape_fst _ _ _ S)) as [F1 F2]. rewrite map_length in F2.
  rewrite map_fst_combine, map_snd_combine by (rewrite map_length; lia).
  rewrite (win_apply_eq w h stride d). reflexivity.
Qed.

Lemma win_apply_id : forall F w h stride d, (w <= stride)%nat -> (stride * h <= length d)%nat ->
  (forall M, rect w M -> F M = M) -> win_apply F w h stride d = d.
Proof.
  intros F w h stride d Hw Hd HF. rewrite (win_apply_eq w h stride d).
  rewrite HF by (apply win_shape_fst with (stride := stride); apply wa_shape; assumption).
  rewrite combine_fst_snd. apply wa_join.
Qed.

(* ------------------------------------------------------------------------------------ *)
(* the two passes                                                                        *)

Definition fwd_pass (w h : nat) (er ec : bool) (M : list (list Z)) : list (list Z) :=
  let M1 := if (1 <? h)%nat then cols_map (fwd53 ec) w M else M in
  if (1 <? w)%nat then map (fwd53 er) M1 else M1.

Definition inv_pass (w h : nat) (er ec : bool) (M : list (list Z)) : list (list Z) :=
  let M1 := if (1 <? w)%nat then map (inv53 er) M else M in
  if (1 <? h)%nat then cols_map (inv53 ec) w M1 else M1.

Lemma fwd53_2d_eq : forall d w h stride er ec,
  fwd53_2d d w h stride er ec =
  if (w <=? 1)%nat && (h <=? 1)%nat then d else win_apply (fwd_pass w h er ec) w h stride d.
Proof. intros. reflexivity. Qed.

Lemma inv53_2d_eq : forall d w h stride er ec,
  inv53_2d d w h stride er ec =
  if (w <=? 1)%nat && (h <=? 1)%nat then d else win_apply (inv_pass w h er ec) w h stride d.
Proof. intros. reflexivity. Qed.

Lemma fwd53_len_pres : forall e, len_pres (fwd53 e).
Proof. intros e l. apply fwd53_length. Qed.

Lemma fwd_pass_shape : forall w h er ec, shape_pres w (fwd_pass w h er ec).
Proof.
  intros w h er ec M HM. unfold fwd_pass.
  assert (H1 : rect w (if (1 <? h)%nat then cols_map (fwd53 ec) w M else M) /\
               length (if (1 <? h)%nat then cols_map (fwd53 ec) w M else M) = length M).
  { destruct (1 <? h)%nat; [apply cols_map_shape; [apply fwd53_len_pres|exact HM]|split; [exact HM|reflexivity]]. }
  destruct H1 as [R1 L1].
  destruct (1 <? w)%nat.
  - split; [apply rect_map; [apply fwd53_len_pres|exact R1]|rewrite map_length; exact L1].
  - split; assumption.
Qed.

Lemma inv_fwd_pass : forall w h er ec M, rect w M -> inv_pass w h er ec (fwd_pass w h er ec M) = M.
Proof.
  intros w h er ec M HM. unfold inv_pass, fwd_pass.
  set (M1 := if (1 <? h)%nat then cols_map (fwd53 ec) w M else M).
  assert (E : (if (1 <? w)%nat then map (inv53 er) (if (1 <? w)%nat then map (fwd53 er) M1 else M1)
               else (if (1 <? w)%nat then map (fwd53 er) M1 else M1)) = M1).
  { destruct (1 <? w)%nat; [|reflexivity].
    rewrite map_map. rewrite <- (map_id M1) at 2. apply map_ext. intros l. apply dwt53_inverse_1d. }
  rewrite E. unfold M1. destruct (1 <? h)%nat; [|reflexivity].
  apply cols_map_inv; [apply dwt53_inverse_1d|apply fwd53_len_pres|exact HM].
Qed.

(* ------------------------------------------------------------------------------------ *)
(* 2-D theorems                                                                          *)

Theorem dwt53_inverse_2d : forall (w h stride : nat) (evenRow evenCol : bool) (data : list Z),
  (w <= stride)%nat -> (stride * h <= length data)%nat ->
  inv53_2d (fwd53_2d data w h stride evenRow evenCol) w h stride evenRow evenCol = data.
Proof.
  intros w h stride er ec d Hw Hd. rewrite inv53_2d_eq, fwd53_2d_eq.
  destruct ((w <=? 1)%nat && (h <=? 1)%nat); [reflexivity|].
  rewrite win_apply_compose by (try assumption; apply fwd_pass_shape).
  apply win_apply_id; try assumption. intros M HM. apply inv_fwd_pass. exact HM.
Qed.

Lemma fwd53_2d_length : forall w h stride er ec d, (w <= stride)%nat -> (stride * h <= length d)%nat ->
  length (fwd53_2d d w h stride er ec) = length d.
Proof.
  intros w h stride er ec d Hw Hd. rewrite fwd53_2d_eq.
  destruct ((w <=? 1)%nat && (h <=? 1)%nat); [reflexivity|].
  apply win_apply_length; try assumption. apply fwd_pass_shape.
Qed.

(* ------------------------------------------------------------------------------------ *)
(* samples outside the window are untouched                                              *)

Lemma join_win_outside : forall w stride rs tl, (w <= stride)%nat -> win_shape w stride rs ->
  forall M, rect w M -> length M = length rs ->
  (forall y x, (y < length rs)%nat -> (w <= x < stride)%nat ->
     zn (join_win (combine M (map snd rs)) tl) (y * stride + x) = zn (join_win rs tl) (y * stride + x)) /\
  (forall i, zn (join_win (combine M (map snd rs)) tl) (stride * length rs + i) =
             zn (join_win rs tl) (stride * length rs + i)).
Proof.
  intros w stride rs tl Hw H. induction H as [|[a b] rs [Ha Hb] Hrs IH]; intros M HM Hl.
  - destruct M; [|simpl in Hl; lia]. split; [intros y x Hy; simpl in Hy; lia|reflexivity].
  - destruct M as [|r M]; [simpl in Hl; lia|].
    pose proof (Forall_inv HM) as Hr. pose proof (Forall_inv_tail HM) as HM'. cbn beta in Hr.
    cbn [fst snd] in Ha, Hb.
    destruct (IH M HM' ltac:(simpl in Hl; lia)) as [IH1 IH2].
    cbn [map combine snd]. rewrite !join_win_cons.
    assert (Lr : length (r ++ b) = stride) by (rewrite app_length; lia).
    assert (La : length (a ++ b) = stride) by (rewrite app_length; lia).
    split.
    + intros y x Hy Hx. destruct y as [|y].
      * cbn [Nat.mul Nat.add]. rewrite (zn_app1 (r ++ b)) by lia. rewrite (zn_app1 (a ++ b)) by lia.
        rewrite (zn_app2 r b) by lia. rewrite (zn_app2 a b) by lia. rewrite Hr, Ha. reflexivity.
      * replace (S y * stride + x)%nat with (stride + (y * stride + x))%nat by lia.
        rewrite (zn_app_plus _ _ _ _ Lr), (zn_app_plus _ _ _ _ La). apply IH1; [simpl in Hy; lia|exact Hx].
    + intros i. cbn [length].
      replace (stride * S (length rs) + i)%nat with (stride + (stride * length rs + i))%nat by lia.
      rewrite (zn_app_plus _ _ _ _ Lr), (zn_app_plus _ _ _ _ La). apply IH2.
Qed.

Lemma win_apply_outside : forall F w h stride d, (w <= stride)%nat -> (stride * h <= length d)%nat ->
  shape_pres w F ->
  (forall y x, (y < h)%nat -> (w <= x < stride)%nat ->
     zn (win_apply F w h stride d) (y * stride + x) = zn d (y * stride + x)) /\
  (forall i, (stride * h <= i)%nat -> zn (win_apply F w h stride d) i = zn d i).
Proof.
  intros F w h stride d Hw Hd HF.
  pose proof (wa_shape w h stride d Hw Hd) as S. pose proof (wa_len w h stride d Hw Hd) as L.
  pose proof (wa_join w h stride d) as J.
  destruct (HF _ (win_shape_fst _ _ _ S)) as [F1 F2]. rewrite map_length in F2.
  destruct (join_win_outside w stride _ (snd (split_win w stride h d)) Hw S _ F1 F2) as [O1 O2].
  rewrite L in O1, O2. rewrite (win_apply_eq w h stride d).
  split.
  - intros y x Hy Hx. rewrite O1 by assumption. f_equal. exact J.
  - intros i Hi. replace i with (stride * h + (i - stride * h))%nat by lia. rewrite O2. f_equal. exact J.
Qed.

Lemma inv53_even_loop_length : forall n j sn d a b, length (fst (inv53_even_loop n j sn d a b)) = (2 * n)%nat.
Proof.
  induction n as [|n IH]; intros j sn d a b; [reflexivity|].
  cbn [inv53_even_loop]. specialize (IH (S j) sn d (zn d (sn + j)) (zn d j - sr2 (a + zn d (sn + j) + 2))).
  destruct (inv53_even_loop n (S j) sn d (zn d (sn + j)) (zn d j - sr2 (a + zn d (sn + j) + 2))) as [out st].
  cbn [fst length] in *. lia.
Qed.

Lemma inv53_odd_loop_length : forall n j sn d a b, length (fst (inv53_odd_loop n j sn d a b)) = (2 * n)%nat.
Proof.
  induction n as [|n IH]; intros j sn d a b; [reflexivity|].
  cbn [inv53_odd_loop].
  specialize (IH (S j) sn d (zn d (sn + j + 1)) (zn d j - sr2 (a + zn d (sn + j + 1) + 2))).
  destruct (inv53_odd_loop n (S j) sn d (zn d (sn + j + 1)) (zn d j - sr2 (a + zn d (sn + j + 1) + 2))) as [out st].
  cbn [fst length] in *. lia.
Qed.

Ltac Zify.zify_post_hook ::= Z.div_mod_to_equations.

Lemma inv53_length : forall e l, length (inv53 e l) = length l.
Proof.
  intros [|] l; cbn [inv53].
  - unfold inv53_even. destruct (Nat.leb_spec (length l) 1) as [H|H]; [reflexivity|].
    pose proof (inv53_even_loop_length (Nat.div2 (length l - 2)) 1 (Nat.div2 (length l + 1)) l
                  (zn l (Nat.div2 (length l + 1))) (zn l 0 - sr1 (zn l (Nat.div2 (length l + 1)) + 1))) as E.
    destruct (inv53_even_loop _ _ _ _ _ _) as [out [a b]]. cbn [fst] in E.
    rewrite !app_length, E. rewrite Nat.div2_div.
    destruct (parity_cases (length l)) as [(k & E1 & Ev & Od)|(k & E1 & Ev & Od)]; rewrite Od; cbn [length]; lia.
  - unfold inv53_odd.
    destruct (Nat.eqb_spec (length l) 1) as [H1|H1]; [simpl; lia|].
    destruct (Nat.eqb_spec (length l) 2) as [H2|H2]; [simpl; lia|].
    destruct (Nat.eqb_spec (length l) 0) as [H0|H0]; [simpl; lia|].
    match goal with |- context [inv53_odd_loop ?n ?j ?sn ?d ?a ?b] =>
      pose proof (inv53_odd_loop_length n j sn d a b) as E; destruct (inv53_odd_loop n j sn d a b) as [out [a' b']] end.
    cbn [fst] in E. cbn [length]. rewrite !app_length, E. rewrite Nat.div2_div.
    destruct (parity_cases (length l)) as [(k & E1 & Ev & Od)|(k & E1 & Ev & Od)]; rewrite Ev; cbn [length]; lia.
Qed.

Lemma inv_pass_shape : forall w h er ec, shape_pres w (inv_pass w h er ec).
Proof.
  intros w h er ec M HM. unfold inv_pass.
  assert (LP : forall e, len_pres (inv53 e)) by (intros e l; apply inv53_length).
  assert (H1 : rect w (if (1 <? w)%nat then map (inv53 er) M else M) /\
               length (if (1 <? w)%nat then map (inv53 er) M else M) = length M).
  { destruct (1 <? w)%nat; [split; [apply rect_map; [apply LP|exact HM]|apply map_length]|split; [exact HM|reflexivity]]. }
  destruct H1 as [R1 L1].
  destruct (1 <? h)%nat.
  - destruct (cols_map_shape (inv53 ec) w _ (LP ec) R1) as [R2 L2]. split; [exact R2|lia].
  - split; assumption.
Qed.

Theorem dwt53_2d_outside_untouched : forall (w h stride : nat) (evenRow evenCol : bool) (data : list Z),
  (w <= stride)%nat -> (stride * h <= length data)%nat ->
  (forall y x, (y < h)%nat -> (w <= x < stride)%nat ->
     zn (fwd53_2d data w h stride evenRow evenCol) (y * stride + x) = zn data (y * stride + x) /\
     zn (inv53_2d data w h stride evenRow evenCol) (y * stride + x) = zn data (y * stride + x)) /\
  (forall i, (stride * h <= i)%nat ->
     zn (fwd53_2d data w h stride evenRow evenCol) i = zn data i /\
     zn (inv53_2d data w h stride evenRow evenCol) i = zn data i) /\
  length (fwd53_2d data w h stride evenRow evenCol) = length data /\
  length (inv53_2d data w h stride evenRow evenCol) = length data.
Proof.
  intros w h stride er ec d Hw Hd. rewrite inv53_2d_eq, fwd53_2d_eq.
  destruct ((w <=? 1)%nat && (h <=? 1)%nat); [repeat split; reflexivity|].
  destruct (win_apply_outside _ w h stride d Hw Hd (fwd_pass_shape w h er ec)) as [A1 A2].
  destruct (win_apply_outside _ w h stride d Hw Hd (inv_pass_shape w h er ec)) as [B1 B2].
  split; [|split; [|split]].
  - intros y x Hy Hx. split; [apply A1|apply B1]; assumption.
  - intros i Hi. split; [apply A2|apply B2]; assumption.
  - apply win_apply_length; try assumption. apply fwd_pass_shape.
  - apply win_apply_length; try assumption. apply inv_pass_shape.
Qed.

(* ------------------------------------------------------------------------------------ *)
(* multilevel                                                                            *)

Definition inv_ml_loop (l stride : nat) (d : list Z) (win : window) : list Z :=
  fold_left (inv53_ml_step stride) (rev (level_windows l win)) d.

(* recursive reading of "compute all level windows, then run from the coarsest to the finest" *)
Lemma inv_ml_loop_S : forall l stride d win,
  inv_ml_loop (S l) stride d win = inv53_ml_step stride (inv_ml_loop l stride d (next_window win)) win.
Proof.
  intros. unfold inv_ml_loop. cbn [level_windows rev]. rewrite fold_left_app. reflexivity.
Qed.

Definition small_win (win : window) : Prop :=
  let '(cw, ch, _, _) := win in (cw <= 1)%nat /\ (ch <= 1)%nat.

Lemma split_lengths_le : forall n e, (split_lengths n e <= n)%nat.
Proof. intros n [|]; unfold split_lengths; rewrite Nat.div2_div; lia. Qed.

Lemma split_lengths_small : forall n e, (n <= 1)%nat -> (split_lengths n e <= 1)%nat.
Proof. intros n e H. pose proof (split_lengths_le n e). lia. Qed.

Lemma inv_ml_small : forall l stride d win, small_win win -> inv_ml_loop l stride d win = d.
Proof.
  induction l as [|l IH]; intros stride d [[[cw ch] cx] cy] [Hw Hh]; [reflexivity|].
  rewrite inv_ml_loop_S. rewrite IH.
  - unfold inv53_ml_step, inv53_2d.
    destruct (Nat.leb_spec cw 1); [|lia]. destruct (Nat.leb_spec ch 1); [|lia]. reflexivity.
  - cbn [next_window small_win]. split; apply split_lengths_small; assumption.
Qed.

Lemma dwt53_ml_loop_inverse : forall l stride d win,
  let '(cw, ch, _, _) := win in
  (cw <= stride)%nat -> (stride * ch <= length d)%nat ->
  inv_ml_loop l stride (fwd53_ml_loop l d stride win) win = d.
Proof.
  induction l as [|l IH]; intros stride d [[[cw ch] cx] cy]; [reflexivity|].
  intros Hw Hd. cbn [fwd53_ml_loop].
  destruct ((cw <=? 1)%nat && (ch <=? 1)%nat) eqn:G.
  - apply inv_ml_small. cbn [small_win]. apply andb_true_iff in G. destruct G as [G1 G2].
    apply Nat.leb_le in G1, G2. split; assumption.
  - rewrite inv_ml_loop_S.
    specialize (IH stride (fwd53_2d d cw ch stride (is_even cx) (is_even cy)) (next_window (cw, ch, cx, cy))).
    cbn [next_window] in IH |- *. rewrite IH.
    + unfold inv53_ml_step. apply dwt53_inverse_2d; assumption.
    + pose proof (split_lengths_le cw (is_even cx)). lia.
    + rewrite fwd53_2d_length by assumption.
      pose proof (split_lengths_le ch (is_even cy)) as Hle.
      apply (Nat.mul_le_mono_l _ _ stride) in Hle. lia.
Qed.

Theorem dwt53_inverse_multilevel : forall (w h levels : nat) (x0 y0 : Z) (data : list Z),
  (w * h <= length data)%nat ->
  inv53_ml (fwd53_ml data w h levels x0 y0) w h levels x0 y0 = data.
Proof.
  intros w h levels x0 y0 d Hd. unfold inv53_ml, fwd53_ml.
  apply (dwt53_ml_loop_inverse levels w d (w, h, x0, y0)); [lia|exact Hd].
Qed.
