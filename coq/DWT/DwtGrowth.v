(* Growth of the forward 5/3 transform (over Z): a 1-D pass at most doubles the amplitude, a
   2-D level at most quadruples it, `levels` levels multiply it by at most 4^levels.  Reading
   of the Go code: every int32 intermediate of a 1-D pass on samples within [-A, A] is one of
   a+b (<= 2A), x-(a+b)>>1 (<= 2A), h+h'+2 (<= 4A+2), x+(h+h'+2)>>2 (<= 2A), 2x (<= 2A); so a
   multilevel transform with `levels` levels on samples within [-A, A] stays inside int32 when
   4 * 4^levels * A + 2 < 2^31 (coarse: the true low-pass gain per level is 2.25, not 4). *)
From V Require Import Common.Base DWT.DwtModel DWT.DwtProofs DWT.DwtProofs2D.
From Coq Require Import ZifyBool ZifyNat.
Ltac Zify.zify_post_hook ::= Z.div_mod_to_equations.

Definition bnd (A : Z) (l : list Z) : Prop := Forall (fun v => - A <= v <= A) l.

Lemma bnd_zn : forall A l i, 0 <= A -> bnd A l -> - A <= zn l i <= A.
Proof.
  intros A l i HA H. unfold zn. destruct (Nat.lt_ge_cases i (length l)) as [Hi|Hi].
  - unfold bnd in H. rewrite Forall_forall in H. apply H. apply nth_In. exact Hi.
  - rewrite nth_overflow by exact Hi. lia.
Qed.

Lemma bnd_mono : forall A B l, A <= B -> bnd A l -> bnd B l.
Proof. intros A B l HAB H. unfold bnd in *. eapply Forall_impl; [|exact H]. cbn beta. intros v Hv. lia. Qed.

Lemma bnd_map_seq : forall B (f : nat -> Z) a n, (forall i, - B <= f i <= B) -> bnd B (map f (seq a n)).
Proof. intros B f a n H. unfold bnd. apply Forall_forall. intros v Hv. apply in_map_iff in Hv. destruct Hv as (i & <- & _). apply H. Qed.

Lemma bnd_app : forall B l l', bnd B l -> bnd B l' -> bnd B (l ++ l').
Proof. intros. apply Forall_app. split; assumption. Qed.

Lemma bnd_one : forall B v, - B <= v <= B -> bnd B [v].
Proof. intros. constructor; [assumption|constructor]. Qed.

Lemma bnd_opt : forall B (c : bool) v, - B <= v <= B -> bnd B (if c then [v] else []).
Proof. intros B [|] v H; [apply bnd_one; exact H|constructor]. Qed.

Lemma predict_bound : forall A p q r, - A <= p <= A -> - A <= q <= A -> - A <= r <= A ->
  - (2 * A) <= p - sr1 (q + r) <= 2 * A.
Proof. intros. rewrite sr1_div. lia. Qed.

Lemma update_bound : forall A p h h', - A <= p <= A -> - (2 * A) <= h <= 2 * A -> - (2 * A) <= h' <= 2 * A ->
  - (2 * A) <= p + sr2 (h + h' + 2) <= 2 * A.
Proof. intros. rewrite sr2_div. lia. Qed.

Section OneD.
  Variable A : Z.
  Variable x : list Z.
  Hypothesis HA : 0 <= A.
  Hypothesis Hx : bnd A x.

  Let X := bnd_zn A x.

  Lemma hiE_bound : bnd (2 * A) (hiE x).
  Proof.
    unfold hiE. apply bnd_app; [apply bnd_map_seq; intros i; apply predict_bound; apply X; assumption|].
    apply bnd_opt. pose proof (X (2 * (Nat.div2 (length x + 1) - 1) + 1)%nat HA Hx).
    pose proof (X ((Nat.div2 (length x + 1) - 1) * 2)%nat HA Hx). lia.
  Qed.

  Lemma loE_bound : bnd (2 * A) (loE x).
  Proof.
    assert (HH : forall i, - (2 * A) <= zn (hiE x) i <= 2 * A) by (intros i; apply bnd_zn; [lia|apply hiE_bound]).
    unfold loE. apply bnd_app; [apply bnd_one; apply update_bound; auto|].
    apply bnd_app; [apply bnd_map_seq; intros i; apply update_bound; auto|].
    apply bnd_opt. apply update_bound; auto.
  Qed.

  Lemma hiO_bound : bnd (2 * A) (hiO x).
  Proof.
    unfold hiO. apply bnd_app; [apply bnd_one; pose proof (X 0%nat HA Hx); pose proof (X 1%nat HA Hx); lia|].
    apply bnd_app; [apply bnd_map_seq; intros i; apply predict_bound; apply X; assumption|].
    apply bnd_opt. pose proof (X (2 * Nat.div2 (length x))%nat HA Hx).
    pose proof (X (2 * (Nat.div2 (length x) - 1) + 1)%nat HA Hx). lia.
  Qed.

  Lemma loO_bound : bnd (2 * A) (loO x).
  Proof.
    assert (HH : forall i, - (2 * A) <= zn (hiO x) i <= 2 * A) by (intros i; apply bnd_zn; [lia|apply hiO_bound]).
    unfold loO. apply bnd_app; [apply bnd_map_seq; intros i; apply update_bound; auto|].
    apply bnd_opt. apply update_bound; auto.
  Qed.

  Lemma fwd53_bound : forall e, bnd (2 * A) (fwd53 e x).
  Proof.
    intros [|]; cbn [fwd53].
    - destruct (Nat.leb_spec (length x) 1) as [H|H].
      + unfold fwd53_even. destruct (Nat.leb_spec (length x) 1); [|lia]. apply bnd_mono with A; [lia|exact Hx].
      + rewrite fwd53_even_eq by lia. apply bnd_app; [apply loE_bound|apply hiE_bound].
    - destruct (Nat.leb_spec (length x) 1) as [H|H].
      + unfold fwd53_odd. destruct (Nat.eqb_spec (length x) 1).
        * apply bnd_one. pose proof (X 0%nat HA Hx). lia.
        * destruct (Nat.eqb_spec (length x) 0); [constructor|lia].
      + rewrite fwd53_odd_eq by lia. apply bnd_app; [apply loO_bound|apply hiO_bound].
  Qed.
End OneD.

(* ---- 2-D ---------------------------------------------------------------------------- *)

Definition mbnd (A : Z) (M : list (list Z)) : Prop := Forall (bnd A) M.

Lemma bnd_firstn : forall A n l, bnd A l -> bnd A (firstn n l).
Proof.
  intros A n l H. unfold bnd in *. rewrite Forall_forall in *. intros v Hv. apply H.
  rewrite <- (firstn_skipn n l). apply in_or_app. left. exact Hv.
Qed.

Lemma bnd_skipn : forall A n l, bnd A l -> bnd A (skipn n l).
Proof.
  intros A n l H. unfold bnd in *. rewrite Forall_forall in *. intros v Hv. apply H.
  rewrite <- (firstn_skipn n l). apply in_or_app. right. exact Hv.
Qed.

Lemma mbnd_mono : forall A B M, A <= B -> mbnd A M -> mbnd B M.
Proof. intros A B M HAB H. unfold mbnd in *. eapply Forall_impl; [|exact H]. intros l. apply bnd_mono. exact HAB. Qed.

Lemma mbnd_map : forall A B f M, (forall l, bnd A l -> bnd B (f l)) -> mbnd A M -> mbnd B (map f M).
Proof. intros A B f M Hf H. induction H; cbn [map]; constructor; auto. Qed.

Lemma bnd_map_hd : forall A M, 0 <= A -> mbnd A M -> bnd A (map (fun r => hd 0 r) M).
Proof.
  intros A M HA H. induction H as [|r M Hr HM IH]; cbn [map]; constructor; [|exact IH].
  destruct r as [|a r]; cbn [hd]; [lia|]. exact (Forall_inv Hr).
Qed.

Lemma mbnd_map_tl : forall A M, mbnd A M -> mbnd A (map (@tl Z) M).
Proof.
  intros A M H. induction H as [|r M Hr HM IH]; cbn [map]; constructor; [|exact IH].
  destruct r as [|a r]; cbn [tl]; [constructor|]. exact (Forall_inv_tail Hr).
Qed.

Lemma mbnd_zip_cons : forall A c R, bnd A c -> mbnd A R -> mbnd A (zip_cons c R).
Proof.
  intros A c R Hc. revert R. induction Hc as [|a c Ha Hc IH]; intros R HR; [constructor|].
  destruct HR as [|r R Hr HR]; cbn [zip_cons]; [constructor|].
  constructor; [constructor; assumption|apply IH; exact HR].
Qed.

Lemma mbnd_cols_map : forall A B f w M, 0 <= A -> A <= B -> (forall l, bnd A l -> bnd B (f l)) ->
  mbnd A M -> mbnd B (cols_map f w M).
Proof.
  intros A B f w. induction w as [|w IH]; intros M HA HAB Hf HM.
  - apply mbnd_mono with A; assumption.
  - cbn [cols_map]. apply mbnd_zip_cons.
    + apply Hf. apply bnd_map_hd; assumption.
    + apply IH; try assumption. apply mbnd_map_tl. exact HM.
Qed.

Lemma split_win_bnd : forall A w stride h d, bnd A d ->
  mbnd A (map fst (fst (split_win w stride h d))) /\ mbnd A (map snd (fst (split_win w stride h d))) /\
  bnd A (snd (split_win w stride h d)).
Proof.
  intros A w stride h. induction h as [|h IH]; intros d Hd.
  - cbn. repeat split; try constructor. exact Hd.
  - cbn [split_win]. destruct (IH (skipn stride d) (bnd_skipn _ _ _ Hd)) as (I1 & I2 & I3).
    destruct (split_win w stride h (skipn stride d)) as [rs tl]. cbn [fst snd map] in *.
    repeat split; try assumption; constructor; try assumption.
    + apply bnd_firstn, bnd_firstn, Hd.
    + apply bnd_skipn, bnd_firstn, Hd.
Qed.

Lemma join_win_bnd : forall A M S tl, mbnd A M -> mbnd A S -> bnd A tl -> bnd A (join_win (combine M S) tl).
Proof.
  intros A M S tl HM. revert S. induction HM as [|r M Hr HM IH]; intros S HS Htl.
  - cbn. exact Htl.
  - destruct HS as [|s S Hs HS]; [cbn; exact Htl|].
    cbn [combine]. rewrite join_win_cons. apply bnd_app; [apply bnd_app; assumption|]. apply IH; assumption.
Qed.

Theorem fwd53_2d_bound : forall A d w h stride er ec, 0 <= A -> bnd A d ->
  bnd (4 * A) (fwd53_2d d w h stride er ec).
Proof.
  intros A d w h stride er ec HA Hd. unfold fwd53_2d.
  destruct ((w <=? 1)%nat && (h <=? 1)%nat); [apply bnd_mono with A; [lia|exact Hd]|].
  destruct (split_win_bnd A w stride h d Hd) as (B1 & B2 & B3).
  destruct (split_win w stride h d) as [rs tl]. cbn [fst snd] in *.
  apply join_win_bnd; [|apply mbnd_mono with A; [lia|exact B2]|apply bnd_mono with A; [lia|exact B3]].
  assert (M1 : mbnd (2 * A) (if (1 <? h)%nat then cols_map (fwd53 ec) w (map fst rs) else map fst rs)).
  { destruct (1 <? h)%nat.
    - apply mbnd_cols_map with A; try lia; [|exact B1]. intros l Hl. apply fwd53_bound; assumption.
    - apply mbnd_mono with A; [lia|exact B1]. }
  destruct (1 <? w)%nat.
  - apply mbnd_map with (2 * A); [|exact M1]. intros l Hl.
    replace (4 * A) with (2 * (2 * A)) by lia. apply fwd53_bound; [lia|exact Hl].
  - apply mbnd_mono with (2 * A); [lia|exact M1].
Qed.

Theorem fwd53_ml_bound : forall levels A d w h x0 y0, 0 <= A -> bnd A d ->
  bnd (4 ^ Z.of_nat levels * A) (fwd53_ml d w h levels x0 y0).
Proof.
  intros levels A d w h x0 y0 HA Hd. unfold fwd53_ml.
  generalize (w, h, x0, y0). generalize w at 1. intros stride win. revert A d win HA Hd.
  induction levels as [|l IH]; intros A d win HA Hd.
  - cbn [fwd53_ml_loop]. change (Z.of_nat 0) with 0. rewrite Z.pow_0_r. apply bnd_mono with A; [lia|exact Hd].
  - destruct win as [[[cw ch] cx] cy]. cbn [fwd53_ml_loop].
    assert (P : 4 ^ Z.of_nat (S l) = 4 ^ Z.of_nat l * 4) by (rewrite Nat2Z.inj_succ, Z.pow_succ_r by lia; ring).
    assert (Q : 1 <= 4 ^ Z.of_nat l) by (pose proof (Z.pow_pos_nonneg 4 (Z.of_nat l)); lia).
    destruct ((cw <=? 1)%nat && (ch <=? 1)%nat).
    + apply bnd_mono with A; [nia|exact Hd].
    + rewrite P. replace (4 ^ Z.of_nat l * 4 * A) with (4 ^ Z.of_nat l * (4 * A)) by ring.
      apply IH; [lia|]. apply fwd53_2d_bound; assumption.
Qed.
