(* EXTRACT *)
(* Model of jpeg2000/wavelet/dwt53.go (5/3 reversible wavelet), parity.go and
   layout.go:nextLowpassWindow.  Arithmetic is over Z (no int32 wrap-around): the theorems
   are about unbounded integers, the harness keeps the Go values far from the int32 limits.
   Go `>> k` on int32 is the arithmetic shift (Z.shiftr), Go `/= 2` is truncating (Z.quot).

   Slices are `list Z`; an index `data[i]` is `zn data i` (nth with default 0).  In every
   function below all indices are in range whenever the Go code does not panic; the only
   1-D panic of the Go code is the empty signal with even=false (tmp[sn+0] / data[sn+1] out
   of range), flagged by `dwt1d_panics`; the model returns [] there.  The 2-D functions
   panic in Go when the buffer is shorter than (h-1)*stride+w; `dwt2d_in_range` is that
   guard.  The model additionally needs w <= stride (rows of the window do not overlap),
   which is the property's domain. *)
From V Require Import Common.Base.

Definition zn (l : list Z) (i : nat) : Z := nth i l 0.
Definition sr1 (x : Z) : Z := Z.shiftr x 1.
Definition sr2 (x : Z) : Z := Z.shiftr x 2.

(* ------------------------------------------------------------------------------------ *)
(* Forward53_1DWithParity                                                                *)

(* even=true.  sn = (width+1)>>1 low-pass samples, dn = width-sn high-pass samples.
   hi is tmp[sn..sn+dn), lo is what the update step leaves in data[0..sn) (the in-place
   update writes data[i] after having read data[2i], and later iterations only read
   data[2i'] with 2i' > i, so it reads original samples only). *)
Definition fwd53_even (x : list Z) : list Z :=
  let w := length x in
  if (w <=? 1)%nat then x else
  let sn := Nat.div2 (w + 1) in
  let dn := (w - sn)%nat in
  (* predict: for i < sn-1; then the extra sample when width is even (i = sn-1) *)
  let hi :=
    map (fun i => zn x (2 * i + 1) - sr1 (zn x (i * 2) + zn x ((i + 1) * 2))) (seq 0 (sn - 1))
    ++ (if Nat.even w then [zn x (2 * (sn - 1) + 1) - zn x ((sn - 1) * 2)] else []) in
  (* update: data[0]; for 1 <= i < dn; then the extra sample when width is odd (i = dn) *)
  let lo :=
    [zn x 0 + sr2 (zn hi 0 + zn hi 0 + 2)]
    ++ map (fun i => zn x (2 * i) + sr2 (zn hi (i - 1) + zn hi i + 2)) (seq 1 (dn - 1))
    ++ (if Nat.odd w then [zn x (2 * dn) + sr2 (zn hi (dn - 1) + zn hi (dn - 1) + 2)] else []) in
  lo ++ hi.

(* even=false.  sn = width>>1, dn = width-sn. *)
Definition fwd53_odd (x : list Z) : list Z :=
  let w := length x in
  if (w =? 1)%nat then [zn x 0 * 2] else
  if (w =? 0)%nat then [] (* Go panics: see dwt1d_panics *) else
  let sn := Nat.div2 w in
  let dn := (w - sn)%nat in
  (* predict: tmp[sn+0]; for 1 <= i < sn; extra sample when width is odd (i = sn) *)
  let hi :=
    [zn x 0 - zn x 1]
    ++ map (fun i => zn x (2 * i) - sr1 (zn x (2 * i + 1) + zn x (2 * (i - 1) + 1))) (seq 1 (sn - 1))
    ++ (if Nat.odd w then [zn x (2 * sn) - zn x (2 * (sn - 1) + 1)] else []) in
  (* update: for i < dn-1; extra sample when width is even (i = dn-1) *)
  let lo :=
    map (fun i => zn x (2 * i + 1) + sr2 (zn hi i + zn hi (i + 1) + 2)) (seq 0 (dn - 1))
    ++ (if Nat.even w then [zn x (2 * (dn - 1) + 1) + sr2 (zn hi (dn - 1) + zn hi (dn - 1) + 2)] else []) in
  lo ++ hi.

Definition fwd53 (even : bool) (x : list Z) : list Z :=
  if even then fwd53_even x else fwd53_odd x.

(* The only input on which the 1-D Go functions panic (both directions). *)
Definition dwt1d_panics (even : bool) (x : list Z) : bool :=
  negb even && (length x =? 0)%nat.

(* ------------------------------------------------------------------------------------ *)
(* Inverse53_1DWithParity: the streaming form of opj_idwt53_h_cas0 / cas1                *)

(* cas0 loop `for i, j = 0, 1; i < width-3; i, j = i+2, j+1`: it runs Nat.div2 (width-2)
   times (width >= 2).  State (d1n, s0n); each iteration emits tmp[i], tmp[i+1]. *)
Fixpoint inv53_even_loop (n j sn : nat) (d : list Z) (d1n s0n : Z) : list Z * (Z * Z) :=
  match n with
  | O => ([], (d1n, s0n))
  | S n' =>
    let d1c := d1n in
    let s0c := s0n in
    let s1n := zn d j in
    let d1n' := zn d (sn + j) in
    let s0n' := s1n - sr2 (d1c + d1n' + 2) in
    let '(out, st) := inv53_even_loop n' (S j) sn d d1n' s0n' in
    (s0c :: (d1c + sr1 (s0c + s0n')) :: out, st)
  end.

Definition inv53_even (d : list Z) : list Z :=
  let w := length d in
  if (w <=? 1)%nat then d else
  let sn := Nat.div2 (w + 1) in
  let s1n := zn d 0 in
  let d1n := zn d sn in
  let s0n := s1n - sr1 (d1n + 1) in
  let '(out, (d1n, s0n)) := inv53_even_loop (Nat.div2 (w - 2)) 1 sn d d1n s0n in
  out ++ [s0n] ++
  (if Nat.odd w then
     let last := zn d (Nat.div2 (w - 1)) - sr1 (d1n + 1) in   (* tmp[width-1] *)
     [d1n + sr1 (s0n + last); last]                            (* tmp[width-2], tmp[width-1] *)
   else [d1n + s0n]).                                          (* tmp[width-1] *)

(* cas1 loop `for i, j = 1, 1; i < width-2-!(width&1); i, j = i+2, j+1`: it runs
   Nat.div2 (width-3) times (width >= 3).  State (s1, dc). *)
Fixpoint inv53_odd_loop (n j sn : nat) (d : list Z) (s1 dc : Z) : list Z * (Z * Z) :=
  match n with
  | O => ([], (s1, dc))
  | S n' =>
    let s2 := zn d (sn + j + 1) in
    let dn := zn d j - sr2 (s1 + s2 + 2) in
    let '(out, st) := inv53_odd_loop n' (S j) sn d s2 dn in
    (dc :: (s1 + sr1 (dn + dc)) :: out, st)
  end.

Definition inv53_odd (d : list Z) : list Z :=
  let w := length d in
  if (w =? 1)%nat then [Z.quot (zn d 0) 2] else
  if (w =? 2)%nat then
    let out1 := zn d 0 - sr1 (zn d 1 + 1) in
    let out0 := zn d 1 + out1 in
    [out0; out1]
  else
  if (w =? 0)%nat then [] (* Go panics: see dwt1d_panics *) else
  let sn := Nat.div2 w in
  let s1 := zn d (sn + 1) in
  let dc := zn d 0 - sr2 (zn d sn + s1 + 2) in
  let t0 := zn d sn + dc in
  let '(out, (s1, dc)) := inv53_odd_loop (Nat.div2 (w - 3)) 1 sn d s1 dc in
  t0 :: out ++ [dc] ++
  (if Nat.even w then
     let dn := zn d (Nat.div2 w - 1) - sr1 (s1 + 1) in
     [s1 + sr1 (dn + dc); dn]                                  (* tmp[width-2], tmp[width-1] *)
   else [s1 + dc]).                                            (* tmp[width-1] *)

Definition inv53 (even : bool) (d : list Z) : list Z :=
  if even then inv53_even d else inv53_odd d.

(* ------------------------------------------------------------------------------------ *)
(* 2-D: row-major buffer, window w x h in the top-left corner, row distance `stride`     *)

(* The first h rows of the buffer, each cut into (first w samples, rest of the row), and
   what follows the h rows. *)
Fixpoint split_win (w stride h : nat) (d : list Z) : list (list Z * list Z) * list Z :=
  match h with
  | O => ([], d)
  | S h' =>
    let row := firstn stride d in
    let '(rs, tl) := split_win w stride h' (skipn stride d) in
    ((firstn w row, skipn w row) :: rs, tl)
  end.

Definition join_win (rs : list (list Z * list Z)) (tl : list Z) : list Z :=
  concat (map (fun p => fst p ++ snd p) rs) ++ tl.

Fixpoint zip_cons (c : list Z) (R : list (list Z)) : list (list Z) :=
  match c, R with
  | a :: c', r :: R' => (a :: r) :: zip_cons c' R'
  | _, _ => []
  end.

(* `for x < width { extract column x; f; write back }` on a matrix given by its rows *)
Fixpoint cols_map (f : list Z -> list Z) (w : nat) (M : list (list Z)) : list (list Z) :=
  match w with
  | O => M
  | S w' =>
    let c := f (map (fun r => hd 0 r) M) in
    zip_cons c (cols_map f w' (map (@tl Z) M))
  end.

Definition dwt2d_in_range (d : list Z) (w h stride : nat) : bool :=
  (w =? 0)%nat || (h =? 0)%nat || ((w <=? 1)%nat && (h <=? 1)%nat)
  || ((h - 1) * stride + w <=? length d)%nat.

(* Forward53_2DWithParity: columns first (if height > 1), then rows (if width > 1). *)
Definition fwd53_2d (d : list Z) (w h stride : nat) (evenRow evenCol : bool) : list Z :=
  if (w <=? 1)%nat && (h <=? 1)%nat then d else
  let '(rs, tl) := split_win w stride h d in
  let M := map fst rs in
  let M1 := if (1 <? h)%nat then cols_map (fwd53 evenCol) w M else M in
  let M2 := if (1 <? w)%nat then map (fwd53 evenRow) M1 else M1 in
  join_win (combine M2 (map snd rs)) tl.

(* Inverse53_2DWithParity: rows first (if width > 1), then columns (if height > 1). *)
Definition inv53_2d (d : list Z) (w h stride : nat) (evenRow evenCol : bool) : list Z :=
  if (w <=? 1)%nat && (h <=? 1)%nat then d else
  let '(rs, tl) := split_win w stride h d in
  let M := map fst rs in
  let M1 := if (1 <? w)%nat then map (inv53 evenRow) M else M in
  let M2 := if (1 <? h)%nat then cols_map (inv53 evenCol) w M1 else M1 in
  join_win (combine M2 (map snd rs)) tl.

(* ------------------------------------------------------------------------------------ *)
(* parity.go, layout.go                                                                   *)

Definition is_even (v : Z) : bool := Z.even v.                 (* value&1 == 0 *)
Definition next_coord (v : Z) : Z := Z.shiftr (v + 1) 1.       (* (value+1) >> 1 *)
Definition split_lengths (n : nat) (even : bool) : nat :=
  if even then Nat.div2 (n + 1) else Nat.div2 n.

Definition window : Type := (nat * nat * Z * Z)%type.          (* width, height, x0, y0 *)

Definition next_window (win : window) : window :=
  let '(w, h, x0, y0) := win in
  (split_lengths w (is_even x0), split_lengths h (is_even y0), next_coord x0, next_coord y0).

(* ------------------------------------------------------------------------------------ *)
(* ForwardMultilevelWithParity / InverseMultilevelWithParity (stride = full width)       *)

Fixpoint fwd53_ml_loop (levels : nat) (d : list Z) (stride : nat) (win : window) : list Z :=
  match levels with
  | O => d
  | S l =>
    let '(cw, ch, cx, cy) := win in
    if (cw <=? 1)%nat && (ch <=? 1)%nat then d (* break *) else
    let d' := fwd53_2d d cw ch stride (is_even cx) (is_even cy) in
    fwd53_ml_loop l d' stride (next_window win)
  end.

Definition fwd53_ml (d : list Z) (w h levels : nat) (x0 y0 : Z) : list Z :=
  fwd53_ml_loop levels d w (w, h, x0, y0).

(* levelWidths/Heights/X0/Y0 [0 .. levels-1] (entry [levels] is computed but never used) *)
Fixpoint level_windows (n : nat) (win : window) : list window :=
  match n with
  | O => []
  | S n' => win :: level_windows n' (next_window win)
  end.

Definition inv53_ml_step (stride : nat) (d : list Z) (win : window) : list Z :=
  let '(cw, ch, cx, cy) := win in inv53_2d d cw ch stride (is_even cx) (is_even cy).

(* for level := levels-1; level >= 0; level-- : no early stop in the inverse *)
Definition inv53_ml (d : list Z) (w h levels : nat) (x0 y0 : Z) : list Z :=
  fold_left (inv53_ml_step w) (rev (level_windows levels (w, h, x0, y0))) d.
