(* EXTRACT *)
(* Model of jpeg2000/colorspace/rct.go : RCTForward / RCTInverse and the slice versions. *)
From V Require Import Common.Base.

(* Go: y = (r + 2*g + b) >> 2 ; cb = b - g ; cr = r - g   (int32, arithmetic shift) *)
Definition rct_fwd (r g b : Z) : Z * Z * Z :=
  (Z.shiftr (r + 2 * g + b) 2, b - g, r - g).

(* Go: g = y - ((cb + cr) >> 2) ; r = cr + g ; b = cb + g *)
Definition rct_inv (y cb cr : Z) : Z * Z * Z :=
  let g := y - Z.shiftr (cb + cr) 2 in (cr + g, g, cb + g).

(* int32 versions: every intermediate narrowed as Go does *)
Definition i32 (x : Z) : Z := wrapS 32 x.
Definition rct_fwd32 (r g b : Z) : Z * Z * Z :=
  (Z.shiftr (i32 (i32 (r + i32 (2 * g)) + b)) 2, i32 (b - g), i32 (r - g)).
Definition rct_inv32 (y cb cr : Z) : Z * Z * Z :=
  let g := i32 (y - Z.shiftr (i32 (cb + cr)) 2) in (i32 (cr + g), g, i32 (cb + g)).

Fixpoint rct_fwd_list (r g b : list Z) : list (Z * Z * Z) :=
  match r, g, b with
  | r0 :: r', g0 :: g', b0 :: b' => rct_fwd32 r0 g0 b0 :: rct_fwd_list r' g' b'
  | _, _, _ => []
  end.
Fixpoint rct_inv_list (l : list (Z * Z * Z)) : list (Z * Z * Z) :=
  match l with
  | (y, cb, cr) :: l' => rct_inv32 y cb cr :: rct_inv_list l'
  | [] => []
  end.
