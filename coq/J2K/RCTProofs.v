From V Require Import Common.Base J2K.RCT.

Lemma rct_inverse_Z : forall r g b,
  let '(y, cb, cr) := rct_fwd r g b in rct_inv y cb cr = (r, g, b).
Proof.
  intros r g b. unfold rct_fwd, rct_inv. cbv zeta.
  rewrite !Z.shiftr_div_pow2 by lia. change (2 ^ 2) with 4.
  assert (H : (b - g + (r - g)) / 4 = (r + 2 * g + b) / 4 - g).
  { replace (b - g + (r - g)) with (r + 2 * g + b + (- g) * 4) by ring.
    rewrite Z.div_add by lia. ring. }
  rewrite H. f_equal; [f_equal|]; ring.
Qed.

Lemma wrapS_id : forall n x, 0 < n -> - 2 ^ (n - 1) <= x < 2 ^ (n - 1) -> wrapS n x = x.
Proof.
  intros n x Hn Hx. unfold wrapS.
  assert (Hp : 2 ^ n = 2 * 2 ^ (n - 1)).
  { replace n with (1 + (n - 1)) at 1 by ring. rewrite Z.pow_add_r by lia. reflexivity. }
  destruct (Z_lt_le_dec x 0) as [Hneg|Hpos].
  - assert (Hm : x mod 2 ^ n = x + 2 ^ n).
    { symmetry. apply Z.mod_unique with (q := -1); lia. }
    rewrite Hm. destruct (Z.ltb_spec (x + 2 ^ n) (2 ^ (n - 1))); lia.
  - rewrite Z.mod_small by lia. destruct (Z.ltb_spec x (2 ^ (n - 1))); lia.
Qed.

(* int32 range lemma: inside |.| <= 2^28 no intermediate leaves int32, so the int32 code
   computes the Z functions. *)
Definition in28 (x : Z) : Prop := - 2 ^ 28 <= x <= 2 ^ 28.

Lemma rct_fwd32_eq : forall r g b, in28 r -> in28 g -> in28 b ->
  rct_fwd32 r g b = rct_fwd r g b.
Proof.
  intros r g b Hr Hg Hb. unfold in28 in *. unfold rct_fwd32, rct_fwd, i32.
  change (2 ^ 28) with 268435456 in *.
  rewrite (wrapS_id 32 (2 * g)) by (change (2 ^ (32 - 1)) with 2147483648; lia).
  rewrite (wrapS_id 32 (r + 2 * g)) by (change (2 ^ (32 - 1)) with 2147483648; lia).
  rewrite (wrapS_id 32 (r + 2 * g + b)) by (change (2 ^ (32 - 1)) with 2147483648; lia).
  rewrite (wrapS_id 32 (b - g)) by (change (2 ^ (32 - 1)) with 2147483648; lia).
  rewrite (wrapS_id 32 (r - g)) by (change (2 ^ (32 - 1)) with 2147483648; lia).
  reflexivity.
Qed.

Lemma rct_g : forall r g b,
  Z.shiftr (r + 2 * g + b) 2 - Z.shiftr (b - g + (r - g)) 2 = g.
Proof.
  intros r g b. rewrite !Z.shiftr_div_pow2 by lia. change (2 ^ 2) with 4.
  replace (b - g + (r - g)) with (r + 2 * g + b + (- g) * 4) by ring.
  rewrite Z.div_add by lia. ring.
Qed.

Lemma rct_inv32_of_fwd : forall r g b, in28 r -> in28 g -> in28 b ->
  let '(y, cb, cr) := rct_fwd32 r g b in rct_inv32 y cb cr = (r, g, b).
Proof.
  intros r g b Hr Hg Hb. rewrite rct_fwd32_eq by assumption.
  unfold rct_fwd, rct_inv32, i32. cbv zeta.
  unfold in28 in *. change (2 ^ 28) with 268435456 in *.
  rewrite (wrapS_id 32 (b - g + (r - g))) by (change (2 ^ (32 - 1)) with 2147483648; lia).
  rewrite rct_g.
  rewrite (wrapS_id 32 g) by (change (2 ^ (32 - 1)) with 2147483648; lia).
  rewrite !wrapS_id by (change (2 ^ (32 - 1)) with 2147483648; lia).
  f_equal; [f_equal|]; lia.
Qed.

Lemma rct_list_inverse : forall r g b,
  length r = length g -> length g = length b ->
  Forall in28 r -> Forall in28 g -> Forall in28 b ->
  rct_inv_list (rct_fwd_list r g b) = combine (combine r g) b.
Proof.
  induction r as [|r0 r IH]; intros g b Hl1 Hl2 Fr Fg Fb.
  - destruct g; [destruct b|]; simpl in *; try discriminate; reflexivity.
  - destruct g as [|g0 g]; [discriminate|]. destruct b as [|b0 b]; [discriminate|].
    inversion Fr; inversion Fg; inversion Fb; subst.
    cbn [rct_fwd_list rct_inv_list combine].
    pose proof (rct_inv32_of_fwd r0 g0 b0 ltac:(assumption) ltac:(assumption) ltac:(assumption)) as H.
    destruct (rct_fwd32 r0 g0 b0) as [[y cb] cr]. cbn [rct_inv_list]. rewrite H.
    f_equal. apply IH; simpl in *; try lia; assumption.
Qed.
