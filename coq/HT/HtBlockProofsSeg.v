(* HTJ2K cleanup pass: well-formedness of the code-block bytes the encoder writes — no byte pair
   0xFF, >0x8F (no marker code FF90..FFFF) anywhere in the segment, last byte not 0xFF, Scup/Lcup
   consistent.  Feeds C16 (codestream well-formedness). *)
From V Require Import Common.Base Gen.HtTables_gen HT.HtMel HT.HtVlc HT.HtUvlc HT.HtLevels HT.HtBlockBits HT.HtBlockEnc HT.HtBlockDec
  HT.HtBitLemmas HT.HtProofsTables HT.HtProofsMel HT.HtProofsMelOjph HT.HtProofsLevels HT.HtBlockProofsMs HT.HtBlockProofsVlc
  HT.HtBlockProofsRead HT.HtBlockProofsQuad HT.HtBlockProofsP1 HT.HtBlockProofsMain.

(* memory order *)
Fixpoint nomark (prev : Z) (l : list Z) : Prop :=
  match l with [] => True | b :: r => (prev = 255 -> b <= 143) /\ nomark b r end.
(* reversed lists (head = last byte): no marker, and the stronger writer rule "7 bits after 0xFF" *)
Fixpoint nm_r (l : list Z) : Prop :=
  match l with [] => True | b :: r => (hd 0 r = 255 -> b <= 143) /\ nm_r r end.
Fixpoint stuffed_r (l : list Z) : Prop :=
  match l with [] => True | b :: r => (hd 0 r = 255 -> b < 128) /\ stuffed_r r end.

Lemma stuffed_nm : forall l, stuffed_r l -> nm_r l.
Proof. induction l as [|b l IH]; intro H; [exact I|]. destruct H as [H1 H2]. split; [intro E; specialize (H1 E); lia|apply IH; exact H2]. Qed.

Lemma last_cons_irrel : forall (l : list Z) c a b, last (c :: l) a = last (c :: l) b.
Proof. induction l as [|d l IH]; intros c a b; [reflexivity|]. cbn [last] in *. apply (IH d). Qed.

Lemma nomark_app : forall l1 l2 p, nomark p l1 -> nomark (last l1 p) l2 -> nomark p (l1 ++ l2).
Proof.
  induction l1 as [|b l1 IH]; intros l2 p H1 H2; [exact H2|].
  destruct H1 as [Hb H1]. cbn [app nomark]. split; [exact Hb|]. apply IH; [exact H1|].
  destruct l1 as [|c l1']; [exact H2|]. rewrite (last_cons_irrel l1' c b p). exact H2.
Qed.

Lemma nm_r_nomark : forall l, nm_r l -> nomark 0 (rev l).
Proof.
  induction l as [|b l IH]; intro H; [exact I|]. destruct H as [Hb H]. cbn [rev].
  apply nomark_app; [apply IH; exact H|]. rewrite last_rev_hd0. cbn [nomark]. split; [exact Hb|exact I].
Qed.

Lemma hd_app_ne : forall (l1 l2 : list Z), hd 0 l1 <> 255 -> hd 0 l2 <> 255 -> hd 0 (l1 ++ l2) <> 255.
Proof. intros [|a l1] l2 H1 H2; [exact H2|exact H1]. Qed.

Lemma nm_r_app : forall l1 l2, nm_r l1 -> nm_r l2 -> hd 0 l2 <> 255 -> nm_r (l1 ++ l2).
Proof.
  induction l1 as [|b l1 IH]; intros l2 H1 H2 Hh; [exact H2|].
  destruct H1 as [Hb H1]. cbn [app nm_r]. split; [|apply IH; assumption].
  destruct l1 as [|c l1']; [cbn [app]; intro E; contradiction|exact Hb].
Qed.

(* ---------- MagSgn writer ---------- *)
Lemma msw_bit_stuffed : forall s B b, MW s B -> (b = 0 \/ b = 1) -> stuffed_r (ms_buf s) -> stuffed_r (ms_buf (msw_bit s b)).
Proof.
  intros s B b [Hmax [Hused [Htmp _]]] Hb Hst. unfold msw_bit.
  destruct (Z.geb_spec (ms_used s + 1) (ms_max s)) as [Hge|Hlt]; cbn [ms_buf]; [|exact Hst].
  split; [|exact Hst]. intro E. rewrite E in Hmax. unfold bytelen in Hmax. cbn in Hmax.
  assert (Eu : ms_used s = 6) by lia.
  rewrite lor_shiftl_add by lia. rewrite Eu in *. change (2 ^ 6) with 64 in *.
  unfold wrapU. change (2 ^ 8) with 256. rewrite Z.mod_small by (destruct Hb; subst b; lia). destruct Hb; subst b; lia.
Qed.

Definition MWS (s : msw) : Prop := (exists B, MW s B) /\ stuffed_r (ms_buf s).

Lemma MWS_bits_list : forall l s, MWS s -> is_bits l -> MWS (fold_left msw_bit l s).
Proof.
  induction l as [|b l IH]; intros s H Hl; [exact H|].
  inversion Hl as [|? ? Hb Hl']; subst. destruct H as [[B HB] Hst]. cbn [fold_left]. apply IH; [|exact Hl'].
  split; [exists (B ++ [b]); apply MW_bit; assumption|apply (msw_bit_stuffed s B); assumption].
Qed.

Lemma MWS_calls : forall calls s, MWS s -> MWS (fold_left msw_encode calls s).
Proof.
  induction calls as [|c calls IH]; intros s H; [exact H|]. cbn [fold_left]. apply IH.
  unfold msw_encode. rewrite msw_bits_fold. apply MWS_bits_list; [exact H|apply lsb_bits_is_bits].
Qed.

Lemma MWS_init : MWS msw_init.
Proof. split; [exists []; apply MW_init|exact I]. Qed.

Lemma pad_mask : forall t, 1 <= t <= 8 -> Z.land 255 (Z.shiftl 1 t - 1) = 2 ^ t - 1.
Proof.
  intros t Ht. assert (C : t = 1 \/ t = 2 \/ t = 3 \/ t = 4 \/ t = 5 \/ t = 6 \/ t = 7 \/ t = 8) by lia.
  destruct C as [->|[->|[->|[->|[->|[->|[->| ->]]]]]]]; reflexivity.
Qed.

Lemma ms_terminate_stuffed : forall s, MWS s ->
  stuffed_r (rev (msw_terminate s)) /\ hd 0 (rev (msw_terminate s)) <> 255.
Proof.
  intros s [[B [Hmax [Hused [Htmp _]]]] Hst]. unfold msw_terminate.
  pose proof (bytelen_pos (hd 0 (ms_buf s))) as Hbl.
  destruct (Z.eqb_spec (ms_used s) 0) as [Hz|Hnz]; cbn [negb].
  - destruct (ms_buf s) as [|b0 buf'] eqn:Eb.
    + rewrite andb_false_r. cbn. split; [exact I|lia].
    + cbn [negb andb hd tl] in *. destruct Hst as [Hb0 Hst'].
      destruct (Z.eqb_spec (ms_max s) 7) as [H7|Hn7]; cbn [andb]; rewrite rev_involutive.
      * assert (E0 : b0 = 255) by (unfold bytelen in Hmax; destruct (Z.eqb_spec b0 255); [assumption|lia]).
        split; [exact Hst'|]. intro E. specialize (Hb0 E). lia.
      * split; [split; assumption|]. cbn [hd]. intro E. rewrite E in Hmax. unfold bytelen in Hmax. cbn in Hmax. lia.
  - set (t := ms_max s - ms_used s). assert (Ht : 1 <= t <= 8) by (unfold t; lia).
    rewrite (pad_mask t Ht). rewrite lor_shiftl_add by lia.
    set (v := ms_tmp s + (2 ^ t - 1) * 2 ^ ms_used s).
    assert (Hv : 0 <= v < 2 ^ ms_max s).
    { unfold v. replace (ms_max s) with (t + ms_used s) by (unfold t; ring). rewrite Z.pow_add_r by lia.
      pose proof (pow2_pos t ltac:(lia)). pose proof (pow2_pos (ms_used s) ltac:(lia)). nia. }
    assert (Hv256 : 0 <= v < 256).
    { assert (2 ^ ms_max s <= 2 ^ 8) by (apply Z.pow_le_mono_r; lia). change (2 ^ 8) with 256 in *. lia. }
    unfold wrapU. change (2 ^ 8) with 256. rewrite Z.mod_small by exact Hv256.
    destruct (Z.eqb_spec v 255) as [E255|Hne]; rewrite rev_involutive.
    + split; [exact Hst|]. intro E. rewrite E in Hmax. unfold bytelen in Hmax. cbn in Hmax.
      rewrite Hmax in Hv. change (2 ^ 7) with 128 in Hv. lia.
    + split; [|cbn [hd]; exact Hne]. split; [|exact Hst]. intro E. rewrite E in Hmax. unfold bytelen in Hmax. cbn in Hmax.
      rewrite Hmax in Hv. change (2 ^ 7) with 128 in Hv. lia.
Qed.

Theorem ms_bytes_wellformed : forall calls,
  let bytes := msw_terminate (fold_left msw_encode calls msw_init) in
  stuffed_r (rev bytes) /\ hd 0 (rev bytes) <> 255.
Proof. intro calls. apply ms_terminate_stuffed. apply MWS_calls. exact MWS_init. Qed.

(* ---------- MEL writer ---------- *)
Definition W2 (s : melw) : Prop := w_ok s /\ stuffed_r (mw_buf s).

Lemma emit_W2 : forall s b, W2 s -> (b = 0 \/ b = 1) -> W2 (melw_emit s b).
Proof.
  intros s b [Hok Hst] Hb. destruct (emit_spec s b Hok Hb) as [Hok' _]. cbv zeta in Hok'. split; [exact Hok'|].
  destruct Hok as [Hrem [Htmp _]]. unfold melw_emit.
  destruct (Z.eqb_spec (mw_rem s - 1) 0) as [Hz|Hnz]; cbn [mw_buf]; [|exact Hst].
  split; [|exact Hst]. intro E. unfold w_full, w_last in Hrem, Htmp. rewrite E in Hrem, Htmp. change (255 =? 255) with true in Hrem, Htmp. cbv iota in Hrem, Htmp.
  assert (Er : mw_rem s = 1) by lia. rewrite Er in Htmp. change (2 ^ (7 - 1)) with 64 in Htmp.
  assert (Eb : Z.land b 1 = b) by (destruct Hb; subst b; reflexivity). rewrite Eb.
  rewrite Z.lor_comm, lor_shiftl_add by (change (2 ^ 1) with 2; destruct Hb; subst b; lia). change (2 ^ 1) with 2.
  unfold wrapU. change (2 ^ 8) with 256. rewrite Z.mod_small by (destruct Hb; subst b; lia). destruct Hb; subst b; lia.
Qed.

Lemma emit_run_W2 : forall t s run, W2 s -> W2 (melw_emit_run t s run).
Proof.
  induction t as [|t IH]; intros s run H; [exact H|]. cbn [melw_emit_run]. apply IH. apply emit_W2; [exact H|apply land1_bit].
Qed.

Lemma encode_W2 : forall s ev, W2 s -> W2 (melw_encode s ev).
Proof.
  intros s ev H. unfold melw_encode. destruct ev.
  - assert (H2 : W2 (melw_emit_run (Z.to_nat (mel_e (mw_k s))) (melw_emit s 0) (mw_run s))) by (apply emit_run_W2; apply emit_W2; [exact H|left; reflexivity]).
    exact H2.
  - destruct (mw_run s + 1 >=? mw_thr s); [|exact H].
    assert (H1 : W2 (melw_emit s 1)) by (apply emit_W2; [exact H|right; reflexivity]). exact H1.
Qed.

Lemma encode_all_W2 : forall evs s, W2 s -> W2 (fold_left melw_encode evs s).
Proof. induction evs as [|e evs IH]; intros s H; [exact H|]. cbn [fold_left]. apply IH. apply encode_W2. exact H. Qed.

Lemma init_W2 : W2 melw_init.
Proof. split; [exact (proj1 init_wst)|exact I]. Qed.

(* the fused byte after a 0xFF byte keeps bit 7 clear: finite fact *)
Lemma fuse7 : forall rem tmp fz, 1 <= rem <= 7 -> 0 <= tmp < 2 ^ (7 - rem) -> 0 <= fz < 256 ->
  Z.land (Z.lxor fz (Z.shiftl tmp rem)) (Z.land (Z.shiftl 255 rem) 255) = 0 -> fz < 128.
Proof.
  intros rem tmp fz Hr Ht Hz H.
  assert (C : forallb (fun rem => forallb (fun tmp => forallb (fun fz =>
              implb ((tmp <? 2 ^ (7 - rem)) && (Z.land (Z.lxor fz (Z.shiftl tmp rem)) (Z.land (Z.shiftl 255 rem) 255) =? 0)) (fz <? 128))
              (zseq 256)) (zseq 64)) (zrange 1 7) = true) by (vm_compute; reflexivity).
  pose proof (proj1 (forallb_forall _ _) C rem (In_zrange 1 7 rem ltac:(lia))) as H1. cbv beta in H1.
  assert (Ht64 : 0 <= tmp < 64).
  { assert (2 ^ (7 - rem) <= 2 ^ 6) by (apply Z.pow_le_mono_r; lia). change (2 ^ 6) with 64 in *. lia. }
  pose proof (proj1 (forallb_forall _ _) H1 tmp (In_zseq 64 tmp ltac:(change (Z.of_nat 64) with 64; lia))) as H2. cbv beta in H2.
  pose proof (proj1 (forallb_forall _ _) H2 fz (In_zseq 256 fz ltac:(change (Z.of_nat 256) with 256; lia))) as H3. cbv beta in H3.
  destruct (Z.ltb_spec tmp (2 ^ (7 - rem))) as [_|?]; [|lia]. rewrite H, Z.eqb_refl in H3. cbn [andb implb] in H3.
  apply Z.ltb_lt. exact H3.
Qed.

Lemma mel_terminate_stuffed : forall s vt vu more, W2 s -> 0 <= vt < 256 ->
  let r := ojph_mel_terminate s vt vu more in
  stuffed_r (rev (fst r)) /\ hd 0 (rev (fst r)) <> 255.
Proof.
  intros s vt vu more Hs Hvt. cbv zeta. unfold ojph_mel_terminate.
  set (sf := if mw_run s >? 0 then melw_emit s 1 else s).
  assert (Hsf : W2 sf) by (unfold sf; destruct (mw_run s >? 0); [apply emit_W2; [exact Hs|right; reflexivity]|exact Hs]).
  destruct Hsf as [[Hrem [Htmp Hbuf]] Hst].
  assert (Hfull : w_full sf = 7 \/ w_full sf = 8) by (unfold w_full; destruct (w_last sf =? 255); auto).
  assert (Epow : 2 ^ (w_full sf - mw_rem sf) * 2 ^ mw_rem sf = 2 ^ w_full sf).
  { rewrite <- Z.pow_add_r by lia. f_equal. ring. }
  assert (Hpr : 0 < 2 ^ mw_rem sf) by (apply Z.pow_pos_nonneg; lia).
  set (mtmp := Z.shiftl (mw_tmp sf) (mw_rem sf)).
  assert (Emt : mtmp = mw_tmp sf * 2 ^ mw_rem sf) by (unfold mtmp; apply Z.shiftl_mul_pow2; lia).
  assert (Hmt : 0 <= mtmp < 2 ^ w_full sf) by (rewrite Emt; nia).
  assert (Hmt256 : 0 <= mtmp < 256).
  { destruct Hfull as [E|E]; rewrite E in Hmt; [change (2 ^ 7) with 128 in Hmt|change (2 ^ 8) with 256 in Hmt]; lia. }
  assert (Hodd : mtmp <> 255).
  { rewrite Emt. replace (mw_rem sf) with (1 + (mw_rem sf - 1)) by ring. rewrite Z.pow_add_r by lia. change (2 ^ 1) with 2. lia. }
  assert (H255 : hd 0 (mw_buf sf) = 255 -> w_full sf = 7) by (intro E; unfold w_full, w_last; rewrite E; reflexivity).
  destruct (Z.lor (Z.land (Z.shiftl 255 (mw_rem sf)) 255) (if vu >? 0 then Z.shiftr 255 (8 - vu) else 0) =? 0) eqn:Em.
  - cbn [fst]. rewrite rev_involutive. split; [exact Hst|]. intro E. specialize (H255 E).
    apply Z.eqb_eq in Em. apply Z.lor_eq_0_iff in Em. destruct Em as [Em _].
    pose proof (melmask_zero (mw_rem sf) ltac:(lia) Em). lia.
  - match goal with |- context [if ?c then _ else _] => destruct c eqn:Ec end; cbn [fst]; rewrite rev_involutive.
    + apply andb_prop in Ec. destruct Ec as [Ec _]. apply andb_prop in Ec. destruct Ec as [Ec Hn255].
      apply Z.eqb_eq in Ec. apply Z.lor_eq_0_iff in Ec. destruct Ec as [Ec _].
      pose proof (lor_lt_256 mtmp vt Hmt256 Hvt) as Hf. fold mtmp in Ec, Hn255.
      unfold wrapU. change (2 ^ 8) with 256. rewrite Z.mod_small by exact Hf.
      split; [|cbn [hd]; destruct (Z.eqb_spec (Z.lor mtmp vt) 255); [discriminate|assumption]].
      split; [|exact Hst]. intro E. specialize (H255 E). rewrite H255 in *.
      apply (fuse7 (mw_rem sf) (mw_tmp sf) (Z.lor mtmp vt)); [lia|exact Htmp|exact Hf|exact Ec].
    + unfold wrapU. change (2 ^ 8) with 256. fold mtmp. rewrite Z.mod_small by exact Hmt256.
      split; [|cbn [hd]; exact Hodd]. split; [|exact Hst]. intro E. specialize (H255 E). rewrite H255 in Hmt.
      change (2 ^ 7) with 128 in Hmt. lia.
Qed.

(* ---------- VLC writer, Scup patch, assembly ---------- *)
Lemma ok7_nm : forall l u, ok7 l u -> nm_r l.
Proof.
  induction l as [|b l IH]; intros u H; [exact I|]. destruct H as [_ H]. split; [|exact (IH _ H)].
  destruct l as [|c l']; [cbn [hd]; lia|]. cbn [hd]. intro E. subst c. destruct H as [H7 _].
  destruct (Z.gtb_spec b 143) as [Hgt|Hle]; [|exact Hle]. exfalso.
  assert (E7 : ublen true 255 = 7) by reflexivity. specialize (H7 E7). lia.
Qed.

Lemma patch_nomark : forall d nib, 0 <= d < 256 -> 0 <= nib < 16 -> (d mod 16 = 15 /\ d <> 255) \/ d < 128 ->
  let d' := Z.lor (Z.land d 240) nib in 0 <= d' < 256 /\ d' <> 255 /\ (d <= 143 -> d' <= 143).
Proof.
  intros d nib Hd Hn HP.
  assert (H : forallb (fun d => forallb (fun nib => implb (((d mod 16 =? 15) && negb (d =? 255)) || (d <? 128))
            (let d' := Z.lor (Z.land d 240) nib in
             (0 <=? d') && (d' <? 256) && negb (d' =? 255) && implb (d <=? 143) (d' <=? 143))) zseq16) zseq256 = true)
    by (vm_compute; reflexivity).
  pose proof (proj1 (forallb_forall _ _) H d) as H1.
  assert (Hin : In d zseq256).
  { unfold zseq256. replace d with (Z.of_nat (Z.to_nat d)) by lia. apply in_map. apply in_seq. lia. }
  specialize (H1 Hin). cbv beta in H1.
  pose proof (proj1 (forallb_forall _ _) H1 nib) as H2.
  assert (Hin2 : In nib zseq16).
  { unfold zseq16. replace nib with (Z.of_nat (Z.to_nat nib)) by lia. apply in_map. apply in_seq. lia. }
  specialize (H2 Hin2). cbv zeta in *.
  assert (Hpre : ((d mod 16 =? 15) && negb (d =? 255)) || (d <? 128) = true).
  { destruct HP as [[A B]|A].
    - rewrite A, Z.eqb_refl. destruct (Z.eqb_spec d 255); [contradiction|reflexivity].
    - apply orb_true_iff. right. apply Z.ltb_lt. exact A. }
  rewrite Hpre in H2. cbn [implb] in H2.
  apply andb_prop in H2. destruct H2 as [H2 H3]. apply andb_prop in H2. destruct H2 as [H2 H4].
  apply andb_prop in H2. destruct H2 as [H2a H2b].
  apply Z.leb_le in H2a. apply Z.ltb_lt in H2b.
  split; [lia|]. split.
  - destruct (Z.eqb_spec (Z.lor (Z.land d 240) nib) 255); [discriminate|assumption].
  - intro Hle. destruct (Z.leb_spec d 143) as [_|?]; [|lia]. cbn [implb] in H3. apply Z.leb_le. exact H3.
Qed.

Lemma Forall_byte_conv : forall l, Forall (fun b => 0 <= b < 256) l -> Forall is_byte_p l.
Proof. intros l H. exact H. Qed.

Theorem segment_wellformed_streams : forall (S : streams),
  calls_ok (st_vlc S) ->
  let mel := fold_left melw_encode (st_mel S) melw_init in
  let vs := fold_left vlw_encode (st_vlc S) vlw_init in
  let msb := msw_terminate (fold_left msw_encode (st_ms S) msw_init) in
  let tr := ojph_mel_terminate mel (vw2_tmp vs) (vw2_used vs) (1 <? zlen (vw2_buf vs)) in
  let meld := fst tr in
  let vlcd := match snd tr with Some b => b :: vlw_bytes vs | None => vlw_bytes vs end in
  let scup := zlen meld + zlen vlcd in
  let block := scup_write (msb ++ meld ++ vlcd) scup in
  scup <= 4079 ->
  Forall is_byte_p block /\ nomark 0 block /\ last block 0 <> 255.
Proof.
  intros S Hcok mel vs msb tr meld vlcd scup block Hsc.
  destruct (VW_calls (st_vlc S) vlw_init [1; 1; 1; 1] VW_init) as
    [closed [Hbuf [Hcl [Hok [HB [Hval [Hlen [Htmp [Hu0 Hcase]]]]]]]]]. fold vs in Hbuf, Hval, Hlen, Htmp, Hu0, Hcase.
  assert (Hu7 : vw2_used vs <= 7) by (destruct Hcase as [[_ [_ ?]]|[[_ [_ ?]]|[_ [_ [? _]]]]]; lia).
  assert (Hvt128 : 0 <= vw2_tmp vs < 128).
  { assert (2 ^ vw2_used vs <= 2 ^ 7) by (apply Z.pow_le_mono_r; lia). change (2 ^ 7) with 128 in *. lia. }
  assert (Hvt : 0 <= vw2_tmp vs < 256) by lia.
  (* MEL and MagSgn bytes *)
  destruct (mel_terminate_stuffed mel (vw2_tmp vs) (vw2_used vs) (1 <? zlen (vw2_buf vs))
              (encode_all_W2 (st_mel S) melw_init init_W2) Hvt) as [Hmst Hmhd]. fold tr meld in Hmst, Hmhd.
  assert (Hmelb : Forall is_byte_p meld).
  { unfold meld, tr, mel. exact (proj1 (ojph_writer_bits (st_mel S) (vw2_tmp vs) (vw2_used vs) (1 <? zlen (vw2_buf vs)) Hvt)). }
  destruct (ms_bytes_wellformed (st_ms S)) as [Hsst Hshd]. fold msb in Hsst, Hshd.
  destruct (ms_stream_roundtrip (st_ms S)) as [Hmsb _]. fold msb in Hmsb.
  set (X := rev meld ++ rev msb).
  assert (HXnm : nm_r X) by (unfold X; apply nm_r_app; [apply stuffed_nm; exact Hmst|apply stuffed_nm; exact Hsst|exact Hshd]).
  assert (HXhd : hd 0 X <> 255) by (unfold X; apply hd_app_ne; assumption).
  assert (HXb : Forall is_byte_p X) by (unfold X; apply Forall_app; split; apply Forall_rev; assumption).
  (* the segment in reading order *)
  assert (HY : exists Y, rev (msb ++ meld ++ vlcd) = 255 :: closed ++ Y /\ nm_r Y /\ hd 0 Y <> 255 /\ Forall is_byte_p Y /\
                 (closed <> [] \/ exists Y', Y = vw2_tmp vs :: Y')).
  { pose proof (terminate_vlc_cases mel (vw2_tmp vs) (vw2_used vs) (1 <? zlen (vw2_buf vs)) ltac:(lia) ltac:(lia)) as Hc.
    fold tr in Hc. cbv zeta in Hc. unfold vlcd, vlw_bytes.
    destruct Hc as [[Hz Hn]|[[Hn [Hm _]]|Hs]].
    - rewrite Hn. exists X. rewrite !rev_app_distr, Hbuf, rev_app_distr, rev_involutive. cbn [rev app].
      split; [unfold X; rewrite <- !app_assoc; reflexivity|]. split; [exact HXnm|]. split; [exact HXhd|]. split; [exact HXb|].
      left. intro E. subst closed. cbn [nb] in Hlen. rewrite Hz in Hlen. rewrite app_length in Hlen. cbn [length] in Hlen. lia.
    - rewrite Hn. exists X. rewrite !rev_app_distr, Hbuf, rev_app_distr, rev_involutive. cbn [rev app].
      split; [unfold X; rewrite <- !app_assoc; reflexivity|]. split; [exact HXnm|]. split; [exact HXhd|]. split; [exact HXb|].
      left. intro E. subst closed. apply Z.ltb_lt in Hm. rewrite Hbuf in Hm. cbn in Hm. lia.
    - rewrite Hs. unfold wrapU. change (2 ^ 8) with 256. rewrite Z.mod_small by exact Hvt.
      exists (vw2_tmp vs :: X). rewrite !rev_app_distr. cbn [rev]. rewrite Hbuf, !rev_app_distr, rev_involutive. cbn [rev app].
      split; [unfold X; rewrite <- !app_assoc; cbn [app]; reflexivity|].
      split; [split; [intro; lia|exact HXnm]|]. split; [cbn [hd]; lia|].
      split; [constructor; [exact Hvt|exact HXb]|]. right. exists X. reflexivity. }
  destruct HY as [Y [HRO [HYnm [HYhd [HYb Hne]]]]].
  assert (HTnm : nm_r (closed ++ Y)) by (apply nm_r_app; [apply (ok7_nm closed true); exact Hok|exact HYnm|exact HYhd]).
  assert (HTb : Forall is_byte_p (closed ++ Y)) by (apply Forall_app; split; assumption).
  destruct (closed ++ Y) as [|d before] eqn:ET.
  { exfalso. destruct Hne as [Hne|[Y' EY]]; [destruct closed; [contradiction|discriminate]|subst Y; destruct closed; discriminate]. }
  assert (HPd : (d mod 16 = 15 /\ d <> 255) \/ d < 128).
  { destruct closed as [|c0 cl].
    - right. destruct Hne as [Hne|[Y' EY]]; [contradiction|]. subst Y. cbn [app] in ET. inversion ET; subst. lia.
    - left. cbn [app] in ET. inversion ET; subst c0. clear ET.
      destruct Hok as [H7 _]. split.
      + assert (E16 : bits_val ([1; 1; 1; 1] ++ call_bits (st_vlc S)) mod 16 = 15).
        { rewrite bits_val_app. change (bits_val [1; 1; 1; 1]) with 15. change (2 ^ Z.of_nat (length [1; 1; 1; 1])) with 16.
          rewrite Z.mod_add by lia. reflexivity. }
        rewrite Hval in E16. cbn [nb] in E16. pose proof (ublen_range true d) as Hur. pose proof (nb_nonneg cl (d >? 143)) as Hnn.
        replace (ublen true d + nb cl (d >? 143)) with (4 + (ublen true d - 4 + nb cl (d >? 143))) in E16 by ring.
        rewrite Z.pow_add_r in E16 by lia. change (2 ^ 4) with 16 in E16.
        rewrite (Z.mul_comm 16), Z.mul_assoc, Z.mod_add in E16 by lia.
        rewrite rev_bits_unfold in E16. change 16 with (2 ^ 4) in E16. rewrite lor_shiftl_mod in E16 by lia. exact E16.
      + intro E. subst d. assert (E7 : ublen true 255 = 7) by reflexivity. specialize (H7 E7). lia. }
  (* the patched bytes *)
  assert (Hsc0 : 0 <= scup) by (unfold scup, zlen; lia).
  set (nib := wrapU 8 (Z.land scup 15)).
  assert (Hnib : 0 <= nib < 16).
  { unfold nib. change 15 with (Z.ones 4). rewrite Z.land_ones by lia. change (2 ^ 4) with 16.
    pose proof (Z.mod_pos_bound scup 16 ltac:(lia)). unfold wrapU. change (2 ^ 8) with 256. rewrite Z.mod_small; lia. }
  set (b' := wrapU 8 (Z.shiftr scup 4)).
  assert (Hb' : 0 <= b' <= 254).
  { unfold b'. rewrite Z.shiftr_div_pow2 by lia. change (2 ^ 4) with 16.
    assert (0 <= scup / 16 < 255) by (split; [apply Z.div_pos; lia|apply Z.div_lt_upper_bound; lia]).
    unfold wrapU. change (2 ^ 8) with 256. rewrite Z.mod_small; lia. }
  assert (Hd : is_byte_p d) by (inversion HTb; assumption).
  destruct (patch_nomark d nib Hd Hnib HPd) as [Ha1 [Ha2 Ha3]]. cbv zeta in Ha1, Ha2, Ha3.
  assert (Erev : rev block = b' :: Z.lor (Z.land d 240) nib :: before).
  { unfold block, scup_write. rewrite rev_involutive, HRO. reflexivity. }
  assert (Hnm : nm_r (rev block)).
  { rewrite Erev. destruct HTnm as [Hd1 Hbn]. split; [cbn [hd]; intro; contradiction|]. split; [|exact Hbn].
    intro E. apply Ha3. apply Hd1. exact E. }
  split; [|split].
  - rewrite <- (rev_involutive block). apply Forall_rev. rewrite Erev.
    constructor; [unfold is_byte_p; lia|]. constructor; [exact Ha1|]. inversion HTb; assumption.
  - rewrite <- (rev_involutive block). apply nm_r_nomark. exact Hnm.
  - rewrite <- (rev_involutive block), last_rev_hd0, Erev. cbn [hd]. lia.
Qed.

(* ---------- the encoder's code-block ---------- *)
Lemma scup_write_length : forall l s, length (scup_write l s) = length l.
Proof.
  intros l s. unfold scup_write. rewrite rev_length. rewrite <- (rev_length l).
  destruct (rev l) as [|a [|b r]]; reflexivity.
Qed.

Lemma scup_parse_shape : forall b m c, scup_parse b = Ok (m, c) -> b = m ++ c /\ 2 <= zlen c <= 4079 /\ zlen c <= zlen b.
Proof.
  intros b m c. unfold scup_parse.
  destruct (Z.ltb_spec (zlen b) 2) as [|Hl]; [discriminate|].
  set (scup := Z.lor _ _).
  destruct (Z.ltb_spec scup 2) as [|H2]; [discriminate|]. destruct (Z.gtb_spec scup (zlen b)) as [|H3]; [discriminate|].
  destruct (Z.gtb_spec scup 4079) as [|H4]; [discriminate|]. cbn [orb]. intro E. inversion E; subst m c.
  split; [symmetry; apply firstn_skipn|]. unfold zlen in *. rewrite skipn_length. lia.
Qed.

Theorem ht_segments_wellformed : forall w h kmax data block,
  1 <= w -> 1 <= h -> 1 <= kmax <= 30 -> zlen data = w * h -> good kmax data ->
  ht_suffix_len w h kmax data <= 4079 ->
  ht_block_encode w h kmax data = Ok block ->
  block = [] \/
  ((exists msb cld, scup_parse block = Ok (msb, cld) /\ block = msb ++ cld /\
                    zlen cld = ht_suffix_len w h kmax data /\ 2 <= zlen cld <= 4079) /\
   Forall is_byte_p block /\ nomark 0 block /\ last block 0 <> 255).
Proof.
  intros w h kmax data block Hw Hh Hk Hlen Hgood Hsuf.
  unfold ht_block_encode. rewrite Hlen, Z.eqb_refl. cbn [negb].
  destruct (Z.leb_spec kmax 0) as [?|_]; [lia|]. destruct (Z.geb_spec kmax 31) as [?|_]; [lia|]. cbn [orb].
  destruct (forallb (fun v => ht_sample_val kmax v =? 0) data) eqn:Ez.
  - intro E. inversion E. left. reflexivity.
  - set (nq := Z.to_nat (Z.quot (w + 1) 2)).
    set (nqy := Z.to_nat (Z.quot (h + 1) 2)).
    assert (Hq2 : 1 <= Z.quot (h + 1) 2) by (apply Z.quot_le_lower_bound; lia).
    destruct nqy as [|nqy'] eqn:En'; [unfold nqy in En'; lia|].
    set (rest := map (vrow data w h) (xs_from 1 nqy')).
    assert (Erows : map (quad_row (map (ht_sample_pack kmax) data) (30 - (kmax - 1)) w h) (zseq (Datatypes.S nqy')) =
                    map (map q_of) (vrow data w h 0 :: rest)).
    { rewrite zseq_xs, xs_from_S. unfold rest. cbn [map]. rewrite !(quad_row_vrow kmax) by assumption.
      f_equal. rewrite !map_map. apply map_ext. intro r. apply (quad_row_vrow kmax); assumption. }
    unfold ht_suffix_len in Hsuf |- *. cbv zeta in Hsuf |- *. fold nqy in Hsuf |- *. rewrite En' in Hsuf |- *. rewrite Erows in Hsuf |- *.
    cbn [map enc_streams] in Hsuf |- *.
    set (S := st_app (enc_row0 (map q_of (vrow data w h 0)) 0) (enc_rows (map (map q_of) rest) (map q_of (vrow data w h 0)))) in *.
    assert (Hvr0 : Forall (vq_ok kmax) (vrow data w h 0)) by (apply vrow_ok; [lia|exact Hgood]).
    assert (Hrest : Forall (Forall (vq_ok kmax)) rest).
    { unfold rest. apply Forall_forall. intros vr Hin. apply in_map_iff in Hin. destruct Hin as [r [<- _]]. apply vrow_ok; [lia|exact Hgood]. }
    assert (Hcok : calls_ok (st_vlc S)).
    { unfold S. cbn [st_app st_vlc]. apply Forall_app. split; [apply (enc_row0_vlc_ok kmax); try assumption; lia|].
      apply (enc_rows_vlc_ok kmax); assumption. }
    destruct (block_streams S Hcok Hsuf) as [Hsc2 [cld [Hparse _]]].
    pose proof (segment_wellformed_streams S Hcok Hsuf) as Hwf.
    cbv zeta in Hsc2, Hparse, Hwf.
    destruct (ojph_mel_terminate (fold_left melw_encode (st_mel S) melw_init)
                (vw2_tmp (fold_left vlw_encode (st_vlc S) vlw_init)) (vw2_used (fold_left vlw_encode (st_vlc S) vlw_init))
                (1 <? zlen (vw2_buf (fold_left vlw_encode (st_vlc S) vlw_init)))) as [meld extra] eqn:Etr.
    cbn [fst snd] in Hsc2, Hparse, Hwf, Hsuf |- *.
    set (vlcd := match extra with Some b => b :: vlw_bytes (fold_left vlw_encode (st_vlc S) vlw_init) | None => vlw_bytes (fold_left vlw_encode (st_vlc S) vlw_init) end) in *.
    destruct (Z.eqb_spec (zlen meld + zlen vlcd) 0) as [?|_]; [lia|].
    intro E. inversion E as [Eb]. clear E. right.
    set (msb := msw_terminate (fold_left msw_encode (st_ms S) msw_init)) in *.
    split; [|exact Hwf].
    exists msb, cld. split; [exact Hparse|].
    destruct (scup_parse_shape _ _ _ Hparse) as [Eapp [Hc _]].
    split; [exact Eapp|]. split; [|lia].
    apply (f_equal (@length Z)) in Eapp. rewrite scup_write_length, !app_length in Eapp. unfold zlen. lia.
Qed.
