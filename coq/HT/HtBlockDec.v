(* EXTRACT *)
(* HTJ2K cleanup pass, decoder: HTDecoder.Decode -> decodeOpenJPHCleanup
   (decoder.go, openjph_cleanup_decoder.go).
   Shape of the model.  Go keeps a scratch array with one stripe per quad row (stride sstr), two
   uint16 per quad: the VLC table entry t (cwd_len | u_off<<3 | rho<<4 | e_1<<8 | e_k<<12) and the
   decoded U value; the array is zero-initialised, every stripe is written once, and everything it
   reads outside the written part (sentinels, the partner of the last quad of an odd quad count) is
   zero.  The model keeps each stripe as a list of (t, u) and reads out of range as 0.  vnScratch
   likewise: vn[i] = (v_n of the bottom-right sample of quad i-1) | (v_n of the bottom-left sample
   of quad i) of the previous quad row.
   Phase 1 reads MEL + VLC (+U-VLC) for all rows, phase 2 reads MagSgn; errors (U_q too large) can
   only arise in phase 2.  The streams are the integers of HtBlockBits. *)
From V Require Import Common.Base Gen.HtTables_gen HT.HtMel HT.HtVlc HT.HtUvlc HT.HtLevels HT.HtBlockBits.

(* phase-1 state: MEL consumer (run, reader) and the VLC stream *)
Definition dstate : Type := ((Z * melr) * Z)%type.

(* ojphCleanupState.applyZeroRun: the entry survives iff the MEL event is 1 *)
Definition zero_run (t : Z) (st : dstate) : Z * dstate :=
  let '(ms, v) := st in
  let '(ev, ms') := ojph_mel_event ms in
  ((if ev then t else 0), (ms', v)).

Definition lut (tbl : list Z) (cq v : Z) : Z := znth tbl (cq + Z.land (vlc_peek v) 127) 0.
Definition adv (st : dstate) (n : Z) : dstate := let '(ms, v) := st in (ms, vlc_advance v n).
Definition ctx0_of (t : Z) : Z := Z.lor (Z.shiftl (Z.land t 16) 3) (Z.shiftl (Z.land t 224) 2).
Definition uvlc_mode (t0 t1 : Z) : Z := Z.lor (Z.shiftl (Z.land t0 8) 3) (Z.shiftl (Z.land t1 8) 4).

(* decodeOJPHUVLC through the stream *)
Definition dec_uvlc (initial : bool) (mode : Z) (st : dstate) : Z * Z * dstate :=
  let '(ms, v) := st in
  let '(u0, u1, n) := ojph_uvlc_decode initial mode (vlc_peek v) in
  (u0, u1, (ms, vlc_advance v n)).

(* decodeOpenJPHInitialRow: npairs quad pairs, x = column of the pair's first sample *)
Fixpoint dec_row0 (npairs : nat) (w x cq : Z) (st : dstate) : list (Z * Z) * dstate :=
  match npairs with
  | O => ([], st)
  | S k =>
    let t0 := lut vlc_lookup0 cq (snd st) in
    let '(t0, st) := if cq =? 0 then zero_run t0 st else (t0, st) in
    let cq := ctx0_of t0 in
    let st := adv st (Z.land t0 7) in
    let t1 := lut vlc_lookup0 cq (snd st) in
    let '(t1, st) := if (cq =? 0) && (x + 2 <? w) then zero_run t1 st else (t1, st) in
    let t1 := if x + 2 >=? w then 0 else t1 in
    let cq := ctx0_of t1 in
    let st := adv st (Z.land t1 7) in
    let mode := uvlc_mode t0 t1 in
    let '(mode, st) :=
      if mode =? 192 then
        let '(ms, v) := st in
        let '(ev, ms') := ojph_mel_event ms in
        ((if ev then mode + 64 else mode), (ms', v))
      else (mode, st) in
    let '(u0, u1, st) := dec_uvlc true mode st in
    let '(rest, st) := dec_row0 k w (x + 4) cq st in
    ((t0, wrapU 16 (1 + u0)) :: (t1, wrapU 16 (1 + u1)) :: rest, st)
  end.

(* the stripe above, by quad column *)
Definition above (arow : list (Z * Z)) (j : Z) : Z := fst (znth arow j (0, 0)).

(* decodeOpenJPHRemainingRows, one row; j = quad column of the pair's first quad *)
Fixpoint dec_rowN (npairs : nat) (arow : list (Z * Z)) (w x j cq : Z) (st : dstate)
  : list (Z * Z) * dstate :=
  match npairs with
  | O => ([], st)
  | S k =>
    let cq := Z.lor cq (Z.lor (Z.shiftl (Z.land (above arow j) 160) 2)
                              (Z.shiftl (Z.land (above arow (j + 1)) 32) 4)) in
    let t0 := lut vlc_lookup1 cq (snd st) in
    let '(t0, st) := if cq =? 0 then zero_run t0 st else (t0, st) in
    let cq := Z.lor (Z.shiftl (Z.land t0 64) 2) (Z.shiftl (Z.land t0 128) 1) in
    let cq := Z.lor cq (Z.land (above arow j) 128) in
    let cq := Z.lor cq (Z.lor (Z.shiftl (Z.land (above arow (j + 1)) 160) 2)
                              (Z.shiftl (Z.land (above arow (j + 2)) 32) 4)) in
    let st := adv st (Z.land t0 7) in
    let t1 := lut vlc_lookup1 cq (snd st) in
    let '(t1, st) := if (cq =? 0) && (x + 2 <? w) then zero_run t1 st else (t1, st) in
    let t1 := if x + 2 >=? w then 0 else t1 in
    let cq := Z.lor (Z.shiftl (Z.land t1 64) 2) (Z.shiftl (Z.land t1 128) 1) in
    let cq := Z.lor cq (Z.land (above arow (j + 1)) 128) in
    let st := adv st (Z.land t1 7) in
    let '(u0, u1, st) := dec_uvlc false (uvlc_mode t0 t1) st in
    let '(rest, st) := dec_rowN k arow w (x + 4) (j + 2) cq st in
    ((t0, wrapU 16 u0) :: (t1, wrapU 16 u1) :: rest, st)
  end.

Fixpoint dec_rows (nrows : nat) (npairs : nat) (arow : list (Z * Z)) (w : Z) (st : dstate)
  : list (list (Z * Z)) :=
  match nrows with
  | O => []
  | S k => let '(row, st) := dec_rowN npairs arow w 0 0 0 st in row :: dec_rows k npairs row w st
  end.

(* ---------- phase 2: MagSgn ---------- *)
Definition bitlen32_d (v : Z) : Z := if v <=? 0 then 0 else Z.log2 v + 1.
(* decodeOJPHSampleMS: (val, vn, stream) *)
Definition dec_sample (m : msr) (inf uq bit p : Z) : Z * Z * msr :=
  if Z.land inf (Z.shiftl 1 (4 + bit)) =? 0 then (0, 0, m)
  else
    let mn := uq - Z.land (Z.shiftr inf (12 + bit)) 1 in
    let '(msVal, m') := ms_fetch m mn in
    let vn := Z.land msVal (wrapU 32 (Z.shiftl 1 mn) - 1) in
    let vn := Z.lor vn (wrapU 32 (Z.shiftl (Z.land (Z.shiftr inf (8 + bit)) 1) mn)) in
    let vn := Z.lor vn 1 in
    (Z.lor (wrapU 32 (Z.shiftl msVal 31)) (wrapU 32 (Z.shiftl (wrapU 32 (vn + 2)) (p - 1))), vn, m').

(* one quad row of decodeOJPHScratchMagSgn. vnp = vn list of the previous row ([] for row 0);
   first = row 0.  Result: top samples, bottom samples (each w long), this row's vn list, stream;
   None = the U_q check failed *)
Fixpoint dec_ms_row (row : list (Z * Z)) (first : bool) (vnp : list Z) (w x j p mmsbp2 prevvn : Z) (m : msr)
  : option (list Z * list Z * list Z * msr) :=
  if x >=? w then Some ([], [], [prevvn], m)
  else
    match row with
    | [] => Some ([], [], [prevvn], m)
    | (inf, uq) :: row' =>
      let uq :=
        if first then uq
        else
          let gamma := Z.land inf 240 in
          let gamma := Z.land gamma (wrapU 32 (gamma - 16)) in
          let emax := bitlen32_d (Z.lor (Z.lor (znth vnp j 0) (znth vnp (j + 1) 0)) 2) - 1 in
          let kappa := if negb (gamma =? 0) then emax else 1 in
          uq + kappa in
      if uq >? mmsbp2 then None
      else
        let '(v0, n0, m) := dec_sample m inf uq 0 p in
        let '(v1, n1, m) := dec_sample m inf uq 1 p in
        let vnj := Z.lor prevvn n1 in
        if x + 1 >=? w then Some ([v0], [v1], [vnj; 0; 0], m)
        else
          let '(v2, n2, m) := dec_sample m inf uq 2 p in
          let '(v3, n3, m) := dec_sample m inf uq 3 p in
          match dec_ms_row row' first vnp w (x + 2) (j + 1) p mmsbp2 n3 m with
          | None => None
          | Some (tops, bots, vns, m) => Some (v0 :: v2 :: tops, v1 :: v3 :: bots, vnj :: vns, m)
          end
    end.

Fixpoint dec_ms_rows (rows : list (list (Z * Z))) (first : bool) (vnp : list Z) (w p mmsbp2 : Z) (m : msr)
  : option (list (list Z * list Z)) :=
  match rows with
  | [] => Some []
  | row :: rows' =>
    match dec_ms_row row first vnp w 0 0 p mmsbp2 0 m with
    | None => None
    | Some (tops, bots, vns, m') =>
      match dec_ms_rows rows' false vns w p mmsbp2 m' with
      | None => None
      | Some l => Some ((tops, bots) :: l)
      end
    end
  end.

(* out[] assembly: the bottom line of the last quad row is dropped when the height is odd *)
Fixpoint assemble (l : list (list Z * list Z)) (y h : Z) : list Z :=
  match l with
  | [] => []
  | (tops, bots) :: l' => tops ++ (if y + 1 <? h then bots else []) ++ assemble l' (y + 2) h
  end.

(* out[i] = +-int32((v & 0x7FFFFFFF) >> uint(31 - kmax)) *)
Definition word_to_coef (kmax v : Z) : Z :=
  let sh := 31 - kmax in
  let mag := if sh <? 0 then 0 else Z.shiftr (Z.land v 2147483647) sh in
  if negb (Z.land v 2147483648 =? 0) then - mag else mag.

(* HTDecoder.Decode(codeblock, _) after SetCodingContext(kmax, missingMSBs), block w x h *)
Definition ht_block_decode (w h kmax missing : Z) (cb : list Z) : outcome (list Z) :=
  if zlen cb =? 0 then Ok (repeat 0 (Z.to_nat (w * h)))
  else if kmax <=? 0 then Err
  else if missing <? 0 then Err
  else if missing >=? 30 then Err
  else
    match scup_parse cb with
    | Ok (msd, cld) =>
      let p := 30 - missing in
      let npairs := Z.to_nat (Z.quot (w + 3) 4) in
      let st0 : dstate := (ojph_mel_start cld, rev_stream cld) in
      let '(row0, st1) := dec_row0 npairs w 0 0 st0 in
      let rows := row0 :: dec_rows (Z.to_nat (Z.quot (h + 1) 2 - 1)) npairs row0 w st1 in
      match dec_ms_rows rows true [] w p (missing + 2) (ms_stream msd) with
      | None => Err
      | Some l => Ok (map (word_to_coef kmax) (assemble l 0 h))
      end
    | _ => Err
    end.
