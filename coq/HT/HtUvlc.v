(* EXTRACT *)
(* HTJ2K U-VLC: models of jpeg2000/htj2k
     uvlc_tables.go   generateUVLCTables (UVLCTbl0[320], UVLCTbl1[256], UVLCBias[320], built at
                      init() from the local table dec[8] which is regenerated as ht_uvlc_dec),
                      UVLCDecodeEntry accessors
     openjph_cleanup_encoder.go  ojphUVLC, ojphEncodeInitialUVLC, ojphEncodeNonInitialUVLC
                      (what the live encoder emits; note: it never emits the 4-bit extension)
     openjph_cleanup_decoder.go  decodeOJPHUVLC (what the live decoder reads)
     uvlc_encoder.go  EncodeUVLC, EncodePrefixBits, UVLCCodeword.EncodeToStream
     uvlc_decoder.go  decodeUPrefix / decodeUSuffix / decodeUExtension, DecodeUnsignedResidual
   Bit streams: the VLC segment is consumed LSB first.  A codeword is (value, length) with bit i of
   value the i-th bit written; a stream seen through readerPeek is a non-negative integer whose
   bit 0 is the next bit; the bit-by-bit BitReader is a list of 0/1. *)
From V Require Import Common.Base Gen.HtTables_gen HT.HtVlc.

(* ---------- generateUVLCTables ---------- *)
Definition uv_dec (v : Z) : Z := znth ht_uvlc_dec (Z.land v 7) 0.
Definition uv_lp (d : Z) : Z := Z.land d 3.
Definition uv_ls (d : Z) : Z := Z.land (Z.shiftr d 2) 7.
Definition uv_pfx (d : Z) : Z := Z.shiftr d 5.

Definition uv_pack (lp ls u0suf u0 u1 : Z) : Z :=
  wrapU 16 (Z.lor (Z.lor (Z.lor (Z.lor lp (Z.shiftl ls 3)) (Z.shiftl u0suf 7)) (Z.shiftl u0 10)) (Z.shiftl u1 13)).

(* (entry, bias) of UVLCTbl0[i], UVLCBias[i] *)
Definition uvlc_gen0 (i : Z) : Z * Z :=
  let mode := Z.shiftr i 6 in
  let vlc := Z.land i 63 in
  if mode =? 0 then (0, 0)
  else if (mode =? 1) || (mode =? 2) then
    let d := uv_dec vlc in
    if mode =? 2 then (uv_pack (uv_lp d) (uv_ls d) 0 0 (uv_pfx d), 0)
    else (uv_pack (uv_lp d) (uv_ls d) (uv_ls d) (uv_pfx d) 0, 0)
  else if mode =? 3 then
    let d0 := uv_dec vlc in
    let vlc' := Z.shiftr vlc (uv_lp d0) in
    let d1 := uv_dec vlc' in
    if uv_lp d0 =? 3 then
      (uv_pack (uv_lp d0 + 1) (uv_ls d0) (uv_ls d0) (uv_pfx d0) (Z.land vlc' 1 + 1), 4)
    else
      (uv_pack (uv_lp d0 + uv_lp d1) (uv_ls d0 + uv_ls d1) (uv_ls d0) (uv_pfx d0) (uv_pfx d1), 0)
  else if mode =? 4 then
    let d0 := uv_dec vlc in
    let vlc' := Z.shiftr vlc (uv_lp d0) in
    let d1 := uv_dec vlc' in
    (uv_pack (wrapU 8 (uv_lp d0 + uv_lp d1)) (uv_ls d0 + uv_ls d1) (uv_ls d0)
             (wrapU 8 (uv_pfx d0 + 2)) (wrapU 8 (uv_pfx d1 + 2)), 10)
  else (0, 0).

Definition uvlc_gen1 (i : Z) : Z :=
  let mode := Z.shiftr i 6 in
  let vlc := Z.land i 63 in
  if mode =? 0 then 0
  else if (mode =? 1) || (mode =? 2) then
    let d := uv_dec vlc in
    if mode =? 2 then uv_pack (uv_lp d) (uv_ls d) 0 0 (uv_pfx d)
    else uv_pack (uv_lp d) (uv_ls d) (uv_ls d) (uv_pfx d) 0
  else if mode =? 3 then
    let d0 := uv_dec vlc in
    let vlc' := Z.shiftr vlc (uv_lp d0) in
    let d1 := uv_dec vlc' in
    uv_pack (wrapU 8 (uv_lp d0 + uv_lp d1)) (uv_ls d0 + uv_ls d1) (uv_ls d0) (uv_pfx d0) (uv_pfx d1)
  else 0.

Definition uvlc_tbl0 : list Z := map (fun i => fst (uvlc_gen0 i)) (zseq 320).
Definition uvlc_bias : list Z := map (fun i => snd (uvlc_gen0 i)) (zseq 320).
Definition uvlc_tbl1 : list Z := map uvlc_gen1 (zseq 256).

(* UVLCDecodeEntry accessors *)
Definition ue_lp (e : Z) : Z := Z.land e 7.
Definition ue_ls (e : Z) : Z := Z.land (Z.shiftr e 3) 15.
Definition ue_u0suf (e : Z) : Z := Z.land (Z.shiftr e 7) 7.
Definition ue_u0 (e : Z) : Z := Z.land (Z.shiftr e 10) 7.
Definition ue_u1 (e : Z) : Z := Z.land (Z.shiftr e 13) 7.

(* ---------- live decoder: decodeOJPHUVLC(initial, mode, vlc) ----------
   mode is 0x40*u_off0 + 0x80*u_off1 (+0x40 when both are set on an initial row and the MEL event
   is 1); val is the reverse VLC stream at the current position. Result (u0, u1, bits consumed).
   The table index mode + (val & 0x3F) is < 320 / < 256 for the modes the caller forms. *)
Definition ojph_uvlc_decode (initial : bool) (mode val : Z) : Z * Z * Z :=
  let idx := mode + Z.land val 63 in
  let e := znth (if initial then uvlc_tbl0 else uvlc_tbl1) idx 0 in
  let val' := Z.shiftr val (ue_lp e) in
  let ts := ue_ls e in
  let tmp := Z.land val' (Z.shiftl 1 ts - 1) in
  let sl := ue_u0suf e in
  (ue_u0 e + Z.land tmp (Z.shiftl 1 sl - 1), ue_u1 e + Z.shiftr tmp sl, ue_lp e + ts).

(* ---------- live encoder: ojphUVLC and the two pair emitters ---------- *)
(* ojphUVLC(code) = (pre, preLen, suf, sufLen, ext, extLen); Go / and % on code-33 >= 0 *)
Definition ojph_uvlc (code : Z) : Z * Z * Z * Z * Z * Z :=
  if code <=? 0 then (0, 0, 0, 0, 0, 0)
  else if code =? 1 then (1, 1, 0, 0, 0, 0)
  else if code =? 2 then (2, 2, 0, 0, 0, 0)
  else if code <=? 4 then (4, 3, code - 3, 1, 0, 0)
  else if code <=? 32 then (0, 3, code - 5, 5, 0, 0)
  else (0, 3, 28 + Z.rem (code - 33) 4, 5, Z.quot (code - 33) 4, 4).

Definition uc_pre (c : Z * Z * Z * Z * Z * Z) : Z * Z := let '(p, pl, _, _, _, _) := c in (p, pl).
Definition uc_suf (c : Z * Z * Z * Z * Z * Z) : Z * Z := let '(_, _, s, sl, _, _) := c in (s, sl).

(* the sequence of vlc.encode(cwd, len) calls *)
Definition ojph_uvlc_initial_calls (u0 u1 : Z) : list (Z * Z) :=
  if (u0 >? 2) && (u1 >? 2) then
    let c0 := ojph_uvlc (u0 - 2) in let c1 := ojph_uvlc (u1 - 2) in
    [uc_pre c0; uc_pre c1; uc_suf c0; uc_suf c1]
  else if (u0 >? 2) && (u1 >? 0) then
    let c0 := ojph_uvlc u0 in [uc_pre c0; (u1 - 1, 1); uc_suf c0]
  else
    let c0 := ojph_uvlc u0 in let c1 := ojph_uvlc u1 in
    [uc_pre c0; uc_pre c1; uc_suf c0; uc_suf c1].
Definition ojph_uvlc_noninitial_calls (u0 u1 : Z) : list (Z * Z) :=
  let c0 := ojph_uvlc u0 in let c1 := ojph_uvlc u1 in
  [uc_pre c0; uc_pre c1; uc_suf c0; uc_suf c1].

(* ojphVLCWriter.encode masks cwd to cwdLen bits and appends LSB first: concatenation *)
Fixpoint pack_calls (l : list (Z * Z)) : Z * Z :=
  match l with
  | [] => (0, 0)
  | (c, n) :: r => let '(v, m) := pack_calls r in (Z.land c (Z.shiftl 1 n - 1) + Z.shiftl v n, n + m)
  end.

(* mode the decoder forms for the pair: u_off_i = (u_i > 0) (the CxtVLC entry chosen for
   eps != 0 has u_off = 1); initial rows add 0x40 when the MEL event min(u0,u1) > 2 is 1. *)
Definition ojph_uvlc_mode (initial : bool) (u0 u1 : Z) : Z :=
  let m := (if u0 >? 0 then 64 else 0) + (if u1 >? 0 then 128 else 0) in
  if initial && (m =? 192) && (Z.min u0 u1 >? 2) then m + 64 else m.

(* ---------- spec-style coder (uvlc_encoder.go / uvlc_decoder.go) ---------- *)
(* EncodeUVLC(u) = (Prefix, Suffix, Extension, PrefixLen, SuffixLen, ExtLen), u a uint32 *)
Definition uvlc_encode (u : Z) : Z * Z * Z * Z * Z * Z :=
  if u =? 0 then (0, 0, 0, 0, 0, 0)
  else if u =? 1 then (1, 0, 0, 1, 0, 0)
  else if u =? 2 then (2, 0, 0, 2, 0, 0)
  else if (3 <=? u) && (u <=? 4) then (3, wrapU 8 (u - 3), 0, 3, 1, 0)
  else if (5 <=? u) && (u <=? 32) then (5, wrapU 8 (u - 5), 0, 3, 5, 0)
  else
    let m := u - 5 in
    if m <? 28 then (5, wrapU 8 m, 0, 3, 5, 0)
    else (5, wrapU 8 (28 + wrapU 8 (Z.rem (m - 28) 4)), wrapU 8 (Z.quot (m - 28) 4), 3, 5, 4).

(* EncodePrefixBits *)
Definition uvlc_prefix_bits (p : Z) : Z * Z :=
  if p =? 1 then (1, 1) else if p =? 2 then (2, 2) else if p =? 3 then (4, 3)
  else if p =? 5 then (0, 3) else (0, 0).

(* bits of value v, n of them, LSB first *)
Fixpoint lsb_bits (n : nat) (v : Z) : list Z :=
  match n with O => [] | S k => Z.land v 1 :: lsb_bits k (Z.shiftr v 1) end.

(* EncodeToStream: prefix, suffix, extension through WriteBits (LSB first) *)
Definition uvlc_stream (u : Z) : list Z :=
  let '(p, s, x, lp, ls, le) := uvlc_encode u in
  (if lp >? 0 then let '(pb, pl) := uvlc_prefix_bits p in lsb_bits (Z.to_nat pl) pb else []) ++
  (if ls >? 0 then lsb_bits (Z.to_nat ls) s else []) ++
  (if le >? 0 then lsb_bits (Z.to_nat le) x else []).

(* DecodeUnsignedResidual over a bit list; Err = ErrInsufficientData *)
Definition rd_bit (l : list Z) : outcome (Z * list Z) :=
  match l with [] => Err | b :: r => Ok (b, r) end.

Definition uvlc_dec_prefix (l : list Z) : outcome (Z * list Z) :=
  obind (rd_bit l) (fun '(b, l) => if b =? 1 then Ok (1, l) else
  obind (rd_bit l) (fun '(b, l) => if b =? 1 then Ok (2, l) else
  obind (rd_bit l) (fun '(b, l) => if b =? 1 then Ok (3, l) else Ok (5, l)))).

(* val = val + (bit << i) in uint8, i = 1 .. n-1 after the first bit *)
Fixpoint rd_more (n : nat) (i : Z) (val : Z) (l : list Z) : outcome (Z * list Z) :=
  match n with
  | O => Ok (val, l)
  | S k => obind (rd_bit l) (fun '(b, l) => rd_more k (i + 1) (wrapU 8 (val + wrapU 8 (Z.shiftl b i))) l)
  end.

Definition uvlc_dec_suffix (pfx : Z) (l : list Z) : outcome (Z * list Z) :=
  if pfx <? 3 then Ok (0, l)
  else obind (rd_bit l) (fun '(v, l) => if pfx =? 3 then Ok (v, l) else rd_more 4 1 v l).

Definition uvlc_dec_ext (sfx : Z) (l : list Z) : outcome (Z * list Z) :=
  if sfx <? 28 then Ok (0, l)
  else obind (rd_bit l) (fun '(v, l) => rd_more 3 1 v l).

Definition uvlc_decode_residual (l : list Z) : outcome (Z * list Z) :=
  obind (uvlc_dec_prefix l) (fun '(p, l) =>
  obind (uvlc_dec_suffix p l) (fun '(s, l) =>
  obind (uvlc_dec_ext s l) (fun '(x, l) => Ok (p + s + 4 * x, l)))).
