(* EXTRACT *)
(* HTJ2K cleanup pass: the MagSgn and VLC byte streams.  Models of
     openjph_cleanup_encoder.go  ojphMSWriter (encode, terminate), ojphVLCWriter (encode, bytes)
     vlc_reverse_decoder.go      reverseBitReader (init, readChunk, readMore, readBits)
     ht_block_decoder.go         VLCDecoder.readerPeek / readerAdvance
     magsgn.go                   MagSgnDecoder.readBits (as used by ojphMSReader.fetch)
   WRITERS.  Go moves min(avail, len) bits per loop iteration; the models move one bit at a time,
   which is the same function: bit i of the codeword goes to position usedBits of the open byte,
   usedBits++, and the byte is closed by the same test.  (ojphVLCWriter: the test is made when no
   room is left for the current limit of 7 or 8 bits; with the limit 7 an accumulator different
   from 0x7F lifts the limit to 8 instead of closing the byte.)
   READERS.  Both decoders see a deterministic bit sequence that depends on the bytes only, not on
   how the callers chunk their reads; the models compute that sequence once, as an integer:
   - VLC (backwards from the second-last byte's high nibble): V with bit 0 the next bit; a byte that
     carries 7 bits still ORs its 8th bit into the position of the following byte's first bit, as
     readChunk does; beyond the first byte of the segment the stream is all zeros (readChunk feeds
     zero bytes, readerAdvance clears the buffer);
   - MagSgn (forwards): after a 0xFF byte only 7 bits (b & 0x7F) are taken; beyond the last byte
     the reader feeds 0xFF bytes, i.e. the stream is all ones: the model keeps the data bits
     as an integer together with their count and pads with ones beyond it. *)
From V Require Import Common.Base.

(* ---------- ojphMSWriter ---------- *)
Record msw : Type := mk_msw { ms_buf : list Z; (* reversed *) ms_max : Z; ms_used : Z; ms_tmp : Z }.
Definition msw_init : msw := mk_msw [] 8 0 0.

Definition msw_bit (s : msw) (b : Z) : msw :=
  let tmp := Z.lor (ms_tmp s) (Z.shiftl b (ms_used s)) in
  let used := ms_used s + 1 in
  if used >=? ms_max s then
    let byte := wrapU 8 tmp in mk_msw (byte :: ms_buf s) (if byte =? 255 then 7 else 8) 0 0
  else mk_msw (ms_buf s) (ms_max s) used tmp.

Fixpoint msw_bits (n : nat) (s : msw) (v : Z) : msw :=
  match n with O => s | S k => msw_bits k (msw_bit s (Z.land v 1)) (Z.shiftr v 1) end.
(* encode(cwd, cwdLen): the low cwdLen bits of cwd, LSB first; nothing when cwdLen <= 0 *)
Definition msw_encode (s : msw) (cw : Z * Z) : msw := msw_bits (Z.to_nat (snd cw)) s (fst cw).

(* terminate: pad the open byte with ones, drop it if that makes 0xFF; with no open byte drop a
   trailing 0xFF *)
Definition msw_terminate (s : msw) : list Z :=
  if negb (ms_used s =? 0) then
    let t := ms_max s - ms_used s in
    let tmp := Z.lor (ms_tmp s) (Z.shiftl (Z.land 255 (Z.shiftl 1 t - 1)) (ms_used s)) in
    if wrapU 8 tmp =? 255 then rev (ms_buf s) else rev (wrapU 8 tmp :: ms_buf s)
  else if (ms_max s =? 7) && negb (match ms_buf s with [] => true | _ => false end)
       then rev (tl (ms_buf s))
       else rev (ms_buf s).

(* ---------- ojphVLCWriter ---------- *)
Record vlw : Type := mk_vlw { vw2_buf : list Z; (* reversed: head = last byte appended, last = buf[0] = 0xFF *)
                              vw2_used : Z; vw2_tmp : Z; vw2_last : bool (* lastGreaterThan8F *) }.
Definition vlw_init : vlw := mk_vlw [255] 4 15 true.

Definition vlw_bit (s : vlw) (b : Z) : vlw :=
  let tmp := Z.lor (vw2_tmp s) (Z.shiftl b (vw2_used s)) in
  let used := vw2_used s + 1 in
  let avail := 8 - (if vw2_last s then 1 else 0) - used in
  if avail =? 0 then
    if vw2_last s && negb (tmp =? 127) then mk_vlw (vw2_buf s) used tmp false
    else mk_vlw (wrapU 8 tmp :: vw2_buf s) 0 0 (tmp >? 143)
  else mk_vlw (vw2_buf s) used tmp (vw2_last s).

Fixpoint vlw_bits (n : nat) (s : vlw) (v : Z) : vlw :=
  match n with O => s | S k => vlw_bits k (vlw_bit s (Z.land v 1)) (Z.shiftr v 1) end.
Definition vlw_encode (s : vlw) (cw : Z * Z) : vlw := vlw_bits (Z.to_nat (snd cw)) s (fst cw).
(* bytes(): buf[n-1], ..., buf[1], buf[0] — exactly the reversed buffer *)
Definition vlw_bytes (s : vlw) : list Z := vw2_buf s.

(* ---------- reverse VLC stream of a cleanup segment ---------- *)
(* bytes in reading order (towards the start of the segment); u = the byte read before was > 0x8F.
   A byte contributes 8 bits, or 7 when u and its low 7 bits are all ones — and then its 8th bit is
   still ORed onto the first bit of the next byte, as readChunk does. *)
Fixpoint rev_bits (bytes : list Z) (u : bool) : Z :=
  match bytes with
  | [] => 0
  | b :: r => Z.lor b (Z.shiftl (rev_bits r (b >? 143)) (if u && (Z.land b 127 =? 127) then 7 else 8))
  end.

(* reverseBitReader.init on data (len >= 2; a shorter segment gives the all-zero stream: init fails,
   every read fails, readerPeek returns tmp = 0) *)
Definition rev_stream (data : list Z) : Z :=
  match rev data with
  | _last :: d :: before =>
    let t := Z.shiftr d 4 in
    Z.lor t (Z.shiftl (rev_bits before (Z.lor d 15 >? 143)) (if Z.land t 7 =? 7 then 3 else 4))
  | _ => 0
  end.
Definition vlc_peek (v : Z) : Z := Z.land v 4294967295.
Definition vlc_advance (v n : Z) : Z := if n <=? 0 then v else Z.shiftr v n.

(* ---------- forward MagSgn stream ---------- *)
(* (bits as an integer, their number); lastb = the byte before *)
Fixpoint ms_stream_from (data : list Z) (lastb : Z) : Z * Z :=
  match data with
  | [] => (0, 0)
  | b :: r =>
    let '(v, n) := ms_stream_from r b in
    if lastb =? 255 then (Z.lor (Z.land b 127) (Z.shiftl v 7), n + 7)
    else (Z.lor b (Z.shiftl v 8), n + 8)
  end.
(* the stream is (data bits as an integer, number of data bits); beyond them: ones for ever *)
Definition msr : Type := (Z * Z)%type.
Definition ms_stream (data : list Z) : msr := ms_stream_from data 0.
(* fetch(n) = uint32(readBits(n)), n <= 32 in every call the decoder makes *)
Definition ms_fetch (m : msr) (n : Z) : Z * msr :=
  if n <=? 0 then (0, m)
  else
    let '(v, cnt) := m in
    let v' := if n <=? cnt then v else Z.lor v (Z.shiftl (Z.ones n) cnt) in
    (wrapU 32 (Z.land v' (Z.ones n)), (Z.shiftr v n, if n <=? cnt then cnt - n else 0)).
