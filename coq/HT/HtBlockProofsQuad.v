(* HT cleanup pass: one sample — the encoder's (significance, exponent, MagSgn value) and the
   decoder's reconstruction from the MagSgn bits and the e_k / e_1 flags. *)
From V Require Import Common.Base Gen.HtTables_gen HT.HtMel HT.HtVlc HT.HtUvlc HT.HtLevels HT.HtBlockBits
  HT.HtBlockEnc HT.HtBlockDec HT.HtBitLemmas HT.HtBlockProofsMs HT.HtBlockProofsVlc HT.HtBlockProofsRead
  HT.HtProofsTables HT.HtProofsLevels.

Definition sgn_bit (v : Z) : Z := if v <? 0 then 1 else 0.
Definition samp_e (v : Z) : Z := bitlen32 (2 * Z.abs v - 1).
Definition samp_s (v : Z) : Z := 2 * (Z.abs v - 1) + sgn_bit v.

Lemma bitlen32_spec : forall x, 0 < x -> 2 ^ (bitlen32 x - 1) <= x < 2 ^ bitlen32 x /\ 1 <= bitlen32 x.
Proof.
  intros x Hx. unfold bitlen32. destruct (Z.leb_spec x 0); [lia|].
  destruct (Z.log2_spec x Hx) as [A B]. pose proof (Z.log2_nonneg x).
  replace (Z.log2 x + 1 - 1) with (Z.log2 x) by ring. rewrite <- Z.add_1_r in B. lia.
Qed.

Lemma bitlen32_le : forall x k, 0 <= k -> x < 2 ^ k -> bitlen32 x <= k.
Proof.
  intros x k Hk Hx. unfold bitlen32. destruct (Z.leb_spec x 0); [lia|].
  assert (Z.log2 x < k) by (apply Z.log2_lt_pow2; lia). lia.
Qed.

(* the packed word of a coefficient that fits Kmax *)
Lemma pack_word : forall kmax v, 1 <= kmax <= 30 -> Z.abs v < 2 ^ kmax ->
  ht_sample_pack kmax v = sgn_bit v * 2 ^ 31 + Z.abs v * 2 ^ (31 - kmax) /\
  0 <= Z.abs v * 2 ^ (31 - kmax) < 2 ^ 31.
Proof.
  intros kmax v Hk Hv.
  set (s := 31 - kmax). assert (Hs : 1 <= s <= 30) by (unfold s; lia).
  assert (Hp31 : 2 ^ 31 = 2 ^ kmax * 2 ^ s) by (unfold s; rewrite <- Z.pow_add_r by lia; f_equal; lia).
  assert (Hk30 : 2 ^ kmax <= 2 ^ 30) by (apply Z.pow_le_mono_r; lia).
  pose proof (pow2_pos s ltac:(lia)) as Hs0. change (2 ^ 30) with 1073741824 in Hk30.
  unfold ht_sample_pack. fold s. set (mag := Z.abs v) in *.
  assert (Emag : (if v <? 0 then wrapS 32 (- v) else v) = mag).
  { unfold mag. destruct (Z.ltb_spec v 0).
    - rewrite wrapS32_small by (change (2 ^ 31) with 2147483648; lia). lia.
    - lia. }
  rewrite Emag.
  assert (Hm32 : wrapU 32 mag = mag) by (unfold wrapU; apply Z.mod_small; change (2 ^ 32) with 4294967296; lia).
  rewrite Hm32, Z.shiftl_mul_pow2 by lia.
  assert (Hx : 0 <= mag * 2 ^ s < 2 ^ 31) by (rewrite Hp31; nia).
  assert (Hx32 : wrapU 32 (mag * 2 ^ s) = mag * 2 ^ s) by (unfold wrapU; apply Z.mod_small; change (2 ^ 32) with (2 * 2 ^ 31); lia).
  rewrite Hx32. split; [|exact Hx]. unfold sgn_bit.
  destruct (v <? 0).
  - change 2147483648 with (2 ^ 31). rewrite Z.lor_comm.
    replace (Z.lor (mag * 2 ^ s) (2 ^ 31)) with (Z.lor (mag * 2 ^ s) (Z.shiftl 1 31)) by reflexivity.
    rewrite lor_shiftl_add by lia. lia.
  - rewrite Z.lor_0_l. lia.
Qed.

(* prepareOJPHSample on such a word *)
Lemma sample_word_info : forall kmax v, 1 <= kmax <= 30 -> Z.abs v < 2 ^ kmax ->
  let t := ht_sample_pack kmax v in let p := 30 - (kmax - 1) in
  Z.land (Z.shiftr (wrapU 32 (t + t)) p) 4294967294 = 2 * Z.abs v /\ Z.shiftr t 31 = sgn_bit v.
Proof.
  intros kmax v Hk Hv. cbv zeta. destruct (pack_word kmax v Hk Hv) as [Ep Hx].
  rewrite Ep. set (mag := Z.abs v) in *. replace (30 - (kmax - 1)) with (31 - kmax) by ring.
  set (s := 31 - kmax) in *. assert (Hs : 1 <= s <= 30) by (unfold s; lia).
  pose proof (pow2_pos s ltac:(lia)) as Hps.
  assert (Hsg : sgn_bit v = 0 \/ sgn_bit v = 1) by (unfold sgn_bit; destruct (v <? 0); auto).
  split.
  - assert (E2 : wrapU 32 (sgn_bit v * 2 ^ 31 + mag * 2 ^ s + (sgn_bit v * 2 ^ 31 + mag * 2 ^ s)) = 2 * mag * 2 ^ s).
    { unfold wrapU. replace (sgn_bit v * 2 ^ 31 + mag * 2 ^ s + (sgn_bit v * 2 ^ 31 + mag * 2 ^ s))
        with (2 * mag * 2 ^ s + sgn_bit v * 2 ^ 32) by (change (2 ^ 32) with (2 * 2 ^ 31); ring).
      rewrite Z.mod_add by (apply Z.pow_nonzero; lia). apply Z.mod_small. change (2 ^ 32) with (2 * 2 ^ 31). lia. }
    rewrite E2, Z.shiftr_div_pow2, Z.div_mul by lia.
    change 4294967294 with (Z.shiftl (Z.ones 31) 1).
    replace (2 * mag) with (Z.shiftl mag 1) by (rewrite Z.shiftl_mul_pow2 by lia; change (2 ^ 1) with 2; ring).
    rewrite <- Z.shiftl_land. f_equal. rewrite Z.land_ones by lia. apply Z.mod_small.
    assert (2 ^ kmax <= 2 ^ 30) by (apply Z.pow_le_mono_r; lia). change (2 ^ 31) with (2 * 2 ^ 30). unfold mag. lia.
  - rewrite Z.shiftr_div_pow2 by lia. rewrite Z.add_comm. rewrite Z.div_add by lia.
    rewrite Z.div_small by lia. lia.
Qed.

Lemma lor1 : forall a, 0 <= a -> Z.lor a 1 = 2 * (a / 2) + 1.
Proof.
  intros a Ha. pose proof (Z.div_mod a 2 ltac:(lia)) as Hd. pose proof (Z.mod_pos_bound a 2 ltac:(lia)) as Hm.
  assert (Hk : 0 <= a / 2) by (apply Z.div_pos; lia).
  assert (E1 : Z.lor 1 (Z.shiftl (a / 2) 1) = 1 + a / 2 * 2 ^ 1) by (apply lor_shiftl_add; [lia|change (2 ^ 1) with 2; lia]).
  change (2 ^ 1) with 2 in E1.
  destruct (Z.eq_dec (a mod 2) 0) as [E0|E0].
  - assert (Ea : a = Z.shiftl (a / 2) 1) by (rewrite Z.shiftl_mul_pow2 by lia; change (2 ^ 1) with 2; lia).
    rewrite Ea at 1. rewrite Z.lor_comm, E1. lia.
  - assert (Ea : a = Z.lor 1 (Z.shiftl (a / 2) 1)) by (rewrite E1; lia).
    rewrite Ea at 1. rewrite Z.lor_comm, Z.lor_assoc, Z.lor_diag, E1. lia.
Qed.

Lemma samp_facts : forall v, v <> 0 ->
  let mag := Z.abs v in let e := samp_e v in let s := samp_s v in
  1 <= mag /\ 1 <= e /\ 2 ^ (e - 1) <= 2 * mag - 1 < 2 ^ e /\ 0 <= s /\ s / 2 = mag - 1 /\ s mod 2 = sgn_bit v /\
  s < 2 ^ e /\ (2 <= e -> 2 ^ (e - 1) <= s).
Proof.
  intros v Hv. cbv zeta. assert (Hm : 1 <= Z.abs v) by lia.
  destruct (bitlen32_spec (2 * Z.abs v - 1) ltac:(lia)) as [Hb He]. fold (samp_e v) in Hb, He.
  assert (Hsg : sgn_bit v = 0 \/ sgn_bit v = 1) by (unfold sgn_bit; destruct (v <? 0); auto).
  unfold samp_s. set (mag := Z.abs v) in *. set (e := samp_e v) in *.
  assert (Hs2 : (2 * (mag - 1) + sgn_bit v) / 2 = mag - 1).
  { rewrite Z.add_comm, Z.mul_comm, Z.div_add by lia. destruct Hsg as [E|E]; rewrite E; reflexivity. }
  assert (Hsm : (2 * (mag - 1) + sgn_bit v) mod 2 = sgn_bit v).
  { rewrite Z.add_comm, Z.mul_comm, Z.mod_add by lia. destruct Hsg as [E|E]; rewrite E; reflexivity. }
  repeat split; try lia.
  intro H2. assert (Hp : 2 ^ (e - 1) = 2 * 2 ^ (e - 2)) by (replace (e - 1) with (1 + (e - 2)) by ring; rewrite Z.pow_add_r by lia; reflexivity).
  pose proof (pow2_pos (e - 2) ltac:(lia)). lia.
Qed.

(* one significant sample: the MagSgn bits, the flags, and what the decoder rebuilds *)
Lemma dec_sample_sig : forall m inf uq bit p kmax v r ekb e1b,
  1 <= kmax <= 30 -> p = 31 - kmax -> v <> 0 -> Z.abs v < 2 ^ kmax ->
  Z.land inf (Z.shiftl 1 (4 + bit)) <> 0 ->
  Z.land (Z.shiftr inf (12 + bit)) 1 = ekb -> Z.land (Z.shiftr inf (8 + bit)) 1 = e1b ->
  (ekb = 0 \/ ekb = 1) -> (e1b = 0 \/ e1b = 1) ->
  1 <= uq - ekb <= 31 ->
  (ekb = 0 -> e1b = 0 /\ samp_e v <= uq) ->
  (ekb = 1 -> (e1b = 1 -> samp_e v = uq) /\ (e1b = 0 -> samp_e v < uq)) ->
  MSC m ((Z.land (samp_s v) (Z.shiftl 1 (uq - ekb) - 1), uq - ekb) :: r) ->
  exists word m', dec_sample m inf uq bit p = (word, 2 * Z.abs v - 1, m') /\
                  word_to_coef kmax word = v /\ MSC m' r.
Proof.
  intros m inf uq bit p kmax v r ekb e1b Hk Hp Hv Hvk Hsig Hek He1 Hekb He1b Hmn HA HB HM.
  destruct (samp_facts v Hv) as [Hm1 [He [Hb [Hs0 [Hs2 [Hsm [Hse Hs2e]]]]]]].
  set (mag := Z.abs v) in *. set (e := samp_e v) in *. set (s := samp_s v) in *.
  set (mn := uq - ekb) in *.
  pose proof (pow2_pos mn ltac:(lia)) as Hpm.
  destruct (MSC_step m _ mn r HM ltac:(lia)) as [m' [Hf HM']].
  rewrite land_pow2m1_mod, Z.mod_mod in Hf by (try lia; apply Z.pow_nonzero; lia).
  unfold dec_sample. destruct (Z.eqb_spec (Z.land inf (Z.shiftl 1 (4 + bit))) 0) as [?|_]; [contradiction|].
  rewrite Hek, He1. fold mn. rewrite Hf.
  assert (Hw32 : wrapU 32 (Z.shiftl 1 mn) = 2 ^ mn).
  { rewrite Z.shiftl_1_l. unfold wrapU. apply Z.mod_small. split; [lia|]. apply Z.pow_lt_mono_r; lia. }
  rewrite Hw32. replace (2 ^ mn - 1) with (Z.ones mn) by (rewrite Z.ones_equiv; lia).
  rewrite Z.land_ones, Z.mod_mod by (try lia; apply Z.pow_nonzero; lia).
  (* the reconstructed v_n *)
  assert (Hvn : Z.lor (Z.lor (s mod 2 ^ mn) (wrapU 32 (Z.shiftl e1b mn))) 1 = 2 * mag - 1).
  { assert (Hcase : (e1b = 0 /\ s < 2 ^ mn) \/ (e1b = 1 /\ 2 ^ mn <= s < 2 ^ (mn + 1))).
    { destruct Hekb as [E0|E1].
      - destruct (HA E0) as [E1z Hle]. left. split; [exact E1z|].
        assert (2 ^ e <= 2 ^ mn) by (apply Z.pow_le_mono_r; unfold mn; lia). lia.
      - destruct (HB E1) as [H1 H0]. destruct He1b as [Z0|Z1].
        + left. split; [exact Z0|]. specialize (H0 Z0).
          assert (2 ^ e <= 2 ^ mn) by (apply Z.pow_le_mono_r; unfold mn; lia). lia.
        + right. split; [exact Z1|]. specialize (H1 Z1).
          assert (Eemn : e = mn + 1) by (unfold mn; lia).
          rewrite Eemn in Hse, Hs2e. replace (mn + 1 - 1) with mn in Hs2e by ring. split; [apply Hs2e; lia|exact Hse]. }
    destruct Hcase as [[Ez Hlt]|[Eo [Hge Hlt]]].
    - rewrite Ez, Z.shiftl_0_l. change (wrapU 32 0) with 0. rewrite Z.lor_0_r.
      rewrite Z.mod_small by lia. rewrite lor1 by lia. rewrite Hs2. ring.
    - rewrite Eo, Z.shiftl_1_l. unfold wrapU at 1. rewrite (Z.mod_small (2 ^ mn)) by (split; [lia|apply Z.pow_lt_mono_r; lia]).
      assert (Esm : s mod 2 ^ mn = s - 2 ^ mn).
      { symmetry. apply Z.mod_unique with (q := 1); [|lia]. rewrite Z.pow_add_r in Hlt by lia. change (2 ^ 1) with 2 in Hlt. lia. }
      rewrite Esm. replace (2 ^ mn) with (Z.shiftl 1 mn) at 2 by (apply Z.shiftl_1_l).
      rewrite lor_shiftl_add by (rewrite Z.pow_add_r in Hlt by lia; change (2 ^ 1) with 2 in Hlt; lia).
      replace (s - 2 ^ mn + 1 * 2 ^ mn) with s by ring.
      rewrite lor1 by lia. rewrite Hs2. ring. }
  rewrite Hvn.
  exists (Z.lor (wrapU 32 (Z.shiftl (s mod 2 ^ mn) 31)) (wrapU 32 (Z.shiftl (wrapU 32 (2 * mag - 1 + 2)) (p - 1)))), m'.
  split; [reflexivity|]. split; [|exact HM'].
  (* the word *)
  assert (Hsg : sgn_bit v = 0 \/ sgn_bit v = 1) by (unfold sgn_bit; destruct (v <? 0); auto).
  assert (Elow : (s mod 2 ^ mn) mod 2 = sgn_bit v).
  { replace mn with (1 + (mn - 1)) by ring. rewrite Z.pow_add_r by lia. change (2 ^ 1) with 2.
    rewrite Z.rem_mul_r by (try lia; apply pow2_pos; lia).
    rewrite Z.mul_comm, Z.mod_add by lia. rewrite Z.mod_mod by lia. exact Hsm. }
  assert (ES : wrapU 32 (Z.shiftl (s mod 2 ^ mn) 31) = sgn_bit v * 2 ^ 31).
  { rewrite Z.shiftl_mul_pow2 by lia. unfold wrapU. change (2 ^ 32) with (2 * 2 ^ 31).
    rewrite Z.mul_mod_distr_r by lia. rewrite Elow. reflexivity. }
  assert (Hk30 : 2 ^ kmax <= 2 ^ 30) by (apply Z.pow_le_mono_r; lia).
  assert (HpK : 2 ^ kmax * 2 ^ (p - 1) = 2 ^ 30) by (rewrite <- Z.pow_add_r by lia; f_equal; lia).
  pose proof (pow2_pos (p - 1) ltac:(lia)) as Hpp. pose proof (pow2_pos kmax ltac:(lia)) as Hpk.
  assert (EW : wrapU 32 (Z.shiftl (wrapU 32 (2 * mag - 1 + 2)) (p - 1)) = (2 * mag + 1) * 2 ^ (p - 1) /\
               0 <= (2 * mag + 1) * 2 ^ (p - 1) < 2 ^ 31).
  { assert (Hb31 : 0 <= (2 * mag + 1) * 2 ^ (p - 1) < 2 ^ 31).
    { change (2 ^ 31) with (2 * 2 ^ 30). rewrite <- HpK. unfold mag in *. nia. }
    split; [|exact Hb31].
    assert (E1 : wrapU 32 (2 * mag - 1 + 2) = 2 * mag + 1).
    { unfold wrapU. rewrite Z.mod_small; [ring|]. change (2 ^ 32) with (4 * 2 ^ 30). change (2 ^ 30) with 1073741824 in Hk30. unfold mag in *. lia. }
    rewrite E1, Z.shiftl_mul_pow2 by lia. unfold wrapU. apply Z.mod_small. change (2 ^ 32) with (2 * 2 ^ 31). lia. }
  destruct EW as [EW HWb]. rewrite ES, EW. set (W := (2 * mag + 1) * 2 ^ (p - 1)) in *.
  unfold word_to_coef. replace (31 - kmax) with p by lia.
  destruct (Z.ltb_spec p 0); [lia|].
  change 2147483647 with (Z.ones 31). change 2147483648 with (2 ^ 31).
  rewrite !Z.land_lor_distr_l.
  rewrite (Z.land_ones W) by lia. rewrite (Z.mod_small W) by lia.
  rewrite (land_pow2_small W 31) by lia. rewrite Z.lor_0_r.
  assert (EWm : Z.shiftr W p = mag).
  { rewrite Z.shiftr_div_pow2 by lia. unfold W. replace p with (1 + (p - 1)) at 2 by ring.
    rewrite Z.pow_add_r by lia. change (2 ^ 1) with 2.
    rewrite Z.div_mul_cancel_r by lia. replace (2 * mag + 1) with (1 + mag * 2) by ring.
    rewrite Z.div_add by lia. reflexivity. }
  destruct Hsg as [E0|E1]; rewrite ?E0, ?E1.
  - rewrite Z.mul_0_l. rewrite !Z.land_0_l, Z.lor_0_l. cbn [negb Z.eqb]. rewrite EWm.
    unfold sgn_bit in E0. destruct (Z.ltb_spec v 0); [discriminate|]. unfold mag. lia.
  - rewrite Z.mul_1_l. rewrite (Z.land_ones (2 ^ 31)) by lia. rewrite Z.mod_same by lia. rewrite Z.lor_0_l.
    rewrite Z.land_diag. change (2 ^ 31 =? 0) with false. cbn [negb]. rewrite EWm.
    unfold sgn_bit in E1. destruct (Z.ltb_spec v 0); [|discriminate]. unfold mag. lia.
Qed.

(* ---------- from coefficient values to quads ---------- *)
Definition v_sig (v : Z) : bool := negb (v =? 0).
Definition v_e (v : Z) : Z := if v =? 0 then 0 else samp_e v.
Definition v_s (v : Z) : Z := if v =? 0 then 0 else samp_s v.
Definition vquad (v0 v1 v2 v3 : Z) : quad :=
  mk_quad ((if v_sig v0 then 1 else 0) + (if v_sig v1 then 2 else 0) + (if v_sig v2 then 4 else 0) + (if v_sig v3 then 8 else 0))
          (Z.max (Z.max (Z.max (Z.max 0 (v_e v0)) (v_e v1)) (v_e v2)) (v_e v3))
          [v_e v0; v_e v1; v_e v2; v_e v3] [v_s v0; v_s v1; v_s v2; v_s v3].

(* the coefficient at (x, y) of a w x h block, 0 outside *)
Definition dv (data : list Z) (w h x y : Z) : Z :=
  if (x >=? w) || (y >=? h) then 0 else znth data (y * w + x) 0.

Lemma znth_map0 : forall (f : Z -> Z) l i, f 0 = 0 -> znth (map f l) i 0 = f (znth l i 0).
Proof.
  intros f l i Hf. unfold znth. destruct (i <? 0); [symmetry; exact Hf|].
  rewrite <- Hf at 1. apply map_nth.
Qed.

Lemma pack_zero : forall kmax, ht_sample_pack kmax 0 = 0.
Proof. intro kmax. unfold ht_sample_pack. cbn. rewrite Z.shiftl_0_l. reflexivity. Qed.

Lemma znth_bound : forall (P : Z -> Prop) l i, P 0 -> Forall P l -> P (znth l i 0).
Proof.
  intros P l i H0 Hl. unfold znth. destruct (i <? 0); [exact H0|].
  destruct (nth_in_or_default (Z.to_nat i) l 0) as [Hin|Hd]; [|rewrite Hd; exact H0].
  exact (proj1 (Forall_forall _ _) Hl _ Hin).
Qed.

Definition good (kmax : Z) (data : list Z) : Prop := Forall (fun v => Z.abs v < 2 ^ kmax) data.

Lemma dv_bound : forall kmax data w h x y, 1 <= kmax -> good kmax data -> Z.abs (dv data w h x y) < 2 ^ kmax.
Proof.
  intros kmax data w h x y Hk Hg. pose proof (pow2_pos kmax ltac:(lia)). unfold dv.
  destruct ((x >=? w) || (y >=? h)); [simpl; lia|].
  apply (znth_bound (fun v => Z.abs v < 2 ^ kmax)); [simpl; lia|exact Hg].
Qed.

Lemma sample_info_spec : forall kmax data w h x y, 1 <= kmax <= 30 -> good kmax data ->
  sample_info (map (ht_sample_pack kmax) data) (30 - (kmax - 1)) w h x y =
  (v_sig (dv data w h x y), v_e (dv data w h x y), v_s (dv data w h x y)).
Proof.
  intros kmax data w h x y Hk Hg. unfold sample_info, dv.
  destruct ((x >=? w) || (y >=? h)) eqn:Eo; [reflexivity|].
  rewrite (znth_map0 (ht_sample_pack kmax)) by apply pack_zero.
  set (v := znth data (y * w + x) 0).
  assert (Hv : Z.abs v < 2 ^ kmax).
  { unfold v. pose proof (pow2_pos kmax ltac:(lia)). apply (znth_bound (fun v => Z.abs v < 2 ^ kmax)); [simpl; lia|exact Hg]. }
  destruct (sample_word_info kmax v Hk Hv) as [E1 E2]. cbv zeta in E1, E2. rewrite E1, E2.
  unfold v_sig, v_e, v_s. destruct (Z.eqb_spec v 0) as [Ez|En].
  - rewrite Ez. reflexivity.
  - destruct (Z.eqb_spec (2 * Z.abs v) 0) as [?|_]; [lia|]. cbn [negb].
    f_equal. unfold samp_s. unfold wrapU. rewrite Z.mod_small; [ring|].
    assert (2 ^ kmax <= 2 ^ 30) by (apply Z.pow_le_mono_r; lia). change (2 ^ 30) with 1073741824 in *. change (2 ^ 32) with 4294967296.
    unfold sgn_bit. destruct (v <? 0); lia.
Qed.

Lemma quad_info_spec : forall kmax data w h x y, 1 <= kmax <= 30 -> good kmax data ->
  quad_info (map (ht_sample_pack kmax) data) (30 - (kmax - 1)) w h x y =
  vquad (dv data w h x y) (dv data w h x (y + 1)) (dv data w h (x + 1) y) (dv data w h (x + 1) (y + 1)).
Proof.
  intros kmax data w h x y Hk Hg. unfold quad_info.
  rewrite !(sample_info_spec kmax data w h) by assumption. reflexivity.
Qed.
