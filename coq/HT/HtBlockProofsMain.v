(* HT cleanup pass: the round trip of a whole code-block. *)
From V Require Import Common.Base Gen.HtTables_gen HT.HtMel HT.HtVlc HT.HtUvlc HT.HtLevels HT.HtBlockBits
  HT.HtBlockEnc HT.HtBlockDec HT.HtBitLemmas HT.HtBlockProofsMs HT.HtBlockProofsVlc HT.HtBlockProofsRead
  HT.HtProofsTables HT.HtProofsLevels HT.HtProofsMel HT.HtProofsMelOjph HT.HtBlockProofsQuad HT.HtBlockProofsCodes
  HT.HtBlockProofsP1 HT.HtBlockProofsP2.

(* ---------- the quads of a block, as values ---------- *)
Definition vq_at (data : list Z) (w h r qx : Z) : vq :=
  (dv data w h (2 * qx) (2 * r), dv data w h (2 * qx) (2 * r + 1),
   dv data w h (2 * qx + 1) (2 * r), dv data w h (2 * qx + 1) (2 * r + 1)).
Definition vrow (data : list Z) (w h r : Z) : list vq :=
  map (vq_at data w h r) (zseq (Z.to_nat (Z.quot (w + 1) 2))).

Lemma quad_row_vrow : forall kmax data w h r, 1 <= kmax <= 30 -> good kmax data ->
  quad_row (map (ht_sample_pack kmax) data) (30 - (kmax - 1)) w h r = map q_of (vrow data w h r).
Proof.
  intros kmax data w h r Hk Hg. unfold quad_row, vrow. rewrite map_map. apply map_ext. intro qx.
  rewrite (quad_info_spec kmax data w h) by assumption. unfold vq_at, q_of. reflexivity.
Qed.

Lemma vrow_ok : forall kmax data w h r, 1 <= kmax -> good kmax data -> Forall (vq_ok kmax) (vrow data w h r).
Proof.
  intros kmax data w h r Hk Hg. unfold vrow. apply Forall_forall. intros a Ha.
  apply in_map_iff in Ha. destruct Ha as [qx [<- _]]. unfold vq_at, vq_ok, vs_ok.
  repeat constructor; apply dv_bound; assumption.
Qed.

Lemma vrow_length : forall data w h r, 1 <= w -> length (vrow data w h r) = Z.to_nat (Z.quot (w + 1) 2).
Proof. intros. unfold vrow, zseq. rewrite !map_length, seq_length. reflexivity. Qed.

Lemma nq_geom : forall w, 1 <= w -> geom w 0 (Z.to_nat (Z.quot (w + 1) 2)).
Proof.
  intros w Hw. rewrite Z.quot_div_nonneg by lia.
  assert (H1 : 1 <= (w + 1) / 2) by (apply Z.div_le_lower_bound; lia).
  destruct (Z.to_nat ((w + 1) / 2)) as [|n] eqn:E; [lia|]. cbn [geom]. rewrite <- E, Z2Nat.id by lia.
  pose proof (Z.div_mod (w + 1) 2 ltac:(lia)). pose proof (Z.mod_pos_bound (w + 1) 2 ltac:(lia)). lia.
Qed.

Lemma npairs_eq : forall w, 1 <= w -> Z.to_nat (Z.quot (w + 3) 4) = Nat.div2 (S (Z.to_nat (Z.quot (w + 1) 2))).
Proof.
  intros w Hw. rewrite !Z.quot_div_nonneg by lia.
  assert (E : (w + 3) / 4 = ((w + 1) / 2 + 1) / 2) by (Z.div_mod_to_equations; lia).
  rewrite E. set (q := (w + 1) / 2). assert (Hq : 0 <= q) by (unfold q; apply Z.div_pos; lia).
  assert (Hd : forall n, Z.of_nat (Nat.div2 (S n)) = (Z.of_nat n + 1) / 2).
  { intro n. rewrite Nat.div2_div, Nat2Z.inj_div. f_equal. lia. }
  apply Nat2Z.inj. rewrite Hd, !Z2Nat.id; [reflexivity|lia|]. apply Z.div_pos; lia.
Qed.

(* ---------- the VLC calls are well-formed (non-negative lengths) ---------- *)
Lemma tuple_cw_ok : forall first cq rho eps, 0 <= snd (tuple_cw (ojph_encode_tuple first cq rho eps)).
Proof.
  intros. unfold tuple_cw. cbn [snd].
  destruct (tuple_bit _ 0 (tuple_range first cq rho eps) ltac:(lia)) as [_ [_ [H _]]]. lia.
Qed.

Lemma code_u_range : forall kmax (first : bool) c, 1 <= kmax <= 30 -> code_ok kmax c -> 0 <= cd_u c <= 34.
Proof. intros kmax first c Hk Hc. destruct (code_facts kmax first c Hk Hc) as [_ [H _]]. lia. Qed.

Lemma enc_row0_vlc_ok : forall kmax vqs cq, 1 <= kmax <= 30 -> Forall (vq_ok kmax) vqs -> 0 <= cq < 8 ->
  calls_ok (st_vlc (enc_row0 (map q_of vqs) cq)).
Proof.
  intros kmax vqs. remember (length vqs) as n eqn:En. revert vqs En.
  induction n as [n IH] using lt_wf_ind. intros vqs En cq Hk Hvq Hcq.
  destruct vqs as [|a0 [|a1 rest]]; [constructor| |].
  - inversion Hvq as [|? ? Hv0 _]; subst.
    assert (Hc0 : code_ok kmax (mk_code a0 cq 1)) by (unfold code_ok; cbn [cd_vq cd_cq cd_k]; repeat split; try assumption; lia).
    pose proof (code_u_range kmax true _ Hk Hc0) as Hu.
    cbn [map enc_row0 st_vlc]. constructor; [apply tuple_cw_ok|].
    apply (uvlc_calls_ok true (cd_u (mk_code a0 cq 1)) 0); lia.
  - inversion Hvq as [|? ? Hv0 Hvq1]; subst. inversion Hvq1 as [|? ? Hv1 Hvq2]; subst.
    pose proof (q_of_rho_range a0) as Hr0. pose proof (q_of_rho_range a1) as Hr1.
    pose proof (ctx_next0_range _ Hr0) as Hn0. pose proof (ctx_next0_range _ Hr1) as Hn1.
    assert (Hc0 : code_ok kmax (mk_code a0 cq 1)) by (unfold code_ok; cbn [cd_vq cd_cq cd_k]; repeat split; try assumption; lia).
    assert (Hc1 : code_ok kmax (mk_code a1 (ctx_next0 (q_rho (q_of a0))) 1)) by (unfold code_ok; cbn [cd_vq cd_cq cd_k]; repeat split; try assumption; lia).
    pose proof (code_u_range kmax true _ Hk Hc0) as Hu0. pose proof (code_u_range kmax true _ Hk Hc1) as Hu1.
    cbn [map enc_row0 st_app st_vlc]. rewrite <- !app_comm_cons.
    constructor; [apply tuple_cw_ok|]. constructor; [apply tuple_cw_ok|].
    apply Forall_app. split.
    + apply (uvlc_calls_ok true (cd_u (mk_code a0 cq 1)) (cd_u (mk_code a1 (ctx_next0 (q_rho (q_of a0))) 1))); lia.
    + apply (IH (length rest)); [try subst n; cbn [length] in *; lia|reflexivity|exact Hk|exact Hvq2|exact Hn1].
Qed.

Lemma ctx_above_left_range : forall pq i left, 0 <= left < 16 ->
  (forall j, 0 <= q_rho (pq_get pq j) < 16) -> 0 <= Z.lor (ctx_above pq i) (ctx_left left) < 8.
Proof.
  intros pq i left Hl Hr.
  pose proof (Hr (i - 1)) as R1. pose proof (Hr i) as R2. pose proof (Hr (i + 1)) as R3.
  assert (Ee : Z.lor (ctx_above pq i) (ctx_left left) =
               ectx (q_rho (pq_get pq (i - 1))) (q_rho (pq_get pq i)) (q_rho (pq_get pq (i + 1))) left).
  { unfold ectx, ctx_above, cx_val. replace (i + 1 - 1) with i by ring. reflexivity. }
  rewrite Ee.
  destruct (rho16 _ R1) as [A1 B1]. destruct (rho16 _ R2) as [A2 B2]. destruct (rho16 _ R3) as [A3 B3]. destruct (rho16 _ Hl) as [A4 B4].
  destruct (ctx_eq _ _ _ _ A4 A1 A2 A3) as [_ C]. rewrite B1, B2, B3, B4 in C. exact C.
Qed.

Lemma pq_rho_range : forall pvqs j, 0 <= q_rho (pq_get (map q_of pvqs) j) < 16.
Proof.
  intros pvqs j. destruct (pq_get_map pvqs j) as [E|[a [_ E]]]; rewrite E; [cbn; lia|apply q_of_rho_range].
Qed.

Lemma enc_rowN_vlc_ok : forall kmax pvqs vqs i left, 1 <= kmax <= 30 -> Forall (vq_ok kmax) pvqs -> Forall (vq_ok kmax) vqs ->
  0 <= left < 16 -> calls_ok (st_vlc (enc_rowN (map q_of pvqs) (map q_of vqs) i left)).
Proof.
  intros kmax pvqs vqs. remember (length vqs) as n eqn:En. revert vqs En.
  induction n as [n IH] using lt_wf_ind. intros vqs En i left Hk Hpv Hvq Hleft.
  set (pq := map q_of pvqs) in *.
  assert (Hkap : forall j rho, 1 <= kappa_of pq j rho <= 31) by (intros; apply (kappa_range kmax); assumption).
  assert (Hrr : forall j, 0 <= q_rho (pq_get pq j) < 16) by (intro; apply pq_rho_range).
  destruct vqs as [|a0 [|a1 rest]]; [constructor| |].
  - inversion Hvq as [|? ? Hv0 _]; subst.
    set (c0 := mk_code a0 (Z.lor (ctx_above pq i) (ctx_left left)) (kappa_of pq i (q_rho (q_of a0)))).
    assert (Hc0 : code_ok kmax c0) by (unfold code_ok, c0; cbn [cd_vq cd_cq cd_k]; split; [exact Hv0|split; [apply ctx_above_left_range; assumption|apply Hkap]]).
    pose proof (code_u_range kmax false _ Hk Hc0) as Hu.
    cbn [map enc_rowN st_vlc]. constructor; [apply tuple_cw_ok|].
    apply (uvlc_calls_ok false (cd_u c0) 0); lia.
  - inversion Hvq as [|? ? Hv0 Hvq1]; subst. inversion Hvq1 as [|? ? Hv1 Hvq2]; subst.
    pose proof (q_of_rho_range a0) as Hr0. pose proof (q_of_rho_range a1) as Hr1.
    set (c0 := mk_code a0 (Z.lor (ctx_above pq i) (ctx_left left)) (kappa_of pq i (q_rho (q_of a0)))).
    set (c1 := mk_code a1 (Z.lor (ctx_above pq (i + 1)) (ctx_left (q_rho (q_of a0)))) (kappa_of pq (i + 1) (q_rho (q_of a1)))).
    assert (Hc0 : code_ok kmax c0) by (unfold code_ok, c0; cbn [cd_vq cd_cq cd_k]; split; [exact Hv0|split; [apply ctx_above_left_range; assumption|apply Hkap]]).
    assert (Hc1 : code_ok kmax c1) by (unfold code_ok, c1; cbn [cd_vq cd_cq cd_k]; split; [exact Hv1|split; [apply ctx_above_left_range; assumption|apply Hkap]]).
    pose proof (code_u_range kmax false _ Hk Hc0) as Hu0. pose proof (code_u_range kmax false _ Hk Hc1) as Hu1.
    cbn [map enc_rowN st_app st_vlc]. rewrite <- !app_comm_cons.
    constructor; [apply tuple_cw_ok|]. constructor; [apply tuple_cw_ok|].
    apply Forall_app. split.
    + apply (uvlc_calls_ok false (cd_u c0) (cd_u c1)); lia.
    + apply (IH (length rest)); [try subst n; cbn [length] in *; lia|reflexivity|exact Hk|exact Hpv|exact Hvq2|exact Hr1].
Qed.

Lemma enc_rows_vlc_ok : forall kmax vrows pvqs, 1 <= kmax <= 30 -> Forall (vq_ok kmax) pvqs -> Forall (Forall (vq_ok kmax)) vrows ->
  calls_ok (st_vlc (enc_rows (map (map q_of) vrows) (map q_of pvqs))).
Proof.
  intros kmax vrows. induction vrows as [|vr vrows IH]; intros pvqs Hk Hpv Hrows; [constructor|].
  inversion Hrows as [|? ? Hvr Hrows']; subst. cbn [map enc_rows st_app st_vlc].
  apply Forall_app. split; [apply (enc_rowN_vlc_ok kmax); try assumption; lia|apply IH; assumption].
Qed.

(* ---------- segment assembly, Scup, and the three streams of the assembled block ---------- *)
Lemma split_last2 : forall (l : list Z), (2 <= length l)%nat -> exists pre a b, l = pre ++ [a; b].
Proof.
  intros l H. destruct (rev l) as [|b [|a r]] eqn:E.
  - apply (f_equal (@length Z)) in E. rewrite rev_length in E. cbn in E. lia.
  - apply (f_equal (@length Z)) in E. rewrite rev_length in E. cbn in E. lia.
  - exists (rev r), a, b. rewrite <- (rev_involutive l), E. cbn [rev]. rewrite <- app_assoc. reflexivity.
Qed.

Lemma scup_write_last2 : forall pre a b s,
  scup_write (pre ++ [a; b]) s = pre ++ [Z.lor (Z.land a 240) (wrapU 8 (Z.land s 15)); wrapU 8 (Z.shiftr s 4)].
Proof.
  intros. unfold scup_write. rewrite rev_app_distr. cbn [rev app scup_write_rev].
  rewrite rev_involutive, <- app_assoc. reflexivity.
Qed.

(* the streams of an assembled block, for any three call sequences *)
Lemma block_streams : forall (S : streams),
  calls_ok (st_vlc S) ->
  let mel := fold_left melw_encode (st_mel S) melw_init in
  let vs := fold_left vlw_encode (st_vlc S) vlw_init in
  let msb := msw_terminate (fold_left msw_encode (st_ms S) msw_init) in
  let tr := ojph_mel_terminate mel (vw2_tmp vs) (vw2_used vs) (1 <? zlen (vw2_buf vs)) in
  let meld := fst tr in
  let vlcd := match snd tr with Some b => b :: vlw_bytes vs | None => vlw_bytes vs end in
  let scup := zlen meld + zlen vlcd in
  let block := scup_write (msb ++ meld ++ vlcd) scup in
  scup <= 4079 ->
  2 <= scup /\
  exists cld, scup_parse block = Ok (msb, cld) /\ 0 < zlen block /\
    MInv (ojph_mel_start cld) (st_mel S) /\ VInv (rev_stream cld) (st_vlc S) /\
    MSC (ms_stream msb) (st_ms S).
Proof.
  intros S Hcok mel vs msb tr meld vlcd scup block Hsc.
  destruct (vlw_final_facts (st_vlc S)) as [Hvt [Hvu Hvbuf]]. fold vs in Hvt, Hvu, Hvbuf.
  assert (Hmelb : Forall is_byte_p meld).
  { unfold meld, tr, mel. exact (proj1 (ojph_writer_bits (st_mel S) (vw2_tmp vs) (vw2_used vs) (1 <? zlen (vw2_buf vs)) Hvt)). }
  assert (Hvlcdb : Forall is_byte_p vlcd).
  { unfold vlcd, vlw_bytes. destruct (snd tr) as [b|] eqn:Es; [|exact Hvbuf].
    constructor; [|exact Hvbuf].
    destruct (terminate_vlc_cases mel (vw2_tmp vs) (vw2_used vs) (1 <? zlen (vw2_buf vs)) ltac:(lia) Hvu) as [[_ Hn]|[[Hn _]|Hs]].
    - fold tr in Hn. congruence.
    - fold tr in Hn. congruence.
    - fold tr in Hs. rewrite Es in Hs. inversion Hs. unfold is_byte_p, wrapU. change (2 ^ 8) with 256. apply Z.mod_pos_bound. lia. }
  destruct (split_last2 vlcd) as [pre2 [a [b Evl]]].
  { exact (proj1 (vlc_stream_roundtrip (st_vlc S) mel [] 0 0 Hmelb ltac:(lia))). }
  assert (Hl2 : 2 <= zlen vlcd) by (unfold zlen; rewrite Evl, app_length; cbn [length]; lia).
  assert (Hscup2 : 2 <= scup) by (unfold scup, zlen in *; lia).
  split; [exact Hscup2|].
  assert (Ha : is_byte_p a).
  { rewrite Evl in Hvlcdb. apply Forall_app in Hvlcdb. destruct Hvlcdb as [_ Hab]. inversion Hab; assumption. }
  set (nib := wrapU 8 (Z.land scup 15)).
  set (a' := Z.lor (Z.land a 240) nib). set (b' := wrapU 8 (Z.shiftr scup 4)).
  assert (Eblock : block = (msb ++ meld ++ pre2) ++ [a'; b']).
  { unfold block. rewrite Evl. replace (msb ++ meld ++ pre2 ++ [a; b]) with ((msb ++ meld ++ pre2) ++ [a; b]) by (rewrite <- !app_assoc; reflexivity).
    apply scup_write_last2. }
  pose proof (scup_arith scup a ltac:(lia) Ha) as Har. unfold scup_arith_ok in Har. fold nib a' b' in Har.
  repeat (apply andb_prop in Har; destruct Har as [Har ?]).
  unfold is_byte in *. repeat match goal with H : (_ && _) = true |- _ => apply andb_prop in H; destruct H end. b2p.
  set (cld := meld ++ pre2 ++ [a'; b']).
  exists cld.
  assert (Elen : zlen block = zlen msb + scup).
  { rewrite Eblock. unfold scup, zlen. rewrite Evl, !app_length. cbn [length]. lia. }
  destruct (ms_stream_roundtrip (st_ms S)) as [Hmsb HMS]. fold msb in Hmsb, HMS.
  assert (Hmsn : 0 <= zlen msb) by (unfold zlen; lia).
  split.
  { (* parse *)
    unfold scup_parse. rewrite Elen. destruct (Z.ltb_spec (zlen msb + scup) 2); [lia|].
    assert (E1 : znth block (zlen msb + scup - 1) 0 = b').
    { rewrite Eblock, znth_app_r by (unfold zlen in *; rewrite !app_length; unfold scup, zlen; rewrite Evl, app_length; cbn [length]; lia).
      replace (zlen msb + scup - 1 - zlen (msb ++ meld ++ pre2)) with 1; [reflexivity|].
      unfold scup, zlen. rewrite Evl, !app_length. cbn [length]. lia. }
    assert (E2 : znth block (zlen msb + scup - 2) 0 = a').
    { rewrite Eblock, znth_app_r by (unfold zlen in *; rewrite !app_length; unfold scup, zlen; rewrite Evl, app_length; cbn [length]; lia).
      replace (zlen msb + scup - 2 - zlen (msb ++ meld ++ pre2)) with 0; [reflexivity|].
      unfold scup, zlen. rewrite Evl, !app_length. cbn [length]. lia. }
    rewrite E1, E2.
    match goal with H : Z.lor (Z.shiftl b' 4) (Z.land a' 15) = scup |- _ => rewrite H end.
    destruct (Z.ltb_spec scup 2); [lia|]. destruct (Z.gtb_spec scup (zlen msb + scup)); [lia|].
    destruct (Z.gtb_spec scup 4079); [lia|]. cbn [orb].
    replace (zlen msb + scup - scup) with (zlen msb) by ring.
    rewrite Eblock. rewrite <- !app_assoc. unfold zlen. rewrite Nat2Z.id.
    rewrite firstn_app, firstn_all, Nat.sub_diag. cbn [firstn]. rewrite app_nil_r.
    rewrite skipn_app, skipn_all, Nat.sub_diag. cbn [skipn app]. reflexivity. }
  split; [lia|].
  split.
  { (* MEL *)
    unfold MInv. pose proof (ojph_mel_roundtrip (st_mel S) (vw2_tmp vs) (vw2_used vs) (1 <? zlen (vw2_buf vs)) (pre2 ++ [a'; b']) Hvt) as Hm.
    unfold ojph_mel_decode_bytes in Hm. fold mel tr meld in Hm. apply Hm.
    - rewrite Evl in Hvlcdb. apply Forall_app in Hvlcdb. destruct Hvlcdb as [Hp2 _].
      apply Forall_app. split; [exact Hp2|]. constructor; [lia|constructor; [lia|constructor]].
    - rewrite app_length. cbn [length]. lia. }
  split.
  { (* VLC *)
    destruct (vlc_stream_roundtrip (st_vlc S) mel cld b' nib Hmelb ltac:(unfold nib, wrapU; change (2 ^ 8) with 256; change 15 with (Z.ones 4); rewrite Z.land_ones by lia; pose proof (Z.mod_pos_bound scup (2 ^ 4) ltac:(lia)); change (2 ^ 4) with 16 in *; rewrite Z.mod_small by lia; lia))
      as [_ Hv].
    fold vs tr meld vlcd in Hv.
    destruct Hv as [tail [Ht Hvv]].
    - intros lastb d before E. rewrite Evl in E. rewrite !rev_app_distr in E. cbn [rev app] in E.
      inversion E; subst. unfold cld. rewrite !rev_app_distr. cbn [rev app]. reflexivity.
    - exists tail. split; [exact Ht|]. rewrite Hvv. apply vcat_of_bits. exact Hcok. }
  unfold MSC. exact HMS.
Qed.

(* ---------- from quad rows back to the sample array ---------- *)
Definition xs_from (x0 : Z) (n : nat) : list Z := map (fun i => x0 + Z.of_nat i) (seq 0 n).
Lemma xs_from_S : forall x0 n, xs_from x0 (S n) = x0 :: xs_from (x0 + 1) n.
Proof.
  intros x0 n. unfold xs_from. cbn [seq map]. f_equal; [lia|].
  rewrite <- seq_shift, map_map. apply map_ext. intro i. lia.
Qed.
Lemma zseq_xs : forall n, zseq n = xs_from 0 n.
Proof. intro n. unfold zseq, xs_from. apply map_ext. intro; lia. Qed.

Definition rowvals (data : list Z) (w h y : Z) : list Z := map (fun x => dv data w h x y) (xs_from 0 (Z.to_nat w)).

Lemma tops_bots_vrow : forall data w h r n k, geom w (2 * k) n ->
  tops_exp (map (vq_at data w h r) (xs_from k n)) w (2 * k) =
    map (fun x => dv data w h x (2 * r)) (xs_from (2 * k) (Z.to_nat (w - 2 * k))) /\
  bots_exp (map (vq_at data w h r) (xs_from k n)) w (2 * k) =
    map (fun x => dv data w h x (2 * r + 1)) (xs_from (2 * k) (Z.to_nat (w - 2 * k))).
Proof.
  intros data w h r n. induction n as [|n IH]; intros k Hgeo.
  - cbn [geom] in Hgeo. replace (Z.to_nat (w - 2 * k)) with 0%nat by lia. split; reflexivity.
  - rewrite xs_from_S. cbn [map tops_exp bots_exp]. unfold vq_at at 1 3. cbn [geom] in Hgeo. rewrite Nat2Z.inj_succ in Hgeo.
    destruct (Z.geb_spec (2 * k + 1) w) as [Hhalf|Hfull].
    + assert (Ew : Z.to_nat (w - 2 * k) = 1%nat) by lia. rewrite Ew. unfold xs_from. cbn [seq map].
      replace (2 * k + Z.of_nat 0) with (2 * k) by lia. split; reflexivity.
    + assert (Ew : Z.to_nat (w - 2 * k) = S (S (Z.to_nat (w - 2 * (k + 1))))) by lia. rewrite Ew, !xs_from_S. cbn [map].
      assert (Hgeo' : geom w (2 * (k + 1)) n) by (destruct n; cbn [geom]; rewrite ?Nat2Z.inj_succ; lia).
      destruct (IH (k + 1) Hgeo') as [A B].
      replace (2 * k + 2) with (2 * (k + 1)) by ring. replace (2 * k + 1 + 1) with (2 * (k + 1)) by ring.
      rewrite A, B. split; reflexivity.
Qed.

Lemma assemble_map : forall (f : Z -> Z) l y h,
  map f (assemble l y h) = assemble (map (fun tb => (map f (fst tb), map f (snd tb))) l) y h.
Proof.
  intros f l. induction l as [|[t b] l IH]; intros y h; [reflexivity|].
  cbn [assemble map fst snd]. rewrite !map_app, IH. destruct (y + 1 <? h); reflexivity.
Qed.

Lemma assemble_rows : forall data w h n k, geom h (2 * k) n ->
  assemble (map (fun r => (rowvals data w h (2 * r), rowvals data w h (2 * r + 1))) (xs_from k n)) (2 * k) h =
  flat_map (rowvals data w h) (xs_from (2 * k) (Z.to_nat (h - 2 * k))).
Proof.
  intros data w h n. induction n as [|n IH]; intros k Hgeo.
  - cbn [geom] in Hgeo. replace (Z.to_nat (h - 2 * k)) with 0%nat by lia. reflexivity.
  - rewrite xs_from_S. cbn [map assemble]. cbn [geom] in Hgeo. rewrite Nat2Z.inj_succ in Hgeo.
    destruct (Z.ltb_spec (2 * k + 1) h) as [Hfull|Hhalf].
    + assert (Ew : Z.to_nat (h - 2 * k) = S (S (Z.to_nat (h - 2 * (k + 1))))) by lia. rewrite Ew, !xs_from_S. cbn [flat_map].
      assert (Hgeo' : geom h (2 * (k + 1)) n) by (destruct n; cbn [geom]; rewrite ?Nat2Z.inj_succ; lia).
      replace (2 * k + 2) with (2 * (k + 1)) by ring. replace (2 * k + 1 + 1) with (2 * (k + 1)) by ring.
      rewrite (IH (k + 1) Hgeo'). reflexivity.
    + assert (Ew : Z.to_nat (h - 2 * k) = 1%nat) by lia. rewrite Ew. unfold xs_from at 2. cbn [seq map flat_map].
      replace (2 * k + Z.of_nat 0) with (2 * k) by lia.
      assert (En : n = O) by (destruct n; [reflexivity|rewrite !Nat2Z.inj_succ in Hgeo; lia]). subst n.
      cbn [xs_from seq map assemble]. reflexivity.
Qed.

Lemma skipn_add : forall (l : list Z) a b, skipn a (skipn b l) = skipn (b + a) l.
Proof.
  intros l a b. revert l. induction b as [|b IH]; intro l; [reflexivity|].
  destruct l as [|x l]; [cbn; destruct a; reflexivity|]. cbn [skipn Nat.add]. apply IH.
Qed.

(* a list of w*h samples is the concatenation of its h rows *)
Lemma chunks_id : forall (wn hn : nat) (l : list Z), length l = (wn * hn)%nat ->
  flat_map (fun y => firstn wn (skipn (y * wn) l)) (seq 0 hn) = l.
Proof.
  intros wn hn. induction hn as [|hn IH]; intros l Hl.
  - rewrite Nat.mul_0_r in Hl. destruct l; [reflexivity|discriminate].
  - cbn [seq flat_map]. cbn [Nat.mul skipn]. rewrite <- seq_shift, flat_map_concat_map, map_map, <- flat_map_concat_map.
    assert (E : flat_map (fun y => firstn wn (skipn (S y * wn) l)) (seq 0 hn) =
                flat_map (fun y => firstn wn (skipn (y * wn) (skipn wn l))) (seq 0 hn)).
    { apply flat_map_ext. intro y. rewrite skipn_add. f_equal. }
    rewrite E, IH; [apply firstn_skipn|]. rewrite skipn_length, Hl. lia.
Qed.

Lemma nth_chunk : forall (l : list Z) a n, (a + n <= length l)%nat ->
  map (fun i => nth (a + i) l 0) (seq 0 n) = firstn n (skipn a l).
Proof.
  intros l a n. revert a. induction n as [|n IH]; intros a H; [reflexivity|].
  cbn [seq map]. rewrite <- seq_shift, map_map.
  destruct (skipn a l) as [|x r] eqn:Es.
  { apply (f_equal (@length Z)) in Es. rewrite skipn_length in Es. cbn in Es. lia. }
  cbn [firstn]. f_equal.
  - rewrite Nat.add_0_r. rewrite <- (firstn_skipn a l) at 1. rewrite app_nth2 by (rewrite firstn_length; lia).
    rewrite firstn_length, Nat.min_l by lia. rewrite Nat.sub_diag, Es. reflexivity.
  - assert (Er : r = skipn (S a) l).
    { replace (S a) with (a + 1)%nat by lia. rewrite <- skipn_add, Es. reflexivity. }
    rewrite Er, <- (IH (S a)) by lia. apply map_ext. intro i. f_equal. lia.
Qed.

Lemma data_rows : forall data w h, 1 <= w -> 1 <= h -> zlen data = w * h ->
  flat_map (rowvals data w h) (xs_from 0 (Z.to_nat h)) = data.
Proof.
  intros data w h Hw Hh Hlen.
  assert (Hl : length data = (Z.to_nat w * Z.to_nat h)%nat) by (unfold zlen in Hlen; nia).
  rewrite <- (chunks_id (Z.to_nat w) (Z.to_nat h) data Hl) at 2.
  unfold xs_from at 1. rewrite !flat_map_concat_map. f_equal. rewrite map_map. apply map_ext_in.
  intros y Hy. apply in_seq in Hy.
  unfold rowvals, xs_from. rewrite map_map.
  rewrite <- (nth_chunk data (y * Z.to_nat w) (Z.to_nat w)) by nia.
  apply map_ext_in. intros i Hi. apply in_seq in Hi.
  unfold dv. destruct (Z.geb_spec (0 + Z.of_nat i) w) as [?|_]; [lia|].
  destruct (Z.geb_spec (0 + Z.of_nat y) h) as [?|_]; [lia|]. cbn [orb].
  unfold znth. destruct (Z.ltb_spec ((0 + Z.of_nat y) * w + (0 + Z.of_nat i)) 0) as [?|_]; [nia|].
  f_equal. nia.
Qed.

(* ---------- small facts for the final assembly ---------- *)
Lemma sample_val_zero : forall kmax v, 1 <= kmax <= 30 -> Z.abs v < 2 ^ kmax ->
  (ht_sample_val kmax v =? 0) = (v =? 0).
Proof.
  intros kmax v Hk Hv. unfold ht_sample_val.
  set (s := 31 - kmax). assert (Hs : 1 <= s <= 30) by (unfold s; lia).
  assert (Hk30 : 2 ^ kmax <= 2 ^ 30) by (apply Z.pow_le_mono_r; lia). change (2 ^ 30) with 1073741824 in Hk30.
  assert (Emag : (if v <? 0 then wrapS 32 (- v) else v) = Z.abs v).
  { destruct (Z.ltb_spec v 0); [rewrite wrapS32_small by (change (2 ^ 31) with 2147483648; lia)|]; lia. }
  rewrite Emag.
  assert (Hm32 : wrapU 32 (Z.abs v) = Z.abs v) by (unfold wrapU; apply Z.mod_small; change (2 ^ 32) with 4294967296; lia).
  rewrite Hm32, Z.shiftl_mul_pow2 by lia.
  assert (Hp31 : 2 ^ 31 = 2 ^ kmax * 2 ^ s) by (unfold s; rewrite <- Z.pow_add_r by lia; f_equal; lia).
  pose proof (pow2_pos s ltac:(lia)) as Hps.
  assert (Hx32 : wrapU 32 (Z.abs v * 2 ^ s) = Z.abs v * 2 ^ s).
  { unfold wrapU; apply Z.mod_small. change (2 ^ 32) with (2 * 2 ^ 31). rewrite Hp31. nia. }
  rewrite Hx32. destruct (Z.eqb_spec v 0) as [->|N]; [reflexivity|]. apply Z.eqb_neq. nia.
Qed.

Lemma codes0_vqs : forall vqs cq, map cd_vq (codes0 vqs cq) = vqs.
Proof.
  intros vqs. remember (length vqs) as n eqn:En. revert vqs En.
  induction n as [n IH] using lt_wf_ind. intros vqs En cq.
  destruct vqs as [|a0 [|a1 rest]]; [reflexivity|reflexivity|].
  cbn [codes0 map cd_vq]. f_equal. f_equal. apply (IH (length rest)); [subst n; cbn [length]; lia|reflexivity].
Qed.
Lemma codesN_vqs : forall pq vqs i left, map cd_vq (codesN pq vqs i left) = vqs.
Proof.
  intros pq vqs. remember (length vqs) as n eqn:En. revert vqs En.
  induction n as [n IH] using lt_wf_ind. intros vqs En i left.
  destruct vqs as [|a0 [|a1 rest]]; [reflexivity|reflexivity|].
  cbn [codesN map cd_vq]. f_equal. f_equal. apply (IH (length rest)); [subst n; cbn [length]; lia|reflexivity].
Qed.

Lemma half_ok_vrow : forall data w h r n k, half_ok (map (vq_at data w h r) (xs_from k n)) w (2 * k).
Proof.
  intros data w h r n. induction n as [|n IH]; intro k; [exact I|].
  rewrite xs_from_S. cbn [map half_ok]. unfold vq_at at 1. split.
  - intro Hx. unfold dv. destruct (Z.geb_spec (2 * k + 1) w); [|lia]. cbn [orb]. split; reflexivity.
  - replace (2 * k + 2) with (2 * (k + 1)) by ring. apply IH.
Qed.

Lemma vrow_eq : forall data w h r, vrow data w h r = map (vq_at data w h r) (xs_from 0 (Z.to_nat (Z.quot (w + 1) 2))).
Proof. intros. unfold vrow. rewrite zseq_xs. reflexivity. Qed.

Lemma all_ms_false : forall css, all_ms false css = flat_map (flat_map (ms_of false)) css.
Proof. induction css as [|cs css IH]; [reflexivity|]. cbn [all_ms flat_map]. rewrite IH. reflexivity. Qed.

Lemma all_codesN_vqs : forall vrows pcs, map (map cd_vq) (all_codesN pcs vrows) = vrows.
Proof.
  induction vrows as [|vr vrows IH]; intro pcs; [reflexivity|].
  cbn [all_codesN map]. rewrite codesN_vqs, IH. reflexivity.
Qed.

Lemma codesN_k_le : forall kmax pvqs vqs i left, 1 <= kmax <= 30 -> Forall (vq_ok kmax) pvqs ->
  Forall (fun c => cd_k c <= kmax) (codesN (map q_of pvqs) vqs i left).
Proof.
  intros kmax pvqs vqs. remember (length vqs) as n eqn:En. revert vqs En.
  induction n as [n IH] using lt_wf_ind. intros vqs En i left Hk Hpv.
  destruct vqs as [|a0 [|a1 rest]]; cbn [codesN]; [constructor| |].
  - constructor; [cbn [cd_k]; apply kappa_le; assumption|constructor].
  - constructor; [cbn [cd_k]; apply kappa_le; assumption|].
    constructor; [cbn [cd_k]; apply kappa_le; assumption|].
    apply (IH (length rest)); [subst n; cbn [length]; lia|reflexivity|exact Hk|exact Hpv].
Qed.

Lemma uq_bounds : forall kmax cs, 1 <= kmax <= 30 -> Forall (code_ok kmax) cs -> Forall (fun c => cd_k c <= kmax) cs ->
  Forall (fun c => cd_uq c <= kmax + 1) cs.
Proof.
  intros kmax cs Hk Hc Hkk. apply Forall_forall. intros c Hin.
  apply (uq_bound kmax c Hk); [exact (proj1 (proj1 (Forall_forall _ _) Hc c Hin))|exact (proj1 (Forall_forall _ _) Hkk c Hin)].
Qed.

Lemma rows_ok_N : forall kmax w nq vrows pcs drows,
  1 <= kmax <= 30 -> geom w 0 nq ->
  Forall (fun vr => Forall (vq_ok kmax) vr /\ length vr = nq /\ half_ok vr w 0) vrows ->
  Forall (code_ok kmax) pcs ->
  rel_rows drows (all_codesN pcs vrows) -> Forall (Forall (code_ok kmax)) (all_codesN pcs vrows) ->
  rows_ok kmax w false (map cd_q pcs) drows (all_codesN pcs vrows).
Proof.
  intros kmax w nq vrows. induction vrows as [|vr vrows IH]; intros pcs drows Hk Hgeo Hrows Hpcs Hrel Hcc.
  - destruct drows; [exact I|contradiction].
  - destruct drows as [|d ds]; [contradiction|]. cbn [all_codesN rel_rows] in *. destruct Hrel as [Hr Hrel'].
    inversion Hrows as [|? ? [Hvr [Hlen Hhalf]] Hrows']; subst. inversion Hcc as [|? ? Hc Hcc']; subst.
    set (cs := codesN (map cd_q pcs) vr 0 0) in *.
    assert (Epq : map cd_q pcs = map q_of (map cd_vq pcs)) by (rewrite map_map; reflexivity).
    assert (Hpv : Forall (vq_ok kmax) (map cd_vq pcs)).
    { apply Forall_forall. intros a Ha. apply in_map_iff in Ha. destruct Ha as [c [<- Hcin]].
      exact (proj1 (proj1 (Forall_forall _ _) Hpcs c Hcin)). }
    cbn [rows_ok]. split; [exact Hr|]. split; [exact Hc|].
    split; [apply uq_bounds; [exact Hk|exact Hc|unfold cs; rewrite Epq; apply codesN_k_le; assumption]|].
    split; [apply kok_codesN|].
    assert (Evq : map cd_vq cs = vr) by (apply codesN_vqs).
    split; [rewrite <- (map_length cd_vq), Evq; exact Hgeo|]. split; [rewrite Evq; exact Hhalf|].
    apply IH; assumption.
Qed.

Lemma kok_true_k1 : forall pq cs j, kok true pq j cs -> Forall (fun c => cd_k c = 1) cs.
Proof.
  intros pq cs. induction cs as [|c cs IH]; intros j H; [constructor|].
  cbn [kok] in H. destruct H as [E H]. constructor; [exact E|exact (IH (j + 1) H)].
Qed.

(* ---------- the theorem ---------- *)
Definition ht_suffix_len (w h kmax : Z) (data : list Z) : Z :=
  let cb := map (ht_sample_pack kmax) data in
  let rows := map (quad_row cb (30 - (kmax - 1)) w h) (zseq (Z.to_nat (Z.quot (h + 1) 2))) in
  let st := enc_streams rows in
  let mel := fold_left melw_encode (st_mel st) melw_init in
  let vlc := fold_left vlw_encode (st_vlc st) vlw_init in
  let tr := ojph_mel_terminate mel (vw2_tmp vlc) (vw2_used vlc) (1 <? zlen (vw2_buf vlc)) in
  zlen (fst tr) + zlen (match snd tr with Some b => b :: vlw_bytes vlc | None => vlw_bytes vlc end).

Lemma all_zero_data : forall (data : list Z) n, length data = n -> (forall v, In v data -> v = 0) -> data = repeat 0 n.
Proof.
  induction data as [|v data IH]; intros n Hl Hz; [subst; reflexivity|].
  destruct n; [discriminate|]. cbn [repeat]. f_equal; [apply Hz; left; reflexivity|].
  apply IH; [cbn [length] in Hl; lia|intros v' Hv'; apply Hz; right; exact Hv'].
Qed.

Theorem ht_cleanup_roundtrip : forall w h kmax data,
  1 <= w -> 1 <= h -> 1 <= kmax <= 30 -> zlen data = w * h -> good kmax data ->
  ht_suffix_len w h kmax data <= 4079 ->
  exists block, ht_block_encode w h kmax data = Ok block /\
                ht_block_decode w h kmax (kmax - 1) block = Ok data.
Proof.
  intros w h kmax data Hw Hh Hk Hlen Hgood Hsuf.
  unfold ht_block_encode. rewrite Hlen, Z.eqb_refl. cbn [negb].
  destruct (Z.leb_spec kmax 0) as [?|_]; [lia|]. destruct (Z.geb_spec kmax 31) as [?|_]; [lia|]. cbn [orb].
  destruct (forallb (fun v => ht_sample_val kmax v =? 0) data) eqn:Ez.
  - (* nothing significant *)
    exists []. split; [reflexivity|]. unfold ht_block_decode. cbn [zlen length Z.of_nat Z.eqb]. f_equal.
    symmetry. apply all_zero_data; [unfold zlen in Hlen; lia|].
    intros v Hv. pose proof (proj1 (forallb_forall _ _) Ez v Hv) as Hb. cbv beta in Hb.
    rewrite (sample_val_zero kmax v Hk (proj1 (Forall_forall _ _) Hgood v Hv)) in Hb. apply Z.eqb_eq. exact Hb.
  - (* the rows as values *)
    set (nq := Z.to_nat (Z.quot (w + 1) 2)).
    assert (Hnqy : exists n', Z.to_nat (Z.quot (h + 1) 2) = S n').
    { rewrite Z.quot_div_nonneg by lia. assert (1 <= (h + 1) / 2) by (apply Z.div_le_lower_bound; lia).
      exists (Z.to_nat ((h + 1) / 2) - 1)%nat. lia. }
    destruct Hnqy as [n' En'].
    set (rest := map (vrow data w h) (xs_from 1 n')).
    assert (Erows : map (quad_row (map (ht_sample_pack kmax) data) (30 - (kmax - 1)) w h) (zseq (Z.to_nat (Z.quot (h + 1) 2))) =
                    map (map q_of) (vrow data w h 0 :: rest)).
    { rewrite En', zseq_xs, xs_from_S. unfold rest. cbn [map]. rewrite !(quad_row_vrow kmax) by assumption.
      f_equal. rewrite !map_map. apply map_ext. intro r. apply (quad_row_vrow kmax); assumption. }
    unfold ht_suffix_len in Hsuf. cbv zeta in Hsuf. rewrite Erows in Hsuf. rewrite Erows.
    cbn [map enc_streams] in Hsuf |- *.
    set (S := st_app (enc_row0 (map q_of (vrow data w h 0)) 0) (enc_rows (map (map q_of) rest) (map q_of (vrow data w h 0)))) in *.
    assert (Hvr0 : Forall (vq_ok kmax) (vrow data w h 0)) by (apply vrow_ok; [lia|exact Hgood]).
    assert (Hrest : Forall (Forall (vq_ok kmax)) rest).
    { unfold rest. apply Forall_forall. intros vr Hin. apply in_map_iff in Hin. destruct Hin as [r [<- _]]. apply vrow_ok; [lia|exact Hgood]. }
    assert (Hcok : calls_ok (st_vlc S)).
    { unfold S. cbn [st_app st_vlc]. apply Forall_app. split; [apply (enc_row0_vlc_ok kmax); try assumption; lia|].
      apply (enc_rows_vlc_ok kmax); assumption. }
    destruct (block_streams S Hcok Hsuf) as [Hsc2 [cld [Hparse [Hblen [HMI [HVI HMS]]]]]].
    cbv zeta in Hsc2, Hparse, Hblen.
    destruct (ojph_mel_terminate (fold_left melw_encode (st_mel S) melw_init)
                (vw2_tmp (fold_left vlw_encode (st_vlc S) vlw_init)) (vw2_used (fold_left vlw_encode (st_vlc S) vlw_init))
                (1 <? zlen (vw2_buf (fold_left vlw_encode (st_vlc S) vlw_init)))) as [meld extra] eqn:Etr.
    cbn [fst snd] in Hsc2, Hparse, Hblen, HMI, HVI, Hsuf.
    set (vlcd := match extra with Some b => b :: vlw_bytes (fold_left vlw_encode (st_vlc S) vlw_init) | None => vlw_bytes (fold_left vlw_encode (st_vlc S) vlw_init) end) in *.
    destruct (Z.eqb_spec (zlen meld + zlen vlcd) 0) as [?|_]; [lia|].
    eexists. split; [reflexivity|].
    set (block := scup_write (msw_terminate (fold_left msw_encode (st_ms S) msw_init) ++ meld ++ vlcd) (zlen meld + zlen vlcd)) in *.
    set (msb := msw_terminate (fold_left msw_encode (st_ms S) msw_init)) in *.
    (* the decoder *)
    unfold ht_block_decode.
    destruct (Z.eqb_spec (zlen block) 0) as [?|_]; [lia|].
    destruct (Z.leb_spec kmax 0) as [?|_]; [lia|]. destruct (Z.ltb_spec (kmax - 1) 0) as [?|_]; [lia|].
    destruct (Z.geb_spec (kmax - 1) 30) as [?|_]; [lia|].
    rewrite Hparse.
    replace (30 - (kmax - 1)) with (31 - kmax) by ring.
    rewrite (npairs_eq w Hw). fold nq.
    (* phase 1, row 0 *)
    pose proof (nq_geom w Hw) as Hgeo. fold nq in Hgeo.
    assert (Hlen0 : length (vrow data w h 0) = nq) by (apply vrow_length; exact Hw).
    destruct (ojph_mel_start cld) as [r0 mr0] eqn:Ems.
    assert (HP0 : P1 ((r0, mr0), rev_stream cld) S) by (split; [exact HMI|split; [exact HVI|exact Hcok]]).
    destruct (dec_row0_spec kmax w nq (vrow data w h 0) 0 0 (r0, mr0) (rev_stream cld) _ ltac:(lia) Hk Hvr0 ltac:(lia)
                ltac:(rewrite Hlen0; exact Hgeo) HP0) as [drow0 [ms1 [v1 [Ed0 [HP1 [Hrel0 Hcs0]]]]]].
    rewrite Hlen0 in Ed0. change (128 * 0) with 0 in Ed0. rewrite Ed0.
    (* phase 1, the other rows *)
    set (cs0 := codes0 (vrow data w h 0) 0) in *.
    assert (Erow0q : map cd_q cs0 = map q_of (vrow data w h 0)) by apply codes0_quads.
    assert (Hrestl : Forall (fun vr => Forall (vq_ok kmax) vr /\ length vr = nq) rest).
    { unfold rest. apply Forall_forall. intros vr Hin. apply in_map_iff in Hin. destruct Hin as [r [<- _]].
      split; [apply vrow_ok; [lia|exact Hgood]|apply vrow_length; exact Hw]. }
    assert (HP1' : P1 (ms1, v1) (st_app (enc_rows (map (map q_of) rest) (map cd_q cs0)) st_nil)).
    { rewrite Erow0q. destruct HP1 as [A [B C]]. unfold P1. cbn [st_app st_nil st_mel st_vlc fst snd]. rewrite !app_nil_r.
      split; [exact A|split; assumption]. }
    destruct (dec_rows_spec kmax w nq rest true drow0 cs0 ms1 v1 st_nil Hk Hrestl Hrel0 Hcs0 Hgeo HP1')
      as [ms2 [v2 [Hrr [Hcc _]]]].
    assert (Enrows : Z.to_nat (Z.quot (h + 1) 2 - 1) = length rest).
    { unfold rest, xs_from. rewrite !map_length, seq_length. lia. }
    rewrite Enrows.
    set (drows := dec_rows (length rest) (Nat.div2 (Datatypes.S nq)) drow0 w (ms1, v1)) in *.
    (* phase 2 *)
    assert (Hhalf0 : half_ok (vrow data w h 0) w 0) by (rewrite vrow_eq; apply (half_ok_vrow data w h 0 _ 0)).
    assert (Hrok : rows_ok kmax w true [] (drow0 :: drows) (cs0 :: all_codesN cs0 rest)).
    { cbn [rows_ok]. split; [exact Hrel0|]. split; [exact Hcs0|].
      split.
      { apply uq_bounds; [exact Hk|exact Hcs0|]. apply Forall_forall. intros c Hin.
        pose proof (proj1 (Forall_forall _ _) (kok_true_k1 [] cs0 0 (kok_codes0 [] _ 0 0)) c Hin) as E1. cbv beta in E1. lia. }
      split; [apply kok_codes0|].
      assert (Evq0 : map cd_vq cs0 = vrow data w h 0) by apply codes0_vqs.
      split; [rewrite <- (map_length cd_vq), Evq0, Hlen0; exact Hgeo|]. split; [rewrite Evq0; exact Hhalf0|].
      apply (rows_ok_N kmax w nq); try assumption.
      unfold rest. apply Forall_forall. intros vr Hin. apply in_map_iff in Hin. destruct Hin as [r [<- _]].
      split; [apply vrow_ok; [lia|exact Hgood]|]. split; [apply vrow_length; exact Hw|].
      rewrite vrow_eq. apply (half_ok_vrow data w h r _ 0). }
    assert (HMS' : MSC (ms_stream msb) (all_ms true (cs0 :: all_codesN cs0 rest) ++ [])).
    { rewrite app_nil_r. cbn [all_ms]. rewrite all_ms_false.
      unfold S in HMS. cbn [st_app st_ms] in HMS. rewrite enc_row0_ms in HMS. fold cs0 in HMS.
      rewrite <- Erow0q, enc_rows_ms in HMS. exact HMS. }
    destruct (dec_ms_rows_spec kmax w (cs0 :: all_codesN cs0 rest) (drow0 :: drows) true [] [] (ms_stream msb) [] Hk Hrok
                ltac:(intro; discriminate) HMS') as [l [m' [El [Hl _]]]].
    rewrite El. f_equal.
    (* the samples *)
    rewrite assemble_map, Hl. cbn [map]. replace (map cd_vq cs0) with (vrow data w h 0) by (symmetry; apply codes0_vqs).
    assert (Erest : map (fun cs => (tops_exp (map cd_vq cs) w 0, bots_exp (map cd_vq cs) w 0)) (all_codesN cs0 rest) =
                    map (fun vr => (tops_exp vr w 0, bots_exp vr w 0)) rest).
    { rewrite <- (all_codesN_vqs rest cs0) at 2. rewrite map_map. reflexivity. }
    rewrite Erest.
    assert (Etb : forall r, (tops_exp (vrow data w h r) w 0, bots_exp (vrow data w h r) w 0) =
                            (rowvals data w h (2 * r), rowvals data w h (2 * r + 1))).
    { intro r. rewrite vrow_eq. fold nq. destruct (tops_bots_vrow data w h r nq 0 Hgeo) as [A B].
      change (2 * 0) with 0 in A, B. rewrite A, B. unfold rowvals. rewrite Z.sub_0_r. reflexivity. }
    assert (Eall : (tops_exp (vrow data w h 0) w 0, bots_exp (vrow data w h 0) w 0) ::
                   map (fun vr => (tops_exp vr w 0, bots_exp vr w 0)) rest =
                   map (fun r => (rowvals data w h (2 * r), rowvals data w h (2 * r + 1))) (xs_from 0 (Datatypes.S n'))).
    { rewrite xs_from_S. cbn [map]. f_equal; [apply Etb|]. unfold rest. rewrite map_map. apply map_ext. intro r. apply Etb. }
    rewrite Eall.
    assert (Hgeoh : geom h (2 * 0) (Datatypes.S n')).
    { pose proof (nq_geom h Hh) as Gh. rewrite En' in Gh. exact Gh. }
    change 0 with (2 * 0) at 2. rewrite (assemble_rows data w h (Datatypes.S n') 0 Hgeoh).
    change (2 * 0) with 0. rewrite Z.sub_0_r. apply data_rows; assumption.
Qed.
