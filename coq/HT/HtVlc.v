(* EXTRACT *)
(* HTJ2K CxtVLC: models of jpeg2000/htj2k
     vlc_tables.go      VLCEntry, packVLCEntry, InitVLCTables (VLCLookupTable0/1, the tables the
                        live decoder decodeOpenJPH{InitialRow,RemainingRows} indexes),
                        the VLCLookupEntry accessors
     vlc_generator.go   GenerateVLCTables (VLCDecodeTbl0/1: same first-match search, unpacked)
     openjph_cleanup_encoder.go  initOJPHEncoderVLCTable (ojphEncoderVLCTable0/1, the tables the
                        live encoder indexes), ojphEncodeTuple
     vlc_encoder.go     VLCEncoder: emitVLCBits (bit stuffing after a byte > 0x8F), EncodeCxtVLC
                        (exact key, then best-match fallback), EncodeQuadVLCByEMB, Flush
   The source tables VLCTbl0/VLCTbl1 are regenerated (Gen/HtTables_gen.v, 7 integers per entry). *)
From V Require Import Common.Base Gen.HtTables_gen.

Record vlc_entry : Type := mk_vlc_entry
  { ve_cq : Z; ve_rho : Z; ve_uoff : Z; ve_ek : Z; ve_e1 : Z; ve_cwd : Z; ve_len : Z }.

Fixpoint vlc_entries (l : list Z) : list vlc_entry :=
  match l with
  | a :: b :: c :: d :: e :: f :: g :: r => mk_vlc_entry a b c d e f g :: vlc_entries r
  | _ => []
  end.

Definition vlc_src0 : list vlc_entry := vlc_entries ht_vlc_src0.
Definition vlc_src1 : list vlc_entry := vlc_entries ht_vlc_src1.

Definition zseq (n : nat) : list Z := map Z.of_nat (seq 0 n).

(* packVLCEntry: (uint16(ek)<<12) | (uint16(e1)<<8) | (uint16(rho)<<4) | (uint16(uOff)<<3) | uint16(cwdLen) *)
Definition vlc_pack (e : vlc_entry) : Z :=
  wrapU 16 (Z.lor (Z.lor (Z.lor (Z.lor (Z.shiftl (ve_ek e) 12) (Z.shiftl (ve_e1 e) 8))
                                 (Z.shiftl (ve_rho e) 4)) (Z.shiftl (ve_uoff e) 3)) (ve_len e)).

(* VLCLookupEntry accessors *)
Definition vl_len (t : Z) : Z := Z.land t 7.
Definition vl_uoff (t : Z) : Z := Z.land (Z.shiftr t 3) 1.
Definition vl_rho (t : Z) : Z := Z.land (Z.shiftr t 4) 15.
Definition vl_e1 (t : Z) : Z := Z.land (Z.shiftr t 8) 15.
Definition vl_ek (t : Z) : Z := Z.land (Z.shiftr t 12) 15.

(* mask := (uint8(1) << entry.CwdLen) - 1   (uint8 arithmetic, wraps for CwdLen >= 8) *)
Definition vlc_mask8 (len : Z) : Z := wrapU 8 (wrapU 8 (Z.shiftl 1 len) - 1).

(* InitVLCTables: first source entry (in source order) of the context whose codeword equals the
   index's low bits masked to the entry's length; zero when none. *)
Fixpoint vlc_find_first (src : list vlc_entry) (cq cwd : Z) : Z :=
  match src with
  | [] => 0
  | e :: r =>
    if (ve_cq e =? cq) && (ve_cwd e =? Z.land cwd (vlc_mask8 (ve_len e))) then vlc_pack e
    else vlc_find_first r cq cwd
  end.

Definition vlc_lookup_build (src : list vlc_entry) : list Z :=
  map (fun i => vlc_find_first src (wrapU 8 (Z.shiftr i 7)) (wrapU 8 (Z.land i 127))) (zseq 1024).

Definition vlc_lookup0 : list Z := vlc_lookup_build vlc_src0.
Definition vlc_lookup1 : list Z := vlc_lookup_build vlc_src1.

(* The live decoder step: t := VLCLookupTableN[cq + int(peek & 0x7F)] with cq = context << 7,
   context in 0..7; the codeword length consumed is t & 7. (index always < 1024 for such cq) *)
Definition vlc_decode (tbl : list Z) (ctx peek : Z) : Z :=
  znth tbl (Z.shiftl ctx 7 + Z.land peek 127) 0.

(* ---- encoder tables of the live encoder: initOJPHEncoderVLCTable ---- *)

Fixpoint popcount_nat (fuel : nat) (x : Z) : Z :=
  match fuel with
  | O => 0
  | S k => Z.land x 1 + popcount_nat k (Z.shiftr x 1)
  end.
Definition popcount8 (x : Z) : Z := popcount_nat 8 (Z.land x 255).

(* eps != 0: among entries with CQ==cq, Rho==rho, UOff==1, (eps & EK) == E1 the LAST one of
   maximal popcount(EK) (`ones >= bestEK`); returns the entry or None *)
Fixpoint ojph_best_emb (src : list vlc_entry) (cq rho eps : Z) (bestEK : Z) (best : option vlc_entry)
  : option vlc_entry :=
  match src with
  | [] => best
  | e :: r =>
    if (ve_cq e =? cq) && (ve_rho e =? rho) && (ve_uoff e =? 1) && (Z.land eps (ve_ek e) =? ve_e1 e) then
      let ones := popcount8 (ve_ek e) in
      if ones >=? bestEK then ojph_best_emb r cq rho eps ones (Some e)
      else ojph_best_emb r cq rho eps bestEK best
    else ojph_best_emb r cq rho eps bestEK best
  end.

(* eps == 0: the FIRST entry with CQ==cq, Rho==rho, UOff==0 *)
Fixpoint ojph_first_u0 (src : list vlc_entry) (cq rho : Z) : option vlc_entry :=
  match src with
  | [] => None
  | e :: r => if (ve_cq e =? cq) && (ve_rho e =? rho) && (ve_uoff e =? 0) then Some e
              else ojph_first_u0 r cq rho
  end.

(* dst[i] = uint16(best.Cwd)<<8 | uint16(best.CwdLen)<<4 | uint16(best.EK) *)
Definition ojph_enc_pack (e : vlc_entry) : Z :=
  wrapU 16 (Z.lor (Z.lor (Z.shiftl (ve_cwd e) 8) (Z.shiftl (ve_len e) 4)) (ve_ek e)).

Definition ojph_enc_entry (src : list vlc_entry) (i : Z) : Z :=
  let cq := Z.shiftr i 8 in
  let rho := Z.land (Z.shiftr i 4) 15 in
  let eps := Z.land i 15 in
  if negb (Z.land eps rho =? eps) || ((rho =? 0) && (cq =? 0)) then 0
  else
    let best := if negb (eps =? 0) then ojph_best_emb src cq rho eps (-1) None
                else ojph_first_u0 src cq rho in
    match best with Some e => ojph_enc_pack e | None => 0 end.

Definition ojph_enc_build (src : list vlc_entry) : list Z := map (ojph_enc_entry src) (zseq 2048).
Definition ojph_enc0 : list Z := ojph_enc_build vlc_src0.
Definition ojph_enc1 : list Z := ojph_enc_build vlc_src1.

(* ojphEncodeTuple(initial, cq, rho, eps); the caller emits (tuple>>8, (tuple>>4)&7) and uses
   bit i of the tuple (the entry's e_k) for the MagSgn bit count m = U_q - e_k[i]. *)
Definition ojph_encode_tuple (initial : bool) (cq rho eps : Z) : Z :=
  if (rho =? 0) && (cq =? 0) then 0
  else znth (if initial then ojph_enc0 else ojph_enc1)
            (Z.lor (Z.lor (Z.shiftl cq 8) (Z.shiftl rho 4)) eps) 0.
Definition tuple_cwd (t : Z) : Z := Z.shiftr t 8.
Definition tuple_len (t : Z) : Z := Z.land (Z.shiftr t 4) 7.
Definition tuple_ek (t : Z) : Z := Z.land t 15.

(* ---- VLCEncoder (vlc_encoder.go), the bit packer of Clause F.4 with its stuffing rule ---- *)

Record vlcw : Type := mk_vlcw
  { vw_bits : Z;        (* vlcBits *)
    vw_tmp : Z;         (* vlcTmp uint8 *)
    vw_last : Z;        (* vlcLast *)
    vw_buf : list Z }.  (* vlcBuf in REVERSE order (head = last byte written) *)

(* initVLCPacker *)
Definition vlcw_init : vlcw := mk_vlcw 4 15 255 [255].

(* one iteration of emitVLCBits *)
Definition vlcw_bit (s : vlcw) (bit : Z) : vlcw :=
  let tmp := Z.lor (vw_tmp s) (wrapU 8 (Z.shiftl bit (vw_bits s))) in
  let bits := vw_bits s + 1 in
  let bits := if (vw_last s >? 143) && (tmp =? 127) then bits + 1 else bits in
  if bits =? 8 then mk_vlcw 0 0 tmp (tmp :: vw_buf s)
  else mk_vlcw bits tmp (vw_last s) (vw_buf s).

Fixpoint vlcw_emit (n : nat) (s : vlcw) (cwd : Z) : vlcw :=
  match n with
  | O => s
  | S k => vlcw_emit k (vlcw_bit s (Z.land cwd 1)) (Z.shiftr cwd 1)
  end.

(* Flush: pad the open byte with ones, then reverse the buffer *)
Fixpoint vlcw_pad (fuel : nat) (bits tmp : Z) : Z :=
  match fuel with
  | O => tmp
  | S k => if bits <? 8 then vlcw_pad k (bits + 1) (Z.lor tmp (wrapU 8 (Z.shiftl 1 bits))) else tmp
  end.
Definition vlcw_flush (s : vlcw) : list Z :=
  if vw_bits s >? 0 then vlcw_pad 8 (vw_bits s) (vw_tmp s) :: vw_buf s else vw_buf s.

(* EncodeCxtVLC: exact key in the map built from the source table (a later duplicate key
   overwrites an earlier one), else the FIRST entry of maximal popcount(ek&EK)+popcount(e1&E1)
   among those with the same (context, rho, uOff). Result (cwd, len) or None (error). *)
Fixpoint vlc_exact_last (src : list vlc_entry) (cq rho uoff ek e1 : Z) (acc : option vlc_entry)
  : option vlc_entry :=
  match src with
  | [] => acc
  | e :: r =>
    vlc_exact_last r cq rho uoff ek e1
      (if (ve_cq e =? cq) && (ve_rho e =? rho) && (ve_uoff e =? uoff) && (ve_ek e =? ek) && (ve_e1 e =? e1)
       then Some e else acc)
  end.
Fixpoint vlc_fallback (src : list vlc_entry) (cq rho uoff ek e1 : Z) (maxBits : Z) (best : option vlc_entry)
  : option vlc_entry :=
  match src with
  | [] => best
  | e :: r =>
    if (ve_cq e =? cq) && (ve_rho e =? rho) && (ve_uoff e =? uoff) then
      let m := popcount8 (Z.land ek (ve_ek e)) + popcount8 (Z.land e1 (ve_e1 e)) in
      if m >? maxBits then vlc_fallback r cq rho uoff ek e1 m (Some e)
      else vlc_fallback r cq rho uoff ek e1 maxBits best
    else vlc_fallback r cq rho uoff ek e1 maxBits best
  end.
Definition vlc_encode_cxt (first : bool) (cq rho uoff ek e1 : Z) : option (Z * Z) :=
  let src := if first then vlc_src0 else vlc_src1 in
  match vlc_exact_last src cq rho uoff ek e1 None with
  | Some e => Some (ve_cwd e, ve_len e)
  | None =>
    match vlc_fallback src cq rho uoff ek e1 (-1) None with
    | Some e => Some (ve_cwd e, ve_len e)
    | None => None
    end
  end.

(* EncodeQuadVLCByEMB: (cwd, len, table e_k) or None. For uOff==1 && emb != 0 the FIRST entry of
   maximal popcount(EK) (`ekBits > maxEK`) among (emb & EK) == E1 — the tie rule differs from
   initOJPHEncoderVLCTable (`>=`); HtProofs shows no tie ever occurs in the regenerated tables. *)
Fixpoint vlc_best_emb_first (src : list vlc_entry) (cq rho emb : Z) (maxEK : Z) (best : option vlc_entry)
  : option vlc_entry :=
  match src with
  | [] => best
  | e :: r =>
    if (ve_cq e =? cq) && (ve_rho e =? rho) && (ve_uoff e =? 1) && (Z.land emb (ve_ek e) =? ve_e1 e) then
      let ones := popcount8 (ve_ek e) in
      if ones >? maxEK then vlc_best_emb_first r cq rho emb ones (Some e)
      else vlc_best_emb_first r cq rho emb maxEK best
    else vlc_best_emb_first r cq rho emb maxEK best
  end.
Definition vlc_encode_by_emb (first : bool) (cq rho uoff emb : Z) : option (Z * Z * Z) :=
  let src := if first then vlc_src0 else vlc_src1 in
  if (uoff =? 0) || (emb =? 0) then
    match ojph_first_u0 src cq rho with
    | Some e => Some (ve_cwd e, ve_len e, 0)
    | None => None
    end
  else
    match vlc_best_emb_first src cq rho emb (-1) None with
    | Some e => Some (ve_cwd e, ve_len e, ve_ek e)
    | None => None
    end.
