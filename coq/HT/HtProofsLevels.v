(* HTJ2K: level clamp, Kmax sufficiency / consistency, sample word conversion, Scup locator. *)
From V Require Import Common.Base Gen.HtTables_gen HT.HtVlc HT.HtLevels HT.HtProofsTables.

(* =====================================================================================
   1. calculateMaxLevels
   ===================================================================================== *)

(* one axis at origin 0: `l` splits of n >= 1 samples leave (n-1)/2^l + 1 samples *)
Lemma res_dim_origin0 : forall l n, 1 <= n -> res_dim l n 0 = (n - 1) / 2 ^ Z.of_nat l + 1.
Proof.
  induction l as [|l IH]; intros n Hn.
  - cbn [res_dim]. change (2 ^ Z.of_nat 0) with 1. rewrite Z.div_1_r. ring.
  - cbn [res_dim]. change (Z.even 0) with true. change (Z.shiftr (0 + 1) 1) with 0.
    unfold split_len. rewrite Z.quot_div_nonneg by lia.
    assert (H1 : 1 <= (n + 1) / 2) by (apply Z.div_le_lower_bound; lia).
    rewrite IH by exact H1.
    rewrite Nat2Z.inj_succ, Z.pow_succ_r by lia.
    rewrite <- Z.div_div by lia.
    replace ((n + 1) / 2 - 1) with ((n - 1) / 2); [reflexivity|].
    replace (n + 1) with (n - 1 + 1 * 2) by ring. rewrite Z.div_add by lia. ring.
Qed.

Lemma cml_loop_spec : forall fuel l m, (1 <= fuel)%nat -> 0 <= l -> 1 <= m ->
  m <= 2 ^ (l + Z.of_nat fuel - 1) ->
  let r := cml_loop fuel l m in
  l <= r /\ m <= 2 ^ r /\ (forall j, l <= j < r -> 2 ^ j < m).
Proof.
  induction fuel as [|fuel IH]; intros l m Hf Hl Hm Hb; cbv zeta; [lia|].
  cbn [cml_loop]. rewrite Z.shiftl_1_l.
  destruct (Z.ltb_spec (2 ^ l) m) as [Hlt|Hge].
  - destruct fuel as [|fuel'].
    + exfalso. change (Z.of_nat 1) with 1 in Hb. replace (l + 1 - 1) with l in Hb by ring. lia.
    + assert (Hb' : m <= 2 ^ (l + 1 + Z.of_nat (S fuel') - 1)).
      { rewrite (Nat2Z.inj_succ (S fuel')) in Hb.
        replace (l + 1 + Z.of_nat (S fuel') - 1) with (l + Z.succ (Z.of_nat (S fuel')) - 1) by lia. exact Hb. }
      destruct (IH (l + 1) m ltac:(lia) ltac:(lia) Hm Hb') as [A [B C]].
      split; [lia|]. split; [exact B|].
      intros j Hj. destruct (Z.eq_dec j l) as [->|]; [exact Hlt| apply C; lia].
  - split; [lia|]. split; [exact Hge|]. intros j Hj. lia.
Qed.

(* What calculateMaxLevels guarantees, exactly. For 1 <= w, h <= 2^62 and L the returned count:
   (a) 0 <= L <= 6;
   (b) every decomposition that is applied really splits: before split number l+1 (l < L) the
       smaller dimension still has at least 2 samples, as the decoder computes it
       (resolutionDimsWithOrigin at origin 0);
   (c) every resolution level of every count (in particular the clamped one) keeps both LL
       dimensions >= 1;
   (d) L is maximal: if L < 6 the smaller dimension of the final LL band is 1. *)
Definition zmin (a b : Z) : Z := if b <? a then b else a.

Theorem levels_clamp_sound : forall w h, 1 <= w <= 2 ^ 62 -> 1 <= h <= 2 ^ 62 ->
  let L := calc_max_levels w h in
  0 <= L <= 6 /\
  (forall l, (Z.of_nat l < L) -> 2 <= res_dim l (zmin w h) 0) /\
  (forall l, 1 <= res_dim l w 0 /\ 1 <= res_dim l h 0) /\
  (L < 6 -> res_dim (Z.to_nat L) (zmin w h) 0 = 1).
Proof.
  intros w h Hw Hh. cbv zeta. unfold calc_max_levels. fold (zmin w h).
  assert (Hm : 1 <= zmin w h <= 2 ^ 62) by (unfold zmin; destruct (h <? w); lia).
  set (m := zmin w h) in *.
  destruct (Z.leb_spec m 0) as [?|_]; [lia|].
  destruct (cml_loop_spec 63 0 m ltac:(lia) ltac:(lia) ltac:(lia) ltac:(change (0 + Z.of_nat 63 - 1) with 62; lia))
    as [A [B C]].
  set (r := cml_loop 63 0 m) in *.
  destruct (Z.ltb_spec r 0) as [?|_]; [lia|].
  assert (Hdim : forall l n, 1 <= n -> 1 <= res_dim l n 0).
  { intros l n Hn. rewrite res_dim_origin0 by exact Hn.
    assert (0 <= (n - 1) / 2 ^ Z.of_nat l) by (apply Z.div_pos; [lia| apply Z.pow_pos_nonneg; lia]). lia. }
  assert (Hsplit : forall l, Z.of_nat l < r -> 2 <= res_dim l m 0).
  { intros l Hl. rewrite res_dim_origin0 by lia.
    assert (Hp : 2 ^ Z.of_nat l < m) by (apply C; lia).
    assert (1 <= (m - 1) / 2 ^ Z.of_nat l).
    { apply Z.div_le_lower_bound; [apply Z.pow_pos_nonneg; lia | lia]. }
    lia. }
  destruct (Z.gtb_spec r 6) as [Hgt|Hle].
  - split; [lia|]. split; [intros l Hl; apply Hsplit; lia|].
    split; [intro l; split; apply Hdim; lia | lia].
  - split; [lia|]. split; [exact Hsplit|].
    split; [intro l; split; apply Hdim; lia|].
    intros _. rewrite res_dim_origin0 by lia. rewrite Z2Nat.id by lia.
    rewrite Z.div_small; [ring|]. lia.
Qed.

(* =====================================================================================
   2. Kmax from the reversible QCD exponents
   ===================================================================================== *)

Definition prec_of (P : Z) (rct : bool) : Z := if rct then P + 1 else P.
Definition gain_of (L idx : Z) : Z := znth (gain2_list L) idx 0.
Definition kmax_of (L P : Z) (rct : bool) (idx : Z) : Z := znth (rev_expn L P rct) idx 0 + ht_guard_bits - 1.

(* 2a. float robustness of ceil(log2(v*v)): every squared gain of the regenerated tables is either
   exactly 1 or exactly 4 (v = 1.0 or 2.0 are float64 values, v*v and Log2 of a power of two are
   exact in Go), or lies strictly inside (2^(k-1), 2^k) with relative margin 2^-20 on both sides,
   far beyond float64 rounding of sqrt(a*b)^2 and of math.Log2. *)
Definition gain_robust (g : Z) : bool :=
  (g =? e8) || (g =? 4 * e8) ||
  (let k := clog2_q g e8 in
   (1 <=? k) && (e8 * 2 ^ (k - 1) * (2 ^ 20 + 1) <? g * 2 ^ 20) && (g * 2 ^ 20 <? e8 * 2 ^ k * (2 ^ 20 - 1))).
Lemma clog2_float_robust : forall L g, 0 <= L <= 6 -> In g (gain2_list L) -> gain_robust g = true.
Proof.
  intros L g HL Hin.
  assert (H : forallb (fun L => forallb gain_robust (gain2_list L)) (zrange 0 6) = true) by (vm_compute; reflexivity).
  pose proof (proj1 (forallb_forall _ _) H L (In_zrange 0 6 L HL)) as H1. cbv beta in H1.
  exact (proj1 (forallb_forall _ _) H1 g Hin).
Qed.

(* 2b. sufficiency *)
Lemma mag_bits_le : forall c k, 0 <= k -> Z.abs c < 2 ^ k -> mag_bits c <= k.
Proof.
  intros c k Hk Hc. unfold mag_bits. destruct (Z.eqb_spec c 0) as [->|Hn]; [lia|].
  assert (0 < Z.abs c) by lia.
  assert (Z.log2 (Z.abs c) < k) by (apply Z.log2_lt_pow2; lia). lia.
Qed.

Lemma mag_bits_gt : forall c k, 0 <= k -> 2 ^ k <= Z.abs c -> k < mag_bits c.
Proof.
  intros c k Hk Hc. unfold mag_bits.
  assert (0 < 2 ^ k) by (apply Z.pow_pos_nonneg; lia).
  destruct (Z.eqb_spec c 0) as [->|Hn]; [simpl in Hc; lia|].
  assert (k <= Z.log2 (Z.abs c)) by (apply Z.log2_le_pow2; lia). lia.
Qed.

Definition kmax_cell_ok (P : Z) (rct : bool) (L idx : Z) : bool :=
  let g := gain_of L idx in let k := kmax_of L P rct idx in let p := prec_of P rct in
  ht_kmax_ok k && ((g * 2 ^ (p - 1) <? e8 * 2 ^ k) || ((g =? 4 * e8) && (k =? p + 1))).

Lemma kmax_cells : forall rct,
  forallb (fun P => forallb (fun L => forallb (kmax_cell_ok P rct L) (zrange 0 (3 * L))) (zrange 0 6)) (zrange 1 16) = true.
Proof. intros [|]; vm_compute; reflexivity. Qed.

Lemma kmax_cell : forall P rct L idx, 1 <= P <= 16 -> 0 <= L <= 6 -> 0 <= idx <= 3 * L ->
  kmax_cell_ok P rct L idx = true.
Proof.
  intros P rct L idx HP HL Hi.
  pose proof (proj1 (forallb_forall _ _) (kmax_cells rct) P (In_zrange 1 16 P HP)) as H1. cbv beta in H1.
  pose proof (proj1 (forallb_forall _ _) H1 L (In_zrange 0 6 L HL)) as H2. cbv beta in H2.
  exact (proj1 (forallb_forall _ _) H2 idx (In_zrange 0 (3 * L) idx Hi)).
Qed.

(* kmax_sufficient.  P = sample precision 1..16, rct adds the extra RCT bit, L = level count,
   idx = band in QCD order (0 = LL, then HL, LH, HH from the coarsest to the finest level).
   gain_of L idx / 10^8 is the squared (2-D) BIBO gain the code itself uses for that band:
   low[L]^2, low[d]*high[d-1], high[d-1]^2 over the REGENERATED tables.
   If a coefficient obeys the BIBO bound |c| <= gain * 2^(p-1) for p-bit level-shifted samples,
   then it has at most Kmax magnitude bits, Kmax = exponent + guard - 1 as coded now — PROVIDED
   that, in the one band whose gain is exactly the power of two 4 (the finest HH band, high[0]^2),
   the bound is not attained with equality, |c| < 2^(p+1).  That proviso cannot be dropped
   (kmax_sufficient_bibo_refuted below) but it always holds for the 5/3 transform of samples in
   the two's-complement range [-2^(p-1), 2^(p-1)-1] (hh1_strict below): the bound 4 * 2^(p-1)
   would need +2^(p-1), which is not a sample value.
   Unit gain (L = 0): gain = 1 and |c| <= 2^(p-1) is attained by the sample -2^(p-1), which needs
   p magnitude bits.  HISTORICAL WITNESS (finding F12, fixed in /repo by "fix: HTJ2K reversible
   quantisation gives the LL band one magnitude bit too few ..."): the exponent used to be
   p + ceil(log2 1) - 1 = p - 1, i.e. Kmax = p - 1; for P = 8, L = 0 the sample 0 (level-shifted
   -128, magnitude 2^7, 8 bits) was shifted into the sign bit by `mag << (31 - Kmax)` and came
   back as 128 (8x1 frame 0..7, 8-bit, levels 0). See kmax_unit_gain_historical. *)
Theorem kmax_sufficient : forall P rct L idx c,
  1 <= P <= 16 -> 0 <= L <= 6 -> 0 <= idx <= 3 * L ->
  let g := gain_of L idx in let p := prec_of P rct in let k := kmax_of L P rct idx in
  Z.abs c * e8 <= g * 2 ^ (p - 1) ->
  (g = 4 * e8 -> Z.abs c < 2 ^ (p + 1)) ->
  mag_bits c <= k /\ ht_kmax_ok k = true.
Proof.
  intros P rct L idx c HP HL Hi. cbv zeta. intros Hb Hstrict.
  pose proof (kmax_cell P rct L idx HP HL Hi) as Hc. unfold kmax_cell_ok in Hc.
  apply andb_prop in Hc. destruct Hc as [Hk Hc]. split; [|exact Hk].
  unfold ht_kmax_ok in Hk. apply andb_prop in Hk. destruct Hk as [Hk0 Hk1]. b2p.
  apply mag_bits_le; [lia|].
  apply orb_prop in Hc. destruct Hc as [Hc|Hc].
  - b2p. assert (Z.abs c * e8 < 2 ^ kmax_of L P rct idx * e8) by lia.
    unfold e8 in *. nia.
  - apply andb_prop in Hc. destruct Hc as [Hg Hkp]. b2p. rewrite Hkp. apply Hstrict. exact Hg.
Qed.

(* the BIBO formulation without the proviso fails exactly at the attained bound of the finest HH *)
Definition kmax_sufficient_bibo_statement : Prop := forall P rct L idx c,
  1 <= P <= 16 -> 0 <= L <= 6 -> 0 <= idx <= 3 * L ->
  Z.abs c * e8 <= gain_of L idx * 2 ^ (prec_of P rct - 1) -> mag_bits c <= kmax_of L P rct idx.
Lemma kmax_sufficient_bibo_refuted : ~ kmax_sufficient_bibo_statement.
Proof.
  intro H. specialize (H 8 false 1 3 512 ltac:(lia) ltac:(lia) ltac:(lia)).
  assert (A : Z.abs 512 * e8 <= gain_of 1 3 * 2 ^ (prec_of 8 false - 1)) by (vm_compute; intro; discriminate).
  specialize (H A).
  assert (B : mag_bits 512 = 10) by reflexivity. assert (C : kmax_of 1 8 false 3 = 9) by reflexivity. lia.
Qed.

(* ... and that value is not reachable: the finest HH coefficient is the 5/3 predict step applied
   along both axes to original samples. predict53 a b c = b - ((a + c) >> 1). *)
Definition predict53 (a b c : Z) : Z := b - Z.shiftr (a + c) 1.
Lemma hh1_strict : forall p x00 x01 x02 x10 x11 x12 x20 x21 x22,
  1 <= p ->
  (forall x, In x [x00; x01; x02; x10; x11; x12; x20; x21; x22] -> - 2 ^ (p - 1) <= x <= 2 ^ (p - 1) - 1) ->
  let d0 := predict53 x00 x01 x02 in let d1 := predict53 x10 x11 x12 in let d2 := predict53 x20 x21 x22 in
  Z.abs (predict53 d0 d1 d2) <= 2 ^ (p + 1) - 2.
Proof.
  intros p x00 x01 x02 x10 x11 x12 x20 x21 x22 Hp Hx. cbv zeta.
  assert (E1 : 2 ^ (p + 1) = 4 * 2 ^ (p - 1)).
  { replace (p + 1) with (2 + (p - 1)) by ring. rewrite Z.pow_add_r by lia. reflexivity. }
  rewrite E1. set (M := 2 ^ (p - 1)) in *.
  assert (HM : 1 <= M) by (unfold M; assert (0 < 2 ^ (p - 1)) by (apply Z.pow_pos_nonneg; lia); lia).
  pose proof (Hx x00 ltac:(simpl; tauto)). pose proof (Hx x01 ltac:(simpl; tauto)).
  pose proof (Hx x02 ltac:(simpl; tauto)). pose proof (Hx x10 ltac:(simpl; tauto)).
  pose proof (Hx x11 ltac:(simpl; tauto)). pose proof (Hx x12 ltac:(simpl; tauto)).
  pose proof (Hx x20 ltac:(simpl; tauto)). pose proof (Hx x21 ltac:(simpl; tauto)).
  pose proof (Hx x22 ltac:(simpl; tauto)).
  unfold predict53. rewrite !Z.shiftr_div_pow2 by lia. change (2 ^ 1) with 2.
  clearbody M. clear Hx E1.
  apply Z.abs_le. split; Z.div_mod_to_equations; lia.
Qed.

(* historical unit-gain defect, replayed on the model of the word conversion *)
Example kmax_unit_gain_historical :
  let P := 8 in let old_kmax := P + 0 - 1 + ht_guard_bits - 1 in
  old_kmax = 7 /\ mag_bits (-128) = 8 /\
  ht_sample_pack old_kmax (-128) = 2147483648 /\ ht_sample_unpack old_kmax (ht_sample_pack old_kmax (-128)) = 0 /\
  kmax_of 0 8 false 0 = 8 /\ ht_sample_unpack 8 (ht_sample_pack 8 (-128)) = -128.
Proof. vm_compute. repeat split. Qed.

(* 2c. consistency of the three derivations *)
Definition kmax_consistent_cell (P : Z) (rct : bool) (L res band : Z) : bool :=
  let qcd := qcd_rev_bytes L P rct in
  let k := enc_band_numbps L P rct res band in
  let idx := subband_index L res band in
  forallb is_byte qcd &&
  (if idx <? 0 then (k =? 0) && match dec_band_numbps qcd L res band with None => true | Some _ => false end
   else
     (k =? kmax_of L P rct idx) &&
     match dec_band_numbps qcd L res band with
     | Some d => (d =? k) && ht_kmax_ok k &&
                 forallb (fun cb => let '(np, zbp) := ht_pass_layout cb k in
                                    (zbp =? k - 1) && (ht_missing_msbs true zbp d =? k - 1) &&
                                    (ht_missing_msbs false 0 d =? k - 1) &&
                                    (ht_dec_p (ht_missing_msbs true zbp d) =? ht_enc_p k) &&
                                    (np =? (if cb =? 0 then 0 else 1))) (zrange 0 31)
     | None => false
     end).

Lemma kmax_consistent_cells : forall rct,
  forallb (fun P => forallb (fun L => forallb (fun res => forallb (kmax_consistent_cell P rct L res)
     (zrange (-1) 4)) (zrange (-1) 7)) (zrange 0 6)) (zrange 1 16) = true.
Proof. intros [|]; vm_compute; reflexivity. Qed.

(* kmax_consistent: for every precision 1..16 (with and without the RCT bit), level count 0..6
   and every (resolution, band) pair — valid or not (res -1..7, band -1..4 are all covered) —
   the number the encoder hands to the block coder (bandNumbps -> SetKMax), the QCD bytes it
   writes (each a byte, so nothing is lost by uint8()), the number the decoder derives from those
   bytes (bandNumbpsFromQCD), the zero-bit-plane count the encoder puts in the packet header
   (Kmax-1) and the missing-MSB count the decoder passes on (htj2kMissingMSBs, with or without a
   signalled value) agree, 0 < Kmax < 31, and both sides compute the same p = 31 - Kmax. *)
Theorem kmax_consistent : forall P rct L res band cb,
  1 <= P <= 16 -> 0 <= L <= 6 -> -1 <= res <= 7 -> -1 <= band <= 4 -> 0 <= cb <= 31 ->
  let qcd := qcd_rev_bytes L P rct in
  let k := enc_band_numbps L P rct res band in
  Forall (fun b => 0 <= b < 256) qcd /\
  (subband_index L res band < 0 -> k = 0 /\ dec_band_numbps qcd L res band = None) /\
  (0 <= subband_index L res band ->
     k = kmax_of L P rct (subband_index L res band) /\
     dec_band_numbps qcd L res band = Some k /\ ht_kmax_ok k = true /\
     snd (ht_pass_layout cb k) = k - 1 /\
     ht_missing_msbs true (snd (ht_pass_layout cb k)) k = k - 1 /\
     ht_missing_msbs false 0 k = k - 1 /\
     ht_dec_p (ht_missing_msbs true (snd (ht_pass_layout cb k)) k) = ht_enc_p k).
Proof.
  intros P rct L res band cb HP HL Hr Hb Hcb. cbv zeta.
  pose proof (proj1 (forallb_forall _ _) (kmax_consistent_cells rct) P (In_zrange 1 16 P HP)) as H1. cbv beta in H1.
  pose proof (proj1 (forallb_forall _ _) H1 L (In_zrange 0 6 L HL)) as H2. cbv beta in H2.
  pose proof (proj1 (forallb_forall _ _) H2 res (In_zrange (-1) 7 res Hr)) as H3. cbv beta in H3.
  pose proof (proj1 (forallb_forall _ _) H3 band (In_zrange (-1) 4 band Hb)) as H4.
  unfold kmax_consistent_cell in H4. apply andb_prop in H4. destruct H4 as [Hbytes H4].
  split.
  { apply Forall_forall. intros b Hin. pose proof (proj1 (forallb_forall _ _) Hbytes b Hin) as Hb1.
    unfold is_byte in Hb1. apply andb_prop in Hb1. destruct Hb1. b2p. lia. }
  destruct (Z.ltb_spec (subband_index L res band) 0) as [Hneg|Hpos].
  - split; [|lia]. intros _. apply andb_prop in H4. destruct H4 as [Hk Hd]. b2p.
    split; [exact Hk|]. destruct (dec_band_numbps _ _ _ _); [discriminate|reflexivity].
  - split; [lia|]. intros _. apply andb_prop in H4. destruct H4 as [Hk Hd]. b2p.
    destruct (dec_band_numbps _ _ _ _) as [d|]; [|discriminate].
    apply andb_prop in Hd. destruct Hd as [Hd Hall]. apply andb_prop in Hd. destruct Hd as [Hdk Hok]. b2p. subst d.
    pose proof (proj1 (forallb_forall _ _) Hall cb (In_zrange 0 31 cb Hcb)) as Hc. cbv beta in Hc.
    destruct (ht_pass_layout cb _) as [np zbp] eqn:El. cbn [snd].
    repeat (apply andb_prop in Hc; destruct Hc as [Hc ?]). b2p. subst zbp.
    repeat split; try assumption; try reflexivity.
Qed.

(* =====================================================================================
   3. coefficient <-> sign-magnitude word (shift = 31 - Kmax): exact iff the magnitude fits Kmax
   ===================================================================================== *)
Lemma land_pow2_small : forall x n, 0 <= n -> 0 <= x < 2 ^ n -> Z.land x (2 ^ n) = 0.
Proof.
  intros x n Hn Hx. apply Z.bits_inj'. intros m Hm.
  rewrite Z.land_spec, Z.pow2_bits_eqb, Z.bits_0 by lia.
  destruct (Z.eqb_spec n m) as [->|]; [|apply andb_false_r].
  destruct (Z.eq_dec x 0) as [->|]; [rewrite Z.bits_0; reflexivity|].
  rewrite Z.bits_above_log2; [reflexivity|lia|]. apply Z.log2_lt_pow2; lia.
Qed.

Lemma wrapS32_small : forall x, - 2 ^ 31 <= x < 2 ^ 31 -> wrapS 32 x = x.
Proof.
  intros x Hx. unfold wrapS. change (2 ^ 32) with 4294967296 in *. change (2 ^ (32 - 1)) with 2147483648 in *.
  change (2 ^ 31) with 2147483648 in *.
  destruct (Z_lt_le_dec x 0).
  - assert (E : x mod 4294967296 = x + 4294967296) by (symmetry; apply Z.mod_unique with (q := -1); lia).
    rewrite E. destruct (Z.ltb_spec (x + 4294967296) 2147483648); lia.
  - rewrite Z.mod_small by lia. destruct (Z.ltb_spec x 2147483648); lia.
Qed.

Theorem ht_sample_roundtrip : forall kmax v, 1 <= kmax <= 30 -> Z.abs v < 2 ^ kmax ->
  ht_sample_unpack kmax (ht_sample_pack kmax v) = v.
Proof.
  intros kmax v Hk Hv.
  set (s := 31 - kmax). assert (Hs : 1 <= s <= 30) by (unfold s; lia).
  assert (Hp31 : 2 ^ 31 = 2 ^ kmax * 2 ^ s) by (unfold s; rewrite <- Z.pow_add_r by lia; f_equal; lia).
  assert (Hk30 : 2 ^ kmax <= 2 ^ 30) by (apply Z.pow_le_mono_r; lia).
  assert (Hs0 : 0 < 2 ^ s) by (apply Z.pow_pos_nonneg; lia).
  change (2 ^ 30) with 1073741824 in Hk30.
  unfold ht_sample_pack, ht_sample_unpack. fold s.
  set (mag := Z.abs v) in *.
  assert (Emag : (if v <? 0 then wrapS 32 (- v) else v) = mag).
  { unfold mag. destruct (Z.ltb_spec v 0).
    - rewrite wrapS32_small by (change (2 ^ 31) with 2147483648; lia). lia.
    - lia. }
  rewrite Emag.
  assert (Hm32 : wrapU 32 mag = mag) by (unfold wrapU; apply Z.mod_small; change (2 ^ 32) with 4294967296; lia).
  rewrite Hm32. rewrite Z.shiftl_mul_pow2 by lia.
  assert (Hx : 0 <= mag * 2 ^ s < 2 ^ 31) by (rewrite Hp31; nia).
  assert (Hx32 : wrapU 32 (mag * 2 ^ s) = mag * 2 ^ s).
  { unfold wrapU; apply Z.mod_small. change (2 ^ 32) with (2 * 2 ^ 31). lia. }
  rewrite Hx32. set (x := mag * 2 ^ s) in *.
  change 2147483647 with (Z.ones 31). change 2147483648 with (2 ^ 31).
  destruct (Z.ltb_spec v 0) as [Hneg|Hpos].
  - rewrite !Z.land_lor_distr_l.
    rewrite (Z.land_ones x) by lia. rewrite (Z.mod_small x) by lia.
    rewrite (Z.land_ones (2 ^ 31)) by lia. rewrite Z.mod_same by lia. rewrite Z.lor_0_l.
    rewrite Z.land_diag, (land_pow2_small x 31) by lia. rewrite Z.lor_0_r.
    change (2 ^ 31 =? 0) with false. cbn [negb].
    rewrite Z.shiftr_div_pow2 by lia. unfold x. rewrite Z.div_mul by lia. unfold mag. lia.
  - rewrite !Z.lor_0_l.
    rewrite (Z.land_ones x) by lia. rewrite (Z.mod_small x) by lia.
    rewrite (land_pow2_small x 31) by lia. rewrite Z.eqb_refl. cbn [negb].
    rewrite Z.shiftr_div_pow2 by lia. unfold x. rewrite Z.div_mul by lia. unfold mag. lia.
Qed.

(* =====================================================================================
   4. Scup locator
   ===================================================================================== *)
(* arithmetic core, decided over the whole domain: every legal Scup x every previous byte *)
Definition scup_arith_ok (scup prev : Z) : bool :=
  let last' := wrapU 8 (Z.shiftr scup 4) in
  let prev' := Z.lor (Z.land prev 240) (wrapU 8 (Z.land scup 15)) in
  is_byte last' && is_byte prev' &&
  (Z.lor (Z.shiftl last' 4) (Z.land prev' 15) =? scup) && (Z.land prev' 240 =? Z.land prev 240).
Lemma scup_arith : forall scup prev, 0 <= scup <= 4079 -> 0 <= prev < 256 -> scup_arith_ok scup prev = true.
Proof.
  intros scup prev Hs Hp.
  assert (H : forallb (fun s => forallb (scup_arith_ok s) (zseq 256)) (zseq 4080) = true) by (vm_compute; reflexivity).
  pose proof (proj1 (forallb_forall _ _) H scup (In_zseq 4080 scup ltac:(change (Z.of_nat 4080) with 4080; lia))) as H1.
  cbv beta in H1.
  exact (proj1 (forallb_forall _ _) H1 prev (In_zseq 256 prev ltac:(change (Z.of_nat 256) with 256; lia))).
Qed.

Lemma znth_app_r : forall (l1 l2 : list Z) i d, zlen l1 <= i -> znth (l1 ++ l2) i d = znth l2 (i - zlen l1) d.
Proof.
  intros l1 l2 i d Hi. unfold znth, zlen in *.
  destruct (Z.ltb_spec i 0); [lia|]. destruct (Z.ltb_spec (i - Z.of_nat (length l1)) 0); [lia|].
  rewrite app_nth2 by lia. f_equal. lia.
Qed.

(* scup_roundtrip: for every block of at least 2 bytes and every legal Scup (2 <= Scup <= len,
   Scup <= 4079) the decoder's parseStandardSegments, applied to the block after
   writeScupLocator, accepts it and splits it exactly Scup bytes from the end; the writer changes
   only the last byte and the low nibble of the second-last byte. *)
Theorem scup_roundtrip : forall pre prev last scup,
  0 <= prev < 256 ->
  let block := pre ++ [prev; last] in
  2 <= scup <= zlen block -> scup <= 4079 ->
  let block' := scup_write block scup in
  exists prev' last', block' = pre ++ [prev'; last'] /\
    Z.land prev' 240 = Z.land prev 240 /\ 0 <= prev' < 256 /\ 0 <= last' < 256 /\
    scup_parse block' = Ok (firstn (Z.to_nat (zlen block - scup)) block',
                            skipn (Z.to_nat (zlen block - scup)) block') /\
    zlen (skipn (Z.to_nat (zlen block - scup)) block') = scup.
Proof.
  intros pre prev last scup Hprev block Hs H4079 block'.
  pose proof (scup_arith scup prev ltac:(lia) Hprev) as Ha. unfold scup_arith_ok in Ha.
  set (last' := wrapU 8 (Z.shiftr scup 4)) in *.
  set (prev' := Z.lor (Z.land prev 240) (wrapU 8 (Z.land scup 15))) in *.
  repeat (apply andb_prop in Ha; destruct Ha as [Ha ?]).
  unfold is_byte in *. repeat match goal with H : (_ && _) = true |- _ => apply andb_prop in H; destruct H end. b2p.
  assert (Eb : block' = pre ++ [prev'; last']).
  { unfold block', scup_write, block. rewrite rev_app_distr. cbn [rev app scup_write_rev].
    fold last' prev'. cbn [rev app]. rewrite rev_involutive. rewrite <- app_assoc. reflexivity. }
  exists prev', last'. split; [exact Eb|]. split; [assumption|]. split; [lia|]. split; [lia|].
  assert (Elen : zlen block' = zlen block).
  { rewrite Eb. unfold block, zlen. rewrite !app_length. reflexivity. }
  assert (Elen2 : zlen block = zlen pre + 2).
  { unfold block, zlen. rewrite app_length. cbn [length]. lia. }
  split.
  - unfold scup_parse. rewrite Elen.
    destruct (Z.ltb_spec (zlen block) 2); [lia|].
    assert (E1 : znth block' (zlen block - 1) 0 = last').
    { rewrite Eb, znth_app_r by lia. replace (zlen block - 1 - zlen pre) with 1 by lia. reflexivity. }
    assert (E2 : znth block' (zlen block - 2) 0 = prev').
    { rewrite Eb, znth_app_r by lia. replace (zlen block - 2 - zlen pre) with 0 by lia. reflexivity. }
    rewrite E1, E2.
    match goal with H : Z.lor (Z.shiftl last' 4) (Z.land prev' 15) = scup |- _ => rewrite H end.
    destruct (Z.ltb_spec scup 2); [lia|]. destruct (Z.gtb_spec scup (zlen block)); [lia|].
    destruct (Z.gtb_spec scup 4079); [lia|]. cbn [orb]. reflexivity.
  - unfold zlen. rewrite skipn_length. fold (zlen block'). unfold zlen in *. lia.
Qed.
