(* HT cleanup pass, VLC byte stream: what ojphVLCWriter writes (growing backwards, 7 bits in a byte
   that follows a byte > 0x8F when they are all ones) is what reverseBitReader reads. *)
From V Require Import Common.Base HT.HtUvlc HT.HtBlockBits HT.HtBitLemmas HT.HtBlockProofsMs.

Definition ublen (u : bool) (b : Z) : Z := if u && (Z.land b 127 =? 127) then 7 else 8.
Fixpoint nb (l : list Z) (u : bool) : Z :=
  match l with [] => 0 | b :: r => ublen u b + nb r (b >? 143) end.
Fixpoint uflag (l : list Z) (u : bool) : bool :=
  match l with [] => u | b :: r => uflag r (b >? 143) end.
Fixpoint ok7 (l : list Z) (u : bool) : Prop :=
  match l with [] => True | b :: r => (ublen u b = 7 -> b = 127) /\ ok7 r (b >? 143) end.

Lemma ublen_range : forall u b, 7 <= ublen u b <= 8.
Proof. intros. unfold ublen. destruct (u && _); lia. Qed.
Lemma nb_nonneg : forall l u, 0 <= nb l u.
Proof. induction l as [|b l IH]; intro u; cbn [nb]; [lia|]. pose proof (ublen_range u b). pose proof (IH (b >? 143)). lia. Qed.

Lemma rev_bits_unfold : forall b r u,
  rev_bits (b :: r) u = Z.lor b (Z.shiftl (rev_bits r (b >? 143)) (ublen u b)).
Proof. reflexivity. Qed.

Lemma rev_bits_nonneg : forall l u, Forall is_byte_p l -> 0 <= rev_bits l u.
Proof.
  induction l as [|b l IH]; intros u H; [cbn; lia|]. inversion H as [|? ? Hb Hl]; subst.
  rewrite rev_bits_unfold. apply Z.lor_nonneg. split; [unfold is_byte_p in Hb; lia|].
  apply Z.shiftl_nonneg. apply IH. exact Hl.
Qed.

Lemma nb_app : forall l r u, nb (l ++ r) u = nb l u + nb r (uflag l u).
Proof. induction l as [|b l IH]; intros r u; cbn [app nb uflag]; [lia|]. rewrite IH. lia. Qed.
Lemma uflag_app : forall l r u, uflag (l ++ r) u = uflag r (uflag l u).
Proof. induction l as [|b l IH]; intros r u; cbn [app uflag]; [reflexivity|apply IH]. Qed.
Lemma ok7_app : forall l r u, ok7 (l ++ r) u <-> ok7 l u /\ ok7 r (uflag l u).
Proof.
  induction l as [|b l IH]; intros r u; cbn [app ok7 uflag]; [tauto|]. rewrite IH. tauto.
Qed.

Lemma rev_bits_app : forall l r u,
  rev_bits (l ++ r) u = Z.lor (rev_bits l u) (Z.shiftl (rev_bits r (uflag l u)) (nb l u)).
Proof.
  induction l as [|b l IH]; intros r u.
  - cbn [app rev_bits uflag nb]. rewrite Z.shiftl_0_r. reflexivity.
  - cbn [app uflag nb]. rewrite !rev_bits_unfold. rewrite IH.
    pose proof (ublen_range u b). pose proof (nb_nonneg l (b >? 143)).
    rewrite Z.shiftl_lor, Z.shiftl_shiftl by lia. rewrite Z.lor_assoc.
    f_equal. f_equal. lia.
Qed.

Lemma rev_bits_bound : forall l u, Forall is_byte_p l -> ok7 l u -> 0 <= rev_bits l u < 2 ^ nb l u.
Proof.
  induction l as [|b l IH]; intros u H Hok; [cbn; lia|].
  inversion H as [|? ? Hb Hl]; subst. destruct Hok as [H7 Hok].
  specialize (IH (b >? 143) Hl Hok). rewrite rev_bits_unfold. cbn [nb].
  pose proof (ublen_range u b) as Hr. pose proof (nb_nonneg l (b >? 143)).
  assert (Hbk : 0 <= b < 2 ^ ublen u b).
  { unfold is_byte_p in Hb. destruct (Z.eq_dec (ublen u b) 7) as [E|E].
    - rewrite E. rewrite (H7 E). change (2 ^ 7) with 128. lia.
    - assert (E8 : ublen u b = 8) by lia. rewrite E8. change (2 ^ 8) with 256. lia. }
  rewrite lor_shiftl_add by lia. rewrite Z.pow_add_r by lia.
  pose proof (pow2_pos (ublen u b) ltac:(lia)). nia.
Qed.

Lemma rev_bits_snoc : forall l x u, Forall is_byte_p l -> ok7 l u ->
  rev_bits (l ++ [x]) u = rev_bits l u + x * 2 ^ nb l u.
Proof.
  intros l x u H Hok. rewrite rev_bits_app. cbn [rev_bits]. rewrite Z.shiftl_0_l, Z.lor_0_r.
  apply lor_shiftl_add; [apply nb_nonneg|apply rev_bits_bound; assumption].
Qed.

(* low bits of "low part | (anything << k)" *)
Lemma lor_shiftl_mod : forall a r k j, 0 <= j <= k -> Z.lor a (Z.shiftl r k) mod 2 ^ j = a mod 2 ^ j.
Proof.
  intros a r k j H. rewrite <- !land_ones_mod by lia. rewrite Z.land_lor_distr_l.
  assert (E : Z.land (Z.shiftl r k) (Z.ones j) = 0).
  { apply Z.bits_inj'. intros i Hi. rewrite Z.land_spec, Z.bits_0.
    destruct (Z.ltb_spec i j).
    - rewrite Z.shiftl_spec_low by lia. reflexivity.
    - rewrite Z.ones_spec_high by lia. apply andb_false_r. }
  rewrite E, Z.lor_0_r. reflexivity.
Qed.

(* ---------- the writer ---------- *)
Definition vlw_zero : vlw := mk_vlw [255] 0 0 true.
Lemma vlw_init_eq : vlw_init = vlw_bits 4 vlw_zero 15.
Proof. reflexivity. Qed.

Definition VW (s : vlw) (B : list Z) : Prop :=
  exists closed, vw2_buf s = rev closed ++ [255] /\ Forall is_byte_p closed /\ ok7 closed true /\ is_bits B /\
    bits_val B = rev_bits closed true + vw2_tmp s * 2 ^ nb closed true /\
    Z.of_nat (length B) = nb closed true + vw2_used s /\ 0 <= vw2_tmp s < 2 ^ vw2_used s /\ 0 <= vw2_used s /\
    ((vw2_last s = true /\ uflag closed true = true /\ vw2_used s <= 6) \/
     (vw2_last s = false /\ uflag closed true = false /\ vw2_used s <= 7) \/
     (vw2_last s = false /\ uflag closed true = true /\ vw2_used s = 7 /\ vw2_tmp s <> 127)).

Lemma VW_zero : VW vlw_zero [].
Proof.
  exists []. cbn [vlw_zero vw2_buf vw2_used vw2_tmp vw2_last rev app rev_bits nb uflag ok7 bits_val length].
  split; [reflexivity|]. split; [constructor|]. split; [exact I|]. split; [constructor|].
  split; [reflexivity|]. split; [reflexivity|]. split; [change (2 ^ 0) with 1; lia|]. split; [lia|].
  left. repeat split; lia.
Qed.

Lemma VW_bit : forall s B b, VW s B -> (b = 0 \/ b = 1) -> VW (vlw_bit s b) (B ++ [b]).
Proof.
  intros s B b [closed [Hbuf [Hcl [Hok [HB [Hval [Hlen [Htmp [Hu0 Hcase]]]]]]]]] Hb.
  pose proof (nb_nonneg closed true) as Hnb. pose proof (pow2_pos (nb closed true) Hnb) as Hpn.
  pose proof (pow2_pos (vw2_used s) Hu0) as Hpu.
  assert (Etmp : Z.lor (vw2_tmp s) (Z.shiftl b (vw2_used s)) = vw2_tmp s + b * 2 ^ vw2_used s)
    by (apply lor_shiftl_add; lia).
  set (t' := vw2_tmp s + b * 2 ^ vw2_used s) in *.
  assert (Ht' : 0 <= t' < 2 ^ (vw2_used s + 1)).
  { unfold t'. rewrite Z.pow_add_r by lia. change (2 ^ 1) with 2. destruct Hb; subst b; lia. }
  assert (HvalB : bits_val (B ++ [b]) = rev_bits closed true + t' * 2 ^ nb closed true).
  { rewrite bits_val_app. cbn [bits_val]. rewrite Hval, Hlen, Z.pow_add_r by lia. unfold t'. ring. }
  assert (HBb : is_bits (B ++ [b])) by (apply is_bits_app; [exact HB|constructor; [exact Hb|constructor]]).
  assert (HlenB : Z.of_nat (length (B ++ [b])) = nb closed true + (vw2_used s + 1)) by (rewrite app_length; cbn [length]; lia).
  (* closing the byte t' : the new closed list *)
  assert (Hclose : forall k, ublen (uflag closed true) t' = k -> vw2_used s + 1 = k -> 0 <= t' < 256 ->
            (k = 7 -> t' = 127) ->
            VW (mk_vlw (wrapU 8 t' :: vw2_buf s) 0 0 (t' >? 143)) (B ++ [b])).
  { intros k Hk Hused Hb256 H7.
    assert (Ew : wrapU 8 t' = t') by (unfold wrapU; apply Z.mod_small; change (2 ^ 8) with 256; lia).
    exists (closed ++ [t']). rewrite Ew. cbn [vw2_buf vw2_used vw2_tmp vw2_last].
    split; [rewrite rev_app_distr, Hbuf; reflexivity|].
    split; [apply Forall_app; split; [exact Hcl|constructor; [exact Hb256|constructor]]|].
    split; [apply ok7_app; split; [exact Hok|cbn [ok7]; split; [intro E; apply H7; lia|exact I]]|].
    split; [exact HBb|].
    rewrite nb_app, uflag_app. cbn [nb uflag]. rewrite Hk.
    split; [rewrite rev_bits_snoc by assumption; rewrite HvalB; ring|].
    split; [rewrite HlenB; lia|]. split; [change (2 ^ 0) with 1; lia|]. split; [lia|].
    destruct (t' >? 143); [left|right; left]; repeat split; lia. }
  unfold vlw_bit. rewrite Etmp. fold t'.
  destruct Hcase as [[Hl [Hu Hus]]|[[Hl [Hu Hus]]|[Hl [Hu [Hus Hne]]]]]; rewrite Hl.
  - (* limit 7 *)
    replace (8 - 1 - (vw2_used s + 1)) with (6 - vw2_used s) by ring.
    destruct (Z.eqb_spec (6 - vw2_used s) 0) as [E6|E6].
    + assert (Eu : vw2_used s = 6) by lia. rewrite Eu in Ht'. change (2 ^ (6 + 1)) with 128 in Ht'.
      cbn [andb]. destruct (Z.eqb_spec t' 127) as [E127|N127]; cbn [negb].
      * apply (Hclose 7); [rewrite Hu, E127; reflexivity|lia|lia|auto].
      * exists closed. cbn [vw2_buf vw2_used vw2_tmp vw2_last].
        split; [exact Hbuf|]. split; [exact Hcl|]. split; [exact Hok|]. split; [exact HBb|].
        split; [exact HvalB|]. split; [exact HlenB|]. rewrite Eu. split; [change (2 ^ (6 + 1)) with 128; lia|].
        split; [lia|]. right; right. repeat split; try lia; assumption.
    + exists closed. cbn [vw2_buf vw2_used vw2_tmp vw2_last].
      split; [exact Hbuf|]. split; [exact Hcl|]. split; [exact Hok|]. split; [exact HBb|].
      split; [exact HvalB|]. split; [exact HlenB|]. split; [exact Ht'|]. split; [lia|].
      left. repeat split; try assumption; lia.
  - (* limit 8, previous byte <= 0x8F *)
    replace (8 - 0 - (vw2_used s + 1)) with (7 - vw2_used s) by ring.
    destruct (Z.eqb_spec (7 - vw2_used s) 0) as [E7|E7].
    + assert (Eu : vw2_used s = 7) by lia. rewrite Eu in Ht'. change (2 ^ (7 + 1)) with 256 in Ht'.
      cbn [andb]. apply (Hclose 8); [rewrite Hu; reflexivity|lia|lia|lia].
    + exists closed. cbn [vw2_buf vw2_used vw2_tmp vw2_last].
      split; [exact Hbuf|]. split; [exact Hcl|]. split; [exact Hok|]. split; [exact HBb|].
      split; [exact HvalB|]. split; [exact HlenB|]. split; [exact Ht'|]. split; [lia|].
      right; left. repeat split; try assumption; lia.
  - (* limit lifted to 8: the eighth bit *)
    rewrite Hus. change (8 - 0 - (7 + 1) =? 0) with true. cbn [andb].
    rewrite Hus in Ht', Htmp. change (2 ^ (7 + 1)) with 256 in Ht'. change (2 ^ 7) with 128 in Htmp.
    apply (Hclose 8); [|lia|lia|lia].
    rewrite Hu. unfold ublen. cbn [andb].
    assert (Em : Z.land t' 127 = vw2_tmp s).
    { change 127 with (Z.ones 7). rewrite Z.land_ones by lia. unfold t'. rewrite Hus. apply mod_add_pow2; [lia|]. change (2 ^ 7) with 128. lia. }
    rewrite Em. destruct (Z.eqb_spec (vw2_tmp s) 127); [contradiction|reflexivity].
Qed.

Lemma vlw_bits_fold : forall n s v, vlw_bits n s v = fold_left vlw_bit (lsb_bits n v) s.
Proof. induction n; intros s v; cbn [vlw_bits lsb_bits fold_left]; [reflexivity|apply IHn]. Qed.

Lemma VW_bits_list : forall l s B, VW s B -> is_bits l -> VW (fold_left vlw_bit l s) (B ++ l).
Proof.
  induction l as [|b l IH]; intros s B H Hl.
  - cbn. rewrite app_nil_r. exact H.
  - inversion Hl as [|? ? Hb Hl']; subst. cbn [fold_left].
    replace (B ++ b :: l) with ((B ++ [b]) ++ l) by (rewrite <- app_assoc; reflexivity).
    apply IH; [apply VW_bit; assumption|exact Hl'].
Qed.

Lemma VW_calls : forall calls s B, VW s B -> VW (fold_left vlw_encode calls s) (B ++ call_bits calls).
Proof.
  induction calls as [|c calls IH]; intros s B H.
  - cbn. rewrite app_nil_r. exact H.
  - cbn [fold_left call_bits flat_map]. rewrite app_assoc. apply IH.
    unfold vlw_encode. rewrite vlw_bits_fold. apply VW_bits_list; [exact H|apply lsb_bits_is_bits].
Qed.

Lemma VW_init : VW vlw_init [1; 1; 1; 1].
Proof.
  rewrite vlw_init_eq, vlw_bits_fold. apply (VW_bits_list (lsb_bits 4 15) vlw_zero [] VW_zero).
  apply lsb_bits_is_bits.
Qed.

(* ---------- termination: where the open VLC byte ends up ---------- *)
From V Require Import HT.HtMel.

Lemma xor_mask_mod : forall a b n, 0 <= n -> Z.land (Z.lxor a b) (Z.shiftr 255 (8 - n)) = 0 -> n <= 8 ->
  a mod 2 ^ n = b mod 2 ^ n.
Proof.
  intros a b n Hn H H8.
  assert (Em : Z.shiftr 255 (8 - n) = Z.ones n).
  { assert (C : n = 0 \/ n = 1 \/ n = 2 \/ n = 3 \/ n = 4 \/ n = 5 \/ n = 6 \/ n = 7 \/ n = 8) by lia.
    destruct C as [->|[->|[->|[->|[->|[->|[->|[->| ->]]]]]]]]; reflexivity. }
  rewrite Em in H. rewrite <- !land_ones_mod by lia.
  apply Z.bits_inj'. intros i Hi. rewrite !Z.land_spec.
  destruct (Z.ltb_spec i n).
  - assert (Hb : Z.testbit (Z.land (Z.lxor a b) (Z.ones n)) i = false) by (rewrite H; apply Z.bits_0).
    rewrite Z.land_spec, Z.lxor_spec, Z.ones_spec_low in Hb by lia. rewrite andb_true_r in Hb.
    rewrite Z.ones_spec_low by lia. rewrite !andb_true_r.
    destruct (Z.testbit a i), (Z.testbit b i); cbn in Hb; congruence.
  - rewrite Z.ones_spec_high by lia. rewrite !andb_false_r. reflexivity.
Qed.

Lemma terminate_vlc_cases : forall s vt vu more, 0 <= vt -> 0 <= vu <= 7 ->
  let r := ojph_mel_terminate s vt vu more in
  (vu = 0 /\ snd r = None) \/
  (snd r = None /\ more = true /\ exists X G, rev (fst r) = X :: G /\ 0 <= X < 256 /\ X mod 2 ^ vu = vt mod 2 ^ vu) \/
  (snd r = Some (wrapU 8 vt)).
Proof.
  intros s vt vu more Hvt Hvu. cbv zeta. unfold ojph_mel_terminate.
  set (sf := if mw_run s >? 0 then melw_emit s 1 else s).
  set (mtmp := Z.shiftl (mw_tmp sf) (mw_rem sf)).
  set (melMask := Z.land (Z.shiftl 255 (mw_rem sf)) 255).
  destruct (Z.gtb_spec vu 0) as [Hpos|Hz].
  - destruct (Z.lor melMask (Z.shiftr 255 (8 - vu)) =? 0) eqn:Em.
    + apply Z.eqb_eq in Em. apply Z.lor_eq_0_iff in Em. destruct Em as [_ Em].
      exfalso.
      assert (C : vu = 1 \/ vu = 2 \/ vu = 3 \/ vu = 4 \/ vu = 5 \/ vu = 6 \/ vu = 7) by lia.
      destruct C as [->|[->|[->|[->|[->|[->| ->]]]]]]; vm_compute in Em; discriminate.
    + match goal with |- context [if ?c then _ else _] => destruct c eqn:Ec end.
      * right; left. cbn [fst snd]. apply andb_prop in Ec. destruct Ec as [Ec Hmore].
        apply andb_prop in Ec. destruct Ec as [Ec _]. apply Z.eqb_eq in Ec.
        apply Z.lor_eq_0_iff in Ec. destruct Ec as [_ Ev].
        split; [reflexivity|]. split; [exact Hmore|].
        exists (wrapU 8 (Z.lor mtmp vt)), (mw_buf sf).
        split; [rewrite rev_involutive; reflexivity|].
        split; [unfold wrapU; change (2 ^ 8) with 256; apply Z.mod_pos_bound; lia|].
        pose proof (xor_mask_mod (Z.lor mtmp vt) vt vu ltac:(lia) Ev ltac:(lia)) as Hx.
        rewrite <- Hx. unfold wrapU.
        assert (E8 : 2 ^ 8 = 2 ^ vu * 2 ^ (8 - vu)) by (rewrite <- Z.pow_add_r by lia; f_equal; lia).
        rewrite E8. rewrite Z.rem_mul_r by (try apply Z.pow_nonzero; try apply pow2_pos; lia).
        rewrite Z.mul_comm, Z.mod_add by (apply Z.pow_nonzero; lia). apply Z.mod_mod. apply Z.pow_nonzero; lia.
      * right; right. reflexivity.
  - assert (vu = 0) by lia. subst vu.
    destruct (Z.lor melMask 0 =? 0).
    + left. split; reflexivity.
    + match goal with |- context [if ?c then _ else _] => destruct c eqn:Ec end.
      * left. split; reflexivity.
      * right; right. reflexivity.
Qed.

Definition zseq16 : list Z := map Z.of_nat (seq 0 16).
Definition zseq256 : list Z := map Z.of_nat (seq 0 256).

(* low nibble patch of the byte that carries Scup *)
Lemma patch_facts : forall d nib, 0 <= d < 256 -> 0 <= nib < 16 -> d mod 16 = 15 ->
  let d' := Z.lor (Z.land d 240) nib in
  Z.shiftr d' 4 = Z.shiftr d 4 /\ Z.lor d' 15 = d /\
  (Z.land (Z.shiftr d 4) 7 =? 7) = (Z.land d 127 =? 127).
Proof.
  intros d nib Hd Hn Hm.
  assert (H : forallb (fun d => forallb (fun nib => implb (d mod 16 =? 15)
            (let d' := Z.lor (Z.land d 240) nib in
             (Z.shiftr d' 4 =? Z.shiftr d 4) && (Z.lor d' 15 =? d) &&
             Bool.eqb (Z.land (Z.shiftr d 4) 7 =? 7) (Z.land d 127 =? 127))) (zseq16)) (zseq256) = true)
    by (vm_compute; reflexivity).
  pose proof (proj1 (forallb_forall _ _) H d) as H1.
  assert (Hin : In d zseq256).
  { unfold zseq256. replace d with (Z.of_nat (Z.to_nat d)) by lia. apply in_map. apply in_seq. lia. }
  specialize (H1 Hin). cbv beta in H1.
  pose proof (proj1 (forallb_forall _ _) H1 nib) as H2.
  assert (Hin2 : In nib zseq16).
  { unfold zseq16. replace nib with (Z.of_nat (Z.to_nat nib)) by lia. apply in_map. apply in_seq. lia. }
  specialize (H2 Hin2). rewrite Hm, Z.eqb_refl in H2. cbn [implb] in H2. cbv zeta in *.
  apply andb_prop in H2. destruct H2 as [H2 H3]. apply andb_prop in H2. destruct H2 as [H2a H2b].
  apply Z.eqb_eq in H2a, H2b. apply Bool.eqb_prop in H3. auto.
Qed.

Lemma rev_stream_unfold : forall l' d' before,
  rev_stream (rev (l' :: d' :: before)) =
  Z.lor (Z.shiftr d' 4)
        (Z.shiftl (rev_bits before (Z.lor d' 15 >? 143)) (if Z.land (Z.shiftr d' 4) 7 =? 7 then 3 else 4)).
Proof. intros. unfold rev_stream. rewrite rev_involutive. reflexivity. Qed.

Lemma mod_split_pow2 : forall A x n k, 0 <= n -> 0 <= k -> 0 <= A < 2 ^ n ->
  (A + x * 2 ^ n) mod 2 ^ (n + k) = A + (x mod 2 ^ k) * 2 ^ n.
Proof.
  intros A x n k Hn Hk HA. pose proof (pow2_pos n Hn). pose proof (pow2_pos k Hk).
  rewrite Z.pow_add_r by lia.
  rewrite (Z.rem_mul_r (A + x * 2 ^ n) (2 ^ n) (2 ^ k)) by lia.
  rewrite mod_add_pow2, div_add_pow2 by lia. ring.
Qed.

(* The VLC stream theorem.  calls = every (codeword, length) the encoder hands to ojphVLCWriter;
   s = the MEL writer at termination; seg' = the cleanup segment MEL ++ VLC after writeScupLocator
   patched its last byte and the low nibble of the byte before.  The reverse reader then sees the
   bits of the calls, in order, followed by something (tail). *)
Theorem vlc_stream_roundtrip : forall calls s seg' l' nib,
  let vs := fold_left vlw_encode calls vlw_init in
  let r := ojph_mel_terminate s (vw2_tmp vs) (vw2_used vs) (1 <? zlen (vw2_buf vs)) in
  let vlcd := match snd r with Some b => b :: vlw_bytes vs | None => vlw_bytes vs end in
  Forall is_byte_p (fst r) ->
  0 <= nib < 16 ->
  (2 <= length vlcd)%nat /\
  ((forall lastb d before, rev (fst r ++ vlcd) = lastb :: d :: before ->
     rev seg' = l' :: Z.lor (Z.land d 240) nib :: before) ->
   exists tail, 0 <= tail /\
    rev_stream seg' = bits_val (call_bits calls) + tail * 2 ^ Z.of_nat (length (call_bits calls))).
Proof.
  intros calls s seg' l' nib vs r vlcd Hmel Hnib.
  destruct (VW_calls calls vlw_init [1; 1; 1; 1] VW_init) as
    [closed [Hbuf [Hcl [Hok [HB [Hval [Hlen [Htmp [Hu0 Hcase]]]]]]]]]. fold vs in Hbuf, Hval, Hlen, Htmp, Hu0, Hcase.
  set (cb := call_bits calls) in *.
  assert (Hu7 : vw2_used vs <= 7) by (destruct Hcase as [[_ [_ ?]]|[[_ [_ ?]]|[_ [_ [? _]]]]]; lia).
  pose proof (nb_nonneg closed true) as Hnb. pose proof (pow2_pos (nb closed true) Hnb) as Hpn.
  pose proof (rev_bits_bound closed true Hcl Hok) as HA.
  pose proof (terminate_vlc_cases s (vw2_tmp vs) (vw2_used vs) (1 <? zlen (vw2_buf vs)) ltac:(lia) ltac:(lia)) as Hc.
  fold r in Hc. cbv zeta in Hc.
  (* the bytes in reading order: closed, then R, whose first `used` bits are the open byte *)
  assert (HR : exists R, rev (fst r ++ vlcd) = 255 :: closed ++ R /\ Forall is_byte_p R /\
                 (forall u, rev_bits R u mod 2 ^ vw2_used vs = vw2_tmp vs) /\
                 (2 <= length vlcd)%nat).
  { unfold vlcd, vlw_bytes. destruct Hc as [[Hz Hn]|[[Hn [Hm [X [G [HG [HX HXm]]]]]]|Hs]].
    - rewrite Hn. exists (rev (fst r)). rewrite rev_app_distr, Hbuf, rev_app_distr, rev_involutive. cbn [rev app].
      split; [repeat rewrite <- app_assoc; cbn [app]; reflexivity|]. split; [apply Forall_rev; exact Hmel|].
      split; [intro u; rewrite Hz; change (2 ^ 0) with 1; rewrite Z.mod_1_r; rewrite Hz in Htmp; change (2 ^ 0) with 1 in Htmp; lia|].
      (* used = 0 after the initial 4 bits means at least one closed byte *)
      rewrite app_length. cbn [length]. rewrite rev_length.
      destruct closed as [|c0 cl]; [cbn [nb] in Hlen; rewrite Hz in Hlen; cbn [length] in Hlen; rewrite app_length in Hlen; cbn [length] in Hlen; lia|cbn [length]; lia].
    - rewrite Hn. exists (rev (fst r)). rewrite rev_app_distr, Hbuf, rev_app_distr, rev_involutive. cbn [rev app].
      split; [repeat rewrite <- app_assoc; cbn [app]; reflexivity|]. split; [apply Forall_rev; exact Hmel|].
      split.
      + intro u. rewrite HG, rev_bits_unfold. pose proof (ublen_range u X).
        rewrite lor_shiftl_mod by lia. rewrite HXm. apply Z.mod_small. lia.
      + apply Z.ltb_lt in Hm. unfold zlen in Hm. rewrite <- Hbuf. lia.
    - rewrite Hs. exists (wrapU 8 (vw2_tmp vs) :: rev (fst r)).
      rewrite rev_app_distr. cbn [rev]. rewrite Hbuf, !rev_app_distr, rev_involutive. cbn [rev app].
      split; [repeat rewrite <- app_assoc; cbn [app]; reflexivity|].
      assert (Ew : wrapU 8 (vw2_tmp vs) = vw2_tmp vs).
      { unfold wrapU. apply Z.mod_small. assert (2 ^ vw2_used vs <= 2 ^ 8) by (apply Z.pow_le_mono_r; lia). lia. }
      rewrite Ew.
      split; [constructor; [unfold is_byte_p; assert (2 ^ vw2_used vs <= 2 ^ 8) by (apply Z.pow_le_mono_r; lia); change (2 ^ 8) with 256 in *; lia|apply Forall_rev; exact Hmel]|].
      split.
      + intro u. rewrite rev_bits_unfold. pose proof (ublen_range u (vw2_tmp vs)).
        rewrite lor_shiftl_mod by lia. apply Z.mod_small. lia.
      + cbn [length]. rewrite app_length. cbn [length]. lia. }
  destruct HR as [R [HRO [HRb [HRm Hlen2]]]]. split; [exact Hlen2|]. intro Hpatch.
  (* F: the stream including the four initial ones *)
  set (F := rev_bits (closed ++ R) true).
  assert (HF0 : 0 <= F) by (apply rev_bits_nonneg; apply Forall_app; split; assumption).
  assert (HFm : F mod 2 ^ (nb closed true + vw2_used vs) = bits_val ([1; 1; 1; 1] ++ cb)).
  { unfold F. rewrite rev_bits_app. rewrite lor_shiftl_add by (try lia; exact HA).
    rewrite mod_split_pow2 by lia. rewrite HRm. rewrite Hval. reflexivity. }
  rewrite bits_val_app in HFm. change (bits_val [1; 1; 1; 1]) with 15 in HFm.
  change (2 ^ Z.of_nat (length [1; 1; 1; 1])) with 16 in HFm.
  rewrite app_length in Hlen. change (Z.of_nat (length [1; 1; 1; 1] + length cb)) with (Z.of_nat (4 + length cb)) in Hlen.
  set (Lc := Z.of_nat (length cb)) in *.
  assert (HLc : nb closed true + vw2_used vs = 4 + Lc) by (unfold Lc; lia).
  rewrite HLc in HFm.
  pose proof (bits_val_bound cb (call_bits_is_bits calls)) as Hcbb. fold Lc in Hcbb.
  pose proof (pow2_pos Lc ltac:(unfold Lc; lia)) as HpL.
  (* the first byte *)
  destruct (closed ++ R) as [|d before] eqn:ERO.
  { exfalso. unfold F in HFm. cbn [rev_bits] in HFm. rewrite Z.mod_0_l in HFm by (apply Z.pow_nonzero; lia). lia. }
  assert (Hd : is_byte_p d).
  { assert (Hall : Forall is_byte_p (d :: before)) by (rewrite <- ERO; apply Forall_app; split; assumption).
    inversion Hall; assumption. }
  assert (Hd16 : d mod 16 = 15).
  { assert (E16 : F mod 16 = 15).
    { assert (E : F mod 2 ^ (4 + Lc) = 15 + bits_val cb * 16) by exact HFm.
      rewrite Z.pow_add_r in E by lia. change (2 ^ 4) with 16 in E.
      rewrite Z.rem_mul_r in E by lia.
      assert (0 <= F mod 16 < 16) by (apply Z.mod_pos_bound; lia).
      assert (0 <= (F / 16) mod 2 ^ Lc) by (apply Z.mod_pos_bound; lia). lia. }
    unfold F in E16. rewrite rev_bits_unfold in E16. pose proof (ublen_range true d).
    change 16 with (2 ^ 4) in E16. rewrite lor_shiftl_mod in E16 by lia. exact E16. }
  specialize (Hpatch 255 d before HRO).
  assert (Erev : seg' = rev (l' :: Z.lor (Z.land d 240) nib :: before)) by (rewrite <- Hpatch, rev_involutive; reflexivity).
  rewrite Erev, rev_stream_unfold.
  destruct (patch_facts d nib Hd Hnib Hd16) as [P1 [P2 P3]]. cbv zeta in P1, P2, P3.
  rewrite P1, P2, P3.
  (* = F / 16 *)
  assert (EF : Z.lor (Z.shiftr d 4) (Z.shiftl (rev_bits before (d >? 143)) (if Z.land d 127 =? 127 then 3 else 4)) = F / 16).
  { unfold F. rewrite rev_bits_unfold. change 16 with (2 ^ 4). rewrite <- Z.shiftr_div_pow2 by lia.
    rewrite Z.shiftr_lor. f_equal. unfold ublen. cbn [andb].
    destruct (Z.land d 127 =? 127); rewrite Z.shiftr_shiftl_l by lia; reflexivity. }
  rewrite EF.
  exists (F / 16 / 2 ^ Lc). split; [apply Z.div_pos; [apply Z.div_pos; lia|lia]|].
  assert (E : F mod 2 ^ (4 + Lc) = 15 + bits_val cb * 16) by exact HFm.
  rewrite Z.pow_add_r in E by lia. change (2 ^ 4) with 16 in E.
  rewrite Z.rem_mul_r in E by lia.
  assert (H16 : 0 <= F mod 16 < 16) by (apply Z.mod_pos_bound; lia).
  assert (HmL : 0 <= (F / 16) mod 2 ^ Lc < 2 ^ Lc) by (apply Z.mod_pos_bound; lia).
  assert (Ecb : (F / 16) mod 2 ^ Lc = bits_val cb) by lia.
  rewrite <- Ecb. pose proof (Z.div_mod (F / 16) (2 ^ Lc) ltac:(lia)). lia.
Qed.

Lemma vlw_final_facts : forall calls,
  let vs := fold_left vlw_encode calls vlw_init in
  0 <= vw2_tmp vs < 256 /\ 0 <= vw2_used vs <= 7 /\ Forall is_byte_p (vw2_buf vs).
Proof.
  intro calls. cbv zeta.
  destruct (VW_calls calls vlw_init [1; 1; 1; 1] VW_init) as
    [closed [Hbuf [Hcl [Hok [HB [Hval [Hlen [Htmp [Hu0 Hcase]]]]]]]]].
  assert (Hu7 : vw2_used (fold_left vlw_encode calls vlw_init) <= 7) by (destruct Hcase as [[_ [_ ?]]|[[_ [_ ?]]|[_ [_ [? _]]]]]; lia).
  split.
  - assert (2 ^ vw2_used (fold_left vlw_encode calls vlw_init) <= 2 ^ 8) by (apply Z.pow_le_mono_r; lia).
    change (2 ^ 8) with 256 in *. lia.
  - split; [lia|]. rewrite Hbuf. apply Forall_app. split; [apply Forall_rev; exact Hcl|].
    constructor; [unfold is_byte_p; lia|constructor].
Qed.
