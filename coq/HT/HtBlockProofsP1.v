(* HT cleanup pass, phase 1 of the decoder (MEL + VLC + U-VLC) in lockstep with the encoder. *)
From V Require Import Common.Base Gen.HtTables_gen HT.HtMel HT.HtVlc HT.HtUvlc HT.HtLevels HT.HtBlockBits
  HT.HtBlockEnc HT.HtBlockDec HT.HtBitLemmas HT.HtBlockProofsMs HT.HtBlockProofsVlc HT.HtBlockProofsRead
  HT.HtProofsTables HT.HtProofsLevels HT.HtBlockProofsQuad HT.HtBlockProofsCodes.

Definition P1 (st : dstate) (S : streams) : Prop :=
  MInv (fst st) (st_mel S) /\ VInv (snd st) (st_vlc S) /\ calls_ok (st_vlc S).

Lemma lut_eq : forall tbl cq v, lut tbl cq v = znth tbl (cq + Z.land v 127) 0.
Proof.
  intros. unfold lut, vlc_peek. rewrite <- Z.land_assoc. reflexivity.
Qed.

Lemma zero_run_spec : forall t ms v e r, MInv ms (e :: r) ->
  exists ms', zero_run t (ms, v) = ((if e then t else 0), (ms', v)) /\ MInv ms' r.
Proof.
  intros t ms v e r H. destruct (MInv_step ms e r H) as [He Hr].
  unfold zero_run. destruct (ojph_mel_event ms) as [ev ms'] eqn:E. cbn [fst snd] in *. subst ev.
  exists ms'. split; [reflexivity|exact Hr].
Qed.

(* one CxtVLC codeword *)
Lemma quad_vlc_step : forall (first : bool) cq rho eps v rest,
  0 <= cq < 8 -> 0 <= rho < 16 -> 0 <= eps < 16 -> Z.land eps rho = eps ->
  let tup := ojph_encode_tuple first cq rho eps in
  VInv v (tuple_cw tup :: rest) -> calls_ok rest ->
  let tl := lut (lookup_of first) (128 * cq) v in
  (~ (rho = 0 /\ cq = 0) ->
     0 <= tl < 65536 /\ vl_rho tl = rho /\ vl_len tl = tuple_len tup /\ vl_ek tl = tuple_ek tup /\
     vl_e1 tl = Z.land eps (tuple_ek tup) /\ vl_uoff tl = (if eps =? 0 then 0 else 1)) /\
  (rho = 0 /\ cq = 0 -> tup = 0) /\
  VInv (vlc_advance v (tuple_len tup)) rest.
Proof.
  intros first cq rho eps v rest Hcq Hrho Heps Hsub tup HV Hok tl.
  pose proof (tuple_range first cq rho eps) as Htr. fold tup in Htr.
  destruct (tuple_bit tup 0 Htr ltac:(lia)) as [_ [_ [Hlen Hcw]]].
  assert (Hcok : calls_ok (tuple_cw tup :: rest)) by (constructor; [unfold tuple_cw; cbn [snd]; lia|exact Hok]).
  unfold tuple_cw in HV, Hcok.
  destruct (VInv_step v (tuple_cwd tup) (tuple_len tup) rest HV Hcok) as [Hmod [Hadv Hv0]].
  split; [|split; [|exact Hadv]].
  - intro Hnz.
    assert (Hvalid : ojph_valid cq rho eps = true).
    { unfold ojph_valid. rewrite Hsub, Z.eqb_refl. cbn [andb].
      destruct (Z.eqb_spec rho 0), (Z.eqb_spec cq 0); cbn; try reflexivity. exfalso; apply Hnz; split; assumption. }
    destruct (ojph_cwd_bound first cq rho eps Hcq Hrho Heps Hvalid) as [Hc0 Hc1]. fold tup in Hc0, Hc1.
    assert (Hpeek : Z.land v (2 ^ tuple_len tup - 1) = tuple_cwd tup).
    { replace (2 ^ tuple_len tup - 1) with (Z.ones (tuple_len tup)) by (rewrite Z.ones_equiv; lia).
      rewrite Z.land_ones by lia. rewrite Hmod. apply Z.mod_small. lia. }
    pose proof (vlc_ojph_encode_decode first cq rho eps v Hcq Hrho Heps Hvalid) as Hd. cbv zeta in Hd. fold tup in Hd.
    specialize (Hd Hpeek). destruct Hd as [_ [D1 [D2 [D3 [D4 D5]]]]].
    assert (Etl : tl = vlc_decode (lookup_of first) cq v).
    { unfold tl. rewrite lut_eq. unfold vlc_decode. rewrite Z.shiftl_mul_pow2 by lia. change (2 ^ 7) with 128.
      f_equal. lia. }
    rewrite Etl. split; [unfold vlc_decode; apply lookup_range|]. repeat split; assumption.
  - intros [Hr Hc]. unfold tup, ojph_encode_tuple. rewrite Hr, Hc. reflexivity.
Qed.

(* ---------- codes: what the encoder decides for one quad ---------- *)
Definition vq : Type := (Z * Z * Z * Z)%type.
Definition q_of (a : vq) : quad := let '(v0, v1, v2, v3) := a in vquad v0 v1 v2 v3.
Definition vq_ok (kmax : Z) (a : vq) : Prop := let '(v0, v1, v2, v3) := a in vs_ok kmax [v0; v1; v2; v3].
Record code : Type := mk_code { cd_vq : vq; cd_cq : Z; cd_k : Z }.
Definition cd_q (c : code) : quad := q_of (cd_vq c).
Definition cd_uq (c : code) : Z := Z.max (q_emax (cd_q c)) (cd_k c).
Definition cd_u (c : code) : Z := cd_uq c - cd_k c.
Definition cd_eps (c : code) : Z := quad_eps (cd_q c) (cd_u c).
Definition cd_tup (first : bool) (c : code) : Z := ojph_encode_tuple first (cd_cq c) (q_rho (cd_q c)) (cd_eps c).
Definition code_ok (kmax : Z) (c : code) : Prop := vq_ok kmax (cd_vq c) /\ 0 <= cd_cq c < 8 /\ 1 <= cd_k c <= 31.

(* what phase 2 needs to know about a decoded (t, u) entry *)
Definition entry_ok (first : bool) (e : Z * Z) (c : code) : Prop :=
  0 <= fst e < 65536 /\ vl_rho (fst e) = q_rho (cd_q c) /\ vl_ek (fst e) = tuple_ek (cd_tup first c) /\
  vl_e1 (fst e) = Z.land (cd_eps c) (tuple_ek (cd_tup first c)) /\
  snd e = (if first then cd_uq c else cd_u c).
Fixpoint rel_row (first : bool) (es : list (Z * Z)) (cs : list code) : Prop :=
  match es, cs with
  | [], [] => True
  | e :: es', c :: cs' => entry_ok first e c /\ rel_row first es' cs'
  | e :: es', [] => fst e = 0 /\ rel_row first es' []
  | [], _ :: _ => False
  end.

(* code facts in one place *)
Lemma code_facts : forall kmax first c, 1 <= kmax <= 30 -> code_ok kmax c ->
  1 <= cd_uq c <= 31 /\ 0 <= cd_u c <= 30 /\ 0 <= cd_eps c < 16 /\ 0 <= q_rho (cd_q c) < 16 /\
  Z.land (cd_eps c) (q_rho (cd_q c)) = cd_eps c /\
  (0 < cd_u c <-> cd_eps c <> 0) /\ (q_rho (cd_q c) = 0 -> cd_eps c = 0 /\ cd_u c = 0 \/ True) /\
  0 <= cd_tup first c < 65536.
Proof.
  intros kmax first c Hk [Hvq [Hcq Hkap]]. unfold cd_tup, cd_eps, cd_u, cd_uq, cd_q in *.
  destruct (cd_vq c) as [[[v0 v1] v2] v3]. cbn [q_of vq_ok] in *.
  destruct (qc_basic kmax first (cd_cq c) (cd_k c) v0 v1 v2 v3 Hk Hkap Hvq) as [A [B [C [D [E F]]]]].
  pose proof (qc_eps_sub kmax (cd_k c) v0 v1 v2 v3 Hk Hkap Hvq) as G. cbv zeta in G.
  split; [exact A|]. split; [exact B|]. split; [exact C|]. split; [exact D|]. split; [exact G|].
  split.
  - split.
    + intro Hu. exact (proj1 (qc_eps_pos kmax (cd_k c) v0 v1 v2 v3 Hk Hkap Hvq Hu)).
    + intro Hne. destruct (Z.ltb_spec 0 (Z.max (q_emax (vquad v0 v1 v2 v3)) (cd_k c) - cd_k c)); [assumption|].
      exfalso. apply Hne. apply F. lia.
  - split; [intros _; right; exact I|]. apply tuple_range.
Qed.

(* ---------- one quad of phase 1: lookup, optional MEL check, advance ---------- *)
Definition tfull (first : bool) (t : Z) (c : code) : Prop :=
  0 <= t < 65536 /\ vl_rho t = q_rho (cd_q c) /\ vl_len t = tuple_len (cd_tup first c) /\
  vl_ek t = tuple_ek (cd_tup first c) /\ vl_e1 t = Z.land (cd_eps c) (tuple_ek (cd_tup first c)) /\
  vl_uoff t = (if cd_eps c =? 0 then 0 else 1).

Lemma quad_p1_step : forall kmax (first : bool) c ms v Mrest Vrest,
  1 <= kmax <= 30 -> code_ok kmax c ->
  MInv ms ((if cd_cq c =? 0 then [negb (q_rho (cd_q c) =? 0)] else []) ++ Mrest) ->
  VInv v (tuple_cw (cd_tup first c) :: Vrest) -> calls_ok Vrest ->
  exists t' ms',
    (if 128 * cd_cq c =? 0 then zero_run (lut (lookup_of first) (128 * cd_cq c) v) (ms, v)
     else (lut (lookup_of first) (128 * cd_cq c) v, (ms, v))) = (t', (ms', v)) /\
    MInv ms' Mrest /\ tfull first t' c /\ VInv (vlc_advance v (Z.land t' 7)) Vrest.
Proof.
  intros kmax first c ms v Mrest Vrest Hk Hc HM HV Hok.
  destruct (code_facts kmax first c Hk Hc) as [Huq [Hu [Heps [Hrho [Hsub [Hiff [_ Htup]]]]]]].
  destruct Hc as [Hvq [Hcq Hkap]].
  destruct (quad_vlc_step first (cd_cq c) (q_rho (cd_q c)) (cd_eps c) v Vrest Hcq Hrho Heps Hsub HV Hok) as [Hnz [Hz Hadv]].
  fold (cd_tup first c) in Hnz, Hz, Hadv.
  set (tl := lut (lookup_of first) (128 * cd_cq c) v) in *.
  destruct (Z.eqb_spec (cd_cq c) 0) as [Ec|Nc].
  - rewrite Ec in *. change (128 * 0 =? 0) with true. cbv iota.
    cbn [app] in HM. destruct (zero_run_spec tl ms v _ Mrest HM) as [ms' [Hzr HM']].
    destruct (Z.eqb_spec (q_rho (cd_q c)) 0) as [Er|Nr]; cbn [negb] in Hzr.
    + (* all-zero quad in context 0: no codeword *)
      exists 0, ms'. split; [exact Hzr|]. split; [exact HM'|].
      assert (Et : cd_tup first c = 0) by (apply Hz; split; [assumption|reflexivity]).
      assert (Ee : cd_eps c = 0).
      { rewrite Er in Hsub. rewrite Z.land_0_r in Hsub. congruence. }
      split.
      * unfold tfull. rewrite Et, Er, Ee. cbn. repeat split; lia.
      * rewrite Et in Hadv. change (tuple_len 0) with 0 in Hadv. exact Hadv.
    + exists tl, ms'. split; [exact Hzr|]. split; [exact HM'|].
      destruct (Hnz ltac:(intros [? ?]; contradiction)) as [T0 [T1 [T2 [T3 [T4 T5]]]]].
      split; [unfold tfull; repeat split; try assumption; lia|].
      change (Z.land tl 7) with (vl_len tl). rewrite T2. exact Hadv.
  - destruct (Z.eqb_spec (128 * cd_cq c) 0) as [?|_]; [lia|].
    cbn [app] in HM. exists tl, ms. split; [reflexivity|]. split; [exact HM|].
    destruct (Hnz ltac:(intros [? ?]; contradiction)) as [T0 [T1 [T2 [T3 [T4 T5]]]]].
    split; [unfold tfull; repeat split; try assumption; lia|].
    change (Z.land tl 7) with (vl_len tl). rewrite T2. exact Hadv.
Qed.

(* ---------- row 0 ---------- *)
Fixpoint codes0 (vqs : list vq) (cq : Z) : list code :=
  match vqs with
  | [] => []
  | a0 :: rest =>
    mk_code a0 cq 1 ::
    match rest with
    | [] => []
    | a1 :: rest' => mk_code a1 (ctx_next0 (q_rho (q_of a0))) 1 :: codes0 rest' (ctx_next0 (q_rho (q_of a1)))
    end
  end.

Lemma ctx_next0_range : forall rho, 0 <= rho < 16 -> 0 <= ctx_next0 rho < 8.
Proof.
  intros rho H.
  assert (F : forallb (fun r => (0 <=? ctx_next0 r) && (ctx_next0 r <? 8)) (zrange 0 15) = true) by (vm_compute; reflexivity).
  pose proof (proj1 (forallb_forall _ _) F rho (In_zrange 0 15 rho ltac:(lia))) as F1. cbv beta in F1.
  apply andb_prop in F1. destruct F1. b2p. lia.
Qed.

Lemma q_of_rho_range : forall a, 0 <= q_rho (q_of a) < 16.
Proof.
  intros [[[v0 v1] v2] v3]. cbn [q_of].
  destruct (vquad_fields v0 v1 v2 v3 0 ltac:(lia)) as [_ [_ [_ H]]]. exact H.
Qed.

(* the body of one iteration of decodeOpenJPHInitialRow *)
Definition row0_step (w x cq : Z) (st : dstate) : (Z * Z) * (Z * Z) * Z * dstate :=
  let t0 := lut vlc_lookup0 cq (snd st) in
  let '(t0, st) := if cq =? 0 then zero_run t0 st else (t0, st) in
  let cq := ctx0_of t0 in
  let st := adv st (Z.land t0 7) in
  let t1 := lut vlc_lookup0 cq (snd st) in
  let '(t1, st) := if (cq =? 0) && (x + 2 <? w) then zero_run t1 st else (t1, st) in
  let t1 := if x + 2 >=? w then 0 else t1 in
  let cq := ctx0_of t1 in
  let st := adv st (Z.land t1 7) in
  let mode := uvlc_mode t0 t1 in
  let '(mode, st) :=
    if mode =? 192 then
      let '(ms, v) := st in
      let '(ev, ms') := ojph_mel_event ms in
      ((if ev then mode + 64 else mode), (ms', v))
    else (mode, st) in
  let '(u0, u1, st) := dec_uvlc true mode st in
  ((t0, wrapU 16 (1 + u0)), (t1, wrapU 16 (1 + u1)), cq, st).

Lemma dec_row0_unfold : forall k w x cq st,
  dec_row0 (S k) w x cq st =
  let '(e0, e1, cq', st') := row0_step w x cq st in
  let '(rest, st'') := dec_row0 k w (x + 4) cq' st' in (e0 :: e1 :: rest, st'').
Proof.
  intros. cbn [dec_row0]. unfold row0_step.
  destruct (if cq =? 0 then zero_run (lut vlc_lookup0 cq (snd st)) st else (lut vlc_lookup0 cq (snd st), st)) as [t0 st1].
  destruct (if (ctx0_of t0 =? 0) && (x + 2 <? w) then zero_run (lut vlc_lookup0 (ctx0_of t0) (snd (adv st1 (Z.land t0 7)))) (adv st1 (Z.land t0 7))
            else (lut vlc_lookup0 (ctx0_of t0) (snd (adv st1 (Z.land t0 7))), adv st1 (Z.land t0 7))) as [t1 st2].
  set (t1' := if x + 2 >=? w then 0 else t1).
  destruct (if uvlc_mode t0 t1' =? 192 then
              let '(ms, v) := adv st2 (Z.land t1' 7) in let '(ev, ms') := ojph_mel_event ms in
              ((if ev then uvlc_mode t0 t1' + 64 else uvlc_mode t0 t1'), (ms', v))
            else (uvlc_mode t0 t1', adv st2 (Z.land t1' 7))) as [mode st3].
  destruct (dec_uvlc true mode st3) as [[u0 u1] st4].
  reflexivity.
Qed.

Lemma ctx0_of_tfull : forall t rho, 0 <= t < 65536 -> vl_rho t = rho -> ctx0_of t = 128 * ctx_next0 rho.
Proof. intros t rho Ht Hr. unfold ctx0_of, ctx_next0. rewrite (t_ctx0 t Ht), Hr. reflexivity. Qed.

Lemma uvlc_mode_tfull : forall t0 t1, 0 <= t0 < 65536 -> 0 <= t1 < 65536 ->
  uvlc_mode t0 t1 = 64 * vl_uoff t0 + 128 * vl_uoff t1.
Proof.
  intros t0 t1 H0 H1. unfold uvlc_mode. rewrite (proj1 (t_uoff_bit t0 H0)), (proj2 (t_uoff_bit t1 H1)).
  destruct (t_fields_range t0 H0) as [_ [A _]]. destruct (t_fields_range t1 H1) as [_ [B _]].
  assert (Ca : vl_uoff t0 = 0 \/ vl_uoff t0 = 1) by lia. assert (Cb : vl_uoff t1 = 0 \/ vl_uoff t1 = 1) by lia.
  destruct Ca as [->| ->], Cb as [->| ->]; reflexivity.
Qed.

Lemma uoff_u : forall kmax (first : bool) c, 1 <= kmax <= 30 -> code_ok kmax c ->
  (if cd_eps c =? 0 then 0 else 1) = (if cd_u c >? 0 then 1 else 0).
Proof.
  intros kmax first c Hk Hc. destruct (code_facts kmax first c Hk Hc) as [_ [Hu [_ [_ [_ [Hiff _]]]]]].
  destruct (Z.eqb_spec (cd_eps c) 0) as [E|N]; destruct (Z.gtb_spec (cd_u c) 0) as [G|G]; try reflexivity.
  - exfalso. apply (proj1 Hiff); [lia|exact E].
  - exfalso. pose proof (proj2 Hiff N). lia.
Qed.

Lemma dec_uvlc_spec : forall (initial : bool) u0 u1 ms v rest,
  0 <= u0 <= 34 -> 0 <= u1 <= 34 ->
  VInv v ((if initial then ojph_uvlc_initial_calls u0 u1 else ojph_uvlc_noninitial_calls u0 u1) ++ rest) -> calls_ok rest ->
  exists v', dec_uvlc initial (ojph_uvlc_mode initial u0 u1) (ms, v) = (u0, u1, (ms, v')) /\ VInv v' rest.
Proof.
  intros initial u0 u1 ms v rest H0 H1 HV Hok.
  destruct (uvlc_pair_stream initial u0 u1 v rest H0 H1 HV Hok) as [Hd Ha].
  unfold dec_uvlc. rewrite Hd. eexists. split; [reflexivity|exact Ha].
Qed.

Lemma row0_step_pair : forall kmax a0 a1 cq0 w x ms v Mr Vr,
  1 <= kmax <= 30 ->
  let c0 := mk_code a0 cq0 1 in let c1 := mk_code a1 (ctx_next0 (q_rho (q_of a0))) 1 in
  code_ok kmax c0 -> code_ok kmax c1 -> x + 2 < w ->
  MInv ms ((if cd_cq c0 =? 0 then [negb (q_rho (cd_q c0) =? 0)] else []) ++
           (if cd_cq c1 =? 0 then [negb (q_rho (cd_q c1) =? 0)] else []) ++
           (if (cd_u c0 >? 0) && (cd_u c1 >? 0) then [Z.min (cd_u c0) (cd_u c1) >? 2] else []) ++ Mr) ->
  VInv v (tuple_cw (cd_tup true c0) :: tuple_cw (cd_tup true c1) ::
          ojph_uvlc_initial_calls (cd_u c0) (cd_u c1) ++ Vr) -> calls_ok Vr ->
  exists e0 e1 ms' v',
    row0_step w x (128 * cq0) (ms, v) = (e0, e1, 128 * ctx_next0 (q_rho (q_of a1)), (ms', v')) /\
    entry_ok true e0 c0 /\ entry_ok true e1 c1 /\ MInv ms' Mr /\ VInv v' Vr.
Proof.
  intros kmax a0 a1 cq0 w x ms v Mr Vr Hk c0 c1 Hc0 Hc1 Hxw HM HV Hok.
  destruct (code_facts kmax true c0 Hk Hc0) as [Huq0 [Hu0 [Heps0 [Hrho0 [_ [Hiff0 [_ Htup0]]]]]]].
  destruct (code_facts kmax true c1 Hk Hc1) as [Huq1 [Hu1 [Heps1 [Hrho1 [_ [Hiff1 [_ Htup1]]]]]]].
  pose proof (uvlc_calls_ok true (cd_u c0) (cd_u c1) ltac:(lia) ltac:(lia)) as Hcu.
  assert (Hok1 : calls_ok (ojph_uvlc_initial_calls (cd_u c0) (cd_u c1) ++ Vr)) by (apply Forall_app; split; assumption).
  assert (Hok0 : calls_ok (tuple_cw (cd_tup true c1) :: ojph_uvlc_initial_calls (cd_u c0) (cd_u c1) ++ Vr)).
  { constructor; [|exact Hok1]. unfold tuple_cw. cbn [snd]. destruct (tuple_bit (cd_tup true c1) 0 Htup1 ltac:(lia)) as [_ [_ [? _]]]. lia. }
  (* quad 0 *)
  destruct (quad_p1_step kmax true c0 ms v _ _ Hk Hc0 HM HV Hok0) as [t0 [ms1 [E0 [HM1 [T0 HV1]]]]].
  remember (row0_step w x (128 * cq0) (ms, v)) as RS eqn:ERS.
  unfold row0_step in ERS. cbv zeta in ERS. cbn [snd] in ERS.
  change (cd_cq c0) with cq0 in E0. change (lookup_of true) with vlc_lookup0 in E0.
  unfold dstate in *. rewrite E0 in ERS. cbv beta iota in ERS. destruct T0 as [T0r [T0rho [T0len [T0ek [T0e1 T0uo]]]]].
  rewrite (ctx0_of_tfull t0 _ T0r T0rho) in ERS. change (q_rho (cd_q c0)) with (q_rho (q_of a0)) in ERS.
  unfold adv in ERS. cbn [snd] in ERS.
  (* quad 1 *)
  destruct (Z.ltb_spec (x + 2) w) as [_|?]; [|lia]. rewrite andb_true_r in ERS.
  destruct (quad_p1_step kmax true c1 ms1 _ _ _ Hk Hc1 HM1 HV1 Hok1) as [t1 [ms2 [E1 [HM2 [T1 HV2]]]]].
  change (cd_cq c1) with (ctx_next0 (q_rho (q_of a0))) in E1. change (lookup_of true) with vlc_lookup0 in E1.
  unfold dstate in *. rewrite E1 in ERS. cbv beta iota in ERS. destruct T1 as [T1r [T1rho [T1len [T1ek [T1e1 T1uo]]]]].
  destruct (Z.geb_spec (x + 2) w) as [?|_]; [lia|].
  rewrite (ctx0_of_tfull t1 _ T1r T1rho) in ERS. change (q_rho (cd_q c1)) with (q_rho (q_of a1)) in ERS.
  unfold adv in ERS. cbn [snd] in ERS.
  (* U-VLC mode *)
  rewrite (uvlc_mode_tfull t0 t1 T0r T1r), T0uo, T1uo in ERS.
  rewrite (uoff_u kmax true c0 Hk Hc0), (uoff_u kmax true c1 Hk Hc1) in ERS.
  set (v2 := vlc_advance (vlc_advance v (Z.land t0 7)) (Z.land t1 7)) in *.
  assert (Hent0 : forall uu, uu = cd_uq c0 -> entry_ok true (t0, uu) c0) by (intros uu ->; unfold entry_ok; cbn [fst snd]; repeat split; try assumption; lia).
  assert (Hent1 : forall uu, uu = cd_uq c1 -> entry_ok true (t1, uu) c1) by (intros uu ->; unfold entry_ok; cbn [fst snd]; repeat split; try assumption; lia).
  assert (Huq0e : wrapU 16 (1 + cd_u c0) = cd_uq c0) by (unfold wrapU; rewrite Z.mod_small by (change (2 ^ 16) with 65536; lia); unfold cd_u; change (cd_k c0) with 1; lia).
  assert (Huq1e : wrapU 16 (1 + cd_u c1) = cd_uq c1) by (unfold wrapU; rewrite Z.mod_small by (change (2 ^ 16) with 65536; lia); unfold cd_u; change (cd_k c1) with 1; lia).
  assert (Hfin : forall msf, MInv msf Mr ->
            (let '(u0, u1, st) := dec_uvlc true (ojph_uvlc_mode true (cd_u c0) (cd_u c1)) (msf, v2) in
             ((t0, wrapU 16 (1 + u0)), (t1, wrapU 16 (1 + u1)), 128 * ctx_next0 (q_rho (q_of a1)), st)) = RS ->
            exists e0 e1 ms' v', RS = (e0, e1, 128 * ctx_next0 (q_rho (q_of a1)), (ms', v')) /\
              entry_ok true e0 c0 /\ entry_ok true e1 c1 /\ MInv ms' Mr /\ VInv v' Vr).
  { intros msf HMf Heq.
    destruct (dec_uvlc_spec true (cd_u c0) (cd_u c1) msf v2 Vr ltac:(lia) ltac:(lia) HV2 Hok) as [v3 [Ed HV3]].
    rewrite Ed in Heq. exists (t0, wrapU 16 (1 + cd_u c0)), (t1, wrapU 16 (1 + cd_u c1)), msf, v3.
    split; [symmetry; exact Heq|]. split; [apply Hent0; exact Huq0e|]. split; [apply Hent1; exact Huq1e|]. split; assumption. }
  destruct (Z.gtb_spec (cd_u c0) 0) as [G0|G0]; destruct (Z.gtb_spec (cd_u c1) 0) as [G1|G1]; cbn [andb app] in HM2.
  - change (64 * 1 + 128 * 1 =? 192) with true in ERS. cbv iota in ERS.
    destruct (MInv_step ms2 _ Mr HM2) as [Hev HM3].
    destruct (ojph_mel_event ms2) as [ev ms3] eqn:Eev. cbn [fst snd] in Hev, HM3. subst ev.
    assert (Emode : (if Z.min (cd_u c0) (cd_u c1) >? 2 then 64 * 1 + 128 * 1 + 64 else 64 * 1 + 128 * 1) = ojph_uvlc_mode true (cd_u c0) (cd_u c1)).
    { unfold ojph_uvlc_mode. destruct (Z.gtb_spec (cd_u c0) 0); [|lia]. destruct (Z.gtb_spec (cd_u c1) 0); [|lia].
      change (64 + 128 =? 192) with true. cbn [andb]. destruct (Z.min (cd_u c0) (cd_u c1) >? 2); reflexivity. }
    rewrite Emode in ERS. apply (Hfin ms3 HM3). symmetry. exact ERS.
  - assert (Emode : 64 * 1 + 128 * 0 = ojph_uvlc_mode true (cd_u c0) (cd_u c1)).
    { unfold ojph_uvlc_mode. destruct (Z.gtb_spec (cd_u c0) 0); [|lia]. destruct (Z.gtb_spec (cd_u c1) 0); [lia|]. reflexivity. }
    change (64 * 1 + 128 * 0 =? 192) with false in ERS. cbv iota in ERS. rewrite Emode in ERS.
    apply (Hfin ms2 HM2). symmetry. exact ERS.
  - assert (Emode : 64 * 0 + 128 * 1 = ojph_uvlc_mode true (cd_u c0) (cd_u c1)).
    { unfold ojph_uvlc_mode. destruct (Z.gtb_spec (cd_u c0) 0); [lia|]. destruct (Z.gtb_spec (cd_u c1) 0); [|lia]. reflexivity. }
    change (64 * 0 + 128 * 1 =? 192) with false in ERS. cbv iota in ERS. rewrite Emode in ERS.
    apply (Hfin ms2 HM2). symmetry. exact ERS.
  - assert (Emode : 64 * 0 + 128 * 0 = ojph_uvlc_mode true (cd_u c0) (cd_u c1)).
    { unfold ojph_uvlc_mode. destruct (Z.gtb_spec (cd_u c0) 0); [lia|]. destruct (Z.gtb_spec (cd_u c1) 0); [lia|]. reflexivity. }
    change (64 * 0 + 128 * 0 =? 192) with false in ERS. cbv iota in ERS. rewrite Emode in ERS.
    apply (Hfin ms2 HM2). symmetry. exact ERS.
Qed.

Lemma row0_step_single : forall kmax a0 cq0 w x ms v Mr Vr,
  1 <= kmax <= 30 ->
  let c0 := mk_code a0 cq0 1 in
  code_ok kmax c0 -> w <= x + 2 ->
  MInv ms ((if cd_cq c0 =? 0 then [negb (q_rho (cd_q c0) =? 0)] else []) ++ Mr) ->
  VInv v (tuple_cw (cd_tup true c0) :: ojph_uvlc_initial_calls (cd_u c0) 0 ++ Vr) -> calls_ok Vr ->
  exists e0 uu ms' v',
    row0_step w x (128 * cq0) (ms, v) = (e0, (0, uu), 0, (ms', v')) /\
    entry_ok true e0 c0 /\ MInv ms' Mr /\ VInv v' Vr.
Proof.
  intros kmax a0 cq0 w x ms v Mr Vr Hk c0 Hc0 Hxw HM HV Hok.
  destruct (code_facts kmax true c0 Hk Hc0) as [Huq0 [Hu0 [Heps0 [Hrho0 [_ [Hiff0 [_ Htup0]]]]]]].
  pose proof (uvlc_calls_ok true (cd_u c0) 0 ltac:(lia) ltac:(lia)) as Hcu.
  assert (Hok1 : calls_ok (ojph_uvlc_initial_calls (cd_u c0) 0 ++ Vr)) by (apply Forall_app; split; assumption).
  destruct (quad_p1_step kmax true c0 ms v _ _ Hk Hc0 HM HV Hok1) as [t0 [ms1 [E0 [HM1 [T0 HV1]]]]].
  remember (row0_step w x (128 * cq0) (ms, v)) as RS eqn:ERS.
  unfold row0_step in ERS. cbv zeta in ERS. cbn [snd] in ERS.
  change (cd_cq c0) with cq0 in E0. change (lookup_of true) with vlc_lookup0 in E0.
  unfold dstate in *. rewrite E0 in ERS. cbv beta iota in ERS. destruct T0 as [T0r [T0rho [T0len [T0ek [T0e1 T0uo]]]]].
  destruct (Z.ltb_spec (x + 2) w) as [?|_]; [lia|]. rewrite andb_false_r in ERS.
  destruct (Z.geb_spec (x + 2) w) as [_|?]; [|lia].
  change (ctx0_of 0) with 0 in ERS. change (Z.land 0 7) with 0 in ERS.
  unfold adv in ERS. cbn [snd] in ERS. change (vlc_advance ?a 0) with a in ERS.
  assert (Evadv : forall a, vlc_advance a 0 = a) by (intro a; reflexivity).
  try rewrite !Evadv in ERS.
  rewrite (uvlc_mode_tfull t0 0 T0r ltac:(lia)), T0uo in ERS. change (vl_uoff 0) with 0 in ERS.
  rewrite (uoff_u kmax true c0 Hk Hc0) in ERS.
  assert (Emode : 64 * (if cd_u c0 >? 0 then 1 else 0) + 128 * 0 = ojph_uvlc_mode true (cd_u c0) 0).
  { unfold ojph_uvlc_mode. destruct (cd_u c0 >? 0); reflexivity. }
  assert (Hne : (64 * (if cd_u c0 >? 0 then 1 else 0) + 128 * 0 =? 192) = false) by (destruct (cd_u c0 >? 0); reflexivity).
  rewrite Hne in ERS. rewrite Emode in ERS.
  destruct (dec_uvlc_spec true (cd_u c0) 0 ms1 _ Vr ltac:(lia) ltac:(lia) HV1 Hok) as [v3 [Ed HV3]].
  rewrite Ed in ERS.
  exists (t0, wrapU 16 (1 + cd_u c0)), (wrapU 16 (1 + 0)), ms1, v3.
  split; [exact ERS|]. split; [|split; assumption].
  unfold entry_ok. cbn [fst snd]. repeat split; try assumption; try lia.
  unfold wrapU. rewrite Z.mod_small by (change (2 ^ 16) with 65536; lia). unfold cd_u. change (cd_k c0) with 1. lia.
Qed.

Definition geom (w x : Z) (len : nat) : Prop :=
  match len with O => w <= x | S _ => x + 2 * Z.of_nat len - 1 <= w <= x + 2 * Z.of_nat len end.

Lemma dec_row0_spec : forall kmax w n vqs cq x ms v R,
  (length vqs <= n)%nat -> 1 <= kmax <= 30 -> Forall (vq_ok kmax) vqs -> 0 <= cq < 8 ->
  geom w x (length vqs) ->
  P1 (ms, v) (st_app (enc_row0 (map q_of vqs) cq) R) ->
  exists drow ms' v',
    dec_row0 (Nat.div2 (S (length vqs))) w x (128 * cq) (ms, v) = (drow, (ms', v')) /\
    P1 (ms', v') R /\ rel_row true drow (codes0 vqs cq) /\ Forall (code_ok kmax) (codes0 vqs cq).
Proof.
  intros kmax w n. induction n as [|n IH]; intros vqs cq x ms v R Hlen Hk Hvq Hcq Hgeo HP.
  - destruct vqs; [|cbn [length] in Hlen; lia]. cbn [length Nat.div2 dec_row0 map enc_row0 codes0] in *.
    exists [], ms, v. split; [reflexivity|]. split; [|split; [exact I|constructor]].
    destruct HP as [A [B C]]. split; [exact A|split; assumption].
  - destruct vqs as [|a0 [|a1 rest']].
    + cbn [length Nat.div2 dec_row0 map enc_row0 codes0] in *.
      exists [], ms, v. split; [reflexivity|]. split; [|split; [exact I|constructor]].
      destruct HP as [A [B C]]. split; [exact A|split; assumption].
    + (* a single quad *)
      inversion Hvq as [|? ? Hv0 _]; subst.
      assert (Hc0 : code_ok kmax (mk_code a0 cq 1)) by (unfold code_ok; cbn [cd_vq cd_cq cd_k]; repeat split; try assumption; lia).
      cbn [length geom] in Hgeo.
      destruct HP as [HM [HV HC]]. cbn [map enc_row0 st_app st_mel st_vlc fst snd app] in HM, HV, HC.
      inversion HC as [|? ? _ HC']. apply Forall_app in HC'. destruct HC' as [_ HCR].
      destruct (row0_step_single kmax a0 cq w x ms v (st_mel R) (st_vlc R) Hk Hc0 ltac:(lia) HM HV HCR)
        as [e0 [uu [ms' [v' [Es [He0 [HM' HV']]]]]]].
      change (Nat.div2 (S (length [a0]))) with 1%nat. rewrite dec_row0_unfold, Es. cbn [dec_row0].
      exists [e0; (0, uu)], ms', v'. split; [reflexivity|]. split; [split; [exact HM'|split; assumption]|].
      cbn [codes0 rel_row fst]. split; [split; [exact He0|split; [reflexivity|exact I]]|].
      constructor; [exact Hc0|constructor].
    + (* a pair *)
      inversion Hvq as [|? ? Hv0 Hvq1]; subst. inversion Hvq1 as [|? ? Hv1 Hvq2]; subst.
      pose proof (q_of_rho_range a0) as Hr0. pose proof (q_of_rho_range a1) as Hr1.
      pose proof (ctx_next0_range _ Hr0) as Hn0. pose proof (ctx_next0_range _ Hr1) as Hn1.
      assert (Hc0 : code_ok kmax (mk_code a0 cq 1)) by (unfold code_ok; cbn [cd_vq cd_cq cd_k]; repeat split; try assumption; lia).
      assert (Hc1 : code_ok kmax (mk_code a1 (ctx_next0 (q_rho (q_of a0))) 1)) by (unfold code_ok; cbn [cd_vq cd_cq cd_k]; repeat split; try assumption; lia).
      cbn [length geom] in Hgeo.
      destruct HP as [HM [HV HC]]. cbn [map enc_row0 st_app st_mel st_vlc fst snd] in HM, HV, HC.
      set (next := enc_row0 (map q_of rest') (ctx_next0 (q_rho (q_of a1)))) in *.
      rewrite <- !app_assoc in HM. cbn [app] in HV, HC. rewrite <- !app_assoc in HV, HC.
      inversion HC as [|? ? _ HC1]. inversion HC1 as [|? ? _ HC2]. apply Forall_app in HC2. destruct HC2 as [_ HC3].
      destruct (row0_step_pair kmax a0 a1 cq w x ms v (st_mel next ++ st_mel R) (st_vlc next ++ st_vlc R) Hk Hc0 Hc1
                  ltac:(rewrite !Nat2Z.inj_succ in Hgeo; lia) HM HV HC3)
        as [e0 [e1 [ms1 [v1 [Es [He0 [He1 [HM1 HV1]]]]]]]].
      assert (HP1 : P1 (ms1, v1) (st_app next R)) by (split; [exact HM1|split; [exact HV1|exact HC3]]).
      assert (Hgeo' : geom w (x + 4) (length rest')).
      { destruct rest'; cbn [length geom] in *; rewrite ?Nat2Z.inj_succ in *; lia. }
      destruct (IH rest' (ctx_next0 (q_rho (q_of a1))) (x + 4) ms1 v1 R ltac:(cbn [length] in Hlen; lia) Hk Hvq2 Hn1 Hgeo' HP1)
        as [drow [ms2 [v2 [Ed [HP2 [Hrel Hcs]]]]]].
      change (Nat.div2 (S (length (a0 :: a1 :: rest')))) with (S (Nat.div2 (S (length rest')))).
      rewrite dec_row0_unfold, Es, Ed.
      exists (e0 :: e1 :: drow), ms2, v2. split; [reflexivity|]. split; [exact HP2|].
      cbn [codes0 rel_row]. split; [split; [exact He0|split; [exact He1|exact Hrel]]|].
      constructor; [exact Hc0|constructor; [exact Hc1|exact Hcs]].
Qed.

(* ---------- rows >= 1 ---------- *)
Definition rowN_step (arow : list (Z * Z)) (w x j cq : Z) (st : dstate) : (Z * Z) * (Z * Z) * Z * dstate :=
  let cq := Z.lor cq (Z.lor (Z.shiftl (Z.land (above arow j) 160) 2)
                            (Z.shiftl (Z.land (above arow (j + 1)) 32) 4)) in
  let t0 := lut vlc_lookup1 cq (snd st) in
  let '(t0, st) := if cq =? 0 then zero_run t0 st else (t0, st) in
  let cq := Z.lor (Z.shiftl (Z.land t0 64) 2) (Z.shiftl (Z.land t0 128) 1) in
  let cq := Z.lor cq (Z.land (above arow j) 128) in
  let cq := Z.lor cq (Z.lor (Z.shiftl (Z.land (above arow (j + 1)) 160) 2)
                            (Z.shiftl (Z.land (above arow (j + 2)) 32) 4)) in
  let st := adv st (Z.land t0 7) in
  let t1 := lut vlc_lookup1 cq (snd st) in
  let '(t1, st) := if (cq =? 0) && (x + 2 <? w) then zero_run t1 st else (t1, st) in
  let t1 := if x + 2 >=? w then 0 else t1 in
  let cq := Z.lor (Z.shiftl (Z.land t1 64) 2) (Z.shiftl (Z.land t1 128) 1) in
  let cq := Z.lor cq (Z.land (above arow (j + 1)) 128) in
  let st := adv st (Z.land t1 7) in
  let '(u0, u1, st) := dec_uvlc false (uvlc_mode t0 t1) st in
  ((t0, wrapU 16 u0), (t1, wrapU 16 u1), cq, st).

Lemma dec_rowN_unfold : forall k arow w x j cq st,
  dec_rowN (S k) arow w x j cq st =
  let '(e0, e1, cq', st') := rowN_step arow w x j cq st in
  let '(rest, st'') := dec_rowN k arow w (x + 4) (j + 2) cq' st' in (e0 :: e1 :: rest, st'').
Proof.
  intros. cbn [dec_rowN]. unfold rowN_step.
  set (cq0 := Z.lor cq (Z.lor (Z.shiftl (Z.land (above arow j) 160) 2) (Z.shiftl (Z.land (above arow (j + 1)) 32) 4))).
  destruct (if cq0 =? 0 then zero_run (lut vlc_lookup1 cq0 (snd st)) st else (lut vlc_lookup1 cq0 (snd st), st)) as [t0 st1].
  set (cq1 := Z.lor (Z.lor (Z.lor (Z.shiftl (Z.land t0 64) 2) (Z.shiftl (Z.land t0 128) 1)) (Z.land (above arow j) 128))
                    (Z.lor (Z.shiftl (Z.land (above arow (j + 1)) 160) 2) (Z.shiftl (Z.land (above arow (j + 2)) 32) 4))).
  destruct (if (cq1 =? 0) && (x + 2 <? w) then zero_run (lut vlc_lookup1 cq1 (snd (adv st1 (Z.land t0 7)))) (adv st1 (Z.land t0 7))
            else (lut vlc_lookup1 cq1 (snd (adv st1 (Z.land t0 7))), adv st1 (Z.land t0 7))) as [t1 st2].
  set (t1' := if x + 2 >=? w then 0 else t1).
  destruct (dec_uvlc false (uvlc_mode t0 t1') (adv st2 (Z.land t1' 7))) as [[u0 u1] st4].
  reflexivity.
Qed.

(* the context computations, as functions of the four neighbouring significance patterns *)
Definition t_left128 (t : Z) : Z := Z.lor (Z.shiftl (Z.land t 64) 2) (Z.shiftl (Z.land t 128) 1).
Definition dctx (carry a0 a1 : Z) : Z :=
  Z.lor carry (Z.lor (Z.shiftl (Z.land a0 160) 2) (Z.shiftl (Z.land a1 32) 4)).
Definition ectx (rm1 r0 r1 left : Z) : Z :=
  Z.lor ((Z.lor (Z.shiftr (Z.land rm1 8) 3) (Z.shiftr (Z.land r0 2) 1)) +
         Z.shiftl (Z.lor (Z.shiftr (Z.land r0 8) 3) (Z.shiftr (Z.land r1 2) 1)) 2)
        (ctx_left left).

Lemma t_left_rho : forall t, 0 <= t < 65536 -> t_left128 t = 128 * ctx_left (vl_rho t).
Proof.
  intros t Ht.
  assert (H : all16 (fun t => t_left128 t =? 128 * ctx_left (vl_rho t)) = true) by (vm_compute; reflexivity).
  apply Z.eqb_eq. exact (all16_spec _ H t Ht).
Qed.

Lemma t_hi_nibble : forall t, 0 <= t < 65536 -> Z.land t 240 = 16 * vl_rho t.
Proof.
  intros t Ht.
  assert (H : all16 (fun t => Z.land t 240 =? 16 * vl_rho t) = true) by (vm_compute; reflexivity).
  apply Z.eqb_eq. exact (all16_spec _ H t Ht).
Qed.

Lemma land_sub240 : forall t m, Z.land 240 m = m -> Z.land t m = Z.land (Z.land t 240) m.
Proof. intros t m H. rewrite <- Z.land_assoc, H. reflexivity. Qed.

Lemma ctx_eq : forall tl am1 a0 a1, 0 <= tl < 65536 -> 0 <= am1 < 65536 -> 0 <= a0 < 65536 -> 0 <= a1 < 65536 ->
  dctx (Z.lor (t_left128 tl) (Z.land am1 128)) a0 a1 = 128 * ectx (vl_rho am1) (vl_rho a0) (vl_rho a1) (vl_rho tl) /\
  0 <= ectx (vl_rho am1) (vl_rho a0) (vl_rho a1) (vl_rho tl) < 8.
Proof.
  intros tl am1 a0 a1 Hl Hm H0 H1.
  unfold dctx. rewrite (t_left_rho tl Hl).
  rewrite (land_sub240 am1 128), (land_sub240 a0 160), (land_sub240 a1 32) by reflexivity.
  rewrite (t_hi_nibble am1 Hm), (t_hi_nibble a0 H0), (t_hi_nibble a1 H1).
  destruct (t_fields_range tl Hl) as [Rl _]. destruct (t_fields_range am1 Hm) as [Rm _].
  destruct (t_fields_range a0 H0) as [R0 _]. destruct (t_fields_range a1 H1) as [R1 _].
  generalize dependent (vl_rho tl). generalize dependent (vl_rho am1). generalize dependent (vl_rho a0). generalize dependent (vl_rho a1).
  intros r1 Hr1 r0 Hr0 rm Hrm rl Hrl.
  assert (F : forallb (fun rl => forallb (fun rm => forallb (fun r0 => forallb (fun r1 =>
      (Z.lor (Z.lor (128 * ctx_left rl) (Z.land (16 * rm) 128))
             (Z.lor (Z.shiftl (Z.land (16 * r0) 160) 2) (Z.shiftl (Z.land (16 * r1) 32) 4)) =? 128 * ectx rm r0 r1 rl) &&
      (0 <=? ectx rm r0 r1 rl) && (ectx rm r0 r1 rl <? 8))
      (zrange 0 15)) (zrange 0 15)) (zrange 0 15)) (zrange 0 15) = true) by (vm_compute; reflexivity).
  pose proof (proj1 (forallb_forall _ _) F rl (In_zrange 0 15 rl ltac:(lia))) as F1. cbv beta in F1.
  pose proof (proj1 (forallb_forall _ _) F1 rm (In_zrange 0 15 rm ltac:(lia))) as F2. cbv beta in F2.
  pose proof (proj1 (forallb_forall _ _) F2 r0 (In_zrange 0 15 r0 ltac:(lia))) as F3. cbv beta in F3.
  pose proof (proj1 (forallb_forall _ _) F3 r1 (In_zrange 0 15 r1 ltac:(lia))) as F4. cbv beta in F4.
  apply andb_prop in F4. destruct F4 as [F4 F6]. apply andb_prop in F4. destruct F4 as [F4 F5]. b2p.
  split; [exact F4|lia].
Qed.

Lemma rowN_step_pair : forall kmax c0 c1 arow w x j cqin ms v Mr Vr cqout,
  1 <= kmax <= 30 -> code_ok kmax c0 -> code_ok kmax c1 -> x + 2 < w ->
  dctx cqin (above arow j) (above arow (j + 1)) = 128 * cd_cq c0 ->
  (forall t0, 0 <= t0 < 65536 -> vl_rho t0 = q_rho (cd_q c0) ->
     dctx (Z.lor (t_left128 t0) (Z.land (above arow j) 128)) (above arow (j + 1)) (above arow (j + 2)) = 128 * cd_cq c1) ->
  (forall t1, 0 <= t1 < 65536 -> vl_rho t1 = q_rho (cd_q c1) ->
     Z.lor (t_left128 t1) (Z.land (above arow (j + 1)) 128) = cqout) ->
  MInv ms ((if cd_cq c0 =? 0 then [negb (q_rho (cd_q c0) =? 0)] else []) ++
           (if cd_cq c1 =? 0 then [negb (q_rho (cd_q c1) =? 0)] else []) ++ Mr) ->
  VInv v (tuple_cw (cd_tup false c0) :: tuple_cw (cd_tup false c1) ::
          ojph_uvlc_noninitial_calls (cd_u c0) (cd_u c1) ++ Vr) -> calls_ok Vr ->
  exists e0 e1 ms' v',
    rowN_step arow w x j cqin (ms, v) = (e0, e1, cqout, (ms', v')) /\
    entry_ok false e0 c0 /\ entry_ok false e1 c1 /\ MInv ms' Mr /\ VInv v' Vr.
Proof.
  intros kmax c0 c1 arow w x j cqin ms v Mr Vr cqout Hk Hc0 Hc1 Hxw Hctx0 Hctx1 Hctx2 HM HV Hok.
  destruct (code_facts kmax false c0 Hk Hc0) as [Huq0 [Hu0 [Heps0 [Hrho0 [_ [Hiff0 [_ Htup0]]]]]]].
  destruct (code_facts kmax false c1 Hk Hc1) as [Huq1 [Hu1 [Heps1 [Hrho1 [_ [Hiff1 [_ Htup1]]]]]]].
  pose proof (uvlc_calls_ok false (cd_u c0) (cd_u c1) ltac:(lia) ltac:(lia)) as Hcu.
  assert (Hok1 : calls_ok (ojph_uvlc_noninitial_calls (cd_u c0) (cd_u c1) ++ Vr)) by (apply Forall_app; split; assumption).
  assert (Hok0 : calls_ok (tuple_cw (cd_tup false c1) :: ojph_uvlc_noninitial_calls (cd_u c0) (cd_u c1) ++ Vr)).
  { constructor; [|exact Hok1]. unfold tuple_cw. cbn [snd]. destruct (tuple_bit (cd_tup false c1) 0 Htup1 ltac:(lia)) as [_ [_ [? _]]]. lia. }
  destruct (quad_p1_step kmax false c0 ms v _ _ Hk Hc0 HM HV Hok0) as [t0 [ms1 [E0 [HM1 [T0 HV1]]]]].
  remember (rowN_step arow w x j cqin (ms, v)) as RS eqn:ERS.
  unfold rowN_step in ERS. cbv zeta in ERS. cbn [snd] in ERS.
  fold (dctx cqin (above arow j) (above arow (j + 1))) in ERS. rewrite Hctx0 in ERS.
  change (lookup_of false) with vlc_lookup1 in E0.
  unfold dstate in *. rewrite E0 in ERS. cbv beta iota in ERS. destruct T0 as [T0r [T0rho [T0len [T0ek [T0e1 T0uo]]]]].
  fold (t_left128 t0) in ERS.
  fold (dctx (Z.lor (t_left128 t0) (Z.land (above arow j) 128)) (above arow (j + 1)) (above arow (j + 2))) in ERS.
  rewrite (Hctx1 t0 T0r T0rho) in ERS.
  unfold adv in ERS. cbn [snd] in ERS.
  destruct (Z.ltb_spec (x + 2) w) as [_|?]; [|lia]. rewrite andb_true_r in ERS.
  destruct (quad_p1_step kmax false c1 ms1 _ _ _ Hk Hc1 HM1 HV1 Hok1) as [t1 [ms2 [E1 [HM2 [T1 HV2]]]]].
  change (lookup_of false) with vlc_lookup1 in E1.
  unfold dstate in *. rewrite E1 in ERS. cbv beta iota in ERS. destruct T1 as [T1r [T1rho [T1len [T1ek [T1e1 T1uo]]]]].
  destruct (Z.geb_spec (x + 2) w) as [?|_]; [lia|].
  fold (t_left128 t1) in ERS. rewrite (Hctx2 t1 T1r T1rho) in ERS.
  rewrite (uvlc_mode_tfull t0 t1 T0r T1r), T0uo, T1uo in ERS.
  rewrite (uoff_u kmax false c0 Hk Hc0), (uoff_u kmax false c1 Hk Hc1) in ERS.
  assert (Emode : 64 * (if cd_u c0 >? 0 then 1 else 0) + 128 * (if cd_u c1 >? 0 then 1 else 0) = ojph_uvlc_mode false (cd_u c0) (cd_u c1)).
  { unfold ojph_uvlc_mode. cbn [andb]. destruct (cd_u c0 >? 0), (cd_u c1 >? 0); reflexivity. }
  rewrite Emode in ERS.
  destruct (dec_uvlc_spec false (cd_u c0) (cd_u c1) ms2 _ Vr ltac:(lia) ltac:(lia) HV2 Hok) as [v3 [Ed HV3]].
  rewrite Ed in ERS.
  assert (Ew0 : wrapU 16 (cd_u c0) = cd_u c0) by (unfold wrapU; apply Z.mod_small; change (2 ^ 16) with 65536; lia).
  assert (Ew1 : wrapU 16 (cd_u c1) = cd_u c1) by (unfold wrapU; apply Z.mod_small; change (2 ^ 16) with 65536; lia).
  exists (t0, wrapU 16 (cd_u c0)), (t1, wrapU 16 (cd_u c1)), ms2, v3.
  split; [exact ERS|].
  split; [unfold entry_ok; cbn [fst snd]; repeat split; try assumption; lia|].
  split; [unfold entry_ok; cbn [fst snd]; repeat split; try assumption; lia|]. split; assumption.
Qed.

Lemma rowN_step_single : forall kmax c0 arow w x j cqin ms v Mr Vr,
  1 <= kmax <= 30 -> code_ok kmax c0 -> w <= x + 2 ->
  dctx cqin (above arow j) (above arow (j + 1)) = 128 * cd_cq c0 ->
  MInv ms ((if cd_cq c0 =? 0 then [negb (q_rho (cd_q c0) =? 0)] else []) ++ Mr) ->
  VInv v (tuple_cw (cd_tup false c0) :: ojph_uvlc_noninitial_calls (cd_u c0) 0 ++ Vr) -> calls_ok Vr ->
  exists e0 uu cqo ms' v',
    rowN_step arow w x j cqin (ms, v) = (e0, (0, uu), cqo, (ms', v')) /\
    entry_ok false e0 c0 /\ MInv ms' Mr /\ VInv v' Vr.
Proof.
  intros kmax c0 arow w x j cqin ms v Mr Vr Hk Hc0 Hxw Hctx0 HM HV Hok.
  destruct (code_facts kmax false c0 Hk Hc0) as [Huq0 [Hu0 [Heps0 [Hrho0 [_ [Hiff0 [_ Htup0]]]]]]].
  pose proof (uvlc_calls_ok false (cd_u c0) 0 ltac:(lia) ltac:(lia)) as Hcu.
  assert (Hok1 : calls_ok (ojph_uvlc_noninitial_calls (cd_u c0) 0 ++ Vr)) by (apply Forall_app; split; assumption).
  destruct (quad_p1_step kmax false c0 ms v _ _ Hk Hc0 HM HV Hok1) as [t0 [ms1 [E0 [HM1 [T0 HV1]]]]].
  remember (rowN_step arow w x j cqin (ms, v)) as RS eqn:ERS.
  unfold rowN_step in ERS. cbv zeta in ERS. cbn [snd] in ERS.
  fold (dctx cqin (above arow j) (above arow (j + 1))) in ERS. rewrite Hctx0 in ERS.
  change (lookup_of false) with vlc_lookup1 in E0.
  unfold dstate in *. rewrite E0 in ERS. cbv beta iota in ERS. destruct T0 as [T0r [T0rho [T0len [T0ek [T0e1 T0uo]]]]].
  destruct (Z.ltb_spec (x + 2) w) as [?|_]; [lia|]. rewrite andb_false_r in ERS.
  destruct (Z.geb_spec (x + 2) w) as [_|?]; [|lia].
  change (Z.land 0 7) with 0 in ERS. change (Z.land 0 64) with 0 in ERS. change (Z.land 0 128) with 0 in ERS.
  unfold adv in ERS. cbn [snd] in ERS.
  assert (Evadv : forall a, vlc_advance a 0 = a) by (intro a; reflexivity).
  try rewrite !Evadv in ERS.
  rewrite (uvlc_mode_tfull t0 0 T0r ltac:(lia)), T0uo in ERS. change (vl_uoff 0) with 0 in ERS.
  rewrite (uoff_u kmax false c0 Hk Hc0) in ERS.
  assert (Emode : 64 * (if cd_u c0 >? 0 then 1 else 0) + 128 * 0 = ojph_uvlc_mode false (cd_u c0) 0).
  { unfold ojph_uvlc_mode. destruct (cd_u c0 >? 0); reflexivity. }
  rewrite Emode in ERS.
  destruct (dec_uvlc_spec false (cd_u c0) 0 ms1 _ Vr ltac:(lia) ltac:(lia) HV1 Hok) as [v3 [Ed HV3]].
  rewrite Ed in ERS.
  eexists (t0, wrapU 16 (cd_u c0)), (wrapU 16 0), _, ms1, v3.
  split; [exact ERS|]. split; [|split; assumption].
  unfold entry_ok. cbn [fst snd]. repeat split; try assumption; try lia.
  unfold wrapU. apply Z.mod_small. change (2 ^ 16) with 65536. lia.
Qed.

Fixpoint codesN (pq : list quad) (vqs : list vq) (i left : Z) : list code :=
  match vqs with
  | [] => []
  | a0 :: rest =>
    mk_code a0 (Z.lor (ctx_above pq i) (ctx_left left)) (kappa_of pq i (q_rho (q_of a0))) ::
    match rest with
    | [] => []
    | a1 :: rest' =>
      mk_code a1 (Z.lor (ctx_above pq (i + 1)) (ctx_left (q_rho (q_of a0)))) (kappa_of pq (i + 1) (q_rho (q_of a1))) ::
      codesN pq rest' (i + 2) (q_rho (q_of a1))
    end
  end.

Lemma pq_get_map : forall pvqs j,
  pq_get (map q_of pvqs) j = mk_quad 0 0 [0; 0; 0; 0] [0; 0; 0; 0] \/ exists a, In a pvqs /\ pq_get (map q_of pvqs) j = q_of a.
Proof.
  intros pvqs j. unfold pq_get, znth. destruct (j <? 0); [left; reflexivity|].
  destruct (nth_in_or_default (Z.to_nat j) (map q_of pvqs) (mk_quad 0 0 [0; 0; 0; 0] [0; 0; 0; 0])) as [Hin|Hd]; [|left; exact Hd].
  apply in_map_iff in Hin. destruct Hin as [a [Ha Hin]]. right. exists a. split; [exact Hin|symmetry; exact Ha].
Qed.

Lemma pq_e_range : forall kmax pvqs j k, 1 <= kmax <= 30 -> Forall (vq_ok kmax) pvqs ->
  0 <= znth (q_e (pq_get (map q_of pvqs) j)) k 0 <= kmax + 1.
Proof.
  intros kmax pvqs j k Hk Hok. destruct (pq_get_map pvqs j) as [E|[a [Hin E]]]; rewrite E.
  - cbn [q_e]. apply (znth_bound (fun x => 0 <= x <= kmax + 1)); [lia|]. repeat constructor; lia.
  - pose proof (proj1 (Forall_forall _ _) Hok a Hin) as Ha. destruct a as [[[v0 v1] v2] v3]. cbn [vq_ok q_of] in *.
    unfold vquad. cbn [q_e]. apply (znth_bound (fun x => 0 <= x <= kmax + 1)); [lia|].
    inversion Ha as [|? ? H0 Ha1]; subst. inversion Ha1 as [|? ? H1 Ha2]; subst.
    inversion Ha2 as [|? ? H2 Ha3]; subst. inversion Ha3 as [|? ? H3 _]; subst.
    repeat constructor; apply (v_e_range kmax); assumption.
Qed.

Lemma kappa_range : forall kmax pvqs i rho, 1 <= kmax <= 30 -> Forall (vq_ok kmax) pvqs ->
  1 <= kappa_of (map q_of pvqs) i rho <= 31.
Proof.
  intros kmax pvqs i rho Hk Hok. unfold kappa_of, max_e, e_val.
  pose proof (pq_e_range kmax pvqs (i - 1) 3 Hk Hok). pose proof (pq_e_range kmax pvqs i 1 Hk Hok).
  pose proof (pq_e_range kmax pvqs (i + 1 - 1) 3 Hk Hok). pose proof (pq_e_range kmax pvqs (i + 1) 1 Hk Hok).
  destruct (Z.land rho (rho - 1) =? 0); lia.
Qed.

Lemma rho16 : forall r, 0 <= r < 16 -> 0 <= 16 * r < 65536 /\ vl_rho (16 * r) = r.
Proof.
  intros r Hr.
  assert (F : forallb (fun r => vl_rho (16 * r) =? r) (zrange 0 15) = true) by (vm_compute; reflexivity).
  pose proof (proj1 (forallb_forall _ _) F r (In_zrange 0 15 r ltac:(lia))) as F1. cbv beta in F1. b2p.
  split; [lia|exact F1].
Qed.

(* the stripe above, seen through the relation with its codes *)
Lemma above_rel : forall f arow pcs, rel_row f arow pcs -> forall j,
  0 <= above arow j < 65536 /\ vl_rho (above arow j) = q_rho (pq_get (map cd_q pcs) j).
Proof.
  intros f arow pcs Hrel j. unfold above, pq_get, znth.
  destruct (j <? 0); [cbn; split; [lia|reflexivity]|].
  generalize (Z.to_nat j). clear j. revert pcs Hrel.
  induction arow as [|e arow IH]; intros pcs Hrel n.
  - destruct pcs; [|contradiction]. destruct n; cbn; split; try lia; reflexivity.
  - destruct pcs as [|c pcs]; cbn [rel_row] in Hrel.
    + destruct Hrel as [He Hr]. destruct n as [|n].
      * cbn [nth map fst]. rewrite He. cbn. split; [lia|reflexivity].
      * cbn [nth map]. specialize (IH [] Hr n). cbn [map] in IH. destruct n; exact IH.
    + destruct Hrel as [He Hr]. destruct n as [|n].
      * cbn [nth map]. destruct He as [A [B _]]. split; assumption.
      * cbn [nth map]. apply IH. exact Hr.
Qed.

Lemma dec_rowN_spec : forall kmax w fp arow pcs n vqs i left x ms v R,
  (length vqs <= n)%nat -> 1 <= kmax <= 30 -> Forall (vq_ok kmax) vqs ->
  rel_row fp arow pcs -> Forall (code_ok kmax) pcs ->
  0 <= left < 16 -> geom w x (length vqs) ->
  let pq := map cd_q pcs in
  P1 (ms, v) (st_app (enc_rowN pq (map q_of vqs) i left) R) ->
  exists drow ms' v',
    dec_rowN (Nat.div2 (S (length vqs))) arow w x i
             (Z.lor (t_left128 (16 * left)) (Z.land (above arow (i - 1)) 128)) (ms, v) = (drow, (ms', v')) /\
    P1 (ms', v') R /\ rel_row false drow (codesN pq vqs i left) /\ Forall (code_ok kmax) (codesN pq vqs i left).
Proof.
  intros kmax w fp arow pcs n. induction n as [|n IH]; intros vqs i left x ms v R Hlen Hk Hvq Hrel Hpcs Hleft Hgeo pq HP.
  - destruct vqs; [|cbn [length] in Hlen; lia]. cbn [length Nat.div2 dec_rowN map enc_rowN codesN] in *.
    exists [], ms, v. split; [reflexivity|]. split; [|split; [exact I|constructor]].
    destruct HP as [A [B C]]. split; [exact A|split; assumption].
  - assert (Hpvq : exists pvqs, pq = map q_of pvqs /\ Forall (vq_ok kmax) pvqs).
    { exists (map cd_vq pcs). split; [unfold pq; rewrite map_map; reflexivity|].
      apply Forall_forall. intros a Ha. apply in_map_iff in Ha. destruct Ha as [c [<- Hc]].
      exact (proj1 (proj1 (Forall_forall _ _) Hpcs c Hc)). }
    destruct Hpvq as [pvqs [Epq Hpvq]].
    assert (Hkap : forall j rho, 1 <= kappa_of pq j rho <= 31) by (intros; rewrite Epq; apply (kappa_range kmax); assumption).
    pose proof (above_rel fp arow pcs Hrel) as Hab. fold pq in Hab.
    destruct (rho16 left Hleft) as [Hl16 Hlrho].
    (* context of the quad at column i given the entry to its left *)
    assert (Hctx : forall tl jj, 0 <= tl < 65536 ->
              dctx (Z.lor (t_left128 tl) (Z.land (above arow (jj - 1)) 128)) (above arow jj) (above arow (jj + 1)) =
              128 * Z.lor (ctx_above pq jj) (ctx_left (vl_rho tl)) /\
              0 <= Z.lor (ctx_above pq jj) (ctx_left (vl_rho tl)) < 8).
    { intros tl jj Htl.
      destruct (Hab (jj - 1)) as [A1 B1]. destruct (Hab jj) as [A2 B2]. destruct (Hab (jj + 1)) as [A3 B3].
      destruct (ctx_eq tl _ _ _ Htl A1 A2 A3) as [C1 C2]. rewrite B1, B2, B3 in C1, C2.
      assert (Ee : ectx (q_rho (pq_get pq (jj - 1))) (q_rho (pq_get pq jj)) (q_rho (pq_get pq (jj + 1))) (vl_rho tl) =
                   Z.lor (ctx_above pq jj) (ctx_left (vl_rho tl))).
      { unfold ectx, ctx_above, cx_val. replace (jj + 1 - 1) with jj by ring. reflexivity. }
      rewrite Ee in C1, C2. split; [exact C1|exact C2]. }
    destruct vqs as [|a0 [|a1 rest']].
    + cbn [length Nat.div2 dec_rowN map enc_rowN codesN] in *.
      exists [], ms, v. split; [reflexivity|]. split; [|split; [exact I|constructor]].
      destruct HP as [A [B C]]. split; [exact A|split; assumption].
    + (* single *)
      inversion Hvq as [|? ? Hv0 _]; subst.
      destruct (Hctx (16 * left) i Hl16) as [Hc0eq Hc0r]. rewrite Hlrho in Hc0eq, Hc0r.
      set (c0 := mk_code a0 (Z.lor (ctx_above pq i) (ctx_left left)) (kappa_of pq i (q_rho (q_of a0)))).
      assert (Hc0 : code_ok kmax c0) by (unfold code_ok, c0; cbn [cd_vq cd_cq cd_k]; split; [exact Hv0|split; [exact Hc0r|apply Hkap]]).
      cbn [length geom] in Hgeo.
      destruct HP as [HM [HV HC]]. cbn [map enc_rowN st_app st_mel st_vlc fst snd] in HM, HV, HC.
      rewrite <- app_comm_cons in HV, HC.
      pose proof (Forall_inv_tail HC) as HC'. apply Forall_app in HC'. destruct HC' as [_ HCR].
      destruct (rowN_step_single kmax c0 arow w x i _ ms v (st_mel R) (st_vlc R) Hk Hc0 ltac:(lia) Hc0eq HM HV HCR)
        as [e0 [uu [cqo [ms' [v' [Es [He0 [HM' HV']]]]]]]].
      change (Nat.div2 (S (length [a0]))) with 1%nat. rewrite dec_rowN_unfold, Es. cbn [dec_rowN].
      exists [e0; (0, uu)], ms', v'. split; [reflexivity|]. split; [split; [exact HM'|split; assumption]|].
      cbn [codesN rel_row fst]. split; [split; [exact He0|split; [reflexivity|exact I]]|].
      constructor; [exact Hc0|constructor].
    + (* pair *)
      inversion Hvq as [|? ? Hv0 Hvq1]; subst. inversion Hvq1 as [|? ? Hv1 Hvq2]; subst.
      pose proof (q_of_rho_range a0) as Hr0. pose proof (q_of_rho_range a1) as Hr1.
      destruct (Hctx (16 * left) i Hl16) as [Hc0eq Hc0r]. rewrite Hlrho in Hc0eq, Hc0r.
      set (c0 := mk_code a0 (Z.lor (ctx_above pq i) (ctx_left left)) (kappa_of pq i (q_rho (q_of a0)))).
      set (c1 := mk_code a1 (Z.lor (ctx_above pq (i + 1)) (ctx_left (q_rho (q_of a0)))) (kappa_of pq (i + 1) (q_rho (q_of a1)))).
      assert (Hc0 : code_ok kmax c0) by (unfold code_ok, c0; cbn [cd_vq cd_cq cd_k]; split; [exact Hv0|split; [exact Hc0r|apply Hkap]]).
      destruct (rho16 _ Hr0) as [H016 H0rho]. destruct (rho16 _ Hr1) as [H116 H1rho].
      assert (Hc1r : 0 <= cd_cq c1 < 8).
      { destruct (Hctx (16 * q_rho (q_of a0)) (i + 1) H016) as [_ C]. rewrite H0rho in C. exact C. }
      assert (Hc1 : code_ok kmax c1) by (unfold code_ok, c1; cbn [cd_vq cd_cq cd_k]; split; [exact Hv1|split; [exact Hc1r|apply Hkap]]).
      assert (Hctx1 : forall t0, 0 <= t0 < 65536 -> vl_rho t0 = q_rho (cd_q c0) ->
                dctx (Z.lor (t_left128 t0) (Z.land (above arow i) 128)) (above arow (i + 1)) (above arow (i + 2)) = 128 * cd_cq c1).
      { intros t0 Ht0 Hrt0. destruct (Hctx t0 (i + 1) Ht0) as [C _]. replace (i + 1 - 1) with i in C by ring.
        replace (i + 1 + 1) with (i + 2) in C by ring. rewrite C, Hrt0. reflexivity. }
      assert (Hctx2 : forall t1, 0 <= t1 < 65536 -> vl_rho t1 = q_rho (cd_q c1) ->
                Z.lor (t_left128 t1) (Z.land (above arow (i + 1)) 128) =
                Z.lor (t_left128 (16 * q_rho (q_of a1))) (Z.land (above arow (i + 2 - 1)) 128)).
      { intros t1 Ht1 Hrt1. rewrite (t_left_rho t1 Ht1), (t_left_rho _ H116), Hrt1, H1rho.
        replace (i + 2 - 1) with (i + 1) by ring. reflexivity. }
      cbn [length geom] in Hgeo.
      destruct HP as [HM [HV HC]]. cbn [map enc_rowN st_app st_mel st_vlc fst snd] in HM, HV, HC.
      set (next := enc_rowN pq (map q_of rest') (i + 2) (q_rho (q_of a1))) in *.
      rewrite <- !app_assoc in HM. cbn [app] in HV, HC. rewrite <- !app_assoc in HV, HC.
      pose proof (Forall_inv_tail (Forall_inv_tail HC)) as HC2. apply Forall_app in HC2. destruct HC2 as [_ HC3].
      destruct (rowN_step_pair kmax c0 c1 arow w x i _ ms v (st_mel next ++ st_mel R) (st_vlc next ++ st_vlc R) _ Hk Hc0 Hc1
                  ltac:(rewrite !Nat2Z.inj_succ in Hgeo; lia) Hc0eq Hctx1 Hctx2 HM HV HC3)
        as [e0 [e1 [ms1 [v1 [Es [He0 [He1 [HM1 HV1]]]]]]]].
      assert (HP1 : P1 (ms1, v1) (st_app next R)) by (split; [exact HM1|split; [exact HV1|exact HC3]]).
      assert (Hgeo' : geom w (x + 4) (length rest')).
      { destruct rest'; cbn [length geom] in *; rewrite ?Nat2Z.inj_succ in *; lia. }
      destruct (IH rest' (i + 2) (q_rho (q_of a1)) (x + 4) ms1 v1 R ltac:(cbn [length] in Hlen; lia) Hk Hvq2 Hrel Hpcs Hr1 Hgeo' HP1)
        as [drow [ms2 [v2 [Ed [HP2 [Hrel' Hcs]]]]]].
      change (Nat.div2 (S (length (a0 :: a1 :: rest')))) with (S (Nat.div2 (S (length rest')))).
      rewrite dec_rowN_unfold, Es, Ed.
      exists (e0 :: e1 :: drow), ms2, v2. split; [reflexivity|]. split; [exact HP2|].
      cbn [codesN rel_row]. fold pq. fold c0 c1. split; [split; [exact He0|split; [exact He1|exact Hrel']]|].
      constructor; [exact Hc0|constructor; [exact Hc1|exact Hcs]].
Qed.

(* ---------- all rows of phase 1 ---------- *)
Lemma codes0_quads : forall vqs cq, map cd_q (codes0 vqs cq) = map q_of vqs.
Proof.
  intros vqs. remember (length vqs) as n eqn:En. revert vqs En.
  induction n as [n IH] using lt_wf_ind. intros vqs En cq.
  destruct vqs as [|a0 [|a1 rest]]; [reflexivity|reflexivity|].
  cbn [codes0 map]. unfold cd_q at 1 2. cbn [cd_vq]. f_equal. f_equal.
  apply (IH (length rest)); [subst n; cbn [length]; lia|reflexivity].
Qed.

Lemma codesN_quads : forall pq vqs i left, map cd_q (codesN pq vqs i left) = map q_of vqs.
Proof.
  intros pq vqs. remember (length vqs) as n eqn:En. revert vqs En.
  induction n as [n IH] using lt_wf_ind. intros vqs En i left.
  destruct vqs as [|a0 [|a1 rest]]; [reflexivity|reflexivity|].
  cbn [codesN map]. unfold cd_q at 1 2. cbn [cd_vq]. f_equal. f_equal.
  apply (IH (length rest)); [subst n; cbn [length]; lia|reflexivity].
Qed.

Fixpoint all_codesN (pcs : list code) (vrows : list (list vq)) : list (list code) :=
  match vrows with
  | [] => []
  | vr :: rest => let cs := codesN (map cd_q pcs) vr 0 0 in cs :: all_codesN cs rest
  end.

Fixpoint rel_rows (drows : list (list (Z * Z))) (css : list (list code)) : Prop :=
  match drows, css with
  | [], [] => True
  | d :: ds, c :: cs => rel_row false d c /\ rel_rows ds cs
  | _, _ => False
  end.

Lemma dec_rows_spec : forall kmax w nq vrows fp arow pcs ms v R,
  1 <= kmax <= 30 -> Forall (fun vr => Forall (vq_ok kmax) vr /\ length vr = nq) vrows ->
  rel_row fp arow pcs -> Forall (code_ok kmax) pcs -> geom w 0 nq ->
  P1 (ms, v) (st_app (enc_rows (map (map q_of) vrows) (map cd_q pcs)) R) ->
  exists ms' v',
    rel_rows (dec_rows (length vrows) (Nat.div2 (S nq)) arow w (ms, v)) (all_codesN pcs vrows) /\
    Forall (Forall (code_ok kmax)) (all_codesN pcs vrows) /\
    (* the state after the last row is not returned by dec_rows; its invariant is kept for the record *)
    P1 (ms', v') R.
Proof.
  intros kmax w nq vrows. induction vrows as [|vr vrows IH]; intros fp arow pcs ms v R Hk Hrows Hrel Hpcs Hgeo HP.
  - cbn [length dec_rows all_codesN rel_rows map enc_rows] in *. exists ms, v. split; [exact I|]. split; [constructor|].
    destruct HP as [A [B C]]. split; [exact A|split; assumption].
  - inversion Hrows as [|? ? [Hvr Hlen] Hrows']; subst.
    cbn [map enc_rows] in HP.
    assert (HP' : P1 (ms, v) (st_app (enc_rowN (map cd_q pcs) (map q_of vr) 0 0)
                                (st_app (enc_rows (map (map q_of) vrows) (map q_of vr)) R))).
    { destruct HP as [A [B C]]. unfold P1 in *. cbn [st_app st_mel st_vlc fst snd] in *.
      rewrite <- !app_assoc in A, B, C. split; [exact A|split; assumption]. }
    destruct (dec_rowN_spec kmax w fp arow pcs (length vr) vr 0 0 0 ms v _ (le_n _) Hk Hvr Hrel Hpcs ltac:(lia) Hgeo HP')
      as [drow [ms1 [v1 [Ed [HP1 [Hrel1 Hcs1]]]]]].
    assert (E0 : Z.lor (t_left128 (16 * 0)) (Z.land (above arow (0 - 1)) 128) = 0) by reflexivity.
    rewrite E0 in Ed.
    cbn [length dec_rows all_codesN]. rewrite Ed.
    set (cs := codesN (map cd_q pcs) vr 0 0) in *.
    assert (Eq : map cd_q cs = map q_of vr) by (apply codesN_quads).
    rewrite <- Eq in HP1.
    destruct (IH false drow cs ms1 v1 R Hk Hrows' Hrel1 Hcs1 Hgeo HP1) as [ms2 [v2 [Hrr [Hcc HP2]]]].
    exists ms2, v2. cbn [rel_rows]. split; [split; [exact Hrel1|exact Hrr]|]. split; [constructor; [exact Hcs1|exact Hcc]|exact HP2].
Qed.
