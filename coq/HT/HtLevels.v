(* EXTRACT *)
(* HTJ2K level clamp, reversible QCD exponents, Kmax / missing-MSB arithmetic, Scup locator.
   Models of
     jpeg2000/htj2k/codec.go          calculateMaxLevels
     jpeg2000/quantization.go         calculateOpenJPHQuantizationParams (lossless branch)
     jpeg2000/encoder.go              quantizationInfo (HTJ2K lossless), subbandIndex, bandNumbps,
                                      writeQCD (lossless), codeBlockPassLayout (HTJ2K),
                                      resolutionDimsWithOrigin / splitLengths / nextCoord
     jpeg2000/t2/bitplane.go          bandNumbpsFromQCD (style 0)
     jpeg2000/t2/tile_decoder.go      htj2kMissingMSBs
     jpeg2000/htj2k/openjph_cleanup_encoder.go / _decoder.go   Kmax guard, sample <-> sign-magnitude
                                      word conversion (shift = 31 - Kmax), p = 30 - missingMSBs
     jpeg2000/htj2k/encoder.go        writeScupLocator ; decoder.go parseStandardSegments
   The BIBO gain tables are regenerated (Gen/HtTables_gen.v) as integers x 10^4. *)
From V Require Import Common.Base Gen.HtTables_gen.

(* ---------- calculateMaxLevels ---------- *)
(* for (1 << maxLevels) < minDim { maxLevels++ } ; fuel 62 covers minDim <= 2^62 (the Go loop does
   not terminate beyond that; dimensions come from uint16 fields). Out of fuel: -1. *)
Fixpoint cml_loop (fuel : nat) (l minDim : Z) : Z :=
  match fuel with
  | O => -1
  | S k => if Z.shiftl 1 l <? minDim then cml_loop k (l + 1) minDim else l
  end.
Definition calc_max_levels (w h : Z) : Z :=
  let minDim := if h <? w then h else w in
  if minDim <=? 0 then 0
  else let l := cml_loop 63 0 minDim in
       if l <? 0 then -1 else if l >? 6 then 6 else l.

(* codec.go: if htj2kParams.NumLevels > maxLevels { maxLevels } else { NumLevels } *)
Definition clamp_levels (requested w h : Z) : Z :=
  let m := calc_max_levels w h in if requested >? m then m else requested.

(* resolutionDimsWithOrigin along one axis: n samples starting at coordinate x0, `levels` splits *)
Definition split_len (n : Z) (even : bool) : Z := if even then Z.quot (n + 1) 2 else Z.quot n 2.
Fixpoint res_dim (levels : nat) (n x0 : Z) : Z :=
  match levels with
  | O => n
  | S k => res_dim k (split_len n (Z.even x0)) (Z.shiftr (x0 + 1) 1)
  end.

(* ---------- reversible QCD exponents ---------- *)
(* ceil(log2(n/d)) for a rational n/d > 1 : the least k >= 0 with n <= d * 2^k. Out of fuel: -1. *)
Fixpoint clog2_loop (fuel : nat) (k n d : Z) : Z :=
  match fuel with
  | O => -1
  | S f => if n <=? d * 2 ^ k then k else clog2_loop f (k + 1) n d
  end.
Definition clog2_q (n d : Z) : Z := clog2_loop 64 0 n d.

Definition bibo_low (d : Z) : Z := znth ht_bibo53_low_e4 d 0.
Definition bibo_high (d : Z) : Z := znth ht_bibo53_high_e4 d 0.
Definition e8 : Z := 100000000.

(* appendExponent(v): v*v as the exact rational num / 10^8.
     exponent = precision + ceil(log2(v*v)) - 1 ;  v*v <= 1 -> exponent = precision
   (Go computes v*v in float64, for the HL/LH bands as sqrt(a*b)^2; HtProofs shows every v*v of the
   regenerated tables is at relative distance > 2^-20 from a power of two, so float rounding
   cannot change the ceiling.) *)
Definition rev_exponent (precision num : Z) : Z :=
  if num <=? e8 then precision else precision + clog2_q num e8 - 1.

(* squared 2-D gain numerators (x 10^8), in QCD order LL, then for d = L..1: HL, LH, HH *)
Fixpoint gain2_tail (d : nat) : list Z :=
  match d with
  | O => []
  | S k =>
    let lh := bibo_low (Z.of_nat d) * bibo_high (Z.of_nat k) in
    let hh := bibo_high (Z.of_nat k) * bibo_high (Z.of_nat k) in
    lh :: lh :: hh :: gain2_tail k
  end.
Definition clampL (numLevels : Z) : Z := if numLevels <? 0 then 0 else if numLevels >? 6 then 6 else numLevels.
Definition gain2_list (numLevels : Z) : list Z :=
  let L := clampL numLevels in
  (bibo_low L * bibo_low L) :: gain2_tail (Z.to_nat L).

Definition ht_guard_bits : Z := 1.   (* QuantizationParams{Style: 0, GuardBits: 1, ...} *)

(* EncodedSteps[i] = uint16(int(v) << 3) *)
Definition rev_encoded_steps (numLevels bitDepth : Z) (rct : bool) : list Z :=
  let precision := if rct then bitDepth + 1 else bitDepth in
  map (fun g => wrapU 16 (Z.shiftl (rev_exponent precision g) 3)) (gain2_list numLevels).
(* quantizationInfo: expn[i] = int(step >> 3) *)
Definition rev_expn (numLevels bitDepth : Z) (rct : bool) : list Z :=
  map (fun s => Z.shiftr s 3) (rev_encoded_steps numLevels bitDepth rct).

(* writeQCD (lossless): Sqcd = uint8(guardBits << 5), SPqcd[i] = uint8(expn << 3) *)
Definition qcd_rev_bytes (numLevels bitDepth : Z) (rct : bool) : list Z :=
  wrapU 8 (Z.shiftl ht_guard_bits 5) :: map (fun e => wrapU 8 (Z.shiftl e 3)) (rev_expn numLevels bitDepth rct).

(* subbandIndex(numLevels, res, band) *)
Definition subband_index (numLevels res band : Z) : Z :=
  if (res <? 0) || (res >? numLevels) then -1
  else if res =? 0 then (if negb (band =? 0) then -1 else 0)
  else if (band <? 1) || (band >? 3) then -1
  else 1 + (res - 1) * 3 + (band - 1).

(* Encoder.bandNumbps(res, band) : info.expn[idx] + info.guardBits - 1, 0 when idx is out of range *)
Definition enc_band_numbps (numLevels bitDepth : Z) (rct : bool) (res band : Z) : Z :=
  let expn := rev_expn numLevels bitDepth rct in
  let idx := subband_index numLevels res band in
  if (idx <? 0) || (idx >=? zlen expn) then 0
  else znth expn idx 0 + ht_guard_bits - 1.

(* codeBlockPassLayout in HTJ2K mode: (numPasses, zeroBitPlanes) *)
Definition ht_pass_layout (cblkNumbps bandNumbps : Z) : Z * Z :=
  let z := bandNumbps - 1 in
  let z := if z <? 0 then 0 else z in
  (if cblkNumbps =? 0 then 0 else 1, z).

(* bandNumbpsFromQCD, style 0: Some (SPqcd[idx] >> 3 + guardBits - 1); None = (0,false) *)
Definition dec_band_numbps (qcd : list Z) (numLevels res band : Z) : option Z :=
  match qcd with
  | [] => None
  | sqcd :: sp =>
    let idx := subband_index numLevels res band in
    if idx <? 0 then None
    else if negb (Z.land sqcd 31 =? 0) then None      (* other styles: not this model *)
    else if idx >=? zlen sp then None
    else Some (Z.shiftr (znth sp idx 0) 3 + Z.shiftr sqcd 5 - 1)
  end.

(* htj2kMissingMSBs(info, bandNumbps) *)
Definition ht_missing_msbs (zbpSet : bool) (zbp bandNumbps : Z) : Z :=
  if zbpSet then zbp else if bandNumbps <=? 0 then 0 else bandNumbps - 1.

(* ---------- cleanup pass entry arithmetic ---------- *)
(* encodeOpenJPHCleanup: reject kmax <= 0 || kmax >= 31; missingMSBs = kmax-1; p = 30-missingMSBs *)
Definition ht_kmax_ok (kmax : Z) : bool := (0 <? kmax) && (kmax <? 31).
Definition ht_enc_p (kmax : Z) : Z := 30 - (kmax - 1).
(* decodeOpenJPHCleanup(codeblock, w, h, kmax, missingMSBs): p = 30 - missingMSBs *)
Definition ht_dec_p (missingMSBs : Z) : Z := 30 - missingMSBs.

(* cb[i] = sign | uint32(mag) << (31-kmax)  for an int32 coefficient v (mag = -v wraps at minint) *)
Definition ht_sample_pack (kmax v : Z) : Z :=
  let sign := if v <? 0 then 2147483648 else 0 in
  let mag := if v <? 0 then wrapS 32 (- v) else v in
  Z.lor sign (wrapU 32 (Z.shiftl (wrapU 32 mag) (31 - kmax))).
(* out[i] = +-int32((v & 0x7FFFFFFF) >> (31-kmax)) *)
Definition ht_sample_unpack (kmax w : Z) : Z :=
  let mag := Z.shiftr (Z.land w 2147483647) (31 - kmax) in
  if negb (Z.land w 2147483648 =? 0) then - mag else mag.

(* number of magnitude bits: bits.Len of |v| *)
Definition mag_bits (v : Z) : Z := if v =? 0 then 0 else Z.log2 (Z.abs v) + 1.

(* ---------- Scup locator ---------- *)
(* writeScupLocator(block, scup): no-op when len(block) < 2 *)
Definition scup_write_rev (rev : list Z) (scup : Z) : list Z :=
  match rev with
  | last :: prev :: r =>
    wrapU 8 (Z.shiftr scup 4) :: Z.lor (Z.land prev 240) (wrapU 8 (Z.land scup 15)) :: r
  | _ => rev
  end.
Definition scup_write (block : list Z) (scup : Z) : list Z := rev (scup_write_rev (rev block) scup).

(* parseStandardSegments: Err when len(codeblock) < 2 (since /repo "fix: HTJ2K block decoder reads
   the Scup locator of code-blocks shorter than two bytes"; before, index -1 panicked) or the
   locator is invalid, else (MagSgn part, cleanup part) *)
Definition scup_parse (block : list Z) : outcome (list Z * list Z) :=
  let lcup := zlen block in
  if lcup <? 2 then Err
  else
    let scup := Z.lor (Z.shiftl (znth block (lcup - 1) 0) 4) (Z.land (znth block (lcup - 2) 0) 15) in
    if (scup <? 2) || (scup >? lcup) || (scup >? 4079) then Err
    else let n := Z.to_nat (lcup - scup) in Ok (firstn n block, skipn n block).
