(* EXTRACT *)
(* HTJ2K MEL: the 13-state adaptive run-length coder, both implementations of the package.
     jpeg2000/htj2k/mel.go                       MELEncoder (EncodeBit, emitBit, Flush), MELDecoder (readBit, DecodeBit)
     jpeg2000/htj2k/openjph_cleanup_encoder.go   ojphMELWriter (encode, emitBit), terminateOJPHMELVLC
     jpeg2000/htj2k/openjph_cleanup_decoder.go   ojphMELReader (readBit, decodeMore, getRun), the run
                                                 consumption of ojphCleanupState.applyZeroRun
   MELEncoder and ojphMELWriter have the same EncodeBit/emitBit code (uint8 vs int tmp: at most 8
   bits are ever held, so no difference); they differ in termination.  The exponent table MelE[13]
   is regenerated (ht_mel_e).  Byte stuffing: the byte after a 0xFF carries 7 bits (MSB 0). *)
From V Require Import Common.Base Gen.HtTables_gen.

Definition mel_e (k : Z) : Z := znth ht_mel_e k 0.

(* ---------- writer ---------- *)
Record melw : Type := mk_melw
  { mw_buf : list Z;     (* bytes emitted, REVERSED (head = last byte) *)
    mw_tmp : Z; mw_rem : Z; mw_run : Z; mw_k : Z; mw_thr : Z }.

Definition melw_init : melw := mk_melw [] 0 8 0 0 1.

(* emitBit *)
Definition melw_emit (s : melw) (b : Z) : melw :=
  let tmp := wrapU 8 (Z.lor (Z.shiftl (mw_tmp s) 1) (Z.land b 1)) in
  let rem := mw_rem s - 1 in
  if rem =? 0 then mk_melw (tmp :: mw_buf s) 0 (if tmp =? 255 then 7 else 8) (mw_run s) (mw_k s) (mw_thr s)
  else mk_melw (mw_buf s) tmp rem (mw_run s) (mw_k s) (mw_thr s).

(* for t := MelE[k]; t > 0; { t--; emitBit((run >> t) & 1) } *)
Fixpoint melw_emit_run (t : nat) (s : melw) (run : Z) : melw :=
  match t with
  | O => s
  | S t' => melw_emit_run t' (melw_emit s (Z.land (Z.shiftr run (Z.of_nat t')) 1)) run
  end.

Definition melw_set (s : melw) (run k : Z) : melw :=
  mk_melw (mw_buf s) (mw_tmp s) (mw_rem s) run k (Z.shiftl 1 (mel_e k)).

(* EncodeBit(bit) / encode(bit): event false = "continue run", true = "terminate run" *)
Definition melw_encode (s : melw) (ev : bool) : melw :=
  if ev then
    let s1 := melw_emit s 0 in
    let s2 := melw_emit_run (Z.to_nat (mel_e (mw_k s))) s1 (mw_run s) in
    melw_set s2 0 (if mw_k s >? 0 then mw_k s - 1 else mw_k s)
  else
    let run := mw_run s + 1 in
    if run >=? mw_thr s then
      let s1 := melw_emit s 1 in
      melw_set s1 0 (if mw_k s <? 12 then mw_k s + 1 else mw_k s)
    else mk_melw (mw_buf s) (mw_tmp s) (mw_rem s) run (mw_k s) (mw_thr s).

Definition melw_encode_all (evs : list bool) : melw := fold_left melw_encode evs melw_init.

(* MELEncoder.Flush: a pending run is closed with a 1-event, the open byte is left-aligned *)
Definition mel_flush (s : melw) : list Z :=
  let s := if mw_run s >? 0 then melw_encode s true else s in
  if negb (mw_rem s =? 8) then rev (wrapU 8 (Z.shiftl (mw_tmp s) (mw_rem s)) :: mw_buf s)
  else rev (mw_buf s).

Definition mel_encode_bytes (evs : list bool) : list Z := mel_flush (melw_encode_all evs).

(* terminateOJPHMELVLC(mel, vlc): a pending run is closed with a single 1 BIT (a full run), then
   the last MEL byte is fused with the open VLC byte when their used bits do not collide.
   vlc_tmp / vlc_used are ojphVLCWriter.tmp / usedBits, vlc_more = (len(vlc.buf) > 1).
   Result: (MEL bytes, Some b if the VLC writer gets its open byte b appended). *)
Definition ojph_mel_terminate (s : melw) (vlc_tmp vlc_used : Z) (vlc_more : bool)
  : list Z * option Z :=
  let s := if mw_run s >? 0 then melw_emit s 1 else s in
  let mtmp := Z.shiftl (mw_tmp s) (mw_rem s) in
  let melMask := Z.land (Z.shiftl 255 (mw_rem s)) 255 in
  let vlcMask := if vlc_used >? 0 then Z.shiftr 255 (8 - vlc_used) else 0 in
  if Z.lor melMask vlcMask =? 0 then (rev (mw_buf s), None)
  else
    let fuse := Z.lor mtmp vlc_tmp in
    if (Z.lor (Z.land (Z.lxor fuse mtmp) melMask) (Z.land (Z.lxor fuse vlc_tmp) vlcMask) =? 0)
       && negb (fuse =? 255) && vlc_more
    then (rev (wrapU 8 fuse :: mw_buf s), None)
    else (rev (wrapU 8 mtmp :: mw_buf s), Some (wrapU 8 vlc_tmp)).

(* ---------- MELDecoder ---------- *)
Record meld : Type := mk_meld
  { md_data : list Z;    (* bytes not yet read *)
    md_last : Z; md_bits : Z; md_buf : Z; md_k : Z; md_pz : Z; md_pone : bool }.

Definition meld_init (data : list Z) : meld := mk_meld data 0 0 0 0 0 false.

(* readBit: None = (0, false) *)
Definition meld_read_bit (s : meld) : option (Z * meld) :=
  let fill :=
    if md_bits s =? 0 then
      match md_data s with
      | [] => None
      | b :: r =>
        if md_last s =? 255 then Some (mk_meld r b 7 (wrapU 8 (Z.shiftl (Z.land b 127) 1)) (md_k s) (md_pz s) (md_pone s))
        else Some (mk_meld r b 8 b (md_k s) (md_pz s) (md_pone s))
      end
    else Some s in
  match fill with
  | None => None
  | Some s =>
    Some (Z.land (Z.shiftr (md_buf s) 7) 1,
          mk_meld (md_data s) (md_last s) (md_bits s - 1) (wrapU 8 (Z.shiftl (md_buf s) 1)) (md_k s) (md_pz s) (md_pone s))
  end.

(* runVal = (runVal << 1) | bit, eval times *)
Fixpoint meld_read_run (n : nat) (s : meld) (acc : Z) : option (Z * meld) :=
  match n with
  | O => Some (acc, s)
  | S n' => match meld_read_bit s with
            | None => None
            | Some (b, s') => meld_read_run n' s' (Z.lor (Z.shiftl acc 1) b)
            end
  end.

Definition meld_pending (s : meld) : option (bool * meld) :=
  if md_pz s >? 0 then Some (false, mk_meld (md_data s) (md_last s) (md_bits s) (md_buf s) (md_k s) (md_pz s - 1) (md_pone s))
  else if md_pone s then Some (true, mk_meld (md_data s) (md_last s) (md_bits s) (md_buf s) (md_k s) (md_pz s) false)
  else None.

(* DecodeBit: None = (0, false). After a codeword is read the recursive call always finds a
   pending symbol, so the recursion is unrolled once. *)
Definition meld_decode (s : meld) : option (bool * meld) :=
  match meld_pending s with
  | Some r => Some r
  | None =>
    match meld_read_bit s with
    | None => None
    | Some (lead, s1) =>
      let eval := mel_e (md_k s1) in
      if lead =? 1 then
        meld_pending (mk_meld (md_data s1) (md_last s1) (md_bits s1) (md_buf s1)
                        (if md_k s1 <? 12 then md_k s1 + 1 else md_k s1) (Z.shiftl 1 eval) (md_pone s1))
      else
        match meld_read_run (Z.to_nat eval) s1 0 with
        | None => None
        | Some (runVal, s2) =>
          meld_pending (mk_meld (md_data s2) (md_last s2) (md_bits s2) (md_buf s2)
                          (if md_k s2 >? 0 then md_k s2 - 1 else md_k s2) runVal true)
        end
    end
  end.

Fixpoint meld_decode_n (n : nat) (s : meld) : option (list bool) :=
  match n with
  | O => Some []
  | S n' => match meld_decode s with
            | None => None
            | Some (b, s') => match meld_decode_n n' s' with
                              | None => None
                              | Some l => Some (b :: l)
                              end
            end
  end.

Definition mel_decode_bytes (n : nat) (data : list Z) : option (list bool) :=
  meld_decode_n n (meld_init data).

(* ---------- ojphMELReader ---------- *)
Record melr : Type := mk_melr
  { mr_data : list Z;      (* bytes not yet read: data[pos:] *)
    mr_size : Z;           (* bytes still allowed: initially len(data) - 1 *)
    mr_unstuff : bool;
    mr_k : Z;
    mr_runs : list Z;      (* queued runs (the 7-bit fields of `runs`, oldest first) *)
    mr_bitbuf : list Z }.  (* bitBuf *)

Definition melr_init (data : list Z) : melr := mk_melr data (zlen data - 1) false 0 [] [].

(* bits validBits-1 .. 0 of d, most significant first *)
Fixpoint msb_bits (n : nat) (d : Z) : list Z :=
  match n with O => [] | S n' => Z.land (Z.shiftr d (Z.of_nat n')) 1 :: msb_bits n' d end.

(* readBit: an exhausted reader returns 1 for ever. The `for len(bitBuf) == 0` loop runs at most
   once because a refill always delivers 7 or 8 bits. *)
Definition melr_read_bit (s : melr) : Z * melr :=
  match mr_bitbuf s with
  | b :: r => (b, mk_melr (mr_data s) (mr_size s) (mr_unstuff s) (mr_k s) (mr_runs s) r)
  | [] =>
    if mr_size s <=? 0 then (1, s)
    else
      let '(d, data', size') :=
        match mr_data s with
        | [] => (255, [], mr_size s)
        | d0 :: r => (if mr_size s =? 1 then Z.lor d0 15 else d0, r, mr_size s - 1)
        end in
      let bits := msb_bits (if mr_unstuff s then 7 else 8) d in
      match bits with
      | b :: r => (b, mk_melr data' size' (d =? 255) (mr_k s) (mr_runs s) r)
      | [] => (1, s)
      end
  end.

Fixpoint melr_read_run (n : nat) (s : melr) (acc : Z) : Z * melr :=
  match n with
  | O => (acc, s)
  | S n' => let '(b, s') := melr_read_bit s in melr_read_run n' s' (Z.lor (Z.shiftl acc 1) b)
  end.

(* one iteration of the decodeMore loop: decode one codeword into a run value 2*zeros (+1 when the
   run ends with a 1-event) and queue it *)
Definition melr_decode_one (s : melr) : melr :=
  let eval := mel_e (mr_k s) in
  let '(lead, s1) := melr_read_bit s in
  if lead =? 1 then
    mk_melr (mr_data s1) (mr_size s1) (mr_unstuff s1) (if mr_k s1 <? 12 then mr_k s1 + 1 else mr_k s1)
            (mr_runs s1 ++ [Z.shiftl (Z.shiftl 1 eval - 1) 1]) (mr_bitbuf s1)
  else
    let '(run, s2) := melr_read_run (Z.to_nat eval) s1 0 in
    mk_melr (mr_data s2) (mr_size s2) (mr_unstuff s2) (if mr_k s2 >? 0 then mr_k s2 - 1 else mr_k s2)
            (mr_runs s2 ++ [Z.shiftl run 1 + 1]) (mr_bitbuf s2).

Fixpoint melr_decode_more (fuel : nat) (s : melr) : melr :=
  match fuel with
  | O => s
  | S f => if zlen (mr_runs s) <? 8 then melr_decode_more f (melr_decode_one s) else s
  end.

(* getRun *)
Definition melr_get_run (s : melr) : Z * melr :=
  let s := match mr_runs s with [] => melr_decode_more 8 s | _ => s end in
  match mr_runs s with
  | [] => (1073741824, s)
  | r :: q => (r, mk_melr (mr_data s) (mr_size s) (mr_unstuff s) (mr_k s) q (mr_bitbuf s))
  end.

(* the consumer (ojphCleanupState.applyZeroRun and the u_off pair test): run -= 2; the event is
   (run == -1); if run < 0 { run = getRun() }.  State: (run, reader); started with run = getRun(). *)
Definition ojph_mel_start (data : list Z) : Z * melr := melr_get_run (melr_init data).
Definition ojph_mel_event (st : Z * melr) : bool * (Z * melr) :=
  let '(run, r) := st in
  let run := run - 2 in
  let ev := run =? -1 in
  if run <? 0 then (ev, melr_get_run r) else (ev, (run, r)).

Fixpoint ojph_mel_events (n : nat) (st : Z * melr) : list bool :=
  match n with
  | O => []
  | S n' => let '(ev, st') := ojph_mel_event st in ev :: ojph_mel_events n' st'
  end.
Definition ojph_mel_decode_bytes (n : nat) (data : list Z) : list bool :=
  ojph_mel_events n (ojph_mel_start data).
