(* HTJ2K cleanup pass: a byte bound for the whole cleanup segment HTEncoder.Encode returns.
   MagSgn part: every significant sample emits m = Uq - ek bits with 0 <= m <= 31 (Uq <= Kmax + 1),
   four samples per quad, and ojphMSWriter closes a byte after 8 bits, 7 after a 0xFF byte, so
   7 * (MagSgn bytes) <= (MagSgn bits) + 7 <= 124 * quads + 7.  With HtBlockProofsSize.ht_suffix_fits
   (MEL + VLC suffix <= 4079) a code-block inside the accepted geometry (<= 1024 quads) has
   Lcup <= 18140 + 4079 = 22219 bytes, well below the 65535 the packet decoder accepts. *)
From V Require Import Common.Base Gen.HtTables_gen HT.HtMel HT.HtVlc HT.HtUvlc HT.HtLevels HT.HtBlockBits HT.HtBlockEnc
  HT.HtBitLemmas HT.HtBlockProofsMs HT.HtBlockProofsQuad HT.HtBlockProofsP1 HT.HtBlockProofsMain HT.HtBlockProofsSize.

(* number of bits a call sequence hands to the MagSgn writer *)
Definition blen (calls : list (Z * Z)) : Z := Z.of_nat (length (call_bits calls)).

Lemma blen_nil : blen [] = 0.
Proof. reflexivity. Qed.

Lemma blen_app : forall a b, blen (a ++ b) = blen a + blen b.
Proof. intros a b. unfold blen, call_bits. rewrite flat_map_app, app_length. lia. Qed.

Lemma blen_nonneg : forall a, 0 <= blen a.
Proof. intro a. unfold blen. lia. Qed.

Lemma blen_one : forall c m, 0 <= m -> blen [(c, m)] = m.
Proof.
  intros c m Hm. unfold blen, call_bits. cbn [flat_map snd fst]. rewrite app_nil_r, lsb_bits_length. lia.
Qed.

Lemma land1_range : forall x, 0 <= Z.land x 1 <= 1.
Proof. intro x. destruct (land1_bit x) as [-> | ->]; lia. Qed.

Lemma ms_call_blen : forall q uq t i, uq <= 31 -> 0 <= blen (ms_call q uq t i) <= 31.
Proof.
  intros q uq t i Hu. unfold ms_call.
  destruct (Z.land (q_rho q) (Z.shiftl 1 i) =? 0); [rewrite blen_nil; lia|].
  pose proof (land1_range (Z.shiftr t i)) as Hb.
  destruct (Z.ltb_spec (uq - Z.land (Z.shiftr t i) 1) 0); rewrite blen_one; lia.
Qed.

Lemma ms_calls_blen : forall q uq t, uq <= 31 -> blen (ms_calls q uq t) <= 124.
Proof.
  intros q uq t Hu. unfold ms_calls. rewrite !blen_app.
  pose proof (ms_call_blen q uq t 0 Hu). pose proof (ms_call_blen q uq t 1 Hu).
  pose proof (ms_call_blen q uq t 2 Hu). pose proof (ms_call_blen q uq t 3 Hu). lia.
Qed.

Lemma code_uq31 : forall kmax c, 1 <= kmax <= 30 -> code_ok kmax c -> cd_uq c <= 31.
Proof. intros kmax c Hk Hc. destruct (code_facts kmax true c Hk Hc) as [H _]. lia. Qed.

Lemma enc_row0_ms_size : forall kmax vqs cq, 1 <= kmax <= 30 -> Forall (vq_ok kmax) vqs -> 0 <= cq < 8 ->
  blen (st_ms (enc_row0 (map q_of vqs) cq)) <= 124 * Z.of_nat (length vqs).
Proof.
  intros kmax vqs. remember (length vqs) as n eqn:En. revert vqs En.
  induction n as [n IH] using lt_wf_ind. intros vqs En cq Hk Hvq Hcq.
  destruct vqs as [|a0 [|a1 rest]].
  - subst n. cbn. lia.
  - inversion Hvq as [|? ? Hv0 _]; subst.
    assert (Hc0 : code_ok kmax (mk_code a0 cq 1)) by (unfold code_ok; cbn [cd_vq cd_cq cd_k]; repeat split; try assumption; lia).
    pose proof (code_uq31 kmax _ Hk Hc0) as Hu. unfold cd_uq, cd_q in Hu. cbn [cd_vq cd_k] in Hu.
    cbn [map enc_row0 st_ms length].
    match goal with |- blen (ms_calls ?q ?u ?t) <= _ => pose proof (ms_calls_blen q u t Hu) end. lia.
  - inversion Hvq as [|? ? Hv0 Hvq1]; subst. inversion Hvq1 as [|? ? Hv1 Hvq2]; subst.
    pose proof (q_of_rho_range a0) as Hr0. pose proof (q_of_rho_range a1) as Hr1.
    pose proof (ctx_next0_range _ Hr0) as Hn0. pose proof (ctx_next0_range _ Hr1) as Hn1.
    assert (Hc0 : code_ok kmax (mk_code a0 cq 1)) by (unfold code_ok; cbn [cd_vq cd_cq cd_k]; repeat split; try assumption; lia).
    assert (Hc1 : code_ok kmax (mk_code a1 (ctx_next0 (q_rho (q_of a0))) 1)) by (unfold code_ok; cbn [cd_vq cd_cq cd_k]; repeat split; try assumption; lia).
    pose proof (code_uq31 kmax _ Hk Hc0) as Hu0. unfold cd_uq, cd_q in Hu0. cbn [cd_vq cd_k] in Hu0.
    pose proof (code_uq31 kmax _ Hk Hc1) as Hu1. unfold cd_uq, cd_q in Hu1. cbn [cd_vq cd_k] in Hu1.
    pose proof (IH (length rest) ltac:(cbn [length] in *; lia) rest eq_refl (ctx_next0 (q_rho (q_of a1))) Hk Hvq2 Hn1) as IHm.
    cbn [map enc_row0 st_app st_ms length]. rewrite !blen_app.
    match goal with |- blen (ms_calls ?q ?u ?t) + blen (ms_calls ?q' ?u' ?t') + _ <= _ =>
      pose proof (ms_calls_blen q u t Hu0); pose proof (ms_calls_blen q' u' t' Hu1) end.
    lia.
Qed.

Lemma enc_rowN_ms_size : forall kmax pvqs vqs i left, 1 <= kmax <= 30 -> Forall (vq_ok kmax) pvqs -> Forall (vq_ok kmax) vqs ->
  0 <= left < 16 ->
  blen (st_ms (enc_rowN (map q_of pvqs) (map q_of vqs) i left)) <= 124 * Z.of_nat (length vqs).
Proof.
  intros kmax pvqs vqs. remember (length vqs) as n eqn:En. revert vqs En.
  induction n as [n IH] using lt_wf_ind. intros vqs En i left Hk Hpv Hvq Hleft.
  set (pq := map q_of pvqs) in *.
  assert (Hkap : forall j rho, 1 <= kappa_of pq j rho <= 31) by (intros; apply (kappa_range kmax); assumption).
  assert (Hrr : forall j, 0 <= q_rho (pq_get pq j) < 16) by (intro; apply pq_rho_range).
  destruct vqs as [|a0 [|a1 rest]].
  - subst n. cbn. lia.
  - inversion Hvq as [|? ? Hv0 _]; subst.
    set (c0 := mk_code a0 (Z.lor (ctx_above pq i) (ctx_left left)) (kappa_of pq i (q_rho (q_of a0)))).
    assert (Hc0 : code_ok kmax c0) by (unfold code_ok, c0; cbn [cd_vq cd_cq cd_k]; split; [exact Hv0|split; [apply ctx_above_left_range; assumption|apply Hkap]]).
    pose proof (code_uq31 kmax _ Hk Hc0) as Hu. unfold cd_uq, cd_q, c0 in Hu. cbn [cd_vq cd_k] in Hu.
    cbn [map enc_rowN st_ms length].
    match goal with |- blen (ms_calls ?q ?u ?t) <= _ => pose proof (ms_calls_blen q u t Hu) end. lia.
  - inversion Hvq as [|? ? Hv0 Hvq1]; subst. inversion Hvq1 as [|? ? Hv1 Hvq2]; subst.
    pose proof (q_of_rho_range a0) as Hr0. pose proof (q_of_rho_range a1) as Hr1.
    set (c0 := mk_code a0 (Z.lor (ctx_above pq i) (ctx_left left)) (kappa_of pq i (q_rho (q_of a0)))).
    set (c1 := mk_code a1 (Z.lor (ctx_above pq (i + 1)) (ctx_left (q_rho (q_of a0)))) (kappa_of pq (i + 1) (q_rho (q_of a1)))).
    assert (Hc0 : code_ok kmax c0) by (unfold code_ok, c0; cbn [cd_vq cd_cq cd_k]; split; [exact Hv0|split; [apply ctx_above_left_range; assumption|apply Hkap]]).
    assert (Hc1 : code_ok kmax c1) by (unfold code_ok, c1; cbn [cd_vq cd_cq cd_k]; split; [exact Hv1|split; [apply ctx_above_left_range; assumption|apply Hkap]]).
    pose proof (code_uq31 kmax _ Hk Hc0) as Hu0. unfold cd_uq, cd_q, c0 in Hu0. cbn [cd_vq cd_k] in Hu0.
    pose proof (code_uq31 kmax _ Hk Hc1) as Hu1. unfold cd_uq, cd_q, c1 in Hu1. cbn [cd_vq cd_k] in Hu1.
    pose proof (IH (length rest) ltac:(cbn [length] in *; lia) rest eq_refl (i + 2) (q_rho (q_of a1)) Hk Hpv Hvq2 Hr1) as IHm.
    fold pq in IHm.
    cbn [map enc_rowN st_app st_ms length]. rewrite !blen_app.
    match goal with |- blen (ms_calls ?q ?u ?t) + blen (ms_calls ?q' ?u' ?t') + _ <= _ =>
      pose proof (ms_calls_blen q u t Hu0); pose proof (ms_calls_blen q' u' t' Hu1) end.
    lia.
Qed.

Lemma enc_rows_ms_size : forall kmax n vrows pvqs, 1 <= kmax <= 30 -> Forall (vq_ok kmax) pvqs ->
  Forall (Forall (vq_ok kmax)) vrows -> Forall (fun r => length r = n) vrows ->
  blen (st_ms (enc_rows (map (map q_of) vrows) (map q_of pvqs))) <= Z.of_nat (length vrows) * (124 * Z.of_nat n).
Proof.
  intros kmax n vrows. induction vrows as [|vr vrows IH]; intros pvqs Hk Hpv Hrows Hlen; [cbn; lia|].
  inversion Hrows as [|? ? Hvr Hrows']; subst. inversion Hlen as [|? ? Hl Hlen']; subst.
  pose proof (enc_rowN_ms_size kmax pvqs vr 0 0 Hk Hpv Hvr ltac:(lia)) as A.
  pose proof (IH vr Hk Hvr Hrows' Hlen') as C.
  cbn [map enc_rows st_app st_ms]. rewrite blen_app. cbn [length].
  rewrite Nat2Z.inj_succ. nia.
Qed.

(* ---------- the writer: bytes from bits ---------- *)
Lemma ms_from_len7 : forall l p, 7 * Z.of_nat (length l) <= snd (ms_stream_from l p).
Proof.
  induction l as [|a l IH]; intro p; [cbn; lia|]. cbn [ms_stream_from length].
  specialize (IH a). destruct (ms_stream_from l a) as [v n]. cbn [snd] in IH.
  destruct (p =? 255); cbn [snd]; lia.
Qed.

Lemma msw_terminate_len : forall s, zlen (msw_terminate s) <= Z.of_nat (length (ms_buf s)) + 1.
Proof.
  intro s. unfold msw_terminate, zlen.
  destruct (negb (ms_used s =? 0)).
  - match goal with |- context [if ?c then _ else _] => destruct c end; [rewrite rev_length; lia|].
    rewrite rev_length. cbn [length]. lia.
  - match goal with |- context [if ?c then _ else _] => destruct c end; rewrite rev_length; [|lia].
    destruct (ms_buf s); cbn [tl length]; lia.
Qed.

Lemma ms_bytes_bound : forall calls,
  7 * zlen (msw_terminate (fold_left msw_encode calls msw_init)) <= blen calls + 7.
Proof.
  intro calls. pose proof (MW_calls calls msw_init [] MW_init) as H. cbn [app] in H.
  set (s := fold_left msw_encode calls msw_init) in *.
  destruct H as [_ [Hused [_ [_ [_ [_ Hlen]]]]]].
  pose proof (ms_from_len7 (rev (ms_buf s)) 0) as H7. rewrite rev_length in H7.
  pose proof (msw_terminate_len s) as Ht. unfold blen. lia.
Qed.

Lemma scup_write_len : forall l s, zlen (scup_write l s) = zlen l.
Proof.
  intros l s. unfold scup_write, zlen. rewrite rev_length.
  assert (E : length (scup_write_rev (rev l) s) = length (rev l)).
  { unfold scup_write_rev. destruct (rev l) as [|a [|b r]]; reflexivity. }
  rewrite E, rev_length. reflexivity.
Qed.

Lemma zlen_app : forall (a b : list Z), zlen (a ++ b) = zlen a + zlen b.
Proof. intros a b. unfold zlen. rewrite app_length. lia. Qed.

(* ---------- the block ---------- *)
Theorem ht_block_bytes : forall w h kmax data block,
  1 <= w -> 1 <= h -> 1 <= kmax <= 30 -> good kmax data ->
  Z.quot (w + 1) 2 * Z.quot (h + 1) 2 <= 1024 -> Z.quot (w + 3) 4 * Z.quot (h + 1) 2 <= 512 ->
  ht_block_encode w h kmax data = Ok block -> zlen block <= 22219.
Proof.
  intros w h kmax data block Hw Hh Hk Hgood HQ HP He.
  pose proof (ht_suffix_fits w h kmax data Hw Hh Hk Hgood HQ HP) as Hsuf.
  unfold ht_block_encode in He.
  destruct (negb (zlen data =? w * h)); [discriminate|].
  destruct ((kmax <=? 0) || (kmax >=? 31)); [discriminate|].
  destruct (forallb (fun v => ht_sample_val kmax v =? 0) data); [injection He as <-; cbn; lia|].
  unfold ht_suffix_len in Hsuf. cbv zeta in Hsuf, He.
  set (nq := Z.to_nat (Z.quot (w + 1) 2)).
  set (nqy := Z.to_nat (Z.quot (h + 1) 2)) in *.
  assert (Hq2 : 1 <= Z.quot (h + 1) 2) by (apply Z.quot_le_lower_bound; lia).
  destruct nqy as [|nqy'] eqn:En'; [unfold nqy in En'; lia|].
  set (rest := map (vrow data w h) (xs_from 1 nqy')).
  assert (Erows : map (quad_row (map (ht_sample_pack kmax) data) (30 - (kmax - 1)) w h) (zseq (S nqy')) =
                  map (map q_of) (vrow data w h 0 :: rest)).
  { rewrite zseq_xs, xs_from_S. unfold rest. cbn [map]. rewrite !(quad_row_vrow kmax) by assumption.
    f_equal. rewrite !map_map. apply map_ext. intro r. apply (quad_row_vrow kmax); assumption. }
  rewrite Erows in He, Hsuf. cbn [map enc_streams] in He, Hsuf.
  set (S := st_app (enc_row0 (map q_of (vrow data w h 0)) 0) (enc_rows (map (map q_of) rest) (map q_of (vrow data w h 0)))) in *.
  assert (Hvr0 : Forall (vq_ok kmax) (vrow data w h 0)) by (apply vrow_ok; [lia|exact Hgood]).
  assert (Hrest : Forall (Forall (vq_ok kmax)) rest).
  { unfold rest. apply Forall_forall. intros vr Hin. apply in_map_iff in Hin. destruct Hin as [r [<- _]]. apply vrow_ok; [lia|exact Hgood]. }
  assert (Hrlen : Forall (fun r => length r = nq) rest).
  { unfold rest. apply Forall_forall. intros vr Hin. apply in_map_iff in Hin. destruct Hin as [r [<- _]]. apply vrow_length; exact Hw. }
  pose proof (enc_row0_ms_size kmax (vrow data w h 0) 0 Hk Hvr0 ltac:(lia)) as A0.
  pose proof (enc_rows_ms_size kmax nq rest (vrow data w h 0) Hk Hvr0 Hrest Hrlen) as A1.
  rewrite (vrow_length data w h 0 Hw) in A0. fold nq in A0.
  assert (Elr : length rest = nqy') by (unfold rest; unfold xs_from; rewrite !map_length; apply seq_length).
  rewrite Elr in A1.
  assert (Enq : Z.of_nat nq = Z.quot (w + 1) 2) by (unfold nq; rewrite Z2Nat.id; [reflexivity|apply Z.quot_pos; lia]).
  assert (Enqy : Z.of_nat (Datatypes.S nqy') = Z.quot (h + 1) 2) by (rewrite <- En'; unfold nqy; rewrite Z2Nat.id; lia).
  assert (Hq1 : 0 <= Z.quot (w + 1) 2) by (apply Z.quot_pos; lia).
  assert (Hms : blen (st_ms S) <= 124 * 1024).
  { unfold S. cbn [st_app st_ms]. rewrite blen_app. rewrite Nat2Z.inj_succ in Enqy. nia. }
  pose proof (ms_bytes_bound (st_ms S)) as Hb. clearbody S.
  destruct (ojph_mel_terminate (fold_left melw_encode (st_mel S) melw_init)
              (vw2_tmp (fold_left vlw_encode (st_vlc S) vlw_init)) (vw2_used (fold_left vlw_encode (st_vlc S) vlw_init))
              (1 <? zlen (vw2_buf (fold_left vlw_encode (st_vlc S) vlw_init)))) as [meld extra] eqn:Etr.
  cbn [fst snd] in Hsuf.
  match type of He with (if ?c then _ else _) = _ => destruct c end; [discriminate|].
  injection He as <-. rewrite scup_write_len, !zlen_app. lia.
Qed.

(* the blocks Encoder.validateParams accepts (HtBlockProofsSize.validated_block_geometry) *)
Theorem ht_block_bytes_validated : forall w h W0 H0 kmax data block,
  1 <= w <= W0 -> 1 <= h <= H0 -> W0 mod 4 = 0 -> H0 mod 2 = 0 -> W0 * H0 <= 4096 ->
  1 <= kmax <= 30 -> good kmax data ->
  ht_block_encode w h kmax data = Ok block -> zlen block <= 22219.
Proof.
  intros w h W0 H0 kmax data block Hw Hh HW HH Hp Hk Hgood He.
  destruct (validated_block_geometry w h W0 H0 Hw Hh HW HH Hp) as [HQ HP].
  apply (ht_block_bytes w h kmax data block); try assumption; lia.
Qed.
