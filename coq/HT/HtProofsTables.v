(* HTJ2K CxtVLC / U-VLC: exhaustive theorems over the regenerated tables.
   Every finite fact is decided by vm_compute over the WHOLE domain named in its statement; the
   tables are whatever harness/cmd/gen emitted from the current /repo sources, so a changed table
   entry (or dec[] entry) re-runs — and possibly breaks — these proofs. *)
From V Require Import Common.Base Gen.HtTables_gen HT.HtVlc HT.HtUvlc.

(* ---------- ranges ---------- *)
Definition zrange (a b : Z) : list Z := map (fun i => a + i) (zseq (Z.to_nat (b - a + 1))).

Lemma In_zseq : forall n x, 0 <= x < Z.of_nat n -> In x (zseq n).
Proof.
  intros n x Hx. unfold zseq. replace x with (Z.of_nat (Z.to_nat x)) by lia.
  apply in_map. apply in_seq. lia.
Qed.

Lemma In_zrange : forall a b x, a <= x <= b -> In x (zrange a b).
Proof.
  intros a b x Hx. unfold zrange. replace x with (a + (x - a)) by ring.
  apply in_map. apply In_zseq. lia.
Qed.

Ltac b2p :=
  repeat match goal with
  | H : (_ <=? _) = true |- _ => apply Z.leb_le in H
  | H : (_ <? _) = true |- _ => apply Z.ltb_lt in H
  | H : (_ =? _) = true |- _ => apply Z.eqb_eq in H
  end.

Lemma land127_bound : forall p, 0 <= Z.land p 127 < 128.
Proof.
  intro p. change 127 with (Z.ones 7). rewrite Z.land_ones by lia.
  change (2 ^ 7) with 128. apply Z.mod_pos_bound. lia.
Qed.

(* ---------- source tables are well formed ---------- *)
Definition vlc_entry_wf (e : vlc_entry) : bool :=
  (0 <=? ve_cq e) && (ve_cq e <? 8) && (0 <=? ve_rho e) && (ve_rho e <? 16) &&
  (0 <=? ve_uoff e) && (ve_uoff e <? 2) && (0 <=? ve_ek e) && (ve_ek e <? 16) &&
  (0 <=? ve_e1 e) && (ve_e1 e <? 16) && (1 <=? ve_len e) && (ve_len e <=? 7) &&
  (0 <=? ve_cwd e) && (ve_cwd e <? 2 ^ ve_len e).

Lemma vlc_src_wf : forallb vlc_entry_wf vlc_src0 = true /\ forallb vlc_entry_wf vlc_src1 = true.
Proof. split; vm_compute; reflexivity. Qed.

Lemma vlc_src_nonempty : (0 < length vlc_src0)%nat /\ (0 < length vlc_src1)%nat /\
  length vlc_lookup0 = 1024%nat /\ length vlc_lookup1 = 1024%nat /\
  length ojph_enc0 = 2048%nat /\ length ojph_enc1 = 2048%nat.
Proof. vm_compute. repeat split; lia. Qed.

Definition src_of (first : bool) := if first then vlc_src0 else vlc_src1.
Definition lookup_of (first : bool) := if first then vlc_lookup0 else vlc_lookup1.

(* ---------- vlc_tables_inverse_exhaustive ---------- *)
(* finite core: every source entry x every 7-bit window whose low cwd_len bits are the codeword *)
Definition fields_match (t : Z) (e : vlc_entry) : bool :=
  (vl_rho t =? ve_rho e) && (vl_uoff t =? ve_uoff e) && (vl_ek t =? ve_ek e) &&
  (vl_e1 t =? ve_e1 e) && (vl_len t =? ve_len e).
Definition vlc_inv_ok (tbl : list Z) (e : vlc_entry) : bool :=
  forallb (fun w => implb (Z.land w (2 ^ ve_len e - 1) =? ve_cwd e)
                          (fields_match (vlc_decode tbl (ve_cq e) w) e)) (zseq 128).

Lemma vlc_inv_core : forall first, forallb (vlc_inv_ok (lookup_of first)) (src_of first) = true.
Proof. intros [|]; vm_compute; reflexivity. Qed.

Lemma land127_mask : forall len, 1 <= len <= 7 -> Z.land 127 (2 ^ len - 1) = 2 ^ len - 1.
Proof.
  intros len H.
  assert (C : len = 1 \/ len = 2 \/ len = 3 \/ len = 4 \/ len = 5 \/ len = 6 \/ len = 7) by lia.
  destruct C as [->|[->|[->|[->|[->|[->| ->]]]]]]; reflexivity.
Qed.

Lemma vlc_decode_window : forall tbl c p, vlc_decode tbl c p = vlc_decode tbl c (Z.land p 127).
Proof.
  intros. unfold vlc_decode. rewrite <- Z.land_assoc. reflexivity.
Qed.

(* For EVERY entry of the regenerated encoder-side source table and EVERY stream continuation
   (peek is the reverse VLC stream, only its low cwd_len bits are the codeword), the live decoder
   lookup returns the entry's (rho, u_off, e_k, e_1) and consumes exactly cwd_len bits. *)
Theorem vlc_tables_inverse_exhaustive : forall (first : bool) (e : vlc_entry) (peek : Z),
  In e (src_of first) -> Z.land peek (2 ^ ve_len e - 1) = ve_cwd e ->
  let t := vlc_decode (lookup_of first) (ve_cq e) peek in
  vl_rho t = ve_rho e /\ vl_uoff t = ve_uoff e /\ vl_ek t = ve_ek e /\ vl_e1 t = ve_e1 e /\
  vl_len t = ve_len e.
Proof.
  intros first e peek Hin Hcw. cbv zeta.
  assert (Hwf : vlc_entry_wf e = true).
  { destruct vlc_src_wf as [W0 W1]. destruct first; [exact (proj1 (forallb_forall _ _) W0 e Hin)
                                                    | exact (proj1 (forallb_forall _ _) W1 e Hin)]. }
  unfold vlc_entry_wf in Hwf. repeat (apply andb_prop in Hwf; destruct Hwf as [Hwf ?]). b2p.
  assert (Hlen : 1 <= ve_len e <= 7) by lia.
  pose proof (proj1 (forallb_forall _ _) (vlc_inv_core first) e Hin) as Hok.
  unfold vlc_inv_ok in Hok.
  pose proof (land127_bound peek) as Hb.
  pose proof (proj1 (forallb_forall _ _) Hok (Z.land peek 127) (In_zseq 128 (Z.land peek 127) ltac:(change (Z.of_nat 128) with 128; lia))) as Hw.
  cbv beta in Hw. rewrite <- Z.land_assoc, (land127_mask _ Hlen), Hcw, Z.eqb_refl in Hw. cbn [implb] in Hw.
  rewrite vlc_decode_window. unfold fields_match in Hw.
  repeat (apply andb_prop in Hw; destruct Hw as [Hw ?]).
  repeat split; apply Z.eqb_eq; assumption.
Qed.

(* ---------- the live encoder table against the live decoder table ---------- *)
Definition ojph_valid (cq rho eps : Z) : bool :=
  (Z.land eps rho =? eps) && negb ((rho =? 0) && (cq =? 0)).

Definition ojph_idx_ok (first : bool) (i : Z) : bool :=
  let cq := Z.shiftr i 8 in let rho := Z.land (Z.shiftr i 4) 15 in let eps := Z.land i 15 in
  implb (ojph_valid cq rho eps)
    (let t := ojph_encode_tuple first cq rho eps in
     let len := tuple_len t in let cwd := tuple_cwd t in
     (1 <=? len) && (cwd <? 2 ^ len) &&
     forallb (fun w => implb (Z.land w (2 ^ len - 1) =? cwd)
       (let d := vlc_decode (lookup_of first) cq w in
        (vl_rho d =? rho) && (vl_len d =? len) && (vl_ek d =? tuple_ek t) &&
        (vl_e1 d =? Z.land eps (tuple_ek t)) && (vl_uoff d =? (if eps =? 0 then 0 else 1))))
       (zseq 128)).

Lemma ojph_enc_core : forall first, forallb (ojph_idx_ok first) (zseq 2048) = true.
Proof. intros [|]; vm_compute; reflexivity. Qed.

(* For every (table, context, rho, eps) the live encoder can look up (eps a subset of rho, not the
   all-zero quad in context 0) there IS a codeword (length 1..7), and the live decoder, given that
   codeword followed by anything, recovers rho, consumes its length, and reports exactly the e_k
   pattern the encoder used for its MagSgn bit counts, e_1 = eps & e_k and u_off = (eps != 0). *)
Theorem vlc_ojph_encode_decode : forall (first : bool) (cq rho eps peek : Z),
  0 <= cq < 8 -> 0 <= rho < 16 -> 0 <= eps < 16 -> ojph_valid cq rho eps = true ->
  let t := ojph_encode_tuple first cq rho eps in
  Z.land peek (2 ^ tuple_len t - 1) = tuple_cwd t ->
  let d := vlc_decode (lookup_of first) cq peek in
  1 <= tuple_len t <= 7 /\ vl_rho d = rho /\ vl_len d = tuple_len t /\ vl_ek d = tuple_ek t /\
  vl_e1 d = Z.land eps (tuple_ek t) /\ vl_uoff d = (if eps =? 0 then 0 else 1).
Proof.
  intros first cq rho eps peek Hcq Hrho Heps Hv. cbv zeta. intro Hcw.
  set (i := cq * 256 + rho * 16 + eps).
  assert (Hi : 0 <= i < 2048) by (unfold i; lia).
  pose proof (proj1 (forallb_forall _ _) (ojph_enc_core first) i (In_zseq 2048 i ltac:(change (Z.of_nat 2048) with 2048; lia))) as Hok.
  unfold ojph_idx_ok in Hok.
  assert (E1 : Z.shiftr i 8 = cq).
  { rewrite Z.shiftr_div_pow2 by lia. change (2 ^ 8) with 256. unfold i.
    replace (cq * 256 + rho * 16 + eps) with (rho * 16 + eps + cq * 256) by ring.
    rewrite Z.div_add by lia. rewrite Z.div_small by lia. lia. }
  assert (E2 : Z.land (Z.shiftr i 4) 15 = rho).
  { rewrite Z.shiftr_div_pow2 by lia. change (2 ^ 4) with 16. change 15 with (Z.ones 4).
    rewrite Z.land_ones by lia. change (2 ^ 4) with 16. unfold i.
    replace (cq * 256 + rho * 16 + eps) with (eps + (cq * 16 + rho) * 16) by ring.
    rewrite Z.div_add by lia. rewrite (Z.div_small eps) by lia.
    replace (0 + (cq * 16 + rho)) with (rho + cq * 16) by ring.
    rewrite Z.mod_add by lia. apply Z.mod_small; lia. }
  assert (E3 : Z.land i 15 = eps).
  { change 15 with (Z.ones 4). rewrite Z.land_ones by lia. change (2 ^ 4) with 16. unfold i.
    replace (cq * 256 + rho * 16 + eps) with (eps + (cq * 16 + rho) * 16) by ring.
    rewrite Z.mod_add by lia. apply Z.mod_small; lia. }
  rewrite E1, E2, E3, Hv in Hok. cbn [implb] in Hok.
  apply andb_prop in Hok. destruct Hok as [Hok Hall]. apply andb_prop in Hok. destruct Hok as [Hl1 Hc]. b2p.
  set (t := ojph_encode_tuple first cq rho eps) in *.
  assert (Hlen : 1 <= tuple_len t <= 7).
  { split; [lia|]. unfold tuple_len. change 7 with (Z.ones 3). rewrite Z.land_ones by lia.
    pose proof (Z.mod_pos_bound (Z.shiftr t 4) (2 ^ 3) ltac:(lia)). change (2 ^ 3) with 8 in *.
    change (Z.ones 3) with 7. lia. }
  pose proof (land127_bound peek) as Hb.
  pose proof (proj1 (forallb_forall _ _) Hall (Z.land peek 127) (In_zseq 128 (Z.land peek 127) ltac:(change (Z.of_nat 128) with 128; lia))) as Hw.
  cbv beta in Hw. rewrite <- Z.land_assoc, (land127_mask _ Hlen), Hcw, Z.eqb_refl in Hw. cbn [implb] in Hw.
  rewrite vlc_decode_window.
  repeat (apply andb_prop in Hw; destruct Hw as [Hw ?]).
  split; [exact Hlen|]. repeat split; apply Z.eqb_eq; assumption.
Qed.

(* The two EMB search rules in the package differ only in how they break ties between entries of
   equal popcount(e_k) (`>=` keeps the last, `>` the first). In the regenerated tables no tie
   occurs, so EncodeQuadVLCByEMB (exported) selects the entry of ojphEncoderVLCTable (unexported)
   for every index: this is what lets the harness tie the live encoder table through the
   exported function. *)
Definition entry_eqb (a b : option vlc_entry) : bool :=
  match a, b with
  | Some x, Some y => (ve_cq x =? ve_cq y) && (ve_rho x =? ve_rho y) && (ve_uoff x =? ve_uoff y) &&
                      (ve_ek x =? ve_ek y) && (ve_e1 x =? ve_e1 y) && (ve_cwd x =? ve_cwd y) &&
                      (ve_len x =? ve_len y)
  | None, None => true
  | _, _ => false
  end.
Definition tie_free_at (first : bool) (i : Z) : bool :=
  let cq := Z.shiftr i 8 in let rho := Z.land (Z.shiftr i 4) 15 in let eps := Z.land i 15 in
  entry_eqb (ojph_best_emb (src_of first) cq rho eps (-1) None)
            (vlc_best_emb_first (src_of first) cq rho eps (-1) None).
Theorem vlc_emb_tie_free : forall first i, 0 <= i < 2048 -> tie_free_at first i = true.
Proof.
  intros first i Hi.
  assert (H : forallb (tie_free_at first) (zseq 2048) = true) by (destruct first; vm_compute; reflexivity).
  exact (proj1 (forallb_forall _ _) H i (In_zseq 2048 i ltac:(change (Z.of_nat 2048) with 2048; lia))).
Qed.

(* ---------- U-VLC ---------- *)
Lemma uvlc_table_sizes :
  length uvlc_tbl0 = 320%nat /\ length uvlc_tbl1 = 256%nat /\ length uvlc_bias = 320%nat /\
  length ht_uvlc_dec = 8%nat.
Proof. vm_compute. repeat split. Qed.

(* live pair coder: what ojphEncode{Initial,NonInitial}UVLC emits, followed by any 6 further
   stream bits `rest` (the decoder's table index looks at 6 bits), decodes to (u0, u1) and
   consumes exactly the emitted length. Domain: u0, u1 in 0..34 — the live encoder never emits
   the extension, so 5 + 31 = 36 is the largest single value it can express and 34 the largest
   in the initial-row "both > 2" form; Kmax <= 30 keeps U_q within this range. *)
Definition uvlc_pair_ok (initial : bool) (u0 u1 : Z) : bool :=
  let calls := if initial then ojph_uvlc_initial_calls u0 u1 else ojph_uvlc_noninitial_calls u0 u1 in
  let '(v, n) := pack_calls calls in
  let mode := ojph_uvlc_mode initial u0 u1 in
  forallb (fun rest => let '(d0, d1, c) := ojph_uvlc_decode initial mode (v + Z.shiftl rest n) in
                       (d0 =? u0) && (d1 =? u1) && (c =? n)) (zseq 64).

Lemma uvlc_pair_core : forall initial,
  forallb (fun u0 => forallb (uvlc_pair_ok initial u0) (zrange 0 34)) (zrange 0 34) = true.
Proof. intros [|]; vm_compute; reflexivity. Qed.

Theorem uvlc_pair_exhaustive : forall (initial : bool) (u0 u1 rest : Z),
  0 <= u0 <= 34 -> 0 <= u1 <= 34 -> 0 <= rest < 64 ->
  let '(v, n) := pack_calls (if initial then ojph_uvlc_initial_calls u0 u1
                             else ojph_uvlc_noninitial_calls u0 u1) in
  ojph_uvlc_decode initial (ojph_uvlc_mode initial u0 u1) (v + Z.shiftl rest n) = (u0, u1, n).
Proof.
  intros initial u0 u1 rest H0 H1 Hr.
  pose proof (proj1 (forallb_forall _ _) (uvlc_pair_core initial) u0 (In_zrange 0 34 u0 H0)) as Ha.
  pose proof (proj1 (forallb_forall _ _) Ha u1 (In_zrange 0 34 u1 H1)) as Hb.
  unfold uvlc_pair_ok in Hb.
  destruct (pack_calls _) as [v n].
  pose proof (proj1 (forallb_forall _ _) Hb rest (In_zseq 64 rest ltac:(change (Z.of_nat 64) with 64; lia))) as Hc.
  cbv beta in Hc.
  remember (ojph_uvlc_decode initial (ojph_uvlc_mode initial u0 u1) (v + Z.shiftl rest n)) as r eqn:Er.
  clear Er. destruct r as [[d0 d1] c].
  repeat (apply andb_prop in Hc; destruct Hc as [Hc ?]). b2p. subst. reflexivity.
Qed.

(* spec-style coder (EncodeUVLC / DecodeUnsignedResidual): the whole range the 3+5+4-bit format
   can express, 1..96, followed by ANY further bits. *)
Lemma uvlc_exhaustive_nat : forall k, (k < 96)%nat -> forall rest,
  uvlc_decode_residual (uvlc_stream (Z.of_nat (S k)) ++ rest) = Ok (Z.of_nat (S k), rest).
Proof.
  intros k Hk rest.
  do 96 (destruct k as [|k]; [vm_compute; reflexivity|]). exfalso; lia.
Qed.

Theorem uvlc_exhaustive : forall u rest, 1 <= u <= 96 ->
  uvlc_decode_residual (uvlc_stream u ++ rest) = Ok (u, rest).
Proof.
  intros u rest Hu.
  replace u with (Z.of_nat (S (Z.to_nat (u - 1)))) by lia.
  apply uvlc_exhaustive_nat. lia.
Qed.

(* the bound is sharp: 97 does not round-trip (its extension needs a fifth bit) *)
Lemma uvlc_97_not_supported : uvlc_decode_residual (uvlc_stream 97) = Ok (33, []).
Proof. vm_compute. reflexivity. Qed.
