(* HT cleanup pass, phase 2 of the decoder (MagSgn) in lockstep with the encoder. *)
From V Require Import Common.Base Gen.HtTables_gen HT.HtMel HT.HtVlc HT.HtUvlc HT.HtLevels HT.HtBlockBits
  HT.HtBlockEnc HT.HtBlockDec HT.HtBitLemmas HT.HtBlockProofsMs HT.HtBlockProofsVlc HT.HtBlockProofsRead
  HT.HtProofsTables HT.HtProofsLevels HT.HtBlockProofsQuad HT.HtBlockProofsCodes HT.HtBlockProofsP1.

Definition ms_of (first : bool) (c : code) : list (Z * Z) := ms_calls (cd_q c) (cd_uq c) (cd_tup first c).

Lemma enc_row0_ms : forall vqs cq, st_ms (enc_row0 (map q_of vqs) cq) = flat_map (ms_of true) (codes0 vqs cq).
Proof.
  intros vqs. remember (length vqs) as n eqn:En. revert vqs En.
  induction n as [n IH] using lt_wf_ind. intros vqs En cq.
  destruct vqs as [|a0 [|a1 rest]]; [reflexivity| |].
  - cbn [map enc_row0 st_ms codes0 flat_map]. rewrite app_nil_r. reflexivity.
  - cbn [map enc_row0 st_app st_ms codes0 flat_map].
    rewrite (IH (length rest) ltac:(subst n; cbn [length]; lia) rest eq_refl). rewrite <- app_assoc. reflexivity.
Qed.

Lemma enc_rowN_ms : forall pq vqs i left, st_ms (enc_rowN pq (map q_of vqs) i left) = flat_map (ms_of false) (codesN pq vqs i left).
Proof.
  intros pq vqs. remember (length vqs) as n eqn:En. revert vqs En.
  induction n as [n IH] using lt_wf_ind. intros vqs En i left.
  destruct vqs as [|a0 [|a1 rest]]; [reflexivity| |].
  - cbn [map enc_rowN st_ms codesN flat_map]. rewrite app_nil_r. reflexivity.
  - cbn [map enc_rowN st_app st_ms codesN flat_map].
    rewrite (IH (length rest) ltac:(subst n; cbn [length]; lia) rest eq_refl). rewrite <- app_assoc. reflexivity.
Qed.

Lemma enc_rows_ms : forall vrows pcs,
  st_ms (enc_rows (map (map q_of) vrows) (map cd_q pcs)) = flat_map (flat_map (ms_of false)) (all_codesN pcs vrows).
Proof.
  induction vrows as [|vr vrows IH]; intro pcs; [reflexivity|].
  cbn [map enc_rows st_app st_ms all_codesN flat_map]. rewrite enc_rowN_ms. f_equal.
  rewrite <- (codesN_quads (map cd_q pcs) vr 0 0). apply IH.
Qed.

(* ---------- v_n and the exponent bound of the row above ---------- *)
Definition vn_of (v : Z) : Z := if v =? 0 then 0 else 2 * Z.abs v - 1.

Lemma bitlen_vn : forall v, bitlen32_d (vn_of v) = v_e v /\ 0 <= vn_of v.
Proof.
  intro v. unfold vn_of, v_e. destruct (Z.eqb_spec v 0); [split; [reflexivity|lia]|].
  split; [reflexivity|lia].
Qed.

Lemma bitlen_lor : forall a b, 0 <= a -> 0 <= b -> bitlen32_d (Z.lor a b) = Z.max (bitlen32_d a) (bitlen32_d b).
Proof.
  intros a b Ha Hb. unfold bitlen32_d. pose proof (Z.log2_nonneg a). pose proof (Z.log2_nonneg b).
  destruct (Z.eq_dec a 0) as [->|Na]; [rewrite Z.lor_0_l; cbn [Z.leb Z.compare]; destruct (b <=? 0); lia|].
  destruct (Z.eq_dec b 0) as [->|Nb]; [rewrite Z.lor_0_r; cbn [Z.leb Z.compare]; destruct (a <=? 0); lia|].
  assert (0 < Z.lor a b).
  { assert (0 <= Z.lor a b) by (apply Z.lor_nonneg; lia). destruct (Z.eq_dec (Z.lor a b) 0) as [E|]; [|lia].
    apply Z.lor_eq_0_iff in E. lia. }
  destruct (Z.leb_spec (Z.lor a b) 0); [lia|]. destruct (Z.leb_spec a 0); [lia|]. destruct (Z.leb_spec b 0); [lia|].
  rewrite Z.log2_lor by lia. lia.
Qed.

Lemma t_gamma : forall t, 0 <= t < 65536 ->
  (Z.land (Z.land t 240) (wrapU 32 (Z.land t 240 - 16)) =? 0) = (Z.land (vl_rho t) (vl_rho t - 1) =? 0).
Proof.
  intros t Ht.
  assert (H : all16 (fun t => Bool.eqb (Z.land (Z.land t 240) (wrapU 32 (Z.land t 240 - 16)) =? 0)
                                       (Z.land (vl_rho t) (vl_rho t - 1) =? 0)) = true) by (vm_compute; reflexivity).
  apply Bool.eqb_prop. exact (all16_spec _ H t Ht).
Qed.

Definition VN (vnp : list Z) (pq : list quad) : Prop :=
  forall i, 0 <= znth vnp i 0 /\ bitlen32_d (znth vnp i 0) = e_val pq i.

Lemma kappa_dec : forall vnp pq j inf, VN vnp pq -> 0 <= inf < 65536 ->
  (if negb (Z.land (Z.land inf 240) (wrapU 32 (Z.land inf 240 - 16)) =? 0)
   then bitlen32_d (Z.lor (Z.lor (znth vnp j 0) (znth vnp (j + 1) 0)) 2) - 1 else 1) =
  kappa_of pq j (vl_rho inf).
Proof.
  intros vnp pq j inf HVN Hinf. rewrite (t_gamma inf Hinf). unfold kappa_of, max_e.
  destruct (Z.land (vl_rho inf) (vl_rho inf - 1) =? 0); cbn [negb]; [reflexivity|].
  destruct (HVN j) as [A1 B1]. destruct (HVN (j + 1)) as [A2 B2].
  rewrite !bitlen_lor by (try lia; apply Z.lor_nonneg; lia). rewrite B1, B2.
  change (bitlen32_d 2) with 2. lia.
Qed.

(* expected outputs of one quad row *)
Fixpoint tops_exp (vqs : list vq) (w x : Z) : list Z :=
  match vqs with
  | [] => []
  | (v0, v1, v2, v3) :: r => v0 :: (if x + 1 >=? w then [] else v2 :: tops_exp r w (x + 2))
  end.
Fixpoint bots_exp (vqs : list vq) (w x : Z) : list Z :=
  match vqs with
  | [] => []
  | (v0, v1, v2, v3) :: r => v1 :: (if x + 1 >=? w then [] else v3 :: bots_exp r w (x + 2))
  end.
Fixpoint vns_exp (prevvn : Z) (vqs : list vq) (w x : Z) : list Z :=
  match vqs with
  | [] => [prevvn]
  | (v0, v1, v2, v3) :: r => Z.lor prevvn (vn_of v1) :: (if x + 1 >=? w then [0; 0] else vns_exp (vn_of v3) r w (x + 2))
  end.
(* a quad hanging over the right edge has no right column *)
Fixpoint half_ok (vqs : list vq) (w x : Z) : Prop :=
  match vqs with
  | [] => True
  | (v0, v1, v2, v3) :: r => (x + 1 >= w -> v2 = 0 /\ v3 = 0) /\ half_ok r w (x + 2)
  end.
Fixpoint kok (first : bool) (pq : list quad) (j : Z) (cs : list code) : Prop :=
  match cs with
  | [] => True
  | c :: cs' => cd_k c = (if first then 1 else kappa_of pq j (q_rho (cd_q c))) /\ kok first pq (j + 1) cs'
  end.

Lemma ms_call_zero : forall v0 v1 v2 v3 uq tup i, 0 <= i <= 3 -> vnth v0 v1 v2 v3 i = 0 ->
  ms_call (vquad v0 v1 v2 v3) uq tup i = [].
Proof.
  intros v0 v1 v2 v3 uq tup i Hi Hz. unfold ms_call.
  destruct (vquad_fields v0 v1 v2 v3 i Hi) as [Hs _]. rewrite Hs, Hz. reflexivity.
Qed.

Lemma dec_ms_row_spec : forall kmax (first : bool) pq vnp w cs row x j prevvn m rest,
  1 <= kmax <= 30 ->
  Forall (code_ok kmax) cs -> Forall (fun c => cd_uq c <= kmax + 1) cs ->
  rel_row first row cs -> kok first pq j cs -> (first = false -> VN vnp pq) ->
  geom w x (length cs) -> half_ok (map cd_vq cs) w x ->
  MSC m (flat_map (ms_of first) cs ++ rest) ->
  exists tops bots m',
    dec_ms_row row first vnp w x j (31 - kmax) (kmax - 1 + 2) prevvn m =
      Some (tops, bots, vns_exp prevvn (map cd_vq cs) w x, m') /\
    map (word_to_coef kmax) tops = tops_exp (map cd_vq cs) w x /\
    map (word_to_coef kmax) bots = bots_exp (map cd_vq cs) w x /\
    MSC m' rest.
Proof.
  intros kmax first pq vnp w cs. induction cs as [|c cs IH]; intros row x j prevvn m rest Hk Hcs Huqs Hrel Hkok HVN Hgeo Hhalf HM.
  - cbn [length geom] in Hgeo. cbn [map vns_exp tops_exp bots_exp flat_map app] in *.
    exists [], [], m.
    assert (E : dec_ms_row row first vnp w x j (31 - kmax) (kmax - 1 + 2) prevvn m = Some ([], [], [prevvn], m)).
    { destruct row; cbn [dec_ms_row]; destruct (Z.geb_spec x w); try lia; reflexivity. }
    rewrite E. split; [reflexivity|]. split; [reflexivity|]. split; [reflexivity|exact HM].
  - destruct row as [|[inf uq] row']; [contradiction|]. cbn [rel_row] in Hrel. destruct Hrel as [Hent Hrel'].
    inversion Hcs as [|? ? Hc Hcs']; subst. inversion Huqs as [|? ? Huq Huqs']; subst.
    cbn [kok] in Hkok. destruct Hkok as [Hkc Hkok'].
    destruct Hent as [Hinf [Hrho [Hek [He1 Hu]]]]. cbn [fst snd] in *.
    cbn [length geom] in Hgeo.
    destruct Hc as [Hvq [Hcq Hkap]].
    destruct (cd_vq c) as [[[v0 v1] v2] v3] eqn:Evq.
    cbn [map half_ok] in Hhalf. rewrite Evq in Hhalf. destruct Hhalf as [Hh Hhalf'].
    cbn [vq_ok] in Hvq.
    assert (Eq : cd_q c = vquad v0 v1 v2 v3) by (unfold cd_q; rewrite Evq; reflexivity).
    (* the decoder's U_q *)
    set (uqd := if first then uq else uq + (if negb (Z.land (Z.land inf 240) (wrapU 32 (Z.land inf 240 - 16)) =? 0)
                                             then bitlen32_d (Z.lor (Z.lor (znth vnp j 0) (znth vnp (j + 1) 0)) 2) - 1 else 1)).
    assert (Euq : uqd = cd_uq c).
    { unfold uqd. destruct first; [exact Hu|].
      rewrite (kappa_dec vnp pq j inf (HVN eq_refl) Hinf), Hrho, <- Hkc, Hu. unfold cd_u. ring. }
    cbn [dec_ms_row]. destruct (Z.geb_spec x w) as [?|_]; [rewrite Nat2Z.inj_succ in Hgeo; lia|].
    fold uqd. rewrite Euq.
    destruct (Z.gtb_spec (cd_uq c) (kmax - 1 + 2)) as [?|_]; [lia|].
    (* the four samples *)
    cbn [flat_map] in HM. unfold ms_of at 1 in HM. unfold ms_calls in HM. rewrite Eq in HM. rewrite <- !app_assoc in HM.
    pose proof (dec_sample_in_quad kmax first (cd_cq c) (cd_k c) v0 v1 v2 v3 Hk Hcq Hkap Hvq) as DS.
    assert (Huqc : Z.max (q_emax (vquad v0 v1 v2 v3)) (cd_k c) = cd_uq c) by (unfold cd_uq; rewrite Eq; reflexivity).
    assert (Hepsc : quad_eps (vquad v0 v1 v2 v3) (Z.max (q_emax (vquad v0 v1 v2 v3)) (cd_k c) - cd_k c) = cd_eps c)
      by (unfold cd_eps, cd_u, cd_uq; rewrite Eq; reflexivity).
    assert (Htupc : ojph_encode_tuple first (cd_cq c) (q_rho (vquad v0 v1 v2 v3))
                      (quad_eps (vquad v0 v1 v2 v3) (Z.max (q_emax (vquad v0 v1 v2 v3)) (cd_k c) - cd_k c)) = cd_tup first c)
      by (unfold cd_tup; rewrite Hepsc, Eq; reflexivity).
    rewrite Eq in Hrho.
    assert (DS' : forall i mm r, 0 <= i <= 3 -> MSC mm (ms_call (vquad v0 v1 v2 v3) (cd_uq c) (cd_tup first c) i ++ r) ->
              exists word m', dec_sample mm inf (cd_uq c) i (31 - kmax) =
                                (word, vn_of (vnth v0 v1 v2 v3 i), m') /\
                              word_to_coef kmax word = vnth v0 v1 v2 v3 i /\ MSC m' r).
    { intros i mm r Hi HMM. specialize (DS i inf mm r (31 - kmax) Hi eq_refl Hinf).
      rewrite Htupc, Hepsc, Huqc in DS. apply DS; assumption. }
    destruct (DS' 0 m _ ltac:(lia) HM) as [w0 [m1 [E0 [W0 HM1]]]].
    destruct (DS' 1 m1 _ ltac:(lia) HM1) as [w1 [m2 [E1 [W1 HM2]]]].
    rewrite E0, E1. change (vnth v0 v1 v2 v3 0) with v0 in *. change (vnth v0 v1 v2 v3 1) with v1 in *.
    cbn [map tops_exp bots_exp vns_exp]. rewrite Evq.
    destruct (Z.geb_spec (x + 1) w) as [Hhalfq|Hfull].
    + (* half quad: the row ends here *)
      destruct (Hh ltac:(lia)) as [Z2 Z3].
      rewrite (ms_call_zero v0 v1 v2 v3 _ _ 2 ltac:(lia) Z2), (ms_call_zero v0 v1 v2 v3 _ _ 3 ltac:(lia) Z3) in HM2.
      cbn [app] in HM2.
      (* no further quads *)
      assert (cs = []) by (destruct cs; [reflexivity|cbn [length] in Hgeo; rewrite !Nat2Z.inj_succ in Hgeo; lia]). subst cs.
      cbn [flat_map app] in HM2.
      exists [w0], [w1], m2. split; [reflexivity|]. cbn [map]. rewrite W0, W1. split; [reflexivity|]. split; [reflexivity|exact HM2].
    + destruct (DS' 2 m2 _ ltac:(lia) HM2) as [w2 [m3 [E2 [W2 HM3]]]].
      destruct (DS' 3 m3 _ ltac:(lia) HM3) as [w3 [m4 [E3 [W3 HM4]]]].
      rewrite E2, E3. change (vnth v0 v1 v2 v3 2) with v2 in *. change (vnth v0 v1 v2 v3 3) with v3 in *.
      assert (Hgeo' : geom w (x + 2) (length cs)).
      { destruct cs; cbn [length geom] in *; rewrite ?Nat2Z.inj_succ in *; lia. }
      destruct (IH row' (x + 2) (j + 1) (vn_of v3) m4 rest Hk Hcs' Huqs' Hrel' Hkok' HVN Hgeo' Hhalf' HM4)
        as [tops [bots [m5 [Er [Ht [Hb HM5]]]]]].
      rewrite Er. exists (w0 :: w2 :: tops), (w1 :: w3 :: bots), m5.
      split; [reflexivity|]. cbn [map]. rewrite W0, W1, W2, W3, Ht, Hb. split; [reflexivity|]. split; [reflexivity|exact HM5].
Qed.

(* ---------- the v_n list a row leaves behind bounds the exponents as eVal does ---------- *)
Lemma pq_get_cons : forall q R k, 0 <= k -> pq_get (q :: R) k = if k =? 0 then q else pq_get R (k - 1).
Proof.
  intros q R k Hk. unfold pq_get, znth. destruct (Z.ltb_spec k 0); [lia|].
  destruct (Z.eqb_spec k 0) as [->|N]; [reflexivity|]. destruct (Z.ltb_spec (k - 1) 0); [lia|].
  replace (Z.to_nat k) with (S (Z.to_nat (k - 1))) by lia. reflexivity.
Qed.
Lemma znth_cons : forall (a : Z) l k, 0 <= k -> znth (a :: l) k 0 = if k =? 0 then a else znth l (k - 1) 0.
Proof.
  intros a l k Hk. unfold znth. destruct (Z.ltb_spec k 0); [lia|].
  destruct (Z.eqb_spec k 0) as [->|N]; [reflexivity|]. destruct (Z.ltb_spec (k - 1) 0); [lia|].
  replace (Z.to_nat k) with (S (Z.to_nat (k - 1))) by lia. reflexivity.
Qed.

Definition qe (q : quad) (k : Z) : Z := znth (q_e q) k 0.

Lemma vns_bits : forall vqs w x pv i, 0 <= pv -> 0 <= i -> geom w x (length vqs) -> half_ok vqs w x ->
  0 <= znth (vns_exp pv vqs w x) i 0 /\
  bitlen32_d (znth (vns_exp pv vqs w x) i 0) =
  Z.max (if i =? 0 then bitlen32_d pv else qe (pq_get (map q_of vqs) (i - 1)) 3) (qe (pq_get (map q_of vqs) i) 1).
Proof.
  induction vqs as [|[[[v0 v1] v2] v3] r IH]; intros w x pv i Hpv Hi Hgeo Hhalf.
  - cbn [vns_exp map]. rewrite znth_cons by lia.
    assert (Ed : forall k, pq_get [] k = mk_quad 0 0 [0; 0; 0; 0] [0; 0; 0; 0]) by (intro k; unfold pq_get, znth; destruct (k <? 0); [reflexivity|destruct (Z.to_nat k); reflexivity]).
    rewrite !Ed. unfold qe. cbn [q_e].
    assert (Hbl : 0 <= bitlen32_d pv) by (unfold bitlen32_d; pose proof (Z.log2_nonneg pv); destruct (pv <=? 0); lia).
    destruct (Z.eqb_spec i 0).
    + split; [exact Hpv|]. change (znth [0; 0; 0; 0] 1 0) with 0. lia.
    + assert (Ez : znth [] (i - 1) 0 = 0) by (unfold znth; destruct (i - 1 <? 0); [reflexivity|destruct (Z.to_nat (i - 1)); reflexivity]).
      rewrite Ez. change (znth [0; 0; 0; 0] 3 0) with 0. change (znth [0; 0; 0; 0] 1 0) with 0. split; [lia|reflexivity].
  - cbn [vns_exp map length geom half_ok] in *. destruct Hhalf as [Hh Hhalf'].
    destruct (bitlen_vn v1) as [Bv1 Pv1]. destruct (bitlen_vn v3) as [Bv3 Pv3].
    rewrite znth_cons by lia. rewrite (pq_get_cons _ _ i Hi).
    assert (E1 : qe (q_of (v0, v1, v2, v3)) 1 = v_e v1) by reflexivity.
    assert (E3 : qe (q_of (v0, v1, v2, v3)) 3 = v_e v3) by reflexivity.
    destruct (Z.eqb_spec i 0) as [->|Ni].
    + rewrite E1. split; [apply Z.lor_nonneg; lia|]. rewrite bitlen_lor by lia. rewrite Bv1. reflexivity.
    + rewrite (pq_get_cons _ _ (i - 1) ltac:(lia)).
      destruct (Z.geb_spec (x + 1) w) as [Hq|Hq].
      * (* half quad: nothing follows *)
        destruct (Hh ltac:(lia)) as [_ Z3].
        assert (Er : r = []) by (destruct r; [reflexivity|cbn [length] in Hgeo; rewrite !Nat2Z.inj_succ in Hgeo; lia]). subst r.
        cbn [map].
        assert (Ed : forall k, pq_get [] k = mk_quad 0 0 [0; 0; 0; 0] [0; 0; 0; 0]) by (intro k; unfold pq_get, znth; destruct (k <? 0); [reflexivity|destruct (Z.to_nat k); reflexivity]).
        assert (Ez : znth [0; 0] (i - 1) 0 = 0).
        { unfold znth. destruct (i - 1 <? 0); [reflexivity|]. destruct (Z.to_nat (i - 1)) as [|[|[|k]]]; reflexivity. }
        rewrite Ez, !Ed.
        assert (Eq1 : qe (mk_quad 0 0 [0; 0; 0; 0] [0; 0; 0; 0]) 1 = 0) by reflexivity.
        assert (Eq3 : qe (mk_quad 0 0 [0; 0; 0; 0] [0; 0; 0; 0]) 3 = 0) by reflexivity.
        rewrite Eq1. split; [lia|].
        destruct (Z.eqb_spec (i - 1) 0); [rewrite E3, Z3; reflexivity|rewrite Eq3; reflexivity].
      * assert (Hgeo' : geom w (x + 2) (length r)) by (destruct r; cbn [length geom] in *; rewrite ?Nat2Z.inj_succ in *; lia).
        destruct (IH w (x + 2) (vn_of v3) (i - 1) Pv3 ltac:(lia) Hgeo' Hhalf') as [A B].
        split; [exact A|]. rewrite B, Bv3.
        destruct (Z.eqb_spec (i - 1) 0); [rewrite E3; reflexivity|reflexivity].
Qed.

Lemma vns_VN : forall vqs w, geom w 0 (length vqs) -> half_ok vqs w 0 -> VN (vns_exp 0 vqs w 0) (map q_of vqs).
Proof.
  intros vqs w Hgeo Hhalf i. unfold e_val.
  destruct (Z.ltb_spec i 0) as [Hneg|Hpos].
  - assert (Ez : znth (vns_exp 0 vqs w 0) i 0 = 0) by (unfold znth; destruct (Z.ltb_spec i 0); [reflexivity|lia]).
    rewrite Ez.
    assert (Ed : forall k, k < 0 -> pq_get (map q_of vqs) k = mk_quad 0 0 [0; 0; 0; 0] [0; 0; 0; 0])
      by (intros k Hk0; unfold pq_get, znth; destruct (Z.ltb_spec k 0); [reflexivity|lia]).
    rewrite !Ed by lia. split; [lia|reflexivity].
  - destruct (vns_bits vqs w 0 0 i ltac:(lia) Hpos Hgeo Hhalf) as [A B]. split; [exact A|]. rewrite B.
    unfold qe. destruct (Z.eqb_spec i 0) as [->|N].
    + change (bitlen32_d 0) with 0.
      assert (Ed : pq_get (map q_of vqs) (0 - 1) = mk_quad 0 0 [0; 0; 0; 0] [0; 0; 0; 0]) by reflexivity.
      rewrite Ed. reflexivity.
    + reflexivity.
Qed.

(* ---------- all quad rows of phase 2 ---------- *)
Fixpoint rows_ok (kmax w : Z) (first : bool) (pq : list quad) (drows : list (list (Z * Z))) (css : list (list code)) : Prop :=
  match drows, css with
  | [], [] => True
  | d :: ds, cs :: css' =>
    rel_row first d cs /\ Forall (code_ok kmax) cs /\ Forall (fun c => cd_uq c <= kmax + 1) cs /\
    kok first pq 0 cs /\ geom w 0 (length cs) /\ half_ok (map cd_vq cs) w 0 /\
    rows_ok kmax w false (map cd_q cs) ds css'
  | _, _ => False
  end.
Fixpoint all_ms (first : bool) (css : list (list code)) : list (Z * Z) :=
  match css with [] => [] | cs :: css' => flat_map (ms_of first) cs ++ all_ms false css' end.

Lemma dec_ms_rows_spec : forall kmax w css drows first pq vnp m rest,
  1 <= kmax <= 30 -> rows_ok kmax w first pq drows css -> (first = false -> VN vnp pq) ->
  MSC m (all_ms first css ++ rest) ->
  exists l m',
    dec_ms_rows drows first vnp w (31 - kmax) (kmax - 1 + 2) m = Some l /\
    map (fun tb => (map (word_to_coef kmax) (fst tb), map (word_to_coef kmax) (snd tb))) l =
    map (fun cs => (tops_exp (map cd_vq cs) w 0, bots_exp (map cd_vq cs) w 0)) css /\
    MSC m' rest.
Proof.
  intros kmax w css. induction css as [|cs css IH]; intros drows first pq vnp m rest Hk Hok HVN HM.
  - destruct drows; [|contradiction]. cbn [all_ms app] in HM. exists [], m. cbn [dec_ms_rows map]. split; [reflexivity|]. split; [reflexivity|exact HM].
  - destruct drows as [|d ds]; [contradiction|]. cbn [rows_ok] in Hok.
    destruct Hok as [Hrel [Hcs [Huq [Hkok [Hgeo [Hhalf Hok']]]]]].
    cbn [all_ms] in HM. rewrite <- app_assoc in HM.
    destruct (dec_ms_row_spec kmax first pq vnp w cs d 0 0 0 m _ Hk Hcs Huq Hrel Hkok HVN Hgeo Hhalf HM)
      as [tops [bots [m1 [Er [Ht [Hb HM1]]]]]].
    assert (HVN' : false = false -> VN (vns_exp 0 (map cd_vq cs) w 0) (map cd_q cs)).
    { intros _. assert (E : map cd_q cs = map q_of (map cd_vq cs)) by (rewrite map_map; reflexivity).
      rewrite E. apply vns_VN; [rewrite map_length; exact Hgeo|exact Hhalf]. }
    destruct (IH ds false (map cd_q cs) _ m1 rest Hk Hok' HVN' HM1) as [l [m2 [El [Hl HM2]]]].
    exists ((tops, bots) :: l), m2. cbn [dec_ms_rows]. rewrite Er, El.
    split; [reflexivity|]. cbn [map fst snd]. rewrite Ht, Hb, Hl. split; [reflexivity|exact HM2].
Qed.

Lemma kok_codes0 : forall pq vqs cq j, kok true pq j (codes0 vqs cq).
Proof.
  intros pq vqs. remember (length vqs) as n eqn:En. revert vqs En.
  induction n as [n IH] using lt_wf_ind. intros vqs En cq j.
  destruct vqs as [|a0 [|a1 rest]]; cbn [codes0 kok cd_k]; [exact I|split; [reflexivity|exact I]|].
  split; [reflexivity|]. split; [reflexivity|].
  apply (IH (length rest)); [subst n; cbn [length]; lia|reflexivity].
Qed.

Lemma kok_codesN : forall pq vqs i left, kok false pq i (codesN pq vqs i left).
Proof.
  intros pq vqs. remember (length vqs) as n eqn:En. revert vqs En.
  induction n as [n IH] using lt_wf_ind. intros vqs En i left.
  destruct vqs as [|a0 [|a1 rest]]; cbn [codesN kok cd_k cd_q cd_vq]; [exact I|split; [reflexivity|exact I]|].
  split; [reflexivity|]. split; [reflexivity|].
  replace (i + 1 + 1) with (i + 2) by ring.
  apply (IH (length rest)); [subst n; cbn [length]; lia|reflexivity].
Qed.

Lemma kappa_le : forall kmax pvqs i rho, 1 <= kmax <= 30 -> Forall (vq_ok kmax) pvqs ->
  kappa_of (map q_of pvqs) i rho <= kmax.
Proof.
  intros kmax pvqs i rho Hk Hok. unfold kappa_of, max_e, e_val.
  pose proof (pq_e_range kmax pvqs (i - 1) 3 Hk Hok). pose proof (pq_e_range kmax pvqs i 1 Hk Hok).
  pose proof (pq_e_range kmax pvqs (i + 1 - 1) 3 Hk Hok). pose proof (pq_e_range kmax pvqs (i + 1) 1 Hk Hok).
  destruct (Z.land rho (rho - 1) =? 0); lia.
Qed.

Lemma uq_bound : forall kmax c, 1 <= kmax <= 30 -> vq_ok kmax (cd_vq c) -> cd_k c <= kmax -> cd_uq c <= kmax + 1.
Proof.
  intros kmax c Hk Hvq Hkk. unfold cd_uq, cd_q. destruct (cd_vq c) as [[[v0 v1] v2] v3]. cbn [q_of vq_ok] in *.
  destruct (vquad_emax kmax v0 v1 v2 v3 Hk Hvq) as [He _]. lia.
Qed.
