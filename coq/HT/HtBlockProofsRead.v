(* HT cleanup pass: reading primitives against the ideal streams (VLC calls, MagSgn calls, MEL
   events), the general-continuation form of the U-VLC pair theorem, and the canonical form of a
   CxtVLC table entry. *)
From V Require Import Common.Base Gen.HtTables_gen HT.HtMel HT.HtVlc HT.HtUvlc HT.HtBlockBits
  HT.HtBitLemmas HT.HtBlockProofsMs HT.HtBlockProofsVlc HT.HtProofsTables.

(* ---------- VLC: the stream as a concatenation of calls ---------- *)
Fixpoint vcat (calls : list (Z * Z)) (tail : Z) : Z :=
  match calls with
  | [] => tail
  | (c, n) :: r => c mod 2 ^ n + vcat r tail * 2 ^ n
  end.
Definition calls_ok (calls : list (Z * Z)) : Prop := Forall (fun cw => 0 <= snd cw) calls.
Definition VInv (v : Z) (calls : list (Z * Z)) : Prop := exists tail, 0 <= tail /\ v = vcat calls tail.

Lemma call_bits_length_cons : forall c n r, 0 <= n ->
  Z.of_nat (length (call_bits ((c, n) :: r))) = n + Z.of_nat (length (call_bits r)).
Proof.
  intros c n r Hn. unfold call_bits. cbn [flat_map fst snd]. rewrite app_length, lsb_bits_length.
  rewrite Nat2Z.inj_add, Z2Nat.id by lia. reflexivity.
Qed.

Lemma vcat_of_bits : forall calls tail, calls_ok calls ->
  bits_val (call_bits calls) + tail * 2 ^ Z.of_nat (length (call_bits calls)) = vcat calls tail.
Proof.
  induction calls as [|[c n] calls IH]; intros tail Hok.
  - cbn. lia.
  - inversion Hok as [|? ? Hn Hok']; subst. cbn [snd] in Hn.
    rewrite call_bits_length_cons by exact Hn.
    change (call_bits ((c, n) :: calls)) with (lsb_bits (Z.to_nat n) c ++ call_bits calls). cbn [vcat].
    rewrite bits_val_app, lsb_bits_val, lsb_bits_length, Z2Nat.id by lia.
    rewrite <- (IH tail Hok'). rewrite Z.pow_add_r by lia. ring.
Qed.

Lemma vcat_nonneg : forall calls tail, calls_ok calls -> 0 <= tail -> 0 <= vcat calls tail.
Proof.
  induction calls as [|[c n] calls IH]; intros tail Hok Ht; [exact Ht|].
  inversion Hok as [|? ? Hn Hok']; subst. cbn [snd] in Hn. cbn [vcat].
  pose proof (pow2_pos n Hn). pose proof (Z.mod_pos_bound c (2 ^ n) ltac:(lia)).
  specialize (IH tail Hok' Ht). nia.
Qed.

Lemma vcat_app : forall a b tail, vcat (a ++ b) tail = vcat a (vcat b tail).
Proof. induction a as [|[c n] a IH]; intros b tail; cbn [app vcat]; [reflexivity|rewrite IH; reflexivity]. Qed.

Lemma VInv_step : forall v c n r, VInv v ((c, n) :: r) -> calls_ok ((c, n) :: r) ->
  v mod 2 ^ n = c mod 2 ^ n /\ VInv (vlc_advance v n) r /\ 0 <= v.
Proof.
  intros v c n r [tail [Ht Hv]] Hok. inversion Hok as [|? ? Hn Hok']; subst. cbn [snd] in Hn.
  cbn [vcat]. pose proof (pow2_pos n Hn) as Hp. pose proof (Z.mod_pos_bound c (2 ^ n) ltac:(lia)) as Hm.
  pose proof (vcat_nonneg r tail Hok' Ht) as Hr.
  split; [apply mod_add_pow2; lia|]. split; [|nia].
  exists tail. split; [exact Ht|]. unfold vlc_advance.
  destruct (Z.leb_spec n 0).
  - assert (n = 0) by lia. subst n. change (2 ^ 0) with 1. rewrite Z.mod_1_r. lia.
  - rewrite Z.shiftr_div_pow2 by lia. apply div_add_pow2; lia.
Qed.

(* ---------- MagSgn: calls ---------- *)
Definition MSC (m : msr) (calls : list (Z * Z)) : Prop := MSInv m (call_bits calls).

Lemma MSC_step : forall m c n r, MSC m ((c, n) :: r) -> 0 <= n <= 32 ->
  exists m', ms_fetch m n = (c mod 2 ^ n, m') /\ MSC m' r.
Proof.
  intros m c n r H Hn. unfold MSC in *.
  change (call_bits ((c, n) :: r)) with (lsb_bits (Z.to_nat n) c ++ call_bits r) in H.
  destruct (ms_fetch_bits m (lsb_bits (Z.to_nat n) c) (call_bits r) H (lsb_bits_is_bits _ _)
              (call_bits_is_bits r) ltac:(rewrite lsb_bits_length; lia)) as [m' [Hf Hi]].
  rewrite lsb_bits_length, lsb_bits_val, Z2Nat.id in Hf by lia.
  exists m'. split; assumption.
Qed.

(* ---------- MEL ---------- *)
Definition MInv (ms : Z * melr) (evs : list bool) : Prop := ojph_mel_events (length evs) ms = evs.

Lemma MInv_step : forall ms e r, MInv ms (e :: r) ->
  fst (ojph_mel_event ms) = e /\ MInv (snd (ojph_mel_event ms)) r.
Proof.
  intros ms e r H. unfold MInv in H. cbn [length ojph_mel_events] in H.
  destruct (ojph_mel_event ms) as [ev ms']. cbn [fst snd]. inversion H. split; [reflexivity|]. unfold MInv. congruence.
Qed.

(* ---------- U-VLC pair with an arbitrary continuation ---------- *)
Lemma div_mod_pow2 : forall a p q, 0 <= p -> 0 <= q -> (a / 2 ^ p) mod 2 ^ q = (a mod 2 ^ (p + q)) / 2 ^ p.
Proof.
  intros a p q Hp Hq. pose proof (pow2_pos p Hp). pose proof (pow2_pos q Hq).
  rewrite Z.pow_add_r by lia. rewrite Z.rem_mul_r by lia.
  rewrite Z.mul_comm, Z.div_add by lia.
  rewrite (Z.div_small (a mod 2 ^ p)) by (apply Z.mod_pos_bound; lia). lia.
Qed.

Lemma uvlc_dec_ext : forall (initial : bool) m a b,
  a mod 64 = b mod 64 ->
  (let e := znth (if initial then uvlc_tbl0 else uvlc_tbl1) (m + b mod 64) 0 in
   a mod 2 ^ (ue_lp e + ue_ls e) = b mod 2 ^ (ue_lp e + ue_ls e)) ->
  ojph_uvlc_decode initial m a = ojph_uvlc_decode initial m b.
Proof.
  intros initial m a b H64 Hlow. cbv zeta in Hlow. unfold ojph_uvlc_decode.
  change 63 with (Z.ones 6). rewrite !Z.land_ones by lia. change (2 ^ 6) with 64. rewrite H64.
  set (e := znth (if initial then uvlc_tbl0 else uvlc_tbl1) (m + b mod 64) 0) in *.
  assert (Hlp : 0 <= ue_lp e) by (unfold ue_lp; apply Z.land_nonneg; right; lia).
  assert (Hls : 0 <= ue_ls e) by (unfold ue_ls; apply Z.land_nonneg; right; lia).
  assert (Hsl : 0 <= ue_u0suf e) by (unfold ue_u0suf; apply Z.land_nonneg; right; lia).
  rewrite !land_pow2m1_mod by lia.
  rewrite (Z.shiftr_div_pow2 a), (Z.shiftr_div_pow2 b) by lia.
  rewrite !div_mod_pow2 by lia. rewrite Hlow. reflexivity.
Qed.

Lemma pack_calls_bound : forall l, calls_ok l -> 0 <= fst (pack_calls l) < 2 ^ snd (pack_calls l) /\ 0 <= snd (pack_calls l).
Proof.
  induction l as [|[c n] l IH]; intro Hok; [cbn; lia|].
  inversion Hok as [|? ? Hn Hok']; subst. cbn [snd] in Hn. specialize (IH Hok').
  cbn [pack_calls]. destruct (pack_calls l) as [v m]. cbn [fst snd] in *.
  rewrite land_pow2m1_mod, Z.shiftl_mul_pow2 by lia.
  pose proof (pow2_pos n Hn). pose proof (Z.mod_pos_bound c (2 ^ n) ltac:(lia)).
  rewrite Z.pow_add_r by lia. split; [nia|lia].
Qed.

Lemma vcat_pack : forall l tail, calls_ok l -> vcat l tail = fst (pack_calls l) + tail * 2 ^ snd (pack_calls l).
Proof.
  induction l as [|[c n] l IH]; intros tail Hok; [cbn; lia|].
  inversion Hok as [|? ? Hn Hok']; subst. cbn [snd] in Hn.
  destruct (pack_calls_bound l Hok') as [_ Hm].
  cbn [vcat pack_calls]. rewrite (IH tail Hok'). destruct (pack_calls l) as [v m]. cbn [fst snd] in *.
  rewrite land_pow2m1_mod, Z.shiftl_mul_pow2 by lia. rewrite Z.pow_add_r by lia. ring.
Qed.

Lemma uvlc_calls_ok : forall (initial : bool) u0 u1, 0 <= u0 <= 34 -> 0 <= u1 <= 34 ->
  calls_ok (if initial then ojph_uvlc_initial_calls u0 u1 else ojph_uvlc_noninitial_calls u0 u1).
Proof.
  intros initial u0 u1 H0 H1.
  assert (H : forallb (fun i : bool => forallb (fun u0 => forallb (fun u1 =>
              forallb (fun cw => 0 <=? snd cw)
                (if i then ojph_uvlc_initial_calls u0 u1 else ojph_uvlc_noninitial_calls u0 u1))
              (zrange 0 34)) (zrange 0 34)) [true; false] = true) by (vm_compute; reflexivity).
  assert (Hi : In initial [true; false]) by (destruct initial; simpl; auto).
  pose proof (proj1 (forallb_forall _ _) H initial Hi) as A. cbv beta in A.
  pose proof (proj1 (forallb_forall _ _) A u0 (In_zrange 0 34 u0 H0)) as B. cbv beta in B.
  pose proof (proj1 (forallb_forall _ _) B u1 (In_zrange 0 34 u1 H1)) as C. cbv beta in C.
  unfold calls_ok. apply Forall_forall. intros cw Hin.
  pose proof (proj1 (forallb_forall _ _) C cw Hin) as D. cbv beta in D. apply Z.leb_le in D. exact D.
Qed.

Lemma uvlc_pair_len16 : forall (initial : bool) u0 u1, 0 <= u0 <= 34 -> 0 <= u1 <= 34 ->
  snd (pack_calls (if initial then ojph_uvlc_initial_calls u0 u1 else ojph_uvlc_noninitial_calls u0 u1)) <= 16.
Proof.
  intros initial u0 u1 H0 H1.
  assert (H : forallb (fun i : bool => forallb (fun u0 => forallb (fun u1 =>
              snd (pack_calls (if i then ojph_uvlc_initial_calls u0 u1 else ojph_uvlc_noninitial_calls u0 u1)) <=? 16)
              (zrange 0 34)) (zrange 0 34)) [true; false] = true) by (vm_compute; reflexivity).
  assert (Hi : In initial [true; false]) by (destruct initial; simpl; auto).
  pose proof (proj1 (forallb_forall _ _) H initial Hi) as A. cbv beta in A.
  pose proof (proj1 (forallb_forall _ _) A u0 (In_zrange 0 34 u0 H0)) as B. cbv beta in B.
  pose proof (proj1 (forallb_forall _ _) B u1 (In_zrange 0 34 u1 H1)) as C. cbv beta in C.
  apply Z.leb_le in C. exact C.
Qed.

Lemma mod_mod_pow2 : forall x j k, 0 <= k <= j -> (x mod 2 ^ j) mod 2 ^ k = x mod 2 ^ k.
Proof.
  intros x j k H. pose proof (pow2_pos k ltac:(lia)). pose proof (pow2_pos (j - k) ltac:(lia)).
  replace j with (k + (j - k)) by ring. rewrite Z.pow_add_r by lia.
  rewrite Z.rem_mul_r by lia. rewrite Z.mul_comm, Z.mod_add by lia. apply Z.mod_mod. lia.
Qed.

(* the pair theorem for the stream: whatever follows the pair's bits *)
Theorem uvlc_pair_stream : forall (initial : bool) u0 u1 v rest,
  0 <= u0 <= 34 -> 0 <= u1 <= 34 ->
  let calls := if initial then ojph_uvlc_initial_calls u0 u1 else ojph_uvlc_noninitial_calls u0 u1 in
  VInv v (calls ++ rest) -> calls_ok rest ->
  ojph_uvlc_decode initial (ojph_uvlc_mode initial u0 u1) (vlc_peek v) = (u0, u1, snd (pack_calls calls)) /\
  VInv (vlc_advance v (snd (pack_calls calls))) rest.
Proof.
  intros initial u0 u1 v rest H0 H1 calls [tail [Ht Hv]] Hrok.
  pose proof (uvlc_calls_ok initial u0 u1 H0 H1) as Hok. fold calls in Hok.
  pose proof (uvlc_pair_len16 initial u0 u1 H0 H1) as H16. fold calls in H16.
  destruct (pack_calls_bound calls Hok) as [Hvb Hn0].
  rewrite vcat_app, (vcat_pack calls _ Hok) in Hv.
  set (T := vcat rest tail) in *.
  assert (HT : 0 <= T) by (apply vcat_nonneg; assumption).
  pose proof (uvlc_pair_exhaustive initial u0 u1 (T mod 64) H0 H1 ltac:(apply Z.mod_pos_bound; lia)) as Hfin.
  fold calls in Hfin. destruct (pack_calls calls) as [pv n] eqn:Ep. cbn [fst snd] in *.
  pose proof (pow2_pos n Hn0) as Hpn.
  set (b := pv + Z.shiftl (T mod 64) n) in *.
  assert (Eb : b = pv + (T mod 64) * 2 ^ n) by (unfold b; rewrite Z.shiftl_mul_pow2 by lia; reflexivity).
  split.
  - assert (Hcons : ue_lp (znth (if initial then uvlc_tbl0 else uvlc_tbl1) (ojph_uvlc_mode initial u0 u1 + b mod 64) 0) +
                    ue_ls (znth (if initial then uvlc_tbl0 else uvlc_tbl1) (ojph_uvlc_mode initial u0 u1 + b mod 64) 0) = n).
    { unfold ojph_uvlc_decode in Hfin. change 63 with (Z.ones 6) in Hfin. rewrite Z.land_ones in Hfin by lia.
      change (2 ^ 6) with 64 in Hfin. inversion Hfin. reflexivity. }
    rewrite <- Hfin. apply uvlc_dec_ext.
    + unfold vlc_peek. change 4294967295 with (Z.ones 32). rewrite Z.land_ones by lia.
      change 64 with (2 ^ 6). rewrite mod_mod_pow2 by lia. change (2 ^ 6) with 64.
      rewrite Hv, Eb. rewrite (Z.div_mod T 64) at 1 by lia.
      replace (pv + (64 * (T / 64) + T mod 64) * 2 ^ n) with (pv + T mod 64 * 2 ^ n + (T / 64 * 2 ^ n) * 64) by ring.
      apply Z.mod_add. lia.
    + cbv zeta. rewrite Hcons.
      unfold vlc_peek. change 4294967295 with (Z.ones 32). rewrite Z.land_ones by lia.
      rewrite mod_mod_pow2 by lia. rewrite Hv, Eb. rewrite !mod_add_pow2 by lia. reflexivity.
  - exists tail. split; [exact Ht|]. fold T. unfold vlc_advance.
    destruct (Z.leb_spec n 0).
    + assert (n = 0) by lia. subst n. change (2 ^ 0) with 1 in *. lia.
    + rewrite Z.shiftr_div_pow2 by lia. rewrite Hv. apply div_add_pow2; lia.
Qed.

(* ---------- CxtVLC table facts ---------- *)
Definition all16 (P : Z -> bool) : bool :=
  forallb (fun a => forallb (fun b => P (256 * a + b)) (zseq 256)) (zseq 256).
Lemma all16_spec : forall P, all16 P = true -> forall t, 0 <= t < 65536 -> P t = true.
Proof.
  intros P H t Ht. unfold all16 in H.
  assert (Ha : 0 <= t / 256 < 256) by (split; [apply Z.div_pos; lia|apply Z.div_lt_upper_bound; lia]).
  pose proof (Z.mod_pos_bound t 256 ltac:(lia)) as Hb.
  pose proof (proj1 (forallb_forall _ _) H (t / 256) (In_zseq 256 (t / 256) ltac:(change (Z.of_nat 256) with 256; lia))) as H1. cbv beta in H1.
  pose proof (proj1 (forallb_forall _ _) H1 (t mod 256) (In_zseq 256 (t mod 256) ltac:(change (Z.of_nat 256) with 256; lia))) as H2. cbv beta in H2.
  rewrite <- Z.div_mod in H2 by lia. exact H2.
Qed.

Lemma lookup_range : forall first i, 0 <= znth (lookup_of first) i 0 < 65536.
Proof.
  intros first i.
  assert (H : forallb (fun t => (0 <=? t) && (t <? 65536)) (lookup_of first) = true) by (destruct first; vm_compute; reflexivity).
  unfold znth. destruct (i <? 0); [lia|].
  destruct (nth_in_or_default (Z.to_nat i) (lookup_of first) 0) as [Hin|Hd]; [|rewrite Hd; lia].
  pose proof (proj1 (forallb_forall _ _) H _ Hin) as Hb. cbv beta in Hb. apply andb_prop in Hb. destruct Hb. b2p. lia.
Qed.

(* the codeword of a valid lookup fits its length *)
Lemma ojph_cwd_bound : forall (first : bool) cq rho eps,
  0 <= cq < 8 -> 0 <= rho < 16 -> 0 <= eps < 16 -> ojph_valid cq rho eps = true ->
  let t := ojph_encode_tuple first cq rho eps in 0 <= tuple_cwd t < 2 ^ tuple_len t.
Proof.
  intros first cq rho eps Hcq Hrho Heps Hv. cbv zeta.
  set (i := cq * 256 + rho * 16 + eps).
  assert (Hi : 0 <= i < 2048) by (unfold i; lia).
  pose proof (proj1 (forallb_forall _ _) (ojph_enc_core first) i (In_zseq 2048 i ltac:(change (Z.of_nat 2048) with 2048; lia))) as Hok.
  unfold ojph_idx_ok in Hok.
  assert (E1 : Z.shiftr i 8 = cq).
  { rewrite Z.shiftr_div_pow2 by lia. change (2 ^ 8) with 256. unfold i.
    replace (cq * 256 + rho * 16 + eps) with (rho * 16 + eps + cq * 256) by ring.
    rewrite Z.div_add by lia. rewrite Z.div_small by lia. lia. }
  assert (E2 : Z.land (Z.shiftr i 4) 15 = rho).
  { rewrite Z.shiftr_div_pow2 by lia. change (2 ^ 4) with 16. change 15 with (Z.ones 4).
    rewrite Z.land_ones by lia. change (2 ^ 4) with 16. unfold i.
    replace (cq * 256 + rho * 16 + eps) with (eps + (cq * 16 + rho) * 16) by ring.
    rewrite Z.div_add by lia. rewrite (Z.div_small eps) by lia.
    replace (0 + (cq * 16 + rho)) with (rho + cq * 16) by ring.
    rewrite Z.mod_add by lia. apply Z.mod_small; lia. }
  assert (E3 : Z.land i 15 = eps).
  { change 15 with (Z.ones 4). rewrite Z.land_ones by lia. change (2 ^ 4) with 16. unfold i.
    replace (cq * 256 + rho * 16 + eps) with (eps + (cq * 16 + rho) * 16) by ring.
    rewrite Z.mod_add by lia. apply Z.mod_small; lia. }
  rewrite E1, E2, E3, Hv in Hok. cbn [implb] in Hok.
  apply andb_prop in Hok. destruct Hok as [Hok _]. apply andb_prop in Hok. destruct Hok as [_ Hc]. b2p.
  split; [|exact Hc]. unfold tuple_cwd. apply Z.shiftr_nonneg.
  unfold ojph_encode_tuple. destruct ((rho =? 0) && (cq =? 0)); [lia|].
  unfold znth. destruct (_ <? 0); [lia|].
  set (tb := if first then ojph_enc0 else ojph_enc1).
  assert (Hr : forallb (fun t => 0 <=? t) tb = true) by (unfold tb; destruct first; vm_compute; reflexivity).
  destruct (nth_in_or_default (Z.to_nat (Z.lor (Z.lor (Z.shiftl cq 8) (Z.shiftl rho 4)) eps)) tb 0) as [Hin|Hd]; [|rewrite Hd; lia].
  apply Z.leb_le. exact (proj1 (forallb_forall _ _) Hr _ Hin).
Qed.

(* facts about one 16-bit table entry, decided over all 65536 values *)
Lemma t_ctx0 : forall t, 0 <= t < 65536 ->
  Z.lor (Z.shiftl (Z.land t 16) 3) (Z.shiftl (Z.land t 224) 2) =
  128 * Z.lor (Z.shiftr (vl_rho t) 1) (Z.land (vl_rho t) 1).
Proof.
  intros t Ht.
  assert (H : all16 (fun t => Z.lor (Z.shiftl (Z.land t 16) 3) (Z.shiftl (Z.land t 224) 2) =?
                       128 * Z.lor (Z.shiftr (vl_rho t) 1) (Z.land (vl_rho t) 1)) = true) by (vm_compute; reflexivity).
  apply Z.eqb_eq. exact (all16_spec _ H t Ht).
Qed.

Lemma t_fields_range : forall t, 0 <= t < 65536 ->
  0 <= vl_rho t < 16 /\ 0 <= vl_uoff t < 2 /\ 0 <= vl_ek t < 16 /\ 0 <= vl_e1 t < 16 /\ 0 <= vl_len t < 8.
Proof.
  intros t Ht.
  assert (H : all16 (fun t => (0 <=? vl_rho t) && (vl_rho t <? 16) && (0 <=? vl_uoff t) && (vl_uoff t <? 2) &&
              (0 <=? vl_ek t) && (vl_ek t <? 16) && (0 <=? vl_e1 t) && (vl_e1 t <? 16) && (0 <=? vl_len t) && (vl_len t <? 8))
              = true) by (vm_compute; reflexivity).
  pose proof (all16_spec _ H t Ht) as A. cbv beta in A. b2p. lia.
Qed.

Lemma t_uoff_bit : forall t, 0 <= t < 65536 -> Z.shiftl (Z.land t 8) 3 = 64 * vl_uoff t /\ Z.shiftl (Z.land t 8) 4 = 128 * vl_uoff t.
Proof.
  intros t Ht.
  assert (H : all16 (fun t => (Z.shiftl (Z.land t 8) 3 =? 64 * vl_uoff t) && (Z.shiftl (Z.land t 8) 4 =? 128 * vl_uoff t)) = true)
    by (vm_compute; reflexivity).
  pose proof (all16_spec _ H t Ht) as A. cbv beta in A. apply andb_prop in A. destruct A as [A1 A2].
  apply Z.eqb_eq in A1, A2. split; assumption.
Qed.
