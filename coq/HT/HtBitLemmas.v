(* Small arithmetic facts about lor / shifts / bit lists used by the HT block proofs. *)
From V Require Import Common.Base HT.HtUvlc.

Lemma pow2_pos : forall n, 0 <= n -> 0 < 2 ^ n.
Proof. intros. apply Z.pow_pos_nonneg; lia. Qed.

(* a low part and a shifted high part do not interact *)
Lemma lor_shiftl_add : forall v x n, 0 <= n -> 0 <= v < 2 ^ n -> Z.lor v (Z.shiftl x n) = v + x * 2 ^ n.
Proof.
  intros v x n Hn Hv.
  rewrite Z.shiftl_mul_pow2 by lia.
  rewrite (Z.add_nocarry_lxor v (x * 2 ^ n)); [symmetry; apply Z.lxor_lor|];
  apply Z.bits_inj'; intros i Hi; rewrite Z.land_spec, Z.bits_0;
  destruct (Z.ltb_spec i n);
    [ rewrite Z.mul_pow2_bits_low by lia; apply andb_false_r
    | destruct (Z.eq_dec v 0) as [->|]; [rewrite Z.bits_0; reflexivity|];
      rewrite (Z.bits_above_log2 v i); [reflexivity|lia|];
      assert (Z.log2 v < n) by (apply Z.log2_lt_pow2; lia); lia
    | rewrite Z.mul_pow2_bits_low by lia; apply andb_false_r
    | destruct (Z.eq_dec v 0) as [->|]; [rewrite Z.bits_0; reflexivity|];
      rewrite (Z.bits_above_log2 v i); [reflexivity|lia|];
      assert (Z.log2 v < n) by (apply Z.log2_lt_pow2; lia); lia ].
Qed.

Lemma land_ones_mod : forall v n, 0 <= n -> Z.land v (Z.ones n) = v mod 2 ^ n.
Proof. intros. apply Z.land_ones; lia. Qed.

Lemma land_pow2m1_mod : forall v n, 0 <= n -> Z.land v (Z.shiftl 1 n - 1) = v mod 2 ^ n.
Proof.
  intros v n Hn. rewrite Z.shiftl_1_l.
  replace (2 ^ n - 1) with (Z.ones n) by (rewrite Z.ones_equiv; lia). apply Z.land_ones; lia.
Qed.

Lemma mod_add_pow2 : forall a b n, 0 <= n -> 0 <= a < 2 ^ n -> (a + b * 2 ^ n) mod 2 ^ n = a.
Proof. intros a b n Hn Ha. rewrite Z.mod_add by (pose proof (pow2_pos n Hn); lia). apply Z.mod_small; lia. Qed.

Lemma div_add_pow2 : forall a b n, 0 <= n -> 0 <= a < 2 ^ n -> (a + b * 2 ^ n) / 2 ^ n = b.
Proof.
  intros a b n Hn Ha. pose proof (pow2_pos n Hn).
  rewrite Z.div_add by lia. rewrite Z.div_small by lia. lia.
Qed.

(* ---------- LSB-first bit lists ---------- *)
Fixpoint bits_val (l : list Z) : Z := match l with [] => 0 | b :: r => b + 2 * bits_val r end.
Definition is_bits (l : list Z) : Prop := Forall (fun b => b = 0 \/ b = 1) l.

Lemma bits_val_bound : forall l, is_bits l -> 0 <= bits_val l < 2 ^ Z.of_nat (length l).
Proof.
  induction l as [|b l IH]; intro H; [cbn; lia|].
  inversion H as [|? ? Hb Hl]; subst. specialize (IH Hl).
  cbn [bits_val length]. rewrite Nat2Z.inj_succ, Z.pow_succ_r by lia. destruct Hb; subst; lia.
Qed.

Lemma bits_val_app : forall a b, bits_val (a ++ b) = bits_val a + bits_val b * 2 ^ Z.of_nat (length a).
Proof.
  induction a as [|x a IH]; intro b; cbn [app bits_val length].
  - change (2 ^ Z.of_nat 0) with 1. lia.
  - rewrite IH, Nat2Z.inj_succ, Z.pow_succ_r by lia. ring.
Qed.

Lemma is_bits_app : forall a b, is_bits a -> is_bits b -> is_bits (a ++ b).
Proof. intros. apply Forall_app; split; assumption. Qed.

Lemma land1_bit : forall x, Z.land x 1 = 0 \/ Z.land x 1 = 1.
Proof.
  intro x. assert (H : Z.land x 1 = x mod 2) by (change 1 with (Z.ones 1); rewrite Z.land_ones by lia; reflexivity).
  rewrite H. pose proof (Z.mod_pos_bound x 2 ltac:(lia)). lia.
Qed.

Lemma lsb_bits_is_bits : forall n v, is_bits (lsb_bits n v).
Proof. induction n; intro v; cbn [lsb_bits]; constructor; [apply land1_bit|apply IHn]. Qed.

Lemma lsb_bits_length : forall n v, length (lsb_bits n v) = n.
Proof. induction n; intro v; cbn [lsb_bits length]; [reflexivity|rewrite IHn; reflexivity]. Qed.

Lemma lsb_bits_val : forall n v, bits_val (lsb_bits n v) = v mod 2 ^ Z.of_nat n.
Proof.
  induction n as [|n IH]; intros v.
  - cbn. rewrite Z.mod_1_r. reflexivity.
  - cbn [lsb_bits bits_val]. rewrite IH.
    rewrite Z.shiftr_div_pow2 by lia. change (2 ^ 1) with 2.
    assert (E : Z.land v 1 = v mod 2) by (change 1 with (Z.ones 1); rewrite Z.land_ones by lia; reflexivity).
    rewrite E, Nat2Z.inj_succ, Z.pow_succ_r by lia.
    rewrite (Z.rem_mul_r v 2 (2 ^ Z.of_nat n)) by (try lia; apply pow2_pos; lia). reflexivity.
Qed.
