(* HT cleanup pass: one quad — value-level facts, the per-sample MagSgn round trip inside a quad. *)
From V Require Import Common.Base Gen.HtTables_gen HT.HtMel HT.HtVlc HT.HtUvlc HT.HtLevels HT.HtBlockBits
  HT.HtBlockEnc HT.HtBlockDec HT.HtBitLemmas HT.HtBlockProofsMs HT.HtBlockProofsVlc HT.HtBlockProofsRead
  HT.HtProofsTables HT.HtProofsLevels HT.HtBlockProofsQuad.

(* ---------- bits of a table entry in terms of its fields ---------- *)
Lemma t_rho_bit : forall t i, 0 <= t < 65536 -> 0 <= i <= 3 ->
  (Z.land t (Z.shiftl 1 (4 + i)) =? 0) = (Z.land (vl_rho t) (Z.shiftl 1 i) =? 0).
Proof.
  intros t i Ht Hi.
  assert (H : forallb (fun i => all16 (fun t => Bool.eqb (Z.land t (Z.shiftl 1 (4 + i)) =? 0) (Z.land (vl_rho t) (Z.shiftl 1 i) =? 0))) [0; 1; 2; 3] = true)
    by (vm_compute; reflexivity).
  assert (Hin : In i [0; 1; 2; 3]) by (simpl; lia).
  pose proof (proj1 (forallb_forall _ _) H i Hin) as H1. cbv beta in H1.
  apply Bool.eqb_prop. exact (all16_spec _ H1 t Ht).
Qed.

Lemma t_ek_bit : forall t i, 0 <= t < 65536 -> 0 <= i <= 3 ->
  Z.land (Z.shiftr t (12 + i)) 1 = Z.land (Z.shiftr (vl_ek t) i) 1 /\
  Z.land (Z.shiftr t (8 + i)) 1 = Z.land (Z.shiftr (vl_e1 t) i) 1.
Proof.
  intros t i Ht Hi.
  assert (H : forallb (fun i => all16 (fun t => (Z.land (Z.shiftr t (12 + i)) 1 =? Z.land (Z.shiftr (vl_ek t) i) 1) &&
                                              (Z.land (Z.shiftr t (8 + i)) 1 =? Z.land (Z.shiftr (vl_e1 t) i) 1))) [0; 1; 2; 3] = true)
    by (vm_compute; reflexivity).
  assert (Hin : In i [0; 1; 2; 3]) by (simpl; lia).
  pose proof (proj1 (forallb_forall _ _) H i Hin) as H1. cbv beta in H1.
  pose proof (all16_spec _ H1 t Ht) as H2. cbv beta in H2. apply andb_prop in H2. destruct H2 as [A B].
  apply Z.eqb_eq in A, B. split; assumption.
Qed.

Lemma nib_bits : forall eps ek i, 0 <= eps < 16 -> 0 <= ek < 16 -> 0 <= i <= 3 ->
  Z.land (Z.shiftr (Z.land eps ek) i) 1 = Z.land (Z.shiftr eps i) 1 * Z.land (Z.shiftr ek i) 1 /\
  (Z.land (Z.shiftr ek i) 1 = 0 \/ Z.land (Z.shiftr ek i) 1 = 1).
Proof.
  intros eps ek i He Hk Hi.
  assert (H : forallb (fun eps => forallb (fun ek => forallb (fun i =>
             (Z.land (Z.shiftr (Z.land eps ek) i) 1 =? Z.land (Z.shiftr eps i) 1 * Z.land (Z.shiftr ek i) 1) &&
             ((Z.land (Z.shiftr ek i) 1 =? 0) || (Z.land (Z.shiftr ek i) 1 =? 1))) [0; 1; 2; 3]) (zrange 0 15)) (zrange 0 15) = true)
    by (vm_compute; reflexivity).
  pose proof (proj1 (forallb_forall _ _) H eps (In_zrange 0 15 eps ltac:(lia))) as H1. cbv beta in H1.
  pose proof (proj1 (forallb_forall _ _) H1 ek (In_zrange 0 15 ek ltac:(lia))) as H2. cbv beta in H2.
  assert (Hin : In i [0; 1; 2; 3]) by (simpl; lia).
  pose proof (proj1 (forallb_forall _ _) H2 i Hin) as H3. cbv beta in H3.
  apply andb_prop in H3. destruct H3 as [A B]. apply Z.eqb_eq in A. split; [exact A|].
  apply orb_prop in B. destruct B as [B|B]; apply Z.eqb_eq in B; auto.
Qed.

(* tuples are 16-bit; their low nibble is e_k *)
Lemma tuple_range : forall first cq rho eps, 0 <= ojph_encode_tuple first cq rho eps < 65536.
Proof.
  intros first cq rho eps. unfold ojph_encode_tuple. destruct ((rho =? 0) && (cq =? 0)); [lia|].
  set (tb := if first then ojph_enc0 else ojph_enc1).
  assert (Hr : forallb (fun t => (0 <=? t) && (t <? 65536)) tb = true) by (unfold tb; destruct first; vm_compute; reflexivity).
  apply (znth_bound (fun t => 0 <= t < 65536)); [lia|].
  apply Forall_forall. intros t Hin. pose proof (proj1 (forallb_forall _ _) Hr t Hin) as Hb. cbv beta in Hb.
  apply andb_prop in Hb. destruct Hb. b2p. lia.
Qed.

Lemma tuple_bit : forall t i, 0 <= t < 65536 -> 0 <= i <= 3 ->
  Z.land (Z.shiftr t i) 1 = Z.land (Z.shiftr (tuple_ek t) i) 1 /\ 0 <= tuple_ek t < 16 /\ 0 <= tuple_len t < 8 /\ 0 <= tuple_cwd t.
Proof.
  intros t i Ht Hi.
  assert (H : forallb (fun i => all16 (fun t => (Z.land (Z.shiftr t i) 1 =? Z.land (Z.shiftr (tuple_ek t) i) 1) &&
                       (0 <=? tuple_ek t) && (tuple_ek t <? 16) && (0 <=? tuple_len t) && (tuple_len t <? 8) && (0 <=? tuple_cwd t))) [0; 1; 2; 3] = true)
    by (vm_compute; reflexivity).
  assert (Hin : In i [0; 1; 2; 3]) by (simpl; lia).
  pose proof (proj1 (forallb_forall _ _) H i Hin) as H1. cbv beta in H1.
  pose proof (all16_spec _ H1 t Ht) as H2. cbv beta in H2.
  repeat (apply andb_prop in H2; destruct H2 as [H2 ?]). b2p. repeat split; lia.
Qed.

Lemma tuple_eps0 : forall (first : bool) cq rho, 0 <= cq < 8 -> 0 <= rho < 16 ->
  tuple_ek (ojph_encode_tuple first cq rho 0) = 0.
Proof.
  intros first cq rho Hc Hr.
  assert (H : forallb (fun first : bool => forallb (fun cq => forallb (fun rho => (tuple_ek (ojph_encode_tuple first cq rho 0) =? 0)) (zrange 0 15)) (zrange 0 7)) [true; false] = true)
    by (vm_compute; reflexivity).
  assert (Hi : In first [true; false]) by (destruct first; simpl; auto).
  pose proof (proj1 (forallb_forall _ _) H first Hi) as A. cbv beta in A.
  pose proof (proj1 (forallb_forall _ _) A cq (In_zrange 0 7 cq ltac:(lia))) as B. cbv beta in B.
  pose proof (proj1 (forallb_forall _ _) B rho (In_zrange 0 15 rho ltac:(lia))) as C. cbv beta in C.
  apply Z.eqb_eq. exact C.
Qed.

(* ---------- value-level facts about a quad ---------- *)
Definition vs_ok (kmax : Z) (vs : list Z) : Prop := Forall (fun v => Z.abs v < 2 ^ kmax) vs.

Lemma v_e_range : forall kmax v, 1 <= kmax <= 30 -> Z.abs v < 2 ^ kmax ->
  0 <= v_e v <= kmax + 1 /\ (v <> 0 -> 1 <= v_e v) /\ (v = 0 -> v_e v = 0).
Proof.
  intros kmax v Hk Hv. unfold v_e. destruct (Z.eqb_spec v 0) as [E|N]; [split; [lia|split; [intro; contradiction|reflexivity]]|].
  destruct (samp_facts v N) as [_ [He _]]. split; [|split; [intros _; exact He|contradiction]].
  split; [lia|]. unfold samp_e. apply bitlen32_le; [lia|]. rewrite Z.pow_add_r by lia. change (2 ^ 1) with 2. lia.
Qed.

Definition vnth (v0 v1 v2 v3 i : Z) : Z := if i =? 0 then v0 else if i =? 1 then v1 else if i =? 2 then v2 else v3.

Lemma vquad_fields : forall v0 v1 v2 v3 i, 0 <= i <= 3 ->
  let q := vquad v0 v1 v2 v3 in let v := vnth v0 v1 v2 v3 i in
  (Z.land (q_rho q) (Z.shiftl 1 i) =? 0) = (v =? 0) /\
  znth (q_e q) i 0 = v_e v /\ znth (q_s q) i 0 = v_s v /\ 0 <= q_rho q < 16.
Proof.
  intros v0 v1 v2 v3 i Hi. cbv zeta. unfold vquad, vnth, v_sig. cbn [q_rho q_e q_s].
  assert (C : i = 0 \/ i = 1 \/ i = 2 \/ i = 3) by lia.
  destruct C as [->|[->|[->| ->]]];
    destruct (v0 =? 0) eqn:E0, (v1 =? 0) eqn:E1, (v2 =? 0) eqn:E2, (v3 =? 0) eqn:E3; cbn; repeat split; try lia; try reflexivity; congruence.
Qed.

Lemma vquad_emax : forall kmax v0 v1 v2 v3, 1 <= kmax <= 30 -> vs_ok kmax [v0; v1; v2; v3] ->
  let q := vquad v0 v1 v2 v3 in
  0 <= q_emax q <= kmax + 1 /\
  (forall i, 0 <= i <= 3 -> v_e (vnth v0 v1 v2 v3 i) <= q_emax q) /\
  (q_rho q = 0 -> q_emax q = 0) /\ (q_rho q <> 0 -> 1 <= q_emax q).
Proof.
  intros kmax v0 v1 v2 v3 Hk Hvs. cbv zeta.
  inversion Hvs as [|? ? H0 Hvs1]; subst. inversion Hvs1 as [|? ? H1 Hvs2]; subst.
  inversion Hvs2 as [|? ? H2 Hvs3]; subst. inversion Hvs3 as [|? ? H3 _]; subst.
  destruct (v_e_range kmax v0 Hk H0) as [A0 [B0 C0]]. destruct (v_e_range kmax v1 Hk H1) as [A1 [B1 C1]].
  destruct (v_e_range kmax v2 Hk H2) as [A2 [B2 C2]]. destruct (v_e_range kmax v3 Hk H3) as [A3 [B3 C3]].
  unfold vquad. cbn [q_rho q_emax]. split; [lia|]. split.
  - intros i Hi. unfold vnth. destruct (i =? 0); [lia|]. destruct (i =? 1); [lia|]. destruct (i =? 2); lia.
  - unfold v_sig. split.
    + destruct (Z.eqb_spec v0 0), (Z.eqb_spec v1 0), (Z.eqb_spec v2 0), (Z.eqb_spec v3 0); cbn; intro; lia.
    + destruct (Z.eqb_spec v0 0), (Z.eqb_spec v1 0), (Z.eqb_spec v2 0), (Z.eqb_spec v3 0); cbn; intro; try lia;
        try (specialize (B0 ltac:(assumption))); try (specialize (B1 ltac:(assumption)));
        try (specialize (B2 ltac:(assumption))); try (specialize (B3 ltac:(assumption))); lia.
Qed.

Lemma vquad_eps_bit : forall v0 v1 v2 v3 u i, 0 <= i <= 3 ->
  let q := vquad v0 v1 v2 v3 in
  Z.land (Z.shiftr (quad_eps q u) i) 1 = (if (0 <? u) && (v_e (vnth v0 v1 v2 v3 i) =? q_emax q) then 1 else 0) /\
  0 <= quad_eps q u < 16.
Proof.
  intros v0 v1 v2 v3 u i Hi. cbv zeta. unfold quad_eps.
  set (q := vquad v0 v1 v2 v3).
  change (znth (q_e q) 0 0) with (v_e v0). change (znth (q_e q) 1 0) with (v_e v1).
  change (znth (q_e q) 2 0) with (v_e v2). change (znth (q_e q) 3 0) with (v_e v3).
  generalize (q_emax q). intro E.
  destruct (Z.leb_spec u 0) as [Hu|Hu].
  - destruct (Z.ltb_spec 0 u); [lia|]. cbn [andb]. rewrite Z.shiftr_0_l. split; [reflexivity|lia].
  - destruct (Z.ltb_spec 0 u); [|lia]. cbn [andb].
    assert (C : i = 0 \/ i = 1 \/ i = 2 \/ i = 3) by lia.
    destruct C as [->|[->|[->| ->]]];
      [change (vnth v0 v1 v2 v3 0) with v0 | change (vnth v0 v1 v2 v3 1) with v1
      | change (vnth v0 v1 v2 v3 2) with v2 | change (vnth v0 v1 v2 v3 3) with v3];
      destruct (v_e v0 =? E), (v_e v1 =? E), (v_e v2 =? E), (v_e v3 =? E); cbn; split; lia.
Qed.

Lemma word_to_coef_0 : forall kmax, word_to_coef kmax 0 = 0.
Proof.
  intro kmax. unfold word_to_coef. change (Z.land 0 2147483647) with 0. change (Z.land 0 2147483648) with 0.
  rewrite Z.shiftr_0_l. destruct (31 - kmax <? 0); reflexivity.
Qed.

(* ---------- the code of one quad ---------- *)
Section QuadCode.
  Variables (kmax : Z) (first : bool) (cq k v0 v1 v2 v3 : Z).
  Hypothesis Hk : 1 <= kmax <= 30.
  Hypothesis Hcq : 0 <= cq < 8.
  Hypothesis Hkap : 1 <= k <= 31.
  Hypothesis Hvs : vs_ok kmax [v0; v1; v2; v3].

  Let q := vquad v0 v1 v2 v3.
  Let uq := Z.max (q_emax q) k.
  Let u := uq - k.
  Let eps := quad_eps q u.
  Let tup := ojph_encode_tuple first cq (q_rho q) eps.
  Let ek := tuple_ek tup.

  Lemma qc_basic : 1 <= uq <= 31 /\ 0 <= u <= 30 /\ 0 <= eps < 16 /\ 0 <= q_rho q < 16 /\
    (0 < u -> uq = q_emax q /\ 2 <= uq) /\ (u <= 0 -> eps = 0).
  Proof.
    destruct (vquad_emax kmax v0 v1 v2 v3 Hk Hvs) as [He [_ _]]. fold q in He.
    destruct (vquad_eps_bit v0 v1 v2 v3 u 0 ltac:(lia)) as [_ Heps]. fold q in Heps. fold eps in Heps.
    destruct (vquad_fields v0 v1 v2 v3 0 ltac:(lia)) as [_ [_ [_ Hr]]]. fold q in Hr.
    unfold uq, u in *. repeat split; try lia.
    intro Hu. unfold eps, quad_eps. fold uq. destruct (Z.leb_spec (uq - k) 0); [reflexivity|]. unfold uq in *. lia.
  Qed.

  (* per-sample view *)
  Lemma qc_sample : forall i, 0 <= i <= 3 ->
    let v := vnth v0 v1 v2 v3 i in
    let ekb := Z.land (Z.shiftr ek i) 1 in
    let e1b := Z.land (Z.shiftr (Z.land eps ek) i) 1 in
    (ekb = 0 \/ ekb = 1) /\ (e1b = 0 \/ e1b = 1) /\
    (v <> 0 -> 1 <= uq - ekb <= 31 /\
               (ekb = 0 -> e1b = 0 /\ samp_e v <= uq) /\
               (ekb = 1 -> (e1b = 1 -> samp_e v = uq) /\ (e1b = 0 -> samp_e v < uq))).
  Proof.
    intros i Hi. cbv zeta.
    destruct qc_basic as [Huq [Hu [Heps [Hrho [Hpos Hnon]]]]].
    pose proof (tuple_range first cq (q_rho q) eps) as Htr. fold tup in Htr.
    destruct (tuple_bit tup i Htr Hi) as [_ [Hekr _]]. fold ek in Hekr.
    destruct (nib_bits eps ek i Heps Hekr Hi) as [Hprod Hekb].
    destruct (vquad_eps_bit v0 v1 v2 v3 u i Hi) as [Hebit _]. fold q in Hebit. fold eps in Hebit.
    destruct (vquad_emax kmax v0 v1 v2 v3 Hk Hvs) as [_ [Hle _]]. fold q in Hle. specialize (Hle i Hi).
    set (v := vnth v0 v1 v2 v3 i) in *. set (ekb := Z.land (Z.shiftr ek i) 1) in *.
    split; [exact Hekb|].
    assert (Hepsb : Z.land (Z.shiftr eps i) 1 = 0 \/ Z.land (Z.shiftr eps i) 1 = 1)
      by (rewrite Hebit; destruct ((0 <? u) && (v_e v =? q_emax q)); auto).
    split; [rewrite Hprod; destruct Hepsb as [E|E], Hekb as [F|F]; rewrite E, F; auto|].
    intro Hv. assert (Eve : v_e v = samp_e v) by (unfold v_e; destruct (Z.eqb_spec v 0); [contradiction|reflexivity]).
    (* e_k <> 0 forces u > 0 *)
    assert (Hek_u : ekb = 1 -> 0 < u).
    { intro E1. destruct (Z.ltb_spec 0 u) as [?|Hle0]; [assumption|exfalso].
      assert (Ee : eps = 0) by (apply Hnon; lia).
      assert (Ez : ek = 0) by (unfold ek, tup; rewrite Ee; apply tuple_eps0; [exact Hcq|exact Hrho]).
      unfold ekb in E1. rewrite Ez, Z.shiftr_0_l in E1. cbn in E1. discriminate. }
    split.
    - destruct Hekb as [F|F]; [lia|]. destruct (Hpos (Hek_u F)). lia.
    - split.
      + intro F. split; [rewrite Hprod, F; lia|]. rewrite <- Eve. unfold uq. lia.
      + intro F. destruct (Hpos (Hek_u F)) as [Euq _]. pose proof (Hek_u F) as Hu0.
        rewrite Hprod, F, Z.mul_1_r, Hebit.
        destruct (Z.ltb_spec 0 u); [|lia]. cbn [andb].
        destruct (Z.eqb_spec (v_e v) (q_emax q)) as [Ee|Ne]; split; intro; try discriminate; try lia.
  Qed.

  (* the decoder on sample i of this quad *)
  Lemma dec_sample_in_quad : forall i t m r p, 0 <= i <= 3 -> p = 31 - kmax ->
    0 <= t < 65536 -> vl_rho t = q_rho q -> vl_ek t = ek -> vl_e1 t = Z.land eps ek ->
    MSC m (ms_call q uq tup i ++ r) ->
    let v := vnth v0 v1 v2 v3 i in
    exists word m', dec_sample m t uq i p = (word, (if v =? 0 then 0 else 2 * Z.abs v - 1), m') /\
                    word_to_coef kmax word = v /\ MSC m' r.
  Proof.
    intros i t m r p Hi Hp Ht Hrho Hek He1 HM. cbv zeta.
    destruct (vquad_fields v0 v1 v2 v3 i Hi) as [Hsig [_ [Hs _]]]. fold q in Hsig, Hs.
    set (v := vnth v0 v1 v2 v3 i) in *.
    pose proof (t_rho_bit t i Ht Hi) as Hb. rewrite Hrho, Hsig in Hb.
    unfold ms_call in HM. rewrite Hsig in HM.
    destruct (Z.eqb_spec v 0) as [Ez|Nz].
    - cbn [app] in HM. exists 0, m. unfold dec_sample. rewrite Hb.
      split; [reflexivity|]. split; [|exact HM]. rewrite Ez. apply word_to_coef_0.
    - destruct (qc_sample i Hi) as [Hekb [He1b Hc]]. fold v in Hc. destruct (Hc Nz) as [Hmn [HA HB]].
      pose proof (tuple_range first cq (q_rho q) eps) as Htr. fold tup in Htr.
      destruct (tuple_bit tup i Htr Hi) as [Htb _]. fold ek in Htb.
      rewrite Htb in HM.
      destruct (Z.ltb_spec (uq - Z.land (Z.shiftr ek i) 1) 0) as [?|_]; [lia|].
      rewrite Hs in HM. assert (Evs : v_s v = samp_s v) by (unfold v_s; destruct (Z.eqb_spec v 0); [contradiction|reflexivity]).
      rewrite Evs in HM. cbn [app] in HM.
      destruct (t_ek_bit t i Ht Hi) as [Tek Te1]. rewrite Hek in Tek. rewrite He1 in Te1.
      assert (Hvb : Z.abs v < 2 ^ kmax).
      { unfold v, vnth. inversion Hvs as [|? ? H0 Hvs1]; subst. inversion Hvs1 as [|? ? H1 Hvs2]; subst.
        inversion Hvs2 as [|? ? H2 Hvs3]; subst. inversion Hvs3 as [|? ? H3 _]; subst.
        destruct (i =? 0); [assumption|]. destruct (i =? 1); [assumption|]. destruct (i =? 2); assumption. }
      apply (dec_sample_sig m t uq i p kmax v r (Z.land (Z.shiftr ek i) 1) (Z.land (Z.shiftr (Z.land eps ek) i) 1) Hk Hp Nz Hvb); try assumption.
      intro E. rewrite E in Hb. apply Z.eqb_eq in E. rewrite Z.eqb_refl in Hb. apply Z.eqb_neq in Nz. congruence.
  Qed.
End QuadCode.

(* eps <> 0 exactly when u > 0 *)
Lemma qc_eps_pos : forall kmax k v0 v1 v2 v3, 1 <= kmax <= 30 -> 1 <= k <= 31 -> vs_ok kmax [v0; v1; v2; v3] ->
  let q := vquad v0 v1 v2 v3 in let u := Z.max (q_emax q) k - k in
  0 < u -> quad_eps q u <> 0 /\ q_rho q <> 0.
Proof.
  intros kmax k v0 v1 v2 v3 Hk Hkap Hvs. cbv zeta. intro Hu.
  set (q := vquad v0 v1 v2 v3) in *. set (u := Z.max (q_emax q) k - k) in *.
  assert (Hem : 2 <= q_emax q) by lia.
  (* some sample attains the maximum *)
  assert (Hex : exists i, 0 <= i <= 3 /\ v_e (vnth v0 v1 v2 v3 i) = q_emax q).
  { unfold q, vquad. cbn [q_emax]. 
    destruct (Z.max_spec (Z.max (Z.max (Z.max 0 (v_e v0)) (v_e v1)) (v_e v2)) (v_e v3)) as [[_ E3]|[_ E3]].
    - exists 3. split; [lia|]. rewrite E3. reflexivity.
    - rewrite E3. destruct (Z.max_spec (Z.max (Z.max 0 (v_e v0)) (v_e v1)) (v_e v2)) as [[_ E2]|[_ E2]].
      + exists 2. split; [lia|]. rewrite E2. reflexivity.
      + rewrite E2. destruct (Z.max_spec (Z.max 0 (v_e v0)) (v_e v1)) as [[_ E1]|[_ E1]].
        * exists 1. split; [lia|]. rewrite E1. reflexivity.
        * rewrite E1. destruct (Z.max_spec 0 (v_e v0)) as [[_ E0]|[H0 E0]].
          -- exists 0. split; [lia|]. rewrite E0. reflexivity.
          -- exfalso. unfold q, vquad in Hem. cbn [q_emax] in Hem. lia. }
  destruct Hex as [i [Hi He]].
  destruct (vquad_eps_bit v0 v1 v2 v3 u i Hi) as [Hb _]. fold q in Hb.
  destruct (Z.ltb_spec 0 u); [|lia]. rewrite He, Z.eqb_refl in Hb. cbn [andb] in Hb.
  split.
  - intro E0. rewrite E0, Z.shiftr_0_l in Hb. cbn in Hb. discriminate.
  - intro E0. destruct (vquad_emax kmax v0 v1 v2 v3 Hk Hvs) as [_ [_ [Hz _]]]. fold q in Hz. specialize (Hz E0). lia.
Qed.

(* eps is a subset of rho *)
Lemma nib_ext : forall a b, 0 <= a < 16 -> 0 <= b < 16 ->
  (forall i, 0 <= i <= 3 -> Z.land (Z.shiftr a i) 1 = Z.land (Z.shiftr b i) 1) -> a = b.
Proof.
  intros a b Ha Hb H.
  assert (F : forallb (fun a => forallb (fun b => implb (forallb (fun i => Z.land (Z.shiftr a i) 1 =? Z.land (Z.shiftr b i) 1) [0; 1; 2; 3]) (a =? b))
             (zrange 0 15)) (zrange 0 15) = true) by (vm_compute; reflexivity).
  pose proof (proj1 (forallb_forall _ _) F a (In_zrange 0 15 a ltac:(lia))) as F1. cbv beta in F1.
  pose proof (proj1 (forallb_forall _ _) F1 b (In_zrange 0 15 b ltac:(lia))) as F2. cbv beta in F2.
  assert (Hall : forallb (fun i => Z.land (Z.shiftr a i) 1 =? Z.land (Z.shiftr b i) 1) [0; 1; 2; 3] = true).
  { apply forallb_forall. intros i Hin. apply Z.eqb_eq. apply H. simpl in Hin. lia. }
  rewrite Hall in F2. cbn [implb] in F2. apply Z.eqb_eq. exact F2.
Qed.

Lemma qc_eps_sub : forall kmax k v0 v1 v2 v3, 1 <= kmax <= 30 -> 1 <= k <= 31 -> vs_ok kmax [v0; v1; v2; v3] ->
  let q := vquad v0 v1 v2 v3 in let u := Z.max (q_emax q) k - k in
  Z.land (quad_eps q u) (q_rho q) = quad_eps q u.
Proof.
  intros kmax k v0 v1 v2 v3 Hk Hkap Hvs. cbv zeta.
  set (q := vquad v0 v1 v2 v3). set (u := Z.max (q_emax q) k - k).
  destruct (vquad_eps_bit v0 v1 v2 v3 u 0 ltac:(lia)) as [_ He]. fold q in He.
  destruct (vquad_fields v0 v1 v2 v3 0 ltac:(lia)) as [_ [_ [_ Hr]]]. fold q in Hr.
  apply nib_ext; [|exact He|].
  { split; [apply Z.land_nonneg; lia|].
    assert (E15 : quad_eps q u = Z.land (quad_eps q u) 15) by (change 15 with (Z.ones 4); rewrite Z.land_ones by lia; symmetry; apply Z.mod_small; lia).
    rewrite E15, <- Z.land_assoc, (Z.land_comm 15), Z.land_assoc. change 15 with (Z.ones 4). rewrite Z.land_ones by lia.
    apply Z.mod_pos_bound. lia. }
  intros i Hi. destruct (nib_bits (quad_eps q u) (q_rho q) i He Hr Hi) as [Hp _]. rewrite Hp.
  destruct (vquad_eps_bit v0 v1 v2 v3 u i Hi) as [Hb _]. fold q in Hb. rewrite Hb.
  destruct ((0 <? u) && (v_e (vnth v0 v1 v2 v3 i) =? q_emax q)) eqn:Ec; [|reflexivity].
  apply andb_prop in Ec. destruct Ec as [Eu Ee]. apply Z.ltb_lt in Eu. apply Z.eqb_eq in Ee.
  (* e_i = emax >= 2 : the sample is significant *)
  destruct (vquad_fields v0 v1 v2 v3 i Hi) as [Hsig _]. fold q in Hsig.
  assert (Hvn : vnth v0 v1 v2 v3 i <> 0).
  { intro E0. rewrite E0 in Ee. change (v_e 0) with 0 in Ee. unfold u in Eu. lia. }
  apply Z.eqb_neq in Hvn. rewrite Hvn in Hsig. apply Z.eqb_neq in Hsig.
  (* bit i of rho is set *)
  assert (Hbit : Z.land (Z.shiftr (q_rho q) i) 1 = 1).
  { assert (F : forallb (fun r => forallb (fun i => implb (negb (Z.land r (Z.shiftl 1 i) =? 0)) (Z.land (Z.shiftr r i) 1 =? 1)) [0; 1; 2; 3]) (zrange 0 15) = true)
      by (vm_compute; reflexivity).
    pose proof (proj1 (forallb_forall _ _) F (q_rho q) (In_zrange 0 15 (q_rho q) ltac:(lia))) as F1. cbv beta in F1.
    assert (Hin : In i [0; 1; 2; 3]) by (simpl; lia).
    pose proof (proj1 (forallb_forall _ _) F1 i Hin) as F2. cbv beta in F2.
    apply Z.eqb_neq in Hsig. rewrite Hsig in F2. cbn in F2. apply Z.eqb_eq. exact F2. }
  rewrite Hbit. reflexivity.
Qed.
