(* HTJ2K cleanup pass: the MEL+VLC suffix of every code-block the encoder accepts fits the 12-bit
   Scup locator — the hypothesis of ht_cleanup_roundtrip discharged from the block geometry. *)
From V Require Import Common.Base Gen.HtTables_gen HT.HtMel HT.HtVlc HT.HtUvlc HT.HtLevels HT.HtBlockBits HT.HtBlockEnc HT.HtBlockDec
  HT.HtBitLemmas HT.HtProofsMelOjph HT.HtBlockProofsMs HT.HtBlockProofsVlc HT.HtBlockProofsRead HT.HtBlockProofsQuad
  HT.HtBlockProofsP1 HT.HtBlockProofsMain.

(* total codeword length of a call sequence *)
Fixpoint tlen (calls : list (Z * Z)) : Z := match calls with [] => 0 | c :: r => snd c + tlen r end.

Lemma tlen_app : forall a b, tlen (a ++ b) = tlen a + tlen b.
Proof. induction a as [|c a IH]; intro b; cbn [app tlen]; [lia|rewrite IH; lia]. Qed.

Lemma tlen_pack : forall l, tlen l = snd (pack_calls l).
Proof.
  induction l as [|[c n] l IH]; [reflexivity|]. cbn [tlen pack_calls snd]. rewrite IH.
  destruct (pack_calls l) as [v m]. reflexivity.
Qed.

Lemma call_bits_length : forall l, calls_ok l -> Z.of_nat (length (call_bits l)) = tlen l.
Proof.
  induction l as [|c l IH]; intro H; [reflexivity|]. inversion H as [|? ? Hc Hl]; subst.
  unfold call_bits in *. cbn [flat_map tlen]. rewrite app_length, lsb_bits_length, Nat2Z.inj_add, IH by exact Hl.
  rewrite Z2Nat.id by exact Hc. reflexivity.
Qed.

Lemma land7 : forall x, 0 <= Z.land x 7 <= 7.
Proof.
  intro x. change 7 with (Z.ones 3) at 1 2. rewrite Z.land_ones by lia.
  pose proof (Z.mod_pos_bound x (2 ^ 3) ltac:(lia)). change (2 ^ 3) with 8 in *. lia.
Qed.

Lemma tuple_cw_len7 : forall t, snd (tuple_cw t) <= 7.
Proof. intro t. unfold tuple_cw, tuple_len. cbn [snd]. pose proof (land7 (Z.shiftr t 4)). lia. Qed.

(* quad pairs of a row of n quads *)
Definition prs (n : nat) : Z := Z.of_nat (Nat.div2 (S n)).
Lemma prs_SS : forall n, prs (S (S n)) = 1 + prs n.
Proof. intro n. unfold prs. cbn [Nat.div2]. lia. Qed.

Lemma if_len1 : forall (c : bool) (b : bool), (length (if c then [b] else []) <= 1)%nat.
Proof. intros [|] b; cbn; lia. Qed.

Lemma enc_row0_size : forall kmax vqs cq, 1 <= kmax <= 30 -> Forall (vq_ok kmax) vqs -> 0 <= cq < 8 ->
  tlen (st_vlc (enc_row0 (map q_of vqs) cq)) <= 7 * Z.of_nat (length vqs) + 16 * prs (length vqs) /\
  Z.of_nat (length (st_mel (enc_row0 (map q_of vqs) cq))) <= Z.of_nat (length vqs) + prs (length vqs).
Proof.
  intros kmax vqs. remember (length vqs) as n eqn:En. revert vqs En.
  induction n as [n IH] using lt_wf_ind. intros vqs En cq Hk Hvq Hcq.
  destruct vqs as [|a0 [|a1 rest]].
  - subst n. cbn. unfold prs. cbn. lia.
  - inversion Hvq as [|? ? Hv0 _]; subst.
    assert (Hc0 : code_ok kmax (mk_code a0 cq 1)) by (unfold code_ok; cbn [cd_vq cd_cq cd_k]; repeat split; try assumption; lia).
    pose proof (code_u_range kmax true _ Hk Hc0) as Hu.
    pose proof (uvlc_pair_len16 true (cd_u (mk_code a0 cq 1)) 0 Hu ltac:(lia)) as HL. rewrite <- tlen_pack in HL.
    cbn [map enc_row0 st_vlc st_mel tlen length].
    match goal with |- context [tuple_cw ?t] => pose proof (tuple_cw_len7 t) as HT end.
    change (prs 1) with 1. split; [|destruct (cq =? 0); cbn [length]; lia].
    match goal with |- context [tlen ?l] => change (tlen l) with (tlen (ojph_uvlc_initial_calls (cd_u (mk_code a0 cq 1)) 0)) end.
    lia.
  - inversion Hvq as [|? ? Hv0 Hvq1]; subst. inversion Hvq1 as [|? ? Hv1 Hvq2]; subst.
    pose proof (q_of_rho_range a0) as Hr0. pose proof (q_of_rho_range a1) as Hr1.
    pose proof (ctx_next0_range _ Hr0) as Hn0. pose proof (ctx_next0_range _ Hr1) as Hn1.
    assert (Hc0 : code_ok kmax (mk_code a0 cq 1)) by (unfold code_ok; cbn [cd_vq cd_cq cd_k]; repeat split; try assumption; lia).
    assert (Hc1 : code_ok kmax (mk_code a1 (ctx_next0 (q_rho (q_of a0))) 1)) by (unfold code_ok; cbn [cd_vq cd_cq cd_k]; repeat split; try assumption; lia).
    pose proof (code_u_range kmax true _ Hk Hc0) as Hu0. pose proof (code_u_range kmax true _ Hk Hc1) as Hu1.
    pose proof (uvlc_pair_len16 true _ _ Hu0 Hu1) as HL. rewrite <- tlen_pack in HL.
    destruct (IH (length rest) ltac:(cbn [length] in *; lia) rest eq_refl (ctx_next0 (q_rho (q_of a1))) Hk Hvq2 Hn1) as [IHv IHm].
    cbn [map enc_row0 st_app st_vlc st_mel]. rewrite <- !app_comm_cons. cbn [tlen length]. rewrite tlen_app, !app_length.
    rewrite prs_SS.
    match goal with |- context [snd (tuple_cw ?t) + (snd (tuple_cw ?t') + _)] => pose proof (tuple_cw_len7 t) as HT0; pose proof (tuple_cw_len7 t') as HT1 end.
    split; [|repeat match goal with |- context [if ?c then _ else _] => destruct c end; cbn [length]; lia].
    match goal with |- context [tlen (ojph_uvlc_initial_calls ?x ?y)] =>
      change (tlen (ojph_uvlc_initial_calls x y)) with
        (tlen (ojph_uvlc_initial_calls (cd_u (mk_code a0 cq 1)) (cd_u (mk_code a1 (ctx_next0 (q_rho (q_of a0))) 1)))) end.
    lia.
Qed.

Lemma enc_rowN_size : forall kmax pvqs vqs i left, 1 <= kmax <= 30 -> Forall (vq_ok kmax) pvqs -> Forall (vq_ok kmax) vqs ->
  0 <= left < 16 ->
  tlen (st_vlc (enc_rowN (map q_of pvqs) (map q_of vqs) i left)) <= 7 * Z.of_nat (length vqs) + 16 * prs (length vqs) /\
  Z.of_nat (length (st_mel (enc_rowN (map q_of pvqs) (map q_of vqs) i left))) <= Z.of_nat (length vqs) + prs (length vqs).
Proof.
  intros kmax pvqs vqs. remember (length vqs) as n eqn:En. revert vqs En.
  induction n as [n IH] using lt_wf_ind. intros vqs En i left Hk Hpv Hvq Hleft.
  set (pq := map q_of pvqs) in *.
  assert (Hkap : forall j rho, 1 <= kappa_of pq j rho <= 31) by (intros; apply (kappa_range kmax); assumption).
  assert (Hrr : forall j, 0 <= q_rho (pq_get pq j) < 16) by (intro; apply pq_rho_range).
  destruct vqs as [|a0 [|a1 rest]].
  - subst n. cbn. unfold prs. cbn. lia.
  - inversion Hvq as [|? ? Hv0 _]; subst.
    set (c0 := mk_code a0 (Z.lor (ctx_above pq i) (ctx_left left)) (kappa_of pq i (q_rho (q_of a0)))).
    assert (Hc0 : code_ok kmax c0) by (unfold code_ok, c0; cbn [cd_vq cd_cq cd_k]; split; [exact Hv0|split; [apply ctx_above_left_range; assumption|apply Hkap]]).
    pose proof (code_u_range kmax false _ Hk Hc0) as Hu.
    pose proof (uvlc_pair_len16 false (cd_u c0) 0 Hu ltac:(lia)) as HL. rewrite <- tlen_pack in HL.
    cbn [map enc_rowN st_vlc st_mel tlen length].
    match goal with |- context [tuple_cw ?t] => pose proof (tuple_cw_len7 t) as HT end.
    change (prs 1) with 1. split; [|match goal with |- context [if ?c then _ else _] => destruct c end; cbn [length]; lia].
    match goal with |- context [tlen ?l] => change (tlen l) with (tlen (ojph_uvlc_noninitial_calls (cd_u c0) 0)) end.
    lia.
  - inversion Hvq as [|? ? Hv0 Hvq1]; subst. inversion Hvq1 as [|? ? Hv1 Hvq2]; subst.
    pose proof (q_of_rho_range a0) as Hr0. pose proof (q_of_rho_range a1) as Hr1.
    set (c0 := mk_code a0 (Z.lor (ctx_above pq i) (ctx_left left)) (kappa_of pq i (q_rho (q_of a0)))).
    set (c1 := mk_code a1 (Z.lor (ctx_above pq (i + 1)) (ctx_left (q_rho (q_of a0)))) (kappa_of pq (i + 1) (q_rho (q_of a1)))).
    assert (Hc0 : code_ok kmax c0) by (unfold code_ok, c0; cbn [cd_vq cd_cq cd_k]; split; [exact Hv0|split; [apply ctx_above_left_range; assumption|apply Hkap]]).
    assert (Hc1 : code_ok kmax c1) by (unfold code_ok, c1; cbn [cd_vq cd_cq cd_k]; split; [exact Hv1|split; [apply ctx_above_left_range; assumption|apply Hkap]]).
    pose proof (code_u_range kmax false _ Hk Hc0) as Hu0. pose proof (code_u_range kmax false _ Hk Hc1) as Hu1.
    pose proof (uvlc_pair_len16 false _ _ Hu0 Hu1) as HL. rewrite <- tlen_pack in HL.
    destruct (IH (length rest) ltac:(cbn [length] in *; lia) rest eq_refl (i + 2) (q_rho (q_of a1)) Hk Hpv Hvq2 Hr1) as [IHv IHm].
    cbn [map enc_rowN st_app st_vlc st_mel]. rewrite <- !app_comm_cons. cbn [tlen length]. rewrite tlen_app, !app_length.
    rewrite prs_SS. fold pq in IHv, IHm.
    match goal with |- context [snd (tuple_cw ?t) + (snd (tuple_cw ?t') + _)] => pose proof (tuple_cw_len7 t) as HT0; pose proof (tuple_cw_len7 t') as HT1 end.
    split; [|repeat match goal with |- context [if ?c then _ else _] => destruct c end; cbn [length]; lia].
    match goal with |- context [tlen (ojph_uvlc_noninitial_calls ?x ?y)] =>
      change (tlen (ojph_uvlc_noninitial_calls x y)) with (tlen (ojph_uvlc_noninitial_calls (cd_u c0) (cd_u c1))) end.
    lia.
Qed.

Lemma enc_rows_size : forall kmax n vrows pvqs, 1 <= kmax <= 30 -> Forall (vq_ok kmax) pvqs ->
  Forall (Forall (vq_ok kmax)) vrows -> Forall (fun r => length r = n) vrows ->
  tlen (st_vlc (enc_rows (map (map q_of) vrows) (map q_of pvqs))) <= Z.of_nat (length vrows) * (7 * Z.of_nat n + 16 * prs n) /\
  Z.of_nat (length (st_mel (enc_rows (map (map q_of) vrows) (map q_of pvqs)))) <= Z.of_nat (length vrows) * (Z.of_nat n + prs n).
Proof.
  intros kmax n vrows. induction vrows as [|vr vrows IH]; intros pvqs Hk Hpv Hrows Hlen; [cbn; lia|].
  inversion Hrows as [|? ? Hvr Hrows']; subst. inversion Hlen as [|? ? Hl Hlen']; subst.
  destruct (enc_rowN_size kmax pvqs vr 0 0 Hk Hpv Hvr ltac:(lia)) as [A B].
  destruct (IH vr Hk Hvr Hrows' Hlen') as [C D].
  cbn [map enc_rows st_app st_vlc st_mel]. rewrite tlen_app, app_length. cbn [length].
  rewrite Nat2Z.inj_succ. split; nia.
Qed.

Lemma nb_ge : forall l u, 7 * Z.of_nat (length l) <= nb l u.
Proof.
  induction l as [|b l IH]; intro u; [cbn; lia|]. cbn [nb length]. specialize (IH (b >? 143)).
  unfold ublen. destruct (u && (Z.land b 127 =? 127)); lia.
Qed.

(* the suffix of any call sequences, by their sizes *)
Lemma suffix_by_sizes : forall (S : streams) Q P, calls_ok (st_vlc S) ->
  tlen (st_vlc S) <= 7 * Q + 16 * P -> Z.of_nat (length (st_mel S)) <= Q + P ->
  0 <= Q <= 1024 -> 0 <= P <= 512 ->
  let mel := fold_left melw_encode (st_mel S) melw_init in
  let vs := fold_left vlw_encode (st_vlc S) vlw_init in
  let tr := ojph_mel_terminate mel (vw2_tmp vs) (vw2_used vs) (1 <? zlen (vw2_buf vs)) in
  zlen (fst tr) + zlen (match snd tr with Some b => b :: vlw_bytes vs | None => vlw_bytes vs end) <= 4079.
Proof.
  intros S Q P Hok Hv Hm HQ HP mel vs tr.
  destruct (vlw_final_facts (st_vlc S)) as [Hvt [Hvu _]]. fold vs in Hvt, Hvu.
  pose proof (ojph_mel_bytes_bound (st_mel S) (vw2_tmp vs) (vw2_used vs) (1 <? zlen (vw2_buf vs)) Hvt) as Hmb.
  unfold melw_encode_all in Hmb. fold mel in Hmb. fold tr in Hmb.
  pose proof (VW_calls (st_vlc S) vlw_init [1; 1; 1; 1] VW_init) as HVW. fold vs in HVW.
  destruct HVW as [closed [Ebuf [_ [_ [_ [_ [Hlen [_ [Hu0 _]]]]]]]]].
  rewrite app_length, Nat2Z.inj_add, (call_bits_length _ Hok) in Hlen. cbn [length] in Hlen.
  pose proof (nb_ge closed true) as Hnb.
  assert (Hvl : zlen (vlw_bytes vs) = Z.of_nat (length closed) + 1).
  { unfold vlw_bytes, zlen. rewrite Ebuf, app_length, rev_length. cbn [length]. lia. }
  assert (Hx : zlen (match snd tr with Some b => b :: vlw_bytes vs | None => vlw_bytes vs end) <= zlen (vlw_bytes vs) + 1).
  { destruct (snd tr); unfold zlen; cbn [length]; lia. }
  unfold zlen in *. lia.
Qed.

Theorem ht_suffix_fits : forall w h kmax data,
  1 <= w -> 1 <= h -> 1 <= kmax <= 30 -> good kmax data ->
  Z.quot (w + 1) 2 * Z.quot (h + 1) 2 <= 1024 -> Z.quot (w + 3) 4 * Z.quot (h + 1) 2 <= 512 ->
  ht_suffix_len w h kmax data <= 4079.
Proof.
  intros w h kmax data Hw Hh Hk Hgood HQ HP.
  unfold ht_suffix_len. cbv zeta.
  set (nq := Z.to_nat (Z.quot (w + 1) 2)).
  set (nqy := Z.to_nat (Z.quot (h + 1) 2)).
  assert (Hq2 : 1 <= Z.quot (h + 1) 2) by (apply Z.quot_le_lower_bound; lia).
  destruct nqy as [|nqy'] eqn:En'; [unfold nqy in En'; lia|].
  set (rest := map (vrow data w h) (xs_from 1 nqy')).
  assert (Erows : map (quad_row (map (ht_sample_pack kmax) data) (30 - (kmax - 1)) w h) (zseq (S nqy')) =
                  map (map q_of) (vrow data w h 0 :: rest)).
  { rewrite zseq_xs, xs_from_S. unfold rest. cbn [map]. rewrite !(quad_row_vrow kmax) by assumption.
    f_equal. rewrite !map_map. apply map_ext. intro r. apply (quad_row_vrow kmax); assumption. }
  rewrite Erows. cbn [map enc_streams].
  set (S := st_app (enc_row0 (map q_of (vrow data w h 0)) 0) (enc_rows (map (map q_of) rest) (map q_of (vrow data w h 0)))).
  assert (Hvr0 : Forall (vq_ok kmax) (vrow data w h 0)) by (apply vrow_ok; [lia|exact Hgood]).
  assert (Hrest : Forall (Forall (vq_ok kmax)) rest).
  { unfold rest. apply Forall_forall. intros vr Hin. apply in_map_iff in Hin. destruct Hin as [r [<- _]]. apply vrow_ok; [lia|exact Hgood]. }
  assert (Hrlen : Forall (fun r => length r = nq) rest).
  { unfold rest. apply Forall_forall. intros vr Hin. apply in_map_iff in Hin. destruct Hin as [r [<- _]]. apply vrow_length; exact Hw. }
  assert (Hcok : calls_ok (st_vlc S)).
  { unfold S. cbn [st_app st_vlc]. apply Forall_app. split; [apply (enc_row0_vlc_ok kmax); try assumption; lia|].
    apply (enc_rows_vlc_ok kmax); assumption. }
  destruct (enc_row0_size kmax (vrow data w h 0) 0 Hk Hvr0 ltac:(lia)) as [A0 B0].
  destruct (enc_rows_size kmax nq rest (vrow data w h 0) Hk Hvr0 Hrest Hrlen) as [A1 B1].
  rewrite (vrow_length data w h 0 Hw) in A0, B0. fold nq in A0, B0.
  assert (Elr : length rest = nqy') by (unfold rest; unfold xs_from; rewrite !map_length; apply seq_length).
  rewrite Elr in A1, B1.
  assert (Eprs : prs nq = Z.quot (w + 3) 4).
  { unfold prs, nq. rewrite <- (npairs_eq w Hw). rewrite Z2Nat.id; [reflexivity|apply Z.quot_pos; lia]. }
  assert (Enq : Z.of_nat nq = Z.quot (w + 1) 2) by (unfold nq; rewrite Z2Nat.id; [reflexivity|apply Z.quot_pos; lia]).
  assert (Enqy : Z.of_nat (Datatypes.S nqy') = Z.quot (h + 1) 2) by (rewrite <- En'; unfold nqy; rewrite Z2Nat.id; lia).
  assert (Hq1 : 0 <= Z.quot (w + 1) 2) by (apply Z.quot_pos; lia).
  assert (Hq3 : 0 <= Z.quot (w + 3) 4) by (apply Z.quot_pos; lia).
  apply (suffix_by_sizes S (Z.quot (w + 1) 2 * Z.quot (h + 1) 2) (Z.quot (w + 3) 4 * Z.quot (h + 1) 2) Hcok).
  - unfold S. cbn [st_app st_vlc]. rewrite tlen_app. rewrite Nat2Z.inj_succ in Enqy. nia.
  - unfold S. cbn [st_app st_mel]. rewrite app_length, Nat2Z.inj_add. rewrite Nat2Z.inj_succ in Enqy. nia.
  - split; [apply Z.mul_nonneg_nonneg; lia|exact HQ].
  - split; [apply Z.mul_nonneg_nonneg; lia|exact HP].
Qed.

(* the blocks Encoder.validateParams admits: nominal size W0 x H0, multiples of 4 and 2, at most
   4096 samples; the actual block is at most the nominal one *)
Lemma validated_block_geometry : forall w h W0 H0, 1 <= w <= W0 -> 1 <= h <= H0 ->
  W0 mod 4 = 0 -> H0 mod 2 = 0 -> W0 * H0 <= 4096 ->
  Z.quot (w + 1) 2 * Z.quot (h + 1) 2 <= 1024 /\ Z.quot (w + 3) 4 * Z.quot (h + 1) 2 <= 512.
Proof.
  intros w h W0 H0 Hw Hh HW HH Hp.
  rewrite !Z.quot_div_nonneg by lia.
  pose proof (Z.div_mod W0 4 ltac:(lia)) as EW. pose proof (Z.div_mod H0 2 ltac:(lia)) as EH.
  rewrite HW in EW. rewrite HH in EH. set (a := W0 / 4) in *. set (b := H0 / 2) in *. clearbody a b.
  assert (A1 : (w + 3) / 4 < a + 1) by (apply Z.div_lt_upper_bound; lia).
  assert (A2 : (w + 1) / 2 < 2 * a + 1) by (apply Z.div_lt_upper_bound; lia).
  assert (A3 : (h + 1) / 2 < b + 1) by (apply Z.div_lt_upper_bound; lia).
  assert (P1 : 0 <= (w + 3) / 4) by (apply Z.div_pos; lia).
  assert (P2 : 0 <= (w + 1) / 2) by (apply Z.div_pos; lia).
  assert (P3 : 0 <= (h + 1) / 2) by (apply Z.div_pos; lia).
  assert (Hab : 8 * (a * b) <= 4096).
  { replace (8 * (a * b)) with ((4 * a + 0) * (2 * b + 0)) by ring. rewrite <- EW, <- EH. exact Hp. }
  split.
  - apply Z.le_trans with (2 * a * b); [apply Z.mul_le_mono_nonneg; lia|lia].
  - apply Z.le_trans with (a * b); [apply Z.mul_le_mono_nonneg; lia|lia].
Qed.

Theorem ht_cleanup_roundtrip_validated : forall w h W0 H0 kmax data,
  1 <= w <= W0 -> 1 <= h <= H0 -> W0 mod 4 = 0 -> H0 mod 2 = 0 -> W0 * H0 <= 4096 ->
  1 <= kmax <= 30 -> zlen data = w * h -> good kmax data ->
  exists block, ht_block_encode w h kmax data = Ok block /\
                ht_block_decode w h kmax (kmax - 1) block = Ok data.
Proof.
  intros w h W0 H0 kmax data Hw Hh HW HH Hp Hk Hlen Hgood.
  destruct (validated_block_geometry w h W0 H0 Hw Hh HW HH Hp) as [HQ HP].
  apply ht_cleanup_roundtrip; try assumption; try lia.
  apply ht_suffix_fits; try assumption; lia.
Qed.
