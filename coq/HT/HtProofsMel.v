(* HTJ2K MEL: round trip of MELEncoder / MELDecoder (mel.go) for EVERY event sequence, through
   the byte-stuffed representation (after 0xFF a byte carries 7 bits) and Flush. *)
From V Require Import Common.Base Gen.HtTables_gen HT.HtMel HT.HtVlc HT.HtProofsTables.

(* ---------- the exponent table ---------- *)
Lemma mel_e_range : forall k, 0 <= k <= 12 -> 0 <= mel_e k <= 5.
Proof.
  intros k Hk.
  assert (H : forallb (fun k => (0 <=? mel_e k) && (mel_e k <=? 5)) (zrange 0 12) = true) by (vm_compute; reflexivity).
  pose proof (proj1 (forallb_forall _ _) H k (In_zrange 0 12 k Hk)) as H1. cbv beta in H1.
  apply andb_prop in H1. destruct H1. b2p. lia.
Qed.

Definition kup (k : Z) : Z := if k <? 12 then k + 1 else k.
Definition kdn (k : Z) : Z := if k >? 0 then k - 1 else k.
Definition thr (k : Z) : Z := Z.shiftl 1 (mel_e k).

Lemma kup_range : forall k, 0 <= k <= 12 -> 0 <= kup k <= 12.
Proof. intros k H. unfold kup. destruct (Z.ltb_spec k 12); lia. Qed.
Lemma kdn_range : forall k, 0 <= k <= 12 -> 0 <= kdn k <= 12.
Proof. intros k H. unfold kdn. destruct (Z.gtb_spec k 0); lia. Qed.
Lemma thr_pos : forall k, 0 <= k <= 12 -> 1 <= thr k /\ thr k = 2 ^ mel_e k.
Proof.
  intros k H. pose proof (mel_e_range k H). unfold thr. rewrite Z.shiftl_1_l.
  split; [|reflexivity]. assert (0 < 2 ^ mel_e k) by (apply Z.pow_pos_nonneg; lia). lia.
Qed.

(* ---------- bits of a byte ---------- *)
Lemma msb_bits_app : forall n m d, msb_bits (n + m) d = map (fun b => b) (msb_bits n (Z.shiftr d (Z.of_nat m))) ++ msb_bits m d.
Proof.
  induction n as [|n IH]; intros m d.
  - reflexivity.
  - cbn [Nat.add msb_bits map app]. rewrite IH. f_equal.
    rewrite Z.shiftr_shiftr by lia. f_equal. f_equal. lia.
Qed.

Lemma msb_bits_length : forall n d, length (msb_bits n d) = n.
Proof. induction n; intros; cbn [msb_bits length]; [reflexivity | rewrite IHn; reflexivity]. Qed.

(* appending one bit to a partial byte: msb_bits (c+1) (2t + b) = msb_bits c t ++ [b] *)
Lemma msb_bits_snoc : forall c t b, (b = 0 \/ b = 1) -> 0 <= t ->
  msb_bits (S c) (2 * t + b) = msb_bits c t ++ [b].
Proof.
  induction c as [|c IH]; intros t b Hb Ht.
  - cbn [msb_bits app]. change (Z.of_nat 0) with 0. rewrite Z.shiftr_0_r.
    f_equal. change 1 with (Z.ones 1). rewrite Z.land_ones by lia. change (2 ^ 1) with 2.
    destruct Hb; subst b; [rewrite Z.add_0_r, Z.mul_comm, Z.mod_mul by lia; reflexivity|].
    rewrite Z.mul_comm, Z.add_comm, Z.mod_add by lia. reflexivity.
  - change (msb_bits (S (S c)) (2 * t + b)) with
      (Z.land (Z.shiftr (2 * t + b) (Z.of_nat (S c))) 1 :: msb_bits (S c) (2 * t + b)).
    rewrite IH by assumption. cbn [msb_bits app]. f_equal.
    f_equal. rewrite !Z.shiftr_div_pow2 by lia.
    rewrite Nat2Z.inj_succ, Z.pow_succ_r by lia.
    rewrite <- Z.div_div by (try lia; apply Z.pow_pos_nonneg; lia).
    f_equal. destruct Hb; subst b.
    + rewrite Z.add_0_r, Z.mul_comm, Z.div_mul by lia. reflexivity.
    + rewrite Z.mul_comm, Z.div_add_l by lia. change (1 / 2) with 0. lia.
Qed.

(* left-aligning a partial byte pads with zeros *)
Lemma msb_bits_pad : forall r c t, 0 <= t ->
  msb_bits (c + r) (t * 2 ^ Z.of_nat r) = msb_bits c t ++ repeat 0 r.
Proof.
  induction r as [|r IH]; intros c t Ht.
  - rewrite Nat.add_0_r. change (2 ^ Z.of_nat 0) with 1. rewrite Z.mul_1_r, app_nil_r. reflexivity.
  - replace (c + S r)%nat with (S (c + r)) by lia.
    rewrite Nat2Z.inj_succ, Z.pow_succ_r by lia.
    replace (t * (2 * 2 ^ Z.of_nat r)) with (2 * (t * 2 ^ Z.of_nat r) + 0) by ring.
    rewrite msb_bits_snoc by (try lia; assert (0 < 2 ^ Z.of_nat r) by (apply Z.pow_pos_nonneg; lia); nia).
    rewrite IH by exact Ht. rewrite <- app_assoc. f_equal.
    change [0] with (repeat 0 1). rewrite <- repeat_app. f_equal. lia.
Qed.

(* ---------- un-stuffing: the bit sequence a byte string stands for ---------- *)
Fixpoint unstuff (prev : Z) (l : list Z) : list Z :=
  match l with
  | [] => []
  | b :: r => msb_bits (if prev =? 255 then 7 else 8) b ++ unstuff b r
  end.

Lemma last_cons_default : forall (l : list Z) a d1 d2, last (a :: l) d1 = last (a :: l) d2.
Proof.
  induction l as [|b l IH]; intros a d1 d2; [reflexivity|].
  change (last (a :: b :: l) d1) with (last (b :: l) d1).
  change (last (a :: b :: l) d2) with (last (b :: l) d2). apply IH.
Qed.

Lemma unstuff_snoc : forall l prev b,
  unstuff prev (l ++ [b]) = unstuff prev l ++ msb_bits (if last l prev =? 255 then 7 else 8) b.
Proof.
  induction l as [|a l IH]; intros prev b.
  - cbn [app unstuff last]. rewrite app_nil_r. reflexivity.
  - cbn [app unstuff]. rewrite IH. rewrite <- app_assoc. f_equal. f_equal.
    destruct l as [|z l]; [reflexivity|].
    change (last (a :: z :: l) prev) with (last (z :: l) prev).
    rewrite (last_cons_default l z prev a). reflexivity.
Qed.

(* =====================================================================================
   Writer: the bits emitted so far
   ===================================================================================== *)
Definition w_last (s : melw) : Z := hd 0 (mw_buf s).
Definition w_full (s : melw) : Z := if w_last s =? 255 then 7 else 8.
Definition w_repr (s : melw) : list Z :=
  unstuff 0 (rev (mw_buf s)) ++ msb_bits (Z.to_nat (w_full s - mw_rem s)) (mw_tmp s).
Definition w_ok (s : melw) : Prop :=
  1 <= mw_rem s <= w_full s /\ 0 <= mw_tmp s < 2 ^ (w_full s - mw_rem s) /\
  Forall (fun b => 0 <= b < 256) (mw_buf s).

Lemma last_rev_hd : forall (l : list Z) d, last (rev l) d = hd d l.
Proof.
  intros l d. destruct l as [|a l]; [reflexivity|]. cbn [rev hd]. apply last_last.
Qed.

Lemma emit_spec : forall s b, w_ok s -> (b = 0 \/ b = 1) ->
  let s' := melw_emit s b in
  w_ok s' /\ w_repr s' = w_repr s ++ [b] /\
  mw_run s' = mw_run s /\ mw_k s' = mw_k s /\ mw_thr s' = mw_thr s.
Proof.
  intros s b [Hrem [Htmp Hbuf]] Hb. cbv zeta.
  assert (Hfull : w_full s = 7 \/ w_full s = 8) by (unfold w_full; destruct (w_last s =? 255); auto).
  assert (Hp : 2 ^ (w_full s - mw_rem s) <= 128).
  { change 128 with (2 ^ 7). apply Z.pow_le_mono_r; lia. }
  assert (Eb : Z.land b 1 = b) by (destruct Hb; subst b; reflexivity).
  assert (Etmp : wrapU 8 (Z.lor (Z.shiftl (mw_tmp s) 1) (Z.land b 1)) = 2 * mw_tmp s + b).
  { rewrite Eb. rewrite Z.shiftl_mul_pow2 by lia. change (2 ^ 1) with 2.
    assert (El : Z.lor (mw_tmp s * 2) b = mw_tmp s * 2 + b).
    { destruct Hb; subst b; [rewrite Z.lor_0_r; lia|].
      rewrite (Z.mul_comm (mw_tmp s) 2). apply Z.bits_inj'. intros n Hn.
      rewrite Z.lor_spec. destruct (Z.eq_dec n 0) as [->|Hn0].
      - rewrite Z.testbit_even_0, Z.testbit_odd_0. reflexivity.
      - replace n with (Z.succ (n - 1)) by lia.
        rewrite Z.testbit_even_succ, Z.testbit_odd_succ by lia.
        change 1 with (2 * 0 + 1). rewrite Z.testbit_odd_succ by lia. rewrite Z.bits_0. apply orb_false_r. }
    rewrite El. unfold wrapU. rewrite Z.mod_small; [ring|]. change (2 ^ 8) with 256. destruct Hb; subst b; lia. }
  unfold melw_emit. rewrite Etmp.
  set (t' := 2 * mw_tmp s + b).
  set (c := Z.to_nat (w_full s - mw_rem s)).
  assert (Ec : Z.of_nat c = w_full s - mw_rem s) by (unfold c; lia).
  assert (Ht' : 0 <= t' < 2 ^ (w_full s - mw_rem s + 1)).
  { unfold t'. rewrite Z.pow_add_r by lia. change (2 ^ 1) with 2. destruct Hb; subst b; lia. }
  assert (Hsn : msb_bits (S c) t' = msb_bits c (mw_tmp s) ++ [b]) by (apply msb_bits_snoc; [exact Hb|lia]).
  destruct (Z.eqb_spec (mw_rem s - 1) 0) as [Hz|Hnz].
  - (* byte complete *)
    assert (Hrem1 : mw_rem s = 1) by lia.
    assert (Ht256 : 0 <= t' < 256).
    { rewrite Hrem1 in Ht'. replace (w_full s - 1 + 1) with (w_full s) in Ht' by ring.
      destruct Hfull as [E|E]; rewrite E in Ht'; [change (2 ^ 7) with 128 in Ht'|change (2 ^ 8) with 256 in Ht']; lia. }
    split; [|split; [|repeat split; reflexivity]].
    + unfold w_ok, w_full, w_last. cbn [mw_buf mw_rem mw_tmp hd].
      split; [destruct (t' =? 255); lia|]. split; [rewrite Z.sub_diag; change (2 ^ 0) with 1; lia|].
      constructor; [exact Ht256|exact Hbuf].
    + match goal with |- w_repr ?S' = _ =>
        assert (Er : w_repr S' = unstuff 0 (rev (mw_buf s) ++ [t'])) end.
      { unfold w_repr, w_full, w_last. cbn [mw_buf mw_rem mw_tmp hd rev]. rewrite Z.sub_diag.
        cbn [Z.to_nat msb_bits]. apply app_nil_r. }
      rewrite Er, unstuff_snoc, last_rev_hd. unfold w_repr. rewrite <- app_assoc. f_equal.
      fold c. rewrite <- Hsn. f_equal. unfold c, w_full, w_last. rewrite Hrem1.
      destruct (hd 0 (mw_buf s) =? 255); reflexivity.
  - split; [|split; [|repeat split; reflexivity]].
    + unfold w_ok, w_full, w_last. cbn [mw_buf mw_rem mw_tmp]. fold (w_last s). fold (w_full s).
      split; [lia|]. split; [|exact Hbuf].
      replace (w_full s - (mw_rem s - 1)) with (w_full s - mw_rem s + 1) by ring. exact Ht'.
    + unfold w_repr. unfold w_full, w_last. cbn [mw_buf mw_rem mw_tmp]. fold (w_last s). fold (w_full s).
      rewrite <- app_assoc. f_equal. fold c.
      replace (Z.to_nat (w_full s - (mw_rem s - 1))) with (S c) by (unfold c; lia). exact Hsn.
Qed.

Lemma land1_cases : forall x, Z.land x 1 = 0 \/ Z.land x 1 = 1.
Proof.
  intro x.
  assert (H : Z.land x 1 = x mod 2).
  { change 1 with (Z.ones 1). rewrite Z.land_ones by lia. reflexivity. }
  rewrite H. pose proof (Z.mod_pos_bound x 2 ltac:(lia)). lia.
Qed.

Lemma emit_run_spec : forall t s run, w_ok s ->
  let s' := melw_emit_run t s run in
  w_ok s' /\ w_repr s' = w_repr s ++ msb_bits t run /\
  mw_run s' = mw_run s /\ mw_k s' = mw_k s /\ mw_thr s' = mw_thr s.
Proof.
  induction t as [|t IH]; intros s run Hok; cbv zeta.
  - cbn [melw_emit_run msb_bits]. rewrite app_nil_r. repeat split; [apply Hok..].
  - cbn [melw_emit_run msb_bits].
    destruct (emit_spec s (Z.land (Z.shiftr run (Z.of_nat t)) 1) Hok (land1_cases _)) as [Hok1 [Hr1 [A1 [A2 A3]]]].
    destruct (IH (melw_emit s (Z.land (Z.shiftr run (Z.of_nat t)) 1)) run Hok1) as [Hok2 [Hr2 [B1 [B2 B3]]]].
    split; [exact Hok2|]. split; [rewrite Hr2, Hr1, <- app_assoc; reflexivity|].
    repeat split; congruence.
Qed.

(* ---------- the bit sequence the (flushing) encoder produces from state (k, run) ---------- *)
Fixpoint out (evs : list bool) (k run : Z) : list Z :=
  match evs with
  | [] => if run >? 0 then 0 :: msb_bits (Z.to_nat (mel_e k)) run else []
  | true :: r => (0 :: msb_bits (Z.to_nat (mel_e k)) run) ++ out r (kdn k) 0
  | false :: r => if run + 1 >=? thr k then 1 :: out r (kup k) 0 else out r k (run + 1)
  end.

Definition wst (s : melw) (k run : Z) : Prop :=
  w_ok s /\ mw_k s = k /\ mw_run s = run /\ mw_thr s = thr k /\ 0 <= k <= 12 /\ 0 <= run < thr k.

Lemma set_spec : forall s run k, w_ok s -> w_ok (melw_set s run k) /\ w_repr (melw_set s run k) = w_repr s.
Proof. intros s run k H. split; [exact H|reflexivity]. Qed.

Lemma encode_true_spec : forall s k run, wst s k run ->
  let s' := melw_encode s true in
  wst s' (kdn k) 0 /\ w_repr s' = w_repr s ++ (0 :: msb_bits (Z.to_nat (mel_e k)) run).
Proof.
  intros s k run [Hok [Hk [Hrun [Hthr [Hkr Hrr]]]]]. cbv zeta. unfold melw_encode.
  destruct (emit_spec s 0 Hok (or_introl eq_refl)) as [Hok1 [Hr1 [A1 [A2 A3]]]].
  destruct (emit_run_spec (Z.to_nat (mel_e (mw_k s))) (melw_emit s 0) (mw_run s) Hok1) as [Hok2 [Hr2 [B1 [B2 B3]]]].
  pose proof (kdn_range k Hkr) as Hkd. pose proof (thr_pos (kdn k) Hkd) as [Htp _].
  split.
  - unfold wst. split; [exact Hok2|]. cbn [melw_set mw_k mw_run mw_thr].
    rewrite Hk. fold (kdn k). repeat split; try reflexivity; lia.
  - change (w_repr (melw_set ?a ?b ?c)) with (w_repr a).
    rewrite Hr2, Hr1, Hk, Hrun, <- app_assoc. reflexivity.
Qed.

Lemma encode_false_spec : forall s k run, wst s k run ->
  let s' := melw_encode s false in
  if run + 1 >=? thr k then wst s' (kup k) 0 /\ w_repr s' = w_repr s ++ [1]
  else wst s' k (run + 1) /\ w_repr s' = w_repr s.
Proof.
  intros s k run [Hok [Hk [Hrun [Hthr [Hkr Hrr]]]]]. cbv zeta. unfold melw_encode.
  rewrite Hrun, Hthr.
  destruct (Z.geb_spec (run + 1) (thr k)) as [Hge|Hlt].
  - destruct (emit_spec s 1 Hok (or_intror eq_refl)) as [Hok1 [Hr1 [A1 [A2 A3]]]].
    pose proof (kup_range k Hkr) as Hku. pose proof (thr_pos (kup k) Hku) as [Htp _].
    split.
    + unfold wst. split; [exact Hok1|]. cbn [melw_set mw_k mw_run mw_thr].
      rewrite Hk. fold (kup k). repeat split; try reflexivity; lia.
    + change (w_repr (melw_set ?a ?b ?c)) with (w_repr a). exact Hr1.
  - split; [|reflexivity].
    unfold wst. split; [exact Hok|]. cbn [mw_k mw_run mw_thr]. repeat split; try assumption; lia.
Qed.

Lemma encode_all_spec : forall evs s k run, wst s k run ->
  let s' := fold_left melw_encode evs s in
  let sf := if mw_run s' >? 0 then melw_encode s' true else s' in
  w_ok sf /\ w_repr sf = w_repr s ++ out evs k run.
Proof.
  induction evs as [|ev evs IH]; intros s k run Hst; cbv zeta.
  - cbn [fold_left out]. destruct Hst as [Hok [Hk [Hrun R]]]. rewrite Hrun.
    destruct (Z.gtb_spec run 0).
    + destruct (encode_true_spec s k run (conj Hok (conj Hk (conj Hrun R)))) as [[Hok' _] Hr]. split; assumption.
    + split; [exact Hok | rewrite app_nil_r; reflexivity].
  - cbn [fold_left out]. destruct ev.
    + destruct (encode_true_spec s k run Hst) as [Hst' Hr].
      destruct (IH _ _ _ Hst') as [Hok Hr2]. split; [exact Hok|].
      rewrite Hr2, Hr, <- app_assoc. reflexivity.
    + pose proof (encode_false_spec s k run Hst) as Hf. cbv zeta in Hf.
      destruct (run + 1 >=? thr k).
      * destruct Hf as [Hst' Hr]. destruct (IH _ _ _ Hst') as [Hok Hr2]. split; [exact Hok|].
        rewrite Hr2, Hr, <- app_assoc. reflexivity.
      * destruct Hf as [Hst' Hr]. destruct (IH _ _ _ Hst') as [Hok Hr2]. split; [exact Hok|].
        rewrite Hr2, Hr. reflexivity.
Qed.

Lemma init_wst : wst melw_init 0 0.
Proof.
  unfold wst, w_ok, w_full, w_last, melw_init. cbn [mw_buf mw_rem mw_tmp mw_k mw_run mw_thr hd].
  change (0 =? 255) with false. cbv iota.
  repeat split; try lia; try reflexivity; try constructor.
Qed.

(* Flush: the terminated byte string stands for the emitted bits followed by zero padding *)
Lemma flush_spec : forall sf, w_ok sf ->
  let bytes := if negb (mw_rem sf =? 8) then rev (wrapU 8 (Z.shiftl (mw_tmp sf) (mw_rem sf)) :: mw_buf sf)
               else rev (mw_buf sf) in
  Forall (fun b => 0 <= b < 256) bytes /\ exists pad, unstuff 0 bytes = w_repr sf ++ repeat 0 pad.
Proof.
  intros sf [Hrem [Htmp Hbuf]]. cbv zeta.
  assert (Hfull : w_full sf = 7 \/ w_full sf = 8) by (unfold w_full; destruct (w_last sf =? 255); auto).
  destruct (Z.eqb_spec (mw_rem sf) 8) as [H8|Hn8]; cbn [negb].
  - split; [apply Forall_rev; exact Hbuf|]. exists 0%nat. cbn [repeat]. rewrite app_nil_r.
    unfold w_repr. assert (w_full sf = 8) by lia. rewrite H, H8. cbn [Z.sub Z.to_nat msb_bits]. rewrite Z.sub_diag.
    cbn [Z.to_nat msb_bits]. rewrite app_nil_r. reflexivity.
  - set (c := Z.to_nat (w_full sf - mw_rem sf)). set (r := Z.to_nat (mw_rem sf)).
    assert (Epow : 2 ^ (w_full sf - mw_rem sf) * 2 ^ mw_rem sf = 2 ^ w_full sf).
    { rewrite <- Z.pow_add_r by lia. f_equal. ring. }
    assert (Hp256 : 2 ^ w_full sf <= 256).
    { destruct Hfull as [E|E]; rewrite E; [change (2 ^ 7) with 128|change (2 ^ 8) with 256]; lia. }
    assert (Hpr : 0 < 2 ^ mw_rem sf) by (apply Z.pow_pos_nonneg; lia).
    assert (Et : wrapU 8 (Z.shiftl (mw_tmp sf) (mw_rem sf)) = mw_tmp sf * 2 ^ Z.of_nat r).
    { rewrite Z.shiftl_mul_pow2 by lia. unfold r. rewrite Z2Nat.id by lia.
      unfold wrapU. apply Z.mod_small. change (2 ^ 8) with 256. nia. }
    rewrite Et. cbn [rev]. split.
    + apply Forall_app. split; [apply Forall_rev; exact Hbuf|]. constructor; [|constructor].
      unfold r. rewrite Z2Nat.id by lia. nia.
    + exists r. rewrite unstuff_snoc, last_rev_hd. unfold w_repr. rewrite <- app_assoc. f_equal.
      fold c. rewrite <- msb_bits_pad by lia. f_equal.
      fold (w_last sf). unfold c, r. unfold w_full in *. destruct (w_last sf =? 255); lia.
Qed.

(* the whole encoder: bytes, and the bits they stand for *)
Lemma encoder_bits : forall evs,
  Forall (fun b => 0 <= b < 256) (mel_encode_bytes evs) /\
  exists pad, unstuff 0 (mel_encode_bytes evs) = out evs 0 0 ++ repeat 0 pad.
Proof.
  intro evs. unfold mel_encode_bytes, mel_flush, melw_encode_all.
  destruct (encode_all_spec evs melw_init 0 0 init_wst) as [Hok Hr]. cbv zeta in Hok, Hr.
  set (sf := if mw_run (fold_left melw_encode evs melw_init) >? 0
             then melw_encode (fold_left melw_encode evs melw_init) true
             else fold_left melw_encode evs melw_init) in *.
  destruct (flush_spec sf Hok) as [Hb [pad Hp]]. cbv zeta in Hb, Hp.
  split; [exact Hb|]. exists pad. rewrite Hp, Hr. reflexivity.
Qed.

(* =====================================================================================
   Reader: the bits still to be delivered
   ===================================================================================== *)
Definition top_bits (n : nat) (buf : Z) : list Z := msb_bits n (Z.shiftr buf (8 - Z.of_nat n)).
Definition rd_repr (s : meld) : list Z :=
  top_bits (Z.to_nat (md_bits s)) (md_buf s) ++ unstuff (md_last s) (md_data s).
Definition rd_ok (s : meld) : Prop :=
  0 <= md_bits s <= 8 /\ 0 <= md_buf s < 256 /\ Forall (fun b => 0 <= b < 256) (md_data s).

Fixpoint zlist_eqb (a b : list Z) : bool :=
  match a, b with
  | [], [] => true
  | x :: a', y :: b' => (x =? y) && zlist_eqb a' b'
  | _, _ => false
  end.
Lemma zlist_eqb_eq : forall a b, zlist_eqb a b = true -> a = b.
Proof.
  induction a as [|x a IH]; intros [|y b] H; cbn [zlist_eqb] in H; try discriminate; [reflexivity|].
  apply andb_prop in H. destruct H as [H1 H2]. apply Z.eqb_eq in H1. subst. f_equal. apply IH. exact H2.
Qed.

(* finite facts about one byte, decided over all 256 values *)
Lemma byte_fill7 : forall b, 0 <= b < 256 ->
  top_bits 7 (wrapU 8 (Z.shiftl (Z.land b 127) 1)) = msb_bits 7 b.
Proof.
  intros b Hb.
  assert (H : forallb (fun b => zlist_eqb (top_bits 7 (wrapU 8 (Z.shiftl (Z.land b 127) 1))) (msb_bits 7 b)) (zseq 256) = true)
    by (vm_compute; reflexivity).
  apply zlist_eqb_eq.
  exact (proj1 (forallb_forall _ _) H b (In_zseq 256 b ltac:(change (Z.of_nat 256) with 256; lia))).
Qed.

Lemma byte_take : forall buf n, 0 <= buf < 256 -> (1 <= n <= 8)%nat ->
  top_bits n buf = Z.land (Z.shiftr buf 7) 1 :: top_bits (n - 1) (wrapU 8 (Z.shiftl buf 1)).
Proof.
  intros buf n Hb Hn.
  assert (H : forallb (fun buf => forallb (fun n =>
              zlist_eqb (top_bits n buf) (Z.land (Z.shiftr buf 7) 1 :: top_bits (n - 1) (wrapU 8 (Z.shiftl buf 1))))
              (seq 1 8)) (zseq 256) = true) by (vm_compute; reflexivity).
  pose proof (proj1 (forallb_forall _ _) H buf (In_zseq 256 buf ltac:(change (Z.of_nat 256) with 256; lia))) as H1.
  cbv beta in H1. apply zlist_eqb_eq.
  apply (proj1 (forallb_forall _ _) H1 n). apply in_seq. lia.
Qed.

Lemma wrapU8_byte : forall x, 0 <= wrapU 8 x < 256.
Proof. intro x. unfold wrapU. change (2 ^ 8) with 256. apply Z.mod_pos_bound. lia. Qed.

Lemma read_bit_spec : forall s b r, rd_ok s -> rd_repr s = b :: r ->
  exists s', meld_read_bit s = Some (b, s') /\ rd_ok s' /\ rd_repr s' = r /\
             md_k s' = md_k s /\ md_pz s' = md_pz s /\ md_pone s' = md_pone s.
Proof.
  intros s b r [Hbits [Hbuf Hdata]] Hrepr. unfold meld_read_bit, rd_repr in *.
  destruct (Z.eqb_spec (md_bits s) 0) as [Hz|Hnz].
  - rewrite Hz in Hrepr. cbn [Z.to_nat] in Hrepr. unfold top_bits in Hrepr at 1. cbn [msb_bits app] in Hrepr.
    destruct (md_data s) as [|b0 r0] eqn:Ed; [discriminate|].
    inversion Hdata as [|? ? Hb0 Hr0]; subst.
    cbn [unstuff] in Hrepr.
    destruct (Z.eqb_spec (md_last s) 255) as [Hff|Hnff].
    + rewrite <- (byte_fill7 b0 Hb0) in Hrepr.
      rewrite (byte_take _ 7 (wrapU8_byte _) ltac:(lia)) in Hrepr. cbn [app] in Hrepr.
      inversion Hrepr as [[Eb Er]].
      eexists. split; [reflexivity|]. cbn [md_data md_last md_bits md_buf md_k md_pz md_pone].
      split; [unfold rd_ok; cbn [md_data md_last md_bits md_buf]; split; [lia|]; split; [apply wrapU8_byte|exact Hr0]|].
      split; [|repeat split; reflexivity].
      unfold rd_repr. cbn [md_data md_last md_bits md_buf]. reflexivity.
    + assert (E8 : msb_bits 8 b0 = top_bits 8 b0) by (unfold top_bits; cbn [Z.of_nat]; rewrite Z.shiftr_0_r; reflexivity).
      rewrite E8 in Hrepr.
      rewrite (byte_take b0 8 Hb0 ltac:(lia)) in Hrepr. cbn [app] in Hrepr.
      inversion Hrepr as [[Eb Er]].
      eexists. split; [reflexivity|]. cbn [md_data md_last md_bits md_buf md_k md_pz md_pone].
      split; [unfold rd_ok; cbn [md_data md_last md_bits md_buf]; split; [lia|]; split; [apply wrapU8_byte|exact Hr0]|].
      split; [|repeat split; reflexivity].
      unfold rd_repr. cbn [md_data md_last md_bits md_buf]. reflexivity.
  - assert (Hn : (1 <= Z.to_nat (md_bits s) <= 8)%nat) by lia.
    rewrite (byte_take _ _ Hbuf Hn) in Hrepr. cbn [app] in Hrepr.
    inversion Hrepr as [[Eb Er]].
    eexists. split; [reflexivity|]. cbn [md_data md_last md_bits md_buf md_k md_pz md_pone].
    split; [unfold rd_ok; cbn [md_data md_last md_bits md_buf]; split; [lia|]; split; [apply wrapU8_byte|exact Hdata]|].
    split; [|repeat split; reflexivity].
    unfold rd_repr. cbn [md_data md_last md_bits md_buf].
    replace (Z.to_nat (md_bits s - 1)) with (Z.to_nat (md_bits s) - 1)%nat by lia. reflexivity.
Qed.

Lemma read_run_spec : forall n s acc j r, rd_ok s -> 0 <= j ->
  rd_repr s = msb_bits n j ++ r ->
  exists s', meld_read_run n s acc = Some (acc * 2 ^ Z.of_nat n + j mod 2 ^ Z.of_nat n, s') /\ rd_ok s' /\
             rd_repr s' = r /\ md_k s' = md_k s /\ md_pz s' = md_pz s /\ md_pone s' = md_pone s.
Proof.
  induction n as [|n IH]; intros s acc j r Hok Hj Hrepr.
  - cbn [meld_read_run msb_bits app] in *. exists s. change (2 ^ Z.of_nat 0) with 1.
    rewrite Z.mod_1_r, Z.mul_1_r, Z.add_0_r.
    split; [reflexivity|]. split; [exact Hok|]. split; [exact Hrepr|]. repeat split; reflexivity.
  - cbn [meld_read_run msb_bits app] in *.
    destruct (read_bit_spec s _ _ Hok Hrepr) as [s1 [Hrd [Hok1 [Hr1 [K1 [P1 O1]]]]]].
    rewrite Hrd. set (b := Z.land (Z.shiftr j (Z.of_nat n)) 1) in *.
    destruct (IH s1 (Z.lor (Z.shiftl acc 1) b) j r Hok1 Hj Hr1) as [s2 [Hrun [Hok2 [Hr2 [K2 [P2 O2]]]]]].
    exists s2. split.
    + rewrite Hrun. f_equal. f_equal.
      assert (Eb : b = (j / 2 ^ Z.of_nat n) mod 2).
      { unfold b. rewrite Z.shiftr_div_pow2 by lia. change 1 with (Z.ones 1). rewrite Z.land_ones by lia. reflexivity. }
      assert (Hb : b = 0 \/ b = 1) by (rewrite Eb; pose proof (Z.mod_pos_bound (j / 2 ^ Z.of_nat n) 2 ltac:(lia)); lia).
      assert (Hp : 0 < 2 ^ Z.of_nat n) by (apply Z.pow_pos_nonneg; lia).
      assert (El : Z.lor (Z.shiftl acc 1) b = 2 * acc + b).
      { rewrite Z.shiftl_mul_pow2 by lia. change (2 ^ 1) with 2. rewrite (Z.mul_comm acc 2).
        destruct Hb as [E|E]; rewrite E; [rewrite Z.lor_0_r; lia|].
        apply Z.bits_inj'. intros m Hm. rewrite Z.lor_spec. destruct (Z.eq_dec m 0) as [->|Hm0].
        - rewrite Z.testbit_even_0, Z.testbit_odd_0. reflexivity.
        - replace m with (Z.succ (m - 1)) by lia.
          rewrite Z.testbit_even_succ, Z.testbit_odd_succ by lia.
          change 1 with (2 * 0 + 1). rewrite Z.testbit_odd_succ by lia. rewrite Z.bits_0. apply orb_false_r. }
      rewrite El. rewrite Nat2Z.inj_succ, Z.pow_succ_r by lia.
      rewrite (Z.mul_comm 2 (2 ^ Z.of_nat n)).
      rewrite (Z.rem_mul_r j (2 ^ Z.of_nat n) 2) by lia. rewrite <- Eb. ring.
    + split; [exact Hok2|]. split; [exact Hr2|]. repeat split; congruence.
Qed.

(* =====================================================================================
   Decoder steps on a described state
   ===================================================================================== *)
Definition dst (s : meld) (k pz : Z) (pone : bool) (bits : list Z) : Prop :=
  md_k s = k /\ md_pz s = pz /\ md_pone s = pone /\ rd_ok s /\ rd_repr s = bits.

Lemma dec_pending_zero : forall s k pz pone bits, dst s k pz pone bits -> 0 < pz ->
  exists s', meld_decode s = Some (false, s') /\ dst s' k (pz - 1) pone bits.
Proof.
  intros s k pz pone bits [Hk [Hpz [Hpo [Hok Hr]]]] Hpos.
  unfold meld_decode, meld_pending. rewrite Hpz.
  destruct (Z.gtb_spec pz 0) as [_|?]; [|lia].
  eexists. split; [reflexivity|]. unfold dst, rd_ok, rd_repr. cbn [md_k md_pz md_pone md_bits md_buf md_data md_last].
  repeat split; try assumption; try reflexivity; apply Hok.
Qed.

Lemma dec_pending_one : forall s k bits, dst s k 0 true bits ->
  exists s', meld_decode s = Some (true, s') /\ dst s' k 0 false bits.
Proof.
  intros s k bits [Hk [Hpz [Hpo [Hok Hr]]]].
  unfold meld_decode, meld_pending. rewrite Hpz, Hpo. change (0 >? 0) with false. cbv iota.
  eexists. split; [reflexivity|]. unfold dst, rd_ok, rd_repr. cbn [md_k md_pz md_pone md_bits md_buf md_data md_last].
  repeat split; try assumption; try reflexivity; apply Hok.
Qed.

Lemma dec_read_one : forall s k bits, 0 <= k <= 12 -> dst s k 0 false (1 :: bits) ->
  exists s', meld_decode s = Some (false, s') /\ dst s' (kup k) (thr k - 1) false bits.
Proof.
  intros s k bits Hkr [Hk [Hpz [Hpo [Hok Hr]]]].
  destruct (read_bit_spec s 1 bits Hok Hr) as [s1 [Hrd [Hok1 [Hr1 [K1 [P1 O1]]]]]].
  unfold meld_decode. unfold meld_pending at 1. rewrite Hpz, Hpo. change (0 >? 0) with false. cbv iota.
  rewrite Hrd. change (1 =? 1) with true. cbv iota.
  pose proof (thr_pos k Hkr) as [Htp _].
  unfold meld_pending. cbn [md_k md_pz md_pone md_bits md_buf md_data md_last].
  rewrite K1, Hk. fold (thr k). fold (kup k).
  destruct (Z.gtb_spec (thr k) 0) as [_|?]; [|lia].
  eexists. split; [reflexivity|]. unfold dst, rd_ok, rd_repr. cbn [md_k md_pz md_pone md_bits md_buf md_data md_last].
  repeat split; try assumption; try reflexivity; try apply Hok1. congruence.
Qed.

Lemma dec_read_zero : forall s k j bits, 0 <= k <= 12 -> 0 <= j < thr k ->
  dst s k 0 false ((0 :: msb_bits (Z.to_nat (mel_e k)) j) ++ bits) ->
  exists s' ev, meld_decode s = Some (ev, s') /\
    (if j >? 0 then ev = false /\ dst s' (kdn k) (j - 1) true bits
     else ev = true /\ dst s' (kdn k) 0 false bits).
Proof.
  intros s k j bits Hkr Hj [Hk [Hpz [Hpo [Hok Hr]]]].
  cbn [app] in Hr.
  destruct (read_bit_spec s 0 _ Hok Hr) as [s1 [Hrd [Hok1 [Hr1 [K1 [P1 O1]]]]]].
  destruct (read_run_spec (Z.to_nat (mel_e k)) s1 0 j bits Hok1 ltac:(lia) Hr1) as [s2 [Hrun [Hok2 [Hr2 [K2 [P2 O2]]]]]].
  pose proof (mel_e_range k Hkr) as He. pose proof (thr_pos k Hkr) as [_ Et].
  rewrite Z2Nat.id in Hrun by lia. rewrite <- Et in Hrun. rewrite Z.mod_small in Hrun by lia.
  rewrite Z.mul_0_l, Z.add_0_l in Hrun.
  unfold meld_decode. unfold meld_pending at 1. rewrite Hpz, Hpo. change (0 >? 0) with false. cbv iota.
  rewrite Hrd. change (0 =? 1) with false. cbv iota. rewrite K1, Hk, Hrun.
  unfold meld_pending. cbn [md_k md_pz md_pone md_bits md_buf md_data md_last].
  rewrite K2, K1, Hk. fold (kdn k).
  destruct (Z.gtb_spec j 0) as [Hjp|Hj0].
  - eexists. exists false. split; [reflexivity|]. split; [reflexivity|].
    unfold dst, rd_ok, rd_repr. cbn [md_k md_pz md_pone md_bits md_buf md_data md_last].
    repeat split; try assumption; try reflexivity; apply Hok2.
  - eexists. exists true. split; [reflexivity|]. split; [reflexivity|].
    unfold dst, rd_ok, rd_repr. cbn [md_k md_pz md_pone md_bits md_buf md_data md_last].
    repeat split; try assumption; try reflexivity; try apply Hok2. lia.
Qed.

(* deliver m pending zeros, then continue *)
Lemma deliver_zeros : forall m s k pone bits n rest, dst s k (Z.of_nat m) pone bits ->
  (forall s', dst s' k 0 pone bits -> meld_decode_n n s' = Some rest) ->
  meld_decode_n (m + n) s = Some (repeat false m ++ rest).
Proof.
  induction m as [|m IH]; intros s k pone bits n rest Hd Hcont.
  - cbn [Nat.add repeat app]. apply Hcont. exact Hd.
  - destruct (dec_pending_zero s k _ pone bits Hd ltac:(lia)) as [s' [Hdec Hd']].
    replace (Z.of_nat (S m) - 1) with (Z.of_nat m) in Hd' by lia.
    cbn [Nat.add meld_decode_n repeat app]. rewrite Hdec. rewrite (IH s' k pone bits n rest Hd' Hcont). reflexivity.
Qed.

(* ---------- the encoder's bits for a block of zeros ---------- *)
Lemma out_zeros_lt : forall m k run rest, 0 <= run -> run + Z.of_nat m < thr k ->
  out (repeat false m ++ rest) k run = out rest k (run + Z.of_nat m).
Proof.
  induction m as [|m IH]; intros k run rest Hr Hlt.
  - cbn [repeat app]. rewrite Z.add_0_r. reflexivity.
  - cbn [repeat app out]. destruct (Z.geb_spec (run + 1) (thr k)) as [?|_]; [lia|].
    rewrite IH by lia. f_equal. lia.
Qed.

Lemma out_zeros_full : forall m k run rest, 0 <= run -> run + Z.of_nat (S m) = thr k ->
  out (repeat false (S m) ++ rest) k run = 1 :: out rest (kup k) 0.
Proof.
  intros m k run rest Hr He.
  replace (S m) with (m + 1)%nat by lia. rewrite repeat_app, <- app_assoc.
  rewrite out_zeros_lt by lia. cbn [repeat app out].
  destruct (Z.geb_spec (run + Z.of_nat m + 1) (thr k)) as [_|?]; [reflexivity|lia].
Qed.

Lemma split_lead : forall T evs,
  (exists rest, evs = repeat false T ++ rest) \/
  (exists j rest, (j < T)%nat /\ evs = repeat false j ++ true :: rest) \/
  (exists j, (j < T)%nat /\ evs = repeat false j).
Proof.
  induction T as [|T IH]; intro evs.
  - left. exists evs. reflexivity.
  - destruct evs as [|[|] r].
    + right. right. exists 0%nat. split; [lia|reflexivity].
    + right. left. exists 0%nat, r. split; [lia|reflexivity].
    + destruct (IH r) as [[rest E]|[[j [rest [Hj E]]]|[j [Hj E]]]]; subst r.
      * left. exists rest. reflexivity.
      * right. left. exists (S j), rest. split; [lia|reflexivity].
      * right. right. exists (S j). split; [lia|reflexivity].
Qed.

(* ---------- main induction: block by block ---------- *)
Lemma decode_blocks : forall len evs, (length evs <= len)%nat -> forall s k tail,
  0 <= k <= 12 -> dst s k 0 false (out evs k 0 ++ tail) ->
  meld_decode_n (length evs) s = Some evs.
Proof.
  induction len as [|len IH]; intros evs Hlen s k tail Hkr Hd.
  - destruct evs; [reflexivity|cbn [length] in Hlen; lia].
  - pose proof (thr_pos k Hkr) as [Htp Et]. pose proof (mel_e_range k Hkr) as He.
    set (T := Z.to_nat (thr k)). assert (HT : Z.of_nat T = thr k) by (unfold T; lia).
    destruct (split_lead T evs) as [[rest E]|[[j [rest [Hj E]]]|[j [Hj E]]]]; subst evs.
    + (* a full block of T zeros: codeword 1 *)
      destruct T as [|T']; [lia|].
      rewrite (out_zeros_full T' k 0 rest ltac:(lia) ltac:(lia)) in Hd. cbn [app] in Hd.
      destruct (dec_read_one s k _ Hkr Hd) as [s1 [Hdec Hd1]].
      rewrite app_length, repeat_length. cbn [Nat.add meld_decode_n repeat app]. rewrite Hdec.
      replace (thr k - 1) with (Z.of_nat T') in Hd1 by lia.
      rewrite (deliver_zeros T' s1 (kup k) false _ (length rest) rest Hd1); [reflexivity|].
      intros s' Hs'. apply (IH rest) with (k := kup k) (tail := tail).
      * rewrite app_length, repeat_length in Hlen. lia.
      * apply kup_range; exact Hkr.
      * exact Hs'.
    + (* j zeros then a one: codeword 0 + j *)
      rewrite (out_zeros_lt j k 0 (true :: rest) ltac:(lia) ltac:(lia)) in Hd.
      cbn [out] in Hd. rewrite Z.add_0_l in Hd. rewrite <- app_assoc in Hd.
      destruct (dec_read_zero s k (Z.of_nat j) _ Hkr ltac:(lia) Hd) as [s1 [ev [Hdec Hcase]]].
      rewrite app_length, repeat_length. cbn [length].
      assert (Hrest : forall s', dst s' (kdn k) 0 false (out rest (kdn k) 0 ++ tail) -> meld_decode_n (length rest) s' = Some rest).
      { intros s' Hs'. apply (IH rest) with (k := kdn k) (tail := tail); [|apply kdn_range; exact Hkr|exact Hs'].
        rewrite app_length, repeat_length in Hlen. cbn [length] in Hlen. lia. }
      destruct j as [|j'].
      * change (Z.of_nat 0 >? 0) with false in Hcase. cbv iota in Hcase. destruct Hcase as [-> Hd1].
        cbn [Nat.add meld_decode_n repeat app]. rewrite Hdec. rewrite (Hrest s1 Hd1). reflexivity.
      * destruct (Z.gtb_spec (Z.of_nat (S j')) 0) as [_|?]; [|lia]. destruct Hcase as [-> Hd1].
        replace (Z.of_nat (S j') - 1) with (Z.of_nat j') in Hd1 by lia.
        cbn [Nat.add meld_decode_n repeat app]. rewrite Hdec.
        replace (j' + S (length rest))%nat with (j' + (1 + length rest))%nat by lia.
        rewrite (deliver_zeros j' s1 (kdn k) true _ (1 + length rest) (true :: rest) Hd1); [reflexivity|].
        intros s' Hs'. destruct (dec_pending_one s' (kdn k) _ Hs') as [s2 [Hdec2 Hd2]].
        cbn [Nat.add meld_decode_n]. rewrite Hdec2. rewrite (Hrest s2 Hd2). reflexivity.
    + (* a trailing incomplete run: closed by Flush *)
      destruct j as [|j']; [reflexivity|].
      rewrite <- (app_nil_r (repeat false (S j'))) in Hd.
      rewrite (out_zeros_lt (S j') k 0 [] ltac:(lia) ltac:(lia)) in Hd.
      cbn [out] in Hd. rewrite Z.add_0_l in Hd.
      destruct (Z.gtb_spec (Z.of_nat (S j')) 0) as [_|?]; [|lia].
      destruct (dec_read_zero s k (Z.of_nat (S j')) tail Hkr ltac:(lia) Hd) as [s1 [ev [Hdec Hcase]]].
      destruct (Z.gtb_spec (Z.of_nat (S j')) 0) as [_|?]; [|lia]. destruct Hcase as [-> Hd1].
      replace (Z.of_nat (S j') - 1) with (Z.of_nat j') in Hd1 by lia.
      rewrite repeat_length. cbn [meld_decode_n repeat]. rewrite Hdec.
      replace j' with (j' + 0)%nat at 1 by lia.
      rewrite (deliver_zeros j' s1 (kdn k) true _ 0%nat [] Hd1); [rewrite app_nil_r; reflexivity|].
      intros s' _. reflexivity.
Qed.

(* mel_roundtrip: for ANY list of events of ANY length, MELDecoder fed the bytes MELEncoder
   produced (EncodeBit for every event, then Flush — stuffing, closing of a pending run and zero
   padding included) returns exactly the events, one per DecodeBit call, never reporting
   exhaustion. *)
Theorem mel_roundtrip : forall evs : list bool,
  mel_decode_bytes (length evs) (mel_encode_bytes evs) = Some evs.
Proof.
  intro evs. destruct (encoder_bits evs) as [Hb [pad Hu]].
  unfold mel_decode_bytes.
  apply (decode_blocks (length evs) evs (le_n _) _ 0 (repeat 0 pad)); [lia|].
  unfold dst, meld_init, rd_ok, rd_repr. cbn [md_k md_pz md_pone md_bits md_buf md_data md_last].
  repeat split; try reflexivity; try lia; [exact Hb|]. rewrite <- Hu. reflexivity.
Qed.

Lemma mel_bytes_are_bytes : forall evs, Forall (fun b => 0 <= b < 256) (mel_encode_bytes evs).
Proof. intro evs. exact (proj1 (encoder_bits evs)). Qed.
