(* HTJ2K MEL, the live pair: ojphMELWriter + terminateOJPHMELVLC against ojphMELReader consumed
   through the run counter of ojphCleanupState (openjph_cleanup_{encoder,decoder}.go). *)
From V Require Import Common.Base Gen.HtTables_gen HT.HtMel HT.HtVlc HT.HtProofsTables HT.HtProofsMel.

(* ---------- run values and their codewords ---------- *)
(* the run values the reader must deliver for the events still to come, encoder state (k, run);
   a pending run at the end is closed by terminateOJPHMELVLC with a single 1 bit = a full block *)
Fixpoint runs_of (evs : list bool) (k run : Z) : list Z :=
  match evs with
  | [] => if run >? 0 then [2 * (thr k - 1)] else []
  | true :: r => (2 * run + 1) :: runs_of r (kdn k) 0
  | false :: r => if run + 1 >=? thr k then 2 * (thr k - 1) :: runs_of r (kup k) 0 else runs_of r k (run + 1)
  end.

(* the codewords of a list of run values from exponent state k: even = full block "1",
   odd 2j+1 = "0" then j on E[k] bits *)
Fixpoint bits_of_runs (rs : list Z) (k : Z) : list Z :=
  match rs with
  | [] => []
  | r :: rs' => if Z.even r then 1 :: bits_of_runs rs' (kup k)
                else (0 :: msb_bits (Z.to_nat (mel_e k)) (Z.shiftr r 1)) ++ bits_of_runs rs' (kdn k)
  end.

(* what the writer has emitted once terminateOJPHMELVLC closed a pending run *)
Fixpoint outj (evs : list bool) (k run : Z) : list Z :=
  match evs with
  | [] => if run >? 0 then [1] else []
  | true :: r => (0 :: msb_bits (Z.to_nat (mel_e k)) run) ++ outj r (kdn k) 0
  | false :: r => if run + 1 >=? thr k then 1 :: outj r (kup k) 0 else outj r k (run + 1)
  end.

Lemma even_2x : forall x, Z.even (2 * x) = true.
Proof. intro x. rewrite Z.even_mul. reflexivity. Qed.
Lemma even_2x1 : forall x, Z.even (2 * x + 1) = false.
Proof. intro x. rewrite Z.even_add, Z.even_mul. reflexivity. Qed.
Lemma half_2x1 : forall x, Z.shiftr (2 * x + 1) 1 = x.
Proof.
  intro x. rewrite Z.shiftr_div_pow2 by lia. change (2 ^ 1) with 2.
  rewrite Z.mul_comm, Z.div_add_l by lia. change (1 / 2) with 0. lia.
Qed.

Lemma outj_bits : forall evs k run, outj evs k run = bits_of_runs (runs_of evs k run) k.
Proof.
  induction evs as [|[|] evs IH]; intros k run.
  - cbn [outj runs_of]. destruct (run >? 0); [|reflexivity]. cbn [bits_of_runs]. rewrite even_2x. reflexivity.
  - cbn [outj runs_of bits_of_runs]. rewrite even_2x1, half_2x1, IH. reflexivity.
  - cbn [outj runs_of]. destruct (run + 1 >=? thr k).
    + cbn [bits_of_runs]. rewrite even_2x, IH. reflexivity.
    + apply IH.
Qed.

(* ---------- writer: encode all events, then terminate ---------- *)
Lemma encode_all_spec_j : forall evs s k run, wst s k run ->
  let s' := fold_left melw_encode evs s in
  let sf := if mw_run s' >? 0 then melw_emit s' 1 else s' in
  w_ok sf /\ w_repr sf = w_repr s ++ outj evs k run.
Proof.
  induction evs as [|ev evs IH]; intros s k run Hst; cbv zeta.
  - cbn [fold_left outj]. destruct Hst as [Hok [Hk [Hrun R]]]. rewrite Hrun.
    destruct (Z.gtb_spec run 0).
    + destruct (emit_spec s 1 Hok (or_intror eq_refl)) as [Hok' [Hr _]]. split; assumption.
    + split; [exact Hok | rewrite app_nil_r; reflexivity].
  - cbn [fold_left outj]. destruct ev.
    + destruct (encode_true_spec s k run Hst) as [Hst' Hr].
      destruct (IH _ _ _ Hst') as [Hok Hr2]. split; [exact Hok|].
      rewrite Hr2, Hr, <- app_assoc. reflexivity.
    + pose proof (encode_false_spec s k run Hst) as Hf. cbv zeta in Hf.
      destruct (run + 1 >=? thr k).
      * destruct Hf as [Hst' Hr]. destruct (IH _ _ _ Hst') as [Hok Hr2]. split; [exact Hok|].
        rewrite Hr2, Hr, <- app_assoc. reflexivity.
      * destruct Hf as [Hst' Hr]. destruct (IH _ _ _ Hst') as [Hok Hr2]. split; [exact Hok|].
        rewrite Hr2, Hr. reflexivity.
Qed.

(* the last MEL byte after fusion keeps the MEL bits: finite fact over every (full, rem, tmp, byte) *)
Definition fuse_ok (full rem tmp fz : Z) : bool :=
  let mtmp := Z.shiftl tmp rem in
  let melMask := Z.land (Z.shiftl 255 rem) 255 in
  implb (Z.land (Z.lxor fz mtmp) melMask =? 0)
        (zlist_eqb (firstn (Z.to_nat (full - rem)) (msb_bits (Z.to_nat full) fz))
                   (msb_bits (Z.to_nat (full - rem)) tmp)).
Lemma fuse_keeps_mel_bits : forall full rem tmp fz,
  (full = 7 \/ full = 8) -> 1 <= rem <= full -> 0 <= tmp < 2 ^ (full - rem) -> 0 <= fz < 256 ->
  fuse_ok full rem tmp fz = true.
Proof.
  intros full rem tmp fz Hf Hr Ht Hz.
  assert (H : forallb (fun full => forallb (fun rem => forallb (fun tmp => forallb (fun fz =>
              implb ((rem <=? full) && (tmp <? 2 ^ (full - rem))) (fuse_ok full rem tmp fz))
              (zseq 256)) (zseq 128)) (zrange 1 8)) [7; 8] = true) by (vm_compute; reflexivity).
  assert (Hin : In full [7; 8]) by (destruct Hf; subst; simpl; auto).
  pose proof (proj1 (forallb_forall _ _) H full Hin) as H1. cbv beta in H1.
  pose proof (proj1 (forallb_forall _ _) H1 rem (In_zrange 1 8 rem ltac:(lia))) as H2. cbv beta in H2.
  assert (Ht128 : 0 <= tmp < 128).
  { assert (2 ^ (full - rem) <= 2 ^ 7) by (apply Z.pow_le_mono_r; lia). change (2 ^ 7) with 128 in *. lia. }
  pose proof (proj1 (forallb_forall _ _) H2 tmp (In_zseq 128 tmp ltac:(change (Z.of_nat 128) with 128; lia))) as H3. cbv beta in H3.
  pose proof (proj1 (forallb_forall _ _) H3 fz (In_zseq 256 fz ltac:(change (Z.of_nat 256) with 256; lia))) as H4. cbv beta in H4.
  destruct (Z.leb_spec rem full) as [_|?]; [|lia]. destruct (Z.ltb_spec tmp (2 ^ (full - rem))) as [_|?]; [|lia].
  exact H4.
Qed.

Lemma lor_lt_256 : forall a b, 0 <= a < 256 -> 0 <= b < 256 -> 0 <= Z.lor a b < 256.
Proof.
  intros a b Ha Hb. split; [apply Z.lor_nonneg; lia|].
  destruct (Z.eq_dec (Z.lor a b) 0) as [->|Hn]; [lia|].
  change 256 with (2 ^ 8). apply Z.log2_lt_pow2; [assert (0 <= Z.lor a b) by (apply Z.lor_nonneg; lia); lia|].
  rewrite Z.log2_lor by lia.
  assert (La : Z.log2 a < 8) by (destruct (Z.eq_dec a 0) as [->|]; [simpl; lia | apply Z.log2_lt_pow2; [lia | change (2 ^ 8) with 256; lia]]).
  assert (Lb : Z.log2 b < 8) by (destruct (Z.eq_dec b 0) as [->|]; [simpl; lia | apply Z.log2_lt_pow2; [lia | change (2 ^ 8) with 256; lia]]).
  lia.
Qed.

Lemma melmask_zero : forall rem, 1 <= rem <= 8 -> Z.land (Z.shiftl 255 rem) 255 = 0 -> rem = 8.
Proof.
  intros rem Hr H.
  assert (C : rem = 1 \/ rem = 2 \/ rem = 3 \/ rem = 4 \/ rem = 5 \/ rem = 6 \/ rem = 7 \/ rem = 8) by lia.
  destruct C as [->|[->|[->|[->|[->|[->|[->| ->]]]]]]]; try reflexivity; vm_compute in H; discriminate.
Qed.

(* terminateOJPHMELVLC: the MEL bytes stand for the emitted bits followed by SOME further bits
   (zero padding, or the low bits of the fused VLC byte) *)
Lemma terminate_spec : forall s vt vu more,
  let sf := if mw_run s >? 0 then melw_emit s 1 else s in
  w_ok sf -> 0 <= vt < 256 ->
  Forall (fun b => 0 <= b < 256) (fst (ojph_mel_terminate s vt vu more)) /\
  exists tail, unstuff 0 (fst (ojph_mel_terminate s vt vu more)) = w_repr sf ++ tail /\ (length tail <= 8)%nat.
Proof.
  intros s vt vu more sf [Hrem [Htmp Hbuf]] Hvt. unfold ojph_mel_terminate. fold sf.
  assert (Hfull : w_full sf = 7 \/ w_full sf = 8) by (unfold w_full; destruct (w_last sf =? 255); auto).
  set (c := Z.to_nat (w_full sf - mw_rem sf)). set (r := Z.to_nat (mw_rem sf)).
  assert (Epow : 2 ^ (w_full sf - mw_rem sf) * 2 ^ mw_rem sf = 2 ^ w_full sf).
  { rewrite <- Z.pow_add_r by lia. f_equal. ring. }
  assert (Hp256 : 2 ^ w_full sf <= 256).
  { destruct Hfull as [E|E]; rewrite E; [change (2 ^ 7) with 128|change (2 ^ 8) with 256]; lia. }
  assert (Hpr : 0 < 2 ^ mw_rem sf) by (apply Z.pow_pos_nonneg; lia).
  assert (Emt : Z.shiftl (mw_tmp sf) (mw_rem sf) = mw_tmp sf * 2 ^ Z.of_nat r).
  { rewrite Z.shiftl_mul_pow2 by lia. unfold r. rewrite Z2Nat.id by lia. reflexivity. }
  assert (Hmt : 0 <= mw_tmp sf * 2 ^ Z.of_nat r < 256) by (unfold r; rewrite Z2Nat.id by lia; nia).
  assert (Hfn : (if w_last sf =? 255 then 7%nat else 8%nat) = (c + r)%nat).
  { unfold c, r. unfold w_full in *. destruct (w_last sf =? 255); lia. }
  destruct (Z.eqb_spec (Z.lor (Z.land (Z.shiftl 255 (mw_rem sf)) 255)
                             (if vu >? 0 then Z.shiftr 255 (8 - vu) else 0)) 0) as [Hz|Hnz].
  - apply Z.lor_eq_0_iff in Hz. destruct Hz as [Hm _].
    assert (H8 : mw_rem sf = 8) by (apply melmask_zero; [lia|exact Hm]).
    cbn [fst]. split; [apply Forall_rev; exact Hbuf|]. exists []. split; [|cbn [length]; lia]. rewrite app_nil_r.
    unfold w_repr. assert (Hf8 : w_full sf = 8) by lia. rewrite Hf8, H8. cbn [Z.sub Z.to_nat msb_bits].
    rewrite Z.sub_diag. cbn [Z.to_nat msb_bits]. rewrite app_nil_r. reflexivity.
  - rewrite Emt.
    set (mtmp := mw_tmp sf * 2 ^ Z.of_nat r) in *.
    set (fuse := Z.lor mtmp vt).
    assert (Hfz : 0 <= fuse < 256) by (apply lor_lt_256; assumption).
    match goal with |- context [if ?cnd then _ else _] => destruct cnd eqn:Ecnd end.
    + (* fused *)
      cbn [fst rev]. apply andb_prop in Ecnd. destruct Ecnd as [Ecnd _]. apply andb_prop in Ecnd. destruct Ecnd as [Ecnd _].
      apply Z.eqb_eq in Ecnd. apply Z.lor_eq_0_iff in Ecnd. destruct Ecnd as [Hagree _].
      assert (Ew : wrapU 8 fuse = fuse) by (unfold wrapU; apply Z.mod_small; change (2 ^ 8) with 256; lia).
      rewrite Ew. split.
      * apply Forall_app. split; [apply Forall_rev; exact Hbuf|]. constructor; [exact Hfz|constructor].
      * pose proof (fuse_keeps_mel_bits (w_full sf) (mw_rem sf) (mw_tmp sf) fuse Hfull ltac:(lia) Htmp Hfz) as Hk.
        unfold fuse_ok in Hk. rewrite Emt in Hk. fold mtmp in Hk. rewrite Hagree, Z.eqb_refl in Hk. cbn [implb] in Hk.
        apply zlist_eqb_eq in Hk. fold c in Hk.
        exists (skipn c (msb_bits (Z.to_nat (w_full sf)) fuse)).
        split; [|rewrite skipn_length, msb_bits_length; destruct Hfull as [E|E]; rewrite E; lia].
        rewrite unstuff_snoc, last_rev_hd. unfold w_repr. rewrite <- app_assoc. f_equal.
        fold c. rewrite <- Hk. fold (w_last sf).
        replace (if w_last sf =? 255 then 7%nat else 8%nat) with (Z.to_nat (w_full sf))
          by (unfold w_full; destruct (w_last sf =? 255); reflexivity).
        symmetry. apply firstn_skipn.
    + (* not fused: left-aligned MEL byte *)
      cbn [fst rev].
      assert (Ew : wrapU 8 mtmp = mtmp) by (unfold wrapU; apply Z.mod_small; change (2 ^ 8) with 256; lia).
      rewrite Ew. split.
      * apply Forall_app. split; [apply Forall_rev; exact Hbuf|]. constructor; [exact Hmt|constructor].
      * exists (repeat 0 r). split; [|rewrite repeat_length; unfold r; lia].
        rewrite unstuff_snoc, last_rev_hd. unfold w_repr. rewrite <- app_assoc. f_equal.
        fold c. fold (w_last sf). rewrite Hfn. unfold mtmp. apply msb_bits_pad. lia.
Qed.

(* the whole live writer *)
Lemma ojph_writer_bits : forall evs vt vu more, 0 <= vt < 256 ->
  let mel := fst (ojph_mel_terminate (melw_encode_all evs) vt vu more) in
  Forall (fun b => 0 <= b < 256) mel /\
  exists tail, unstuff 0 mel = bits_of_runs (runs_of evs 0 0) 0 ++ tail /\ (length tail <= 8)%nat.
Proof.
  intros evs vt vu more Hvt. cbv zeta. unfold melw_encode_all.
  destruct (encode_all_spec_j evs melw_init 0 0 init_wst) as [Hok Hr]. cbv zeta in Hok, Hr.
  destruct (terminate_spec (fold_left melw_encode evs melw_init) vt vu more Hok Hvt) as [Hb [tail [Ht Hl]]].
  split; [exact Hb|]. exists tail. split; [|exact Hl]. rewrite Ht, Hr, outj_bits. reflexivity.
Qed.

(* ---------- size of the MEL segment, and the Scup budget of a legal code-block ---------- *)
Lemma outj_length : forall evs k run, 0 <= k <= 12 ->
  (length (outj evs k run) <= 6 * length evs + 1)%nat.
Proof.
  induction evs as [|[|] evs IH]; intros k run Hk.
  - cbn [outj length]. destruct (run >? 0); cbn [length]; lia.
  - cbn [outj length]. rewrite app_length. cbn [length]. rewrite msb_bits_length.
    pose proof (mel_e_range k Hk). pose proof (IH (kdn k) 0 (kdn_range k Hk)). lia.
  - cbn [outj length]. destruct (run + 1 >=? thr k).
    + cbn [length]. pose proof (IH (kup k) 0 (kup_range k Hk)). lia.
    + pose proof (IH k (run + 1) Hk). lia.
Qed.

Lemma unstuff_length_ge : forall l p, (7 * length l <= length (unstuff p l))%nat.
Proof.
  induction l as [|b l IH]; intro p; cbn [unstuff length]; [lia|].
  rewrite app_length, msb_bits_length. pose proof (IH b). destruct (p =? 255); lia.
Qed.

(* every byte of the MEL segment carries at least 7 coded bits: its length is bounded by the events *)
Theorem ojph_mel_bytes_bound : forall evs vt vu more, 0 <= vt < 256 ->
  (7 * length (fst (ojph_mel_terminate (melw_encode_all evs) vt vu more)) <= 6 * length evs + 9)%nat.
Proof.
  intros evs vt vu more Hvt. unfold melw_encode_all.
  destruct (encode_all_spec_j evs melw_init 0 0 init_wst) as [Hok Hr]. cbv zeta in Hok, Hr.
  destruct (terminate_spec (fold_left melw_encode evs melw_init) vt vu more Hok Hvt) as [Hb [tail [Ht Hl]]].
  pose proof (unstuff_length_ge (fst (ojph_mel_terminate (fold_left melw_encode evs melw_init) vt vu more)) 0) as Hu.
  rewrite Ht, Hr in Hu. rewrite !app_length in Hu.
  pose proof (outj_length evs 0 0 ltac:(lia)).
  change (w_repr melw_init) with (@nil Z) in Hu. cbn [length] in Hu. lia.
Qed.

(* longest codewords of the other two contributions to the suffix *)
Lemma vlc_codeword_max : forall first e, In e (src_of first) -> 1 <= ve_len e <= 7.
Proof.
  intros first e Hin. destruct vlc_src_wf as [W0 W1].
  assert (Hwf : vlc_entry_wf e = true)
    by (destruct first; [exact (proj1 (forallb_forall _ _) W0 e Hin) | exact (proj1 (forallb_forall _ _) W1 e Hin)]).
  unfold vlc_entry_wf in Hwf. repeat (apply andb_prop in Hwf; destruct Hwf as [Hwf ?]). b2p. lia.
Qed.

Lemma uvlc_pair_max : forall (initial : bool) u0 u1, 0 <= u0 <= 34 -> 0 <= u1 <= 34 ->
  snd (HtUvlc.pack_calls (if initial then HtUvlc.ojph_uvlc_initial_calls u0 u1
                          else HtUvlc.ojph_uvlc_noninitial_calls u0 u1)) <= 16.
Proof.
  intros initial u0 u1 H0 H1.
  assert (H : forallb (fun i : bool => forallb (fun u0 => forallb (fun u1 =>
              snd (HtUvlc.pack_calls (if i then HtUvlc.ojph_uvlc_initial_calls u0 u1
                                      else HtUvlc.ojph_uvlc_noninitial_calls u0 u1)) <=? 16)
              (zrange 0 34)) (zrange 0 34)) [true; false] = true) by (vm_compute; reflexivity).
  assert (Hi : In initial [true; false]) by (destruct initial; simpl; auto).
  pose proof (proj1 (forallb_forall _ _) H initial Hi) as A. cbv beta in A.
  pose proof (proj1 (forallb_forall _ _) A u0 (In_zrange 0 34 u0 H0)) as B. cbv beta in B.
  pose proof (proj1 (forallb_forall _ _) B u1 (In_zrange 0 34 u1 H1)) as C. cbv beta in C.
  apply Z.leb_le in C. exact C.
Qed.

(* The Scup budget.  The cleanup pass itself is not modelled, so its structure enters as named
   hypotheses (they restate what encodeOJPHInitialRows / encodeOJPHSubsequentRows do):
     H_quads    a code-block the encoder now accepts (validated width*height <= 4096, both >= 4,
                edge blocks only smaller) has at most 1024 quads;
     H_events   at most one MEL event per quad (context 0) plus one per quad pair (initial rows);
     H_vlcbits  the VLC stream holds, per quad, one CxtVLC codeword (<= 7 bits, vlc_codeword_max) and,
                per quad pair, one U-VLC pair (<= 16 bits, uvlc_pair_max), after its 4 initial bits;
     H_vlcbytes ojphVLCWriter puts at least 7 stream bits into every byte (its stuffing rule) and has
                at most two bytes that are not full (the initial 0xFF and the open byte).
   With the proved MEL bound (ojph_mel_bytes_bound) the MEL+VLC suffix then fits the 12-bit
   locator: Scup <= 4079, the guard of scup_roundtrip. *)
Theorem scup_fits_validated_block : forall (Q nev melbytes vlcbits vlcbytes : Z),
  0 <= Q <= 1024 ->                                   (* H_quads *)
  0 <= nev <= Q + (Q + 1) / 2 ->                      (* H_events *)
  7 * melbytes <= 6 * nev + 9 ->                      (* ojph_mel_bytes_bound *)
  0 <= vlcbits <= 4 + 7 * Q + 16 * ((Q + 1) / 2) ->   (* H_vlcbits *)
  7 * (vlcbytes - 2) <= vlcbits ->                    (* H_vlcbytes *)
  melbytes + vlcbytes <= 4079.
Proof.
  intros Q nev melbytes vlcbits vlcbytes HQ Hev Hmel Hvb Hvy.
  assert ((Q + 1) / 2 < 513) by (apply Z.div_lt_upper_bound; lia).
  assert (0 <= (Q + 1) / 2) by (apply Z.div_pos; lia).
  lia.
Qed.


(* =====================================================================================
   Reader: ojphMELReader
   ===================================================================================== *)
Fixpoint eff (data : list Z) (size : Z) : list Z :=
  match data with
  | [] => []
  | b :: r => if size <=? 0 then [] else if size =? 1 then [Z.lor b 15] else b :: eff r (size - 1)
  end.
Definition o_prev (s : melr) : Z := if mr_unstuff s then 255 else 0.
Definition o_repr (s : melr) : list Z := mr_bitbuf s ++ unstuff (o_prev s) (eff (mr_data s) (mr_size s)).
Definition o_ok (s : melr) : Prop :=
  Forall (fun b => 0 <= b < 256) (mr_data s) /\ mr_size s <= zlen (mr_data s).

Lemma eff_nonpos : forall l size, size <= 0 -> eff l size = [].
Proof. intros [|b l] size H; cbn [eff]; [reflexivity|]. destruct (Z.leb_spec size 0); [reflexivity|lia]. Qed.

Lemma unstuff_prev_eq : forall l p1 p2, (p1 =? 255) = (p2 =? 255) -> unstuff p1 l = unstuff p2 l.
Proof. intros [|b l] p1 p2 H; cbn [unstuff]; [reflexivity|]. rewrite H. reflexivity. Qed.

Lemma msb_bits_nonempty : forall n d, (1 <= n)%nat -> exists b r, msb_bits n d = b :: r.
Proof. intros [|n] d H; [lia|]. cbn [msb_bits]. eauto. Qed.

Lemma o_read_spec : forall s b r, o_ok s -> o_repr s = b :: r ->
  exists s', melr_read_bit s = (b, s') /\ o_ok s' /\ o_repr s' = r /\
             mr_k s' = mr_k s /\ mr_runs s' = mr_runs s.
Proof.
  intros s b r [Hdata Hsize] Hrepr. unfold melr_read_bit, o_repr in *.
  destruct (mr_bitbuf s) as [|b0 q] eqn:Ebb.
  - cbn [app] in Hrepr.
    destruct (mr_data s) as [|d0 r0] eqn:Ed; [cbn [eff unstuff] in Hrepr; discriminate|].
    try rewrite Ed in Hdata. try rewrite Ed in Hsize.
    cbn [eff] in Hrepr.
    destruct (Z.leb_spec (mr_size s) 0) as [Hle|Hgt]; [cbn [unstuff] in Hrepr; discriminate|].
    inversion Hdata as [|? ? Hd0 Hr0]; subst.
    set (d := if mr_size s =? 1 then Z.lor d0 15 else d0) in *.
    assert (Heff : (if mr_size s =? 1 then [Z.lor d0 15] else d0 :: eff r0 (mr_size s - 1)) = d :: eff r0 (mr_size s - 1)).
    { unfold d. destruct (Z.eqb_spec (mr_size s) 1) as [E|E]; [|reflexivity]. rewrite E. rewrite eff_nonpos by lia. reflexivity. }
    rewrite Heff in Hrepr. cbn [unstuff] in Hrepr.
    assert (Hn : (if o_prev s =? 255 then 7%nat else 8%nat) = (if mr_unstuff s then 7%nat else 8%nat))
      by (unfold o_prev; destruct (mr_unstuff s); reflexivity).
    rewrite Hn in Hrepr.
    destruct (msb_bits_nonempty (if mr_unstuff s then 7 else 8) d ltac:(destruct (mr_unstuff s); lia)) as [b1 [q1 Eb]].
    rewrite Eb in *. cbn [app] in Hrepr. inversion Hrepr as [[E1 E2]].
    eexists. split; [reflexivity|]. cbn [mr_data mr_size mr_unstuff mr_k mr_runs mr_bitbuf].
    split.
    { split; [exact Hr0|]. cbn [mr_data mr_size]. unfold zlen in *; cbn [length] in Hsize; lia. }
    split; [|split; reflexivity].
    unfold o_prev. cbn [mr_data mr_size mr_unstuff mr_k mr_runs mr_bitbuf]. f_equal.
    apply unstuff_prev_eq. destruct (d =? 255); reflexivity.
  - cbn [app] in Hrepr. inversion Hrepr as [[E1 E2]].
    eexists. split; [reflexivity|]. cbn [mr_data mr_size mr_unstuff mr_k mr_runs mr_bitbuf].
    split; [split; assumption|]. split; [|split; reflexivity].
    unfold o_prev. cbn [mr_data mr_size mr_unstuff mr_k mr_runs mr_bitbuf]. reflexivity.
Qed.

Lemma o_read_run_spec : forall n s acc j r, o_ok s -> 0 <= j ->
  o_repr s = msb_bits n j ++ r ->
  exists s', melr_read_run n s acc = (acc * 2 ^ Z.of_nat n + j mod 2 ^ Z.of_nat n, s') /\ o_ok s' /\
             o_repr s' = r /\ mr_k s' = mr_k s /\ mr_runs s' = mr_runs s.
Proof.
  induction n as [|n IH]; intros s acc j r Hok Hj Hrepr.
  - cbn [melr_read_run msb_bits app] in *. exists s. change (2 ^ Z.of_nat 0) with 1.
    rewrite Z.mod_1_r, Z.mul_1_r, Z.add_0_r.
    split; [reflexivity|]. split; [exact Hok|]. split; [exact Hrepr|]. split; reflexivity.
  - cbn [melr_read_run msb_bits app] in *.
    destruct (o_read_spec s _ _ Hok Hrepr) as [s1 [Hrd [Hok1 [Hr1 [K1 Q1]]]]].
    rewrite Hrd. set (b := Z.land (Z.shiftr j (Z.of_nat n)) 1) in *.
    destruct (IH s1 (Z.lor (Z.shiftl acc 1) b) j r Hok1 Hj Hr1) as [s2 [Hrun [Hok2 [Hr2 [K2 Q2]]]]].
    exists s2. split.
    + rewrite Hrun. f_equal.
      assert (Eb : b = (j / 2 ^ Z.of_nat n) mod 2).
      { unfold b. rewrite Z.shiftr_div_pow2 by lia. change 1 with (Z.ones 1). rewrite Z.land_ones by lia. reflexivity. }
      assert (Hb : b = 0 \/ b = 1) by (rewrite Eb; pose proof (Z.mod_pos_bound (j / 2 ^ Z.of_nat n) 2 ltac:(lia)); lia).
      assert (Hp : 0 < 2 ^ Z.of_nat n) by (apply Z.pow_pos_nonneg; lia).
      assert (El : Z.lor (Z.shiftl acc 1) b = 2 * acc + b).
      { rewrite Z.shiftl_mul_pow2 by lia. change (2 ^ 1) with 2. rewrite (Z.mul_comm acc 2).
        destruct Hb as [E|E]; rewrite E; [rewrite Z.lor_0_r; lia|].
        apply Z.bits_inj'. intros m Hm. rewrite Z.lor_spec. destruct (Z.eq_dec m 0) as [->|Hm0].
        - rewrite Z.testbit_even_0, Z.testbit_odd_0. reflexivity.
        - replace m with (Z.succ (m - 1)) by lia.
          rewrite Z.testbit_even_succ, Z.testbit_odd_succ by lia.
          change 1 with (2 * 0 + 1). rewrite Z.testbit_odd_succ by lia. rewrite Z.bits_0. apply orb_false_r. }
      rewrite El. rewrite Nat2Z.inj_succ, Z.pow_succ_r by lia.
      rewrite (Z.mul_comm 2 (2 ^ Z.of_nat n)).
      rewrite (Z.rem_mul_r j (2 ^ Z.of_nat n) 2) by lia. rewrite <- Eb. ring.
    + split; [exact Hok2|]. split; [exact Hr2|]. split; congruence.
Qed.

(* ---------- legal run values ---------- *)
Fixpoint valid_runs (rs : list Z) (k : Z) : Prop :=
  match rs with
  | [] => True
  | r :: rs' => 0 <= k <= 12 /\
                (if Z.even r then r = 2 * (thr k - 1) /\ valid_runs rs' (kup k)
                 else 0 <= Z.shiftr r 1 < thr k /\ r = 2 * Z.shiftr r 1 + 1 /\ valid_runs rs' (kdn k))
  end.

Lemma runs_of_valid : forall evs k run, 0 <= k <= 12 -> 0 <= run < thr k -> valid_runs (runs_of evs k run) k.
Proof.
  induction evs as [|[|] evs IH]; intros k run Hk Hr.
  - cbn [runs_of]. destruct (run >? 0); cbn [valid_runs]; [|exact I].
    split; [exact Hk|]. rewrite even_2x. split; [reflexivity|exact I].
  - cbn [runs_of valid_runs]. split; [exact Hk|]. rewrite even_2x1, half_2x1.
    split; [exact Hr|]. split; [reflexivity|].
    apply IH; [apply kdn_range; exact Hk|]. pose proof (thr_pos (kdn k) (kdn_range k Hk)). lia.
  - cbn [runs_of]. destruct (Z.geb_spec (run + 1) (thr k)).
    + cbn [valid_runs]. split; [exact Hk|]. rewrite even_2x. split; [reflexivity|].
      apply IH; [apply kup_range; exact Hk|]. pose proof (thr_pos (kup k) (kup_range k Hk)). lia.
    + apply IH; [exact Hk|lia].
Qed.

(* one codeword *)
Lemma decode_one_spec : forall s r rs tail, o_ok s -> valid_runs (r :: rs) (mr_k s) ->
  o_repr s = bits_of_runs (r :: rs) (mr_k s) ++ tail ->
  let s' := melr_decode_one s in
  o_ok s' /\ mr_runs s' = mr_runs s ++ [r] /\ valid_runs rs (mr_k s') /\
  o_repr s' = bits_of_runs rs (mr_k s') ++ tail.
Proof.
  intros s r rs tail Hok Hv Hrepr. cbv zeta. cbn [valid_runs bits_of_runs] in Hv, Hrepr.
  destruct Hv as [Hk Hv]. unfold melr_decode_one.
  pose proof (mel_e_range _ Hk) as He. pose proof (thr_pos _ Hk) as [Htp Et].
  destruct (Z.even r) eqn:Eev.
  - destruct Hv as [Er Hv]. cbn [app] in Hrepr.
    destruct (o_read_spec s 1 _ Hok Hrepr) as [s1 [Hrd [Hok1 [Hr1 [K1 Q1]]]]].
    rewrite Hrd. change (1 =? 1) with true. cbv iota.
    cbn [mr_data mr_size mr_unstuff mr_k mr_runs mr_bitbuf].
    split; [exact Hok1|]. rewrite K1, Q1. fold (kup (mr_k s)).
    split; [f_equal; f_equal; rewrite Er; rewrite (Z.shiftl_mul_pow2 _ 1) by lia; change (2 ^ 1) with 2; unfold thr; ring|].
    split; [exact Hv|].
    unfold o_repr, o_prev. cbn [mr_data mr_size mr_unstuff mr_k mr_runs mr_bitbuf]. exact Hr1.
  - destruct Hv as [Hj [Er Hv]]. rewrite <- app_assoc in Hrepr. cbn [app] in Hrepr.
    destruct (o_read_spec s 0 _ Hok Hrepr) as [s1 [Hrd [Hok1 [Hr1 [K1 Q1]]]]].
    rewrite Hrd. change (0 =? 1) with false. cbv iota.
    destruct (o_read_run_spec (Z.to_nat (mel_e (mr_k s))) s1 0 (Z.shiftr r 1) _ Hok1 ltac:(lia) Hr1)
      as [s2 [Hrun [Hok2 [Hr2 [K2 Q2]]]]].
    rewrite Hrun. cbn [mr_data mr_size mr_unstuff mr_k mr_runs mr_bitbuf].
    split; [exact Hok2|]. rewrite K2, K1, Q2, Q1. fold (kdn (mr_k s)).
    split.
    + f_equal. f_equal. rewrite Z2Nat.id by lia. rewrite <- Et. rewrite Z.mod_small by lia.
      rewrite Z.mul_0_l, Z.add_0_l. rewrite Z.shiftl_mul_pow2 by lia. change (2 ^ 1) with 2. lia.
    + split; [exact Hv|].
      unfold o_repr, o_prev. cbn [mr_data mr_size mr_unstuff mr_k mr_runs mr_bitbuf]. exact Hr2.
Qed.

Lemma decode_one_appends : forall s, exists g, mr_runs (melr_decode_one s) = mr_runs s ++ [g].
Proof.
  intro s. unfold melr_decode_one.
  destruct (melr_read_bit s) as [lead s1] eqn:E1.
  assert (Q1 : mr_runs s1 = mr_runs s).
  { unfold melr_read_bit in E1. destruct (mr_bitbuf s); [|inversion E1; reflexivity].
    destruct (mr_size s <=? 0); [inversion E1; reflexivity|].
    destruct (mr_data s) as [|d0 r0].
    - destruct (msb_bits (if mr_unstuff s then 7 else 8) 255); inversion E1; reflexivity.
    - destruct (msb_bits (if mr_unstuff s then 7 else 8) (if mr_size s =? 1 then Z.lor d0 15 else d0)); inversion E1; reflexivity. }
  destruct (lead =? 1).
  - cbn [mr_runs]. rewrite Q1. eauto.
  - assert (Hrr : forall n s acc, mr_runs (snd (melr_read_run n s acc)) = mr_runs s).
    { induction n as [|n IH]; intros s0 acc; [reflexivity|]. cbn [melr_read_run].
      destruct (melr_read_bit s0) as [b0 s0'] eqn:E0. rewrite IH.
      unfold melr_read_bit in E0. destruct (mr_bitbuf s0); [|inversion E0; reflexivity].
      destruct (mr_size s0 <=? 0); [inversion E0; reflexivity|].
      destruct (mr_data s0) as [|d0 r0].
      - destruct (msb_bits (if mr_unstuff s0 then 7 else 8) 255); inversion E0; reflexivity.
      - destruct (msb_bits (if mr_unstuff s0 then 7 else 8) (if mr_size s0 =? 1 then Z.lor d0 15 else d0)); inversion E0; reflexivity. }
    specialize (Hrr (Z.to_nat (mel_e (mr_k s))) s1 0).
    destruct (melr_read_run (Z.to_nat (mel_e (mr_k s))) s1 0) as [run s2]. cbn [snd] in Hrr.
    cbn [mr_runs]. rewrite Hrr, Q1. eauto.
Qed.

(* ---------- the run queue: what getRun will deliver ---------- *)
Definition Inv (s : melr) (bl : list Z) : Prop :=
  (exists n tail, (n <= length bl)%nat /\ mr_runs s = firstn n bl /\ o_ok s /\
                  valid_runs (skipn n bl) (mr_k s) /\
                  o_repr s = bits_of_runs (skipn n bl) (mr_k s) ++ tail)
  \/ (exists g, mr_runs s = bl ++ g).

Lemma skipn_cons_inv : forall (l : list Z) n r rs, skipn n l = r :: rs ->
  firstn (S n) l = firstn n l ++ [r] /\ skipn (S n) l = rs /\ (S n <= length l)%nat.
Proof.
  induction l as [|a l IH]; intros n r rs H.
  - destruct n; discriminate.
  - destruct n as [|n].
    + cbn [skipn] in H. inversion H; subst. cbn [firstn skipn app length]. repeat split; lia.
    + cbn [skipn] in H. destruct (IH n r rs H) as [A [B C]].
      cbn [firstn skipn app length]. rewrite <- A. repeat split; [exact B|lia].
Qed.

Lemma inv_decode_one : forall s bl, Inv s bl -> Inv (melr_decode_one s) bl.
Proof.
  intros s bl [[n [tail [Hn [Hq [Hok [Hv Hr]]]]]]|[g Hq]].
  - destruct (skipn n bl) as [|r rs] eqn:Esk.
    + right. destruct (decode_one_appends s) as [g Hg]. exists [g]. rewrite Hg, Hq.
      f_equal. apply firstn_all2.
      assert (length (skipn n bl) = 0%nat) by (rewrite Esk; reflexivity). rewrite skipn_length in H. lia.
    + left. destruct (skipn_cons_inv bl n r rs Esk) as [A [B C]].
      destruct (decode_one_spec s r rs tail Hok Hv Hr) as [Hok' [Hq' [Hv' Hr']]].
      exists (S n), tail. rewrite A, B. split; [exact C|]. split; [rewrite Hq', Hq; reflexivity|].
      split; [exact Hok'|]. split; assumption.
  - right. destruct (decode_one_appends s) as [g' Hg]. exists (g ++ [g']). rewrite Hg, Hq, app_assoc. reflexivity.
Qed.

Lemma inv_decode_more : forall fuel s bl, Inv s bl -> Inv (melr_decode_more fuel s) bl.
Proof.
  induction fuel as [|f IH]; intros s bl H; cbn [melr_decode_more]; [exact H|].
  destruct (zlen (mr_runs s) <? 8); [apply IH, inv_decode_one; exact H|exact H].
Qed.

Lemma decode_more_ext : forall fuel s, exists h, mr_runs (melr_decode_more fuel s) = mr_runs s ++ h.
Proof.
  induction fuel as [|f IH]; intro s; cbn [melr_decode_more]; [exists []; rewrite app_nil_r; reflexivity|].
  destruct (zlen (mr_runs s) <? 8); [|exists []; rewrite app_nil_r; reflexivity].
  destruct (IH (melr_decode_one s)) as [h Hh]. destruct (decode_one_appends s) as [g Hg].
  exists ([g] ++ h). rewrite Hh, Hg, <- app_assoc. reflexivity.
Qed.

Lemma get_run_spec : forall s r bl, Inv s (r :: bl) ->
  fst (melr_get_run s) = r /\ Inv (snd (melr_get_run s)) bl.
Proof.
  intros s r bl HI. unfold melr_get_run.
  set (s1 := match mr_runs s with [] => melr_decode_more 8 s | _ :: _ => s end).
  assert (HI1 : Inv s1 (r :: bl)) by (unfold s1; destruct (mr_runs s); [apply inv_decode_more; exact HI|exact HI]).
  assert (Hne : mr_runs s1 <> []).
  { unfold s1. destruct (mr_runs s) as [|a q] eqn:Eq; [|rewrite Eq; discriminate].
    change (melr_decode_more 8 s) with (if zlen (mr_runs s) <? 8 then melr_decode_more 7 (melr_decode_one s) else s).
    rewrite Eq. change (zlen (@nil Z) <? 8) with true. cbv iota.
    destruct (decode_more_ext 7 (melr_decode_one s)) as [h Hh]. destruct (decode_one_appends s) as [g Hg].
    rewrite Hh, Hg, Eq. discriminate. }
  destruct HI1 as [[n [tail [Hn [Hq [Hok [Hv Hr]]]]]]|[g Hq]].
  - destruct n as [|n]; [cbn [firstn] in Hq; contradiction|].
    cbn [firstn] in Hq. rewrite Hq. cbn [fst snd]. split; [reflexivity|].
    left. exists n, tail. cbn [length] in Hn. split; [lia|].
    cbn [mr_runs mr_k]. split; [reflexivity|]. split; [exact Hok|]. cbn [skipn] in Hv, Hr.
    split; [exact Hv|]. unfold o_repr, o_prev in *. cbn [mr_data mr_size mr_unstuff mr_bitbuf]. exact Hr.
  - cbn [app] in Hq. rewrite Hq. cbn [fst snd]. split; [reflexivity|].
    right. exists g. reflexivity.
Qed.

(* ---------- the consumer ---------- *)
Lemma ev_zeros : forall m R s n, 0 <= R - 2 * Z.of_nat m ->
  ojph_mel_events (m + n) (R, s) = repeat false m ++ ojph_mel_events n (R - 2 * Z.of_nat m, s).
Proof.
  induction m as [|m IH]; intros R s n H.
  - cbn [Nat.add repeat app]. replace (R - 2 * Z.of_nat 0) with R by lia. reflexivity.
  - cbn [Nat.add ojph_mel_events repeat app]. unfold ojph_mel_event.
    destruct (Z.eqb_spec (R - 2) (-1)) as [?|_]; [lia|].
    destruct (Z.ltb_spec (R - 2) 0) as [?|_]; [lia|].
    rewrite IH by lia.
    replace (R - 2 - 2 * Z.of_nat m) with (R - 2 * Z.of_nat (S m)) by lia. reflexivity.
Qed.

Lemma runs_zeros_lt : forall m k run rest, 0 <= run -> run + Z.of_nat m < thr k ->
  runs_of (repeat false m ++ rest) k run = runs_of rest k (run + Z.of_nat m).
Proof.
  induction m as [|m IH]; intros k run rest Hr Hlt.
  - cbn [repeat app]. rewrite Z.add_0_r. reflexivity.
  - cbn [repeat app runs_of]. destruct (Z.geb_spec (run + 1) (thr k)) as [?|_]; [lia|].
    rewrite IH by lia. f_equal. lia.
Qed.

Lemma runs_zeros_full : forall m k run rest, 0 <= run -> run + Z.of_nat (S m) = thr k ->
  runs_of (repeat false (S m) ++ rest) k run = 2 * (thr k - 1) :: runs_of rest (kup k) 0.
Proof.
  intros m k run rest Hr He.
  replace (S m) with (m + 1)%nat by lia. rewrite repeat_app, <- app_assoc.
  rewrite runs_zeros_lt by lia. cbn [repeat app runs_of].
  destruct (Z.geb_spec (run + Z.of_nat m + 1) (thr k)) as [_|?]; [reflexivity|lia].
Qed.

Lemma runs_of_nonempty : forall evs k run, 0 <= run -> evs <> [] -> exists R bl, runs_of evs k run = R :: bl.
Proof.
  induction evs as [|[|] evs IH]; intros k run Hr Hne; [contradiction| |].
  - cbn [runs_of]. eauto.
  - cbn [runs_of]. destruct (run + 1 >=? thr k); [eauto|].
    destruct evs as [|e evs']; [|apply IH; [lia|discriminate]].
    cbn [runs_of]. destruct (Z.gtb_spec (run + 1) 0) as [_|?]; [eauto|lia].
Qed.

Lemma repeat_snoc : forall (A : Type) (x : A) n, repeat x n ++ [x] = repeat x (S n).
Proof. intros A x n. induction n as [|n IH]; [reflexivity|]. cbn [repeat app]. rewrite IH. reflexivity. Qed.

(* after the event that ends a block the consumer pops the next run and goes on *)
Lemma consume_blocks : forall len evs, (length evs <= len)%nat -> forall k R s bl,
  0 <= k <= 12 -> runs_of evs k 0 = R :: bl -> Inv s bl ->
  ojph_mel_events (length evs) (R, s) = evs.
Proof.
  induction len as [|len IH]; intros evs Hlen k R s bl Hkr Hruns HI.
  - destruct evs; [reflexivity|cbn [length] in Hlen; lia].
  - pose proof (thr_pos k Hkr) as [Htp Et].
    set (T := Z.to_nat (thr k)). assert (HT : Z.of_nat T = thr k) by (unfold T; lia).
    (* what happens once the block-ending event has popped the next run *)
    assert (Hnext : forall rest k', 0 <= k' <= 12 -> (length rest < S len)%nat -> bl = runs_of rest k' 0 ->
              ojph_mel_events (length rest) (melr_get_run s) = rest).
    { intros rest k' Hk' Hl Hbl. destruct rest as [|e rest']; [reflexivity|].
      destruct (runs_of_nonempty (e :: rest') k' 0 ltac:(lia) ltac:(discriminate)) as [R2 [bl2 E2]].
      rewrite E2 in Hbl. subst bl. destruct (get_run_spec s R2 bl2 HI) as [Hf Hs].
      destruct (melr_get_run s) as [R2' s'] eqn:Eg. cbn [fst snd] in Hf, Hs. subst R2'.
      apply (IH (e :: rest') ltac:(lia) k' R2 s' bl2 Hk' E2 Hs). }
    destruct (split_lead T evs) as [[rest E]|[[j [rest [Hj E]]]|[j [Hj E]]]]; subst evs.
    + destruct T as [|T']; [lia|].
      rewrite (runs_zeros_full T' k 0 rest ltac:(lia) ltac:(lia)) in Hruns.
      set (R0 := 2 * (thr k - 1)) in Hruns. injection Hruns as ER Ebl. subst R. unfold R0.
      rewrite app_length, repeat_length.
      replace (S T' + length rest)%nat with (T' + (1 + length rest))%nat by lia.
      rewrite ev_zeros by lia.
      replace (2 * (thr k - 1) - 2 * Z.of_nat T') with 0 by lia.
      cbn [Nat.add ojph_mel_events]. unfold ojph_mel_event at 1.
      change (0 - 2 =? -1) with false. change (0 - 2 <? 0) with true. cbv iota.
      rewrite (Hnext rest (kup k) (kup_range k Hkr)); [|rewrite app_length, repeat_length in Hlen; lia|symmetry; exact Ebl].
      change (false :: rest) with ([false] ++ rest). rewrite app_assoc, repeat_snoc. reflexivity.
    + rewrite (runs_zeros_lt j k 0 (true :: rest) ltac:(lia) ltac:(lia)) in Hruns.
      cbn [runs_of] in Hruns. rewrite Z.add_0_l in Hruns.
      set (R0 := 2 * Z.of_nat j + 1) in Hruns. injection Hruns as ER Ebl. subst R. unfold R0.
      rewrite app_length, repeat_length. cbn [length].
      replace (j + S (length rest))%nat with (j + (1 + length rest))%nat by lia.
      rewrite ev_zeros by lia.
      replace (2 * Z.of_nat j + 1 - 2 * Z.of_nat j) with 1 by lia.
      cbn [Nat.add ojph_mel_events]. unfold ojph_mel_event at 1.
      change (1 - 2 =? -1) with true. change (1 - 2 <? 0) with true. cbv iota.
      rewrite (Hnext rest (kdn k) (kdn_range k Hkr)); [reflexivity| |symmetry; exact Ebl].
      rewrite app_length, repeat_length in Hlen. cbn [length] in Hlen. lia.
    + destruct j as [|j']; [cbn [repeat runs_of] in Hruns; discriminate|].
      rewrite <- (app_nil_r (repeat false (S j'))) in Hruns.
      rewrite (runs_zeros_lt (S j') k 0 [] ltac:(lia) ltac:(lia)) in Hruns.
      cbn [runs_of] in Hruns. rewrite Z.add_0_l in Hruns.
      destruct (Z.gtb_spec (Z.of_nat (S j')) 0) as [_|?]; [|lia].
      set (R0 := 2 * (thr k - 1)) in Hruns. injection Hruns as ER Ebl. subst R. unfold R0.
      rewrite repeat_length.
      replace (S j') with (S j' + 0)%nat at 1 by lia.
      rewrite ev_zeros by lia. cbn [ojph_mel_events]. apply app_nil_r.
Qed.

(* ---------- the data the reader sees ---------- *)
Lemma eff_app : forall l1 l2 size, zlen l1 < size -> eff (l1 ++ l2) size = l1 ++ eff l2 (size - zlen l1).
Proof.
  induction l1 as [|a l1 IH]; intros l2 size H.
  - cbn [app]. unfold zlen; cbn [length]. rewrite Z.sub_0_r. reflexivity.
  - cbn [app eff]. unfold zlen in *. cbn [length] in H.
    destruct (Z.leb_spec size 0); [lia|]. destruct (Z.eqb_spec size 1); [lia|].
    rewrite IH by lia. cbn [length].
    replace (size - 1 - Z.of_nat (length l1)) with (size - Z.of_nat (S (length l1))) by lia. reflexivity.
Qed.

Lemma unstuff_app : forall l1 l2 p, unstuff p (l1 ++ l2) = unstuff p l1 ++ unstuff (last l1 p) l2.
Proof.
  induction l1 as [|a l1 IH]; intros l2 p; [reflexivity|].
  cbn [app unstuff]. rewrite IH, <- app_assoc. f_equal. f_equal.
  destruct l1 as [|z l1']; [reflexivity|].
  change (last (a :: z :: l1') p) with (last (z :: l1') p). rewrite (last_cons_default l1' z p a). reflexivity.
Qed.

(* ojph_mel_roundtrip: for ANY event sequence, ANY state of the VLC writer at termination
   (its open byte vt < 256, used-bit count, buffer length flag — fused or not) and ANY bytes that
   follow the MEL segment in the cleanup suffix (at least the two bytes that carry the Scup locator
   and the first VLC bits), the live reader, consumed through the run counter exactly as
   ojphCleanupState does, delivers the events. *)
Theorem ojph_mel_roundtrip : forall evs vt vu more rest,
  0 <= vt < 256 -> Forall (fun b => 0 <= b < 256) rest -> (2 <= length rest)%nat ->
  ojph_mel_decode_bytes (length evs)
    (fst (ojph_mel_terminate (melw_encode_all evs) vt vu more) ++ rest) = evs.
Proof.
  intros evs vt vu more rest Hvt Hrest Hlen.
  destruct evs as [|e evs']; [reflexivity|]. set (evs := e :: evs') in *.
  destruct (ojph_writer_bits evs vt vu more Hvt) as [Hb [tail [Hu _]]]. cbv zeta in Hb, Hu.
  set (mel := fst (ojph_mel_terminate (melw_encode_all evs) vt vu more)) in *.
  destruct (runs_of_nonempty evs 0 0 ltac:(lia) ltac:(discriminate)) as [R [bl ER]].
  unfold ojph_mel_decode_bytes, ojph_mel_start.
  assert (HI : Inv (melr_init (mel ++ rest)) (R :: bl)).
  { left. exists 0%nat. eexists. split; [cbn [length]; lia|]. split; [reflexivity|].
    split; [split; cbn [melr_init mr_data mr_size]; [apply Forall_app; split; assumption|lia]|].
    cbn [skipn melr_init mr_k]. split; [rewrite <- ER; apply runs_of_valid; [lia|]; pose proof (thr_pos 0 ltac:(lia)); lia|].
    unfold o_repr, o_prev. cbn [melr_init mr_bitbuf mr_unstuff mr_data mr_size app].
    rewrite eff_app by (unfold zlen; rewrite app_length; lia).
    rewrite unstuff_app, Hu, ER, <- app_assoc. reflexivity. }
  destruct (get_run_spec _ R bl HI) as [Hf Hs].
  destruct (melr_get_run (melr_init (mel ++ rest))) as [R' s'] eqn:Eg. cbn [fst snd] in Hf, Hs. subst R'.
  apply (consume_blocks (length evs) evs (le_n _) 0 R s' bl ltac:(lia) ER Hs).
Qed.
