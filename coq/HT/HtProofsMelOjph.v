(* HTJ2K MEL, the live pair: ojphMELWriter + terminateOJPHMELVLC against ojphMELReader consumed
   through the run counter of ojphCleanupState (openjph_cleanup_{encoder,decoder}.go). *)
From V Require Import Common.Base Gen.HtTables_gen HT.HtMel HT.HtVlc HT.HtProofsTables HT.HtProofsMel.

(* ---------- run values and their codewords ---------- *)
(* the run values the reader must deliver for the events still to come, encoder state (k, run);
   a pending run at the end is closed by terminateOJPHMELVLC with a single 1 bit = a full block *)
Fixpoint runs_of (evs : list bool) (k run : Z) : list Z :=
  match evs with
  | [] => if run >? 0 then [2 * (thr k - 1)] else []
  | true :: r => (2 * run + 1) :: runs_of r (kdn k) 0
  | false :: r => if run + 1 >=? thr k then 2 * (thr k - 1) :: runs_of r (kup k) 0 else runs_of r k (run + 1)
  end.

(* the codewords of a list of run values from exponent state k: even = full block "1",
   odd 2j+1 = "0" then j on E[k] bits *)
Fixpoint bits_of_runs (rs : list Z) (k : Z) : list Z :=
  match rs with
  | [] => []
  | r :: rs' => if Z.even r then 1 :: bits_of_runs rs' (kup k)
                else (0 :: msb_bits (Z.to_nat (mel_e k)) (Z.shiftr r 1)) ++ bits_of_runs rs' (kdn k)
  end.

(* what the writer has emitted once terminateOJPHMELVLC closed a pending run *)
Fixpoint outj (evs : list bool) (k run : Z) : list Z :=
  match evs with
  | [] => if run >? 0 then [1] else []
  | true :: r => (0 :: msb_bits (Z.to_nat (mel_e k)) run) ++ outj r (kdn k) 0
  | false :: r => if run + 1 >=? thr k then 1 :: outj r (kup k) 0 else outj r k (run + 1)
  end.

Lemma even_2x : forall x, Z.even (2 * x) = true.
Proof. intro x. rewrite Z.even_mul. reflexivity. Qed.
Lemma even_2x1 : forall x, Z.even (2 * x + 1) = false.
Proof. intro x. rewrite Z.even_add, Z.even_mul. reflexivity. Qed.
Lemma half_2x1 : forall x, Z.shiftr (2 * x + 1) 1 = x.
Proof.
  intro x. rewrite Z.shiftr_div_pow2 by lia. change (2 ^ 1) with 2.
  rewrite Z.mul_comm, Z.div_add_l by lia. change (1 / 2) with 0. lia.
Qed.

Lemma outj_bits : forall evs k run, outj evs k run = bits_of_runs (runs_of evs k run) k.
Proof.
  induction evs as [|[|] evs IH]; intros k run.
  - cbn [outj runs_of]. destruct (run >? 0); [|reflexivity]. cbn [bits_of_runs]. rewrite even_2x. reflexivity.
  - cbn [outj runs_of bits_of_runs]. rewrite even_2x1, half_2x1, IH. reflexivity.
  - cbn [outj runs_of]. destruct (run + 1 >=? thr k).
    + cbn [bits_of_runs]. rewrite even_2x, IH. reflexivity.
    + apply IH.
Qed.

(* ---------- writer: encode all events, then terminate ---------- *)
Lemma encode_all_spec_j : forall evs s k run, wst s k run ->
  let s' := fold_left melw_encode evs s in
  let sf := if mw_run s' >? 0 then melw_emit s' 1 else s' in
  w_ok sf /\ w_repr sf = w_repr s ++ outj evs k run.
Proof.
  induction evs as [|ev evs IH]; intros s k run Hst; cbv zeta.
  - cbn [fold_left outj]. destruct Hst as [Hok [Hk [Hrun R]]]. rewrite Hrun.
    destruct (Z.gtb_spec run 0).
    + destruct (emit_spec s 1 Hok (or_intror eq_refl)) as [Hok' [Hr _]]. split; assumption.
    + split; [exact Hok | rewrite app_nil_r; reflexivity].
  - cbn [fold_left outj]. destruct ev.
    + destruct (encode_true_spec s k run Hst) as [Hst' Hr].
      destruct (IH _ _ _ Hst') as [Hok Hr2]. split; [exact Hok|].
      rewrite Hr2, Hr, <- app_assoc. reflexivity.
    + pose proof (encode_false_spec s k run Hst) as Hf. cbv zeta in Hf.
      destruct (run + 1 >=? thr k).
      * destruct Hf as [Hst' Hr]. destruct (IH _ _ _ Hst') as [Hok Hr2]. split; [exact Hok|].
        rewrite Hr2, Hr, <- app_assoc. reflexivity.
      * destruct Hf as [Hst' Hr]. destruct (IH _ _ _ Hst') as [Hok Hr2]. split; [exact Hok|].
        rewrite Hr2, Hr. reflexivity.
Qed.

(* the last MEL byte after fusion keeps the MEL bits: finite fact over every (full, rem, tmp, byte) *)
Definition fuse_ok (full rem tmp fz : Z) : bool :=
  let mtmp := Z.shiftl tmp rem in
  let melMask := Z.land (Z.shiftl 255 rem) 255 in
  implb (Z.land (Z.lxor fz mtmp) melMask =? 0)
        (zlist_eqb (firstn (Z.to_nat (full - rem)) (msb_bits (Z.to_nat full) fz))
                   (msb_bits (Z.to_nat (full - rem)) tmp)).
Lemma fuse_keeps_mel_bits : forall full rem tmp fz,
  (full = 7 \/ full = 8) -> 1 <= rem <= full -> 0 <= tmp < 2 ^ (full - rem) -> 0 <= fz < 256 ->
  fuse_ok full rem tmp fz = true.
Proof.
  intros full rem tmp fz Hf Hr Ht Hz.
  assert (H : forallb (fun full => forallb (fun rem => forallb (fun tmp => forallb (fun fz =>
              implb ((rem <=? full) && (tmp <? 2 ^ (full - rem))) (fuse_ok full rem tmp fz))
              (zseq 256)) (zseq 128)) (zrange 1 8)) [7; 8] = true) by (vm_compute; reflexivity).
  assert (Hin : In full [7; 8]) by (destruct Hf; subst; simpl; auto).
  pose proof (proj1 (forallb_forall _ _) H full Hin) as H1. cbv beta in H1.
  pose proof (proj1 (forallb_forall _ _) H1 rem (In_zrange 1 8 rem ltac:(lia))) as H2. cbv beta in H2.
  assert (Ht128 : 0 <= tmp < 128).
  { assert (2 ^ (full - rem) <= 2 ^ 7) by (apply Z.pow_le_mono_r; lia). change (2 ^ 7) with 128 in *. lia. }
  pose proof (proj1 (forallb_forall _ _) H2 tmp (In_zseq 128 tmp ltac:(change (Z.of_nat 128) with 128; lia))) as H3. cbv beta in H3.
  pose proof (proj1 (forallb_forall _ _) H3 fz (In_zseq 256 fz ltac:(change (Z.of_nat 256) with 256; lia))) as H4. cbv beta in H4.
  destruct (Z.leb_spec rem full) as [_|?]; [|lia]. destruct (Z.ltb_spec tmp (2 ^ (full - rem))) as [_|?]; [|lia].
  exact H4.
Qed.
