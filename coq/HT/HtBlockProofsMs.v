(* HT cleanup pass, MagSgn byte stream: what ojphMSWriter writes is what MagSgnDecoder reads.
   (forward stream, LSB first, 7 bits after a 0xFF byte, ones padding, trailing 0xFF dropped) *)
From V Require Import Common.Base HT.HtUvlc HT.HtBlockBits HT.HtBitLemmas.

Definition byteval (p a : Z) : Z := if p =? 255 then a mod 128 else a.
Definition bytelen (p : Z) : Z := if p =? 255 then 7 else 8.
Definition is_byte_p (b : Z) : Prop := 0 <= b < 256.

Lemma bytelen_pos : forall p, 7 <= bytelen p <= 8.
Proof. intro p. unfold bytelen. destruct (p =? 255); lia. Qed.

Lemma byteval_bound : forall p a, is_byte_p a -> 0 <= byteval p a < 2 ^ bytelen p.
Proof.
  intros p a Ha. unfold byteval, bytelen, is_byte_p in *. destruct (p =? 255).
  - change (2 ^ 7) with 128. apply Z.mod_pos_bound. lia.
  - change (2 ^ 8) with 256. lia.
Qed.

Lemma ms_from_bound : forall l p, Forall is_byte_p l ->
  0 <= fst (ms_stream_from l p) < 2 ^ snd (ms_stream_from l p) /\ 0 <= snd (ms_stream_from l p).
Proof.
  induction l as [|a l IH]; intros p H; cbn [ms_stream_from].
  - cbn. lia.
  - inversion H as [|? ? Ha Hl]; subst. specialize (IH a Hl).
    destruct (ms_stream_from l a) as [v n]. cbn [fst snd] in IH.
    pose proof (byteval_bound p a Ha) as Hb. unfold byteval, bytelen in Hb.
    destruct (p =? 255); cbn [fst snd].
    + change (Z.land a 127) with (Z.land a (Z.ones 7)). rewrite Z.land_ones by lia. change (2 ^ 7) with 128 in *.
      rewrite lor_shiftl_add by (change (2 ^ 7) with 128; lia). change (2 ^ 7) with 128.
      rewrite Z.pow_add_r by lia. change (2 ^ 7) with 128. nia.
    + rewrite lor_shiftl_add by (change (2 ^ 8) with 256; lia). change (2 ^ 8) with 256 in *.
      rewrite Z.pow_add_r by lia. change (2 ^ 8) with 256. nia.
Qed.

Lemma ms_from_cons : forall a l p, is_byte_p a -> Forall is_byte_p l ->
  ms_stream_from (a :: l) p =
  (byteval p a + fst (ms_stream_from l a) * 2 ^ bytelen p, snd (ms_stream_from l a) + bytelen p).
Proof.
  intros a l p Ha Hl. cbn [ms_stream_from].
  destruct (ms_stream_from l a) as [v n] eqn:E. cbn [fst snd].
  pose proof (byteval_bound p a Ha) as Hb. unfold byteval, bytelen in *.
  destruct (p =? 255).
  - change (Z.land a 127) with (Z.land a (Z.ones 7)). rewrite Z.land_ones by lia.
    change (2 ^ 7) with 128 in *.
    rewrite lor_shiftl_add by (change (2 ^ 7) with 128; lia). reflexivity.
  - change (2 ^ 8) with 256 in *.
    rewrite lor_shiftl_add by (change (2 ^ 8) with 256; lia). reflexivity.
Qed.

Lemma ms_from_app : forall l1 l2 p, Forall is_byte_p l1 -> Forall is_byte_p l2 ->
  ms_stream_from (l1 ++ l2) p =
  (fst (ms_stream_from l1 p) + fst (ms_stream_from l2 (last l1 p)) * 2 ^ snd (ms_stream_from l1 p),
   snd (ms_stream_from l1 p) + snd (ms_stream_from l2 (last l1 p))).
Proof.
  induction l1 as [|a l1 IH]; intros l2 p H1 H2.
  - cbn [app ms_stream_from last fst snd]. change (2 ^ 0) with 1. destruct (ms_stream_from l2 p). cbn [fst snd]. f_equal; lia.
  - inversion H1 as [|? ? Ha Hl]; subst.
    change ((a :: l1) ++ l2) with (a :: (l1 ++ l2)).
    rewrite ms_from_cons by (try assumption; apply Forall_app; split; assumption).
    rewrite (ms_from_cons a l1 p Ha Hl). rewrite (IH l2 a Hl H2). cbn [fst snd].
    assert (El : last (a :: l1) p = last l1 a).
    { destruct l1 as [|z l1']; [reflexivity|]. change (last (a :: z :: l1') p) with (last (z :: l1') p).
      clear. revert z. induction l1' as [|y l IH]; intro z; [reflexivity|].
      change (last (z :: y :: l) p) with (last (y :: l) p). change (last (z :: y :: l) a) with (last (y :: l) a). apply IH. }
    rewrite El.
    destruct (ms_from_bound l1 a Hl) as [_ Hn]. pose proof (bytelen_pos p).
    f_equal; [|lia].
    rewrite Z.pow_add_r by lia. ring.
Qed.

(* ---------- the stream a reader state stands for: its bits, then ones up to position K ---------- *)
Definition E (m : msr) (K : Z) : Z := fst m + 2 ^ K - 2 ^ snd m.
Definition m_wf (m : msr) : Prop := 0 <= snd m /\ 0 <= fst m < 2 ^ snd m.

(* fetch: the next k bits and the rest of the stream *)
Lemma ms_fetch_spec : forall m k K, m_wf m -> 0 < k <= 32 -> snd m <= K -> k <= K ->
  let '(x, m') := ms_fetch m k in
  x = E m K mod 2 ^ k /\ m_wf m' /\ E m' (K - k) = E m K / 2 ^ k /\ snd m' <= K - k.
Proof.
  intros [v cnt] k K [Hc Hv] Hk HK1 HK2. cbn [fst snd] in *. unfold ms_fetch.
  destruct (Z.leb_spec k 0) as [?|_]; [lia|].
  pose proof (pow2_pos k ltac:(lia)) as Hpk. pose proof (pow2_pos cnt Hc) as Hpc.
  assert (H32 : 2 ^ k <= 2 ^ 32) by (apply Z.pow_le_mono_r; lia).
  unfold E. cbn [fst snd].
  destruct (Z.leb_spec k cnt) as [Hle|Hgt].
  - (* enough data bits *)
    assert (Ecnt : 2 ^ cnt = 2 ^ (cnt - k) * 2 ^ k) by (rewrite <- Z.pow_add_r by lia; f_equal; lia).
    assert (EK : 2 ^ K = 2 ^ (K - k) * 2 ^ k) by (rewrite <- Z.pow_add_r by lia; f_equal; lia).
    pose proof (pow2_pos (cnt - k) ltac:(lia)). pose proof (pow2_pos (K - k) ltac:(lia)).
    rewrite land_ones_mod by lia.
    assert (Ex : (v + 2 ^ K - 2 ^ cnt) mod 2 ^ k = v mod 2 ^ k).
    { rewrite Ecnt, EK. replace (v + 2 ^ (K - k) * 2 ^ k - 2 ^ (cnt - k) * 2 ^ k)
        with (v + (2 ^ (K - k) - 2 ^ (cnt - k)) * 2 ^ k) by ring. apply Z.mod_add. lia. }
    split.
    { rewrite Ex. unfold wrapU. apply Z.mod_small.
      pose proof (Z.mod_pos_bound v (2 ^ k) Hpk). lia. }
    rewrite Z.shiftr_div_pow2 by lia.
    split.
    { unfold m_wf. cbn [fst snd]. split; [lia|]. split; [apply Z.div_pos; lia|].
      apply Z.div_lt_upper_bound; [lia|]. rewrite Z.mul_comm, <- Ecnt. lia. }
    split; [|cbn [snd]; lia].
    rewrite Ecnt, EK. replace (v + 2 ^ (K - k) * 2 ^ k - 2 ^ (cnt - k) * 2 ^ k)
      with (v + (2 ^ (K - k) - 2 ^ (cnt - k)) * 2 ^ k) by ring.
    rewrite Z.div_add by lia. lia.
  - (* running into the ones padding *)
    assert (Hck : 2 ^ cnt <= 2 ^ k) by (apply Z.pow_le_mono_r; lia).
    assert (Hvk : v < 2 ^ k) by lia.
    assert (EK : 2 ^ K = 2 ^ (K - k) * 2 ^ k) by (rewrite <- Z.pow_add_r by lia; f_equal; lia).
    pose proof (pow2_pos (K - k) ltac:(lia)).
    rewrite lor_shiftl_add by lia. rewrite land_ones_mod by lia.
    rewrite Z.ones_equiv.
    assert (Ex : (v + Z.pred (2 ^ k) * 2 ^ cnt) mod 2 ^ k = (v + 2 ^ K - 2 ^ cnt) mod 2 ^ k).
    { replace (v + Z.pred (2 ^ k) * 2 ^ cnt) with (v - 2 ^ cnt + 2 ^ cnt * 2 ^ k) by (unfold Z.pred; ring).
      rewrite Z.mod_add by lia.
      rewrite EK. replace (v + 2 ^ (K - k) * 2 ^ k - 2 ^ cnt) with (v - 2 ^ cnt + 2 ^ (K - k) * 2 ^ k) by ring.
      rewrite Z.mod_add by lia. reflexivity. }
    split.
    { rewrite Ex. unfold wrapU. apply Z.mod_small.
      pose proof (Z.mod_pos_bound (v + 2 ^ K - 2 ^ cnt) (2 ^ k) Hpk). lia. }
    rewrite Z.shiftr_div_pow2 by lia. rewrite (Z.div_small v) by lia.
    split; [unfold m_wf; cbn [fst snd]; change (2 ^ 0) with 1; lia|].
    split; [|cbn [snd]; lia]. change (2 ^ 0) with 1.
    rewrite EK. replace (v + 2 ^ (K - k) * 2 ^ k - 2 ^ cnt) with (v - 2 ^ cnt + 2 ^ (K - k) * 2 ^ k) by ring.
    rewrite Z.div_add by lia.
    assert (Ed : (v - 2 ^ cnt) / 2 ^ k = -1).
    { symmetry. apply Z.div_unique with (r := v - 2 ^ cnt + 2 ^ k); lia. }
    rewrite Ed. lia.
Qed.

(* ---------- reading against the ideal bit list ---------- *)
Definition MSInv (m : msr) (B : list Z) : Prop :=
  m_wf m /\ forall K, snd m <= K -> Z.of_nat (length B) <= K -> E m K = E (bits_val B, Z.of_nat (length B)) K.

Lemma ms_fetch_bits : forall m b1 B2, MSInv m (b1 ++ B2) -> is_bits b1 -> is_bits B2 ->
  (length b1 <= 32)%nat ->
  exists m', ms_fetch m (Z.of_nat (length b1)) = (bits_val b1, m') /\ MSInv m' B2.
Proof.
  intros m b1 B2 [Hwf HE] Hb1 HB2 Hlen.
  destruct (Nat.eq_dec (length b1) 0) as [Hz|Hnz].
  - apply length_zero_iff_nil in Hz. subst b1.
    exists m. cbn [length app bits_val] in *. split; [reflexivity|]. split; assumption.
  - set (k := Z.of_nat (length b1)).
    assert (Hk : 0 < k <= 32) by (unfold k; lia).
    set (K0 := Z.max (snd m) (Z.of_nat (length (b1 ++ B2)))).
    pose proof (bits_val_bound b1 Hb1) as Hv1. pose proof (bits_val_bound B2 HB2) as Hv2. fold k in Hv1.
    pose proof (pow2_pos k ltac:(lia)) as Hpk.
    assert (Hl : Z.of_nat (length (b1 ++ B2)) = k + Z.of_nat (length B2)) by (rewrite app_length; lia).
    (* generic facts for any admissible K *)
    assert (Hgen : forall K, snd m <= K -> k + Z.of_nat (length B2) <= K ->
              E m K mod 2 ^ k = bits_val b1 /\
              E m K / 2 ^ k = E (bits_val B2, Z.of_nat (length B2)) (K - k)).
    { intros K HK1 HK2. rewrite (HE K HK1 ltac:(lia)). unfold E. cbn [fst snd]. rewrite Hl.
      rewrite bits_val_app. fold k.
      pose proof (pow2_pos (Z.of_nat (length B2)) ltac:(lia)).
      assert (EK : 2 ^ K = 2 ^ (K - k) * 2 ^ k) by (rewrite <- Z.pow_add_r by lia; f_equal; lia).
      assert (EL : 2 ^ (k + Z.of_nat (length B2)) = 2 ^ Z.of_nat (length B2) * 2 ^ k) by (rewrite Z.pow_add_r by lia; ring).
      rewrite EK, EL.
      replace (bits_val b1 + bits_val B2 * 2 ^ k + 2 ^ (K - k) * 2 ^ k - 2 ^ Z.of_nat (length B2) * 2 ^ k)
        with (bits_val b1 + (bits_val B2 + 2 ^ (K - k) - 2 ^ Z.of_nat (length B2)) * 2 ^ k) by ring.
      split; [apply mod_add_pow2; lia | apply div_add_pow2; lia]. }
    pose proof (ms_fetch_spec m k K0 Hwf Hk ltac:(unfold K0; lia) ltac:(unfold K0; lia)) as Hf.
    destruct (ms_fetch m k) as [x0 m'] eqn:Ef. destruct Hf as [Hx [Hwf' [HE' Hs']]].
    exists m'. split.
    + f_equal. rewrite Hx. apply (proj1 (Hgen K0 ltac:(unfold K0; lia) ltac:(unfold K0; lia))).
    + split; [exact Hwf'|]. intros K' HK1 HK2.
      (* transport through K = K' + k *)
      pose proof (ms_fetch_spec m k (K' + k) Hwf Hk) as Hf2. rewrite Ef in Hf2.
      assert (Hsm : snd m <= K' + k).
      { destruct m as [v c]. unfold ms_fetch in Ef. destruct (Z.leb_spec k 0); [lia|].
        cbn [snd] in *. destruct (Z.leb_spec k c); inversion Ef; subst; cbn [snd] in *; lia. }
      destruct (Hf2 Hsm ltac:(lia)) as [_ [_ [HE2 _]]].
      replace (K' + k - k) with K' in HE2 by ring. rewrite HE2.
      pose proof (proj2 (Hgen (K' + k) Hsm ltac:(lia))) as Hg.
      replace (K' + k - k) with K' in Hg by ring. exact Hg.
Qed.

(* ---------- the writer ---------- *)
Definition MW (s : msw) (B : list Z) : Prop :=
  ms_max s = bytelen (hd 0 (ms_buf s)) /\ 0 <= ms_used s < ms_max s /\ 0 <= ms_tmp s < 2 ^ ms_used s /\
  Forall is_byte_p (ms_buf s) /\ is_bits B /\
  bits_val B = fst (ms_stream_from (rev (ms_buf s)) 0) + ms_tmp s * 2 ^ snd (ms_stream_from (rev (ms_buf s)) 0) /\
  Z.of_nat (length B) = snd (ms_stream_from (rev (ms_buf s)) 0) + ms_used s.

Lemma MW_init : MW msw_init [].
Proof. unfold MW, msw_init, bytelen. cbn. repeat split; try lia; constructor. Qed.

Lemma last_rev_hd0 : forall (l : list Z) d, last (rev l) d = hd d l.
Proof. intros l d. destruct l as [|a l]; [reflexivity|]. cbn [rev hd]. apply last_last. Qed.

Lemma MW_bit : forall s B b, MW s B -> (b = 0 \/ b = 1) -> MW (msw_bit s b) (B ++ [b]).
Proof.
  intros s B b [Hmax [Hused [Htmp [Hbuf [HB [Hval Hlen]]]]]] Hb.
  pose proof (bytelen_pos (hd 0 (ms_buf s))) as Hbl.
  assert (Etmp : Z.lor (ms_tmp s) (Z.shiftl b (ms_used s)) = ms_tmp s + b * 2 ^ ms_used s)
    by (apply lor_shiftl_add; lia).
  pose proof (pow2_pos (ms_used s) ltac:(lia)) as Hpu.
  destruct (ms_from_bound (rev (ms_buf s)) 0 (Forall_rev Hbuf)) as [Hvc Hnc].
  set (vc := fst (ms_stream_from (rev (ms_buf s)) 0)) in *.
  set (nc := snd (ms_stream_from (rev (ms_buf s)) 0)) in *.
  pose proof (pow2_pos nc Hnc) as Hpn.
  assert (HvalB : bits_val (B ++ [b]) = vc + (ms_tmp s + b * 2 ^ ms_used s) * 2 ^ nc).
  { rewrite bits_val_app. cbn [bits_val]. rewrite Hval, Hlen, Z.pow_add_r by lia. ring. }
  assert (Ht' : 0 <= ms_tmp s + b * 2 ^ ms_used s < 2 ^ (ms_used s + 1)).
  { rewrite Z.pow_add_r by lia. change (2 ^ 1) with 2. destruct Hb; subst b; lia. }
  unfold msw_bit. rewrite Etmp.
  destruct (Z.geb_spec (ms_used s + 1) (ms_max s)) as [Hfull|Hnot].
  - (* the byte is complete *)
    assert (Eu : ms_used s + 1 = ms_max s) by lia.
    set (t' := ms_tmp s + b * 2 ^ ms_used s) in *.
    assert (Ht256 : 0 <= t' < 256).
    { rewrite Eu in Ht'. assert (2 ^ ms_max s <= 2 ^ 8) by (apply Z.pow_le_mono_r; lia). change (2 ^ 8) with 256 in *. lia. }
    assert (Ew : wrapU 8 t' = t') by (unfold wrapU; apply Z.mod_small; change (2 ^ 8) with 256; lia).
    rewrite Ew. unfold MW. cbn [ms_buf ms_max ms_used ms_tmp hd rev].
    split; [unfold bytelen; reflexivity|]. split; [destruct (t' =? 255); lia|].
    split; [change (2 ^ 0) with 1; lia|]. split; [constructor; [exact Ht256|exact Hbuf]|].
    split; [apply is_bits_app; [exact HB|constructor; [exact Hb|constructor]]|].
    rewrite (ms_from_app (rev (ms_buf s)) [t'] 0 (Forall_rev Hbuf) ltac:(constructor; [exact Ht256|constructor])).
    rewrite last_rev_hd0. fold vc nc.
    rewrite (ms_from_cons t' [] (hd 0 (ms_buf s)) Ht256 ltac:(constructor)). cbn [ms_stream_from fst snd].
    assert (Ebv : byteval (hd 0 (ms_buf s)) t' = t').
    { unfold byteval. unfold bytelen in Hmax. destruct (hd 0 (ms_buf s) =? 255); [|reflexivity].
      apply Z.mod_small. rewrite Eu, Hmax in Ht'. change (2 ^ 7) with 128 in Ht'. lia. }
    rewrite Ebv. split; [rewrite HvalB; ring|]. rewrite app_length. cbn [length]. lia.
  - unfold MW. cbn [ms_buf ms_max ms_used ms_tmp]. fold vc nc.
    split; [exact Hmax|]. split; [lia|]. split; [exact Ht'|]. split; [exact Hbuf|].
    split; [apply is_bits_app; [exact HB|constructor; [exact Hb|constructor]]|].
    split; [exact HvalB|]. rewrite app_length. cbn [length]. lia.
Qed.

Lemma msw_bits_fold : forall n s v, msw_bits n s v = fold_left msw_bit (lsb_bits n v) s.
Proof. induction n; intros s v; cbn [msw_bits lsb_bits fold_left]; [reflexivity|apply IHn]. Qed.

Lemma MW_bits_list : forall l s B, MW s B -> is_bits l -> MW (fold_left msw_bit l s) (B ++ l).
Proof.
  induction l as [|b l IH]; intros s B H Hl.
  - cbn. rewrite app_nil_r. exact H.
  - inversion Hl as [|? ? Hb Hl']; subst. cbn [fold_left].
    replace (B ++ b :: l) with ((B ++ [b]) ++ l) by (rewrite <- app_assoc; reflexivity).
    apply IH; [apply MW_bit; assumption|exact Hl'].
Qed.

(* the bits of a list of encode calls *)
Definition call_bits (calls : list (Z * Z)) : list Z :=
  flat_map (fun cw => lsb_bits (Z.to_nat (snd cw)) (fst cw)) calls.

Lemma call_bits_is_bits : forall calls, is_bits (call_bits calls).
Proof.
  induction calls as [|c calls IH]; [constructor|]. cbn [call_bits flat_map].
  apply is_bits_app; [apply lsb_bits_is_bits|exact IH].
Qed.

Lemma MW_calls : forall calls s B, MW s B -> MW (fold_left msw_encode calls s) (B ++ call_bits calls).
Proof.
  induction calls as [|c calls IH]; intros s B H.
  - cbn. rewrite app_nil_r. exact H.
  - cbn [fold_left call_bits flat_map]. rewrite app_assoc. apply IH.
    unfold msw_encode. rewrite msw_bits_fold. apply MW_bits_list; [exact H|apply lsb_bits_is_bits].
Qed.

(* ---------- terminate ---------- *)
Lemma pad_mask : forall t, 0 <= t <= 8 -> Z.land 255 (Z.shiftl 1 t - 1) = 2 ^ t - 1.
Proof.
  intros t Ht. assert (C : t = 0 \/ t = 1 \/ t = 2 \/ t = 3 \/ t = 4 \/ t = 5 \/ t = 6 \/ t = 7 \/ t = 8) by lia.
  destruct C as [->|[->|[->|[->|[->|[->|[->|[->| ->]]]]]]]]; reflexivity.
Qed.

Lemma ms_terminate_spec : forall s B, MW s B ->
  Forall is_byte_p (msw_terminate s) /\ MSInv (ms_stream (msw_terminate s)) B.
Proof.
  intros s B [Hmax [Hused [Htmp [Hbuf [HB [Hval Hlen]]]]]].
  pose proof (bytelen_pos (hd 0 (ms_buf s))) as Hbl.
  destruct (ms_from_bound (rev (ms_buf s)) 0 (Forall_rev Hbuf)) as [Hvc Hnc].
  set (vc := fst (ms_stream_from (rev (ms_buf s)) 0)) in *.
  set (nc := snd (ms_stream_from (rev (ms_buf s)) 0)) in *.
  pose proof (pow2_pos nc Hnc) as Hpn. pose proof (pow2_pos (ms_used s) ltac:(lia)) as Hpu.
  unfold msw_terminate.
  destruct (Z.eqb_spec (ms_used s) 0) as [Hz|Hnz]; cbn [negb].
  - (* no open byte *)
    assert (Et : ms_tmp s = 0) by (rewrite Hz in Htmp; change (2 ^ 0) with 1 in Htmp; lia).
    destruct (ms_buf s) as [|b0 buf'] eqn:Eb.
    + rewrite andb_false_r. cbn [rev]. split; [constructor|].
      unfold MSInv, ms_stream. cbn [ms_stream_from fst snd]. split; [unfold m_wf; cbn; lia|].
      intros K _ _. unfold E. cbn [fst snd].
      assert (Ev0 : vc = 0) by reflexivity. assert (En0 : nc = 0) by reflexivity.
      rewrite Hval, Hlen, Ev0, En0, Et, Hz. reflexivity.
    + cbn [negb andb hd tl] in *.
      destruct (Z.eqb_spec (ms_max s) 7) as [H7|Hn7]; cbn [andb].
      * (* trailing 0xFF dropped *)
        assert (Hb0 : b0 = 255) by (unfold bytelen in Hmax; destruct (Z.eqb_spec b0 255); [assumption|lia]).
        inversion Hbuf as [|? ? Hb0r Hbuf']; subst b0.
        split; [apply Forall_rev; exact Hbuf'|].
        assert (Hsplit : ms_stream_from (rev (255 :: buf')) 0 =
                 (fst (ms_stream_from (rev buf') 0) + (2 ^ bytelen (hd 0 buf') - 1) * 2 ^ snd (ms_stream_from (rev buf') 0),
                  snd (ms_stream_from (rev buf') 0) + bytelen (hd 0 buf'))).
        { cbn [rev]. rewrite (ms_from_app (rev buf') [255] 0 (Forall_rev Hbuf') ltac:(constructor; [unfold is_byte_p; lia|constructor])).
          rewrite last_rev_hd0. rewrite (ms_from_cons 255 [] (hd 0 buf') ltac:(unfold is_byte_p; lia) ltac:(constructor)).
          cbn [ms_stream_from fst snd]. apply f_equal2; [|lia].
          unfold byteval, bytelen. destruct (hd 0 buf' =? 255);
            [change (255 mod 128) with 127; change (2 ^ 7) with 128 | change (2 ^ 8) with 256]; ring. }
        unfold vc, nc in *. rewrite Hsplit in *. cbn [fst snd] in *.
        destruct (ms_from_bound (rev buf') 0 (Forall_rev Hbuf')) as [Hv' Hn'].
        unfold MSInv, ms_stream. split; [unfold m_wf; split; assumption|].
        intros K HK1 HK2. unfold E. cbn [fst snd]. rewrite Hval, Hlen, Et, Hz.
        pose proof (bytelen_pos (hd 0 buf')).
        rewrite (Z.add_0_r (snd (ms_stream_from (rev buf') 0) + bytelen (hd 0 buf'))).
        rewrite !Z.pow_add_r by lia. ring.
      * split; [apply Forall_rev; exact Hbuf|].
        unfold MSInv, ms_stream. fold vc nc.
        replace (ms_stream_from (rev (b0 :: buf')) 0) with (vc, nc) by (unfold vc, nc; destruct (ms_stream_from (rev (b0 :: buf')) 0); reflexivity).
        split; [unfold m_wf; split; assumption|].
        intros K _ _. unfold E. cbn [fst snd]. rewrite Hval, Hlen, Et, Hz.
        rewrite Z.mul_0_l, !Z.add_0_r. reflexivity.
  - (* open byte padded with ones *)
    set (t := ms_max s - ms_used s).
    assert (Ht : 1 <= t <= 8) by (unfold t; lia).
    rewrite pad_mask by lia.
    rewrite lor_shiftl_add by lia.
    set (pb := ms_tmp s + (2 ^ t - 1) * 2 ^ ms_used s).
    assert (Epow : 2 ^ t * 2 ^ ms_used s = 2 ^ ms_max s) by (unfold t; rewrite <- Z.pow_add_r by lia; f_equal; lia).
    pose proof (pow2_pos t ltac:(lia)) as Hpt.
    assert (Hpb : 0 <= pb < 2 ^ ms_max s) by (unfold pb; nia).
    assert (Hpb256 : 0 <= pb < 256).
    { assert (2 ^ ms_max s <= 2 ^ 8) by (apply Z.pow_le_mono_r; lia). change (2 ^ 8) with 256 in *. lia. }
    assert (Ew : wrapU 8 pb = pb) by (unfold wrapU; apply Z.mod_small; change (2 ^ 8) with 256; lia).
    rewrite Ew.
    assert (HEcommon : forall K, E (vc + pb * 2 ^ nc, nc + ms_max s) K = E (bits_val B, Z.of_nat (length B)) K).
    { intro K. unfold E. cbn [fst snd]. rewrite Hval, Hlen. unfold pb.
      rewrite !Z.pow_add_r by lia. rewrite <- Epow. ring. }
    destruct (Z.eqb_spec pb 255) as [Hff|Hnff].
    + (* the padded byte would be 0xFF: dropped; all its bits were ones *)
      split; [apply Forall_rev; exact Hbuf|].
      unfold MSInv, ms_stream.
      replace (ms_stream_from (rev (ms_buf s)) 0) with (vc, nc) by (unfold vc, nc; destruct (ms_stream_from (rev (ms_buf s)) 0); reflexivity).
      split; [unfold m_wf; split; assumption|].
      intros K _ _. rewrite <- HEcommon. unfold E. cbn [fst snd].
      assert (E8 : ms_max s = 8).
      { destruct (Z.eq_dec (ms_max s) 8); [assumption|]. assert (ms_max s = 7) by lia.
        rewrite H in Hpb. change (2 ^ 7) with 128 in Hpb. lia. }
      rewrite Hff, E8. rewrite Z.pow_add_r by lia. change (2 ^ 8) with 256. ring.
    + split; [apply Forall_rev; constructor; [exact Hpb256|exact Hbuf]|].
      unfold MSInv, ms_stream. cbn [rev].
      rewrite (ms_from_app (rev (ms_buf s)) [pb] 0 (Forall_rev Hbuf) ltac:(constructor; [exact Hpb256|constructor])).
      rewrite last_rev_hd0. fold vc nc.
      rewrite (ms_from_cons pb [] (hd 0 (ms_buf s)) Hpb256 ltac:(constructor)). cbn [ms_stream_from fst snd].
      assert (Ebv : byteval (hd 0 (ms_buf s)) pb = pb).
      { unfold byteval. unfold bytelen in Hmax. destruct (hd 0 (ms_buf s) =? 255); [|reflexivity].
        apply Z.mod_small. rewrite Hmax in Hpb. change (2 ^ 7) with 128 in Hpb. lia. }
      rewrite Ebv, <- Hmax.
      replace (pb + 0 * 2 ^ ms_max s) with pb by ring. replace (nc + (0 + ms_max s)) with (nc + ms_max s) by ring.
      split.
      * unfold m_wf. cbn [fst snd]. split; [lia|]. rewrite Z.pow_add_r by lia. nia.
      * intros K _ _. apply HEcommon.
Qed.

(* The MagSgn stream theorem: whatever sequence of (value, length) codewords the encoder hands to
   ojphMSWriter, the terminated byte string read by MagSgnDecoder is that bit sequence followed by
   ones. *)
Theorem ms_stream_roundtrip : forall calls,
  let bytes := msw_terminate (fold_left msw_encode calls msw_init) in
  Forall is_byte_p bytes /\ MSInv (ms_stream bytes) (call_bits calls).
Proof.
  intro calls. cbv zeta. apply ms_terminate_spec.
  apply (MW_calls calls msw_init [] MW_init).
Qed.
