(* EXTRACT *)
(* HTJ2K cleanup pass, encoder: HTEncoder.Encode -> encodeOpenJPHCleanup
   (encoder.go, openjph_cleanup_encoder.go).  The lossless HTJ2K path emits the cleanup pass only
   (codeBlockPassLayout: numPasses = 1 in HTJ2K mode; there is no SigProp/MagRef code in the
   encoder), so this is the whole block coder.
   Shape of the model.  Go walks quad pairs row by row and keeps two rolling arrays over the quad
   columns: eVal[i] = max(exponent of the bottom-right sample of quad i-1, exponent of the
   bottom-left sample of quad i) and cxVal[i] = (significance of bottom-right of quad i-1) |
   (significance of bottom-left of quad i), both of the PREVIOUS quad row at the moment they are
   read (every entry is read before the current row overwrites it).  The model computes the same
   numbers from the list of quads of the previous row.  The three writers are independent, so the
   model first produces the three call sequences (VLC codewords, MEL events, MagSgn codewords) in
   the order Go issues them within each stream, then runs the writers. *)
From V Require Import Common.Base Gen.HtTables_gen HT.HtMel HT.HtVlc HT.HtUvlc HT.HtLevels HT.HtBlockBits.

Definition bitlen32 (v : Z) : Z := if v <=? 0 then 0 else Z.log2 v + 1.

(* cb[i] = sign | uint32(mag) << (31 - kmax); the magnitude part alone *)
Definition ht_sample_val (kmax v : Z) : Z :=
  let mag := if v <? 0 then wrapS 32 (- v) else v in
  wrapU 32 (Z.shiftl (wrapU 32 mag) (31 - kmax)).

(* prepareOJPHSample: (significant, exponent e, MagSgn value s) *)
Definition sample_info (cb : list Z) (p w h x y : Z) : bool * Z * Z :=
  if (x >=? w) || (y >=? h) then (false, 0, 0)
  else
    let t := znth cb (y * w + x) 0 in
    let val := Z.land (Z.shiftr (wrapU 32 (t + t)) p) 4294967294 in
    if val =? 0 then (false, 0, 0)
    else (true, bitlen32 (val - 1), wrapU 32 (val - 2 + Z.shiftr t 31)).

Record quad : Type := mk_quad { q_rho : Z; q_emax : Z; q_e : list Z; q_s : list Z }.

Definition quad_info (cb : list Z) (p w h x y : Z) : quad :=
  let '(g0, e0, s0) := sample_info cb p w h x y in
  let '(g1, e1, s1) := sample_info cb p w h x (y + 1) in
  let '(g2, e2, s2) := sample_info cb p w h (x + 1) y in
  let '(g3, e3, s3) := sample_info cb p w h (x + 1) (y + 1) in
  mk_quad ((if g0 then 1 else 0) + (if g1 then 2 else 0) + (if g2 then 4 else 0) + (if g3 then 8 else 0))
          (Z.max (Z.max (Z.max (Z.max 0 e0) e1) e2) e3) [e0; e1; e2; e3] [s0; s1; s2; s3].

Definition quad_row (cb : list Z) (p w h r : Z) : list quad :=
  map (fun qx => quad_info cb p w h (2 * qx) (2 * r)) (zseq (Z.to_nat (Z.quot (w + 1) 2))).

(* ojphEPS *)
Definition quad_eps (q : quad) (u : Z) : Z :=
  if u <=? 0 then 0
  else (if znth (q_e q) 0 0 =? q_emax q then 1 else 0) + (if znth (q_e q) 1 0 =? q_emax q then 2 else 0) +
       (if znth (q_e q) 2 0 =? q_emax q then 4 else 0) + (if znth (q_e q) 3 0 =? q_emax q then 8 else 0).

(* ojphEncodeMagSgn: the ms.encode calls of one quad *)
Definition ms_call (q : quad) (uq tuple i : Z) : list (Z * Z) :=
  if Z.land (q_rho q) (Z.shiftl 1 i) =? 0 then []
  else let m := uq - Z.land (Z.shiftr tuple i) 1 in
       let m := if m <? 0 then 0 else m in
       [(Z.land (znth (q_s q) i 0) (Z.shiftl 1 m - 1), m)].
Definition ms_calls (q : quad) (uq tuple : Z) : list (Z * Z) :=
  ms_call q uq tuple 0 ++ ms_call q uq tuple 1 ++ ms_call q uq tuple 2 ++ ms_call q uq tuple 3.

Record streams : Type := mk_streams { st_vlc : list (Z * Z); st_mel : list bool; st_ms : list (Z * Z) }.
Definition st_app (a b : streams) : streams :=
  mk_streams (st_vlc a ++ st_vlc b) (st_mel a ++ st_mel b) (st_ms a ++ st_ms b).
Definition st_nil : streams := mk_streams [] [] [].

Definition ctx_next0 (rho : Z) : Z := Z.lor (Z.shiftr rho 1) (Z.land rho 1).   (* (rho>>1)|(rho&1) *)
Definition tuple_cw (t : Z) : Z * Z := (tuple_cwd t, tuple_len t).

(* encodeOJPHInitialRows: the quads of row 0, two at a time; cq = context of the next quad *)
Fixpoint enc_row0 (qs : list quad) (cq : Z) : streams :=
  match qs with
  | [] => st_nil
  | q0 :: rest =>
    let uq0 := Z.max (q_emax q0) 1 in
    let u0 := uq0 - 1 in
    let t0 := ojph_encode_tuple true cq (q_rho q0) (quad_eps q0 u0) in
    let mel0 := if cq =? 0 then [negb (q_rho q0 =? 0)] else [] in
    match rest with
    | [] =>
      mk_streams (tuple_cw t0 :: ojph_uvlc_initial_calls u0 0) mel0 (ms_calls q0 uq0 t0)
    | q1 :: rest' =>
      let cq1 := ctx_next0 (q_rho q0) in
      let uq1 := Z.max (q_emax q1) 1 in
      let u1 := uq1 - 1 in
      let t1 := ojph_encode_tuple true cq1 (q_rho q1) (quad_eps q1 u1) in
      let mel1 := if cq1 =? 0 then [negb (q_rho q1 =? 0)] else [] in
      let melu := if (u0 >? 0) && (u1 >? 0) then [Z.min u0 u1 >? 2] else [] in
      st_app (mk_streams (tuple_cw t0 :: tuple_cw t1 :: ojph_uvlc_initial_calls u0 u1)
                         (mel0 ++ mel1 ++ melu)
                         (ms_calls q0 uq0 t0 ++ ms_calls q1 uq1 t1))
             (enc_row0 rest' (ctx_next0 (q_rho q1)))
    end
  end.

(* the previous quad row as the rolling arrays see it *)
Definition pq_get (pq : list quad) (i : Z) : quad := znth pq i (mk_quad 0 0 [0; 0; 0; 0] [0; 0; 0; 0]).
Definition cx_val (pq : list quad) (i : Z) : Z :=      (* cxVal[i] *)
  Z.lor (Z.shiftr (Z.land (q_rho (pq_get pq (i - 1))) 8) 3) (Z.shiftr (Z.land (q_rho (pq_get pq i)) 2) 1).
Definition ctx_above (pq : list quad) (i : Z) : Z := cx_val pq i + Z.shiftl (cx_val pq (i + 1)) 2.
Definition e_val (pq : list quad) (i : Z) : Z :=       (* eVal[i] *)
  Z.max (znth (q_e (pq_get pq (i - 1))) 3 0) (znth (q_e (pq_get pq i)) 1 0).
Definition max_e (pq : list quad) (i : Z) : Z := Z.max (e_val pq i) (e_val pq (i + 1)) - 1.
Definition ctx_left (rho : Z) : Z := Z.lor (Z.shiftr (Z.land rho 4) 1) (Z.shiftr (Z.land rho 8) 2).
Definition kappa_of (pq : list quad) (i rho : Z) : Z :=
  if Z.land rho (rho - 1) =? 0 then 1 else Z.max 1 (max_e pq i).

(* encodeOJPHSubsequentRows, one quad row; i = column of the next quad, left = rho of the quad to
   its left in this row (0 at the start) *)
Fixpoint enc_rowN (pq qs : list quad) (i left : Z) : streams :=
  match qs with
  | [] => st_nil
  | q0 :: rest =>
    let cq0 := Z.lor (ctx_above pq i) (ctx_left left) in
    let k0 := kappa_of pq i (q_rho q0) in
    let uq0 := Z.max (q_emax q0) k0 in
    let u0 := uq0 - k0 in
    let t0 := ojph_encode_tuple false cq0 (q_rho q0) (quad_eps q0 u0) in
    let mel0 := if cq0 =? 0 then [negb (q_rho q0 =? 0)] else [] in
    match rest with
    | [] =>
      mk_streams (tuple_cw t0 :: ojph_uvlc_noninitial_calls u0 0) mel0 (ms_calls q0 uq0 t0)
    | q1 :: rest' =>
      let cq1 := Z.lor (ctx_above pq (i + 1)) (ctx_left (q_rho q0)) in
      let k1 := kappa_of pq (i + 1) (q_rho q1) in
      let uq1 := Z.max (q_emax q1) k1 in
      let u1 := uq1 - k1 in
      let t1 := ojph_encode_tuple false cq1 (q_rho q1) (quad_eps q1 u1) in
      let mel1 := if cq1 =? 0 then [negb (q_rho q1 =? 0)] else [] in
      st_app (mk_streams (tuple_cw t0 :: tuple_cw t1 :: ojph_uvlc_noninitial_calls u0 u1)
                         (mel0 ++ mel1)
                         (ms_calls q0 uq0 t0 ++ ms_calls q1 uq1 t1))
             (enc_rowN pq rest' (i + 2) (q_rho q1))
    end
  end.

(* all quad rows: row 0, then every later row against its predecessor *)
Fixpoint enc_rows (rows : list (list quad)) (prev : list quad) : streams :=
  match rows with
  | [] => st_nil
  | r :: rows' => st_app (enc_rowN prev r 0 0) (enc_rows rows' r)
  end.
Definition enc_streams (rows : list (list quad)) : streams :=
  match rows with
  | [] => st_nil
  | r0 :: rows' => st_app (enc_row0 r0 0) (enc_rows rows' r0)
  end.

(* HTEncoder.Encode(data, _, _) with SetKMax(kmax), block w x h:
   Err: len(data) != w*h, kmax <= 0 or kmax >= 31;  Ok []: nothing significant (Go returns nil) *)
Definition ht_block_encode (w h kmax : Z) (data : list Z) : outcome (list Z) :=
  if negb (zlen data =? w * h) then Err
  else if (kmax <=? 0) || (kmax >=? 31) then Err
  else
    let cb := map (ht_sample_pack kmax) data in
    if forallb (fun v => ht_sample_val kmax v =? 0) data then Ok []
    else
      let p := 30 - (kmax - 1) in
      let rows := map (quad_row cb p w h) (zseq (Z.to_nat (Z.quot (h + 1) 2))) in
      let st := enc_streams rows in
      let mel := fold_left melw_encode (st_mel st) melw_init in
      let vlc := fold_left vlw_encode (st_vlc st) vlw_init in
      let ms := fold_left msw_encode (st_ms st) msw_init in
      let '(meld, extra) := ojph_mel_terminate mel (vw2_tmp vlc) (vw2_used vlc)
                              (1 <? zlen (vw2_buf vlc)) in
      let vlcd := match extra with Some b => b :: vlw_bytes vlc | None => vlw_bytes vlc end in
      let res := msw_terminate ms ++ meld ++ vlcd in
      if zlen meld + zlen vlcd =? 0 then Err
      else Ok (scup_write res (zlen meld + zlen vlcd)).
