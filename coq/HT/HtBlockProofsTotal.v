(* HTJ2K cleanup decoder on arbitrary bytes (C08 side of C06).
   The decoder model (HtBlockDec.ht_block_decode) has two outcomes only, Ok and Err: every slice
   read of the Go code is modelled by znth (0 outside the slice), so a Go index panic would NOT show
   in the model.  What is proved here is therefore (a) the model is total with outcomes Ok / Err,
   and (b) the table indices the decoder forms from ARBITRARY stream contents stay inside the four
   lookup tables (CxtVLC tables 1024 entries, U-VLC tables 320 / 256 entries) — the only indices
   that depend on the bytes of the code-block rather than on the block geometry.  The remaining
   index expressions (scratch stripes, vn scratch, output) are functions of w, h alone; they are
   covered by the harness oracle ht_decode_no_panic (damaged blocks), not by a theorem. *)
From V Require Import Common.Base Gen.HtTables_gen HT.HtMel HT.HtVlc HT.HtUvlc HT.HtLevels HT.HtBlockBits HT.HtBlockDec
  HT.HtBitLemmas HT.HtProofsTables HT.HtBlockProofsRead.

Theorem ht_decode_total_partial : forall w h kmax missing cb,
  (exists d, ht_block_decode w h kmax missing cb = Ok d) \/ ht_block_decode w h kmax missing cb = Err.
Proof.
  intros. unfold ht_block_decode.
  destruct (zlen cb =? 0); [left; eexists; reflexivity|].
  destruct (kmax <=? 0); [right; reflexivity|]. destruct (missing <? 0); [right; reflexivity|].
  destruct (missing >=? 30); [right; reflexivity|].
  destruct (scup_parse cb) as [[msd cld]| | |]; try (right; reflexivity).
  destruct (dec_row0 _ _ _ _ _) as [row0 st1].
  destruct (dec_ms_rows _ _ _ _ _ _ _); [left; eexists; reflexivity|right; reflexivity].
Qed.

(* contexts: multiples of 128 up to 896 *)
Definition c8 (c : Z) : Prop := exists k, 0 <= k <= 7 /\ c = Z.shiftl k 7.

Lemma c8_lor : forall a b, c8 a -> c8 b -> c8 (Z.lor a b).
Proof.
  intros a b [ka [Ha ->]] [kb [Hb ->]]. exists (Z.lor ka kb). split; [|symmetry; apply Z.shiftl_lor].
  assert (H : forallb (fun x => forallb (fun y => (0 <=? Z.lor x y) && (Z.lor x y <=? 7)) (zseq 8)) (zseq 8) = true) by (vm_compute; reflexivity).
  pose proof (proj1 (forallb_forall _ _) H ka (In_zseq 8 ka ltac:(change (Z.of_nat 8) with 8; lia))) as H1. cbv beta in H1.
  pose proof (proj1 (forallb_forall _ _) H1 kb (In_zseq 8 kb ltac:(change (Z.of_nat 8) with 8; lia))) as H2. cbv beta in H2.
  apply andb_prop in H2. destruct H2 as [A B]. apply Z.leb_le in A. apply Z.leb_le in B. lia.
Qed.

Lemma c8_0 : c8 0.
Proof. exists 0. split; [lia|reflexivity]. Qed.

Definition c8b (c : Z) : bool := (0 <=? Z.shiftr c 7) && (Z.shiftr c 7 <=? 7) && (c =? Z.shiftl (Z.shiftr c 7) 7).
Lemma c8b_c8 : forall c, c8b c = true -> c8 c.
Proof.
  intros c H. unfold c8b in H. apply andb_prop in H. destruct H as [H E]. apply andb_prop in H. destruct H as [A B].
  apply Z.leb_le in A. apply Z.leb_le in B. apply Z.eqb_eq in E. exists (Z.shiftr c 7). split; [lia|exact E].
Qed.

(* every context component the decoder forms from a 16-bit table entry *)
Lemma ctx_components : forall t, 0 <= t < 65536 ->
  c8 (Z.shiftl (Z.land t 160) 2) /\ c8 (Z.shiftl (Z.land t 32) 4) /\ c8 (Z.shiftl (Z.land t 64) 2) /\
  c8 (Z.shiftl (Z.land t 128) 1) /\ c8 (Z.land t 128) /\ c8 (Z.shiftl (Z.land t 16) 3) /\ c8 (Z.shiftl (Z.land t 224) 2).
Proof.
  intros t Ht.
  assert (H : all16 (fun t => c8b (Z.shiftl (Z.land t 160) 2) && c8b (Z.shiftl (Z.land t 32) 4) && c8b (Z.shiftl (Z.land t 64) 2) &&
                              c8b (Z.shiftl (Z.land t 128) 1) && c8b (Z.land t 128) && c8b (Z.shiftl (Z.land t 16) 3) &&
                              c8b (Z.shiftl (Z.land t 224) 2)) = true) by (vm_compute; reflexivity).
  pose proof (all16_spec _ H t Ht) as H1. cbv beta in H1.
  do 6 (apply andb_prop in H1; let X := fresh "X" in destruct H1 as [H1 X]).
  repeat match goal with |- _ /\ _ => split end; apply c8b_c8; assumption.
Qed.

Definition w16 (t : Z) : Prop := 0 <= t < 65536.

(* initial row: the context after a quad *)
Lemma ctx0_c8 : forall t, w16 t -> c8 (ctx0_of t).
Proof.
  intros t Ht. destruct (ctx_components t Ht) as [_ [_ [_ [_ [_ [A B]]]]]]. unfold ctx0_of. apply c8_lor; assumption.
Qed.

(* later rows: the three context expressions of decodeOpenJPHRemainingRows *)
Lemma ctxN_first_c8 : forall cq a0 a1, c8 cq -> w16 a0 -> w16 a1 ->
  c8 (Z.lor cq (Z.lor (Z.shiftl (Z.land a0 160) 2) (Z.shiftl (Z.land a1 32) 4))).
Proof.
  intros cq a0 a1 Hc H0 H1. destruct (ctx_components a0 H0) as [A _]. destruct (ctx_components a1 H1) as [_ [B _]].
  apply c8_lor; [exact Hc|apply c8_lor; assumption].
Qed.
Lemma ctxN_second_c8 : forall t0 a0 a1 a2, w16 t0 -> w16 a0 -> w16 a1 -> w16 a2 ->
  c8 (Z.lor (Z.lor (Z.lor (Z.shiftl (Z.land t0 64) 2) (Z.shiftl (Z.land t0 128) 1)) (Z.land a0 128))
            (Z.lor (Z.shiftl (Z.land a1 160) 2) (Z.shiftl (Z.land a2 32) 4))).
Proof.
  intros t0 a0 a1 a2 Ht H0 H1 H2.
  destruct (ctx_components t0 Ht) as [_ [_ [T1 [T2 _]]]]. destruct (ctx_components a0 H0) as [_ [_ [_ [_ [A0 _]]]]].
  destruct (ctx_components a1 H1) as [A1 _]. destruct (ctx_components a2 H2) as [_ [A2 _]].
  repeat apply c8_lor; assumption.
Qed.
Lemma ctxN_carry_c8 : forall t1 a1, w16 t1 -> w16 a1 ->
  c8 (Z.lor (Z.lor (Z.shiftl (Z.land t1 64) 2) (Z.shiftl (Z.land t1 128) 1)) (Z.land a1 128)).
Proof.
  intros t1 a1 Ht H1. destruct (ctx_components t1 Ht) as [_ [_ [T1 [T2 _]]]]. destruct (ctx_components a1 H1) as [_ [_ [_ [_ [A1 _]]]]].
  repeat apply c8_lor; assumption.
Qed.

(* what lut returns is again a 16-bit entry (or 0), whatever the stream holds *)
Lemma lut_w16 : forall first cq v, w16 (lut (lookup_of first) cq v).
Proof. intros. unfold lut, w16. apply lookup_range. Qed.

(* the CxtVLC table index is inside the table for every stream content *)
Theorem lut_index_in_table : forall cq v, c8 cq ->
  0 <= cq + Z.land (vlc_peek v) 127 < 1024 /\ zlen vlc_lookup0 = 1024 /\ zlen vlc_lookup1 = 1024.
Proof.
  intros cq v [k [Hk ->]]. split; [|split; vm_compute; reflexivity].
  rewrite Z.shiftl_mul_pow2 by lia. change (2 ^ 7) with 128.
  change 127 with (Z.ones 7). rewrite Z.land_ones by lia. change (2 ^ 7) with 128.
  pose proof (Z.mod_pos_bound (vlc_peek v) 128 ltac:(lia)). lia.
Qed.

(* the U-VLC table index *)
Theorem uvlc_index_in_table : forall t0 t1 v, w16 t0 -> w16 t1 ->
  let mode := uvlc_mode t0 t1 in
  0 <= mode + 64 + Z.land v 63 < 320 /\ 0 <= mode + Z.land v 63 < 256 /\
  zlen uvlc_tbl0 = 320 /\ zlen uvlc_tbl1 = 256.
Proof.
  intros t0 t1 v H0 H1. cbv zeta.
  assert (H : all16 (fun t => let a := Z.shiftl (Z.land t 8) 3 in let b := Z.shiftl (Z.land t 8) 4 in
                              ((a =? 0) || (a =? 64)) && ((b =? 0) || (b =? 128))) = true) by (vm_compute; reflexivity).
  pose proof (all16_spec _ H t0 H0) as A. pose proof (all16_spec _ H t1 H1) as B. cbv beta zeta in A, B.
  apply andb_prop in A. destruct A as [A _]. apply andb_prop in B. destruct B as [_ B].
  change 63 with (Z.ones 6). rewrite Z.land_ones by lia. change (2 ^ 6) with 64.
  pose proof (Z.mod_pos_bound v 64 ltac:(lia)) as Hm.
  unfold uvlc_mode.
  apply orb_true_iff in A. apply orb_true_iff in B.
  assert (Hmode : 0 <= Z.lor (Z.shiftl (Z.land t0 8) 3) (Z.shiftl (Z.land t1 8) 4) <= 192).
  { destruct A as [A|A]; apply Z.eqb_eq in A; rewrite A; destruct B as [B|B]; apply Z.eqb_eq in B; rewrite B; cbn; lia. }
  split; [lia|]. split; [lia|]. split; vm_compute; reflexivity.
Qed.
