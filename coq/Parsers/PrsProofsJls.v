(* Parsers: theorems about the JPEG-LS header models (PrsJls.v). *)
From V Require Import Common.Base Parsers.PrsOutcome Parsers.PrsJls Parsers.PrsProofsBase.

Lemma i64_id : forall x, - 2 ^ 63 <= x < 2 ^ 63 -> i64 x = x.
Proof.
  intros x Hx. unfold i64, wrapS. change (64 - 1) with 63.
  assert (Hp : 2 ^ 64 = 2 * 2 ^ 63) by reflexivity.
  destruct (Z_lt_le_dec x 0) as [Hneg|Hpos].
  - assert (Hm : x mod 2 ^ 64 = x + 2 ^ 64).
    { symmetry. apply Z.mod_unique with (q := -1); lia. }
    rewrite Hm. destruct (Z.ltb_spec (x + 2 ^ 64) (2 ^ 63)); lia.
  - rewrite Z.mod_small by lia. destruct (Z.ltb_spec x (2 ^ 63)); lia.
Qed.

(* ---------- parameter derivation ---------- *)

Lemma thresholds_ok : forall mv near, 0 <= mv -> exists t, jls_compute_thresholds mv near = Ok t.
Proof.
  intros mv near Hmv. unfold jls_compute_thresholds.
  destruct (Z.leb_spec 128 mv); [eexists; reflexivity|].
  rewrite i64_id by (change (2 ^ 63) with 9223372036854775808; lia).
  destruct (Z.eqb_spec (mv + 1) 0); [lia|].
  assert (Hq : 2 <= Z.quot 256 (mv + 1)).
  { rewrite Z.quot_div_nonneg by lia. apply Z.div_le_lower_bound; lia. }
  destruct (Z.eqb_spec (Z.quot 256 (mv + 1)) 0); [lia|]. eexists; reflexivity.
Qed.

Lemma thresholds_never : forall mv near,
  jls_compute_thresholds mv near <> Err /\ jls_compute_thresholds mv near <> OutOfFuel.
Proof.
  intros. unfold jls_compute_thresholds.
  destruct (128 <=? mv); [split; congruence|].
  destruct (i64 (mv + 1) =? 0); [split; congruence|].
  destruct (Z.quot 256 (i64 (mv + 1)) =? 0); split; congruence.
Qed.

Lemma coding_params_ok : forall mv near reset, 0 <= mv -> exists p, jls_coding_params mv near reset = Ok p.
Proof.
  intros. unfold jls_coding_params. destruct (thresholds_ok mv near H) as [[[t1 t2] t3] ->]. eexists; reflexivity.
Qed.
Lemma coding_params_nf : forall mv near reset, jls_coding_params mv near reset <> OutOfFuel.
Proof.
  intros. unfold jls_coding_params. destruct (thresholds_never mv near) as [_ H].
  destruct (jls_compute_thresholds mv near) as [[[t1 t2] t3]| | |]; congruence.
Qed.

(* the defect: precision >= 64 gives maxVal = -1 and 256/(maxVal+1) *)
Lemma coding_params_panics : forall bits near reset, 64 <= bits ->
  jls_coding_params (i64 (shl1 bits - 1)) near reset = Panic.
Proof.
  intros. unfold shl1. destruct (Z.leb_spec 64 bits); [|lia]. reflexivity.
Qed.

Lemma shl1_range_b : forallb (fun b => 0 <=? i64 (shl1 b - 1)) (map Z.of_nat (seq 0 64)) = true.
Proof. vm_compute. reflexivity. Qed.
Lemma shl1_nonneg : forall b, 0 <= b < 64 -> 0 <= i64 (shl1 b - 1).
Proof.
  intros b Hb. pose proof shl1_range_b as H. rewrite forallb_forall in H.
  apply Z.leb_le. apply H. apply in_map_iff. exists (Z.to_nat b). split; [lia|]. apply in_seq. lia.
Qed.

(* ---------- state invariant ---------- *)
Definition Inv (st : jls_st) : Prop :=
  0 <= js_maxval st /\ 0 <= js_w st <= 65535 /\ 0 <= js_h st <= 65535 /\ 0 <= js_c st <= 3.
Lemma Inv0 : Inv jls_st0. Proof. unfold Inv, jls_st0; simpl; lia. Qed.

Definition frameless (st : jls_st) : bool := (js_w st =? 0) && (js_h st =? 0).
Definition frameS (st : jls_st) : Z := js_w st * js_h st * js_c st.
Lemma frameless_S : forall st, frameless st = true -> frameS st = 0.
Proof. intros st H. unfold frameless in H. apply andb_true_iff in H. destruct H as [H _]. apply Z.eqb_eq in H. unfold frameS. rewrite H. lia. Qed.

Lemma ctx_alloc_val : jls_ctx_alloc = (Ok tt, [14600]).
Proof. reflexivity. Qed.
Lemma be16_bound : forall d o, bytes d -> 0 <= be16 d o <= 65535.
Proof. intros. unfold be16. pose proof (bytes_znth d o H). pose proof (bytes_znth d (o + 1) H). lia. Qed.

Lemma jlsl_init_spec : forall st t1 t2 t3, 0 <= js_maxval st ->
  exists st', jlsl_init st t1 t2 t3 = (Ok st', [14600]) /\
     js_maxval st' = js_maxval st /\ js_w st' = js_w st /\ js_h st' = js_h st /\ js_c st' = js_c st /\ js_bits st' = js_bits st.
Proof.
  intros st t1 t2 t3 Hmv. unfold jlsl_init.
  destruct (coding_params_ok (js_maxval st) 0 (js_reset st) Hmv) as [p Hp]. rewrite Hp.
  destruct (coding_params_ok (js_maxval st) 0 (jp_reset p) Hmv) as [p2 Hp2].
  unfold lift at 1. unfold bind at 1. cbn [fst snd app].
  rewrite Hp2. unfold lift at 1. unfold bind at 1. cbn [fst snd app].
  rewrite ctx_alloc_val. unfold bind at 1. cbn [fst snd app].
  destruct ((t1 =? 0) || (t2 =? 0) || (t3 =? 0)); cbn; eexists; (split; [reflexivity|]); simpl; auto.
Qed.
Lemma jlsl_init_good : forall st t1 t2 t3, 0 <= js_maxval st ->
  good true 65536 (fun st' => js_maxval st' = js_maxval st /\ js_w st' = js_w st /\ js_h st' = js_h st /\ js_c st' = js_c st)
       (jlsl_init st t1 t2 t3).
Proof.
  intros st t1 t2 t3 H. destruct (jlsl_init_spec st t1 t2 t3 H) as (st' & E & A1 & A2 & A3 & A4 & A5).
  rewrite E. unfold good; simpl. split; [congruence|]. split; [congruence|]. split; [repeat constructor; lia|].
  intros a Ha; inversion Ha; subst; auto.
Qed.

(* post-conditions: invariant, remaining input = the rest after this segment *)
Definition postR (r : list Z) (x : jls_st * list Z) : Prop :=
  Inv (fst x) /\ bytes (snd x) /\ (length (snd x) <= length r)%nat /\ snd x = seg_rest r.
Definition sameFrame (st st' : jls_st) : Prop := js_w st' = js_w st /\ js_h st' = js_h st /\ js_c st' = js_c st.

Ltac rseg Hb := eapply good_bind; [eapply good_weaken; [apply good_read_segment'; exact Hb|lia|intros a Ha; exact Ha]|].

(* parseSOF55 (lossless decoder): accepted only in a frameless state; the new frame is the one this segment declares *)
Lemma jlsl_sof55_good : forall st bs, bytes bs ->
  good true 65536 (fun x => postR bs x /\ frameless st = true /\ frameless (fst x) = false /\ frameS (fst x) = sof_S (seg_data bs))
       (jlsl_parse_sof55 st bs).
Proof.
  intros st bs Hb. unfold jlsl_parse_sof55. rseg Hb.
  intros [d rest] (Hd & Hrest & Hdl & Hlen & Ed & Er). cbn [fst snd] in *.
  set (bits := znth d 0 0). set (h := be16 d 1). set (w := be16 d 3). set (c := znth d 5 0).
  assert (Hbits : 0 <= bits < 256) by (apply bytes_znth; auto).
  assert (Hh : 0 <= h <= 65535) by (apply be16_bound; auto).
  assert (Hw : 0 <= w <= 65535) by (apply be16_bound; auto).
  destruct (zlen d <? 6) eqn:E6; [apply good_err|].
  destruct (negb (js_w st =? 0) || negb (js_h st =? 0)) eqn:Efr; [apply good_err|].
  destruct ((w <=? 0) || (h <=? 0)) eqn:Ewh; [apply good_err|].
  destruct (negb ((c =? 1) || (c =? 3))) eqn:Ec; [apply good_err|].
  assert (Hc : 0 <= c <= 3).
  { apply negb_false_iff in Ec. apply orb_true_iff in Ec. destruct Ec as [E|E]; apply Z.eqb_eq in E; lia. }
  destruct ((bits <? 2) || (16 <? bits)) eqn:Eb; [apply good_err|].
  apply orb_false_iff in Eb. destruct Eb as [Eb1 Eb2]. apply Z.ltb_ge in Eb1. apply Z.ltb_ge in Eb2.
  assert (Hmv : 0 <= i64 (shl1 bits - 1)) by (apply shl1_nonneg; lia).
  destruct (coding_params_ok (i64 (shl1 bits - 1)) 0 64 Hmv) as [p Hp]. rewrite Hp.
  eapply good_bind; [apply good_lift_ok with (a := p) (post := fun a => a = p); [reflexivity|reflexivity]|]. intros p' ->.
  eapply good_bind; [apply jlsl_init_good; simpl; exact Hmv|].
  intros st2 (A1 & A2 & A3 & A4). simpl in A1, A2, A3, A4.
  apply orb_false_iff in Ewh. destruct Ewh as [E1 E2]. apply Z.leb_gt in E1. apply Z.leb_gt in E2.
  apply good_ret. unfold postR, Inv, frameless, frameS; cbn [fst snd]. rewrite A1, A2, A3, A4.
  split; [repeat split; auto; lia|]. split.
  { apply orb_false_iff in Efr. destruct Efr as [F1 F2]. apply negb_false_iff in F1. apply negb_false_iff in F2. rewrite F1, F2. reflexivity. }
  split.
  { destruct (Z.eqb_spec w 0); [lia|]. reflexivity. }
  rewrite <- Ed. unfold sof_S. rewrite E6. reflexivity.
Qed.

Lemma jlsl_lse_good : forall st bs, bytes bs -> Inv st ->
  good true 65536 (fun x => postR bs x /\ sameFrame st (fst x)) (jlsl_parse_lse st bs).
Proof.
  intros st bs Hb (I1 & I2 & I3 & I4). unfold jlsl_parse_lse. rseg Hb.
  intros [d rest] (Hd & Hrest & Hdl & Hlen & Ed & Er). cbn [fst snd] in *.
  destruct (zlen d <? 1); [apply good_err|].
  destruct (znth d 0 0 =? 1).
  - destruct (zlen d <? 11); [apply good_err|].
    pose proof (be16_bound d 1 Hd) as Hmv.
    eapply good_bind.
    { apply jlsl_init_good. simpl. destruct (Z.leb_spec (be16 d 1) 0); lia. }
    intros st2 (A1 & A2 & A3 & A4). simpl in A1, A2, A3, A4.
    apply good_ret. unfold postR, Inv, sameFrame; cbn [fst snd]. rewrite A1, A2, A3, A4.
    repeat split; auto; try lia. destruct (Z.leb_spec (be16 d 1) 0); lia.
  - apply good_ret. unfold postR, Inv, sameFrame; cbn [fst snd]. repeat split; auto; lia.
Qed.

Lemma jlsl_sos_good : forall st bs, bytes bs -> Inv st ->
  good true 65536 (fun x => postR bs x /\ sameFrame st (fst x) /\ js_bits (fst x) = js_bits st) (jlsl_parse_sos st bs).
Proof.
  intros st bs Hb (I1 & I2 & I3 & I4). unfold jlsl_parse_sos. rseg Hb.
  intros [d rest] (Hd & Hrest & Hdl & Hlen & Ed & Er). cbn [fst snd] in *.
  destruct (Z.ltb_spec (zlen d) 4); [apply good_err|].
  destruct (negb (znth d 0 0 =? js_c st)); [apply good_err|].
  eapply good_bind; [apply good_idx; lia|]. intros ilv _.
  destruct ((js_c st =? 1) && negb (ilv =? 0)); [apply good_err|].
  destruct ((1 <? js_c st) && negb (ilv =? 2)); [apply good_err|].
  apply good_ret. unfold postR, Inv, sameFrame; simpl. repeat split; auto; lia.
Qed.

Lemma jls_scan_allocs_good : forall st rest, 0 <= js_w st <= 65535 -> 0 <= js_h st <= 65535 -> 0 <= js_c st <= 3 ->
  good true (8 * (js_w st * js_h st * js_c st) + 2 * zlen rest + 65536) (fun _ => True) (jls_scan_allocs st rest).
Proof.
  intros st rest I2 I3 I4. unfold jls_scan_allocs.
  pose proof (zlen_nonneg rest).
  assert (Hwh : 0 <= js_w st * js_h st <= 65535 * 65535)
    by (split; [apply Z.mul_nonneg_nonneg; lia | apply Z.mul_le_mono_nonneg; lia]).
  assert (0 <= js_w st * js_h st * js_c st <= 65535 * 65535 * 3)
    by (split; [apply Z.mul_nonneg_nonneg; lia | apply Z.mul_le_mono_nonneg; lia]).
  eapply good_bind; [apply good_note with (post := fun _ => True); [lia|exact I]|]. intros _ _.
  eapply good_bind; [apply good_alloc with (post := fun _ => True); [lia|rewrite maxAlloc_val; lia|lia|exact I]|]. intros _ _.
  destruct (js_bits st <=? 8); (apply good_alloc; [lia|rewrite maxAlloc_val; lia|lia|exact I]).
Qed.

Lemma frame_S_nonneg : forall fuel bs, bytes bs -> 0 <= frame_S fuel bs.
Proof.
  induction fuel as [|k IH]; intros bs Hb; cbn [frame_S]; [lia|].
  destruct (read_marker bs) as [[mk r]| | |] eqn:EM; try lia.
  destruct (read_marker_ok _ _ _ EM) as [_ Hbb]. destruct (Hbb Hb) as [Hr _].
  destruct (is_sof mk).
  { apply sof_S_nonneg. unfold seg_data. destruct r as [|a [|b r']]; try constructor.
    inversion Hr as [|? ? ? Hr']; subst. inversion Hr'; subst. apply bytes_firstn; auto. }
  destruct ((mk =? 218) || (mk =? 217)); [lia|].
  destruct (has_length mk); [|apply IH; auto].
  apply IH. unfold seg_rest. destruct r as [|a [|b r']]; try constructor.
  inversion Hr as [|? ? ? Hr']; subst. inversion Hr'; subst. apply bytes_skipn; auto.
Qed.

(* ---------- the marker loop ---------- *)
Lemma jlsl_loop_good : forall fuel st bs Sx, bytes bs -> Inv st -> (length bs < fuel)%nat -> 0 <= Sx ->
  (frameless st = true -> frame_S fuel bs <= Sx) -> (frameless st = false -> frameS st <= Sx) ->
  aloopP Sx 8 bs (jlsl_loop fuel st bs).
Proof.
  induction fuel as [|k IH]; intros st bs Sx Hb HI Hf HS H1 H2; [lia|].
  assert (HfS : frameS st <= Sx).
  { destruct (frameless st) eqn:E; [rewrite (frameless_S st E); exact HS|apply H2; reflexivity]. }
  cbn [jlsl_loop]. cbn [frame_S] in H1.
  destruct (read_marker bs) as [[m r]| | |] eqn:EM; try apply aloopP_err.
  destruct (read_marker_ok _ _ _ EM) as [Hl Hbb]. destruct (Hbb Hb) as [Hr Hm].
  assert (Hzl : zlen r <= zlen bs) by (unfold zlen; lia).
  pose proof (zlen_nonneg bs) as Hz0.
  destruct (m =? 247) eqn:E247.
  { assert (Hs : is_sof m = true) by (apply Z.eqb_eq in E247; subst m; reflexivity). rewrite Hs in H1.
    eapply aloopP_bind; [apply jlsl_sof55_good; exact Hr|nia|].
    intros [st' rest] ((P1 & P2 & P3 & P4) & F0 & F1 & F2). cbn [fst snd] in *.
    eapply aloopP_mono with (S' := Sx) (bs' := rest); [lia|lia|unfold zlen; lia|].
    apply IH; auto; [lia| |].
    - intros C. rewrite F1 in C. discriminate.
    - intros _. rewrite F2. apply H1. exact F0. }
  destruct (m =? 248) eqn:E248.
  { eapply aloopP_bind; [apply jlsl_lse_good; auto|nia|].
    intros [st' rest] ((P1 & P2 & P3 & P4) & (A2 & A3 & A4)). cbn [fst snd] in *.
    assert (Hfl : frameless st' = frameless st) by (unfold frameless; rewrite A2, A3; reflexivity).
    eapply aloopP_mono with (S' := Sx) (bs' := rest); [lia|lia|unfold zlen; lia|].
    apply IH; auto; [lia| |].
    - rewrite Hfl. intros C. specialize (H1 C). rewrite P4.
      assert (E1 : (248 =? 218) || (248 =? 217) = false) by reflexivity.
      apply Z.eqb_eq in E248. subst m. cbn in H1. exact H1.
    - rewrite Hfl. intros C. unfold frameS. rewrite A2, A3, A4. apply H2; exact C. }
  destruct (m =? 218) eqn:E218.
  { eapply aloopP_bind; [apply jlsl_sos_good; auto|nia|].
    intros [st' rest] ((P1 & P2 & P3 & P4) & (A2 & A3 & A4) & A5). cbn [fst snd] in *.
    destruct HI as (I1 & I2 & I3 & I4).
    pose proof (jls_scan_allocs_good st' rest ltac:(lia) ltac:(lia) ltac:(lia)) as G.
    eapply aloopP_bind; [exact G| |intros _ _; apply aloopP_ret].
    unfold frameS in HfS. rewrite A2, A3, A4. assert (zlen rest <= zlen bs) by (unfold zlen; lia). lia. }
  destruct (m =? 217) eqn:E217; [apply aloopP_err|].
  revert H1. destruct (is_sof m) eqn:ESOF; intros H1; [apply aloopP_err|].
  cbn [orb] in H1.
  destruct (has_length m) eqn:EL.
  { eapply aloopP_bind; [eapply good_weaken; [apply good_read_segment'; exact Hr|apply Z.le_refl|intros a Ha; exact Ha]|nia|].
    intros [d rest] (P1 & P2 & P3 & P4 & P5 & P6). cbn [fst snd] in *.
    eapply aloopP_mono with (S' := Sx) (bs' := rest); [lia|lia|unfold zlen; lia|].
    apply IH; auto; [lia|]. intros C. rewrite P6. apply H1. exact C. }
  eapply aloopP_mono with (S' := Sx) (bs' := r); [lia|lia|exact Hzl|].
  apply IH; auto. lia.
Qed.

Lemma jlsl_decode_aloopP : forall bs, bytes bs -> aloopP (frame_declared bs) 8 bs (jlsl_decode (fuel_of bs) bs).
Proof.
  intros bs Hb. unfold jlsl_decode, frame_declared.
  destruct (read_marker bs) as [[m r]| | |] eqn:EM; try apply aloopP_err.
  destruct (read_marker_ok _ _ _ EM) as [Hl Hbb]. destruct (Hbb Hb) as [Hr Hm].
  destruct (m =? 216); [|apply aloopP_err].
  eapply aloopP_mono with (S' := frame_S (fuel_of bs) r) (bs' := r); [lia|lia|unfold zlen; lia|].
  apply jlsl_loop_good; auto.
  - apply Inv0.
  - unfold fuel_of; lia.
  - apply frame_S_nonneg; auto.
  - intros _. lia.
  - intros C. discriminate.
Qed.

(* For every byte string: the lossless JPEG-LS header path does not panic (F36: the precision byte is
   validated; historical witness ff d8 ff f7 00 08 40 00 01 00 01 01 divided by zero) *)
Theorem jlsl_decode_no_panic : forall bs, bytes bs -> fst (jlsl_decode (fuel_of bs) bs) <> Panic.
Proof. intros bs Hb. apply (jlsl_decode_aloopP bs Hb). Qed.
Theorem jlsl_decode_fuel : forall bs, bytes bs -> fst (jlsl_decode (fuel_of bs) bs) <> OutOfFuel.
Proof. intros bs Hb. apply (jlsl_decode_aloopP bs Hb). Qed.
(* every allocation request is bounded by the size the (unique) SOF55 of the stream declares
   (F44: a second SOF55 is rejected; historical witness: SOF55 1x1 followed by SOF55 65535x65535) *)
Theorem jlsl_decode_alloc : forall bs, bytes bs ->
  Forall (fun a => a <= 8 * frame_declared bs + 2 * zlen bs + 65536) (snd (jlsl_decode (fuel_of bs) bs)).
Proof. intros bs Hb. apply (jlsl_decode_aloopP bs Hb). Qed.

(* ================= near-lossless decoder ================= *)
Lemma jlsn_sof55_good : forall st bs, bytes bs ->
  good true 65536 (fun x => postR bs x /\ frameless st = true /\ frameless (fst x) = false /\ frameS (fst x) = sof_S (seg_data bs))
       (jlsn_parse_sof55 st bs).
Proof.
  intros st bs Hb. unfold jlsn_parse_sof55. rseg Hb.
  intros [d rest] (Hd & Hrest & Hdl & Hlen & Ed & Er). cbn [fst snd] in *.
  set (bits := znth d 0 0). set (h := be16 d 1). set (w := be16 d 3). set (c := znth d 5 0).
  assert (Hbits : 0 <= bits < 256) by (apply bytes_znth; auto).
  assert (Hh : 0 <= h <= 65535) by (apply be16_bound; auto).
  assert (Hw : 0 <= w <= 65535) by (apply be16_bound; auto).
  destruct (zlen d <? 6) eqn:E6; [apply good_err|].
  destruct (negb (js_w st =? 0) || negb (js_h st =? 0)) eqn:Efr; [apply good_err|].
  destruct ((w <=? 0) || (h <=? 0)) eqn:Ewh; [apply good_err|].
  destruct (negb ((c =? 1) || (c =? 3))) eqn:Ec; [apply good_err|].
  assert (Hc : 0 <= c <= 3).
  { apply negb_false_iff in Ec. apply orb_true_iff in Ec. destruct Ec as [E|E]; apply Z.eqb_eq in E; lia. }
  destruct ((bits <? 2) || (16 <? bits)) eqn:Eb; [apply good_err|].
  apply orb_false_iff in Eb. destruct Eb as [Eb1 Eb2]. apply Z.ltb_ge in Eb1. apply Z.ltb_ge in Eb2.
  assert (Hmv : 0 <= i64 (shl1 bits - 1)) by (apply shl1_nonneg; lia).
  apply orb_false_iff in Ewh. destruct Ewh as [E1 E2]. apply Z.leb_gt in E1. apply Z.leb_gt in E2.
  apply good_ret. unfold postR, Inv, frameless, frameS; cbn [fst snd js_w js_h js_c js_maxval].
  split; [repeat split; auto; lia|]. split.
  { apply orb_false_iff in Efr. destruct Efr as [F1 F2]. apply negb_false_iff in F1. apply negb_false_iff in F2. rewrite F1, F2. reflexivity. }
  split.
  { destruct (Z.eqb_spec w 0); [lia|]. reflexivity. }
  rewrite <- Ed. unfold sof_S. rewrite E6. reflexivity.
Qed.

Lemma jlsn_lse_good : forall st bs, bytes bs -> Inv st ->
  good true 65536 (fun x => postR bs x /\ sameFrame st (fst x)) (jlsn_parse_lse st bs).
Proof.
  intros st bs Hb (I1 & I2 & I3 & I4). unfold jlsn_parse_lse. rseg Hb.
  intros [d rest] (Hd & Hrest & Hdl & Hlen & Ed & Er). cbn [fst snd] in *.
  destruct (zlen d <? 1); [apply good_err|].
  pose proof (be16_bound d 1 Hd) as Hmv.
  destruct ((znth d 0 0 =? 1) && (11 <=? zlen d)).
  - apply good_ret. unfold postR, Inv, sameFrame; cbn [fst snd js_w js_h js_c js_maxval]. repeat split; auto; try lia.
    destruct (Z.ltb_spec 0 (be16 d 1)); lia.
  - apply good_ret. unfold postR, Inv, sameFrame; cbn [fst snd]. repeat split; auto; lia.
Qed.

Lemma jlsn_apply_good : forall st, Inv st ->
  good true 65536 (fun st' => Inv st' /\ sameFrame st st' /\ js_bits st' = js_bits st) (jlsn_apply st).
Proof.
  intros st (I1 & I2 & I3 & I4). unfold jlsn_apply.
  set (reset := if 0 <? js_reset st then js_reset st else 64).
  destruct (coding_params_ok (js_maxval st) (js_near st) reset I1) as [p Hp]. rewrite Hp.
  eapply good_bind; [apply good_lift_ok with (a := p) (post := fun a => a = p); reflexivity|]. intros p' ->.
  destruct (coding_params_ok (js_maxval st) (js_near st) (jp_reset p) I1) as [p2 Hp2]. rewrite Hp2.
  eapply good_bind; [apply good_lift_ok with (a := p2) (post := fun a => a = p2); reflexivity|]. intros p2' ->.
  rewrite ctx_alloc_val.
  eapply good_bind with (pa := fun _ => True).
  { unfold good; cbn [fst snd]. split; [discriminate|]. split; [discriminate|]. split; [repeat constructor; lia|auto]. }
  intros _ _. apply good_ret. unfold Inv, sameFrame; cbn [js_w js_h js_c js_maxval js_bits]. repeat split; auto; lia.
Qed.

Lemma jlsn_sos_good : forall st bs, bytes bs -> Inv st ->
  good true 65536 (fun x => postR bs x /\ sameFrame st (fst x) /\ js_bits (fst x) = js_bits st) (jlsn_parse_sos st bs).
Proof.
  intros st bs Hb (I1 & I2 & I3 & I4). unfold jlsn_parse_sos. rseg Hb.
  intros [d rest] (Hd & Hrest & Hdl & Hlen & Ed & Er). cbn [fst snd] in *.
  destruct (Z.ltb_spec (zlen d) 4); [apply good_err|].
  destruct (negb (znth d 0 0 =? js_c st)); [apply good_err|].
  eapply good_bind; [apply good_idx; lia|]. intros near _.
  eapply good_bind; [apply good_idx; lia|]. intros ilv _.
  destruct ((js_c st =? 1) && negb (ilv =? 0)); [apply good_err|].
  destruct ((1 <? js_c st) && negb (ilv =? 2)); [apply good_err|].
  eapply good_bind.
  { apply jlsn_apply_good. unfold Inv; cbn [js_w js_h js_c js_maxval]. repeat split; auto; lia. }
  intros st2 (J & (A2 & A3 & A4) & A5). cbn [js_w js_h js_c js_bits] in *.
  destruct J as (J1 & J2 & J3 & J4).
  apply good_ret. unfold postR, sameFrame, Inv; cbn [fst snd]. repeat split; auto; lia.
Qed.

Lemma jlsn_loop_good : forall fuel st bs Sx, bytes bs -> Inv st -> (length bs < fuel)%nat -> 0 <= Sx ->
  (frameless st = true -> frame_S fuel bs <= Sx) -> (frameless st = false -> frameS st <= Sx) ->
  aloopP Sx 8 bs (jlsn_loop fuel st bs).
Proof.
  induction fuel as [|k IH]; intros st bs Sx Hb HI Hf HS H1 H2; [lia|].
  assert (HfS : frameS st <= Sx).
  { destruct (frameless st) eqn:E; [rewrite (frameless_S st E); exact HS|apply H2; reflexivity]. }
  cbn [jlsn_loop]. cbn [frame_S] in H1.
  destruct (read_marker bs) as [[m r]| | |] eqn:EM; try apply aloopP_err.
  destruct (read_marker_ok _ _ _ EM) as [Hl Hbb]. destruct (Hbb Hb) as [Hr Hm].
  assert (Hzl : zlen r <= zlen bs) by (unfold zlen; lia).
  pose proof (zlen_nonneg bs) as Hz0.
  destruct (m =? 247) eqn:E247.
  { assert (Hs : is_sof m = true) by (apply Z.eqb_eq in E247; subst m; reflexivity). rewrite Hs in H1.
    eapply aloopP_bind; [apply jlsn_sof55_good; exact Hr|nia|].
    intros [st' rest] ((P1 & P2 & P3 & P4) & F0 & F1 & F2). cbn [fst snd] in *.
    eapply aloopP_mono with (S' := Sx) (bs' := rest); [lia|lia|unfold zlen; lia|].
    apply IH; auto; [lia| |].
    - intros C. rewrite F1 in C. discriminate.
    - intros _. rewrite F2. apply H1. exact F0. }
  destruct (m =? 248) eqn:E248.
  { eapply aloopP_bind; [apply jlsn_lse_good; auto|nia|].
    intros [st' rest] ((P1 & P2 & P3 & P4) & (A2 & A3 & A4)). cbn [fst snd] in *.
    assert (Hfl : frameless st' = frameless st) by (unfold frameless; rewrite A2, A3; reflexivity).
    eapply aloopP_mono with (S' := Sx) (bs' := rest); [lia|lia|unfold zlen; lia|].
    apply IH; auto; [lia| |].
    - rewrite Hfl. intros C. specialize (H1 C). rewrite P4.
      apply Z.eqb_eq in E248. subst m. cbn in H1. exact H1.
    - rewrite Hfl. intros C. unfold frameS. rewrite A2, A3, A4. apply H2; exact C. }
  destruct (m =? 218) eqn:E218.
  { eapply aloopP_bind; [apply jlsn_sos_good; auto|nia|].
    intros [st' rest] ((P1 & P2 & P3 & P4) & (A2 & A3 & A4) & A5). cbn [fst snd] in *.
    destruct HI as (I1 & I2 & I3 & I4).
    pose proof (jls_scan_allocs_good st' rest ltac:(lia) ltac:(lia) ltac:(lia)) as G.
    eapply aloopP_bind; [exact G| |intros _ _; apply aloopP_ret].
    unfold frameS in HfS. rewrite A2, A3, A4. assert (zlen rest <= zlen bs) by (unfold zlen; lia). lia. }
  destruct (m =? 217) eqn:E217; [apply aloopP_err|].
  revert H1. destruct (is_sof m) eqn:ESOF; intros H1; [apply aloopP_err|].
  cbn [orb] in H1.
  destruct (has_length m) eqn:EL.
  { eapply aloopP_bind; [eapply good_weaken; [apply good_read_segment'; exact Hr|apply Z.le_refl|intros a Ha; exact Ha]|nia|].
    intros [d rest] (P1 & P2 & P3 & P4 & P5 & P6). cbn [fst snd] in *.
    eapply aloopP_mono with (S' := Sx) (bs' := rest); [lia|lia|unfold zlen; lia|].
    apply IH; auto; [lia|]. intros C. rewrite P6. apply H1. exact C. }
  eapply aloopP_mono with (S' := Sx) (bs' := r); [lia|lia|exact Hzl|].
  apply IH; auto. lia.
Qed.

Lemma jlsn_decode_aloopP : forall bs, bytes bs -> aloopP (frame_declared bs) 8 bs (jlsn_decode (fuel_of bs) bs).
Proof.
  intros bs Hb. unfold jlsn_decode, frame_declared.
  destruct (read_marker bs) as [[m r]| | |] eqn:EM; try apply aloopP_err.
  destruct (read_marker_ok _ _ _ EM) as [Hl Hbb]. destruct (Hbb Hb) as [Hr Hm].
  destruct (m =? 216); [|apply aloopP_err].
  eapply aloopP_mono with (S' := frame_S (fuel_of bs) r) (bs' := r); [lia|lia|unfold zlen; lia|].
  apply jlsn_loop_good; auto.
  - apply Inv0.
  - unfold fuel_of; lia.
  - apply frame_S_nonneg; auto.
  - intros _. lia.
  - intros C. discriminate.
Qed.

Theorem jlsn_decode_no_panic : forall bs, bytes bs -> fst (jlsn_decode (fuel_of bs) bs) <> Panic.
Proof. intros bs Hb. apply (jlsn_decode_aloopP bs Hb). Qed.
Theorem jlsn_decode_fuel : forall bs, bytes bs -> fst (jlsn_decode (fuel_of bs) bs) <> OutOfFuel.
Proof. intros bs Hb. apply (jlsn_decode_aloopP bs Hb). Qed.
Theorem jlsn_decode_alloc : forall bs, bytes bs ->
  Forall (fun a => a <= 8 * frame_declared bs + 2 * zlen bs + 65536) (snd (jlsn_decode (fuel_of bs) bs)).
Proof. intros bs Hb. apply (jlsn_decode_aloopP bs Hb). Qed.
