(* Parsers: theorems about the JPEG-LS header models (PrsJls.v). *)
From V Require Import Common.Base Parsers.PrsOutcome Parsers.PrsJls Parsers.PrsProofsBase.

Lemma i64_id : forall x, - 2 ^ 63 <= x < 2 ^ 63 -> i64 x = x.
Proof.
  intros x Hx. unfold i64, wrapS. change (64 - 1) with 63.
  assert (Hp : 2 ^ 64 = 2 * 2 ^ 63) by reflexivity.
  destruct (Z_lt_le_dec x 0) as [Hneg|Hpos].
  - assert (Hm : x mod 2 ^ 64 = x + 2 ^ 64).
    { symmetry. apply Z.mod_unique with (q := -1); lia. }
    rewrite Hm. destruct (Z.ltb_spec (x + 2 ^ 64) (2 ^ 63)); lia.
  - rewrite Z.mod_small by lia. destruct (Z.ltb_spec x (2 ^ 63)); lia.
Qed.

(* ---------- parameter derivation ---------- *)

Lemma thresholds_ok : forall mv near, 0 <= mv -> exists t, jls_compute_thresholds mv near = Ok t.
Proof.
  intros mv near Hmv. unfold jls_compute_thresholds.
  destruct (Z.leb_spec 128 mv); [eexists; reflexivity|].
  rewrite i64_id by (change (2 ^ 63) with 9223372036854775808; lia).
  destruct (Z.eqb_spec (mv + 1) 0); [lia|].
  assert (Hq : 2 <= Z.quot 256 (mv + 1)).
  { rewrite Z.quot_div_nonneg by lia. apply Z.div_le_lower_bound; lia. }
  destruct (Z.eqb_spec (Z.quot 256 (mv + 1)) 0); [lia|]. eexists; reflexivity.
Qed.

Lemma thresholds_never : forall mv near,
  jls_compute_thresholds mv near <> Err /\ jls_compute_thresholds mv near <> OutOfFuel.
Proof.
  intros. unfold jls_compute_thresholds.
  destruct (128 <=? mv); [split; congruence|].
  destruct (i64 (mv + 1) =? 0); [split; congruence|].
  destruct (Z.quot 256 (i64 (mv + 1)) =? 0); split; congruence.
Qed.

Lemma coding_params_ok : forall mv near reset, 0 <= mv -> exists p, jls_coding_params mv near reset = Ok p.
Proof.
  intros. unfold jls_coding_params. destruct (thresholds_ok mv near H) as [[[t1 t2] t3] ->]. eexists; reflexivity.
Qed.
Lemma coding_params_nf : forall mv near reset, jls_coding_params mv near reset <> OutOfFuel.
Proof.
  intros. unfold jls_coding_params. destruct (thresholds_never mv near) as [_ H].
  destruct (jls_compute_thresholds mv near) as [[[t1 t2] t3]| | |]; congruence.
Qed.

(* the defect: precision >= 64 gives maxVal = -1 and 256/(maxVal+1) *)
Lemma coding_params_panics : forall bits near reset, 64 <= bits ->
  jls_coding_params (i64 (shl1 bits - 1)) near reset = Panic.
Proof.
  intros. unfold shl1. destruct (Z.leb_spec 64 bits); [|lia]. reflexivity.
Qed.

Lemma shl1_range_b : forallb (fun b => 0 <=? i64 (shl1 b - 1)) (map Z.of_nat (seq 0 64)) = true.
Proof. vm_compute. reflexivity. Qed.
Lemma shl1_nonneg : forall b, 0 <= b < 64 -> 0 <= i64 (shl1 b - 1).
Proof.
  intros b Hb. pose proof shl1_range_b as H. rewrite forallb_forall in H.
  apply Z.leb_le. apply H. apply in_map_iff. exists (Z.to_nat b). split; [lia|]. apply in_seq. lia.
Qed.

(* ---------- state invariant ---------- *)
Definition Inv (st : jls_st) : Prop :=
  0 <= js_maxval st /\ 0 <= js_w st <= 65535 /\ 0 <= js_h st <= 65535 /\ 0 <= js_c st <= 3.

Lemma Inv0 : Inv jls_st0. Proof. unfold Inv, jls_st0; simpl; lia. Qed.

Definition small (a : Z) : Prop := a <= 65536.

Lemma ctx_alloc_val : jls_ctx_alloc = (Ok tt, [14600]).
Proof. reflexivity. Qed.

Lemma be16_bound : forall d o, bytes d -> 0 <= be16 d o <= 65535.
Proof. intros. unfold be16. pose proof (bytes_znth d o H). pose proof (bytes_znth d (o + 1) H). lia. Qed.

Lemma small_14600 : Forall small [14600].
Proof. repeat constructor. unfold small; lia. Qed.

(* jlsl_init keeps geometry and maxVal *)
Lemma jlsl_init_spec : forall st t1 t2 t3, 0 <= js_maxval st ->
  exists st', jlsl_init st t1 t2 t3 = (Ok st', [14600]) /\
     js_maxval st' = js_maxval st /\ js_w st' = js_w st /\ js_h st' = js_h st /\ js_c st' = js_c st /\ js_bits st' = js_bits st.
Proof.
  intros st t1 t2 t3 Hmv. unfold jlsl_init.
  destruct (coding_params_ok (js_maxval st) 0 (js_reset st) Hmv) as [p Hp]. rewrite Hp.
  destruct (coding_params_ok (js_maxval st) 0 (jp_reset p) Hmv) as [p2 Hp2].
  unfold lift at 1. unfold bind at 1. cbn [fst snd app].
  rewrite Hp2. unfold lift at 1. unfold bind at 1. cbn [fst snd app].
  rewrite ctx_alloc_val. unfold bind at 1. cbn [fst snd app].
  destruct ((t1 =? 0) || (t2 =? 0) || (t3 =? 0)); cbn; eexists; (split; [reflexivity|]); simpl; auto.
Qed.

(* post-condition of the header functions: state invariant, remaining input *)
Definition postP (bs : list Z) (x : jls_st * list Z) : Prop :=
  Inv (fst x) /\ bytes (snd x) /\ (length (snd x) <= length bs)%nat.

Lemma jlsl_init_good : forall g st t1 t2 t3, 0 <= js_maxval st ->
  good g 65536 (fun st' => js_maxval st' = js_maxval st /\ js_w st' = js_w st /\ js_h st' = js_h st /\ js_c st' = js_c st)
       (jlsl_init st t1 t2 t3).
Proof.
  intros g st t1 t2 t3 H. destruct (jlsl_init_spec st t1 t2 t3 H) as (st' & E & A1 & A2 & A3 & A4 & A5).
  rewrite E. unfold good; simpl. split; [congruence|]. split; [congruence|]. split; [repeat constructor; lia|].
  intros a Ha; inversion Ha; subst; auto.
Qed.

(* parseSOF55 (lossless decoder) *)
Lemma jlsl_sof55_good : forall g st bs, bytes bs -> good g 65536 (postP bs) (jlsl_parse_sof55 g st bs).
Proof.
  intros g st bs Hb. unfold jlsl_parse_sof55.
  eapply good_bind.
  { eapply good_weaken; [apply good_read_segment; exact Hb|lia|intros a Ha; exact Ha]. }
  intros [d rest] (Hd & Hrest & Hdl & Hlen). cbn [fst snd] in *.
  set (bits := znth d 0 0). set (h := be16 d 1). set (w := be16 d 3). set (c := znth d 5 0).
  assert (Hbits : 0 <= bits < 256) by (apply bytes_znth; auto).
  assert (Hh : 0 <= h <= 65535) by (apply be16_bound; auto).
  assert (Hw : 0 <= w <= 65535) by (apply be16_bound; auto).
  destruct (zlen d <? 6); [apply good_err|].
  destruct ((w <=? 0) || (h <=? 0)) eqn:Ewh; [apply good_err|].
  destruct (negb ((c =? 1) || (c =? 3))) eqn:Ec; [apply good_err|].
  assert (Hc : 0 <= c <= 3).
  { apply negb_false_iff in Ec. apply orb_true_iff in Ec. destruct Ec as [E|E]; apply Z.eqb_eq in E; lia. }
  destruct (Z.leb_spec 64 bits) as [Hge|Hlt].
  - (* precision >= 64: rejected by the proposed check, a panic in the code as it stands *)
    destruct g; cbn [andb]; [apply good_err|].
    rewrite coding_params_panics by lia. unfold lift. unfold bind; simpl.
    unfold good; simpl. split; [congruence|]. split; [congruence|]. split; [constructor|]. intros; discriminate.
  - rewrite andb_false_r.
    assert (Hmv : 0 <= i64 (shl1 bits - 1)) by (apply shl1_nonneg; lia).
    destruct (coding_params_ok (i64 (shl1 bits - 1)) 0 64 Hmv) as [p Hp]. rewrite Hp.
    eapply good_bind; [apply good_lift_ok with (a := p) (post := fun a => a = p); [reflexivity|reflexivity]|]. intros p' ->.
    eapply good_bind; [apply jlsl_init_good; simpl; exact Hmv|].
    intros st2 (A1 & A2 & A3 & A4). simpl in A1, A2, A3, A4.
    apply good_ret. unfold postP, Inv; simpl. rewrite A1, A2, A3, A4.
    apply orb_false_iff in Ewh. destruct Ewh as [E1 E2]. apply Z.leb_gt in E1. apply Z.leb_gt in E2.
    repeat split; auto; lia.
Qed.

Lemma jlsl_lse_good : forall g st bs, bytes bs -> Inv st -> good g 65536 (postP bs) (jlsl_parse_lse st bs).
Proof.
  intros g st bs Hb (I1 & I2 & I3 & I4). unfold jlsl_parse_lse.
  eapply good_bind.
  { eapply good_weaken; [apply good_read_segment; exact Hb|lia|intros a Ha; exact Ha]. }
  intros [d rest] (Hd & Hrest & Hdl & Hlen). cbn [fst snd] in *.
  destruct (zlen d <? 1); [apply good_err|].
  destruct (znth d 0 0 =? 1).
  - destruct (zlen d <? 11); [apply good_err|].
    pose proof (be16_bound d 1 Hd) as Hmv.
    eapply good_bind.
    { apply jlsl_init_good. simpl. destruct (Z.leb_spec (be16 d 1) 0); lia. }
    intros st2 (A1 & A2 & A3 & A4). simpl in A1, A2, A3, A4.
    apply good_ret. unfold postP, Inv; simpl. rewrite A1, A2, A3, A4.
    repeat split; auto; try lia. destruct (Z.leb_spec (be16 d 1) 0); lia.
  - apply good_ret. unfold postP, Inv; simpl. repeat split; auto; lia.
Qed.

Lemma jlsl_sos_good : forall g st bs, bytes bs -> Inv st -> good g 65536 (postP bs) (jlsl_parse_sos st bs).
Proof.
  intros g st bs Hb (I1 & I2 & I3 & I4). unfold jlsl_parse_sos.
  eapply good_bind.
  { eapply good_weaken; [apply good_read_segment; exact Hb|lia|intros a Ha; exact Ha]. }
  intros [d rest] (Hd & Hrest & Hdl & Hlen). cbn [fst snd] in *.
  destruct (Z.ltb_spec (zlen d) 4); [apply good_err|].
  destruct (negb (znth d 0 0 =? js_c st)); [apply good_err|].
  eapply good_bind; [apply good_idx; lia|]. intros ilv _.
  destruct ((js_c st =? 1) && negb (ilv =? 0)); [apply good_err|].
  destruct ((1 <? js_c st) && negb (ilv =? 2)); [apply good_err|].
  apply good_ret. unfold postP, Inv; simpl. repeat split; auto; lia.
Qed.

Definition S_hdr (x : jls_hdr) : Z := let '(w, h, c, _, _) := x in w * h * c.

Lemma jls_scan_allocs_good : forall g st rest, Inv st ->
  good g (8 * (js_w st * js_h st * js_c st) + 2 * zlen rest + 65536) (fun _ => True) (jls_scan_allocs st rest).
Proof.
  intros g st rest (I1 & I2 & I3 & I4). unfold jls_scan_allocs.
  pose proof (zlen_nonneg rest).
  assert (Hwh : 0 <= js_w st * js_h st <= 65535 * 65535)
    by (split; [apply Z.mul_nonneg_nonneg; lia | apply Z.mul_le_mono_nonneg; lia]).
  assert (0 <= js_w st * js_h st * js_c st <= 65535 * 65535 * 3)
    by (split; [apply Z.mul_nonneg_nonneg; lia | apply Z.mul_le_mono_nonneg; lia]).
  eapply good_bind; [apply good_note with (post := fun _ => True); [lia|exact I]|]. intros _ _.
  eapply good_bind; [apply good_alloc with (post := fun _ => True); [lia|rewrite maxAlloc_val; lia|lia|exact I]|]. intros _ _.
  destruct (js_bits st <=? 8); (apply good_alloc; [lia|rewrite maxAlloc_val; lia|lia|exact I]).
Qed.

(* ---------- the marker loop ---------- *)
Definition loopP (g : bool) (bs : list Z) (m : M jls_hdr) : Prop :=
  (g = true -> fst m <> Panic) /\ fst m <> OutOfFuel /\ bounded S_hdr 8 (2 * zlen bs + 65536) m.

Lemma loopP_err : forall g bs, loopP g bs err.
Proof. intros. unfold loopP, bounded; simpl. split; [congruence|]. split; [congruence|constructor]. Qed.

Lemma loopP_mono : forall g bs bs' m, zlen bs' <= zlen bs -> loopP g bs' m -> loopP g bs m.
Proof.
  intros g bs bs' m H (A & B & C). split; [exact A|]. split; [exact B|].
  eapply bounded_weaken; [|exact C]. lia.
Qed.

(* a header function (small requests) followed by a continuation *)
Lemma loopP_bind : forall {A} g bs (pa : A -> Prop) (pf : M A) (f : A -> M jls_hdr),
  good g 65536 pa pf -> (forall a, pa a -> loopP g bs (f a)) -> loopP g bs (bind pf f).
Proof.
  intros A g bs pa pf f (G1 & G2 & G3 & G4) Hf.
  assert (Hsm : Forall (fun a => a <= 2 * zlen bs + 65536) (snd pf)).
  { eapply Forall_impl; [|exact G3]. cbv beta; intros. pose proof (zlen_nonneg bs). lia. }
  split; [|split].
  - intros Hg. destruct pf as [[a| | |] l]; unfold bind; cbn [fst snd] in *; try congruence;
      try (exfalso; apply (G1 Hg); reflexivity).
    apply (Hf a (G4 a eq_refl)); auto.
  - destruct pf as [[a| | |] l]; unfold bind; cbn [fst snd] in *; try congruence;
      try (exfalso; apply G2; reflexivity).
    apply (Hf a (G4 a eq_refl)).
  - apply bounded_bind_small; [lia|exact Hsm|]. intros a l E. rewrite E in G4. apply (Hf a (G4 a eq_refl)).
Qed.

Lemma jlsl_loop_good : forall g fuel st bs, bytes bs -> Inv st -> (length bs < fuel)%nat ->
  loopP g bs (jlsl_loop g fuel st bs).
Proof.
  intros g fuel. induction fuel as [|k IH]; intros st bs Hb HI Hf; [lia|].
  cbn [jlsl_loop].
  destruct (read_marker bs) as [[m r]| | |] eqn:EM; try apply loopP_err.
  destruct (read_marker_ok _ _ _ EM) as [Hl Hbb]. destruct (Hbb Hb) as [Hr Hm].
  assert (Hzl : zlen r <= zlen bs) by (unfold zlen; lia).
  assert (Rec : forall x : jls_st * list Z, postP r x -> loopP g bs (jlsl_loop g k (fst x) (snd x))).
  { intros [st' rest] (P1 & P2 & P3). cbn [fst snd] in *.
    apply loopP_mono with (bs' := rest); [unfold zlen; lia|]. apply IH; auto. lia. }
  destruct (m =? 247).
  { eapply loopP_bind; [apply jlsl_sof55_good; exact Hr|exact Rec]. }
  destruct (m =? 248).
  { eapply loopP_bind; [apply jlsl_lse_good; auto|exact Rec]. }
  destruct (m =? 218).
  { eapply loopP_bind; [apply jlsl_sos_good; auto|].
    intros [st' rest] (P1 & P2 & P3). cbn [fst snd] in *.
    pose proof (jls_scan_allocs_good g st' rest P1) as (S1 & S2 & S3 & _).
    destruct P1 as (Q1 & Q2 & Q3 & Q4).
    destruct (jls_scan_allocs st' rest) as [[[]| | |] la] eqn:ES; cbn [fst snd] in S1, S2, S3;
      unfold bind, ret; cbn [fst snd]; unfold loopP; cbn [fst snd].
    - split; [congruence|]. split; [congruence|]. unfold bounded, Sres, S_hdr; cbn [fst snd]. rewrite app_nil_r.
      eapply Forall_impl; [|exact S3]. cbv beta. intros a Ha.
      assert (zlen rest <= zlen bs) by (unfold zlen; lia). lia.
    - exfalso.
      (* jls_scan_allocs never returns Err *)
      unfold jls_scan_allocs, note_alloc, alloc, bind in ES. cbn [fst snd] in ES.
      destruct ((js_w st' * js_h st' * js_c st' <? 0) || (maxAlloc <? js_w st' * js_h st' * js_c st' * 8)); cbn [fst snd] in ES; try discriminate.
      destruct ((js_w st' * js_h st' * js_c st' <? 0) || (maxAlloc <? js_w st' * js_h st' * js_c st' * (if js_bits st' <=? 8 then 1 else 2))); cbn [fst snd] in ES; discriminate.
    - exfalso. (* no panic: jls_scan_allocs_good with g := true *)
      pose proof (jls_scan_allocs_good true st' rest (conj Q1 (conj Q2 (conj Q3 Q4)))) as (T1 & _).
      rewrite ES in T1. cbn [fst] in T1. apply T1; reflexivity.
    - exfalso. apply S2; reflexivity. }
  destruct (m =? 217); [apply loopP_err|].
  destruct (has_length m).
  { eapply loopP_bind; [apply good_weaken with (B := 65533) (p := fun x => bytes (fst x) /\ bytes (snd x) /\ zlen (fst x) <= 65533 /\ (length (snd x) <= length r)%nat) (p' := fun x => bytes (snd x) /\ (length (snd x) <= length r)%nat);
      [apply good_read_segment; exact Hr|lia|tauto]|].
    intros [d rest] (P2 & P3). cbn [fst snd] in *.
    apply loopP_mono with (bs' := rest); [unfold zlen; lia|]. apply IH; auto. lia. }
  apply loopP_mono with (bs' := r); [exact Hzl|]. apply IH; auto. lia.
Qed.

(* ---------- theorems for jlsl_decode ---------- *)
Lemma jlsl_decode_loopP : forall g bs, bytes bs -> loopP g bs (jlsl_decode g (fuel_of bs) bs).
Proof.
  intros g bs Hb. unfold jlsl_decode.
  destruct (read_marker bs) as [[m r]| | |] eqn:EM; try apply loopP_err.
  destruct (read_marker_ok _ _ _ EM) as [Hl Hbb]. destruct (Hbb Hb) as [Hr Hm].
  destruct (m =? 216); [|apply loopP_err].
  apply loopP_mono with (bs' := r); [unfold zlen; lia|].
  apply jlsl_loop_good; auto; [apply Inv0|unfold fuel_of; lia].
Qed.

(* With the proposed check (precision >= 64 rejected) the lossless JPEG-LS header path never panics *)
Theorem jlsl_decode_no_panic : forall bs, bytes bs -> fst (jlsl_decode true (fuel_of bs) bs) <> Panic.
Proof. intros bs Hb. apply (jlsl_decode_loopP true bs Hb). reflexivity. Qed.

(* As the code stands it does: SOI, SOF55 with precision byte 64, 1x1, one component *)
Definition jls_panic_witness : list Z := [255; 216; 255; 247; 0; 8; 64; 0; 1; 0; 1; 1].
Theorem jlsl_decode_panics_refuted : exists bs, bytes bs /\ fst (jlsl_decode false (fuel_of bs) bs) = Panic.
Proof.
  exists jls_panic_witness. split; [|vm_compute; reflexivity].
  unfold bytes, jls_panic_witness. repeat constructor; lia.
Qed.

Theorem jlsl_decode_fuel : forall g bs, bytes bs -> fst (jlsl_decode g (fuel_of bs) bs) <> OutOfFuel.
Proof. intros g bs Hb. apply (jlsl_decode_loopP g bs Hb). Qed.

(* every allocation request is bounded by 8*S + 2*len + 65536 where S = w*h*c of the header
   the decoder hands to the entropy decoder (0 if it does not get that far) *)
Theorem jlsl_decode_alloc : forall g bs, bytes bs ->
  Forall (fun a => a <= 8 * Sres S_hdr (fst (jlsl_decode g (fuel_of bs) bs)) + 2 * zlen bs + 65536)
         (snd (jlsl_decode g (fuel_of bs) bs)).
Proof.
  intros g bs Hb. destruct (jlsl_decode_loopP g bs Hb) as (_ & _ & H).
  unfold bounded in H. eapply Forall_impl; [|exact H]. simpl; intros; lia.
Qed.

(* relative to the FIRST frame header of the stream (the C09 reading) the bound fails: a second
   SOF55 is accepted and replaces the first *)
Definition jls_two_sof_witness : list Z :=
  [255; 216; 255; 247; 0; 8; 8; 0; 1; 0; 1; 1;  255; 247; 0; 8; 8; 255; 255; 255; 255; 1;
   255; 218; 0; 8; 1; 1; 0; 0; 0; 0].
Theorem jlsl_alloc_first_header_refuted : exists bs, bytes bs /\ declared_S bs = 1 /\
  exists a, In a (snd (jlsl_decode true (fuel_of bs) bs)) /\ a > 8 * declared_S bs + 2 * zlen bs + 65536 /\ a = 8 * (65535 * 65535).
Proof.
  exists jls_two_sof_witness. split; [unfold bytes, jls_two_sof_witness; repeat constructor; lia|].
  split; [vm_compute; reflexivity|].
  exists (8 * (65535 * 65535)). split; [vm_compute; tauto|]. split; [vm_compute; reflexivity|reflexivity].
Qed.

(* ================= near-lossless decoder ================= *)

(* invariant of the near-lossless decoder: maxVal >= 0 is only guaranteed with the proposed check *)
Definition InvN (g : bool) (st : jls_st) : Prop :=
  (g = true -> 0 <= js_maxval st) /\ 0 <= js_w st <= 65535 /\ 0 <= js_h st <= 65535 /\ 0 <= js_c st <= 3.
Definition postN (g : bool) (bs : list Z) (x : jls_st * list Z) : Prop :=
  InvN g (fst x) /\ bytes (snd x) /\ (length (snd x) <= length bs)%nat.
Lemma InvN0 : forall g, InvN g jls_st0. Proof. intros; unfold InvN, jls_st0; simpl; repeat split; lia. Qed.
Lemma InvN_Inv : forall st, InvN true st -> Inv st.
Proof. intros st (A & B & C & D). unfold Inv. pose proof (A eq_refl). repeat split; lia. Qed.

Lemma jlsn_sof55_good : forall g st bs, bytes bs -> good g 65536 (postN g bs) (jlsn_parse_sof55 g st bs).
Proof.
  intros g st bs Hb. unfold jlsn_parse_sof55.
  eapply good_bind.
  { eapply good_weaken; [apply good_read_segment; exact Hb|lia|intros a Ha; exact Ha]. }
  intros [d rest] (Hd & Hrest & Hdl & Hlen). cbn [fst snd] in *.
  set (bits := znth d 0 0). set (h := be16 d 1). set (w := be16 d 3). set (c := znth d 5 0).
  assert (Hbits : 0 <= bits < 256) by (apply bytes_znth; auto).
  assert (Hh : 0 <= h <= 65535) by (apply be16_bound; auto).
  assert (Hw : 0 <= w <= 65535) by (apply be16_bound; auto).
  destruct (zlen d <? 6); [apply good_err|].
  destruct ((w <=? 0) || (h <=? 0)) eqn:Ewh; [apply good_err|].
  destruct (negb ((c =? 1) || (c =? 3))) eqn:Ec; [apply good_err|].
  assert (Hc : 0 <= c <= 3).
  { apply negb_false_iff in Ec. apply orb_true_iff in Ec. destruct Ec as [E|E]; apply Z.eqb_eq in E; lia. }
  destruct (g && (64 <=? bits)) eqn:Eg; [apply good_err|].
  apply good_ret. unfold postN, InvN; simpl. repeat split; auto; try lia.
  intros ->. cbn [andb] in Eg. apply Z.leb_gt in Eg. apply shl1_nonneg; lia.
Qed.

Lemma jlsn_lse_good : forall g st bs, bytes bs -> InvN g st -> good g 65536 (postN g bs) (jlsn_parse_lse st bs).
Proof.
  intros g st bs Hb (I1 & I2 & I3 & I4). unfold jlsn_parse_lse.
  eapply good_bind.
  { eapply good_weaken; [apply good_read_segment; exact Hb|lia|intros a Ha; exact Ha]. }
  intros [d rest] (Hd & Hrest & Hdl & Hlen). cbn [fst snd] in *.
  destruct (zlen d <? 1); [apply good_err|].
  destruct ((znth d 0 0 =? 1) && (11 <=? zlen d)).
  - apply good_ret. unfold postN, InvN; simpl. repeat split; auto; try lia.
    intros Hg. destruct (Z.ltb_spec 0 (be16 d 1)); [lia|auto].
  - apply good_ret. unfold postN, InvN; simpl. repeat split; auto; lia.
Qed.

Lemma jlsn_apply_good : forall g st, InvN g st ->
  good g 65536 (fun st' => InvN g st' /\ js_w st' = js_w st /\ js_h st' = js_h st /\ js_c st' = js_c st) (jlsn_apply st).
Proof.
  intros g st (I1 & I2 & I3 & I4). unfold jlsn_apply.
  set (reset := if 0 <? js_reset st then js_reset st else 64).
  eapply good_bind.
  { apply good_lift_any with (post := fun _ => True).
    - apply coding_params_nf.
    - intros Hg. destruct (coding_params_ok (js_maxval st) (js_near st) reset (I1 Hg)) as [p ->]. discriminate.
    - auto. }
  intros p _.
  eapply good_bind.
  { apply good_lift_any with (post := fun _ => True).
    - apply coding_params_nf.
    - intros Hg. destruct (coding_params_ok (js_maxval st) (js_near st) (jp_reset p) (I1 Hg)) as [p2 ->]. discriminate.
    - auto. }
  intros p2 _.
  rewrite ctx_alloc_val.
  eapply good_bind with (pa := fun _ => True).
  { unfold good; cbn [fst snd]. split; [discriminate|]. split; [discriminate|]. split; [repeat constructor; lia|auto]. }
  intros _ _. apply good_ret. unfold InvN; simpl. repeat split; auto; lia.
Qed.

Lemma jlsn_sos_good : forall g st bs, bytes bs -> InvN g st -> good g 65536 (postN g bs) (jlsn_parse_sos st bs).
Proof.
  intros g st bs Hb (I1 & I2 & I3 & I4). unfold jlsn_parse_sos.
  eapply good_bind.
  { eapply good_weaken; [apply good_read_segment; exact Hb|lia|intros a Ha; exact Ha]. }
  intros [d rest] (Hd & Hrest & Hdl & Hlen). cbn [fst snd] in *.
  destruct (Z.ltb_spec (zlen d) 4); [apply good_err|].
  destruct (negb (znth d 0 0 =? js_c st)); [apply good_err|].
  eapply good_bind; [apply good_idx; lia|]. intros near _.
  eapply good_bind; [apply good_idx; lia|]. intros ilv _.
  destruct ((js_c st =? 1) && negb (ilv =? 0)); [apply good_err|].
  destruct ((1 <? js_c st) && negb (ilv =? 2)); [apply good_err|].
  eapply good_bind.
  { apply jlsn_apply_good. unfold InvN; simpl. repeat split; auto; lia. }
  intros st2 (J & A2 & A3 & A4). apply good_ret. unfold postN; cbn [fst snd]. auto.
Qed.

Lemma jls_scan_allocs_goodN : forall g g' st rest, InvN g' st ->
  good g (8 * (js_w st * js_h st * js_c st) + 2 * zlen rest + 65536) (fun _ => True) (jls_scan_allocs st rest).
Proof.
  intros g g' st rest (I1 & I2 & I3 & I4). unfold jls_scan_allocs.
  pose proof (zlen_nonneg rest).
  assert (Hwh : 0 <= js_w st * js_h st <= 65535 * 65535)
    by (split; [apply Z.mul_nonneg_nonneg; lia | apply Z.mul_le_mono_nonneg; lia]).
  assert (0 <= js_w st * js_h st * js_c st <= 65535 * 65535 * 3)
    by (split; [apply Z.mul_nonneg_nonneg; lia | apply Z.mul_le_mono_nonneg; lia]).
  eapply good_bind; [apply good_note with (post := fun _ => True); [lia|exact I]|]. intros _ _.
  eapply good_bind; [apply good_alloc with (post := fun _ => True); [lia|rewrite maxAlloc_val; lia|lia|exact I]|]. intros _ _.
  destruct (js_bits st <=? 8); (apply good_alloc; [lia|rewrite maxAlloc_val; lia|lia|exact I]).
Qed.

Lemma jlsn_loop_good : forall g fuel st bs, bytes bs -> InvN g st -> (length bs < fuel)%nat ->
  loopP g bs (jlsn_loop g fuel st bs).
Proof.
  intros g fuel. induction fuel as [|k IH]; intros st bs Hb HI Hf; [lia|].
  cbn [jlsn_loop].
  destruct (read_marker bs) as [[m r]| | |] eqn:EM; try apply loopP_err.
  destruct (read_marker_ok _ _ _ EM) as [Hl Hbb]. destruct (Hbb Hb) as [Hr Hm].
  assert (Hzl : zlen r <= zlen bs) by (unfold zlen; lia).
  assert (Rec : forall x : jls_st * list Z, postN g r x -> loopP g bs (jlsn_loop g k (fst x) (snd x))).
  { intros [st' rest] (P1 & P2 & P3). cbn [fst snd] in *.
    apply loopP_mono with (bs' := rest); [unfold zlen; lia|]. apply IH; auto. lia. }
  destruct (m =? 247).
  { eapply loopP_bind; [apply jlsn_sof55_good; exact Hr|exact Rec]. }
  destruct (m =? 248).
  { eapply loopP_bind; [apply jlsn_lse_good; auto|exact Rec]. }
  destruct (m =? 218).
  { eapply loopP_bind; [apply jlsn_sos_good; auto|].
    intros [st' rest] (P1 & P2 & P3). cbn [fst snd] in *.
    pose proof (jls_scan_allocs_goodN g g st' rest P1) as (S1 & S2 & S3 & _).
    pose proof (jls_scan_allocs_goodN true g st' rest P1) as (T1 & _).
    destruct P1 as (Q1 & Q2 & Q3 & Q4).
    destruct (jls_scan_allocs st' rest) as [[[]| | |] la] eqn:ES; cbn [fst snd] in S1, S2, S3, T1;
      unfold bind, ret; cbn [fst snd]; unfold loopP; cbn [fst snd].
    - split; [congruence|]. split; [congruence|]. unfold bounded, Sres, S_hdr; cbn [fst snd]. rewrite app_nil_r.
      eapply Forall_impl; [|exact S3]. cbv beta. intros a Ha.
      assert (zlen rest <= zlen bs) by (unfold zlen; lia). lia.
    - exfalso.
      unfold jls_scan_allocs, note_alloc, alloc, bind in ES. cbn [fst snd] in ES.
      destruct ((js_w st' * js_h st' * js_c st' <? 0) || (maxAlloc <? js_w st' * js_h st' * js_c st' * 8)); cbn [fst snd] in ES; try discriminate.
      destruct ((js_w st' * js_h st' * js_c st' <? 0) || (maxAlloc <? js_w st' * js_h st' * js_c st' * (if js_bits st' <=? 8 then 1 else 2))); cbn [fst snd] in ES; discriminate.
    - exfalso. apply T1; reflexivity.
    - exfalso. apply S2; reflexivity. }
  destruct (m =? 217); [apply loopP_err|].
  destruct (has_length m).
  { eapply loopP_bind; [apply good_weaken with (B := 65533) (p := fun x => bytes (fst x) /\ bytes (snd x) /\ zlen (fst x) <= 65533 /\ (length (snd x) <= length r)%nat) (p' := fun x => bytes (snd x) /\ (length (snd x) <= length r)%nat);
      [apply good_read_segment; exact Hr|lia|tauto]|].
    intros [d rest] (P2 & P3). cbn [fst snd] in *.
    apply loopP_mono with (bs' := rest); [unfold zlen; lia|]. apply IH; auto. lia. }
  apply loopP_mono with (bs' := r); [exact Hzl|]. apply IH; auto. lia.
Qed.

Lemma jlsn_decode_loopP : forall g bs, bytes bs -> loopP g bs (jlsn_decode g (fuel_of bs) bs).
Proof.
  intros g bs Hb. unfold jlsn_decode.
  destruct (read_marker bs) as [[m r]| | |] eqn:EM; try apply loopP_err.
  destruct (read_marker_ok _ _ _ EM) as [Hl Hbb]. destruct (Hbb Hb) as [Hr Hm].
  destruct (m =? 216); [|apply loopP_err].
  apply loopP_mono with (bs' := r); [unfold zlen; lia|].
  apply jlsn_loop_good; auto; [apply InvN0|unfold fuel_of; lia].
Qed.

Theorem jlsn_decode_no_panic : forall bs, bytes bs -> fst (jlsn_decode true (fuel_of bs) bs) <> Panic.
Proof. intros bs Hb. apply (jlsn_decode_loopP true bs Hb). reflexivity. Qed.

Definition jlsn_panic_witness : list Z :=
  [255; 216; 255; 247; 0; 8; 64; 0; 1; 0; 1; 1; 255; 218; 0; 8; 1; 1; 0; 0; 0; 0].
Theorem jlsn_decode_panics_refuted : exists bs, bytes bs /\ fst (jlsn_decode false (fuel_of bs) bs) = Panic.
Proof.
  exists jlsn_panic_witness. split; [|vm_compute; reflexivity].
  unfold bytes, jlsn_panic_witness. repeat constructor; lia.
Qed.

Theorem jlsn_decode_fuel : forall g bs, bytes bs -> fst (jlsn_decode g (fuel_of bs) bs) <> OutOfFuel.
Proof. intros g bs Hb. apply (jlsn_decode_loopP g bs Hb). Qed.

Theorem jlsn_decode_alloc : forall g bs, bytes bs ->
  Forall (fun a => a <= 8 * Sres S_hdr (fst (jlsn_decode g (fuel_of bs) bs)) + 2 * zlen bs + 65536)
         (snd (jlsn_decode g (fuel_of bs) bs)).
Proof.
  intros g bs Hb. destruct (jlsn_decode_loopP g bs Hb) as (_ & _ & H).
  unfold bounded in H. eapply Forall_impl; [|exact H]. cbv beta; intros; lia.
Qed.

(* the proposed check changes nothing but turning results into errors *)
Theorem jls_sof55_check_conservative : forall st bs,
  jlsl_parse_sof55 true st bs = jlsl_parse_sof55 false st bs \/ fst (jlsl_parse_sof55 true st bs) = Err.
Proof.
  intros st bs. unfold jlsl_parse_sof55.
  destruct (read_segment bs) as [[[d rest]| | |] l]; unfold bind; cbn [fst snd]; auto.
  destruct (zlen d <? 6); auto.
  destruct ((be16 d 3 <=? 0) || (be16 d 1 <=? 0)); auto.
  destruct (negb ((znth d 5 0 =? 1) || (znth d 5 0 =? 3))); auto.
  destruct (64 <=? znth d 0 0); cbn [andb]; auto.
Qed.
