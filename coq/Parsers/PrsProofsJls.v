(* Parsers: theorems about the JPEG-LS header models (PrsJls.v). *)
From V Require Import Common.Base Parsers.PrsOutcome Parsers.PrsJls Parsers.PrsProofsBase.

Lemma i64_id : forall x, - 2 ^ 63 <= x < 2 ^ 63 -> i64 x = x.
Proof.
  intros x Hx. unfold i64, wrapS. change (64 - 1) with 63.
  assert (Hp : 2 ^ 64 = 2 * 2 ^ 63) by reflexivity.
  destruct (Z_lt_le_dec x 0) as [Hneg|Hpos].
  - assert (Hm : x mod 2 ^ 64 = x + 2 ^ 64).
    { symmetry. apply Z.mod_unique with (q := -1); lia. }
    rewrite Hm. destruct (Z.ltb_spec (x + 2 ^ 64) (2 ^ 63)); lia.
  - rewrite Z.mod_small by lia. destruct (Z.ltb_spec x (2 ^ 63)); lia.
Qed.

(* ---------- parameter derivation ---------- *)

Lemma thresholds_ok : forall mv near, 0 <= mv -> exists t, jls_compute_thresholds mv near = Ok t.
Proof.
  intros mv near Hmv. unfold jls_compute_thresholds.
  destruct (Z.leb_spec 128 mv); [eexists; reflexivity|].
  rewrite i64_id by (change (2 ^ 63) with 9223372036854775808; lia).
  destruct (Z.eqb_spec (mv + 1) 0); [lia|].
  assert (Hq : 2 <= Z.quot 256 (mv + 1)).
  { rewrite Z.quot_div_nonneg by lia. apply Z.div_le_lower_bound; lia. }
  destruct (Z.eqb_spec (Z.quot 256 (mv + 1)) 0); [lia|]. eexists; reflexivity.
Qed.

Lemma thresholds_never : forall mv near,
  jls_compute_thresholds mv near <> Err /\ jls_compute_thresholds mv near <> OutOfFuel.
Proof.
  intros. unfold jls_compute_thresholds.
  destruct (128 <=? mv); [split; congruence|].
  destruct (i64 (mv + 1) =? 0); [split; congruence|].
  destruct (Z.quot 256 (i64 (mv + 1)) =? 0); split; congruence.
Qed.

Lemma coding_params_ok : forall mv near reset, 0 <= mv -> exists p, jls_coding_params mv near reset = Ok p.
Proof.
  intros. unfold jls_coding_params. destruct (thresholds_ok mv near H) as [[[t1 t2] t3] ->]. eexists; reflexivity.
Qed.
Lemma coding_params_nf : forall mv near reset, jls_coding_params mv near reset <> OutOfFuel.
Proof.
  intros. unfold jls_coding_params. destruct (thresholds_never mv near) as [_ H].
  destruct (jls_compute_thresholds mv near) as [[[t1 t2] t3]| | |]; congruence.
Qed.

(* the defect: precision >= 64 gives maxVal = -1 and 256/(maxVal+1) *)
Lemma coding_params_panics : forall bits near reset, 64 <= bits ->
  jls_coding_params (i64 (shl1 bits - 1)) near reset = Panic.
Proof.
  intros. unfold shl1. destruct (Z.leb_spec 64 bits); [|lia]. reflexivity.
Qed.

Lemma shl1_range_b : forallb (fun b => 0 <=? i64 (shl1 b - 1)) (map Z.of_nat (seq 0 64)) = true.
Proof. vm_compute. reflexivity. Qed.
Lemma shl1_nonneg : forall b, 0 <= b < 64 -> 0 <= i64 (shl1 b - 1).
Proof.
  intros b Hb. pose proof shl1_range_b as H. rewrite forallb_forall in H.
  apply Z.leb_le. apply H. apply in_map_iff. exists (Z.to_nat b). split; [lia|]. apply in_seq. lia.
Qed.

(* ---------- state invariant ---------- *)
Definition Inv (st : jls_st) : Prop :=
  0 <= js_maxval st /\ 0 <= js_w st <= 65535 /\ 0 <= js_h st <= 65535 /\ 0 <= js_c st <= 3.

Lemma Inv0 : Inv jls_st0. Proof. unfold Inv, jls_st0; simpl; lia. Qed.

Definition small (a : Z) : Prop := a <= 65536.

Lemma ctx_alloc_val : jls_ctx_alloc = (Ok tt, [14600]).
Proof. reflexivity. Qed.

Lemma be16_bound : forall d o, bytes d -> 0 <= be16 d o <= 65535.
Proof. intros. unfold be16. pose proof (bytes_znth d o H). pose proof (bytes_znth d (o + 1) H). lia. Qed.

Lemma small_14600 : Forall small [14600].
Proof. repeat constructor. unfold small; lia. Qed.

(* jlsl_init keeps geometry and maxVal *)
Lemma jlsl_init_spec : forall st t1 t2 t3, 0 <= js_maxval st ->
  exists st', jlsl_init st t1 t2 t3 = (Ok st', [14600]) /\
     js_maxval st' = js_maxval st /\ js_w st' = js_w st /\ js_h st' = js_h st /\ js_c st' = js_c st /\ js_bits st' = js_bits st.
Proof.
  intros st t1 t2 t3 Hmv. unfold jlsl_init.
  destruct (coding_params_ok (js_maxval st) 0 (js_reset st) Hmv) as [p Hp]. rewrite Hp.
  destruct (coding_params_ok (js_maxval st) 0 (jp_reset p) Hmv) as [p2 Hp2].
  unfold lift at 1. unfold bind at 1. cbn [fst snd app].
  rewrite Hp2. unfold lift at 1. unfold bind at 1. cbn [fst snd app].
  rewrite ctx_alloc_val. unfold bind at 1. cbn [fst snd app].
  destruct ((t1 =? 0) || (t2 =? 0) || (t3 =? 0)); cbn; eexists; (split; [reflexivity|]); simpl; auto.
Qed.

(* post-condition of the header functions: state invariant, remaining input *)
Definition postP (bs : list Z) (x : jls_st * list Z) : Prop :=
  Inv (fst x) /\ bytes (snd x) /\ (length (snd x) <= length bs)%nat.

Lemma jlsl_init_good : forall g st t1 t2 t3, 0 <= js_maxval st ->
  good g 65536 (fun st' => js_maxval st' = js_maxval st /\ js_w st' = js_w st /\ js_h st' = js_h st /\ js_c st' = js_c st)
       (jlsl_init st t1 t2 t3).
Proof.
  intros g st t1 t2 t3 H. destruct (jlsl_init_spec st t1 t2 t3 H) as (st' & E & A1 & A2 & A3 & A4 & A5).
  rewrite E. unfold good; simpl. (*HERE*)repeat split; try congruence; try (inversion H0; subst; auto).
  repeat constructor. lia.
Qed.

(* parseSOF55 (lossless decoder) *)
Lemma jlsl_sof55_good : forall g st bs, bytes bs -> good g 65536 (postP bs) (jlsl_parse_sof55 g st bs).
Proof.
  intros g st bs Hb. unfold jlsl_parse_sof55.
  eapply good_bind.
  { eapply good_weaken; [apply good_read_segment; exact Hb|lia|intros a Ha; exact Ha]. }
  intros [d rest] (Hd & Hrest & Hdl & Hlen). cbn [fst snd] in *.
  set (bits := znth d 0 0). set (h := be16 d 1). set (w := be16 d 3). set (c := znth d 5 0).
  assert (Hbits : 0 <= bits < 256) by (apply bytes_znth; auto).
  assert (Hh : 0 <= h <= 65535) by (apply be16_bound; auto).
  assert (Hw : 0 <= w <= 65535) by (apply be16_bound; auto).
  destruct (zlen d <? 6); [apply good_err|].
  destruct ((w <=? 0) || (h <=? 0)) eqn:Ewh; [apply good_err|].
  destruct (negb ((c =? 1) || (c =? 3))) eqn:Ec; [apply good_err|].
  assert (Hc : 0 <= c <= 3).
  { apply negb_false_iff in Ec. apply orb_true_iff in Ec. destruct Ec as [E|E]; apply Z.eqb_eq in E; lia. }
  destruct (Z.leb_spec 64 bits) as [Hge|Hlt].
  - (* precision >= 64: rejected by the proposed check, a panic in the code as it stands *)
    destruct g; cbn [andb]; [apply good_err|].
    rewrite coding_params_panics by lia. unfold lift. unfold bind; simpl.
    unfold good; simpl. repeat split; try congruence; auto. intros; discriminate.
  - rewrite andb_false_r.
    assert (Hmv : 0 <= i64 (shl1 bits - 1)) by (apply shl1_nonneg; lia).
    destruct (coding_params_ok (i64 (shl1 bits - 1)) 0 64 Hmv) as [p Hp]. rewrite Hp.
    eapply good_bind; [apply good_lift_ok with (a := p); [reflexivity|exact I]|]. intros _ _.
    eapply good_bind; [apply jlsl_init_good; simpl; exact Hmv|].
    intros st2 (A1 & A2 & A3 & A4). simpl in A1, A2, A3, A4.
    apply good_ret. unfold postP, Inv; cbn [fst snd]. rewrite A1, A2, A3, A4.
    apply orb_false_iff in Ewh. destruct Ewh as [E1 E2]. apply Z.leb_gt in E1. apply Z.leb_gt in E2.
    repeat split; auto; lia.
Qed.

Lemma jlsl_lse_good : forall g st bs, bytes bs -> Inv st -> good g 65536 (postP bs) (jlsl_parse_lse st bs).
Proof.
  intros g st bs Hb (I1 & I2 & I3 & I4). unfold jlsl_parse_lse.
  eapply good_bind.
  { eapply good_weaken; [apply good_read_segment; exact Hb|lia|intros a Ha; exact Ha]. }
  intros [d rest] (Hd & Hrest & Hdl & Hlen). cbn [fst snd] in *.
  destruct (zlen d <? 1); [apply good_err|].
  destruct (znth d 0 0 =? 1).
  - destruct (zlen d <? 11); [apply good_err|].
    pose proof (be16_bound d 1 Hd) as Hmv.
    eapply good_bind.
    { apply jlsl_init_good. simpl. destruct (Z.leb_spec (be16 d 1) 0); lia. }
    intros st2 (A1 & A2 & A3 & A4). simpl in A1, A2, A3, A4.
    apply good_ret. unfold postP, Inv; cbn [fst snd]. rewrite A1, A2, A3, A4.
    repeat split; auto; try lia. destruct (Z.leb_spec (be16 d 1) 0); lia.
  - apply good_ret. unfold postP, Inv; cbn [fst snd]. repeat split; auto; lia.
Qed.

Lemma jlsl_sos_good : forall g st bs, bytes bs -> Inv st -> good g 65536 (postP bs) (jlsl_parse_sos st bs).
Proof.
  intros g st bs Hb (I1 & I2 & I3 & I4). unfold jlsl_parse_sos.
  eapply good_bind.
  { eapply good_weaken; [apply good_read_segment; exact Hb|lia|intros a Ha; exact Ha]. }
  intros [d rest] (Hd & Hrest & Hdl & Hlen). cbn [fst snd] in *.
  destruct (Z.ltb_spec (zlen d) 4); [apply good_err|].
  destruct (negb (znth d 0 0 =? js_c st)); [apply good_err|].
  eapply good_bind; [apply good_idx; lia|]. intros ilv _.
  destruct ((js_c st =? 1) && negb (ilv =? 0)); [apply good_err|].
  destruct ((1 <? js_c st) && negb (ilv =? 2)); [apply good_err|].
  apply good_ret. unfold postP, Inv; cbn [fst snd]. repeat split; auto; lia.
Qed.

Definition S_hdr (x : jls_hdr) : Z := let '(w, h, c, _, _) := x in w * h * c.

Lemma jls_scan_allocs_good : forall g st rest, Inv st ->
  good g (8 * (js_w st * js_h st * js_c st) + 2 * zlen rest + 65536) (fun _ => True) (jls_scan_allocs st rest).
Proof.
  intros g st rest (I1 & I2 & I3 & I4). unfold jls_scan_allocs.
  pose proof (zlen_nonneg rest).
  assert (0 <= js_w st * js_h st * js_c st <= 65535 * 65535 * 3) by nia.
  eapply good_bind; [apply good_note with (post := fun _ => True); [lia|exact I]|]. intros _ _.
  eapply good_bind; [apply good_alloc with (post := fun _ => True); [lia|rewrite maxAlloc_val; lia|lia|exact I]|]. intros _ _.
  destruct (js_bits st <=? 8); (apply good_alloc; [lia|rewrite maxAlloc_val; lia|lia|exact I]).
Qed.

(* ---------- the marker loop ---------- *)
Lemma jlsl_loop_good : forall g fuel st bs, bytes bs -> Inv st -> (length bs < fuel)%nat ->
  (g = true -> fst (jlsl_loop g fuel st bs) <> Panic) /\ fst (jlsl_loop g fuel st bs) <> OutOfFuel /\
  bounded S_hdr 8 (2 * zlen bs + 65536) (jlsl_loop g fuel st bs).
Proof.
  intros g fuel. induction fuel as [|k IH]; intros st bs Hb HI Hf; [lia|].
  cbn [jlsl_loop].
  destruct (read_marker bs) as [[m r]| | |] eqn:EM;
    try (unfold bounded; simpl; repeat split; try congruence; constructor).
  destruct (read_marker_ok _ _ _ EM) as [Hl Hbb]. destruct (Hbb Hb) as [Hr Hm].
  assert (Hzl : zlen r <= zlen bs) by (unfold zlen; lia).
  assert (HS : forall x : jls_hdr, 0 <= S_hdr x -> True) by auto.
  (* a header function followed by the loop *)
  assert (Step : forall (pf : M (jls_st * list Z)), good g 65536 (postP r) pf ->
     (g = true -> fst (x <- pf ;; jlsl_loop g k (fst x) (snd x)) <> Panic) /\
     fst (x <- pf ;; jlsl_loop g k (fst x) (snd x)) <> OutOfFuel /\
     bounded S_hdr 8 (2 * zlen bs + 65536) (x <- pf ;; jlsl_loop g k (fst x) (snd x))).
  { intros pf (G1 & G2 & G3 & G4).
    destruct pf as [[[st' rest]| | |] l0] eqn:Epf; simpl in G1, G2, G3, G4; unfold bind; cbn [fst snd];
      try (unfold bounded; simpl; repeat split; try congruence; auto;
           eapply Forall_impl; [|exact G3]; simpl; intros; pose proof (zlen_nonneg bs); lia).
    destruct (G4 _ eq_refl) as (P1 & P2 & P3). cbn [fst snd] in P1, P2, P3.
    assert (Hlk : (length rest < k)%nat) by lia.
    destruct (IH st' rest P2 P1 Hlk) as (J1 & J2 & J3).
    split; [exact J1|]. split; [exact J2|].
    unfold bounded in *. cbn [fst snd]. apply Forall_app. split.
    - eapply Forall_impl; [|exact G3]. simpl. intros a Ha. pose proof (zlen_nonneg bs).
      destruct (fst (jlsl_loop g k st' rest)) as [[[[[w h] c] b] n]| | |]; try lia.
      admit.
    - eapply Forall_impl; [|exact J3]. simpl. intros a Ha. assert (zlen rest <= zlen bs) by (unfold zlen; lia). lia. }
  admit.
Admitted.
