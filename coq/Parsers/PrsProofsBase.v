(* Parsers: generic lemmas about the M monad, allocation requests and the byte reader. *)
From V Require Import Common.Base Parsers.PrsOutcome.

Definition bytes (l : list Z) : Prop := Forall (fun b => 0 <= b < 256) l.

Lemma bytes_firstn : forall n l, bytes l -> bytes (firstn n l).
Proof. induction n; intros [|x l] H; simpl; try constructor; inversion H; subst; auto. apply IHn; auto. Qed.
Lemma bytes_skipn : forall n l, bytes l -> bytes (skipn n l).
Proof. induction n; intros [|x l] H; simpl; auto. inversion H; subst. apply IHn; auto. Qed.
Lemma bytes_znth : forall l i, bytes l -> 0 <= znth l i 0 < 256.
Proof.
  intros l i H. unfold znth. destruct (i <? 0); [lia|].
  generalize (Z.to_nat i) as n. induction H; intros [|n]; simpl; try lia. apply IHForall.
Qed.

Lemma zlen_nonneg : forall {A} (l : list A), 0 <= zlen l.
Proof. intros; unfold zlen; lia. Qed.
Lemma zlen_cons : forall {A} (x : A) l, zlen (x :: l) = zlen l + 1.
Proof. intros; unfold zlen; simpl length; lia. Qed.
Lemma zlen_skipn_le : forall {A} n (l : list A), zlen (skipn n l) <= zlen l.
Proof. intros. unfold zlen. rewrite skipn_length. lia. Qed.

(* ---------- no-panic / no-fuel predicates ---------- *)
Definition np {A} (m : M A) : Prop := fst m <> Panic.
Definition nf {A} (m : M A) : Prop := fst m <> OutOfFuel.

Lemma np_ret : forall {A} (a : A), np (ret a). Proof. unfold np; simpl; congruence. Qed.
Lemma np_err : forall {A}, np (@err A). Proof. unfold np; simpl; congruence. Qed.
Lemma np_oof : forall {A}, np (@oof A). Proof. unfold np; simpl; congruence. Qed.
Lemma nf_ret : forall {A} (a : A), nf (ret a). Proof. unfold nf; simpl; congruence. Qed.
Lemma nf_err : forall {A}, nf (@err A). Proof. unfold nf; simpl; congruence. Qed.
Lemma nf_pan : forall {A}, nf (@pan A). Proof. unfold nf; simpl; congruence. Qed.

Lemma np_bind : forall {A B} (m : M A) (f : A -> M B),
  np m -> (forall a l, m = (Ok a, l) -> np (f a)) -> np (bind m f).
Proof.
  intros A B [[a| | |] l] f Hm Hf; unfold np, bind in *; simpl in *; try congruence.
  apply (Hf a l eq_refl).
Qed.
Lemma nf_bind : forall {A B} (m : M A) (f : A -> M B),
  nf m -> (forall a l, m = (Ok a, l) -> nf (f a)) -> nf (bind m f).
Proof.
  intros A B [[a| | |] l] f Hm Hf; unfold nf, bind in *; simpl in *; try congruence.
  apply (Hf a l eq_refl).
Qed.

Lemma bind_ok_inv : forall {A B} (m : M A) (f : A -> M B) b l,
  bind m f = (Ok b, l) -> exists a l1 l2, m = (Ok a, l1) /\ f a = (Ok b, l2) /\ l = l1 ++ l2.
Proof.
  intros A B [[a| | |] l1] f b l H; unfold bind in H; simpl in H; try discriminate.
  destruct (f a) as [o l2] eqn:E. simpl in H. inversion H; subst. exists a, l1, l2. auto.
Qed.

(* allocation requests of a bind *)
Lemma bind_allocs : forall {A B} (m : M A) (f : A -> M B) (P : Z -> Prop),
  Forall P (snd m) -> (forall a l, m = (Ok a, l) -> Forall P (snd (f a))) -> Forall P (snd (bind m f)).
Proof.
  intros A B [[a| | |] l] f P Hm Hf; unfold bind; simpl in *; auto.
  apply Forall_app. split; auto. apply (Hf a l eq_refl).
Qed.

Lemma lift_np : forall {A} (o : outcome A), o <> Panic -> np (lift o).
Proof. intros; unfold np, lift; simpl; auto. Qed.
Lemma lift_nf : forall {A} (o : outcome A), o <> OutOfFuel -> nf (lift o).
Proof. intros; unfold nf, lift; simpl; auto. Qed.
Lemma lift_ok_inv : forall {A} (o : outcome A) a l, lift o = (Ok a, l) -> o = Ok a /\ l = [].
Proof. unfold lift; intros; inversion H; auto. Qed.
Lemma lift_allocs : forall {A} (o : outcome A) P, Forall P (snd (lift o)).
Proof. intros; simpl; constructor. Qed.

(* alloc *)
Lemma alloc_np : forall n sz, 0 <= n -> n * sz <= maxAlloc -> np (alloc n sz).
Proof.
  intros n sz Hn Hs. unfold np, alloc.
  destruct (Z.ltb_spec n 0); [lia|]. destruct (Z.ltb_spec maxAlloc (n * sz)); [lia|]. simpl; congruence.
Qed.
Lemma alloc_nf : forall n sz, nf (alloc n sz).
Proof. intros. unfold nf, alloc. destruct ((n <? 0) || (maxAlloc <? n * sz)); simpl; congruence. Qed.
Lemma alloc_allocs : forall n sz (P : Z -> Prop), P (n * sz) -> Forall P (snd (alloc n sz)).
Proof. intros. unfold alloc. destruct ((n <? 0) || (maxAlloc <? n * sz)); simpl; auto. Qed.
Lemma note_np : forall n, np (note_alloc n). Proof. unfold np, note_alloc; simpl; congruence. Qed.
Lemma note_nf : forall n, nf (note_alloc n). Proof. unfold nf, note_alloc; simpl; congruence. Qed.
Lemma note_allocs : forall n (P : Z -> Prop), P n -> Forall P (snd (note_alloc n)).
Proof. intros; unfold note_alloc; simpl; auto. Qed.

Lemma maxAlloc_val : maxAlloc = 281474976710656. Proof. reflexivity. Qed.

(* idx *)
Lemma idx_np : forall l i, 0 <= i < zlen l -> np (idx l i).
Proof.
  intros. unfold np, idx. destruct (Z.ltb_spec i 0); [lia|]. destruct (Z.leb_spec (zlen l) i); [lia|]. simpl; congruence.
Qed.
Lemma idx_nf : forall l i, nf (idx l i).
Proof. intros; unfold nf, idx. destruct ((i <? 0) || (zlen l <=? i)); simpl; congruence. Qed.
Lemma idx_ok_inv : forall l i v a, idx l i = (Ok v, a) -> v = znth l i 0 /\ a = [].
Proof. unfold idx; intros. destruct ((i <? 0) || (zlen l <=? i)); inversion H; auto. Qed.
Lemma idx_allocs : forall l i P, Forall P (snd (idx l i)).
Proof. intros; unfold idx. destruct ((i <? 0) || (zlen l <=? i)); simpl; constructor. Qed.

(* ---------- reader ---------- *)
Lemma skip_ff_ok : forall bs m r, skip_ff bs = Ok (m, r) ->
  (length r < length bs)%nat /\ (bytes bs -> bytes r /\ 0 <= m < 256).
Proof.
  induction bs as [|b bs IH]; simpl; intros m r H; [discriminate|].
  destruct (b =? 255).
  - destruct (IH _ _ H) as [H1 H2]. split; [lia|]. intros Hb. inversion Hb; subst. auto.
  - destruct (b =? 0); [discriminate|]. inversion H; subst. split; [lia|].
    intros Hb. inversion Hb; subst. auto.
Qed.
Lemma read_marker_ok : forall bs m r, read_marker bs = Ok (m, r) ->
  (S (length r) < length bs)%nat /\ (bytes bs -> bytes r /\ 0 <= m < 256).
Proof.
  intros [|b bs] m r H; simpl in H; [discriminate|].
  destruct (b =? 255); [|discriminate].
  destruct (skip_ff_ok _ _ _ H) as [H1 H2]. split; [simpl; lia|].
  intros Hb. inversion Hb; subst. auto.
Qed.
Lemma skip_ff_not : forall bs, skip_ff bs <> Panic /\ skip_ff bs <> OutOfFuel.
Proof.
  induction bs as [|b bs IH]; simpl; [split; congruence|].
  destruct (b =? 255); auto. destruct (b =? 0); split; congruence.
Qed.
Lemma read_marker_not : forall bs, read_marker bs <> Panic /\ read_marker bs <> OutOfFuel.
Proof.
  intros [|b bs]; simpl; [split; congruence|]. destruct (b =? 255); [apply skip_ff_not|split; congruence].
Qed.

Lemma be_bound : forall a b, 0 <= a < 256 -> 0 <= b < 256 -> 0 <= a * 256 + b <= 65535.
Proof. intros; lia. Qed.

(* read_segment *)
Lemma read_segment_np : forall bs, bytes bs -> np (read_segment bs).
Proof.
  intros bs Hb. unfold read_segment, read_u16.
  destruct bs as [|a [|b r]]; try apply np_err.
  inversion Hb as [|? ? Ha Hb']; subst. inversion Hb' as [|? ? Hb2 Hr]; subst.
  destruct (Z.ltb_spec (a * 256 + b) 2); [apply np_err|].
  apply np_bind.
  - apply alloc_np; [lia|]. rewrite maxAlloc_val. lia.
  - intros [] l _. destruct (zlen r <? a * 256 + b - 2); [apply np_err|apply np_ret].
Qed.
Lemma read_segment_nf : forall bs, nf (read_segment bs).
Proof.
  intros bs. unfold read_segment, read_u16.
  destruct bs as [|a [|b r]]; try apply nf_err.
  destruct (a * 256 + b <? 2); [apply nf_err|].
  apply nf_bind; [apply alloc_nf|]. intros [] l _.
  destruct (zlen r <? a * 256 + b - 2); [apply nf_err|apply nf_ret].
Qed.
Lemma read_segment_ok : forall bs d rest l, read_segment bs = (Ok (d, rest), l) ->
  (length rest <= length bs)%nat /\ (bytes bs -> bytes d /\ bytes rest /\ zlen d <= 65533).
Proof.
  intros bs d rest l H. unfold read_segment, read_u16 in H.
  destruct bs as [|a [|b r]]; try (inversion H; fail).
  destruct (Z.ltb_spec (a * 256 + b) 2); [inversion H|].
  apply bind_ok_inv in H. destruct H as ([] & l1 & l2 & Ha & Hr & ->).
  destruct (Z.ltb_spec (zlen r) (a * 256 + b - 2)); [inversion Hr|].
  inversion Hr; subst. clear Hr. split.
  - simpl length. rewrite skipn_length. lia.
  - intros Hb. inversion Hb as [|? ? Hba Hb']; subst. inversion Hb' as [|? ? Hbb Hbr]; subst.
    split; [apply bytes_firstn; auto|]. split; [apply bytes_skipn; auto|].
    unfold zlen. rewrite firstn_length. lia.
Qed.

(* every request of read_segment is a segment buffer: at most 65533 bytes (for byte input) *)
Lemma read_segment_allocs : forall bs, bytes bs -> Forall (fun a => a <= 65533) (snd (read_segment bs)).
Proof.
  intros bs Hb. unfold read_segment, read_u16.
  destruct bs as [|a [|b r]]; try (simpl; constructor).
  inversion Hb as [|? ? Ha Hb']; subst. inversion Hb' as [|? ? Hb2 Hr]; subst.
  destruct (Z.ltb_spec (a * 256 + b) 2); [simpl; constructor|].
  apply bind_allocs.
  - apply alloc_allocs. lia.
  - intros [] l _. destruct (zlen r <? a * 256 + b - 2); simpl; constructor.
Qed.

(* ---------- a compositional specification predicate ----------
   good g B post m :  (with the proposed checks, g = true) m does not panic; m never runs out
   of fuel; every allocation request of m is <= B; an Ok result satisfies post. *)
Definition good {A} (g : bool) (B : Z) (post : A -> Prop) (m : M A) : Prop :=
  (g = true -> fst m <> Panic) /\ fst m <> OutOfFuel /\ Forall (fun a => a <= B) (snd m) /\
  (forall a, fst m = Ok a -> post a).

Lemma good_ret : forall {A} g B (post : A -> Prop) a, post a -> good g B post (ret a).
Proof. intros. unfold good, ret; simpl. repeat split; try congruence; auto; try (intros a0 H0; inversion H0; subst; auto). Qed.
Lemma good_err : forall {A} g B (post : A -> Prop), good g B post err.
Proof. intros. unfold good, err; simpl. repeat split; try congruence; auto. Qed.
Lemma good_pan_unfixed : forall {A} B (post : A -> Prop), good false B post pan.
Proof. intros. unfold good, pan; simpl. repeat split; try congruence; auto. Qed.
Lemma good_bind : forall {A C} g B (pa : A -> Prop) (pc : C -> Prop) (m : M A) (f : A -> M C),
  good g B pa m -> (forall a, pa a -> good g B pc (f a)) -> good g B pc (bind m f).
Proof.
  intros A C g B pa pc [[a| | |] l] f (H1 & H2 & H3 & H4) Hf; unfold good, bind in *; simpl in *.
  - destruct (Hf a (H4 a eq_refl)) as (F1 & F2 & F3 & F4).
    split; [exact F1|]. split; [exact F2|]. split; [apply Forall_app; auto|exact F4].
  - split; [intros; discriminate|]. split; [discriminate|]. split; [exact H3|]. intros; discriminate.
  - split; [intros Hg E; apply (H1 Hg); reflexivity|]. split; [discriminate|]. split; [exact H3|]. intros; discriminate.
  - exfalso. apply H2; reflexivity.
Qed.
Lemma good_weaken : forall {A} g B B' (p p' : A -> Prop) m,
  good g B p m -> B <= B' -> (forall a, p a -> p' a) -> good g B' p' m.
Proof.
  intros A g B B' p p' m (H1 & H2 & H3 & H4) HB Hp. repeat split; auto.
  eapply Forall_impl; [|exact H3]. simpl; intros; lia.
Qed.
Lemma good_lift_ok : forall {A} g B (post : A -> Prop) o a, o = Ok a -> post a -> good g B post (lift o).
Proof. intros; subst. apply good_ret; auto. Qed.
Lemma good_lift_panic_unfixed : forall {A} B (post : A -> Prop) o, o = Panic -> good false B post (lift o).
Proof. intros; subst. apply good_pan_unfixed. Qed.
Lemma good_alloc : forall g B (post : unit -> Prop) n sz,
  0 <= n -> n * sz <= maxAlloc -> n * sz <= B -> post tt -> good g B post (alloc n sz).
Proof.
  intros. unfold good, alloc.
  destruct (Z.ltb_spec n 0); [lia|]. destruct (Z.ltb_spec maxAlloc (n * sz)); [lia|]. simpl.
  repeat split; try congruence; auto; try (intros []; auto).
Qed.
Lemma good_note : forall g B (post : unit -> Prop) n, n <= B -> post tt -> good g B post (note_alloc n).
Proof. intros. unfold good, note_alloc; simpl. repeat split; try congruence; auto; try (intros []; auto). Qed.
Lemma good_idx : forall g B l i, 0 <= i < zlen l -> good g B (fun v => v = znth l i 0) (idx l i).
Proof.
  intros. unfold good, idx. destruct (Z.ltb_spec i 0); [lia|]. destruct (Z.leb_spec (zlen l) i); [lia|]. simpl.
  repeat split; try congruence; auto; try (intros a Ha; inversion Ha; auto).
Qed.
Lemma good_read_segment : forall g bs, bytes bs ->
  good g 65533 (fun x => bytes (fst x) /\ bytes (snd x) /\ zlen (fst x) <= 65533 /\ (length (snd x) <= length bs)%nat) (read_segment bs).
Proof.
  intros g bs Hb. pose proof (read_segment_np bs Hb). pose proof (read_segment_nf bs). pose proof (read_segment_allocs bs Hb).
  unfold good, np, nf in *. repeat split; auto.
  - destruct a as [d rest]. destruct (read_segment bs) as [o l] eqn:E. simpl in H2; subst.
    destruct (read_segment_ok _ _ _ _ E) as [_ Hx]. apply Hx; auto.
  - destruct a as [d rest]. destruct (read_segment bs) as [o l] eqn:E. simpl in H2; subst.
    destruct (read_segment_ok _ _ _ _ E) as [_ Hx]. apply Hx; auto.
  - destruct a as [d rest]. destruct (read_segment bs) as [o l] eqn:E. simpl in H2; subst.
    destruct (read_segment_ok _ _ _ _ E) as [_ Hx]. apply Hx; auto.
  - destruct a as [d rest]. destruct (read_segment bs) as [o l] eqn:E. simpl in H2; subst.
    destruct (read_segment_ok _ _ _ _ E) as [Hx _]. auto.
Qed.

(* good with g = true gives the three theorems *)
Lemma good_np : forall {A} B (p : A -> Prop) m, good true B p m -> fst m <> Panic.
Proof. intros A B p m (H & _). auto. Qed.
Lemma good_nf : forall {A} g B (p : A -> Prop) m, good g B p m -> fst m <> OutOfFuel.
Proof. intros A g B p m (_ & H & _). auto. Qed.
Lemma good_allocs : forall {A} g B (p : A -> Prop) m, good g B p m -> Forall (fun a => a <= B) (snd m).
Proof. intros A g B p m (_ & _ & H & _). auto. Qed.

(* result-relative allocation bound: requests <= K before the result is known, and
   <= c * max(0, S(result)) + K overall *)
Definition Sres {A} (S_of : A -> Z) (o : outcome A) : Z := match o with Ok r => Z.max 0 (S_of r) | _ => 0 end.
Definition bounded {A} (S_of : A -> Z) (c K : Z) (m : M A) : Prop :=
  Forall (fun a => a <= c * Sres S_of (fst m) + K) (snd m).
Lemma Sres_nonneg : forall {A} (S_of : A -> Z) o, 0 <= Sres S_of o.
Proof. intros. unfold Sres. destruct o; lia. Qed.
Lemma bounded_small : forall {A} (S_of : A -> Z) c K (m : M A),
  0 <= c -> Forall (fun a => a <= K) (snd m) -> bounded S_of c K m.
Proof.
  intros. unfold bounded. eapply Forall_impl; [|exact H0]. simpl; intros x Hx.
  pose proof (Sres_nonneg S_of (fst m)). nia.
Qed.
Lemma bounded_bind_small : forall {A C} (S_of : C -> Z) c K (m : M A) (f : A -> M C),
  0 <= c -> Forall (fun a => a <= K) (snd m) -> (forall a l, m = (Ok a, l) -> bounded S_of c K (f a)) ->
  bounded S_of c K (bind m f).
Proof.
  intros A C S_of c K [[a| | |] l] f Hc Hm Hf; unfold bounded, bind in *; simpl in *;
    try (eapply Forall_impl; [|exact Hm]; simpl; intros; lia).
  apply Forall_app. split; [|apply (Hf a l eq_refl)].
  eapply Forall_impl; [|exact Hm]. simpl. intros x Hx.
  pose proof (Sres_nonneg S_of (fst (f a))). nia.
Qed.
Lemma bounded_weaken : forall {A} (S_of : A -> Z) c K K' (m : M A), K <= K' -> bounded S_of c K m -> bounded S_of c K' m.
Proof. intros. unfold bounded in *. eapply Forall_impl; [|exact H0]. simpl; intros; lia. Qed.

(* ---------- generic loop predicates ---------- *)
(* no panic (with the checks), no out-of-fuel, result-relative allocation bound *)
Definition gloopP {A} (S_of : A -> Z) (c : Z) (g : bool) (bs : list Z) (m : M A) : Prop :=
  (g = true -> fst m <> Panic) /\ fst m <> OutOfFuel /\ bounded S_of c (2 * zlen bs + 65536) m.

Lemma gloopP_err : forall {A} (S_of : A -> Z) c g bs, gloopP S_of c g bs err.
Proof. intros. unfold gloopP, bounded; simpl. split; [congruence|]. split; [congruence|constructor]. Qed.

Lemma gloopP_mono : forall {A} (S_of : A -> Z) c g bs bs' m, zlen bs' <= zlen bs -> gloopP S_of c g bs' m -> gloopP S_of c g bs m.
Proof.
  intros A S_of c g bs bs' m H (X & Y & Z0). split; [exact X|]. split; [exact Y|].
  eapply bounded_weaken; [|exact Z0]. lia.
Qed.

Lemma gloopP_bind : forall {A C} (S_of : C -> Z) c g bs (pa : A -> Prop) (pf : M A) (f : A -> M C),
  0 <= c -> good g 65536 pa pf -> (forall a, pa a -> gloopP S_of c g bs (f a)) -> gloopP S_of c g bs (bind pf f).
Proof.
  intros A C S_of c g bs pa pf f Hc (G1 & G2 & G3 & G4) Hf.
  assert (Hsm : Forall (fun a => a <= 2 * zlen bs + 65536) (snd pf)).
  { eapply Forall_impl; [|exact G3]. cbv beta; intros. pose proof (zlen_nonneg bs). lia. }
  split; [|split].
  - intros Hg. destruct pf as [[a| | |] l]; unfold bind; cbn [fst snd] in *; try congruence;
      try (exfalso; apply (G1 Hg); reflexivity).
    apply (Hf a (G4 a eq_refl)); auto.
  - destruct pf as [[a| | |] l]; unfold bind; cbn [fst snd] in *; try congruence;
      try (exfalso; apply G2; reflexivity).
    apply (Hf a (G4 a eq_refl)).
  - apply bounded_bind_small; [exact Hc|exact Hsm|]. intros a l E. rewrite E in G4. apply (Hf a (G4 a eq_refl)).
Qed.

(* the last step of a loop: large allocations, then the result r *)
Lemma gloopP_final : forall {C} (S_of : C -> Z) c g bs (pf : M unit) (r : C),
  (forall g', good g' (c * Z.max 0 (S_of r) + 2 * zlen bs + 65536) (fun _ => True) pf) -> fst pf <> Err ->
  gloopP S_of c g bs (bind pf (fun _ => ret r)).
Proof.
  intros C S_of c g bs pf r Hg Hne.
  destruct (Hg g) as (S1 & S2 & S3 & _). destruct (Hg true) as (T1 & _).
  destruct pf as [[[]| | |] la]; cbn [fst snd] in *; unfold bind, ret, gloopP; cbn [fst snd].
  - split; [congruence|]. split; [congruence|]. unfold bounded, Sres; cbn [fst snd]. rewrite app_nil_r.
    eapply Forall_impl; [|exact S3]. cbv beta. intros; lia.
  - exfalso; apply Hne; reflexivity.
  - exfalso; apply T1; reflexivity.
  - exfalso; apply S2; reflexivity.
Qed.

(* weaker: only no-panic and no-out-of-fuel (decoders that allocate at header time) *)
Definition loopQ {A} (g : bool) (m : M A) : Prop := (g = true -> fst m <> Panic) /\ fst m <> OutOfFuel.
Lemma loopQ_err : forall {A} g, loopQ g (@err A).
Proof. intros. unfold loopQ; simpl. split; congruence. Qed.
Lemma loopQ_ret : forall {A} g (a : A), loopQ g (ret a).
Proof. intros. unfold loopQ; simpl. split; congruence. Qed.
Lemma loopQ_bind : forall {A C} g B (pa : A -> Prop) (pf : M A) (f : A -> M C),
  good g B pa pf -> (forall a, pa a -> loopQ g (f a)) -> loopQ g (bind pf f).
Proof.
  intros A C g B pa pf f (G1 & G2 & G3 & G4) Hf. split.
  - intros Hg. destruct pf as [[a| | |] l]; unfold bind; cbn [fst snd] in *; try congruence;
      try (exfalso; apply (G1 Hg); reflexivity).
    apply (Hf a (G4 a eq_refl)); auto.
  - destruct pf as [[a| | |] l]; unfold bind; cbn [fst snd] in *; try congruence;
      try (exfalso; apply G2; reflexivity).
    apply (Hf a (G4 a eq_refl)).
Qed.

Lemma good_lift_any : forall {A} g B (post : A -> Prop) (o : outcome A),
  o <> OutOfFuel -> (g = true -> o <> Panic) -> (forall a, o = Ok a -> post a) -> good g B post (lift o).
Proof. intros. unfold good, lift; cbn [fst snd]. split; [auto|]. split; [auto|]. split; [constructor|auto]. Qed.


(* ---------- segments by their length field; absolute allocation bound ---------- *)
Lemma read_segment_eq : forall bs d rest l, read_segment bs = (Ok (d, rest), l) -> d = seg_data bs /\ rest = seg_rest bs.
Proof.
  intros bs d rest l H. unfold read_segment, read_u16 in H.
  destruct bs as [|a [|b r]]; try (inversion H; fail).
  destruct (a * 256 + b <? 2); [inversion H|].
  apply bind_ok_inv in H. destruct H as ([] & l1 & l2 & Ha & Hr & ->).
  destruct (zlen r <? a * 256 + b - 2); [inversion Hr|]. inversion Hr; subst. split; reflexivity.
Qed.

Lemma good_read_segment' : forall g bs, bytes bs ->
  good g 65533 (fun x => bytes (fst x) /\ bytes (snd x) /\ zlen (fst x) <= 65533 /\ (length (snd x) <= length bs)%nat /\
                         fst x = seg_data bs /\ snd x = seg_rest bs) (read_segment bs).
Proof.
  intros g bs Hb. destruct (good_read_segment g bs Hb) as (A & B & C & D).
  split; [exact A|]. split; [exact B|]. split; [exact C|].
  intros [d rest] E. destruct (D _ E) as (D1 & D2 & D3 & D4).
  destruct (read_segment bs) as [o l] eqn:ER. cbn [fst] in E. subst o.
  destruct (read_segment_eq _ _ _ _ ER). cbn [fst snd]. repeat split; auto.
Qed.

Lemma sof_S_nonneg : forall d, bytes d -> 0 <= sof_S d.
Proof.
  intros d H. unfold sof_S. destruct (zlen d <? 6); [lia|].
  pose proof (bytes_znth d 1 H). pose proof (bytes_znth d 2 H). pose proof (bytes_znth d 3 H).
  pose proof (bytes_znth d 4 H). pose proof (bytes_znth d 5 H).
  apply Z.mul_nonneg_nonneg; [apply Z.mul_nonneg_nonneg|]; lia.
Qed.

(* no panic, no out-of-fuel, every request <= c*S + 2*len + 65536 for a given number S *)
Definition aloopP {A} (S c : Z) (bs : list Z) (m : M A) : Prop :=
  fst m <> Panic /\ fst m <> OutOfFuel /\ Forall (fun a => a <= c * S + 2 * zlen bs + 65536) (snd m).

Lemma aloopP_err : forall {A} S c bs, @aloopP A S c bs err.
Proof. intros. unfold aloopP; simpl. split; [congruence|]. split; [congruence|constructor]. Qed.
Lemma aloopP_ret : forall {A} S c bs (a : A), aloopP S c bs (ret a).
Proof. intros. unfold aloopP; simpl. split; [congruence|]. split; [congruence|constructor]. Qed.
Lemma aloopP_mono : forall {A} S S' c bs bs' (m : M A), 0 <= c -> S' <= S -> zlen bs' <= zlen bs ->
  aloopP S' c bs' m -> aloopP S c bs m.
Proof.
  intros A S S' c bs bs' m Hc HS Hl (X & Y & Z0). split; [exact X|]. split; [exact Y|].
  eapply Forall_impl; [|exact Z0]. cbv beta. intros a Ha. nia.
Qed.
Lemma aloopP_bind : forall {A C} S c bs B (pa : A -> Prop) (pf : M A) (f : A -> M C),
  good true B pa pf -> B <= c * S + 2 * zlen bs + 65536 -> (forall a, pa a -> aloopP S c bs (f a)) ->
  aloopP S c bs (bind pf f).
Proof.
  intros A C S c bs B pa pf f (G1 & G2 & G3 & G4) HB Hf.
  assert (Hsm : Forall (fun a => a <= c * S + 2 * zlen bs + 65536) (snd pf)).
  { eapply Forall_impl; [|exact G3]. cbv beta; intros. lia. }
  specialize (G1 eq_refl).
  destruct pf as [[a| | |] l]; unfold bind; cbn [fst snd] in *;
    try (exfalso; apply G1; reflexivity); try (exfalso; apply G2; reflexivity).
  - destruct (Hf a (G4 a eq_refl)) as (F1 & F2 & F3). split; [exact F1|]. split; [exact F2|].
    apply Forall_app; auto.
  - split; [discriminate|]. split; [discriminate|exact Hsm].
Qed.
Lemma good_aloopP : forall {A} S c bs B (p : A -> Prop) (m : M A),
  good true B p m -> B <= c * S + 2 * zlen bs + 65536 -> aloopP S c bs m.
Proof.
  intros A S c bs B p m (G1 & G2 & G3 & _) HB. split; [apply G1; reflexivity|]. split; [exact G2|].
  eapply Forall_impl; [|exact G3]. cbv beta; intros; lia.
Qed.
