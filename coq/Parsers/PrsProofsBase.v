(* Parsers: generic lemmas about the M monad, allocation requests and the byte reader. *)
From V Require Import Common.Base Parsers.PrsOutcome.

Definition bytes (l : list Z) : Prop := Forall (fun b => 0 <= b < 256) l.

Lemma bytes_firstn : forall n l, bytes l -> bytes (firstn n l).
Proof. induction n; intros [|x l] H; simpl; try constructor; inversion H; subst; auto. apply IHn; auto. Qed.
Lemma bytes_skipn : forall n l, bytes l -> bytes (skipn n l).
Proof. induction n; intros [|x l] H; simpl; auto. inversion H; subst. apply IHn; auto. Qed.
Lemma bytes_znth : forall l i, bytes l -> 0 <= znth l i 0 < 256.
Proof.
  intros l i H. unfold znth. destruct (i <? 0); [lia|].
  generalize (Z.to_nat i) as n. induction H; intros [|n]; simpl; try lia. apply IHForall.
Qed.

Lemma zlen_nonneg : forall {A} (l : list A), 0 <= zlen l.
Proof. intros; unfold zlen; lia. Qed.
Lemma zlen_cons : forall {A} (x : A) l, zlen (x :: l) = zlen l + 1.
Proof. intros; unfold zlen; simpl length; lia. Qed.
Lemma zlen_skipn_le : forall {A} n (l : list A), zlen (skipn n l) <= zlen l.
Proof. intros. unfold zlen. rewrite skipn_length. lia. Qed.

(* ---------- no-panic / no-fuel predicates ---------- *)
Definition np {A} (m : M A) : Prop := fst m <> Panic.
Definition nf {A} (m : M A) : Prop := fst m <> OutOfFuel.

Lemma np_ret : forall {A} (a : A), np (ret a). Proof. unfold np; simpl; congruence. Qed.
Lemma np_err : forall {A}, np (@err A). Proof. unfold np; simpl; congruence. Qed.
Lemma np_oof : forall {A}, np (@oof A). Proof. unfold np; simpl; congruence. Qed.
Lemma nf_ret : forall {A} (a : A), nf (ret a). Proof. unfold nf; simpl; congruence. Qed.
Lemma nf_err : forall {A}, nf (@err A). Proof. unfold nf; simpl; congruence. Qed.
Lemma nf_pan : forall {A}, nf (@pan A). Proof. unfold nf; simpl; congruence. Qed.

Lemma np_bind : forall {A B} (m : M A) (f : A -> M B),
  np m -> (forall a l, m = (Ok a, l) -> np (f a)) -> np (bind m f).
Proof.
  intros A B [[a| | |] l] f Hm Hf; unfold np, bind in *; simpl in *; try congruence.
  apply (Hf a l eq_refl).
Qed.
Lemma nf_bind : forall {A B} (m : M A) (f : A -> M B),
  nf m -> (forall a l, m = (Ok a, l) -> nf (f a)) -> nf (bind m f).
Proof.
  intros A B [[a| | |] l] f Hm Hf; unfold nf, bind in *; simpl in *; try congruence.
  apply (Hf a l eq_refl).
Qed.

Lemma bind_ok_inv : forall {A B} (m : M A) (f : A -> M B) b l,
  bind m f = (Ok b, l) -> exists a l1 l2, m = (Ok a, l1) /\ f a = (Ok b, l2) /\ l = l1 ++ l2.
Proof.
  intros A B [[a| | |] l1] f b l H; unfold bind in H; simpl in H; try discriminate.
  destruct (f a) as [o l2] eqn:E. simpl in H. inversion H; subst. exists a, l1, l2. auto.
Qed.

(* allocation requests of a bind *)
Lemma bind_allocs : forall {A B} (m : M A) (f : A -> M B) (P : Z -> Prop),
  Forall P (snd m) -> (forall a l, m = (Ok a, l) -> Forall P (snd (f a))) -> Forall P (snd (bind m f)).
Proof.
  intros A B [[a| | |] l] f P Hm Hf; unfold bind; simpl in *; auto.
  apply Forall_app. split; auto. apply (Hf a l eq_refl).
Qed.

Lemma lift_np : forall {A} (o : outcome A), o <> Panic -> np (lift o).
Proof. intros; unfold np, lift; simpl; auto. Qed.
Lemma lift_nf : forall {A} (o : outcome A), o <> OutOfFuel -> nf (lift o).
Proof. intros; unfold nf, lift; simpl; auto. Qed.
Lemma lift_ok_inv : forall {A} (o : outcome A) a l, lift o = (Ok a, l) -> o = Ok a /\ l = [].
Proof. unfold lift; intros; inversion H; auto. Qed.
Lemma lift_allocs : forall {A} (o : outcome A) P, Forall P (snd (lift o)).
Proof. intros; simpl; constructor. Qed.

(* alloc *)
Lemma alloc_np : forall n sz, 0 <= n -> n * sz <= maxAlloc -> np (alloc n sz).
Proof.
  intros n sz Hn Hs. unfold np, alloc.
  destruct (Z.ltb_spec n 0); [lia|]. destruct (Z.ltb_spec maxAlloc (n * sz)); [lia|]. simpl; congruence.
Qed.
Lemma alloc_nf : forall n sz, nf (alloc n sz).
Proof. intros. unfold nf, alloc. destruct ((n <? 0) || (maxAlloc <? n * sz)); simpl; congruence. Qed.
Lemma alloc_allocs : forall n sz (P : Z -> Prop), P (n * sz) -> Forall P (snd (alloc n sz)).
Proof. intros. unfold alloc. destruct ((n <? 0) || (maxAlloc <? n * sz)); simpl; auto. Qed.
Lemma note_np : forall n, np (note_alloc n). Proof. unfold np, note_alloc; simpl; congruence. Qed.
Lemma note_nf : forall n, nf (note_alloc n). Proof. unfold nf, note_alloc; simpl; congruence. Qed.
Lemma note_allocs : forall n (P : Z -> Prop), P n -> Forall P (snd (note_alloc n)).
Proof. intros; unfold note_alloc; simpl; auto. Qed.

Lemma maxAlloc_val : maxAlloc = 281474976710656. Proof. reflexivity. Qed.

(* idx *)
Lemma idx_np : forall l i, 0 <= i < zlen l -> np (idx l i).
Proof.
  intros. unfold np, idx. destruct (Z.ltb_spec i 0); [lia|]. destruct (Z.leb_spec (zlen l) i); [lia|]. simpl; congruence.
Qed.
Lemma idx_nf : forall l i, nf (idx l i).
Proof. intros; unfold nf, idx. destruct ((i <? 0) || (zlen l <=? i)); simpl; congruence. Qed.
Lemma idx_ok_inv : forall l i v a, idx l i = (Ok v, a) -> v = znth l i 0 /\ a = [].
Proof. unfold idx; intros. destruct ((i <? 0) || (zlen l <=? i)); inversion H; auto. Qed.
Lemma idx_allocs : forall l i P, Forall P (snd (idx l i)).
Proof. intros; unfold idx. destruct ((i <? 0) || (zlen l <=? i)); simpl; constructor. Qed.

(* ---------- reader ---------- *)
Lemma skip_ff_ok : forall bs m r, skip_ff bs = Ok (m, r) ->
  (length r < length bs)%nat /\ (bytes bs -> bytes r /\ 0 <= m < 256).
Proof.
  induction bs as [|b bs IH]; simpl; intros m r H; [discriminate|].
  destruct (b =? 255).
  - destruct (IH _ _ H) as [H1 H2]. split; [lia|]. intros Hb. inversion Hb; subst. auto.
  - destruct (b =? 0); [discriminate|]. inversion H; subst. split; [lia|].
    intros Hb. inversion Hb; subst. auto.
Qed.
Lemma read_marker_ok : forall bs m r, read_marker bs = Ok (m, r) ->
  (S (length r) < length bs)%nat /\ (bytes bs -> bytes r /\ 0 <= m < 256).
Proof.
  intros [|b bs] m r H; simpl in H; [discriminate|].
  destruct (b =? 255); [|discriminate].
  destruct (skip_ff_ok _ _ _ H) as [H1 H2]. split; [simpl; lia|].
  intros Hb. inversion Hb; subst. auto.
Qed.
Lemma skip_ff_not : forall bs, skip_ff bs <> Panic /\ skip_ff bs <> OutOfFuel.
Proof.
  induction bs as [|b bs IH]; simpl; [split; congruence|].
  destruct (b =? 255); auto. destruct (b =? 0); split; congruence.
Qed.
Lemma read_marker_not : forall bs, read_marker bs <> Panic /\ read_marker bs <> OutOfFuel.
Proof.
  intros [|b bs]; simpl; [split; congruence|]. destruct (b =? 255); [apply skip_ff_not|split; congruence].
Qed.

Lemma be_bound : forall a b, 0 <= a < 256 -> 0 <= b < 256 -> 0 <= a * 256 + b <= 65535.
Proof. intros; lia. Qed.

(* read_segment *)
Lemma read_segment_np : forall bs, bytes bs -> np (read_segment bs).
Proof.
  intros bs Hb. unfold read_segment, read_u16.
  destruct bs as [|a [|b r]]; try apply np_err.
  inversion Hb as [|? ? Ha Hb']; subst. inversion Hb' as [|? ? Hb2 Hr]; subst.
  destruct (Z.ltb_spec (a * 256 + b) 2); [apply np_err|].
  apply np_bind.
  - apply alloc_np; [lia|]. rewrite maxAlloc_val. lia.
  - intros [] l _. destruct (zlen r <? a * 256 + b - 2); [apply np_err|apply np_ret].
Qed.
Lemma read_segment_nf : forall bs, nf (read_segment bs).
Proof.
  intros bs. unfold read_segment, read_u16.
  destruct bs as [|a [|b r]]; try apply nf_err.
  destruct (a * 256 + b <? 2); [apply nf_err|].
  apply nf_bind; [apply alloc_nf|]. intros [] l _.
  destruct (zlen r <? a * 256 + b - 2); [apply nf_err|apply nf_ret].
Qed.
Lemma read_segment_ok : forall bs d rest l, read_segment bs = (Ok (d, rest), l) ->
  (length rest <= length bs)%nat /\ (bytes bs -> bytes d /\ bytes rest /\ zlen d <= 65533).
Proof.
  intros bs d rest l H. unfold read_segment, read_u16 in H.
  destruct bs as [|a [|b r]]; try (inversion H; fail).
  destruct (Z.ltb_spec (a * 256 + b) 2); [inversion H|].
  apply bind_ok_inv in H. destruct H as ([] & l1 & l2 & Ha & Hr & ->).
  destruct (Z.ltb_spec (zlen r) (a * 256 + b - 2)); [inversion Hr|].
  inversion Hr; subst. clear Hr. split.
  - simpl length. rewrite skipn_length. lia.
  - intros Hb. inversion Hb as [|? ? Hba Hb']; subst. inversion Hb' as [|? ? Hbb Hbr]; subst.
    split; [apply bytes_firstn; auto|]. split; [apply bytes_skipn; auto|].
    unfold zlen. rewrite firstn_length. lia.
Qed.

(* every request of read_segment is a segment buffer: at most 65533 bytes (for byte input) *)
Lemma read_segment_allocs : forall bs, bytes bs -> Forall (fun a => a <= 65533) (snd (read_segment bs)).
Proof.
  intros bs Hb. unfold read_segment, read_u16.
  destruct bs as [|a [|b r]]; try (simpl; constructor).
  inversion Hb as [|? ? Ha Hb']; subst. inversion Hb' as [|? ? Hb2 Hr]; subst.
  destruct (Z.ltb_spec (a * 256 + b) 2); [simpl; constructor|].
  apply bind_allocs.
  - apply alloc_allocs. lia.
  - intros [] l _. destruct (zlen r <? a * 256 + b - 2); simpl; constructor.
Qed.
