(* EXTRACT *)
(* JPEG (T.81) decoders: header parsing up to the start of the entropy-coded scan.
     huff_build            = jpeg/standard/huffman.go  HuffmanTable.Build: validation and the index
                             arithmetic of the lookup fill (lookupTable[base+j], Values[p]); the
                             min/max code loop has no index expression that depends on data
     dht_tables            = the table loop shared by parseDHT of jpeg/lossless, jpeg/lossless14sv1
                             and jpeg/baseline (all three call table.Build() and return its error)
     jll_*                 = jpeg/lossless/decoder.go      parseSOF3 / parseDHT / parseSOS / Decode loop
     sv1_*                 = jpeg/lossless14sv1/decoder.go parseSOF3 / parseDHT / parseSOS / Decode loop
   Result Ok (w,h,c,precision): the decoder has reached the entropy decoder (or, SV1, the EOI
   exit) with this header.
   The model is the fixed code (F37 Build validation, F44 second frame header rejected). *)
From V Require Import Common.Base Parsers.PrsOutcome.

(* HuffmanTable.Build (after fix f8ccf3b, finding F37).
   1. validation loop over the 16 code lengths: Bits[l] >= 0; next += Bits[l]; next <= 2^(l+1)
      (canonical code of the last symbol of that length fits); next <<= 1; total <= len(Values)
      -> ErrInvalidDHT otherwise.
   2. lookup fill for l < 8, closed form per length with n = Bits[l] > 0 codes starting at value
      index p and canonical code cn: touches Values[p .. p+n-1] and
      lookupTable[cn*2^(7-l) .. (cn+n)*2^(7-l) - 1]; both index sets are monotone, the last decides.
      The index checks are explicit (Panic) - the theorem shows they cannot fail after step 1.
   Before the fix the lookup used p<<(7-l) without validation: BITS = 3,0,.. panicked with
   index 256. *)
Fixpoint huff_validate (bits : list Z) (l next total : Z) : option Z :=
  match bits with
  | [] => Some total
  | n :: rest =>
    if n <? 0 then None
    else if 2 ^ (l + 1) <? next + n then None
    else huff_validate rest (l + 1) (2 * (next + n)) (total + n)
  end.

Fixpoint huff_fill (bits : list Z) (l p cn nvals : Z) : outcome unit :=
  match bits with
  | [] => Ok tt
  | n :: rest =>
    if 8 <=? l then Ok tt
    else if n <=? 0 then huff_fill rest (l + 1) p (2 * cn) nvals
    else if (nvals <? p + n) || (256 <? (cn + n) * 2 ^ (7 - l)) then Panic
    else huff_fill rest (l + 1) (p + n) (2 * (cn + n)) nvals
  end.

Definition huff_build (bits : list Z) (nvals : Z) : outcome unit :=
  match huff_validate bits 0 0 0 with
  | None => Err
  | Some total => if nvals <? total then Err else huff_fill bits 0 0 0 nvals
  end.

Fixpoint zsum (l : list Z) : Z := match l with [] => 0 | x :: r => x + zsum r end.

(* the DHT table loop. defined : which of the 4 DC destinations hold a table (class 0 only is
   recorded by the lossless decoders; baseline keeps AC too: acdef) *)
Fixpoint set_nth (l : list bool) (i : nat) : list bool :=
  match l, i with
  | [], _ => []
  | _ :: r, O => true :: r
  | x :: r, S k => x :: set_nth r k
  end.

Fixpoint dht_tables (fuel : nat) (data : list Z) (dc ac : list bool) : M (list bool * list bool) :=
  match fuel with
  | O => oof
  | S k =>
    match data with
    | [] => ret (dc, ac)
    | tcth :: r =>
      let th := tcth mod 16 in
      let tc := tcth / 16 in
      if 4 <=? th then err else
      if zlen r <? 16 then err else
      let bits := firstn 16 r in
      let total := zsum bits in
      let r2 := skipn 16 r in
      if zlen r2 <? total then err else
      _ <- alloc total 1 ;;
      _ <- lift (huff_build bits total) ;;
      let dc' := if tc =? 0 then set_nth dc (Z.to_nat th) else dc in
      let ac' := if tc =? 0 then ac else set_nth ac (Z.to_nat th) in
      dht_tables k (skipn (Z.to_nat total) r2) dc' ac'
    end
  end.

Definition parse_dht (bs : list Z) (dc ac : list bool) : M (list bool * list bool * list Z) :=
  sr <- read_segment bs ;;
  t <- dht_tables (S (length (fst sr))) (fst sr) dc ac ;;
  ret (fst t, snd t, snd sr).

Definition be16j (l : list Z) (o : Z) : Z := znth l o 0 * 256 + znth l (o + 1) 0.

Record jst := mkJ { j_w : Z; j_h : Z; j_c : Z; j_prec : Z; j_dc : list bool; j_ac : list bool; j_ids : list Z }.
Definition jst0 : jst := mkJ 0 0 0 0 [false; false; false; false] [false; false; false; false] [].

Definition jhdr : Type := (Z * Z * Z * Z)%type.

(* ---------------- jpeg/lossless ---------------- *)

Definition jll_parse_sof3 (st : jst) (bs : list Z) : M (jst * list Z) :=
  sr <- read_segment bs ;;
  let '(data, rest) := sr in
  if zlen data <? 6 then err else
  if negb (j_w st =? 0) || negb (j_h st =? 0) then err else   (* second frame header *)
  let p := znth data 0 0 in
  (* d.precision is assigned before the range check; an error ends Decode, so the state does not matter *)
  if (p <? 2) || (16 <? p) then err else
  let h := be16j data 1 in
  let w := be16j data 3 in
  let c := znth data 5 0 in
  if (w <=? 0) || (h <=? 0) then err else
  if negb ((c =? 1) || (c =? 3)) then err else
  ret (mkJ w h c p (j_dc st) (j_ac st) (j_ids st), rest).

Fixpoint jll_selectors (data : list Z) (k : nat) (comp : Z) : M unit :=
  match k with
  | O => ret tt
  | S k' =>
    v <- idx data (2 + comp * 2) ;;
    if 4 <=? v / 16 then err else jll_selectors data k' (comp + 1)
  end.

Definition jll_parse_sos (st : jst) (bs : list Z) : M (jst * list Z) :=
  sr <- read_segment bs ;;
  let '(data, rest) := sr in
  if zlen data <? 1 + j_c st * 2 + 3 then err else
  n <- idx data 0 ;;
  if negb (n =? j_c st) then err else
  pr <- idx data (1 + j_c st * 2) ;;
  if (pr <? 1) || (7 <? pr) then err else
  _ <- jll_selectors data (Z.to_nat (j_c st)) 0 ;;
  ret (st, rest).

(* decodeScan: scan buffer, make([][]int, c) and c times make([]int, w*h); samplesToPixels output *)
Definition jll_scan_allocs (st : jst) (rest : list Z) : M unit :=
  _ <- note_alloc (2 * zlen rest + 512) ;;
  _ <- alloc (j_c st) 24 ;;
  _ <- (if j_c st =? 0 then ret tt else alloc (j_w st * j_h st) 8) ;;
  _ <- (if j_c st =? 3 then _ <- alloc (j_w st * j_h st) 8 ;; alloc (j_w st * j_h st) 8 else ret tt) ;;
  alloc (j_w st * j_h st * j_c st * ((j_prec st + 7) / 8)) 1.

Fixpoint jll_loop (fuel : nat) (st : jst) (bs : list Z) : M jhdr :=
  match fuel with
  | O => oof
  | S k =>
    match read_marker bs with
    | Ok (m, r) =>
      if m =? 195 then x <- jll_parse_sof3 st r ;; jll_loop k (fst x) (snd x)
      else if m =? 196 then
        x <- parse_dht r (j_dc st) (j_ac st) ;;
        jll_loop k (mkJ (j_w st) (j_h st) (j_c st) (j_prec st) (fst (fst x)) (j_ac st) (j_ids st)) (snd x)
      else if m =? 218 then
        x <- jll_parse_sos st r ;;
        _ <- jll_scan_allocs (fst x) (snd x) ;;
        ret (j_w st, j_h st, j_c st, j_prec st)
      else if m =? 217 then err
      else if is_sof m then err   (* F47: frame header of a process this decoder does not implement *)
      else if has_length m then x <- read_segment r ;; jll_loop k st (snd x)
      else jll_loop k st r
    | _ => err
    end
  end.

Definition jll_decode (fuel : nat) (bs : list Z) : M jhdr :=
  match read_marker bs with
  | Ok (m, r) => if m =? 216 then jll_loop fuel jst0 r else err
  | _ => err
  end.

(* ---------------- jpeg/lossless14sv1 ---------------- *)

(* component loop of parseSOF3: make([]int, w*h) per component BEFORE the sampling factor check;
   the check applies only when numComponents (c) > 1 (F54: it was unconditional and rejected
   conformant greyscale frames with H1 = V1 <> 1) *)
Fixpoint sv1_comps (c : Z) (data : list Z) (k : nat) (i : Z) (w h : Z) (ids : list Z) : M (list Z) :=
  match k with
  | O => ret ids
  | S k' =>
    id <- idx data (6 + i * 3) ;;
    hv <- idx data (6 + i * 3 + 1) ;;
    _ <- alloc (w * h) 8 ;;
    if (1 <? c) && negb ((hv / 16 =? 1) && (hv mod 16 =? 1)) then err
    else sv1_comps c data k' (i + 1) w h (ids ++ [id])
  end.

Definition sv1_parse_sof3 (st : jst) (bs : list Z) : M (jst * list Z) :=
  sr <- read_segment bs ;;
  let '(data, rest) := sr in
  if zlen data <? 6 then err else
  if negb (j_w st =? 0) || negb (j_h st =? 0) then err else   (* second frame header *)
  let p := znth data 0 0 in
  if (p <? 2) || (16 <? p) then err else
  let h := be16j data 1 in
  let w := be16j data 3 in
  let c := znth data 5 0 in
  if (w <=? 0) || (h <=? 0) then err else
  if negb ((c =? 1) || (c =? 3)) then err else
  if zlen data <? 6 + c * 3 then err else
  _ <- alloc c 8 ;;
  ids <- sv1_comps c data (Z.to_nat c) 0 w h [] ;;
  ret (mkJ w h c p (j_dc st) (j_ac st) ids, rest).

Fixpoint sv1_scan_comps (data : list Z) (ids : list Z) (k : nat) (i : Z) : M unit :=
  match k with
  | O => ret tt
  | S k' =>
    cs <- idx data (1 + i * 2) ;;
    td <- idx data (1 + i * 2 + 1) ;;
    if negb (existsb (fun id => id =? cs) ids) then err
    else if 4 <=? td / 16 then err
    else sv1_scan_comps data ids k' (i + 1)
  end.

Definition sv1_parse_sos (st : jst) (bs : list Z) : M (jst * list Z) :=
  sr <- read_segment bs ;;
  let '(data, rest) := sr in
  if zlen data <? 1 then err else
  ns <- idx data 0 ;;
  if zlen data <? 1 + ns * 2 + 3 then err else
  _ <- sv1_scan_comps data (j_ids st) (Z.to_nat ns) 0 ;;
  pr <- idx data (1 + ns * 2) ;;
  if negb (pr =? 1) then err else ret (st, rest).

(* convertToPixels output buffer *)
Definition sv1_out_alloc (st : jst) : M unit :=
  alloc (j_w st * j_h st * zlen (j_ids st) * ((j_prec st + 7) / 8)) 1.

Fixpoint sv1_loop (fuel : nat) (st : jst) (bs : list Z) : M jhdr :=
  match fuel with
  | O => oof
  | S k =>
    match read_marker bs with
    | Ok (m, r) =>
      if m =? 195 then x <- sv1_parse_sof3 st r ;; sv1_loop k (fst x) (snd x)
      else if m =? 196 then
        x <- parse_dht r (j_dc st) (j_ac st) ;;
        sv1_loop k (mkJ (j_w st) (j_h st) (j_c st) (j_prec st) (fst (fst x)) (j_ac st) (j_ids st)) (snd x)
      else if m =? 218 then
        x <- sv1_parse_sos st r ;;
        _ <- note_alloc (2 * zlen (snd x) + 512) ;;
        _ <- sv1_out_alloc st ;;
        ret (j_w st, j_h st, zlen (j_ids st), j_prec st)
      else if m =? 217 then
        _ <- sv1_out_alloc st ;;
        ret (j_w st, j_h st, zlen (j_ids st), j_prec st)
      else if is_sof m then err   (* F47: frame header of a process this decoder does not implement *)
      else if has_length m then x <- read_segment r ;; sv1_loop k st (snd x)
      else sv1_loop k st r
    | _ => err
    end
  end.

Definition sv1_decode (fuel : nat) (bs : list Z) : M jhdr :=
  match read_marker bs with
  | Ok (m, r) => if m =? 216 then sv1_loop fuel jst0 r else err
  | _ => err
  end.
