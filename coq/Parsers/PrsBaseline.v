(* EXTRACT *)
(* JPEG baseline decoder, jpeg/baseline/decoder.go: header parsing and the first steps of the scan.
     bl_parse_sof   = parseSOF   (component table, MCU geometry, comp.data allocations)
     bl_parse_dqt   = parseDQT   (index arithmetic on qtables[4][64])
     parse_dht      = parseDHT   (PrsJpeg.v, table.Build())
     bl_parse_dri   = parseDRI
     bl_parse_sos   = parseSOS   (Td, Ta stored unchecked: 0..15)
     bl_scan_start  = decodeScan up to the first decodeBlock: DivCeil(width, mcuWidth),
                      DivCeil(height, mcuHeight), then d.dcTables[comp.dcTableSelector] of the first
                      component (the 4-entry array). What follows depends on entropy-coded data
                      (acTables[Ta], qtables[Tq] are reached only after Huffman decoding) and is not modelled.
     bl_decode      = Decode: marker loop, SOS exit, EOI exit (convertToPixels allocation)
   The model is the fixed code (9186ffd, findings F42/F43: parseSOF rejects Tq > 3, parseSOS rejects
   Td > 3 or Ta > 3 and a scan without frame header or with Ns = 0; 16f659a: second SOF0 rejected).
   Before: SOS with Ns = 0 and no SOF0 -> DivCeil(0,0); Td = 4 -> dcTables[4]. The index and
   division checks stay explicit in the model; the theorems show they cannot fail. *)
From V Require Import Common.Base Parsers.PrsOutcome Parsers.PrsJpeg.

Record bcomp := mkBC { bc_id : Z; bc_h : Z; bc_v : Z; bc_tq : Z; bc_td : Z; bc_ta : Z }.

Record bst := mkB { b_w : Z; b_h : Z; b_comps : list bcomp; b_mcuw : Z; b_mcuh : Z;
                    b_dc : list bool; b_ac : list bool; b_ri : Z }.
Definition bst0 : bst := mkB 0 0 [] 0 0 [false; false; false; false] [false; false; false; false] 0.

(* DivCeil(a, b) = (a + b - 1) / b ; Go integer division panics on b = 0 *)
Definition div_ceil (a b : Z) : M Z := if b =? 0 then pan else ret (Z.quot (a + b - 1) b).

(* component loop of parseSOF *)
Fixpoint bl_comps (data : list Z) (k : nat) (i : Z) (acc : list bcomp) (maxh maxv : Z) : M (list bcomp * Z * Z) :=
  match k with
  | O => ret (acc, maxh, maxv)
  | S k' =>
    id <- idx data (6 + i * 3) ;;
    hv <- idx data (6 + i * 3 + 1) ;;
    tq <- idx data (6 + i * 3 + 2) ;;
    let h := hv / 16 in
    let v := hv mod 16 in
    if (h <=? 0) || (4 <? h) || (v <=? 0) || (4 <? v) then err else
    if 3 <? tq then err else
    bl_comps data k' (i + 1) (acc ++ [mkBC id h v tq 0 0]) (Z.max maxh h) (Z.max maxv v)
  end.

Fixpoint bl_comp_allocs (cs : list bcomp) (mcucols mcurows : Z) : M unit :=
  match cs with
  | [] => ret tt
  | c :: r => _ <- alloc (mcucols * bc_h c * (mcurows * bc_v c) * 64) 1 ;; bl_comp_allocs r mcucols mcurows
  end.

Definition bl_parse_sof (st : bst) (bs : list Z) : M (bst * list Z) :=
  sr <- read_segment bs ;;
  let '(data, rest) := sr in
  if zlen data <? 6 then err else
  if negb (b_w st =? 0) || negb (b_h st =? 0) then err else   (* second frame header *)
  if negb (znth data 0 0 =? 8) then err else
  let h := be16j data 1 in
  let w := be16j data 3 in
  let n := znth data 5 0 in
  if (w <=? 0) || (h <=? 0) then err else
  if negb ((n =? 1) || (n =? 3)) then err else
  if zlen data <? 6 + n * 3 then err else
  _ <- alloc n 8 ;;
  x <- bl_comps data (Z.to_nat n) 0 [] 1 1 ;;
  let '(cs, maxh, maxv) := x in
  mcucols <- div_ceil w (maxh * 8) ;;
  mcurows <- div_ceil h (maxv * 8) ;;
  _ <- bl_comp_allocs cs mcucols mcurows ;;
  ret (mkB w h cs (maxh * 8) (maxv * 8) (b_dc st) (b_ac st) (b_ri st), rest).

(* parseDQT: only the table index tq (checked) and ZigZag[i] (constant table) index the arrays *)
Fixpoint bl_dqt_loop (fuel : nat) (data : list Z) : M unit :=
  match fuel with
  | O => oof
  | S k =>
    match data with
    | [] => ret tt
    | pqtq :: r =>
      if 3 <? pqtq mod 16 then err else
      if pqtq / 16 =? 0 then
        if zlen r <? 64 then err else bl_dqt_loop k (skipn 64 r)
      else
        if zlen r <? 128 then err else bl_dqt_loop k (skipn 128 r)
    end
  end.
Definition bl_parse_dqt (bs : list Z) : M (list Z) :=
  sr <- read_segment bs ;;
  _ <- bl_dqt_loop (S (length (fst sr))) (fst sr) ;;
  ret (snd sr).

Definition bl_parse_dri (st : bst) (bs : list Z) : M (bst * list Z) :=
  sr <- read_segment bs ;;
  if negb (zlen (fst sr) =? 2) then err
  else ret (mkB (b_w st) (b_h st) (b_comps st) (b_mcuw st) (b_mcuh st) (b_dc st) (b_ac st) (be16j (fst sr) 0), snd sr).

Fixpoint set_sel (cs : list bcomp) (id td ta : Z) : option (list bcomp) :=
  match cs with
  | [] => None
  | c :: r =>
    if bc_id c =? id then Some (mkBC (bc_id c) (bc_h c) (bc_v c) (bc_tq c) td ta :: r)
    else match set_sel r id td ta with Some r' => Some (c :: r') | None => None end
  end.

Fixpoint bl_sos_comps (data : list Z) (k : nat) (i : Z) (cs : list bcomp) : M (list bcomp) :=
  match k with
  | O => ret cs
  | S k' =>
    c <- idx data (1 + i * 2) ;;
    t <- idx data (1 + i * 2 + 1) ;;
    match set_sel cs c (t / 16) (t mod 16) with
    | None => err
    | Some cs' =>
      if (3 <? t / 16) || (3 <? t mod 16) then err
      else bl_sos_comps data k' (i + 1) cs'
    end
  end.

Definition bl_parse_sos (st : bst) (bs : list Z) : M (bst * list Z) :=
  sr <- read_segment bs ;;
  let '(data, rest) := sr in
  if zlen data <? 1 then err else
  ns <- idx data 0 ;;
  if zlen data <? 1 + ns * 2 + 3 then err else
  if (zlen (b_comps st) =? 0) || (ns =? 0) then err else
  cs <- bl_sos_comps data (Z.to_nat ns) 0 (b_comps st) ;;
  ret (mkB (b_w st) (b_h st) cs (b_mcuw st) (b_mcuh st) (b_dc st) (b_ac st) (b_ri st), rest).

(* decodeScan: scan buffer (and its per-interval copies, bounded by the input), the two DivCeil,
   then - if there is at least one MCU and one component - decodeBlock's first statement *)
Definition bl_scan_start (st : bst) (rest : list Z) : M unit :=
  _ <- note_alloc (2 * zlen rest + 512) ;;   (* scan buffer (bytes.Buffer growth) *)
  _ <- note_alloc (zlen rest) ;;             (* copies of the restart intervals: each at most the scan length *)
  mcucols <- div_ceil (b_w st) (b_mcuw st) ;;
  mcurows <- div_ceil (b_h st) (b_mcuh st) ;;
  if (mcucols <=? 0) || (mcurows <=? 0) then ret tt else
  match b_comps st with
  | [] => ret tt
  | c :: _ =>
    if (bc_td c <? 0) || (4 <=? bc_td c) then pan   (* d.dcTables[comp.dcTableSelector] *)
    else if negb (nth (Z.to_nat (bc_td c)) (b_dc st) false) then err   (* table == nil *)
    else ret tt
  end.

(* convertToPixels: make([]byte, width*height*numComponents) *)
Definition bl_out_alloc (st : bst) : M unit := alloc (b_w st * b_h st * zlen (b_comps st)) 1.

Fixpoint bl_loop (fuel : nat) (st : bst) (bs : list Z) : M jhdr :=
  match fuel with
  | O => oof
  | S k =>
    match read_marker bs with
    | Ok (m, r) =>
      if m =? 192 then x <- bl_parse_sof st r ;; bl_loop k (fst x) (snd x)
      else if m =? 219 then r2 <- bl_parse_dqt r ;; bl_loop k st r2
      else if m =? 196 then
        x <- parse_dht r (b_dc st) (b_ac st) ;;
        bl_loop k (mkB (b_w st) (b_h st) (b_comps st) (b_mcuw st) (b_mcuh st) (fst (fst x)) (snd (fst x)) (b_ri st)) (snd x)
      else if m =? 221 then x <- bl_parse_dri st r ;; bl_loop k (fst x) (snd x)
      else if m =? 218 then
        x <- bl_parse_sos st r ;;
        _ <- bl_scan_start (fst x) (snd x) ;;
        _ <- bl_out_alloc (fst x) ;;
        ret (b_w st, b_h st, zlen (b_comps st), 8)
      else if m =? 217 then
        _ <- bl_out_alloc st ;;
        ret (b_w st, b_h st, zlen (b_comps st), 8)
      else if is_sof m then err   (* F47: frame header of a process this decoder does not implement *)
      else if has_length m then x <- read_segment r ;; bl_loop k st (snd x)
      else bl_loop k st r
    | _ => err
    end
  end.

Definition bl_decode (fuel : nat) (bs : list Z) : M jhdr :=
  match read_marker bs with
  | Ok (m, r) => if m =? 216 then bl_loop fuel bst0 r else err
  | _ => err
  end.
