(* Parsers: the output allocation of the RLE decoder for arbitrary frame descriptions. *)
From V Require Import Common.Base Parsers.PrsOutcome Parsers.PrsRle Parsers.PrsProofsBase.

Definition u16 (x : Z) : Prop := 0 <= x < 65536.

Lemma rle_bytes_allocated_range : forall ba, 1 <= ba < 65536 -> 1 <= rle_bytes_allocated ba <= 8192.
Proof.
  intros ba H. unfold rle_bytes_allocated, wrapU. change (2 ^ 16) with 65536.
  rewrite (Z.mod_small (ba - 1)) by lia.
  assert (0 <= (ba - 1) / 8 <= 8191).
  { split; [apply Z.div_pos; lia|]. assert ((ba - 1) / 8 < 8192) by (apply Z.div_lt_upper_bound; lia). lia. }
  rewrite Z.mod_small by lia. lia.
Qed.

(* F45: for every frame description and every source frame: no panic, and the single request is at
   most 15 bytes per declared sample (the stream's own segment count, <= 15, is checked first) *)
Theorem rle_frame_prefix_good : forall w h ba spp data, u16 w -> u16 h -> u16 ba -> u16 spp ->
  fst (rle_frame_prefix w h ba spp data) <> Panic /\ fst (rle_frame_prefix w h ba spp data) <> OutOfFuel /\
  Forall (fun a => a <= 15 * (w * h * spp) + 1) (snd (rle_frame_prefix w h ba spp data)).
Proof.
  intros w h ba spp data Hw Hh Hba Hs. unfold rle_frame_prefix, u16 in *.
  assert (T : forall X : M unit, X = err -> fst X <> Panic /\ fst X <> OutOfFuel /\ Forall (fun a => a <= 15 * (w * h * spp) + 1) (snd X)).
  { intros X ->. simpl. repeat split; try congruence. constructor. }
  destruct (zlen data =? 0); [apply T; reflexivity|].
  destruct ((w =? 0) || (h =? 0)) eqn:Ewh; [apply T; reflexivity|].
  destruct (Z.eqb_spec ba 0); [apply T; reflexivity|].
  apply orb_false_iff in Ewh. destruct Ewh as [E1 E2]. apply Z.eqb_neq in E1. apply Z.eqb_neq in E2.
  pose proof (rle_bytes_allocated_range ba ltac:(lia)) as Hb.
  set (b := rle_bytes_allocated ba) in *.
  destruct (zlen data <? 64); [apply T; reflexivity|].
  destruct ((le32 data 0 <? 1) || (15 <? le32 data 0)) eqn:En; [apply T; reflexivity|].
  apply orb_false_iff in En. destruct En as [N1 N2]. apply Z.ltb_ge in N1. apply Z.ltb_ge in N2.
  destruct (negb (rle_offsets_ok data (Z.to_nat (le32 data 0)) 0)); [apply T; reflexivity|].
  destruct (Z.eqb_spec (le32 data 0) (b * spp)); cbn [negb]; [|apply T; reflexivity].
  assert (Hbs : 1 <= b * spp <= 15) by lia.
  assert (Hspp : 1 <= spp) by nia.
  assert (Hwh : 1 <= w * h <= 65535 * 65535) by nia.
  assert (Hfs : 0 <= b * spp * w * h <= 15 * (w * h)) by nia.
  assert (HS : w * h <= w * h * spp) by nia.
  unfold alloc.
  set (fs := b * spp * w * h) in *.
  assert (Hn : 0 <= (if Z.odd fs then fs + 1 else fs) <= fs + 1) by (destruct (Z.odd fs); lia).
  destruct (Z.ltb_spec (if Z.odd fs then fs + 1 else fs) 0); [lia|].
  destruct (Z.ltb_spec maxAlloc ((if Z.odd fs then fs + 1 else fs) * 1)); [rewrite maxAlloc_val in *; lia|].
  cbn [orb fst snd]. repeat split; try congruence. constructor; [lia|constructor].
Qed.
