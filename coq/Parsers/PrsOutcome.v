(* EXTRACT *)
(* Parsers area, shared definitions.
   1. M A = outcome A * list Z : result of a panic-explicit model together with the list of
      allocation requests (in bytes, program order) it has issued so far.
   2. byte reader: jpeg/standard/reader.go  Reader.ReadByte / ReadUint16 / ReadMarker /
      ReadSegment over a bytes.Reader, as a function on the remaining byte list.
   3. Go int (64 bit) helpers.
   The parser models are transliterations of the code as it stands in /repo (after the fixes of
   findings F36-F46); every slice index, division and make() is an explicit check. *)
From V Require Import Common.Base.

Definition M (A : Type) : Type := (outcome A * list Z)%type.

Definition ret {A} (a : A) : M A := (Ok a, []).
Definition err {A} : M A := (Err, []).
Definition pan {A} : M A := (Panic, []).
Definition oof {A} : M A := (OutOfFuel, []).

Definition bind {A B} (m : M A) (f : A -> M B) : M B :=
  match m with
  | (Ok a, l) => let r := f a in (fst r, l ++ snd r)
  | (Err, l) => (Err, l)
  | (Panic, l) => (Panic, l)
  | (OutOfFuel, l) => (OutOfFuel, l)
  end.

Notation "x <- m ;; f" := (bind m (fun x => f)) (at level 61, m at next level, right associativity).

(* Go: make([]T, n) with elements of sz bytes. runtime.makeslice panics ("len out of
   range") when n < 0 or n*sz exceeds maxAlloc = 2^48 (linux/amd64). Otherwise the request
   of n*sz bytes is recorded. A request that the OS cannot satisfy is a fatal error, not a
   panic: that is what the C09 bound on the recorded requests is about. *)
Definition maxAlloc : Z := 2 ^ 48.
Definition alloc (n sz : Z) : M unit :=
  if (n <? 0) || (maxAlloc <? n * sz) then (Panic, [n * sz]) else (Ok tt, [n * sz]).

(* a request whose size is not computed from header fields by the code under test
   (bytes.Buffer growth, append): recorded, cannot panic *)
Definition note_alloc (n : Z) : M unit := (Ok tt, [n]).

(* Go int is 64 bit two's complement. *)
Definition i64 (x : Z) : Z := wrapS 64 x.
(* 1 << uint(k) on int: 0 for k >= 64 *)
Definition shl1 (k : Z) : Z := if 64 <=? k then 0 else i64 (2 ^ k).

(* ---------------- reader ---------------- *)

(* ReadByte *)
Definition read_byte (bs : list Z) : outcome (Z * list Z) :=
  match bs with [] => Err | b :: r => Ok (b, r) end.

(* ReadUint16: io.ReadFull of 2 bytes, big endian *)
Definition read_u16 (bs : list Z) : outcome (Z * list Z) :=
  match bs with
  | a :: b :: r => Ok (a * 256 + b, r)
  | _ => Err
  end.

(* ReadMarker: first byte must be 0xFF; skip further 0xFF; 0x00 is not a marker.
   Returns the second marker byte (marker = 0xFF00 | m). *)
Fixpoint skip_ff (bs : list Z) : outcome (Z * list Z) :=
  match bs with
  | [] => Err
  | b :: r => if b =? 255 then skip_ff r else if b =? 0 then Err else Ok (b, r)
  end.
Definition read_marker (bs : list Z) : outcome (Z * list Z) :=
  match bs with
  | [] => Err
  | b :: r => if b =? 255 then skip_ff r else Err
  end.

(* ReadSegment: length L >= 2, make([]byte, L-2), io.ReadFull. *)
Definition read_segment (bs : list Z) : M (list Z * list Z) :=
  match read_u16 bs with
  | Ok (len, r) =>
      if len <? 2 then err
      else
        _ <- alloc (len - 2) 1 ;;
        if zlen r <? len - 2 then err
        else ret (firstn (Z.to_nat (len - 2)) r, skipn (Z.to_nat (len - 2)) r)
  | _ => err
  end.

(* HasLength(marker): all but SOI, EOI, RSTn *)
Definition has_length (m : Z) : bool :=
  negb ((m =? 216) || (m =? 217) || ((208 <=? m) && (m <=? 215))).

(* data[i] with Go's bounds check *)
Definition idx (l : list Z) (i : Z) : M Z :=
  if (i <? 0) || (zlen l <=? i) then pan else ret (znth l i 0).

(* lifting an outcome into M *)
Definition lift {A} (o : outcome A) : M A := (o, []).

Definition fuel_of (bs : list Z) : nat := S (S (length bs)).

(* ---------------- the frame header of a stream ----------------
   seg_data / seg_rest: payload and remainder of a marker segment, from its length field alone.
   is_sof: standard.IsSOF(marker) || marker == 0xFFF7 (C0-C3, C5-C7, C9-CB, CD-CF, F7).
   frame_S: S = width*height*components of the FIRST frame header of any kind met by a marker loop
   (other segments are skipped by their length; the walk ends at SOS, EOI or when no marker can be
   read). The decoders reject a second frame header (F44) and a frame header of a process they do
   not implement (F47), so this is the declared size of the only frame header a decoder can act on.
   harness/suites/parsers/sniff.go SniffJPEG is the Go twin of frame_declared (compared case by
   case in the correspondence run); sniff_j2k is the twin of SniffJ2K. *)
Definition is_sof (m : Z) : bool :=
  ((192 <=? m) && (m <=? 207) && negb (m =? 196) && negb (m =? 200) && negb (m =? 204)) || (m =? 247).
Definition seg_data (bs : list Z) : list Z :=
  match bs with a :: b :: r => firstn (Z.to_nat (a * 256 + b - 2)) r | _ => [] end.
Definition seg_rest (bs : list Z) : list Z :=
  match bs with a :: b :: r => skipn (Z.to_nat (a * 256 + b - 2)) r | _ => [] end.
Definition sof_S (d : list Z) : Z :=
  if zlen d <? 6 then 0
  else (znth d 3 0 * 256 + znth d 4 0) * (znth d 1 0 * 256 + znth d 2 0) * znth d 5 0.
Fixpoint frame_S (fuel : nat) (bs : list Z) : Z :=
  match fuel with
  | O => 0
  | S k =>
    match read_marker bs with
    | Ok (mk, r) =>
      if is_sof mk then sof_S (seg_data r)
      else if (mk =? 218) || (mk =? 217) then 0
      else if has_length mk then frame_S k (seg_rest r)
      else frame_S k r
    | _ => 0
    end
  end.
Definition frame_declared (bs : list Z) : Z :=
  match read_marker bs with
  | Ok (mk, r) => if mk =? 216 then frame_S (fuel_of bs) r else 0
  | _ => 0
  end.

Definition be32 (l : list Z) (o : Z) : Z :=
  ((znth l o 0 * 256 + znth l (o + 1) 0) * 256 + znth l (o + 2) 0) * 256 + znth l (o + 3) 0.

Definition sniff_j2k (bs : list Z) : Z :=
  match bs with
  | 255 :: 79 :: 255 :: 81 :: p =>
    if zlen p <? 38 then 0 else
    wrapU 32 (be32 p 4 - be32 p 12) * wrapU 32 (be32 p 8 - be32 p 16) * (znth p 36 0 * 256 + znth p 37 0)
  | _ => 0
  end.

(* declared S of a stream: SIZ for a JPEG 2000 codestream, else the first frame header *)
Definition declared_S (bs : list Z) : Z :=
  match bs with
  | 255 :: 79 :: _ => sniff_j2k bs
  | _ => frame_declared bs
  end.
