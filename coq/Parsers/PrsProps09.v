(* C09 — bounded time and memory: property-level theorems about the header-parser models.
   Time: the marker loops terminate within length+2 iterations (no OutOfFuel), every iteration
   consumes input. Memory: every allocation request recorded by a model is bounded by
   8*S + 2*length + 65536 where S = w*h*c of the header the decoder hands to its entropy decoder
   (Sres = 0 when it does not get that far). Relative to the FIRST frame header of the stream
   (the reading of the property) the bound is refuted for decoders that accept a second frame
   header. Property theorems only. *)
From V Require Import Common.Base Parsers.PrsOutcome Parsers.PrsJls Parsers.PrsJpeg Parsers.PrsBaseline Parsers.PrsJ2k
  Parsers.PrsProofsBase Parsers.PrsProofsJls Parsers.PrsProofsJpeg Parsers.PrsProofsBaseline Parsers.PrsProofsJ2k.

(* ---- termination ---- *)
Theorem C09_jls_lossless_terminates : forall g bs, bytes bs -> fst (jlsl_decode g (fuel_of bs) bs) <> OutOfFuel.
Proof. exact jlsl_decode_fuel. Qed.
Print Assumptions C09_jls_lossless_terminates.
Theorem C09_jls_near_terminates : forall g bs, bytes bs -> fst (jlsn_decode g (fuel_of bs) bs) <> OutOfFuel.
Proof. exact jlsn_decode_fuel. Qed.
Print Assumptions C09_jls_near_terminates.
Theorem C09_jpeg_lossless_terminates : forall g bs, bytes bs -> fst (jll_decode g (fuel_of bs) bs) <> OutOfFuel.
Proof. exact jll_decode_fuel. Qed.
Print Assumptions C09_jpeg_lossless_terminates.
Theorem C09_jpeg_sv1_terminates : forall g bs, bytes bs -> fst (sv1_decode g (fuel_of bs) bs) <> OutOfFuel.
Proof. exact sv1_decode_fuel. Qed.
Print Assumptions C09_jpeg_sv1_terminates.
Theorem C09_jpeg_baseline_terminates : forall g bs, bytes bs -> fst (bl_decode g (fuel_of bs) bs) <> OutOfFuel.
Proof. exact bl_decode_fuel. Qed.
Print Assumptions C09_jpeg_baseline_terminates.
(* includes skipSegment with length 0 or 1, which moves the offset backwards *)
Theorem C09_j2k_main_header_terminates : forall g d, bytes d -> fst (k_main_header g (fuel_of d) d) <> OutOfFuel.
Proof. exact k_main_header_fuel. Qed.
Print Assumptions C09_j2k_main_header_terminates.

Theorem C09_j2k_tile_part_terminates : forall g cs d o, bytes d -> 0 <= o ->
  fst (k_parse_tile g (fuel_of d) cs d o) <> OutOfFuel.
Proof. exact k_parse_tile_fuel. Qed.
Print Assumptions C09_j2k_tile_part_terminates.
(* every parsed tile-part consumes input, so the tile sequence of Parse is finite *)
Theorem C09_j2k_tile_part_progress : forall g cs d o i o', bytes d -> 0 <= o ->
  fst (k_parse_tile g (fuel_of d) cs d o) = Ok (i, o') -> o + 2 <= o'.
Proof. exact k_parse_tile_progress. Qed.
Print Assumptions C09_j2k_tile_part_progress.

(* ---- allocation requests ---- *)
Theorem C09_jls_lossless_alloc_bound : forall g bs, bytes bs ->
  Forall (fun a => a <= 8 * Sres S_hdr (fst (jlsl_decode g (fuel_of bs) bs)) + 2 * zlen bs + 65536)
         (snd (jlsl_decode g (fuel_of bs) bs)).
Proof. exact jlsl_decode_alloc. Qed.
Print Assumptions C09_jls_lossless_alloc_bound.
Theorem C09_jls_near_alloc_bound : forall g bs, bytes bs ->
  Forall (fun a => a <= 8 * Sres S_hdr (fst (jlsn_decode g (fuel_of bs) bs)) + 2 * zlen bs + 65536)
         (snd (jlsn_decode g (fuel_of bs) bs)).
Proof. exact jlsn_decode_alloc. Qed.
Print Assumptions C09_jls_near_alloc_bound.
Theorem C09_jpeg_lossless_alloc_bound : forall g bs, bytes bs ->
  Forall (fun a => a <= 8 * Sres S_jhdr (fst (jll_decode g (fuel_of bs) bs)) + 2 * zlen bs + 65536)
         (snd (jll_decode g (fuel_of bs) bs)).
Proof. exact jll_decode_alloc. Qed.
Print Assumptions C09_jpeg_lossless_alloc_bound.
Theorem C09_j2k_main_header_alloc_bound : forall g d, bytes d ->
  Forall (fun a => a <= 1048576) (snd (k_main_header g (fuel_of d) d)).
Proof. exact k_main_header_alloc. Qed.
Print Assumptions C09_j2k_main_header_alloc_bound.
(* image buffers of the JPEG 2000 decoder: 4 bytes per declared sample, given consistent extents *)
Theorem C09_j2k_assembler_alloc_bound : forall s,
  0 <= s_xo s <= s_x s -> s_x s < 2 ^ 32 -> 0 <= s_yo s <= s_y s -> s_y s < 2 ^ 32 -> 0 <= s_c s <= 16384 ->
  Forall (fun a => a <= 4 * ((s_x s - s_xo s) * (s_y s - s_yo s)) + 24 * 16384) (snd (k_assembler s)).
Proof. exact k_assembler_alloc. Qed.
Print Assumptions C09_j2k_assembler_alloc_bound.

(* ---- refutations: what the code as it stands (and with the C08 checks) still does ---- *)
(* a second SOF55 replaces the first: 8*65535^2 bytes requested by a 32-byte stream whose first
   frame header declares one sample *)
Theorem C09_jls_alloc_vs_first_header_refuted : exists bs, bytes bs /\ declared_S bs = 1 /\
  exists a, In a (snd (jlsl_decode true (fuel_of bs) bs)) /\ a > 8 * declared_S bs + 2 * zlen bs + 65536 /\ a = 8 * (65535 * 65535).
Proof. exact jlsl_alloc_first_header_refuted. Qed.
Print Assumptions C09_jls_alloc_vs_first_header_refuted.
(* SV1 allocates while parsing SOF3 and accepts several SOF3 *)
Theorem C09_jpeg_sv1_alloc_refuted : ~ sv1_alloc_statement.
Proof. exact sv1_alloc_refuted. Qed.
Print Assumptions C09_jpeg_sv1_alloc_refuted.
(* SIZ extents are not validated: 2^20 x 2^20 asks for 4 TiB *)
Theorem C09_j2k_assembler_alloc_unbounded : fst (k_assembler siz_big) = Ok tt /\ In (4 * (1048576 * 1048576)) (snd (k_assembler siz_big)).
Proof. exact k_assembler_alloc_big. Qed.
Print Assumptions C09_j2k_assembler_alloc_unbounded.

(* ---- non-vacuity ---- *)
Example C09_nonvacuous_jls_alloc :
  bytes [255;216;255;247;0;11;8;0;2;0;3;1;1;17;0;255;218;0;8;1;1;0;0;0;0] /\
  snd (jlsl_decode false 40 [255;216;255;247;0;11;8;0;2;0;3;1;1;17;0;255;218;0;8;1;1;0;0;0;0]) = [9; 14600; 6; 512; 48; 6] /\
  Sres S_hdr (fst (jlsl_decode false 40 [255;216;255;247;0;11;8;0;2;0;3;1;1;17;0;255;218;0;8;1;1;0;0;0;0])) = 6.
Proof. split; [unfold bytes; repeat constructor; lia|]. split; vm_compute; reflexivity. Qed.

Example C09_nonvacuous_assembler :
  let s := mkSiz 17 9 1 2 17 9 0 0 3 in
  0 <= s_xo s <= s_x s /\ 0 <= s_yo s <= s_y s /\ snd (k_assembler s) = [72; 448; 448; 448].
Proof. cbv zeta. repeat split; try (simpl; lia); vm_compute; reflexivity. Qed.
