(* Parsers: theorems about the JPEG lossless / SV1 header models and Huffman Build (PrsJpeg.v). *)
From V Require Import Common.Base Parsers.PrsOutcome Parsers.PrsJpeg Parsers.PrsProofsBase.

(* ---------- Huffman Build ---------- *)
Lemma zsum_nonneg : forall l, bytes l -> 0 <= zsum l.
Proof. induction 1; simpl; lia. Qed.
Lemma zsum_bound : forall l, bytes l -> zsum l <= 255 * zlen l.
Proof.
  induction 1 as [|x l Hx Hl IH]; [vm_compute; congruence|].
  rewrite zlen_cons. cbn [zsum]. lia.
Qed.

Lemma huff_fill_never : forall bits l p cn nv, huff_fill bits l p cn nv <> Err /\ huff_fill bits l p cn nv <> OutOfFuel.
Proof.
  induction bits as [|n rest IH]; intros l p cn nv; cbn [huff_fill]; [split; congruence|].
  destruct (8 <=? l); [split; congruence|].
  destruct (n <=? 0); [apply IH|].
  destruct ((nv <? p + n) || (256 <? (cn + n) * 2 ^ (7 - l))); [split; congruence|apply IH].
Qed.

(* the validation loop establishes exactly what the lookup fill needs:
   cn + n <= 2^(l+1) at every length, and the value index stays below the validated total *)
Lemma huff_validate_fill : forall bits l next total T nv, 0 <= l -> 0 <= next ->
  huff_validate bits l next total = Some T -> T <= nv -> huff_fill bits l total next nv <> Panic /\ total <= T.
Proof.
  induction bits as [|n rest IH]; intros l next total T nv Hl Hn Hv HT; cbn [huff_validate huff_fill] in *.
  - inversion Hv; subst. split; [congruence|lia].
  - destruct (Z.ltb_spec n 0); [discriminate|].
    destruct (Z.ltb_spec (2 ^ (l + 1)) (next + n)); [discriminate|].
    destruct (IH (l + 1) (2 * (next + n)) (total + n) T nv ltac:(lia) ltac:(lia) Hv HT) as [A B].
    split; [|lia].
    destruct (8 <=? l) eqn:E8; [congruence|]. apply Z.leb_gt in E8.
    destruct (Z.leb_spec n 0).
    + assert (n = 0) by lia. subst n. rewrite !Z.add_0_r in A. exact A.
    + destruct (Z.ltb_spec nv (total + n)); [lia|].
      assert (Hp : 2 ^ (l + 1) * 2 ^ (7 - l) = 256).
      { rewrite <- Z.pow_add_r by lia. replace (l + 1 + (7 - l)) with 8 by lia. reflexivity. }
      assert (0 < 2 ^ (7 - l)) by (apply Z.pow_pos_nonneg; lia).
      destruct (Z.ltb_spec 256 ((next + n) * 2 ^ (7 - l))); [nia|]. cbn [orb]. exact A.
Qed.

(* F37: Build never indexes out of range, for any BITS / Values (before the fix BITS = 3,0,...
   with three values panicked with index 256) *)
Lemma huff_build_np : forall bits nv, huff_build bits nv <> Panic.
Proof.
  intros bits nv. unfold huff_build.
  destruct (huff_validate bits 0 0 0) as [T|] eqn:E; [|congruence].
  destruct (Z.ltb_spec nv T); [congruence|].
  apply (huff_validate_fill bits 0 0 0 T nv); auto; lia.
Qed.
Lemma huff_build_nf : forall bits nv, huff_build bits nv <> OutOfFuel.
Proof.
  intros bits nv. unfold huff_build.
  destruct (huff_validate bits 0 0 0) as [T|]; [|congruence].
  destruct (nv <? T); [congruence|]. apply huff_fill_never.
Qed.

(* ---------- DHT ---------- *)
Lemma firstn_zlen_le : forall {A} n (l : list A), zlen (firstn n l) <= Z.of_nat n.
Proof. intros. unfold zlen. rewrite firstn_length. lia. Qed.

Lemma dht_tables_good : forall fuel data dc ac, bytes data -> (length data < fuel)%nat ->
  good true 65536 (fun _ => True) (dht_tables fuel data dc ac).
Proof.
  induction fuel as [|k IH]; intros data dc ac Hb Hf; [lia|].
  cbn [dht_tables]. destruct data as [|tcth r]; [apply good_ret; exact I|].
  inversion Hb as [|? ? Ht Hr]; subst.
  destruct (4 <=? tcth mod 16); [apply good_err|].
  destruct (Z.ltb_spec (zlen r) 16); [apply good_err|].
  set (bits := firstn 16 r). set (r2 := skipn 16 r).
  assert (Hbits : bytes bits) by (apply bytes_firstn; auto).
  assert (Hr2 : bytes r2) by (apply bytes_skipn; auto).
  pose proof (zsum_nonneg bits Hbits) as Hs0. pose proof (zsum_bound bits Hbits) as Hs1.
  pose proof (firstn_zlen_le 16 r) as Hl16. fold bits in Hl16. change (Z.of_nat 16) with 16 in Hl16.
  destruct (Z.ltb_spec (zlen r2) (zsum bits)); [apply good_err|].
  eapply good_bind; [apply good_alloc with (post := fun _ => True); [lia|rewrite maxAlloc_val; lia|lia|exact I]|]. intros _ _.
  eapply good_bind.
  { apply good_lift_any with (post := fun _ => True); [apply huff_build_nf|intros _; apply huff_build_np|auto]. }
  intros _ _. apply IH; [apply bytes_skipn; auto|].
  rewrite skipn_length. unfold r2. rewrite skipn_length. simpl in Hf. lia.
Qed.

Lemma parse_dht_good : forall bs dc ac, bytes bs ->
  good true 65536 (fun x => bytes (snd x) /\ (length (snd x) <= length bs)%nat /\ snd x = seg_rest bs) (parse_dht bs dc ac).
Proof.
  intros bs dc ac Hb. unfold parse_dht.
  eapply good_bind.
  { eapply good_weaken; [apply good_read_segment'; exact Hb|lia|intros a Ha; exact Ha]. }
  intros [d rest] (Hd & Hrest & Hdl & Hlen & Ed & Er). cbn [fst snd] in *.
  eapply good_bind; [apply dht_tables_good; [exact Hd|lia]|]. intros t _.
  apply good_ret. cbn [snd]. auto.
Qed.

(* ---------- state invariant ---------- *)
Definition JInv (st : jst) : Prop :=
  0 <= j_w st <= 65535 /\ 0 <= j_h st <= 65535 /\ 0 <= j_c st <= 3 /\ 0 <= j_prec st <= 16 /\ zlen (j_ids st) <= j_c st /\
  ((j_w st =? 0) && (j_h st =? 0) = true -> j_ids st = []).
Lemma JInv0 : JInv jst0. Proof. unfold JInv, jst0, zlen; simpl. repeat split; try lia. Qed.
Definition jframeless (st : jst) : bool := (j_w st =? 0) && (j_h st =? 0).
Definition jframeS (st : jst) : Z := j_w st * j_h st * j_c st.
Lemma jframeless_S : forall st, jframeless st = true -> jframeS st = 0.
Proof. intros st H. unfold jframeless in H. apply andb_true_iff in H. destruct H as [H _]. apply Z.eqb_eq in H. unfold jframeS. rewrite H. lia. Qed.
Definition jpostR (r : list Z) (x : jst * list Z) : Prop :=
  JInv (fst x) /\ bytes (snd x) /\ (length (snd x) <= length r)%nat /\ snd x = seg_rest r.

Lemma be16j_bound : forall d o, bytes d -> 0 <= be16j d o <= 65535.
Proof. intros. unfold be16j. pose proof (bytes_znth d o H). pose proof (bytes_znth d (o + 1) H). lia. Qed.

Ltac rseg Hb B := eapply good_bind; [eapply good_weaken; [apply good_read_segment'; exact Hb|B|intros a Ha; exact Ha]|].

Lemma frame_S_nonneg : forall fuel bs, bytes bs -> 0 <= frame_S fuel bs.
Proof.
  induction fuel as [|k IH]; intros bs Hb; cbn [frame_S]; [lia|].
  destruct (read_marker bs) as [[mk r]| | |] eqn:EM; try lia.
  destruct (read_marker_ok _ _ _ EM) as [_ Hbb]. destruct (Hbb Hb) as [Hr _].
  destruct (is_sof mk).
  { apply sof_S_nonneg. unfold seg_data. destruct r as [|a [|b r']]; try constructor.
    inversion Hr as [|? ? ? Hr']; subst. inversion Hr'; subst. apply bytes_firstn; auto. }
  destruct ((mk =? 218) || (mk =? 217)); [lia|].
  destruct (has_length mk); [|apply IH; auto].
  apply IH. unfold seg_rest. destruct r as [|a [|b r']]; try constructor.
  inversion Hr as [|? ? ? Hr']; subst. inversion Hr'; subst. apply bytes_skipn; auto.
Qed.

(* ---------- jpeg/lossless ---------- *)
Lemma jll_sof3_good : forall st bs, bytes bs -> JInv st ->
  good true 65536 (fun x => jpostR bs x /\ jframeless st = true /\ jframeless (fst x) = false /\ jframeS (fst x) = sof_S (seg_data bs))
       (jll_parse_sof3 st bs).
Proof.
  intros st bs Hb (I1 & I2 & I3 & I4 & I5 & I6). unfold jll_parse_sof3. rseg Hb lia.
  intros [d rest] (Hd & Hrest & Hdl & Hlen & Ed & Er). cbn [fst snd] in *.
  destruct (zlen d <? 6) eqn:E6; [apply good_err|].
  destruct (negb (j_w st =? 0) || negb (j_h st =? 0)) eqn:Efr; [apply good_err|].
  destruct ((znth d 0 0 <? 2) || (16 <? znth d 0 0)) eqn:Ep; [apply good_err|].
  pose proof (be16j_bound d 1 Hd). pose proof (be16j_bound d 3 Hd).
  destruct ((be16j d 3 <=? 0) || (be16j d 1 <=? 0)) eqn:Ewh; [apply good_err|].
  destruct (negb ((znth d 5 0 =? 1) || (znth d 5 0 =? 3))) eqn:Ec; [apply good_err|].
  assert (Hc : 1 <= znth d 5 0 <= 3).
  { apply negb_false_iff in Ec. apply orb_true_iff in Ec. destruct Ec as [E|E]; apply Z.eqb_eq in E; lia. }
  apply orb_false_iff in Ep. destruct Ep as [E1 E2]. apply Z.ltb_ge in E1. apply Z.ltb_ge in E2.
  apply orb_false_iff in Ewh. destruct Ewh as [W1 W2]. apply Z.leb_gt in W1. apply Z.leb_gt in W2.
  apply orb_false_iff in Efr. destruct Efr as [F1 F2]. apply negb_false_iff in F1. apply negb_false_iff in F2.
  assert (Hids : j_ids st = []) by (apply I6; rewrite F1, F2; reflexivity).
  apply good_ret. unfold jpostR, JInv, jframeless, jframeS; cbn [fst snd j_w j_h j_c j_prec j_ids].
  split.
  { rewrite Hids. unfold zlen; simpl. repeat split; auto; try lia;
    try (destruct (Z.eqb_spec (be16j d 3) 0); [lia|]; cbn [andb]; discriminate). }
  split; [rewrite F1, F2; reflexivity|]. split.
  { destruct (Z.eqb_spec (be16j d 3) 0); [lia|]. reflexivity. }
  rewrite <- Ed. unfold sof_S, be16j. rewrite E6. reflexivity.
Qed.

Lemma jll_selectors_good : forall data k comp, 0 <= comp -> 2 + (comp + Z.of_nat k) * 2 <= zlen data + 1 ->
  good true 65536 (fun _ => True) (jll_selectors data k comp).
Proof.
  intros data k. induction k as [|k IH]; intros comp Hc Hl; cbn [jll_selectors]; [apply good_ret; exact I|].
  eapply good_bind; [apply good_idx; lia|]. intros v _.
  destruct (4 <=? v / 16); [apply good_err|]. apply IH; lia.
Qed.

Lemma jll_sos_good : forall st bs, bytes bs -> JInv st ->
  good true 65536 (fun x => fst x = st /\ jpostR bs x) (jll_parse_sos st bs).
Proof.
  intros st bs Hb HI. pose proof HI as (I1 & I2 & I3 & I4 & I5 & I6). unfold jll_parse_sos. rseg Hb lia.
  intros [d rest] (Hd & Hrest & Hdl & Hlen & Ed & Er). cbn [fst snd] in *.
  destruct (Z.ltb_spec (zlen d) (1 + j_c st * 2 + 3)); [apply good_err|].
  eapply good_bind; [apply good_idx; lia|]. intros n _.
  destruct (negb (n =? j_c st)); [apply good_err|].
  eapply good_bind; [apply good_idx; lia|]. intros pr _.
  destruct ((pr <? 1) || (7 <? pr)); [apply good_err|].
  eapply good_bind; [apply jll_selectors_good; lia|]. intros _ _.
  apply good_ret. unfold jpostR; cbn [fst snd]. auto.
Qed.

Lemma prec_bps : forall p, 0 <= p <= 16 -> 0 <= (p + 7) / 8 <= 2.
Proof. intros. split; [apply Z.div_pos; lia|]. assert ((p + 7) / 8 < 3) by (apply Z.div_lt_upper_bound; lia). lia. Qed.

Lemma jll_scan_allocs_good : forall st rest, JInv st ->
  good true (8 * (j_w st * j_h st * j_c st) + 2 * zlen rest + 65536) (fun _ => True) (jll_scan_allocs st rest).
Proof.
  intros st rest (I1 & I2 & I3 & I4 & I5 & I6). unfold jll_scan_allocs.
  pose proof (zlen_nonneg rest).
  assert (Hwh : 0 <= j_w st * j_h st <= 65535 * 65535)
    by (split; [apply Z.mul_nonneg_nonneg; lia | apply Z.mul_le_mono_nonneg; lia]).
  assert (Hwhc : 0 <= j_w st * j_h st * j_c st <= 65535 * 65535 * 3)
    by (split; [apply Z.mul_nonneg_nonneg; lia | apply Z.mul_le_mono_nonneg; lia]).
  pose proof (prec_bps (j_prec st) I4) as Hbps.
  eapply good_bind; [apply good_note with (post := fun _ => True); [lia|exact I]|]. intros _ _.
  eapply good_bind; [apply good_alloc with (post := fun _ => True); [lia|rewrite maxAlloc_val; lia|lia|exact I]|]. intros _ _.
  eapply good_bind with (pa := fun _ => True).
  { destruct (Z.eqb_spec (j_c st) 0); [apply good_ret; exact I|].
    apply good_alloc; [lia|rewrite maxAlloc_val; lia| |exact I].
    assert (j_w st * j_h st <= j_w st * j_h st * j_c st) by nia. lia. }
  intros _ _.
  eapply good_bind with (pa := fun _ => True).
  { destruct (Z.eqb_spec (j_c st) 3); [|apply good_ret; exact I].
    assert (j_w st * j_h st <= j_w st * j_h st * j_c st) by nia.
    eapply good_bind with (pa := fun _ => True); [apply good_alloc; [lia|rewrite maxAlloc_val; lia|lia|exact I]|].
    intros _ _. apply good_alloc; [lia|rewrite maxAlloc_val; lia|lia|exact I]. }
  intros _ _.
  assert (0 <= j_w st * j_h st * j_c st * ((j_prec st + 7) / 8) <= j_w st * j_h st * j_c st * 2) by nia.
  apply good_alloc; [lia|rewrite maxAlloc_val; lia|lia|exact I].
Qed.

Lemma jll_loop_good : forall fuel st bs Sx, bytes bs -> JInv st -> (length bs < fuel)%nat -> 0 <= Sx ->
  (jframeless st = true -> frame_S fuel bs <= Sx) -> (jframeless st = false -> jframeS st <= Sx) ->
  aloopP Sx 8 bs (jll_loop fuel st bs).
Proof.
  induction fuel as [|k IH]; intros st bs Sx Hb HI Hf HS H1 H2; [lia|].
  assert (HfS : jframeS st <= Sx).
  { destruct (jframeless st) eqn:E; [rewrite (jframeless_S st E); exact HS|apply H2; reflexivity]. }
  cbn [jll_loop]. cbn [frame_S] in H1.
  destruct (read_marker bs) as [[m r]| | |] eqn:EM; try apply aloopP_err.
  destruct (read_marker_ok _ _ _ EM) as [Hl Hbb]. destruct (Hbb Hb) as [Hr Hm].
  assert (Hzl : zlen r <= zlen bs) by (unfold zlen; lia).
  pose proof (zlen_nonneg bs) as Hz0.
  destruct (m =? 195) eqn:E195.
  { assert (Hs : is_sof m = true) by (apply Z.eqb_eq in E195; subst m; reflexivity). rewrite Hs in H1.
    eapply aloopP_bind; [apply jll_sof3_good; auto|nia|].
    intros [st' rest] ((P1 & P2 & P3 & P4) & F0 & F1 & F2). cbn [fst snd] in *.
    eapply aloopP_mono with (S' := Sx) (bs' := rest); [lia|lia|unfold zlen; lia|].
    apply IH; auto; [lia| |].
    - intros C. rewrite F1 in C. discriminate.
    - intros _. rewrite F2. apply H1. exact F0. }
  destruct (m =? 196) eqn:E196.
  { eapply aloopP_bind; [apply parse_dht_good; auto|nia|].
    intros [[dc ac] rest] (P2 & P3 & P4). cbn [fst snd] in *.
    eapply aloopP_mono with (S' := Sx) (bs' := rest); [lia|lia|unfold zlen; lia|].
    apply IH; [exact P2| |lia|exact HS| |].
    - destruct HI as (I1 & I2 & I3 & I4 & I5 & I6). unfold JInv; cbn [j_w j_h j_c j_prec j_ids]. tauto.
    - unfold jframeless; cbn [j_w j_h]. intros C. rewrite P4.
      apply Z.eqb_eq in E196. subst m. cbn in H1. apply H1. exact C.
    - unfold jframeless, jframeS; cbn [j_w j_h j_c]. exact H2. }
  destruct (m =? 218) eqn:E218.
  { eapply aloopP_bind; [apply jll_sos_good; auto|nia|].
    intros [st' rest] (E & P1 & P2 & P3 & P4). cbn [fst snd] in *. subst st'.
    eapply aloopP_bind; [apply jll_scan_allocs_good; exact P1| |intros _ _; apply aloopP_ret].
    unfold jframeS in HfS. assert (zlen rest <= zlen bs) by (unfold zlen; lia). lia. }
  destruct (m =? 217) eqn:E217; [apply aloopP_err|].
  revert H1. destruct (is_sof m) eqn:ESOF; intros H1; [apply aloopP_err|].
  cbn [orb] in H1.
  destruct (has_length m) eqn:EL.
  { eapply aloopP_bind; [eapply good_weaken; [apply good_read_segment'; exact Hr|apply Z.le_refl|intros a Ha; exact Ha]|nia|].
    intros [d rest] (P1 & P2 & P3 & P4 & P5 & P6). cbn [fst snd] in *.
    eapply aloopP_mono with (S' := Sx) (bs' := rest); [lia|lia|unfold zlen; lia|].
    apply IH; auto; [lia|]. intros C. rewrite P6. apply H1. exact C. }
  eapply aloopP_mono with (S' := Sx) (bs' := r); [lia|lia|exact Hzl|].
  apply IH; auto. lia.
Qed.

Lemma jll_decode_aloopP : forall bs, bytes bs -> aloopP (frame_declared bs) 8 bs (jll_decode (fuel_of bs) bs).
Proof.
  intros bs Hb. unfold jll_decode, frame_declared.
  destruct (read_marker bs) as [[m r]| | |] eqn:EM; try apply aloopP_err.
  destruct (read_marker_ok _ _ _ EM) as [Hl Hbb]. destruct (Hbb Hb) as [Hr Hm].
  destruct (m =? 216); [|apply aloopP_err].
  eapply aloopP_mono with (S' := frame_S (fuel_of bs) r) (bs' := r); [lia|lia|unfold zlen; lia|].
  apply jll_loop_good; auto.
  - apply JInv0.
  - unfold fuel_of; lia.
  - apply frame_S_nonneg; auto.
  - intros _. lia.
  - intros C. discriminate.
Qed.

(* F37 (Build validates), F44 (second SOF3 rejected): for every byte string *)
Theorem jll_decode_no_panic : forall bs, bytes bs -> fst (jll_decode (fuel_of bs) bs) <> Panic.
Proof. intros bs Hb. apply (jll_decode_aloopP bs Hb). Qed.
Theorem jll_decode_fuel : forall bs, bytes bs -> fst (jll_decode (fuel_of bs) bs) <> OutOfFuel.
Proof. intros bs Hb. apply (jll_decode_aloopP bs Hb). Qed.
Theorem jll_decode_alloc : forall bs, bytes bs ->
  Forall (fun a => a <= 8 * frame_declared bs + 2 * zlen bs + 65536) (snd (jll_decode (fuel_of bs) bs)).
Proof. intros bs Hb. apply (jll_decode_aloopP bs Hb). Qed.

(* ---------- jpeg/lossless14sv1 ---------- *)
Lemma sv1_comps_good : forall c data k i w h ids, 0 <= i -> 6 + (i + Z.of_nat k) * 3 <= zlen data ->
  0 <= w <= 65535 -> 0 <= h <= 65535 -> zlen ids = i ->
  good true (8 * (w * h) + 65536) (fun ids' => zlen ids' = i + Z.of_nat k) (sv1_comps c data k i w h ids).
Proof.
  intros c data k. induction k as [|k IH]; intros i w h ids Hi Hl Hw Hh Hids; cbn [sv1_comps].
  - apply good_ret. lia.
  - eapply good_bind; [apply good_idx; lia|]. intros id _.
    eapply good_bind; [apply good_idx; lia|]. intros hv _.
    assert (Hwh : 0 <= w * h <= 65535 * 65535)
      by (split; [apply Z.mul_nonneg_nonneg; lia | apply Z.mul_le_mono_nonneg; lia]).
    eapply good_bind; [apply good_alloc with (post := fun _ => True); [lia|rewrite maxAlloc_val; lia|lia|exact I]|]. intros _ _.
    destruct ((1 <? c) && negb ((hv / 16 =? 1) && (hv mod 16 =? 1))); [apply good_err|].
    eapply good_weaken; [apply IH; try lia| |].
    + unfold zlen in *. rewrite app_length. simpl. lia.
    + apply Z.le_refl.
    + intros a Ha. cbv beta in Ha. lia.
Qed.

(* the sample arrays are requested while parsing SOF3: 8*w*h bytes per component *)
Lemma sv1_sof3_good : forall st bs, bytes bs -> JInv st ->
  good true (8 * sof_S (seg_data bs) + 65536)
       (fun x => jpostR bs x /\ jframeless st = true /\ jframeless (fst x) = false /\ jframeS (fst x) = sof_S (seg_data bs) /\ zlen (j_ids (fst x)) = j_c (fst x))
       (sv1_parse_sof3 st bs).
Proof.
  intros st bs Hb (I1 & I2 & I3 & I4 & I5 & I6). unfold sv1_parse_sof3.
  assert (HS0 : 0 <= sof_S (seg_data bs)).
  { apply sof_S_nonneg. unfold seg_data. destruct bs as [|a [|b r']]; try constructor.
    inversion Hb as [|? ? ? Hb']; subst. inversion Hb'; subst. apply bytes_firstn; auto. }
  rseg Hb lia.
  intros [d rest] (Hd & Hrest & Hdl & Hlen & Ed & Er). cbn [fst snd] in *.
  destruct (zlen d <? 6) eqn:E6; [apply good_err|].
  destruct (negb (j_w st =? 0) || negb (j_h st =? 0)) eqn:Efr; [apply good_err|].
  destruct ((znth d 0 0 <? 2) || (16 <? znth d 0 0)) eqn:Ep; [apply good_err|].
  pose proof (be16j_bound d 1 Hd). pose proof (be16j_bound d 3 Hd).
  destruct ((be16j d 3 <=? 0) || (be16j d 1 <=? 0)) eqn:Ewh; [apply good_err|].
  destruct (negb ((znth d 5 0 =? 1) || (znth d 5 0 =? 3))) eqn:Ec; [apply good_err|].
  assert (Hc : 1 <= znth d 5 0 <= 3).
  { apply negb_false_iff in Ec. apply orb_true_iff in Ec. destruct Ec as [E|E]; apply Z.eqb_eq in E; lia. }
  apply orb_false_iff in Ep. destruct Ep as [E1 E2]. apply Z.ltb_ge in E1. apply Z.ltb_ge in E2.
  apply orb_false_iff in Ewh. destruct Ewh as [W1 W2]. apply Z.leb_gt in W1. apply Z.leb_gt in W2.
  apply orb_false_iff in Efr. destruct Efr as [F1 F2]. apply negb_false_iff in F1. apply negb_false_iff in F2.
  assert (ES : sof_S (seg_data bs) = be16j d 3 * be16j d 1 * znth d 5 0).
  { rewrite <- Ed. unfold sof_S, be16j. rewrite E6. reflexivity. }
  assert (Hwh : 0 <= be16j d 3 * be16j d 1) by (apply Z.mul_nonneg_nonneg; lia).
  assert (Hle : be16j d 3 * be16j d 1 <= sof_S (seg_data bs)) by (rewrite ES; nia).
  destruct (Z.ltb_spec (zlen d) (6 + znth d 5 0 * 3)); [apply good_err|].
  eapply good_bind; [apply good_alloc with (post := fun _ => True); [lia|rewrite maxAlloc_val; lia|lia|exact I]|]. intros _ _.
  eapply good_bind.
  { eapply good_weaken; [apply sv1_comps_good; [lia|rewrite Z2Nat.id by lia; lia|lia|lia|reflexivity]|lia|intros a Ha; exact Ha]. }
  intros ids Hids. cbv beta in Hids. rewrite Z2Nat.id in Hids by lia.
  apply good_ret. unfold jpostR, JInv, jframeless, jframeS; cbn [fst snd j_w j_h j_c j_prec j_ids].
  split.
  { repeat split; auto; try lia; try (destruct (Z.eqb_spec (be16j d 3) 0); [lia|]; cbn [andb]; discriminate). }
  split; [rewrite F1, F2; reflexivity|]. split.
  { destruct (Z.eqb_spec (be16j d 3) 0); [lia|]. reflexivity. }
  split; [symmetry; exact ES|lia].
Qed.

Lemma sv1_sof3_framed : forall st bs, bytes bs -> jframeless st = false ->
  good true 65536 (fun _ => False) (sv1_parse_sof3 st bs).
Proof.
  intros st bs Hb Efl. unfold sv1_parse_sof3. rseg Hb lia.
  intros [d rest] _. cbn [fst snd].
  destruct (zlen d <? 6); [apply good_err|].
  unfold jframeless in Efl. apply andb_false_iff in Efl.
  destruct (negb (j_w st =? 0) || negb (j_h st =? 0)) eqn:E; [apply good_err|].
  apply orb_false_iff in E. destruct E as [F1 F2]. apply negb_false_iff in F1. apply negb_false_iff in F2.
  destruct Efl; congruence.
Qed.

Lemma sv1_scan_comps_good : forall data ids k i, 0 <= i -> 1 + (i + Z.of_nat k) * 2 <= zlen data ->
  good true 65536 (fun _ => True) (sv1_scan_comps data ids k i).
Proof.
  intros data ids k. induction k as [|k IH]; intros i Hi Hl; cbn [sv1_scan_comps]; [apply good_ret; exact I|].
  eapply good_bind; [apply good_idx; lia|]. intros cs _.
  eapply good_bind; [apply good_idx; lia|]. intros td _.
  destruct (negb (existsb (fun id => id =? cs) ids)); [apply good_err|].
  destruct (4 <=? td / 16); [apply good_err|]. apply IH; lia.
Qed.

Lemma sv1_sos_good : forall st bs, bytes bs -> JInv st ->
  good true 65536 (fun x => fst x = st /\ jpostR bs x) (sv1_parse_sos st bs).
Proof.
  intros st bs Hb HI. unfold sv1_parse_sos. rseg Hb lia.
  intros [d rest] (Hd & Hrest & Hdl & Hlen & Ed & Er). cbn [fst snd] in *.
  destruct (Z.ltb_spec (zlen d) 1); [apply good_err|].
  eapply good_bind; [apply good_idx; lia|]. intros ns Hns.
  assert (Hnsb : 0 <= ns < 256) by (cbv beta in Hns; rewrite Hns; apply bytes_znth; auto).
  destruct (Z.ltb_spec (zlen d) (1 + ns * 2 + 3)); [apply good_err|].
  eapply good_bind; [apply sv1_scan_comps_good; [lia|rewrite Z2Nat.id by lia; lia]|]. intros _ _.
  eapply good_bind; [apply good_idx; lia|]. intros pr _.
  destruct (negb (pr =? 1)); [apply good_err|].
  apply good_ret. unfold jpostR; cbn [fst snd]. auto.
Qed.

Lemma sv1_out_alloc_good : forall st, JInv st -> good true (8 * jframeS st + 65536) (fun _ => True) (sv1_out_alloc st).
Proof.
  intros st (I1 & I2 & I3 & I4 & I5 & I6). unfold sv1_out_alloc, jframeS.
  pose proof (zlen_nonneg (j_ids st)). pose proof (prec_bps (j_prec st) I4).
  assert (Hwh : 0 <= j_w st * j_h st <= 65535 * 65535)
    by (split; [apply Z.mul_nonneg_nonneg; lia | apply Z.mul_le_mono_nonneg; lia]).
  assert (0 <= j_w st * j_h st * zlen (j_ids st) <= j_w st * j_h st * j_c st) by nia.
  assert (j_w st * j_h st * j_c st <= 65535 * 65535 * 3) by (apply Z.mul_le_mono_nonneg; lia).
  assert (0 <= j_w st * j_h st * zlen (j_ids st) * ((j_prec st + 7) / 8) <= j_w st * j_h st * j_c st * 2) by nia.
  apply good_alloc; [lia|rewrite maxAlloc_val; lia|lia|exact I].
Qed.

Lemma sv1_loop_good : forall fuel st bs Sx, bytes bs -> JInv st -> (length bs < fuel)%nat -> 0 <= Sx ->
  (jframeless st = true -> frame_S fuel bs <= Sx) -> (jframeless st = false -> jframeS st <= Sx) ->
  aloopP Sx 8 bs (sv1_loop fuel st bs).
Proof.
  induction fuel as [|k IH]; intros st bs Sx Hb HI Hf HS H1 H2; [lia|].
  assert (HfS : jframeS st <= Sx).
  { destruct (jframeless st) eqn:E; [rewrite (jframeless_S st E); exact HS|apply H2; reflexivity]. }
  cbn [sv1_loop]. cbn [frame_S] in H1.
  destruct (read_marker bs) as [[m r]| | |] eqn:EM; try apply aloopP_err.
  destruct (read_marker_ok _ _ _ EM) as [Hl Hbb]. destruct (Hbb Hb) as [Hr Hm].
  assert (Hzl : zlen r <= zlen bs) by (unfold zlen; lia).
  pose proof (zlen_nonneg bs) as Hz0.
  destruct (m =? 195) eqn:E195.
  { assert (Hs : is_sof m = true) by (apply Z.eqb_eq in E195; subst m; reflexivity). rewrite Hs in H1.
    destruct (jframeless st) eqn:Efl.
    - specialize (H1 eq_refl).
      eapply aloopP_bind; [apply sv1_sof3_good; auto|nia|].
      intros [st' rest] ((P1 & P2 & P3 & P4) & F0 & F1 & F2 & F3). cbn [fst snd] in *.
      eapply aloopP_mono with (S' := Sx) (bs' := rest); [lia|lia|unfold zlen; lia|].
      apply IH; auto; [lia| |].
      + intros C. rewrite F1 in C. discriminate.
      + intros _. rewrite F2. exact H1.
    - (* a frame exists already: parseSOF3 returns an error before allocating *)
      eapply aloopP_bind; [apply sv1_sof3_framed; auto|nia|]. intros a [].
  }
  destruct (m =? 196) eqn:E196.
  { eapply aloopP_bind; [apply parse_dht_good; auto|nia|].
    intros [[dc ac] rest] (P2 & P3 & P4). cbn [fst snd] in *.
    eapply aloopP_mono with (S' := Sx) (bs' := rest); [lia|lia|unfold zlen; lia|].
    apply IH; [exact P2| |lia|exact HS| |].
    - destruct HI as (I1 & I2 & I3 & I4 & I5 & I6). unfold JInv; cbn [j_w j_h j_c j_prec j_ids]. tauto.
    - unfold jframeless; cbn [j_w j_h]. intros C. rewrite P4.
      apply Z.eqb_eq in E196. subst m. cbn in H1. apply H1. exact C.
    - unfold jframeless, jframeS; cbn [j_w j_h j_c]. exact H2. }
  destruct (m =? 218) eqn:E218.
  { eapply aloopP_bind; [apply sv1_sos_good; auto|nia|].
    intros [st' rest] (E & P1 & P2 & P3 & P4). cbn [fst snd] in *. subst st'.
    eapply aloopP_bind with (pa := fun _ => True) (B := 2 * zlen rest + 512).
    { apply good_note; [lia|exact I]. }
    { assert (zlen rest <= zlen bs) by (unfold zlen; lia). nia. }
    intros _ _. eapply aloopP_bind; [apply sv1_out_alloc_good; auto|lia|intros _ _; apply aloopP_ret]. }
  destruct (m =? 217) eqn:E217.
  { eapply aloopP_bind; [apply sv1_out_alloc_good; auto|lia|intros _ _; apply aloopP_ret]. }
  revert H1. destruct (is_sof m) eqn:ESOF; intros H1; [apply aloopP_err|].
  cbn [orb] in H1.
  destruct (has_length m) eqn:EL.
  { eapply aloopP_bind; [eapply good_weaken; [apply good_read_segment'; exact Hr|apply Z.le_refl|intros a Ha; exact Ha]|nia|].
    intros [d rest] (P1 & P2 & P3 & P4 & P5 & P6). cbn [fst snd] in *.
    eapply aloopP_mono with (S' := Sx) (bs' := rest); [lia|lia|unfold zlen; lia|].
    apply IH; auto; [lia|]. intros C. rewrite P6. apply H1. exact C. }
  eapply aloopP_mono with (S' := Sx) (bs' := r); [lia|lia|exact Hzl|].
  apply IH; auto. lia.
Qed.

Lemma sv1_decode_aloopP : forall bs, bytes bs -> aloopP (frame_declared bs) 8 bs (sv1_decode (fuel_of bs) bs).
Proof.
  intros bs Hb. unfold sv1_decode, frame_declared.
  destruct (read_marker bs) as [[m r]| | |] eqn:EM; try apply aloopP_err.
  destruct (read_marker_ok _ _ _ EM) as [Hl Hbb]. destruct (Hbb Hb) as [Hr Hm].
  destruct (m =? 216); [|apply aloopP_err].
  eapply aloopP_mono with (S' := frame_S (fuel_of bs) r) (bs' := r); [lia|lia|unfold zlen; lia|].
  apply sv1_loop_good; auto.
  - apply JInv0.
  - unfold fuel_of; lia.
  - apply frame_S_nonneg; auto.
  - intros _. lia.
  - intros C. discriminate.
Qed.

Theorem sv1_decode_no_panic : forall bs, bytes bs -> fst (sv1_decode (fuel_of bs) bs) <> Panic.
Proof. intros bs Hb. apply (sv1_decode_aloopP bs Hb). Qed.
Theorem sv1_decode_fuel : forall bs, bytes bs -> fst (sv1_decode (fuel_of bs) bs) <> OutOfFuel.
Proof. intros bs Hb. apply (sv1_decode_aloopP bs Hb). Qed.
(* F44: SV1 allocates while parsing SOF3; since a second SOF3 is rejected the requests are bounded
   by the unique frame header (historical witness: SOF3 65535x65535, SOF3 1x1, EOI) *)
Theorem sv1_decode_alloc : forall bs, bytes bs ->
  Forall (fun a => a <= 8 * frame_declared bs + 2 * zlen bs + 65536) (snd (sv1_decode (fuel_of bs) bs)).
Proof. intros bs Hb. apply (sv1_decode_aloopP bs Hb). Qed.
