(* Parsers: theorems about the JPEG lossless / SV1 header models and Huffman Build (PrsJpeg.v). *)
From V Require Import Common.Base Parsers.PrsOutcome Parsers.PrsJpeg Parsers.PrsProofsBase.

(* ---------- Huffman Build ---------- *)
Lemma zsum_nonneg : forall l, bytes l -> 0 <= zsum l.
Proof. induction 1; simpl; lia. Qed.
Lemma zsum_bound : forall l, bytes l -> zsum l <= 255 * zlen l.
Proof.
  induction 1 as [|x l Hx Hl IH]; [vm_compute; congruence|].
  rewrite zlen_cons. cbn [zsum]. lia.
Qed.

Lemma huff_build_never : forall bits l p nv, huff_build bits l p nv <> Err /\ huff_build bits l p nv <> OutOfFuel.
Proof.
  induction bits as [|n rest IH]; intros l p nv; cbn [huff_build]; [split; congruence|].
  destruct (8 <=? l); [split; congruence|].
  destruct (n <=? 0); [apply IH|].
  destruct ((nv <? p + n) || (256 <? (p + n) * 2 ^ (7 - l))); [split; congruence|apply IH].
Qed.

(* the proposed check implies that Build does not index out of range *)
Lemma huff_ok_build : forall bits l p nv, bytes bits -> huff_ok bits l p = true -> p + zsum bits <= nv ->
  huff_build bits l p nv <> Panic.
Proof.
  induction bits as [|n rest IH]; intros l p nv Hb Hok Hs; cbn [huff_build huff_ok zsum] in *; [congruence|].
  inversion Hb as [|? ? Hn Hrest]; subst.
  destruct (8 <=? l); [congruence|].
  apply andb_true_iff in Hok. destruct Hok as [H1 H2].
  pose proof (zsum_nonneg rest Hrest).
  destruct (Z.leb_spec n 0).
  - assert (n = 0) by lia. subst n. rewrite Z.max_l in H2 by lia. rewrite Z.add_0_r in H2. apply IH; auto; lia.
  - destruct (Z.ltb_spec 0 n); [|lia]. apply Z.leb_le in H1.
    destruct (Z.ltb_spec nv (p + n)); [lia|]. destruct (Z.ltb_spec 256 ((p + n) * 2 ^ (7 - l))); [lia|].
    cbn [orb]. rewrite Z.max_r in H2 by lia. apply IH; auto; lia.
Qed.

(* as the code stands: BITS = 3,0,...,0 with three values *)
Lemma huff_build_panics : huff_build [3;0;0;0;0;0;0;0;0;0;0;0;0;0;0;0] 0 0 3 = Panic.
Proof. vm_compute. reflexivity. Qed.

(* ---------- DHT ---------- *)
Lemma firstn_zlen_le : forall {A} n (l : list A), zlen (firstn n l) <= Z.of_nat n.
Proof. intros. unfold zlen. rewrite firstn_length. lia. Qed.

Lemma dht_tables_good : forall g fuel data dc ac, bytes data -> (length data < fuel)%nat ->
  good g 65536 (fun _ => True) (dht_tables g fuel data dc ac).
Proof.
  intros g fuel. induction fuel as [|k IH]; intros data dc ac Hb Hf; [lia|].
  cbn [dht_tables]. destruct data as [|tcth r]; [apply good_ret; exact I|].
  inversion Hb as [|? ? Ht Hr]; subst.
  destruct (4 <=? tcth mod 16); [apply good_err|].
  destruct (Z.ltb_spec (zlen r) 16); [apply good_err|].
  set (bits := firstn 16 r). set (r2 := skipn 16 r).
  assert (Hbits : bytes bits) by (apply bytes_firstn; auto).
  assert (Hr2 : bytes r2) by (apply bytes_skipn; auto).
  pose proof (zsum_nonneg bits Hbits) as Hs0. pose proof (zsum_bound bits Hbits) as Hs1.
  pose proof (firstn_zlen_le 16 r) as Hl16. fold bits in Hl16. change (Z.of_nat 16) with 16 in Hl16.
  destruct (Z.ltb_spec (zlen r2) (zsum bits)); [apply good_err|].
  eapply good_bind; [apply good_alloc with (post := fun _ => True); [lia|rewrite maxAlloc_val; lia|lia|exact I]|]. intros _ _.
  destruct (g && negb (huff_ok bits 0 0)) eqn:Eg; [apply good_err|].
  eapply good_bind.
  { apply good_lift_any with (post := fun _ => True).
    - apply huff_build_never.
    - intros ->. cbn [andb] in Eg. apply negb_false_iff in Eg. apply huff_ok_build; auto. lia.
    - auto. }
  intros _ _. apply IH; [apply bytes_skipn; auto|].
  rewrite skipn_length. unfold r2. rewrite skipn_length. simpl in Hf. lia.
Qed.

Lemma parse_dht_good : forall g bs dc ac, bytes bs ->
  good g 65536 (fun x => bytes (snd x) /\ (length (snd x) <= length bs)%nat) (parse_dht g bs dc ac).
Proof.
  intros g bs dc ac Hb. unfold parse_dht.
  eapply good_bind.
  { eapply good_weaken; [apply good_read_segment; exact Hb|lia|intros a Ha; exact Ha]. }
  intros [d rest] (Hd & Hrest & Hdl & Hlen). cbn [fst snd] in *.
  eapply good_bind; [apply dht_tables_good; [exact Hd|lia]|]. intros t _.
  apply good_ret. cbn [snd]. auto.
Qed.

(* ---------- state invariant ---------- *)
Definition JInv (st : jst) : Prop :=
  0 <= j_w st <= 65535 /\ 0 <= j_h st <= 65535 /\ 0 <= j_c st <= 3 /\ 0 <= j_prec st <= 16 /\ zlen (j_ids st) <= 3.
Lemma JInv0 : JInv jst0. Proof. unfold JInv, jst0, zlen; simpl; lia. Qed.
Definition jpost (bs : list Z) (x : jst * list Z) : Prop :=
  JInv (fst x) /\ bytes (snd x) /\ (length (snd x) <= length bs)%nat.

Lemma be16j_bound : forall d o, bytes d -> 0 <= be16j d o <= 65535.
Proof. intros. unfold be16j. pose proof (bytes_znth d o H). pose proof (bytes_znth d (o + 1) H). lia. Qed.

Definition S_jhdr (x : jhdr) : Z := let '(w, h, c, _) := x in w * h * c.

(* ---------- jpeg/lossless ---------- *)
Lemma jll_sof3_good : forall g st bs, bytes bs -> JInv st -> good g 65536 (jpost bs) (jll_parse_sof3 st bs).
Proof.
  intros g st bs Hb (I1 & I2 & I3 & I4 & I5). unfold jll_parse_sof3.
  eapply good_bind.
  { eapply good_weaken; [apply good_read_segment; exact Hb|lia|intros a Ha; exact Ha]. }
  intros [d rest] (Hd & Hrest & Hdl & Hlen). cbn [fst snd] in *.
  destruct (zlen d <? 6); [apply good_err|].
  destruct ((znth d 0 0 <? 2) || (16 <? znth d 0 0)) eqn:Ep; [apply good_err|].
  pose proof (be16j_bound d 1 Hd). pose proof (be16j_bound d 3 Hd).
  destruct ((be16j d 3 <=? 0) || (be16j d 1 <=? 0)); [apply good_err|].
  destruct (negb ((znth d 5 0 =? 1) || (znth d 5 0 =? 3))) eqn:Ec; [apply good_err|].
  assert (Hc : 0 <= znth d 5 0 <= 3).
  { apply negb_false_iff in Ec. apply orb_true_iff in Ec. destruct Ec as [E|E]; apply Z.eqb_eq in E; lia. }
  apply orb_false_iff in Ep. destruct Ep as [E1 E2]. apply Z.ltb_ge in E1. apply Z.ltb_ge in E2.
  apply good_ret. unfold jpost, JInv; simpl. repeat split; auto; lia.
Qed.

Lemma jll_selectors_good : forall g data k comp, 0 <= comp -> 2 + (comp + Z.of_nat k) * 2 <= zlen data + 1 ->
  good g 65536 (fun _ => True) (jll_selectors data k comp).
Proof.
  intros g data k. induction k as [|k IH]; intros comp Hc Hl; cbn [jll_selectors]; [apply good_ret; exact I|].
  eapply good_bind; [apply good_idx; lia|]. intros v _.
  destruct (4 <=? v / 16); [apply good_err|]. apply IH; lia.
Qed.

Lemma jll_sos_good : forall g st bs, bytes bs -> JInv st ->
  good g 65536 (fun x => fst x = st /\ jpost bs x) (jll_parse_sos st bs).
Proof.
  intros g st bs Hb HI. pose proof HI as (I1 & I2 & I3 & I4 & I5). unfold jll_parse_sos.
  eapply good_bind.
  { eapply good_weaken; [apply good_read_segment; exact Hb|lia|intros a Ha; exact Ha]. }
  intros [d rest] (Hd & Hrest & Hdl & Hlen). cbn [fst snd] in *.
  destruct (Z.ltb_spec (zlen d) (1 + j_c st * 2 + 3)); [apply good_err|].
  eapply good_bind; [apply good_idx; lia|]. intros n _.
  destruct (negb (n =? j_c st)); [apply good_err|].
  eapply good_bind; [apply good_idx; lia|]. intros pr _.
  destruct ((pr <? 1) || (7 <? pr)); [apply good_err|].
  eapply good_bind; [apply jll_selectors_good; lia|]. intros _ _.
  apply good_ret. unfold jpost; cbn [fst snd]. auto.
Qed.

Lemma prec_bps : forall p, 0 <= p <= 16 -> 0 <= (p + 7) / 8 <= 2.
Proof. intros. split; [apply Z.div_pos; lia|]. assert ((p + 7) / 8 < 3) by (apply Z.div_lt_upper_bound; lia). lia. Qed.

Lemma jll_scan_allocs_good : forall g st rest, JInv st ->
  good g (8 * Z.max 0 (j_w st * j_h st * j_c st) + 2 * zlen rest + 65536) (fun _ => True) (jll_scan_allocs st rest).
Proof.
  intros g st rest (I1 & I2 & I3 & I4 & I5). unfold jll_scan_allocs.
  pose proof (zlen_nonneg rest).
  assert (Hwh : 0 <= j_w st * j_h st <= 65535 * 65535)
    by (split; [apply Z.mul_nonneg_nonneg; lia | apply Z.mul_le_mono_nonneg; lia]).
  assert (Hwhc : 0 <= j_w st * j_h st * j_c st <= 65535 * 65535 * 3)
    by (split; [apply Z.mul_nonneg_nonneg; lia | apply Z.mul_le_mono_nonneg; lia]).
  pose proof (prec_bps (j_prec st) I4) as Hbps.
  rewrite Z.max_r by lia.
  eapply good_bind; [apply good_note with (post := fun _ => True); [lia|exact I]|]. intros _ _.
  eapply good_bind; [apply good_alloc with (post := fun _ => True); [lia|rewrite maxAlloc_val; lia|lia|exact I]|]. intros _ _.
  eapply good_bind with (pa := fun _ => True).
  { destruct (Z.eqb_spec (j_c st) 0); [apply good_ret; exact I|].
    apply good_alloc; [lia|rewrite maxAlloc_val; lia| |exact I].
    assert (j_w st * j_h st <= j_w st * j_h st * j_c st) by nia. lia. }
  intros _ _.
  eapply good_bind with (pa := fun _ => True).
  { destruct (Z.eqb_spec (j_c st) 3); [|apply good_ret; exact I].
    assert (j_w st * j_h st <= j_w st * j_h st * j_c st) by nia.
    eapply good_bind with (pa := fun _ => True); [apply good_alloc; [lia|rewrite maxAlloc_val; lia|lia|exact I]|].
    intros _ _. apply good_alloc; [lia|rewrite maxAlloc_val; lia|lia|exact I]. }
  intros _ _.
  assert (0 <= j_w st * j_h st * j_c st * ((j_prec st + 7) / 8) <= j_w st * j_h st * j_c st * 2) by nia.
  apply good_alloc; [lia|rewrite maxAlloc_val; lia|lia|exact I].
Qed.

Lemma jll_scan_allocs_noerr : forall st rest, fst (jll_scan_allocs st rest) <> Err.
Proof.
  intros. unfold jll_scan_allocs, note_alloc, alloc, bind, ret.
  repeat match goal with |- context [if ?b then _ else _] => destruct b; cbn [fst snd] end; congruence.
Qed.

Lemma jll_loop_good : forall g fuel st bs, bytes bs -> JInv st -> (length bs < fuel)%nat ->
  gloopP S_jhdr 8 g bs (jll_loop g fuel st bs).
Proof.
  intros g fuel. induction fuel as [|k IH]; intros st bs Hb HI Hf; [lia|].
  cbn [jll_loop].
  destruct (read_marker bs) as [[m r]| | |] eqn:EM; try apply gloopP_err.
  destruct (read_marker_ok _ _ _ EM) as [Hl Hbb]. destruct (Hbb Hb) as [Hr Hm].
  assert (Hzl : zlen r <= zlen bs) by (unfold zlen; lia).
  destruct (m =? 195).
  { eapply gloopP_bind; [lia|apply jll_sof3_good; auto|].
    intros [st' rest] (P1 & P2 & P3). cbn [fst snd] in *.
    apply gloopP_mono with (bs' := rest); [unfold zlen; lia|]. apply IH; auto. lia. }
  destruct (m =? 196).
  { eapply gloopP_bind; [lia|apply parse_dht_good; auto|].
    intros [[dc ac] rest] (P2 & P3). cbn [fst snd] in *.
    apply gloopP_mono with (bs' := rest); [unfold zlen; lia|]. apply IH; [exact P2| |lia].
    destruct HI as (I1 & I2 & I3 & I4 & I5). unfold JInv; simpl. auto. }
  destruct (m =? 218).
  { eapply gloopP_bind; [lia|apply jll_sos_good; auto|].
    intros [st' rest] (E & P1 & P2 & P3). cbn [fst snd] in *. subst st'.
    apply gloopP_final; [|apply jll_scan_allocs_noerr].
    intros g'. eapply good_weaken; [apply jll_scan_allocs_good; exact P1| |auto].
    unfold S_jhdr. assert (zlen rest <= zlen bs) by (unfold zlen; lia). lia. }
  destruct (m =? 217); [apply gloopP_err|].
  destruct (has_length m).
  { eapply gloopP_bind; [lia|apply good_weaken with (B := 65533) (p := fun x => bytes (fst x) /\ bytes (snd x) /\ zlen (fst x) <= 65533 /\ (length (snd x) <= length r)%nat) (p' := fun x => bytes (snd x) /\ (length (snd x) <= length r)%nat);
      [apply good_read_segment; exact Hr|lia|tauto]|].
    intros [d rest] (P2 & P3). cbn [fst snd] in *.
    apply gloopP_mono with (bs' := rest); [unfold zlen; lia|]. apply IH; auto. lia. }
  apply gloopP_mono with (bs' := r); [exact Hzl|]. apply IH; auto. lia.
Qed.

Lemma jll_decode_gloopP : forall g bs, bytes bs -> gloopP S_jhdr 8 g bs (jll_decode g (fuel_of bs) bs).
Proof.
  intros g bs Hb. unfold jll_decode.
  destruct (read_marker bs) as [[m r]| | |] eqn:EM; try apply gloopP_err.
  destruct (read_marker_ok _ _ _ EM) as [Hl Hbb]. destruct (Hbb Hb) as [Hr Hm].
  destruct (m =? 216); [|apply gloopP_err].
  apply gloopP_mono with (bs' := r); [unfold zlen; lia|].
  apply jll_loop_good; auto; [apply JInv0|unfold fuel_of; lia].
Qed.

(* with Build validating its table (huff_ok) the JPEG lossless header path never panics *)
Theorem jll_decode_no_panic : forall bs, bytes bs -> fst (jll_decode true (fuel_of bs) bs) <> Panic.
Proof. intros bs Hb. apply (jll_decode_gloopP true bs Hb). reflexivity. Qed.

(* as the code stands: SOI, DHT with BITS[0] = 3 and three values *)
Definition jll_panic_witness : list Z :=
  [255; 216; 255; 196; 0; 22; 0; 3;0;0;0;0;0;0;0;0;0;0;0;0;0;0;0; 0; 1; 2].
Theorem jll_decode_panics_refuted : exists bs, bytes bs /\ fst (jll_decode false (fuel_of bs) bs) = Panic.
Proof.
  exists jll_panic_witness. split; [|vm_compute; reflexivity].
  unfold bytes, jll_panic_witness. repeat constructor; lia.
Qed.

Theorem jll_decode_fuel : forall g bs, bytes bs -> fst (jll_decode g (fuel_of bs) bs) <> OutOfFuel.
Proof. intros g bs Hb. apply (jll_decode_gloopP g bs Hb). Qed.

Theorem jll_decode_alloc : forall g bs, bytes bs ->
  Forall (fun a => a <= 8 * Sres S_jhdr (fst (jll_decode g (fuel_of bs) bs)) + 2 * zlen bs + 65536)
         (snd (jll_decode g (fuel_of bs) bs)).
Proof.
  intros g bs Hb. destruct (jll_decode_gloopP g bs Hb) as (_ & _ & H).
  unfold bounded in H. eapply Forall_impl; [|exact H]. cbv beta; intros; lia.
Qed.

(* the check is conservative: same result or an error *)
Theorem dht_check_conservative : forall fuel data dc ac,
  dht_tables true fuel data dc ac = dht_tables false fuel data dc ac \/ fst (dht_tables true fuel data dc ac) = Err.
Proof.
  induction fuel as [|k IH]; intros data dc ac; cbn [dht_tables]; auto.
  destruct data as [|tcth r]; auto.
  destruct (4 <=? tcth mod 16); auto.
  destruct (zlen r <? 16); auto.
  destruct (zlen (skipn 16 r) <? zsum (firstn 16 r)); auto.
  destruct (alloc (zsum (firstn 16 r)) 1) as [[[]| | |] la]; unfold bind; cbn [fst snd]; auto.
  destruct (huff_ok (firstn 16 r) 0 0); cbn [andb negb]; auto.
  destruct (lift (huff_build (firstn 16 r) 0 0 (zsum (firstn 16 r)))) as [[p| | |] lb]; cbn [fst snd]; auto.
  match goal with |- context [dht_tables true k ?d ?x ?y] => destruct (IH d x y) as [E|E] end.
  - left. rewrite E. reflexivity.
  - right. exact E.
Qed.

(* ---------- jpeg/lossless14sv1 ---------- *)
Definition BIG : Z := 8 * (65535 * 65535) + 65536.

Lemma sv1_comps_good : forall g data k i w h ids, 0 <= i -> 6 + (i + Z.of_nat k) * 3 <= zlen data ->
  0 <= w <= 65535 -> 0 <= h <= 65535 -> zlen ids = i ->
  good g BIG (fun ids' => zlen ids' = i + Z.of_nat k) (sv1_comps data k i w h ids).
Proof.
  intros g data k. induction k as [|k IH]; intros i w h ids Hi Hl Hw Hh Hids; cbn [sv1_comps].
  - apply good_ret. lia.
  - eapply good_bind; [apply good_idx; lia|]. intros id _.
    eapply good_bind; [apply good_idx; lia|]. intros hv _.
    assert (Hwh : 0 <= w * h <= 65535 * 65535)
      by (split; [apply Z.mul_nonneg_nonneg; lia | apply Z.mul_le_mono_nonneg; lia]).
    eapply good_bind; [apply good_alloc with (post := fun _ => True); [lia|rewrite maxAlloc_val; lia|unfold BIG; lia|exact I]|]. intros _ _.
    destruct (negb ((hv / 16 =? 1) && (hv mod 16 =? 1))); [apply good_err|].
    eapply good_weaken; [apply IH; try lia| |].
    + unfold zlen in *. rewrite app_length. simpl. lia.
    + apply Z.le_refl.
    + intros a Ha. cbv beta in Ha. lia.
Qed.

Lemma sv1_sof3_good : forall g st bs, bytes bs -> JInv st -> good g BIG (jpost bs) (sv1_parse_sof3 st bs).
Proof.
  intros g st bs Hb (I1 & I2 & I3 & I4 & I5). unfold sv1_parse_sof3.
  eapply good_bind.
  { eapply good_weaken; [apply good_read_segment; exact Hb|unfold BIG; lia|intros a Ha; exact Ha]. }
  intros [d rest] (Hd & Hrest & Hdl & Hlen). cbn [fst snd] in *.
  destruct (zlen d <? 6); [apply good_err|].
  destruct ((znth d 0 0 <? 2) || (16 <? znth d 0 0)) eqn:Ep; [apply good_err|].
  pose proof (be16j_bound d 1 Hd). pose proof (be16j_bound d 3 Hd).
  destruct ((be16j d 3 <=? 0) || (be16j d 1 <=? 0)); [apply good_err|].
  destruct (negb ((znth d 5 0 =? 1) || (znth d 5 0 =? 3))) eqn:Ec; [apply good_err|].
  assert (Hc : 0 <= znth d 5 0 <= 3).
  { apply negb_false_iff in Ec. apply orb_true_iff in Ec. destruct Ec as [E|E]; apply Z.eqb_eq in E; lia. }
  apply orb_false_iff in Ep. destruct Ep as [E1 E2]. apply Z.ltb_ge in E1. apply Z.ltb_ge in E2.
  destruct (Z.ltb_spec (zlen d) (6 + znth d 5 0 * 3)); [apply good_err|].
  eapply good_bind; [apply good_alloc with (post := fun _ => True); [lia|rewrite maxAlloc_val; lia|unfold BIG; lia|exact I]|]. intros _ _.
  eapply good_bind.
  { apply sv1_comps_good; [lia|rewrite Z2Nat.id by lia; lia|lia|lia|reflexivity]. }
  intros ids Hids. rewrite Z2Nat.id in Hids by lia.
  apply good_ret. unfold jpost, JInv; simpl. repeat split; auto; lia.
Qed.

Lemma sv1_scan_comps_good : forall g data ids k i, 0 <= i -> 1 + (i + Z.of_nat k) * 2 <= zlen data ->
  good g BIG (fun _ => True) (sv1_scan_comps data ids k i).
Proof.
  intros g data ids k. induction k as [|k IH]; intros i Hi Hl; cbn [sv1_scan_comps]; [apply good_ret; exact I|].
  eapply good_bind; [apply good_idx; lia|]. intros cs _.
  eapply good_bind; [apply good_idx; lia|]. intros td _.
  destruct (negb (existsb (fun id => id =? cs) ids)); [apply good_err|].
  destruct (4 <=? td / 16); [apply good_err|]. apply IH; lia.
Qed.

Lemma sv1_sos_good : forall g st bs, bytes bs -> JInv st ->
  good g BIG (fun x => fst x = st /\ jpost bs x) (sv1_parse_sos st bs).
Proof.
  intros g st bs Hb HI. unfold sv1_parse_sos.
  eapply good_bind.
  { eapply good_weaken; [apply good_read_segment; exact Hb|unfold BIG; lia|intros a Ha; exact Ha]. }
  intros [d rest] (Hd & Hrest & Hdl & Hlen). cbn [fst snd] in *.
  destruct (Z.ltb_spec (zlen d) 1); [apply good_err|].
  eapply good_bind; [apply good_idx; lia|]. intros ns Hns.
  assert (Hnsb : 0 <= ns < 256) by (cbv beta in Hns; rewrite Hns; apply bytes_znth; auto).
  destruct (Z.ltb_spec (zlen d) (1 + ns * 2 + 3)); [apply good_err|].
  eapply good_bind; [apply sv1_scan_comps_good; [lia|rewrite Z2Nat.id by lia; lia]|]. intros _ _.
  eapply good_bind; [apply good_idx; lia|]. intros pr _.
  destruct (negb (pr =? 1)); [apply good_err|].
  apply good_ret. unfold jpost; cbn [fst snd]. auto.
Qed.

Lemma sv1_out_alloc_good : forall g st, JInv st -> good g BIG (fun _ => True) (sv1_out_alloc st).
Proof.
  intros g st (I1 & I2 & I3 & I4 & I5). unfold sv1_out_alloc.
  pose proof (zlen_nonneg (j_ids st)). pose proof (prec_bps (j_prec st) I4).
  assert (Hwh : 0 <= j_w st * j_h st <= 65535 * 65535)
    by (split; [apply Z.mul_nonneg_nonneg; lia | apply Z.mul_le_mono_nonneg; lia]).
  assert (0 <= j_w st * j_h st * zlen (j_ids st) <= 65535 * 65535 * 3)
    by (split; [apply Z.mul_nonneg_nonneg; lia | apply Z.mul_le_mono_nonneg; lia]).
  assert (0 <= j_w st * j_h st * zlen (j_ids st) * ((j_prec st + 7) / 8) <= 65535 * 65535 * 3 * 2)
    by (split; [apply Z.mul_nonneg_nonneg; lia | apply Z.mul_le_mono_nonneg; lia]).
  apply good_alloc; [lia|rewrite maxAlloc_val; lia|unfold BIG; lia|exact I].
Qed.

Lemma sv1_loop_good : forall g fuel st bs, bytes bs -> JInv st -> (length bs < fuel)%nat ->
  loopQ g (sv1_loop g fuel st bs).
Proof.
  intros g fuel. induction fuel as [|k IH]; intros st bs Hb HI Hf; [lia|].
  cbn [sv1_loop].
  destruct (read_marker bs) as [[m r]| | |] eqn:EM; try apply loopQ_err.
  destruct (read_marker_ok _ _ _ EM) as [Hl Hbb]. destruct (Hbb Hb) as [Hr Hm].
  destruct (m =? 195).
  { eapply loopQ_bind; [apply sv1_sof3_good; auto|].
    intros [st' rest] (P1 & P2 & P3). cbn [fst snd] in *. apply IH; auto. lia. }
  destruct (m =? 196).
  { eapply loopQ_bind; [apply parse_dht_good; auto|].
    intros [[dc ac] rest] (P2 & P3). cbn [fst snd] in *. apply IH; [exact P2| |lia].
    destruct HI as (I1 & I2 & I3 & I4 & I5). unfold JInv; simpl. auto. }
  destruct (m =? 218).
  { eapply loopQ_bind; [apply sv1_sos_good; auto|].
    intros [st' rest] (E & P1 & P2 & P3). cbn [fst snd] in *. subst st'.
    eapply loopQ_bind with (pa := fun _ => True) (B := 2 * zlen rest + 512).
    { apply good_note; [lia|exact I]. }
    intros _ _. eapply loopQ_bind; [apply sv1_out_alloc_good; auto|]. intros _ _. apply loopQ_ret. }
  destruct (m =? 217).
  { eapply loopQ_bind; [apply sv1_out_alloc_good; auto|]. intros _ _. apply loopQ_ret. }
  destruct (has_length m).
  { eapply loopQ_bind; [apply good_read_segment; exact Hr|].
    intros [d rest] (P1 & P2 & P3 & P4). cbn [fst snd] in *. apply IH; auto. lia. }
  apply IH; auto. lia.
Qed.

Lemma sv1_decode_loopQ : forall g bs, bytes bs -> loopQ g (sv1_decode g (fuel_of bs) bs).
Proof.
  intros g bs Hb. unfold sv1_decode.
  destruct (read_marker bs) as [[m r]| | |] eqn:EM; try apply loopQ_err.
  destruct (read_marker_ok _ _ _ EM) as [Hl Hbb]. destruct (Hbb Hb) as [Hr Hm].
  destruct (m =? 216); [|apply loopQ_err].
  apply sv1_loop_good; auto; [apply JInv0|unfold fuel_of; lia].
Qed.

Theorem sv1_decode_no_panic : forall bs, bytes bs -> fst (sv1_decode true (fuel_of bs) bs) <> Panic.
Proof. intros bs Hb. apply (sv1_decode_loopQ true bs Hb). reflexivity. Qed.

Theorem sv1_decode_panics_refuted : exists bs, bytes bs /\ fst (sv1_decode false (fuel_of bs) bs) = Panic.
Proof.
  exists jll_panic_witness. split; [|vm_compute; reflexivity].
  unfold bytes, jll_panic_witness. repeat constructor; lia.
Qed.

Theorem sv1_decode_fuel : forall g bs, bytes bs -> fst (sv1_decode g (fuel_of bs) bs) <> OutOfFuel.
Proof. intros g bs Hb. apply (sv1_decode_loopQ g bs Hb). Qed.

(* SV1 allocates the sample arrays while parsing SOF3, and accepts any number of SOF3 segments:
   relative to the header it finally decodes with, the requests are NOT bounded. Witness:
   SOF3 65535x65535 (8*65535^2 bytes requested), then SOF3 1x1, then EOI. *)
Definition sv1_alloc_statement : Prop := forall g bs, bytes bs ->
  Forall (fun a => a <= 8 * Sres S_jhdr (fst (sv1_decode g (fuel_of bs) bs)) + 2 * zlen bs + 65536)
         (snd (sv1_decode g (fuel_of bs) bs)).
Definition sv1_two_sof_witness : list Z :=
  [255; 216; 255; 195; 0; 11; 8; 255; 255; 255; 255; 1; 1; 17; 0;
             255; 195; 0; 11; 8; 0; 1; 0; 1; 1; 1; 17; 0; 255; 217].
Theorem sv1_alloc_refuted : ~ sv1_alloc_statement.
Proof.
  intros H. specialize (H true sv1_two_sof_witness).
  assert (Hb : bytes sv1_two_sof_witness) by (unfold bytes, sv1_two_sof_witness; repeat constructor; lia).
  specialize (H Hb). rewrite Forall_forall in H.
  specialize (H (8 * (65535 * 65535))).
  assert (Hin : In (8 * (65535 * 65535)) (snd (sv1_decode true (fuel_of sv1_two_sof_witness) sv1_two_sof_witness)))
    by (vm_compute; tauto).
  specialize (H Hin). vm_compute in H. apply H. reflexivity.
Qed.
