(* Parsers: theorems about the JPEG baseline header model (PrsBaseline.v). *)
From V Require Import Common.Base Parsers.PrsOutcome Parsers.PrsJpeg Parsers.PrsBaseline
  Parsers.PrsProofsBase Parsers.PrsProofsJpeg.

Ltac bsimpl := cbn [b_w b_h b_comps b_mcuw b_mcuh b_dc b_ac b_ri fst snd bc_id bc_h bc_v bc_tq bc_td bc_ta].

Definition comp_ok (mh mv : Z) (c : bcomp) : Prop :=
  1 <= bc_h c <= mh /\ 1 <= bc_v c <= mv /\ 0 <= bc_td c <= 3.
Lemma comp_ok_mono : forall mh mv mh' mv' c, mh <= mh' -> mv <= mv' -> comp_ok mh mv c -> comp_ok mh' mv' c.
Proof. intros mh mv mh' mv' c A B (X & Y & Z0). unfold comp_ok. lia. Qed.

(* frameless: no SOF0 yet (w = h = 0, no components, MCU size 0); framed: MCU size 8*maxH x 8*maxV *)
Definition BInv (st : bst) : Prop :=
  0 <= b_w st <= 65535 /\ 0 <= b_h st <= 65535 /\ zlen (b_comps st) <= 3 /\
  exists mh mv, 1 <= mh <= 4 /\ 1 <= mv <= 4 /\ Forall (comp_ok mh mv) (b_comps st) /\
    (b_comps st <> [] -> b_mcuw st = mh * 8 /\ b_mcuh st = mv * 8 /\ 1 <= b_w st /\ 1 <= b_h st) /\
    ((b_w st =? 0) && (b_h st =? 0) = true -> b_comps st = []).
Lemma BInv0 : BInv bst0.
Proof.
  unfold BInv, bst0, zlen; simpl. repeat split; try lia. exists 1, 1.
  repeat split; try lia; try constructor; congruence.
Qed.
Definition bframeless (st : bst) : bool := (b_w st =? 0) && (b_h st =? 0).
Definition bframeS (st : bst) : Z := b_w st * b_h st * zlen (b_comps st).
Lemma bframeless_S : forall st, bframeless st = true -> bframeS st = 0.
Proof. intros st H. unfold bframeless in H. apply andb_true_iff in H. destruct H as [H _]. apply Z.eqb_eq in H. unfold bframeS. rewrite H. lia. Qed.
Definition bpostR (r : list Z) (x : bst * list Z) : Prop :=
  BInv (fst x) /\ bytes (snd x) /\ (length (snd x) <= length r)%nat /\ snd x = seg_rest r.

Ltac rsegB Hb := eapply good_bind; [eapply good_weaken; [apply good_read_segment'; exact Hb|lia|intros a Ha; exact Ha]|].

(* DivCeil(a, b) for b = 8*m: the quotient q satisfies q*b <= a + b - 1 *)
Lemma div_ceil_good : forall B a m, 0 <= a <= 65535 -> 1 <= m <= 4 ->
  good true B (fun q => 0 <= q <= 65535 /\ q * (m * 8) <= a + m * 8 - 1) (div_ceil a (m * 8)).
Proof.
  intros. unfold div_ceil. destruct (Z.eqb_spec (m * 8) 0); [lia|].
  apply good_ret. rewrite Z.quot_div_nonneg by lia.
  assert (Hq : 0 <= (a + m * 8 - 1) / (m * 8)) by (apply Z.div_pos; lia).
  assert (Hm : (m * 8) * ((a + m * 8 - 1) / (m * 8)) <= a + m * 8 - 1) by (apply Z.mul_div_le; lia).
  split; [|lia]. split; [exact Hq|]. nia.
Qed.

Lemma bl_comps_good : forall B data k i acc mh mv, bytes data -> 0 <= i -> 6 + (i + Z.of_nat k) * 3 <= zlen data ->
  Forall (comp_ok mh mv) acc -> zlen acc = i -> 1 <= mh <= 4 -> 1 <= mv <= 4 ->
  good true B (fun x => let '(cs, a, b) := x in Forall (comp_ok a b) cs /\ zlen cs = i + Z.of_nat k /\ 1 <= a <= 4 /\ 1 <= b <= 4)
       (bl_comps data k i acc mh mv).
Proof.
  intros B data k. induction k as [|k IH]; intros i acc mh mv Hb Hi Hl Ha Hz Hmh Hmv; cbn [bl_comps].
  - apply good_ret. repeat split; auto; lia.
  - eapply good_bind; [apply good_idx; lia|]. intros id _.
    eapply good_bind; [apply good_idx; lia|]. intros hv _.
    eapply good_bind; [apply good_idx; lia|]. intros tq _.
    destruct ((hv / 16 <=? 0) || (4 <? hv / 16) || (hv mod 16 <=? 0) || (4 <? hv mod 16)) eqn:E; [apply good_err|].
    apply orb_false_iff in E. destruct E as [E E4]. apply orb_false_iff in E. destruct E as [E E3].
    apply orb_false_iff in E. destruct E as [E1 E2].
    apply Z.leb_gt in E1. apply Z.ltb_ge in E2. apply Z.leb_gt in E3. apply Z.ltb_ge in E4.
    destruct (3 <? tq); [apply good_err|].
    eapply good_weaken; [apply IH with (mh := Z.max mh (hv / 16)) (mv := Z.max mv (hv mod 16)); try lia; auto| |].
    + apply Forall_app. split.
      * eapply Forall_impl; [|exact Ha]. intros c Hc. eapply comp_ok_mono; [| |exact Hc]; lia.
      * constructor; [|constructor]. unfold comp_ok; bsimpl. lia.
    + unfold zlen in *. rewrite app_length. simpl. lia.
    + apply Z.le_refl.
    + intros [[cs a] b] (F & Z1 & A & Bb). repeat split; auto; lia.
Qed.

(* comp.data: (mcuCols*H)*(mcuRows*V)*64 bytes <= 63*w*h + 961 *)
Lemma bl_comp_allocs_good : forall cs w h mh mv mc mr, Forall (comp_ok mh mv) cs ->
  1 <= w <= 65535 -> 1 <= h <= 65535 -> 1 <= mh <= 4 -> 1 <= mv <= 4 ->
  0 <= mc -> mc * (mh * 8) <= w + mh * 8 - 1 -> 0 <= mr -> mr * (mv * 8) <= h + mv * 8 - 1 ->
  good true (63 * (w * h) + 961) (fun _ => True) (bl_comp_allocs cs mc mr).
Proof.
  intros cs w h mh mv mc mr F Hw Hh Hmh Hmv Hc0 Hc Hr0 Hr.
  induction F as [|c r (H1 & H2 & _) Fr IH]; cbn [bl_comp_allocs]; [apply good_ret; exact I|].
  assert (HX : 0 <= mc * bc_h c /\ 8 * (mc * bc_h c) <= w + 31) by nia.
  assert (HY : 0 <= mr * bc_v c /\ 8 * (mr * bc_v c) <= h + 31) by nia.
  assert (HP : 64 * (mc * bc_h c * (mr * bc_v c)) <= (w + 31) * (h + 31)) by nia.
  assert (HQ : (w + 31) * (h + 31) <= 63 * (w * h) + 961) by nia.
  assert (HW : w * h <= 65535 * 65535) by nia.
  assert (H0 : 0 <= mc * bc_h c * (mr * bc_v c)) by nia.
  eapply good_bind; [apply good_alloc with (post := fun _ => True); [lia|rewrite maxAlloc_val; lia|lia|exact I]|].
  intros _ _. exact IH.
Qed.

Lemma seg_data_bytes : forall bs, bytes bs -> bytes (seg_data bs).
Proof.
  intros bs Hb. unfold seg_data. destruct bs as [|a [|b r']]; try constructor.
  inversion Hb as [|? ? ? Hb']; subst. inversion Hb'; subst. apply bytes_firstn; auto.
Qed.

Lemma bl_sof_good : forall st bs, bytes bs -> BInv st ->
  good true (64 * sof_S (seg_data bs) + 65536)
       (fun x => bpostR bs x /\ bframeless st = true /\ bframeless (fst x) = false /\ bframeS (fst x) = sof_S (seg_data bs))
       (bl_parse_sof st bs).
Proof.
  intros st bs Hb HI. unfold bl_parse_sof.
  pose proof (sof_S_nonneg _ (seg_data_bytes bs Hb)) as HS0.
  rsegB Hb.
  intros [d rest] (Hd & Hrest & Hdl & Hlen & Ed & Er). cbn [fst snd] in *.
  destruct (zlen d <? 6) eqn:E6; [apply good_err|].
  destruct (negb (b_w st =? 0) || negb (b_h st =? 0)) eqn:Efr; [apply good_err|].
  destruct (negb (znth d 0 0 =? 8)); [apply good_err|].
  pose proof (be16j_bound d 1 Hd). pose proof (be16j_bound d 3 Hd).
  destruct ((be16j d 3 <=? 0) || (be16j d 1 <=? 0)) eqn:Ewh; [apply good_err|].
  destruct (negb ((znth d 5 0 =? 1) || (znth d 5 0 =? 3))) eqn:Ec; [apply good_err|].
  assert (Hc : 1 <= znth d 5 0 <= 3).
  { apply negb_false_iff in Ec. apply orb_true_iff in Ec. destruct Ec as [E|E]; apply Z.eqb_eq in E; lia. }
  apply orb_false_iff in Ewh. destruct Ewh as [W1 W2]. apply Z.leb_gt in W1. apply Z.leb_gt in W2.
  apply orb_false_iff in Efr. destruct Efr as [F1 F2]. apply negb_false_iff in F1. apply negb_false_iff in F2.
  assert (ES : sof_S (seg_data bs) = be16j d 3 * be16j d 1 * znth d 5 0).
  { rewrite <- Ed. unfold sof_S, be16j. rewrite E6. reflexivity. }
  assert (Hwh : 1 <= be16j d 3 * be16j d 1) by nia.
  assert (Hle : be16j d 3 * be16j d 1 <= sof_S (seg_data bs)) by (rewrite ES; nia).
  destruct (Z.ltb_spec (zlen d) (6 + znth d 5 0 * 3)); [apply good_err|].
  eapply good_bind; [apply good_alloc with (post := fun _ => True); [lia|rewrite maxAlloc_val; lia|lia|exact I]|].
  intros _ _.
  eapply good_bind.
  { apply bl_comps_good; [auto|lia|rewrite Z2Nat.id by lia; lia|constructor|reflexivity|lia|lia]. }
  intros [[cs mh] mv] (F & Zc & A & B). rewrite Z2Nat.id in Zc by lia.
  eapply good_bind; [apply div_ceil_good; lia|]. intros mc (Hmc & Hmc2).
  eapply good_bind; [apply div_ceil_good; lia|]. intros mr (Hmr & Hmr2).
  eapply good_bind.
  { eapply good_weaken; [apply bl_comp_allocs_good with (w := be16j d 3) (h := be16j d 1) (mh := mh) (mv := mv); auto; lia|lia|intros a Ha; exact Ha]. }
  intros _ _.
  assert (Hne : cs <> []) by (intros E; rewrite E in Zc; unfold zlen in Zc; simpl in Zc; lia).
  apply good_ret. unfold bpostR, BInv, bframeless, bframeS; bsimpl.
  split.
  { split; [split; [lia|]|auto].
    split; [lia|]. split; [lia|]. exists mh, mv. split; [lia|]. split; [lia|]. split; [exact F|].
    split; [intros _; lia|]. destruct (Z.eqb_spec (be16j d 3) 0); [lia|]. cbn [andb]. discriminate. }
  split; [rewrite F1, F2; reflexivity|]. split.
  { destruct (Z.eqb_spec (be16j d 3) 0); [lia|]. reflexivity. }
  rewrite ES, Zc. lia.
Qed.

Lemma bl_sof_framed : forall st bs, bytes bs -> bframeless st = false -> good true 65536 (fun _ => False) (bl_parse_sof st bs).
Proof.
  intros st bs Hb Efl. unfold bl_parse_sof. rsegB Hb.
  intros [d rest] _. cbn [fst snd].
  destruct (zlen d <? 6); [apply good_err|].
  unfold bframeless in Efl. apply andb_false_iff in Efl.
  destruct (negb (b_w st =? 0) || negb (b_h st =? 0)) eqn:E; [apply good_err|].
  apply orb_false_iff in E. destruct E as [F1 F2]. apply negb_false_iff in F1. apply negb_false_iff in F2.
  destruct Efl; congruence.
Qed.

Lemma bl_dqt_loop_good : forall fuel data, (length data < fuel)%nat -> good true 65536 (fun _ => True) (bl_dqt_loop fuel data).
Proof.
  induction fuel as [|k IH]; intros data Hf; [lia|]. cbn [bl_dqt_loop].
  destruct data as [|pq r]; [apply good_ret; exact I|].
  destruct (3 <? pq mod 16); [apply good_err|].
  destruct (pq / 16 =? 0).
  - destruct (zlen r <? 64); [apply good_err|]. apply IH. rewrite skipn_length. simpl in Hf. lia.
  - destruct (zlen r <? 128); [apply good_err|]. apply IH. rewrite skipn_length. simpl in Hf. lia.
Qed.

Lemma bl_dqt_good : forall bs, bytes bs ->
  good true 65536 (fun r => bytes r /\ (length r <= length bs)%nat /\ r = seg_rest bs) (bl_parse_dqt bs).
Proof.
  intros bs Hb. unfold bl_parse_dqt. rsegB Hb.
  intros [d rest] (Hd & Hrest & Hdl & Hlen & Ed & Er). cbn [fst snd] in *.
  eapply good_bind; [apply bl_dqt_loop_good; lia|]. intros _ _. apply good_ret. auto.
Qed.

Definition sameB (st st' : bst) : Prop := b_w st' = b_w st /\ b_h st' = b_h st /\ zlen (b_comps st') = zlen (b_comps st).

Lemma bl_dri_good : forall st bs, bytes bs -> BInv st -> good true 65536 (fun x => bpostR bs x /\ sameB st (fst x)) (bl_parse_dri st bs).
Proof.
  intros st bs Hb HI. unfold bl_parse_dri. rsegB Hb.
  intros [d rest] (Hd & Hrest & Hdl & Hlen & Ed & Er). cbn [fst snd] in *.
  destruct (negb (zlen d =? 2)); [apply good_err|].
  apply good_ret. unfold bpostR, sameB; bsimpl. split; [|auto]. split; [|auto].
  destruct HI as (I1 & I2 & I3 & I4). unfold BInv; bsimpl. auto.
Qed.

Lemma set_sel_ok : forall mh mv cs id td ta cs', Forall (comp_ok mh mv) cs -> 0 <= td <= 3 ->
  set_sel cs id td ta = Some cs' -> Forall (comp_ok mh mv) cs' /\ zlen cs' = zlen cs.
Proof.
  intros mh mv cs. induction cs as [|c r IH]; intros id td ta cs' F Ht E; cbn [set_sel] in E; [discriminate|].
  inversion F as [|? ? Hc Fr]; subst.
  destruct (bc_id c =? id).
  - inversion E; subst. split; [|unfold zlen; simpl; lia].
    constructor; [|auto]. destruct Hc as (A & B & _). unfold comp_ok; bsimpl. auto.
  - destruct (set_sel r id td ta) as [r'|] eqn:Er; [|discriminate]. inversion E; subst.
    destruct (IH _ _ _ _ Fr Ht Er) as (F' & Z').
    split; [constructor; auto|]. unfold zlen in *; simpl; lia.
Qed.

Lemma bl_sos_comps_good : forall mh mv data k i cs, bytes data -> 0 <= i -> 1 + (i + Z.of_nat k) * 2 <= zlen data ->
  Forall (comp_ok mh mv) cs ->
  good true 65536 (fun cs' => Forall (comp_ok mh mv) cs' /\ zlen cs' = zlen cs) (bl_sos_comps data k i cs).
Proof.
  intros mh mv data k. induction k as [|k IH]; intros i cs Hb Hi Hl F; cbn [bl_sos_comps].
  - apply good_ret. auto.
  - eapply good_bind; [apply good_idx; lia|]. intros c _.
    eapply good_bind; [apply good_idx; lia|]. intros t Ht. cbv beta in Ht.
    assert (Htb : 0 <= t < 256) by (rewrite Ht; apply bytes_znth; auto).
    destruct (set_sel cs c (t / 16) (t mod 16)) as [cs'|] eqn:Es; [|apply good_err].
    destruct ((3 <? t / 16) || (3 <? t mod 16)) eqn:Eg; [apply good_err|].
    assert (Htd : 0 <= t / 16 <= 3).
    { apply orb_false_iff in Eg. destruct Eg as [E1 _]. apply Z.ltb_ge in E1. split; [apply Z.div_pos; lia|lia]. }
    destruct (set_sel_ok mh mv cs c (t / 16) (t mod 16) cs' F Htd Es) as (F' & Z').
    eapply good_weaken; [apply IH; [auto|lia|lia|exact F']|apply Z.le_refl|].
    intros cs2 (F2 & Z2). split; [auto|lia].
Qed.

Lemma bl_sos_good : forall st bs, bytes bs -> BInv st ->
  good true 65536 (fun x => bpostR bs x /\ sameB st (fst x) /\ b_comps (fst x) <> []) (bl_parse_sos st bs).
Proof.
  intros st bs Hb HI. pose proof HI as (I1 & I2 & I3 & mh & mv & M1 & M2 & I4 & I5 & I6). unfold bl_parse_sos. rsegB Hb.
  intros [d rest] (Hd & Hrest & Hdl & Hlen & Ed & Er). cbn [fst snd] in *.
  destruct (Z.ltb_spec (zlen d) 1); [apply good_err|].
  eapply good_bind; [apply good_idx; lia|]. intros ns Hns. cbv beta in Hns.
  assert (Hnsb : 0 <= ns < 256) by (rewrite Hns; apply bytes_znth; auto).
  destruct (Z.ltb_spec (zlen d) (1 + ns * 2 + 3)); [apply good_err|].
  destruct ((zlen (b_comps st) =? 0) || (ns =? 0)) eqn:E0; [apply good_err|].
  apply orb_false_iff in E0. destruct E0 as [E0 _]. apply Z.eqb_neq in E0.
  eapply good_bind; [apply bl_sos_comps_good with (mh := mh) (mv := mv); [auto|lia|rewrite Z2Nat.id by lia; lia|exact I4]|].
  intros cs (F & Zc).
  assert (Hne0 : b_comps st <> []) by (intros E; rewrite E in E0; unfold zlen in E0; simpl in E0; lia).
  assert (Hne : cs <> []) by (intros E; rewrite E in Zc; unfold zlen in Zc; simpl in Zc; unfold zlen in E0; lia).
  apply good_ret. unfold bpostR, sameB, BInv; bsimpl.
  split; [|split; [auto|exact Hne]].
  split; [|auto]. split; [lia|]. split; [lia|]. split; [lia|].
  exists mh, mv. split; [lia|]. split; [lia|]. split; [exact F|]. split; [intros _; apply I5; exact Hne0|].
  intros C. specialize (I6 C). congruence.
Qed.

Lemma bl_scan_start_good : forall st rest, BInv st -> b_comps st <> [] ->
  good true (2 * zlen rest + 512) (fun _ => True) (bl_scan_start st rest).
Proof.
  intros st rest (I1 & I2 & I3 & mh & mv & M1 & M2 & I4 & I5 & I6) Hne. unfold bl_scan_start.
  pose proof (zlen_nonneg rest).
  destruct (I5 Hne) as (E1 & E2 & W1 & W2).
  eapply good_bind; [apply good_note with (post := fun _ => True); [lia|exact I]|]. intros _ _.
  eapply good_bind; [apply good_note with (post := fun _ => True); [lia|exact I]|]. intros _ _.
  rewrite E1, E2.
  eapply good_bind; [apply div_ceil_good; lia|]. intros mc _.
  eapply good_bind; [apply div_ceil_good; lia|]. intros mr _.
  destruct ((mc <=? 0) || (mr <=? 0)); [apply good_ret; exact I|].
  destruct (b_comps st) as [|c r]; [apply good_ret; exact I|].
  inversion I4 as [|? ? (C1 & C2 & C3) Fr]; subst.
  destruct (Z.ltb_spec (bc_td c) 0); [lia|]. destruct (Z.leb_spec 4 (bc_td c)); [lia|]. cbn [orb].
  destruct (negb (nth (Z.to_nat (bc_td c)) (b_dc st) false)); [apply good_err|apply good_ret; exact I].
Qed.

Lemma bl_out_alloc_good : forall st, BInv st -> good true (bframeS st + 65536) (fun _ => True) (bl_out_alloc st).
Proof.
  intros st (I1 & I2 & I3 & _). unfold bl_out_alloc, bframeS.
  pose proof (zlen_nonneg (b_comps st)).
  assert (0 <= b_w st * b_h st <= 65535 * 65535)
    by (split; [apply Z.mul_nonneg_nonneg; lia | apply Z.mul_le_mono_nonneg; lia]).
  assert (0 <= b_w st * b_h st * zlen (b_comps st) <= 65535 * 65535 * 3)
    by (split; [apply Z.mul_nonneg_nonneg; lia | apply Z.mul_le_mono_nonneg; lia]).
  apply good_alloc; [lia|rewrite maxAlloc_val; lia|lia|exact I].
Qed.

Lemma bl_loop_good : forall fuel st bs Sx, bytes bs -> BInv st -> (length bs < fuel)%nat -> 0 <= Sx ->
  (bframeless st = true -> frame_S fuel bs <= Sx) -> (bframeless st = false -> bframeS st <= Sx) ->
  aloopP Sx 64 bs (bl_loop fuel st bs).
Proof.
  induction fuel as [|k IH]; intros st bs Sx Hb HI Hf HS H1 H2; [lia|].
  assert (HfS : bframeS st <= Sx).
  { destruct (bframeless st) eqn:E; [rewrite (bframeless_S st E); exact HS|apply H2; reflexivity]. }
  cbn [bl_loop]. cbn [frame_S] in H1.
  destruct (read_marker bs) as [[m r]| | |] eqn:EM; try apply aloopP_err.
  destruct (read_marker_ok _ _ _ EM) as [Hl Hbb]. destruct (Hbb Hb) as [Hr Hm].
  assert (Hzl : zlen r <= zlen bs) by (unfold zlen; lia).
  pose proof (zlen_nonneg bs) as Hz0.
  destruct (m =? 192) eqn:E192.
  { assert (Hs : is_sof m = true) by (apply Z.eqb_eq in E192; subst m; reflexivity). rewrite Hs in H1.
    destruct (bframeless st) eqn:Efl.
    - specialize (H1 eq_refl).
      eapply aloopP_bind; [apply bl_sof_good; auto|nia|].
      intros [st' rest] ((P1 & P2 & P3 & P4) & F0 & F1 & F2). cbn [fst snd] in *.
      eapply aloopP_mono with (S' := Sx) (bs' := rest); [lia|lia|unfold zlen; lia|].
      apply IH; auto; [lia| |].
      + intros C. rewrite F1 in C. discriminate.
      + intros _. rewrite F2. exact H1.
    - eapply aloopP_bind; [apply bl_sof_framed; auto|nia|]. intros a []. }
  destruct (m =? 219) eqn:E219.
  { eapply aloopP_bind; [apply bl_dqt_good; auto|nia|]. intros r2 (P2 & P3 & P4).
    eapply aloopP_mono with (S' := Sx) (bs' := r2); [lia|lia|unfold zlen; lia|].
    apply IH; auto; [lia|]. intros C. rewrite P4. apply Z.eqb_eq in E219. subst m. cbn in H1. apply H1; exact C. }
  destruct (m =? 196) eqn:E196.
  { eapply aloopP_bind; [apply parse_dht_good; auto|nia|].
    intros [[dc ac] rest] (P2 & P3 & P4). cbn [fst snd] in *.
    eapply aloopP_mono with (S' := Sx) (bs' := rest); [lia|lia|unfold zlen; lia|].
    apply IH; [exact P2| |lia|exact HS| |].
    - destruct HI as (I1 & I2 & I3 & I4). unfold BInv; bsimpl. auto.
    - unfold bframeless; bsimpl. intros C. rewrite P4.
      apply Z.eqb_eq in E196. subst m. cbn in H1. apply H1. exact C.
    - unfold bframeless, bframeS; bsimpl. exact H2. }
  destruct (m =? 221) eqn:E221.
  { eapply aloopP_bind; [apply bl_dri_good; auto|nia|].
    intros [st' rest] ((P1 & P2 & P3 & P4) & (A1 & A2 & A3)). cbn [fst snd] in *.
    assert (Hfl : bframeless st' = bframeless st) by (unfold bframeless; rewrite A1, A2; reflexivity).
    eapply aloopP_mono with (S' := Sx) (bs' := rest); [lia|lia|unfold zlen; lia|].
    apply IH; auto; [lia| |].
    - rewrite Hfl. intros C. rewrite P4. apply Z.eqb_eq in E221. subst m. cbn in H1. apply H1; exact C.
    - rewrite Hfl. intros C. unfold bframeS. rewrite A1, A2, A3. apply H2; exact C. }
  destruct (m =? 218) eqn:E218.
  { eapply aloopP_bind; [apply bl_sos_good; auto|nia|].
    intros [st' rest] ((P1 & P2 & P3 & P4) & (A1 & A2 & A3) & Hne). cbn [fst snd] in *.
    assert (zlen rest <= zlen bs) by (unfold zlen; lia).
    eapply aloopP_bind; [apply bl_scan_start_good; auto|nia|]. intros _ _.
    eapply aloopP_bind; [apply bl_out_alloc_good; exact P1| |intros _ _; apply aloopP_ret].
    unfold bframeS in *. rewrite A1, A2, A3. nia. }
  destruct (m =? 217) eqn:E217.
  { eapply aloopP_bind; [apply bl_out_alloc_good; exact HI|nia|intros _ _; apply aloopP_ret]. }
  revert H1. destruct (is_sof m) eqn:ESOF; intros H1; [apply aloopP_err|].
  cbn [orb] in H1.
  destruct (has_length m) eqn:EL.
  { eapply aloopP_bind; [eapply good_weaken; [apply good_read_segment'; exact Hr|apply Z.le_refl|intros a Ha; exact Ha]|nia|].
    intros [d rest] (P1 & P2 & P3 & P4 & P5 & P6). cbn [fst snd] in *.
    eapply aloopP_mono with (S' := Sx) (bs' := rest); [lia|lia|unfold zlen; lia|].
    apply IH; auto; [lia|]. intros C. rewrite P6. apply H1. exact C. }
  eapply aloopP_mono with (S' := Sx) (bs' := r); [lia|lia|exact Hzl|].
  apply IH; auto. lia.
Qed.

Lemma bl_decode_aloopP : forall bs, bytes bs -> aloopP (frame_declared bs) 64 bs (bl_decode (fuel_of bs) bs).
Proof.
  intros bs Hb. unfold bl_decode, frame_declared.
  destruct (read_marker bs) as [[m r]| | |] eqn:EM; try apply aloopP_err.
  destruct (read_marker_ok _ _ _ EM) as [Hl Hbb]. destruct (Hbb Hb) as [Hr Hm].
  destruct (m =? 216); [|apply aloopP_err].
  eapply aloopP_mono with (S' := frame_S (fuel_of bs) r) (bs' := r); [lia|lia|unfold zlen; lia|].
  apply bl_loop_good; auto.
  - apply BInv0.
  - unfold fuel_of; lia.
  - apply frame_S_nonneg; auto.
  - intros _. lia.
  - intros C. discriminate.
Qed.

(* F42/F43: Tq, Td, Ta are validated and a scan needs a frame: the baseline header path, up to the
   first Huffman table lookup of the scan, does not panic for any byte string (historical witnesses:
   ff d8 ff da 00 06 00 00 00 00 -> DivCeil(0,0); SOF0 1x1 + SOS with Td = 4 -> dcTables[4]) *)
Theorem bl_decode_no_panic : forall bs, bytes bs -> fst (bl_decode (fuel_of bs) bs) <> Panic.
Proof. intros bs Hb. apply (bl_decode_aloopP bs Hb). Qed.
Theorem bl_decode_fuel : forall bs, bytes bs -> fst (bl_decode (fuel_of bs) bs) <> OutOfFuel.
Proof. intros bs Hb. apply (bl_decode_aloopP bs Hb). Qed.
(* block buffers are requested while parsing SOF0: at most 63*w*h + 961 bytes per component *)
Theorem bl_decode_alloc : forall bs, bytes bs ->
  Forall (fun a => a <= 64 * frame_declared bs + 2 * zlen bs + 65536) (snd (bl_decode (fuel_of bs) bs)).
Proof. intros bs Hb. apply (bl_decode_aloopP bs Hb). Qed.
