(* Parsers: theorems about the JPEG baseline header model (PrsBaseline.v). *)
From V Require Import Common.Base Parsers.PrsOutcome Parsers.PrsJpeg Parsers.PrsBaseline
  Parsers.PrsProofsBase Parsers.PrsProofsJpeg.

Definition BB : Z := maxAlloc.
Ltac bsimpl := cbn [b_w b_h b_comps b_mcuw b_mcuh b_dc b_ac b_ri fst snd bc_id bc_h bc_v bc_tq bc_td bc_ta].

Definition comp_ok (g : bool) (c : bcomp) : Prop :=
  1 <= bc_h c <= 4 /\ 1 <= bc_v c <= 4 /\ (g = true -> 0 <= bc_td c <= 3).
Definition BInv (g : bool) (st : bst) : Prop :=
  0 <= b_w st <= 65535 /\ 0 <= b_h st <= 65535 /\ zlen (b_comps st) <= 3 /\ Forall (comp_ok g) (b_comps st) /\
  0 <= b_mcuw st <= 32 /\ 0 <= b_mcuh st <= 32 /\ (b_comps st <> [] -> 8 <= b_mcuw st /\ 8 <= b_mcuh st).
Lemma BInv0 : forall g, BInv g bst0.
Proof. intros. unfold BInv, bst0, zlen; simpl. repeat split; try lia; try constructor; congruence. Qed.
Definition bpost (g : bool) (bs : list Z) (x : bst * list Z) : Prop :=
  BInv g (fst x) /\ bytes (snd x) /\ (length (snd x) <= length bs)%nat.

Lemma div_ceil_good : forall g a b, 0 <= a <= 65535 -> 8 <= b <= 32 ->
  good g BB (fun q => 0 <= q <= 65535) (div_ceil a b).
Proof.
  intros. unfold div_ceil. destruct (Z.eqb_spec b 0); [lia|].
  apply good_ret. rewrite Z.quot_div_nonneg by lia. split; [apply Z.div_pos; lia|].
  apply Z.div_le_upper_bound; [lia|]. nia.
Qed.

Lemma bl_comps_good : forall g data k i acc mh mv, bytes data -> 0 <= i -> 6 + (i + Z.of_nat k) * 3 <= zlen data ->
  Forall (comp_ok g) acc -> zlen acc = i -> 1 <= mh <= 4 -> 1 <= mv <= 4 ->
  good g BB (fun x => let '(cs, a, b) := x in Forall (comp_ok g) cs /\ zlen cs = i + Z.of_nat k /\ 1 <= a <= 4 /\ 1 <= b <= 4)
       (bl_comps g data k i acc mh mv).
Proof.
  intros g data k. induction k as [|k IH]; intros i acc mh mv Hb Hi Hl Ha Hz Hmh Hmv; cbn [bl_comps].
  - apply good_ret. repeat split; auto; lia.
  - eapply good_bind; [apply good_idx; lia|]. intros id _.
    eapply good_bind; [apply good_idx; lia|]. intros hv _.
    eapply good_bind; [apply good_idx; lia|]. intros tq _.
    destruct ((hv / 16 <=? 0) || (4 <? hv / 16) || (hv mod 16 <=? 0) || (4 <? hv mod 16)) eqn:E; [apply good_err|].
    apply orb_false_iff in E. destruct E as [E E4]. apply orb_false_iff in E. destruct E as [E E3].
    apply orb_false_iff in E. destruct E as [E1 E2].
    apply Z.leb_gt in E1. apply Z.ltb_ge in E2. apply Z.leb_gt in E3. apply Z.ltb_ge in E4.
    destruct (g && (3 <? tq)); [apply good_err|].
    eapply good_weaken; [apply IH; try lia; auto| |].
    + apply Forall_app. split; [auto|]. constructor; [|constructor].
      unfold comp_ok; simpl. repeat split; lia.
    + unfold zlen in *. rewrite app_length. simpl. lia.
    + apply Z.le_refl.
    + intros [[cs a] b] (F & Z1 & A & B). repeat split; auto; lia.
Qed.

Lemma bl_comp_allocs_good : forall g cs mc mr, Forall (comp_ok g) cs -> 0 <= mc <= 65535 -> 0 <= mr <= 65535 ->
  good g BB (fun _ => True) (bl_comp_allocs cs mc mr).
Proof.
  intros g cs mc mr F Hc Hr. induction F as [|c r (H1 & H2 & _) Fr IH]; cbn [bl_comp_allocs]; [apply good_ret; exact I|].
  assert (0 <= mc * bc_h c <= 65535 * 4) by nia. assert (0 <= mr * bc_v c <= 65535 * 4) by nia.
  assert (0 <= mc * bc_h c * (mr * bc_v c) <= 65535 * 4 * (65535 * 4)) by nia.
  eapply good_bind; [apply good_alloc with (post := fun _ => True); [lia|unfold BB|unfold BB|exact I]; rewrite maxAlloc_val; lia|].
  intros _ _. exact IH.
Qed.

Lemma bl_sof_good : forall g st bs, bytes bs -> BInv g st -> good g BB (bpost g bs) (bl_parse_sof g st bs).
Proof.
  intros g st bs Hb HI. unfold bl_parse_sof.
  eapply good_bind.
  { eapply good_weaken; [apply good_read_segment; exact Hb|unfold BB; rewrite maxAlloc_val; lia|intros a Ha; exact Ha]. }
  intros [d rest] (Hd & Hrest & Hdl & Hlen). cbn [fst snd] in *.
  destruct (zlen d <? 6); [apply good_err|].
  destruct (negb (znth d 0 0 =? 8)); [apply good_err|].
  pose proof (be16j_bound d 1 Hd). pose proof (be16j_bound d 3 Hd).
  destruct ((be16j d 3 <=? 0) || (be16j d 1 <=? 0)); [apply good_err|].
  destruct (negb ((znth d 5 0 =? 1) || (znth d 5 0 =? 3))) eqn:Ec; [apply good_err|].
  assert (Hc : 1 <= znth d 5 0 <= 3).
  { apply negb_false_iff in Ec. apply orb_true_iff in Ec. destruct Ec as [E|E]; apply Z.eqb_eq in E; lia. }
  destruct (Z.ltb_spec (zlen d) (6 + znth d 5 0 * 3)); [apply good_err|].
  eapply good_bind; [apply good_alloc with (post := fun _ => True); [lia|unfold BB|unfold BB|exact I]; rewrite maxAlloc_val; lia|].
  intros _ _.
  eapply good_bind.
  { apply bl_comps_good; [auto|lia|rewrite Z2Nat.id by lia; lia|constructor|reflexivity|lia|lia]. }
  intros [[cs mh] mv] (F & Zc & A & B). rewrite Z2Nat.id in Zc by lia.
  eapply good_bind; [apply div_ceil_good; lia|]. intros mc Hmc. cbv beta in Hmc.
  eapply good_bind; [apply div_ceil_good; lia|]. intros mr Hmr. cbv beta in Hmr.
  eapply good_bind; [apply bl_comp_allocs_good; auto|]. intros _ _.
  apply good_ret. unfold bpost, BInv; bsimpl. repeat split; auto; lia.
Qed.

Lemma bl_dqt_loop_good : forall g fuel data, (length data < fuel)%nat -> good g BB (fun _ => True) (bl_dqt_loop fuel data).
Proof.
  intros g fuel. induction fuel as [|k IH]; intros data Hf; [lia|]. cbn [bl_dqt_loop].
  destruct data as [|pq r]; [apply good_ret; exact I|].
  destruct (3 <? pq mod 16); [apply good_err|].
  destruct (pq / 16 =? 0).
  - destruct (zlen r <? 64); [apply good_err|]. apply IH. rewrite skipn_length. simpl in Hf. lia.
  - destruct (zlen r <? 128); [apply good_err|]. apply IH. rewrite skipn_length. simpl in Hf. lia.
Qed.

Lemma bl_dqt_good : forall g bs, bytes bs ->
  good g BB (fun r => bytes r /\ (length r <= length bs)%nat) (bl_parse_dqt bs).
Proof.
  intros g bs Hb. unfold bl_parse_dqt.
  eapply good_bind.
  { eapply good_weaken; [apply good_read_segment; exact Hb|unfold BB; rewrite maxAlloc_val; lia|intros a Ha; exact Ha]. }
  intros [d rest] (Hd & Hrest & Hdl & Hlen). cbn [fst snd] in *.
  eapply good_bind; [apply bl_dqt_loop_good; lia|]. intros _ _. apply good_ret. auto.
Qed.

Lemma bl_dri_good : forall g st bs, bytes bs -> BInv g st -> good g BB (bpost g bs) (bl_parse_dri st bs).
Proof.
  intros g st bs Hb HI. unfold bl_parse_dri.
  eapply good_bind.
  { eapply good_weaken; [apply good_read_segment; exact Hb|unfold BB; rewrite maxAlloc_val; lia|intros a Ha; exact Ha]. }
  intros [d rest] (Hd & Hrest & Hdl & Hlen). cbn [fst snd] in *.
  destruct (negb (zlen d =? 2)); [apply good_err|].
  apply good_ret. unfold bpost; cbn [fst snd]. split; [|auto].
  destruct HI as (I1 & I2 & I3 & I4 & I5 & I6 & I7). unfold BInv; bsimpl. tauto.
Qed.

Lemma set_sel_ok : forall g cs id td ta cs', Forall (comp_ok g) cs -> (g = true -> 0 <= td <= 3) ->
  set_sel cs id td ta = Some cs' -> Forall (comp_ok g) cs' /\ zlen cs' = zlen cs /\ (cs <> [] -> cs' <> []).
Proof.
  intros g cs. induction cs as [|c r IH]; intros id td ta cs' F Ht E; cbn [set_sel] in E; [discriminate|].
  inversion F as [|? ? Hc Fr]; subst.
  destruct (bc_id c =? id).
  - inversion E; subst. split; [|split; [unfold zlen; simpl; lia|congruence]].
    constructor; [|auto]. destruct Hc as (A & B & _). unfold comp_ok; simpl. auto.
  - destruct (set_sel r id td ta) as [r'|] eqn:Er; [|discriminate]. inversion E; subst.
    destruct (IH _ _ _ _ Fr Ht Er) as (F' & Z' & _).
    split; [constructor; auto|]. split; [unfold zlen in *; simpl; lia|congruence].
Qed.

Lemma bl_sos_comps_good : forall g data k i cs, bytes data -> 0 <= i -> 1 + (i + Z.of_nat k) * 2 <= zlen data ->
  Forall (comp_ok g) cs ->
  good g BB (fun cs' => Forall (comp_ok g) cs' /\ zlen cs' = zlen cs) (bl_sos_comps g data k i cs).
Proof.
  intros g data k. induction k as [|k IH]; intros i cs Hb Hi Hl F; cbn [bl_sos_comps].
  - apply good_ret. auto.
  - eapply good_bind; [apply good_idx; lia|]. intros c _.
    eapply good_bind; [apply good_idx; lia|]. intros t Ht. cbv beta in Ht.
    assert (Htb : 0 <= t < 256) by (rewrite Ht; apply bytes_znth; auto).
    destruct (set_sel cs c (t / 16) (t mod 16)) as [cs'|] eqn:Es; [|apply good_err].
    destruct (g && ((3 <? t / 16) || (3 <? t mod 16))) eqn:Eg; [apply good_err|].
    assert (Htd : g = true -> 0 <= t / 16 <= 3).
    { intros ->. cbn [andb] in Eg. apply orb_false_iff in Eg. destruct Eg as [E1 _]. apply Z.ltb_ge in E1.
      split; [apply Z.div_pos; lia|lia]. }
    destruct (set_sel_ok g cs c (t / 16) (t mod 16) cs' F Htd Es) as (F' & Z' & N').
    eapply good_weaken; [apply IH; [auto|lia|lia|exact F']|apply Z.le_refl|].
    intros cs2 (F2 & Z2). split; [auto|lia].
Qed.

Lemma bl_sos_good : forall g st bs, bytes bs -> BInv g st -> good g BB (bpost g bs) (bl_parse_sos g st bs).
Proof.
  intros g st bs Hb HI. pose proof HI as (I1 & I2 & I3 & I4 & I5 & I6 & I7). unfold bl_parse_sos.
  eapply good_bind.
  { eapply good_weaken; [apply good_read_segment; exact Hb|unfold BB; rewrite maxAlloc_val; lia|intros a Ha; exact Ha]. }
  intros [d rest] (Hd & Hrest & Hdl & Hlen). cbn [fst snd] in *.
  destruct (Z.ltb_spec (zlen d) 1); [apply good_err|].
  eapply good_bind; [apply good_idx; lia|]. intros ns Hns. cbv beta in Hns.
  assert (Hnsb : 0 <= ns < 256) by (rewrite Hns; apply bytes_znth; auto).
  destruct (Z.ltb_spec (zlen d) (1 + ns * 2 + 3)); [apply good_err|].
  eapply good_bind; [apply bl_sos_comps_good; [auto|lia|rewrite Z2Nat.id by lia; lia|exact I4]|].
  intros cs (F & Zc).
  assert (Hne : cs <> [] -> b_comps st <> []).
  { intros Hc E. rewrite E in Zc. destruct cs; [congruence|]. unfold zlen in Zc; simpl in Zc. lia. }
  apply good_ret. unfold bpost, BInv; bsimpl. repeat split; auto; try lia.
  - apply I7; auto.
  - apply I7; auto.
Qed.

Lemma good_false_pure : forall {A} B (m : M A), snd m = [] /\ fst m <> OutOfFuel -> good false B (fun _ => True) m.
Proof. intros A B m (E & F). unfold good. rewrite E. split; [discriminate|]. split; [exact F|]. split; [constructor|auto]. Qed.

Lemma bl_scan_start_good : forall g st rest, BInv g st -> good g (Z.max BB (4 * zlen rest + 512)) (fun _ => True) (bl_scan_start g st rest).
Proof.
  intros g st rest (I1 & I2 & I3 & I4 & I5 & I6 & I7). unfold bl_scan_start.
  eapply good_bind; [apply good_note with (post := fun _ => True); [lia|exact I]|]. intros _ _.
  destruct g; cbn [andb].
  - (* with the checks *)
    destruct (Z.eqb_spec (zlen (b_comps st)) 0); [apply good_err|].
    assert (Hne : b_comps st <> []) by (intros E; rewrite E in n; unfold zlen in n; simpl in n; lia).
    destruct (I7 Hne) as [M1 M2].
    eapply good_bind; [eapply good_weaken; [apply div_ceil_good; lia|lia|intros a Ha; exact Ha]|]. intros mc _.
    eapply good_bind; [eapply good_weaken; [apply div_ceil_good; lia|lia|intros a Ha; exact Ha]|]. intros mr _.
    destruct ((mc <=? 0) || (mr <=? 0)); [apply good_ret; exact I|].
    destruct (b_comps st) as [|c r]; [apply good_ret; exact I|].
    inversion I4 as [|? ? (C1 & C2 & C3) Fr]; subst. specialize (C3 eq_refl).
    destruct (Z.ltb_spec (bc_td c) 0); [lia|]. destruct (Z.leb_spec 4 (bc_td c)); [lia|]. cbn [orb].
    destruct (negb (nth (Z.to_nat (bc_td c)) (b_dc st) false)); [apply good_err|apply good_ret; exact I].
  - (* the code as it stands may panic here; only fuel and request sizes are claimed *)
    apply good_false_pure.
    unfold div_ceil, bind, pan, ret, err.
    destruct (b_comps st) as [|c r];
      repeat match goal with |- context [if ?b then _ else _] => destruct b; cbn [fst snd app] end;
      split; (reflexivity || discriminate).
Qed.

Lemma bl_out_alloc_good : forall g st, BInv g st -> good g BB (fun _ => True) (bl_out_alloc st).
Proof.
  intros g st (I1 & I2 & I3 & I4 & I5 & I6 & I7). unfold bl_out_alloc.
  pose proof (zlen_nonneg (b_comps st)).
  assert (0 <= b_w st * b_h st <= 65535 * 65535)
    by (split; [apply Z.mul_nonneg_nonneg; lia | apply Z.mul_le_mono_nonneg; lia]).
  assert (0 <= b_w st * b_h st * zlen (b_comps st) <= 65535 * 65535 * 3)
    by (split; [apply Z.mul_nonneg_nonneg; lia | apply Z.mul_le_mono_nonneg; lia]).
  apply good_alloc; [lia|unfold BB|unfold BB|exact I]; try rewrite maxAlloc_val; lia.
Qed.

Lemma bl_loop_good : forall g fuel st bs, bytes bs -> BInv g st -> (length bs < fuel)%nat ->
  loopQ g (bl_loop g fuel st bs).
Proof.
  intros g fuel. induction fuel as [|k IH]; intros st bs Hb HI Hf; [lia|].
  cbn [bl_loop].
  destruct (read_marker bs) as [[m r]| | |] eqn:EM; try apply loopQ_err.
  destruct (read_marker_ok _ _ _ EM) as [Hl Hbb]. destruct (Hbb Hb) as [Hr Hm].
  destruct (m =? 192).
  { eapply loopQ_bind; [apply bl_sof_good; auto|].
    intros [st' rest] (P1 & P2 & P3). cbn [fst snd] in *. apply IH; auto. lia. }
  destruct (m =? 219).
  { eapply loopQ_bind; [apply bl_dqt_good; auto|]. intros r2 (P2 & P3). apply IH; auto. lia. }
  destruct (m =? 196).
  { eapply loopQ_bind; [apply parse_dht_good; auto|].
    intros [[dc ac] rest] (P2 & P3). cbn [fst snd] in *. apply IH; [exact P2| |lia].
    destruct HI as (I1 & I2 & I3 & I4 & I5 & I6 & I7). unfold BInv; bsimpl. tauto. }
  destruct (m =? 221).
  { eapply loopQ_bind; [apply bl_dri_good; auto|].
    intros [st' rest] (P1 & P2 & P3). cbn [fst snd] in *. apply IH; auto. lia. }
  destruct (m =? 218).
  { eapply loopQ_bind; [apply bl_sos_good; auto|].
    intros [st' rest] (P1 & P2 & P3). cbn [fst snd] in *.
    eapply loopQ_bind; [apply bl_scan_start_good; auto|]. intros _ _.
    eapply loopQ_bind; [apply bl_out_alloc_good; eauto|]. intros _ _. apply loopQ_ret. }
  destruct (m =? 217).
  { eapply loopQ_bind; [apply bl_out_alloc_good; eauto|]. intros _ _. apply loopQ_ret. }
  destruct (has_length m).
  { eapply loopQ_bind; [apply good_read_segment; exact Hr|].
    intros [d rest] (P1 & P2 & P3 & P4). cbn [fst snd] in *. apply IH; auto. lia. }
  apply IH; auto. lia.
Qed.

Lemma bl_decode_loopQ : forall g bs, bytes bs -> loopQ g (bl_decode g (fuel_of bs) bs).
Proof.
  intros g bs Hb. unfold bl_decode.
  destruct (read_marker bs) as [[m r]| | |] eqn:EM; try apply loopQ_err.
  destruct (read_marker_ok _ _ _ EM) as [Hl Hbb]. destruct (Hbb Hb) as [Hr Hm].
  destruct (m =? 216); [|apply loopQ_err].
  apply bl_loop_good; auto; [apply BInv0|unfold fuel_of; lia].
Qed.

(* with the checks (Tq, Td, Ta <= 3; no scan without a frame header; Build validates its table)
   the baseline header path, up to the first Huffman table lookup of the scan, never panics *)
Theorem bl_decode_no_panic : forall bs, bytes bs -> fst (bl_decode true (fuel_of bs) bs) <> Panic.
Proof. intros bs Hb. apply (bl_decode_loopQ true bs Hb). reflexivity. Qed.

Theorem bl_decode_fuel : forall g bs, bytes bs -> fst (bl_decode g (fuel_of bs) bs) <> OutOfFuel.
Proof. intros g bs Hb. apply (bl_decode_loopQ g bs Hb). Qed.

(* as the code stands: (a) SOS with Ns = 0 before any SOF0 -> DivCeil(0, 0);
   (b) SOF0 1x1, SOS selecting DC table 4 -> dcTables[4] *)
Definition bl_nosof_witness : list Z := [255; 216; 255; 218; 0; 6; 0; 0; 0; 0].
Definition bl_td_witness : list Z :=
  [255; 216; 255; 192; 0; 11; 8; 0; 1; 0; 1; 1; 1; 17; 0; 255; 218; 0; 8; 1; 1; 64; 0; 0; 0].
Theorem bl_decode_panics_refuted_no_frame : bytes bl_nosof_witness /\ fst (bl_decode false (fuel_of bl_nosof_witness) bl_nosof_witness) = Panic.
Proof. split; [unfold bytes, bl_nosof_witness; repeat constructor; lia|vm_compute; reflexivity]. Qed.
Theorem bl_decode_panics_refuted_selector : bytes bl_td_witness /\ fst (bl_decode false (fuel_of bl_td_witness) bl_td_witness) = Panic.
Proof. split; [unfold bytes, bl_td_witness; repeat constructor; lia|vm_compute; reflexivity]. Qed.
