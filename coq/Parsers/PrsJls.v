(* EXTRACT *)
(* JPEG-LS decoders: header parsing and parameter derivation, up to the start of the
   entropy-coded scan.
     jls_compute_thresholds   = jpegls/lossless/context.go  computeThresholds
     jls_bits_len             = jpegls/lossless/context.go  bitsLen
     jls_coding_params        = jpegls/lossless/context.go  ComputeCodingParameters
     jlsl_parse_sof55/lse/sos = jpegls/lossless/decoder.go  parseSOF55 (+ NewTraits, initCodingParameters) / parseLSE / parseSOS
     jlsl_decode              = jpegls/lossless/decoder.go  Decoder.decode : marker loop, then the
                                allocations of decodeScan (scan buffer, pixels, output bytes)
     jlsn_*                   = jpegls/nearlossless/decoder.go  the same for the near-lossless decoder
                                (parameters are derived in parseSOS by applyCodingParameters)
   Result Ok (w,h,c,bits,near): the decoder has reached the entropy decoder with this header.
   History: before fix 3cb0e9d (finding F36) parseSOF55 did not validate the precision byte
   (precision >= 64 -> maxVal = -1 -> 256/(maxVal+1) panicked); before 16f659a a second SOF55
   replaced the first. The model is the fixed code. *)
From V Require Import Common.Base Parsers.PrsOutcome.

Fixpoint jls_bits_loop (fuel : nat) (n len : Z) : Z :=
  match fuel with
  | O => len
  | S k => if 0 <? n then jls_bits_loop k (Z.shiftr n 1) (len + 1) else len
  end.
Definition jls_bits_len (n : Z) : Z := if n <=? 1 then 1 else jls_bits_loop 64 (n - 1) 0.

(* clamp (T.87 Figure C.3): a value outside [lo,hi] becomes lo *)
Definition clampZ (v lo hi : Z) : Z := if (v <? lo) || (hi <? v) then lo else v.

(* computeThresholds: the two divisions are explicit *)
Definition jls_compute_thresholds (maxVal near : Z) : outcome (Z * Z * Z) :=
  if 128 <=? maxVal then
    let factor := Z.quot (Z.min maxVal 4095 + 128) 256 in
    let t1 := clampZ (factor * (3 - 2) + 2 + 3 * near) (near + 1) maxVal in
    let t2 := clampZ (factor * (7 - 3) + 3 + 5 * near) t1 maxVal in
    let t3 := clampZ (factor * (21 - 4) + 4 + 7 * near) t2 maxVal in
    Ok (t1, t2, t3)
  else
    let d := i64 (maxVal + 1) in
    if d =? 0 then Panic (* 256 / (maxVal + 1) *)
    else
      let factor := Z.quot 256 d in
      if factor =? 0 then Panic (* t1Default / factor *)
      else
        let t1 := clampZ (Z.max 2 (Z.quot 3 factor + 3 * near)) (near + 1) maxVal in
        let t2 := clampZ (Z.max 3 (Z.quot 7 factor + 5 * near)) t1 maxVal in
        let t3 := clampZ (Z.max 4 (Z.quot 21 factor + 7 * near)) t2 maxVal in
        Ok (t1, t2, t3).

Record jls_params := mkJP { jp_range : Z; jp_qbpp : Z; jp_limit : Z; jp_t1 : Z; jp_t2 : Z; jp_t3 : Z; jp_reset : Z }.

Definition jls_coding_params (maxVal near reset : Z) : outcome jls_params :=
  let rangeVal := if 0 <? near then Z.quot (maxVal + 2 * near) (2 * near + 1) + 1 else i64 (maxVal + 1) in
  let qbpp := jls_bits_len rangeVal in
  let bpp := jls_bits_len maxVal in
  let limit := 2 * (bpp + Z.max 8 bpp) in
  match jls_compute_thresholds maxVal near with
  | Ok (t1, t2, t3) => Ok (mkJP rangeVal qbpp limit t1 t2 t3 (if reset =? 0 then 64 else reset))
  | Err => Err | Panic => Panic | OutOfFuel => OutOfFuel
  end.

(* decoder state *)
Record jls_st := mkJS {
  js_w : Z; js_h : Z; js_c : Z; js_bits : Z; js_maxval : Z; js_reset : Z;
  js_t1 : Z; js_t2 : Z; js_t3 : Z; js_near : Z; js_ilv : Z }.
Definition jls_st0 : jls_st := mkJS 0 0 0 0 0 0 0 0 0 0 0.

Definition be16 (l : list Z) (o : Z) : Z := znth l o 0 * 256 + znth l (o + 1) 0.

(* NewContextTable: 365 contexts of 4 ints + slice of pointers; a constant-size request *)
Definition jls_ctx_alloc : M unit := alloc 365 (8 + 32).

(* ---------- lossless decoder ---------- *)

(* initCodingParameters(t1,t2,t3): ComputeCodingParameters, NewTraits (ComputeCodingParameters
   again), NewGradientQuantizer, NewContextTable, NewRunModeScanner *)
Definition jlsl_init (st : jls_st) (t1 t2 t3 : Z) : M jls_st :=
  p <- lift (jls_coding_params (js_maxval st) 0 (js_reset st)) ;;
  p2 <- lift (jls_coding_params (js_maxval st) 0 (jp_reset p)) ;;
  _ <- jls_ctx_alloc ;;
  let '(a, b, c) := if (t1 =? 0) || (t2 =? 0) || (t3 =? 0) then (jp_t1 p, jp_t2 p, jp_t3 p) else (t1, t2, t3) in
  ret (mkJS (js_w st) (js_h st) (js_c st) (js_bits st) (js_maxval st) (jp_reset p2) a b c 0 (js_ilv st)).

Definition jlsl_parse_sof55 (st : jls_st) (bs : list Z) : M (jls_st * list Z) :=
  sr <- read_segment bs ;;
  let '(data, rest) := sr in
  if zlen data <? 6 then err else
  if negb (js_w st =? 0) || negb (js_h st =? 0) then err else   (* second frame header *)
  let bits := znth data 0 0 in
  let h := be16 data 1 in
  let w := be16 data 3 in
  let c := znth data 5 0 in
  if (w <=? 0) || (h <=? 0) then err else
  if negb ((c =? 1) || (c =? 3)) then err else
  if (bits <? 2) || (16 <? bits) then err else
  let maxVal := i64 (shl1 bits - 1) in
  (* dec.traits = NewTraits(dec.maxVal, 0, 64) *)
  p <- lift (jls_coding_params maxVal 0 64) ;;
  let st1 := mkJS w h c bits maxVal (jp_reset p) (js_t1 st) (js_t2 st) (js_t3 st) 0 (js_ilv st) in
  st2 <- jlsl_init st1 0 0 0 ;;
  ret (st2, rest).

Definition jlsl_parse_lse (st : jls_st) (bs : list Z) : M (jls_st * list Z) :=
  sr <- read_segment bs ;;
  let '(data, rest) := sr in
  if zlen data <? 1 then err else
  if znth data 0 0 =? 1 then
    if zlen data <? 11 then err else
    let mv := be16 data 1 in
    let t1 := be16 data 3 in
    let t2 := be16 data 5 in
    let t3 := be16 data 7 in
    let rs := be16 data 9 in
    let mv' := if mv <=? 0 then js_maxval st else mv in
    let rs' := if rs =? 0 then 64 else rs in
    let st1 := mkJS (js_w st) (js_h st) (js_c st) (js_bits st) mv' rs' (js_t1 st) (js_t2 st) (js_t3 st) 0 (js_ilv st) in
    st2 <- jlsl_init st1 t1 t2 t3 ;;
    ret (st2, rest)
  else ret (st, rest).

Definition jlsl_parse_sos (st : jls_st) (bs : list Z) : M (jls_st * list Z) :=
  sr <- read_segment bs ;;
  let '(data, rest) := sr in
  if zlen data <? 4 then err else
  if negb (znth data 0 0 =? js_c st) then err else
  ilv <- idx data (zlen data - 2) ;;
  if (js_c st =? 1) && negb (ilv =? 0) then err else
  if (1 <? js_c st) && negb (ilv =? 2) then err else
  ret (mkJS (js_w st) (js_h st) (js_c st) (js_bits st) (js_maxval st) (js_reset st) (js_t1 st) (js_t2 st) (js_t3 st) 0 ilv, rest).

(* allocations of decodeScan: scan buffer (bytes.Buffer, at most 2*len+512), pixels
   (make([]int, w*h*c)), output (1 or 2 bytes per sample) *)
Definition jls_scan_allocs (st : jls_st) (rest : list Z) : M unit :=
  _ <- note_alloc (2 * zlen rest + 512) ;;
  _ <- alloc (js_w st * js_h st * js_c st) 8 ;;
  alloc (js_w st * js_h st * js_c st) (if js_bits st <=? 8 then 1 else 2).

Definition jls_hdr : Type := (Z * Z * Z * Z * Z)%type. (* w, h, c, bits, near *)

Fixpoint jlsl_loop (fuel : nat) (st : jls_st) (bs : list Z) : M jls_hdr :=
  match fuel with
  | O => oof
  | S k =>
    match read_marker bs with
    | Ok (m, r) =>
      if m =? 247 then x <- jlsl_parse_sof55 st r ;; jlsl_loop k (fst x) (snd x)
      else if m =? 248 then x <- jlsl_parse_lse st r ;; jlsl_loop k (fst x) (snd x)
      else if m =? 218 then
        x <- jlsl_parse_sos st r ;;
        _ <- jls_scan_allocs (fst x) (snd x) ;;
        ret (js_w (fst x), js_h (fst x), js_c (fst x), js_bits (fst x), 0)
      else if m =? 217 then err
      else if is_sof m then err   (* F47: frame header of a process this decoder does not implement *)
      else if has_length m then x <- read_segment r ;; jlsl_loop k st (snd x)
      else jlsl_loop k st r
    | _ => err (* read error (EOF: "incomplete JPEG-LS data") *)
    end
  end.

Definition jlsl_decode (fuel : nat) (bs : list Z) : M jls_hdr :=
  match read_marker bs with
  | Ok (m, r) => if m =? 216 then jlsl_loop fuel jls_st0 r else err
  | _ => err
  end.

(* ---------- near-lossless decoder ---------- *)

Definition jlsn_parse_sof55 (st : jls_st) (bs : list Z) : M (jls_st * list Z) :=
  sr <- read_segment bs ;;
  let '(data, rest) := sr in
  if zlen data <? 6 then err else
  if negb (js_w st =? 0) || negb (js_h st =? 0) then err else   (* second frame header *)
  let bits := znth data 0 0 in
  let h := be16 data 1 in
  let w := be16 data 3 in
  let c := znth data 5 0 in
  if (w <=? 0) || (h <=? 0) then err else
  if negb ((c =? 1) || (c =? 3)) then err else
  if (bits <? 2) || (16 <? bits) then err else
  ret (mkJS w h c bits (i64 (shl1 bits - 1)) 64 (js_t1 st) (js_t2 st) (js_t3 st) (js_near st) (js_ilv st), rest).

Definition jlsn_parse_lse (st : jls_st) (bs : list Z) : M (jls_st * list Z) :=
  sr <- read_segment bs ;;
  let '(data, rest) := sr in
  if zlen data <? 1 then err else
  if (znth data 0 0 =? 1) && (11 <=? zlen data) then
    let mv := be16 data 1 in
    let rs := be16 data 9 in
    ret (mkJS (js_w st) (js_h st) (js_c st) (js_bits st) (if 0 <? mv then mv else js_maxval st)
              (if rs =? 0 then 64 else rs) (be16 data 3) (be16 data 5) (be16 data 7) (js_near st) (js_ilv st), rest)
  else ret (st, rest).

(* applyCodingParameters *)
Definition jlsn_apply (st : jls_st) : M jls_st :=
  let reset := if 0 <? js_reset st then js_reset st else 64 in
  p <- lift (jls_coding_params (js_maxval st) (js_near st) reset) ;;
  p2 <- lift (jls_coding_params (js_maxval st) (js_near st) (jp_reset p)) ;;
  _ <- jls_ctx_alloc ;;
  ret (mkJS (js_w st) (js_h st) (js_c st) (js_bits st) (js_maxval st) (jp_reset p2)
            (if 0 <? js_t1 st then js_t1 st else jp_t1 p) (if 0 <? js_t2 st then js_t2 st else jp_t2 p)
            (if 0 <? js_t3 st then js_t3 st else jp_t3 p) (js_near st) (js_ilv st)).

Definition jlsn_parse_sos (st : jls_st) (bs : list Z) : M (jls_st * list Z) :=
  sr <- read_segment bs ;;
  let '(data, rest) := sr in
  if zlen data <? 4 then err else
  if negb (znth data 0 0 =? js_c st) then err else
  near <- idx data (zlen data - 3) ;;
  ilv <- idx data (zlen data - 2) ;;
  if (js_c st =? 1) && negb (ilv =? 0) then err else
  if (1 <? js_c st) && negb (ilv =? 2) then err else
  st2 <- jlsn_apply (mkJS (js_w st) (js_h st) (js_c st) (js_bits st) (js_maxval st) (js_reset st) (js_t1 st) (js_t2 st) (js_t3 st) near ilv) ;;
  ret (st2, rest).

Fixpoint jlsn_loop (fuel : nat) (st : jls_st) (bs : list Z) : M jls_hdr :=
  match fuel with
  | O => oof
  | S k =>
    match read_marker bs with
    | Ok (m, r) =>
      if m =? 247 then x <- jlsn_parse_sof55 st r ;; jlsn_loop k (fst x) (snd x)
      else if m =? 248 then x <- jlsn_parse_lse st r ;; jlsn_loop k (fst x) (snd x)
      else if m =? 218 then
        x <- jlsn_parse_sos st r ;;
        _ <- jls_scan_allocs (fst x) (snd x) ;;
        ret (js_w (fst x), js_h (fst x), js_c (fst x), js_bits (fst x), js_near (fst x))
      else if m =? 217 then err
      else if is_sof m then err   (* F47: frame header of a process this decoder does not implement *)
      else if has_length m then x <- read_segment r ;; jlsn_loop k st (snd x)
      else jlsn_loop k st r
    | _ => err
    end
  end.

Definition jlsn_decode (fuel : nat) (bs : list Z) : M jls_hdr :=
  match read_marker bs with
  | Ok (m, r) => if m =? 216 then jlsn_loop fuel jls_st0 r else err
  | _ => err
  end.
