(* Parsers: theorems about the JPEG 2000 main-header model (PrsJ2k.v). *)
From V Require Import Common.Base Parsers.PrsOutcome Parsers.PrsJ2k Parsers.PrsProofsBase.

Definition hexb (l : list Z) : Prop := bytes l.

(* ---------- witnesses: the code as it stands panics ---------- *)
(* SOC, SIZ (1x1, one component), QCD with Lqcd = 2 : make([]byte, -1) *)
Definition k_siz_1x1 : list Z :=
  [255; 81; 0; 41; 0; 0;  0;0;0;1; 0;0;0;1; 0;0;0;0; 0;0;0;0; 0;0;0;1; 0;0;0;1; 0;0;0;0; 0;0;0;0; 0;1; 7;1;1].
Definition k_qcd_witness : list Z := [255; 79] ++ k_siz_1x1 ++ [255; 92; 0; 2; 0].
Definition k_com_witness : list Z := [255; 79] ++ k_siz_1x1 ++ [255; 100; 0; 2; 0; 0].

Theorem k_parse_qcd_panics_refuted : exists d, bytes d /\ fst (k_main_header false (fuel_of d) d) = Panic.
Proof.
  exists k_qcd_witness. split; [|vm_compute; reflexivity].
  unfold bytes, k_qcd_witness, k_siz_1x1. cbn [app]. repeat constructor; lia.
Qed.
Theorem k_parse_com_panics_refuted : exists d, bytes d /\ fst (k_main_header false (fuel_of d) d) = Panic.
Proof.
  exists k_com_witness. split; [|vm_compute; reflexivity].
  unfold bytes, k_com_witness, k_siz_1x1. cbn [app]. repeat constructor; lia.
Qed.

(* NewTileAssembler: SIZ with Xsiz = Ysiz = 2^32-1 asks for (2^32-1)^2 int32 -> makeslice panic;
   the request is not bounded by anything the 64 KiB input could justify *)
Definition siz_max : ksiz := mkSiz 4294967295 4294967295 0 0 4294967295 4294967295 0 0 1.
Theorem k_assembler_panics_refuted : fst (k_assembler siz_max) = Panic.
Proof. vm_compute. reflexivity. Qed.
(* and with extents 2^20 x 2^20 it does not panic but requests 4 TiB *)
Definition siz_big : ksiz := mkSiz 1048576 1048576 0 0 1048576 1048576 0 0 1.
Theorem k_assembler_alloc_big : fst (k_assembler siz_big) = Ok tt /\ In (4 * (1048576 * 1048576)) (snd (k_assembler siz_big)).
Proof. vm_compute. split; [reflexivity|tauto]. Qed.

(* the request of the assembler is 4 bytes per declared sample: 4 * W*H per component, for
   every SIZ whose offsets do not exceed the extents *)
Lemma k_comp_allocs_bound : forall k n B, n * 4 <= B -> Forall (fun a => a <= B) (snd (k_comp_allocs k n)).
Proof.
  induction k as [|k IH]; intros n B H; cbn [k_comp_allocs]; [constructor|].
  apply bind_allocs; [apply alloc_allocs; exact H|]. intros [] l _. apply IH; exact H.
Qed.
Theorem k_assembler_alloc : forall s,
  0 <= s_xo s <= s_x s -> s_x s < 2 ^ 32 -> 0 <= s_yo s <= s_y s -> s_y s < 2 ^ 32 -> 0 <= s_c s <= 16384 ->
  Forall (fun a => a <= 4 * ((s_x s - s_xo s) * (s_y s - s_yo s)) + 24 * 16384) (snd (k_assembler s)).
Proof.
  intros s Hx Hx2 Hy Hy2 Hc. unfold k_assembler.
  assert (H0 : 0 <= (s_x s - s_xo s) * (s_y s - s_yo s)) by (apply Z.mul_nonneg_nonneg; lia).
  assert (H1 : (s_x s - s_xo s) * (s_y s - s_yo s) <= 2 ^ 32 * 2 ^ 32) by (apply Z.mul_le_mono_nonneg; lia).
  assert (Hi : i64 ((s_x s - s_xo s) * (s_y s - s_yo s)) <= (s_x s - s_xo s) * (s_y s - s_yo s)).
  { unfold i64, wrapS. set (v := (s_x s - s_xo s) * (s_y s - s_yo s)) in *.
    assert (v mod 2 ^ 64 <= v) by (apply Z.mod_le; [lia|apply Z.pow_pos_nonneg; lia]).
    destruct (v mod 2 ^ 64 <? 2 ^ (64 - 1)); [lia|]. assert (0 < 2 ^ 64) by (apply Z.pow_pos_nonneg; lia). lia. }
  apply bind_allocs.
  - apply alloc_allocs. lia.
  - intros [] l _. apply k_comp_allocs_bound. lia.
Qed.

(* ================= no panic / fuel / small requests for the main header ================= *)
Definition KB : Z := 262144.

Lemma k_rd8_good : forall g d o, bytes d -> 0 <= o ->
  good g KB (fun x => snd x = o + 1 /\ 0 <= fst x < 256) (k_rd8 d o).
Proof.
  intros. unfold k_rd8. destruct (zlen d <? o + 1); [apply good_err|].
  apply good_ret. cbn [fst snd]. split; [reflexivity|apply bytes_znth; auto].
Qed.
Lemma k_rd16_good : forall g d o, bytes d -> 0 <= o ->
  good g KB (fun x => snd x = o + 2 /\ 0 <= fst x <= 65535) (k_rd16 d o).
Proof.
  intros. unfold k_rd16. destruct (zlen d <? o + 2); [apply good_err|].
  apply good_ret. cbn [fst snd]. split; [reflexivity|].
  pose proof (bytes_znth d o H). pose proof (bytes_znth d (o + 1) H). lia.
Qed.
Lemma k_rd32_good : forall g d o, bytes d -> 0 <= o ->
  good g KB (fun x => snd x = o + 4 /\ 0 <= fst x < 4294967296) (k_rd32 d o).
Proof.
  intros. unfold k_rd32. destruct (zlen d <? o + 4); [apply good_err|].
  apply good_ret. cbn [fst snd]. split; [reflexivity|].
  pose proof (bytes_znth d o H). pose proof (bytes_znth d (o + 1) H).
  pose proof (bytes_znth d (o + 2) H). pose proof (bytes_znth d (o + 3) H). lia.
Qed.
Lemma k_read_buf_good : forall g d o n, 0 <= n <= 65535 ->
  good g KB (fun o' => o' = o + n) (k_read_buf d o n).
Proof.
  intros. unfold k_read_buf.
  eapply good_bind; [apply good_alloc with (post := fun _ => True); [lia|rewrite maxAlloc_val; lia|unfold KB; lia|exact I]|].
  intros _ _. destruct (zlen d <? o + n); [apply good_err|apply good_ret; reflexivity].
Qed.
Lemma k_rd_bytes_good : forall g d k o, bytes d -> 0 <= o -> good g KB (fun o' => o <= o') (k_rd_bytes d k o).
Proof.
  intros g d k. induction k as [|k IH]; intros o Hb Ho; cbn [k_rd_bytes]; [apply good_ret; lia|].
  eapply good_bind; [apply k_rd8_good; auto|]. intros [v o1] (E & _). cbn [fst snd] in *. subst o1.
  eapply good_weaken; [apply IH; [auto|lia]|lia|]. cbv beta; intros; lia.
Qed.
Lemma k_rd_comp_good : forall g cs d o, bytes d -> 0 <= o ->
  good g KB (fun x => o <= snd x /\ 0 <= fst x <= 65535) (k_rd_comp cs d o).
Proof.
  intros. unfold k_rd_comp. destruct (comp_bytes cs =? 2).
  - eapply good_weaken; [apply k_rd16_good; auto|lia|]. cbv beta. intros a (E & R). lia.
  - eapply good_weaken; [apply k_rd8_good; auto|lia|]. cbv beta. intros a (E & R). lia.
Qed.
Lemma comp_bytes_range : forall cs, 1 <= comp_bytes cs <= 2.
Proof. intros. unfold comp_bytes. destruct (256 <? cs); lia. Qed.

Ltac rd8 v o E := eapply good_bind; [apply k_rd8_good; [assumption|lia]|]; intros [v o] (E & ?); cbn [fst snd] in *; subst o.
Ltac rd16 v o E := eapply good_bind; [apply k_rd16_good; [assumption|lia]|]; intros [v o] (E & ?); cbn [fst snd] in *; subst o.
Ltac rd32 v o E := eapply good_bind; [apply k_rd32_good; [assumption|lia]|]; intros [v o] (E & ?); cbn [fst snd] in *; subst o.

Lemma k_skip_good : forall g d o, bytes d -> 0 <= o -> good g KB (fun o' => o <= o') (k_skip_segment d o).
Proof.
  intros. unfold k_skip_segment. rd16 l o1 E.
  destruct (zlen d <? o + 2 + (l - 2)); [apply good_err|apply good_ret; lia].
Qed.

Lemma k_siz_comps_good : forall g d k o, bytes d -> 0 <= o -> good g KB (fun o' => o <= o') (k_siz_comps d k o).
Proof.
  intros g d k. induction k as [|k IH]; intros o Hb Ho; cbn [k_siz_comps]; [apply good_ret; lia|].
  rd8 a o1 E1. rd8 b o2 E2. rd8 c o3 E3.
  eapply good_weaken; [apply IH; [auto|lia]|lia|]. cbv beta; intros; lia.
Qed.

Lemma k_parse_siz_good : forall g d o, bytes d -> 0 <= o ->
  good g KB (fun x => o <= snd x /\ 0 <= s_c (fst x) <= 65535) (k_parse_siz d o).
Proof.
  intros. unfold k_parse_siz.
  rd16 len o1 E1. rd16 rs o2 E2. rd32 x o3 E3. rd32 y o4 E4. rd32 xo o5 E5. rd32 yo o6 E6.
  rd32 xt o7 E7. rd32 yt o8 E8. rd32 xto o9 E9. rd32 yto o10 E10. rd16 cs o11 E11.
  eapply good_bind; [apply good_alloc with (post := fun _ => True); [lia|rewrite maxAlloc_val; lia|unfold KB; lia|exact I]|].
  intros _ _.
  eapply good_bind; [apply k_siz_comps_good; [auto|lia]|]. intros o12 Ho12. cbv beta in Ho12.
  destruct (negb (len =? 38 + 3 * cs)); [apply good_err|].
  apply good_ret. cbn [fst snd s_c]. lia.
Qed.

Lemma k_coding_style_good : forall g d sc o, bytes d -> 0 <= o -> good g KB (fun o' => o <= o') (k_coding_style d sc o).
Proof.
  intros. unfold k_coding_style.
  rd8 nl o1 E1. rd8 a o2 E2. rd8 b o3 E3. rd8 c o4 E4. rd8 t o5 E5.
  destruct (Z.odd sc); [|apply good_ret; lia].
  eapply good_bind; [apply good_alloc with (post := fun _ => True); [lia|rewrite maxAlloc_val; lia|unfold KB; lia|exact I]|].
  intros _ _. eapply good_weaken; [apply k_rd_bytes_good; [auto|lia]|lia|]. cbv beta; intros; lia.
Qed.

Lemma k_len_fix_good : forall g len start o, 0 <= len -> start <= o ->
  good g KB (fun o' => start + len - 2 <= o' /\ o <= o') (k_len_fix len start o).
Proof.
  intros. unfold k_len_fix. destruct (Z.ltb_spec (len - 2) (o - start)); [apply good_err|].
  apply good_ret. lia.
Qed.

Lemma k_parse_cod_good : forall g d o, bytes d -> 0 <= o -> good g KB (fun o' => o <= o') (k_parse_cod d o).
Proof.
  intros. unfold k_parse_cod.
  rd16 len o1 E1. rd8 sc o2 E2. rd8 pr o3 E3. rd16 ly o4 E4. rd8 mc o5 E5.
  eapply good_bind; [apply k_coding_style_good; [auto|lia]|]. intros o6 Ho6. cbv beta in Ho6.
  eapply good_weaken; [apply k_len_fix_good; lia|lia|]. cbv beta; intros; lia.
Qed.

Lemma k_parse_coc_good : forall g cs d o, bytes d -> 0 <= o ->
  good g KB (fun x => o <= snd x) (k_parse_coc cs d o).
Proof.
  intros. unfold k_parse_coc.
  rd16 len o1 E1.
  eapply good_bind; [apply k_rd_comp_good; [auto|lia]|]. intros [cp o2] (Ho2 & _). cbn [fst snd] in *.
  rd8 sc o3 E3.
  eapply good_bind; [apply k_coding_style_good; [auto|lia]|]. intros o4 Ho4. cbv beta in Ho4.
  eapply good_bind; [apply k_len_fix_good; lia|]. intros o5 (Ho5 & Ho5'). cbv beta in *.
  apply good_ret. cbn [snd]. lia.
Qed.

Lemma k_parse_qcd_good : forall g d o, bytes d -> 0 <= o -> good g KB (fun o' => o <= o') (k_parse_qcd g d o).
Proof.
  intros. unfold k_parse_qcd. rd16 len o1 E1. rd8 sq o2 E2.
  destruct g; cbn [andb].
  - destruct (Z.ltb_spec len 3); [apply good_err|].
    eapply good_weaken; [apply k_read_buf_good; lia|lia|]. cbv beta; intros; lia.
  - (* code as it stands: make([]byte, len-3) may panic; nothing to show for g = false but fuel and sizes *)
    unfold k_read_buf, alloc.
    destruct ((len - 3 <? 0) || (maxAlloc <? (len - 3) * 1)) eqn:Ea.
    + unfold bind; cbn [fst snd]. unfold good; cbn [fst snd]. split; [discriminate|]. split; [discriminate|].
      split; [repeat constructor; unfold KB; lia|intros; discriminate].
    + unfold bind; cbn [fst snd]. apply orb_false_iff in Ea. destruct Ea as [Ea _]. apply Z.ltb_ge in Ea.
      destruct (zlen d <? o + 2 + 1 + (len - 3)); unfold good, err, ret; cbn [fst snd].
      * split; [discriminate|]. split; [discriminate|]. split; [repeat constructor; unfold KB; lia|intros; discriminate].
      * split; [discriminate|]. split; [discriminate|]. split; [repeat constructor; unfold KB; lia|].
        intros a Ha. inversion Ha; subst. lia.
Qed.
