(* Parsers: theorems about the JPEG 2000 main-header model (PrsJ2k.v). *)
From V Require Import Common.Base Parsers.PrsOutcome Parsers.PrsJ2k Parsers.PrsProofsBase.

Definition hexb (l : list Z) : Prop := bytes l.

(* Historical witnesses (all fixed in /repo, findings F38-F41): QCD with Lqcd = 2 and COM with Lcom = 2
   made make([]byte, negative) panic; SIZ with XTsiz = 0 divided by zero in NewTileDecoder; SIZ with
   Xsiz = Ysiz = 2^32-1 overflowed make in NewTileAssembler; extents 2^20 x 2^20 requested 4 TiB. *)

(* ================= no panic / fuel / small requests for the main header ================= *)
Definition KB : Z := 1048576.

Lemma k_rd8_good : forall d o, bytes d -> 0 <= o ->
  good true KB (fun x => snd x = o + 1 /\ 0 <= fst x < 256) (k_rd8 d o).
Proof.
  intros. unfold k_rd8. destruct (zlen d <? o + 1); [apply good_err|].
  apply good_ret. cbn [fst snd]. split; [reflexivity|apply bytes_znth; auto].
Qed.
Lemma k_rd16_good : forall d o, bytes d -> 0 <= o ->
  good true KB (fun x => snd x = o + 2 /\ 0 <= fst x <= 65535 /\ o + 2 <= zlen d) (k_rd16 d o).
Proof.
  intros. unfold k_rd16. destruct (Z.ltb_spec (zlen d) (o + 2)); [apply good_err|].
  apply good_ret. cbn [fst snd]. split; [reflexivity|].
  pose proof (bytes_znth d o H). pose proof (bytes_znth d (o + 1) H). lia.
Qed.
Lemma k_rd32_good : forall d o, bytes d -> 0 <= o ->
  good true KB (fun x => snd x = o + 4 /\ 0 <= fst x < 4294967296) (k_rd32 d o).
Proof.
  intros. unfold k_rd32. destruct (zlen d <? o + 4); [apply good_err|].
  apply good_ret. cbn [fst snd]. split; [reflexivity|].
  pose proof (bytes_znth d o H). pose proof (bytes_znth d (o + 1) H).
  pose proof (bytes_znth d (o + 2) H). pose proof (bytes_znth d (o + 3) H). lia.
Qed.
Lemma k_read_buf_good : forall d o n, 0 <= n <= 65535 ->
  good true KB (fun o' => o' = o + n) (k_read_buf d o n).
Proof.
  intros. unfold k_read_buf.
  eapply good_bind; [apply good_alloc with (post := fun _ => True); [lia|rewrite maxAlloc_val; lia|unfold KB; lia|exact I]|].
  intros _ _. destruct (zlen d <? o + n); [apply good_err|apply good_ret; reflexivity].
Qed.
Lemma k_rd_bytes_good : forall d k o, bytes d -> 0 <= o -> good true KB (fun o' => o <= o') (k_rd_bytes d k o).
Proof.
  intros d k. induction k as [|k IH]; intros o Hb Ho; cbn [k_rd_bytes]; [apply good_ret; lia|].
  eapply good_bind; [apply k_rd8_good; auto|]. intros [v o1] (E & _). cbn [fst snd] in *. subst o1.
  eapply good_weaken; [apply IH; [auto|lia]|lia|]. cbv beta; intros; lia.
Qed.
Lemma k_rd_comp_good : forall cs d o, bytes d -> 0 <= o ->
  good true KB (fun x => o <= snd x /\ 0 <= fst x <= 65535) (k_rd_comp cs d o).
Proof.
  intros. unfold k_rd_comp. destruct (comp_bytes cs =? 2).
  - eapply good_weaken; [apply k_rd16_good; auto|lia|]. cbv beta. intros a (E & R & _). lia.
  - eapply good_weaken; [apply k_rd8_good; auto|lia|]. cbv beta. intros a (E & R). lia.
Qed.
Lemma comp_bytes_range : forall cs, 1 <= comp_bytes cs <= 2.
Proof. intros. unfold comp_bytes. destruct (256 <? cs); lia. Qed.

Ltac rd8 v o E := eapply good_bind; [apply k_rd8_good; [assumption|lia]|]; intros [v o] (E & ?); cbn [fst snd] in *; subst o.
Ltac rd16 v o E := eapply good_bind; [apply k_rd16_good; [assumption|lia]|]; intros [v o] (E & ? & ?); cbn [fst snd] in *; subst o.
Ltac rd32 v o E := eapply good_bind; [apply k_rd32_good; [assumption|lia]|]; intros [v o] (E & ?); cbn [fst snd] in *; subst o.

Lemma k_skip_good : forall d o, bytes d -> 0 <= o -> good true KB (fun o' => o <= o') (k_skip_segment d o).
Proof.
  intros. unfold k_skip_segment. rd16 l o1 E.
  destruct (zlen d <? o + 2 + (l - 2)); [apply good_err|apply good_ret; lia].
Qed.

Lemma k_siz_comps_good : forall d k o, bytes d -> 0 <= o -> good true KB (fun o' => o <= o') (k_siz_comps d k o).
Proof.
  intros d k. induction k as [|k IH]; intros o Hb Ho; cbn [k_siz_comps]; [apply good_ret; lia|].
  rd8 a o1 E1. rd8 b o2 E2. rd8 c o3 E3.
  destruct ((b =? 0) || (c =? 0)); [apply good_err|].
  eapply good_weaken; [apply IH; [auto|lia]|lia|]. cbv beta; intros; lia.
Qed.

(* the SIZ geometry accepted by parseSIZ (F39/F40) *)
Definition siz_ok (s : ksiz) : Prop :=
  0 <= s_xo s < s_x s /\ s_x s < 4294967296 /\ 0 <= s_yo s < s_y s /\ s_y s < 4294967296 /\
  1 <= s_xt s /\ 1 <= s_yt s /\ 1 <= s_c s <= 16384 /\ (s_x s - s_xo s) * (s_y s - s_yo s) <= 2 ^ 31.

Lemma k_parse_siz_good : forall d o, bytes d -> 0 <= o ->
  good true KB (fun x => o <= snd x /\ siz_ok (fst x)) (k_parse_siz d o).
Proof.
  intros. unfold k_parse_siz.
  rd16 len o1 E1. rd16 rs o2 E2. rd32 x o3 E3. rd32 y o4 E4. rd32 xo o5 E5. rd32 yo o6 E6.
  rd32 xt o7 E7. rd32 yt o8 E8. rd32 xto o9 E9. rd32 yto o10 E10. rd16 cs o11 E11.
  destruct ((x =? 0) || (y =? 0) || (x <=? xo) || (y <=? yo)) eqn:V1; [apply good_err|].
  destruct ((xt =? 0) || (yt =? 0)) eqn:V2; [apply good_err|].
  destruct ((xo <? xto) || (yo <? yto) || (xto + xt <=? xo) || (yto + yt <=? yo)); [apply good_err|].
  destruct ((cs =? 0) || (16384 <? cs)) eqn:V4; [apply good_err|].
  destruct (Z.ltb_spec (2 ^ 31) ((x - xo) * (y - yo))); [apply good_err|].
  apply orb_false_iff in V1. destruct V1 as [V1 V1d]. apply orb_false_iff in V1. destruct V1 as [V1 V1c].
  apply orb_false_iff in V1. destruct V1 as [V1a V1b].
  apply Z.eqb_neq in V1a. apply Z.eqb_neq in V1b. apply Z.leb_gt in V1c. apply Z.leb_gt in V1d.
  apply orb_false_iff in V2. destruct V2 as [V2a V2b]. apply Z.eqb_neq in V2a. apply Z.eqb_neq in V2b.
  apply orb_false_iff in V4. destruct V4 as [V4a V4b]. apply Z.eqb_neq in V4a. apply Z.ltb_ge in V4b.
  eapply good_bind; [apply good_alloc with (post := fun _ => True); [lia|rewrite maxAlloc_val; lia|unfold KB; lia|exact I]|].
  intros _ _.
  eapply good_bind; [apply k_siz_comps_good; [auto|lia]|]. intros o12 Ho12. cbv beta in Ho12.
  destruct (negb (len =? 38 + 3 * cs)); [apply good_err|].
  apply good_ret. unfold siz_ok; cbn [fst snd s_x s_y s_xo s_yo s_xt s_yt s_c]. repeat split; lia.
Qed.

Lemma k_coding_style_good : forall d sc o, bytes d -> 0 <= o -> good true KB (fun o' => o <= o') (k_coding_style d sc o).
Proof.
  intros. unfold k_coding_style.
  rd8 nl o1 E1. rd8 a o2 E2. rd8 b o3 E3. rd8 c o4 E4. rd8 t o5 E5.
  destruct ((8 <? a) || (8 <? b) || (8 <? a + b)); [apply good_err|].
  destruct (32 <? nl); [apply good_err|].
  destruct (Z.odd sc); [|apply good_ret; lia].
  eapply good_bind; [apply good_alloc with (post := fun _ => True); [lia|rewrite maxAlloc_val; lia|unfold KB; lia|exact I]|].
  intros _ _. eapply good_weaken; [apply k_rd_bytes_good; [auto|lia]|lia|]. cbv beta; intros; lia.
Qed.

Lemma k_len_fix_good : forall len start o, 0 <= len -> start <= o ->
  good true KB (fun o' => start + len - 2 <= o' /\ o <= o') (k_len_fix len start o).
Proof.
  intros. unfold k_len_fix. destruct (Z.ltb_spec (len - 2) (o - start)); [apply good_err|].
  apply good_ret. lia.
Qed.

Lemma k_parse_cod_good : forall d o, bytes d -> 0 <= o -> good true KB (fun o' => o <= o') (k_parse_cod d o).
Proof.
  intros. unfold k_parse_cod.
  rd16 len o1 E1. rd8 sc o2 E2. rd8 pr o3 E3. rd16 ly o4 E4. rd8 mc o5 E5.
  eapply good_bind; [apply k_coding_style_good; [auto|lia]|]. intros o6 Ho6. cbv beta in Ho6.
  eapply good_weaken; [apply k_len_fix_good; lia|lia|]. cbv beta; intros; lia.
Qed.

Lemma k_parse_coc_good : forall cs d o, bytes d -> 0 <= o ->
  good true KB (fun x => o <= snd x) (k_parse_coc cs d o).
Proof.
  intros. unfold k_parse_coc.
  rd16 len o1 E1.
  eapply good_bind; [apply k_rd_comp_good; [auto|lia]|]. intros [cp o2] (Ho2 & _). cbn [fst snd] in *.
  rd8 sc o3 E3.
  eapply good_bind; [apply k_coding_style_good; [auto|lia]|]. intros o4 Ho4. cbv beta in Ho4.
  eapply good_bind; [apply k_len_fix_good; lia|]. intros o5 (Ho5 & Ho5'). cbv beta in *.
  apply good_ret. cbn [snd]. lia.
Qed.

Lemma k_parse_qcd_good : forall d o, bytes d -> 0 <= o -> good true KB (fun o' => o <= o') (k_parse_qcd d o).
Proof.
  intros. unfold k_parse_qcd. rd16 len o1 E1. rd8 sq o2 E2.
  destruct (Z.ltb_spec len 3); [apply good_err|].
  eapply good_weaken; [apply k_read_buf_good; lia|lia|]. cbv beta; intros; lia.
Qed.

Lemma k_parse_qcc_good : forall cs d o, bytes d -> 0 <= o ->
  good true KB (fun x => o <= snd x) (k_parse_qcc cs d o).
Proof.
  intros. unfold k_parse_qcc. pose proof (comp_bytes_range cs).
  rd16 len o1 E1.
  eapply good_bind; [apply k_rd_comp_good; [auto|lia]|]. intros [cp o2] (Ho2 & _). cbn [fst snd] in *.
  rd8 sq o3 E3.
  destruct (Z.ltb_spec (len - 3 - comp_bytes cs) 0); [apply good_err|].
  eapply good_bind; [apply k_read_buf_good; lia|]. intros o4 Ho4. cbv beta in Ho4.
  eapply good_bind; [apply k_len_fix_good; lia|]. intros o5 (Ho5 & Ho5'). cbv beta in *.
  apply good_ret. cbn [snd]. lia.
Qed.

Lemma k_poc_entries_good : forall cs d k o, bytes d -> 0 <= o -> good true KB (fun o' => o <= o') (k_poc_entries cs d k o).
Proof.
  intros cs d k. induction k as [|k IH]; intros o Hb Ho; cbn [k_poc_entries]; [apply good_ret; lia|].
  rd8 a o1 E1.
  eapply good_bind; [apply k_rd_comp_good; [auto|lia]|]. intros [b o2] (Ho2 & _). cbn [fst snd] in *.
  rd16 c o3 E3. rd8 e o4 E4.
  eapply good_bind; [apply k_rd_comp_good; [auto|lia]|]. intros [f o5] (Ho5 & _). cbn [fst snd] in *.
  rd8 h o6 E6.
  eapply good_weaken; [apply IH; [auto|lia]|lia|]. cbv beta; intros; lia.
Qed.

Lemma k_parse_poc_good : forall cs d o, bytes d -> 0 <= o -> good true KB (fun o' => o <= o') (k_parse_poc cs d o).
Proof.
  intros. unfold k_parse_poc. pose proof (comp_bytes_range cs).
  rd16 len o1 E1.
  destruct (Z.ltb_spec (len - 2) (5 + 2 * comp_bytes cs)); cbn [orb]; [apply good_err|].
  destruct (negb (Z.rem (len - 2) (5 + 2 * comp_bytes cs) =? 0)); [apply good_err|].
  assert (Hq : 0 <= Z.quot (len - 2) (5 + 2 * comp_bytes cs) <= 65535).
  { rewrite Z.quot_div_nonneg by lia. split; [apply Z.div_pos; lia|].
    apply Z.div_le_upper_bound; lia. }
  eapply good_bind; [apply good_alloc with (post := fun _ => True); [lia|rewrite maxAlloc_val; lia|unfold KB; lia|exact I]|].
  intros _ _. eapply good_weaken; [apply k_poc_entries_good; [auto|lia]|lia|]. cbv beta; intros; lia.
Qed.

Lemma k_parse_rgn_good : forall cs d o, bytes d -> 0 <= o -> good true KB (fun o' => o <= o') (k_parse_rgn cs d o).
Proof.
  intros. unfold k_parse_rgn. pose proof (comp_bytes_range cs).
  rd16 len o1 E1.
  destruct (Z.ltb_spec len (4 + comp_bytes cs)); [apply good_err|].
  eapply good_bind; [apply k_rd_comp_good; [auto|lia]|]. intros [a o2] (Ho2 & _). cbn [fst snd] in *.
  rd8 b o3 E3. rd8 c o4 E4.
  destruct (Z.ltb_spec 0 (len - (4 + comp_bytes cs))); [|apply good_ret; lia].
  eapply good_weaken; [apply k_read_buf_good; lia|lia|]. cbv beta; intros; lia.
Qed.

Lemma k_parse_com_good : forall d o, bytes d -> 0 <= o -> good true KB (fun o' => o <= o') (k_parse_com d o).
Proof.
  intros. unfold k_parse_com. rd16 len o1 E1. rd16 rc o2 E2.
  destruct (Z.ltb_spec len 4); [apply good_err|].
  eapply good_weaken; [apply k_read_buf_good; lia|lia|]. cbv beta; intros; lia.
Qed.

Lemma k_parse_mct_good : forall d o, bytes d -> 0 <= o -> good true KB (fun o' => o <= o') (k_parse_mct d o).
Proof.
  intros. unfold k_parse_mct. rd16 len o1 E1.
  destruct (Z.ltb_spec (len - 2) 6); [apply good_err|].
  rd16 z o2 E2. destruct (negb (z =? 0)); [apply good_err|].
  rd16 im o3 E3. rd16 ym o4 E4. destruct (negb (ym =? 0)); [apply good_err|].
  eapply good_weaken; [apply k_read_buf_good; lia|lia|]. cbv beta; intros; lia.
Qed.

Lemma k_rd_ids_good : forall two d k o, bytes d -> 0 <= o -> good true KB (fun o' => o <= o') (k_rd_ids two d k o).
Proof.
  intros two d k. induction k as [|k IH]; intros o Hb Ho; cbn [k_rd_ids]; [apply good_ret; lia|].
  eapply good_bind with (pa := fun x => o <= snd x).
  { destruct two.
    - eapply good_weaken; [apply k_rd16_good; auto|lia|]. cbv beta. intros a (E & _ & _). lia.
    - eapply good_weaken; [apply k_rd8_good; auto|lia|]. cbv beta. intros a (E & _). lia. }
  intros [v o1] Ho1. cbn [fst snd] in *.
  eapply good_weaken; [apply IH; [auto|lia]|lia|]. cbv beta; intros; lia.
Qed.

Lemma mod_32768 : forall x, 0 <= x <= 65535 -> 0 <= x mod 32768 <= 32767.
Proof. intros. pose proof (Z.mod_pos_bound x 32768 ltac:(lia)). lia. Qed.

Lemma k_parse_mcc_good : forall d o, bytes d -> 0 <= o -> good true KB (fun o' => o <= o') (k_parse_mcc d o).
Proof.
  intros. unfold k_parse_mcc. rd16 len o1 E1.
  destruct (Z.ltb_spec (len - 2) 7); [apply good_err|].
  rd16 z o2 E2. destruct (negb (z =? 0)); [apply good_err|].
  rd8 ix o3 E3. rd16 ym o4 E4. destruct (negb (ym =? 0)); [apply good_err|].
  rd16 qm o5 E5. destruct (qm =? 0); [apply good_err|].
  rd8 ct o6 E6. rd16 nm o7 E7.
  pose proof (mod_32768 nm ltac:(lia)) as Hn1.
  eapply good_bind; [apply good_alloc with (post := fun _ => True); [lia|rewrite maxAlloc_val; lia|unfold KB; lia|exact I]|].
  intros _ _.
  eapply good_bind; [apply k_rd_ids_good; [auto|lia]|]. intros o8 Ho8. cbv beta in Ho8.
  rd16 mm o9 E9.
  pose proof (mod_32768 mm ltac:(lia)) as Hn2.
  eapply good_bind; [apply good_alloc with (post := fun _ => True); [lia|rewrite maxAlloc_val; lia|unfold KB; lia|exact I]|].
  intros _ _.
  eapply good_bind; [apply k_rd_ids_good; [auto|lia]|]. intros o10 Ho10. cbv beta in Ho10.
  rd8 t0 o11 E11. rd8 t1 o12 E12. rd8 t2 o13 E13.
  match goal with |- context [if 0 <? ?r then _ else _] => destruct (Z.ltb_spec 0 r) end; [|apply good_ret; lia].
  eapply good_weaken; [apply k_read_buf_good| |].
  - assert (1 <= (if 32768 <=? nm then 2 else 1)) by (destruct (32768 <=? nm); lia).
    assert (1 <= (if 32768 <=? mm then 2 else 1)) by (destruct (32768 <=? mm); lia).
    assert (0 <= (if 32768 <=? nm then 2 else 1) * (nm mod 32768)) by (apply Z.mul_nonneg_nonneg; lia).
    assert (0 <= (if 32768 <=? mm then 2 else 1) * (mm mod 32768)) by (apply Z.mul_nonneg_nonneg; lia).
    lia.
  - lia.
  - cbv beta; intros; lia.
Qed.

Lemma k_parse_mco_good : forall d o, bytes d -> 0 <= o -> good true KB (fun o' => o <= o') (k_parse_mco d o).
Proof.
  intros. unfold k_parse_mco. rd16 len o1 E1.
  destruct (Z.ltb_spec (len - 2) 1); [apply good_err|].
  rd8 ns o2 E2.
  eapply good_bind; [apply good_alloc with (post := fun _ => True); [lia|rewrite maxAlloc_val; lia|unfold KB; lia|exact I]|].
  intros _ _.
  eapply good_bind; [apply k_rd_bytes_good; [auto|lia]|]. intros o3 Ho3. cbv beta in Ho3.
  destruct (Z.ltb_spec 0 (len - 2 - (1 + ns))); [|apply good_ret; lia].
  eapply good_weaken; [apply k_read_buf_good; lia|lia|]. cbv beta; intros; lia.
Qed.

Definition KInv (st : kst) : Prop := forall s, k_siz st = Some s -> siz_ok s.
Lemma KInv0 : KInv kst0. Proof. intros s H. discriminate. Qed.

Lemma k_main_segment_good : forall st m d o, bytes d -> 0 <= o -> KInv st ->
  good true KB (fun x => o <= snd x /\ KInv (fst x)) (k_main_segment st m d o).
Proof.
  intros st m d o Hb Ho HK. unfold k_main_segment.
  set (seen := match k_siz st with Some _ => true | None => false end).
  destruct (m =? 81).
  { destruct seen; [apply good_err|].
    eapply good_bind; [apply k_parse_siz_good; auto|]. intros [s o2] (Ho2 & Hs). apply good_ret. split; [exact Ho2|]. intros s' E. cbn [fst k_siz] in E. inversion E; subst. exact Hs. }
  destruct (m =? 82).
  { destruct (negb seen); [apply good_err|]. destruct (k_cod st); [apply good_err|].
    eapply good_bind; [apply k_parse_cod_good; auto|]. intros o2 Ho2. apply good_ret; (split; [exact Ho2|exact HK]). }
  destruct (m =? 83).
  { destruct (negb seen); [apply good_err|]. destruct (negb (k_cod st)); [apply good_err|].
    eapply good_bind; [apply k_parse_coc_good; auto|]. intros [[c body] o2] Ho2. cbn [snd] in Ho2.
    destruct (assoc (k_coc st) c); [destruct (negb (zlist_eqb l body)); [apply good_err|]|]; apply good_ret; (split; [exact Ho2|exact HK]). }
  destruct (m =? 92).
  { destruct (negb seen); [apply good_err|]. destruct (k_qcd st); [apply good_err|].
    eapply good_bind; [apply k_parse_qcd_good; auto|]. intros o2 Ho2. apply good_ret; (split; [exact Ho2|exact HK]). }
  destruct (m =? 93).
  { destruct (negb seen); [apply good_err|]. destruct (negb (k_qcd st)); [apply good_err|].
    eapply good_bind; [apply k_parse_qcc_good; auto|]. intros [[c body] o2] Ho2. cbn [snd] in Ho2.
    destruct (assoc (k_qcc st) c); [destruct (negb (zlist_eqb l body)); [apply good_err|]|]; apply good_ret; (split; [exact Ho2|exact HK]). }
  destruct (m =? 95).
  { destruct (negb seen); [apply good_err|]. destruct (negb (k_cod st)); [apply good_err|].
    eapply good_bind; [apply k_parse_poc_good; auto|]. intros o2 Ho2. apply good_ret; (split; [exact Ho2|exact HK]). }
  destruct (m =? 94).
  { destruct (negb seen); [apply good_err|].
    eapply good_bind; [apply k_parse_rgn_good; auto|]. intros o2 Ho2. apply good_ret; (split; [exact Ho2|exact HK]). }
  destruct (m =? 100).
  { destruct (negb seen); [apply good_err|].
    eapply good_bind; [apply k_parse_com_good; auto|]. intros o2 Ho2. apply good_ret; (split; [exact Ho2|exact HK]). }
  destruct (m =? 116).
  { destruct (negb seen); [apply good_err|].
    eapply good_bind; [apply k_parse_mct_good; auto|]. intros o2 Ho2. apply good_ret; (split; [exact Ho2|exact HK]). }
  destruct (m =? 117).
  { destruct (negb seen); [apply good_err|].
    eapply good_bind; [apply k_parse_mcc_good; auto|]. intros o2 Ho2. apply good_ret; (split; [exact Ho2|exact HK]). }
  destruct (m =? 119).
  { destruct (negb seen); [apply good_err|].
    eapply good_bind; [apply k_parse_mco_good; auto|]. intros o2 Ho2. apply good_ret; (split; [exact Ho2|exact HK]). }
  destruct (negb seen); [apply good_err|].
  eapply good_bind; [apply k_skip_good; auto|]. intros o2 Ho2. apply good_ret; (split; [exact Ho2|exact HK]).
Qed.

(* the loop: every iteration advances the offset by at least 2 (skipSegment with length 0 moves
   back by 2 after 4 bytes were consumed) *)
Lemma k_main_loop_good : forall fuel st d o, bytes d -> 0 <= o -> Z.max 0 (zlen d - o) < Z.of_nat fuel -> KInv st ->
  good true KB (fun x => KInv (fst x)) (k_main_loop fuel st d o).
Proof.
  intros fuel. induction fuel as [|k IH]; intros st d o Hb Ho Hf HK.
  - exfalso. simpl in Hf. lia.
  - cbn [k_main_loop].
    eapply good_bind; [apply k_rd16_good; auto|]. intros [marker o1] (E & Hm & Hlen). cbn [fst snd] in *. subst o1.
    destruct ((marker =? 65424) || (marker =? 65497)); [apply good_ret; exact HK|].
    eapply good_bind; [apply k_main_segment_good; [auto|lia|exact HK]|]. intros [st' o2] (Ho2 & HK2). cbn [fst snd] in *.
    apply IH; [auto|lia|lia|exact HK2].
Qed.

Lemma k_main_header_good : forall d, bytes d -> good true KB (fun x => siz_ok (fst x)) (k_main_header (fuel_of d) d).
Proof.
  intros d Hb. unfold k_main_header.
  eapply good_bind; [apply k_rd16_good; [auto|lia]|]. intros [soc o1] (E & _ & _). cbn [fst snd] in *. subst o1.
  destruct (negb (soc =? 65359)); [apply good_err|].
  eapply good_bind.
  { apply k_main_loop_good; [auto|lia| |apply KInv0]. unfold fuel_of, zlen. lia. }
  intros [st o2] HK. cbn [fst snd] in *.
  destruct (k_siz st) as [s|] eqn:Es; [|apply good_err].
  destruct (negb (k_cod st)); [apply good_err|]. destruct (negb (k_qcd st)); [apply good_err|].
  apply good_ret. cbn [fst]. apply HK. exact Es.
Qed.

(* with the proposed checks in parseQCD / parseCOM the main-header parser never panics *)
Theorem k_main_header_no_panic : forall d, bytes d -> fst (k_main_header (fuel_of d) d) <> Panic.
Proof. intros d Hb. apply (good_np _ _ _ (k_main_header_good d Hb)). Qed.

(* termination: length + 2 iterations suffice, also through skipSegment with length 0 or 1 *)
Theorem k_main_header_fuel : forall d, bytes d -> fst (k_main_header (fuel_of d) d) <> OutOfFuel.
Proof. intros d Hb. apply (good_nf _ _ _ _ (k_main_header_good d Hb)). Qed.

(* every allocation request of the main-header parser is below 1 MiB, whatever the header says *)
Theorem k_main_header_alloc : forall d, bytes d ->
  Forall (fun a => a <= 1048576) (snd (k_main_header (fuel_of d) d)).
Proof. intros d Hb. apply (good_allocs _ _ _ _ (k_main_header_good d Hb)). Qed.

(* ================= tile-parts ================= *)
Lemma k_scan_marker_range : forall fuel d o, o <= k_scan_marker fuel d o /\ (o <= zlen d -> k_scan_marker fuel d o <= zlen d).
Proof.
  induction fuel as [|k IH]; intros d o; cbn [k_scan_marker]; [lia|].
  destruct (Z.leb_spec (zlen d) o); [lia|].
  destruct ((znth d o 0 =? 255) && (o + 1 <? zlen d) && negb (znth d (o + 1) 0 =? 0) && (79 <=? znth d (o + 1) 0)); [lia|].
  destruct (IH d (o + 1)) as [A B]. split; [lia|]. intros _. apply B. lia.
Qed.

Lemma k_read_tile_data_good : forall d o, 0 <= o <= zlen d -> good true KB (fun e => o <= e <= zlen d) (k_read_tile_data d o).
Proof.
  intros d o Ho. unfold k_read_tile_data.
  destruct (k_scan_marker_range (S (length d)) d o) as [A B]. specialize (B ltac:(lia)).
  destruct (Z.ltb_spec o 0); [lia|]. destruct (Z.ltb_spec (k_scan_marker (S (length d)) d o) o); [lia|].
  destruct (Z.ltb_spec (zlen d) (k_scan_marker (S (length d)) d o)); [lia|]. cbn [orb].
  apply good_ret. lia.
Qed.

Lemma k_read_tile_data_len_good : forall d ts psot o, 0 <= o <= zlen d -> 0 <= psot ->
  good true KB (fun e => o <= e) (k_read_tile_data_len d ts psot o).
Proof.
  intros d ts psot o Ho Hp. unfold k_read_tile_data_len.
  assert (W : good true KB (fun e => o <= e) (k_read_tile_data d o)).
  { eapply good_weaken; [apply k_read_tile_data_good; lia|lia|]. cbv beta; intros; lia. }
  destruct (psot =? 0); [exact W|].
  destruct (Z.ltb_spec psot (o - ts)); [exact W|].
  destruct (zlen d <? o + (psot - (o - ts))); [exact W|].
  destruct (Z.ltb_spec o 0); [lia|]. destruct (Z.ltb_spec (o + (psot - (o - ts))) o); [lia|]. cbn [orb].
  apply good_ret. lia.
Qed.

Lemma k_parse_sot_good : forall d o, bytes d -> 0 <= o ->
  good true KB (fun x => let '(i, p, o') := x in o <= o' /\ o' <= zlen d /\ 0 <= p) (k_parse_sot d o).
Proof.
  intros. unfold k_parse_sot. rd16 len o1 E1.
  destruct (negb (len =? 10)); [apply good_err|].
  rd16 isot o2 E2. rd32 psot o3 E3.
  eapply good_bind; [apply k_rd8_good; [assumption|lia]|]. intros [tp o4] (E4 & _). cbn [fst snd] in *. subst o4.
  unfold k_rd8. destruct (Z.ltb_spec (zlen d) (o + 2 + 2 + 4 + 1 + 1)); [apply good_err|].
  unfold bind, ret; cbn [fst snd app]. unfold good; cbn [fst snd].
  split; [discriminate|]. split; [discriminate|]. split; [constructor|].
  intros a Ha. inversion Ha; subst. lia.
Qed.

Lemma k_tile_segment_good : forall cs ts m d o, bytes d -> 0 <= o ->
  good true KB (fun x => o <= snd x) (k_tile_segment cs ts m d o).
Proof.
  intros cs ts m d o Hb Ho. unfold k_tile_segment.
  destruct (m =? 82).
  { eapply good_bind; [apply k_parse_cod_good; auto|]. intros o2 Ho2. apply good_ret. exact Ho2. }
  destruct (m =? 83).
  { eapply good_bind; [apply k_parse_coc_good; auto|]. intros [[c body] o2] Ho2. cbn [snd] in Ho2.
    destruct (assoc (t_coc ts) c); [destruct (negb (zlist_eqb l body)); [apply good_err|]|]; apply good_ret; exact Ho2. }
  destruct (m =? 92).
  { eapply good_bind; [apply k_parse_qcd_good; auto|]. intros o2 Ho2. apply good_ret. exact Ho2. }
  destruct (m =? 93).
  { eapply good_bind; [apply k_parse_qcc_good; auto|]. intros [[c body] o2] Ho2. cbn [snd] in Ho2.
    destruct (assoc (t_qcc ts) c); [destruct (negb (zlist_eqb l body)); [apply good_err|]|]; apply good_ret; exact Ho2. }
  destruct (m =? 95).
  { eapply good_bind; [apply k_parse_poc_good; auto|]. intros o2 Ho2. apply good_ret. exact Ho2. }
  destruct (m =? 94).
  { eapply good_bind; [apply k_parse_rgn_good; auto|]. intros o2 Ho2. apply good_ret. exact Ho2. }
  destruct (m =? 116).
  { eapply good_bind; [apply k_parse_mct_good; auto|]. intros o2 Ho2. apply good_ret. exact Ho2. }
  destruct (m =? 117).
  { eapply good_bind; [apply k_parse_mcc_good; auto|]. intros o2 Ho2. apply good_ret. exact Ho2. }
  destruct (m =? 119).
  { eapply good_bind; [apply k_parse_mco_good; auto|]. intros o2 Ho2. apply good_ret. exact Ho2. }
  eapply good_bind; [apply k_skip_good; auto|]. intros o2 Ho2. apply good_ret. exact Ho2.
Qed.

(* the tile-part header loop ends right after a SOD marker that was read inside the data, so
   readTileData's slice expression p.data[start:offset] has start <= len(data) *)
Lemma k_tile_loop_good : forall fuel cs ts d o, bytes d -> 0 <= o -> Z.max 0 (zlen d - o) < Z.of_nat fuel ->
  good true KB (fun o' => o <= o' <= zlen d) (k_tile_loop fuel cs ts d o).
Proof.
  intros fuel. induction fuel as [|k IH]; intros cs ts d o Hb Ho Hf.
  - exfalso. simpl in Hf. lia.
  - cbn [k_tile_loop].
    eapply good_bind; [apply k_rd16_good; auto|]. intros [marker o1] (E & Hm & Hlen). cbn [fst snd] in *. subst o1.
    destruct (marker =? 65427); [apply good_ret; lia|].
    eapply good_bind; [apply k_tile_segment_good; [auto|lia]|]. intros [ts' o2] Ho2. cbn [fst snd] in *.
    eapply good_weaken; [apply IH; [auto|lia|lia]|apply Z.le_refl|]. cbv beta; intros; lia.
Qed.

Lemma k_parse_tile_good : forall cs d o, bytes d -> 0 <= o ->
  good true KB (fun x => o + 2 <= snd x) (k_parse_tile (fuel_of d) cs d o).
Proof.
  intros cs d o Hb Ho. unfold k_parse_tile.
  rd16 mk o1 E1. destruct (negb (mk =? 65424)); [apply good_err|].
  eapply good_bind; [apply k_parse_sot_good; [auto|lia]|]. intros [[isot psot] o2] (A & B & C).
  eapply good_bind.
  { apply k_tile_loop_good; [auto|lia|]. unfold fuel_of, zlen. lia. }
  intros o3 Ho3. cbv beta in Ho3.
  eapply good_bind; [apply k_read_tile_data_len_good; lia|]. intros o4 Ho4. cbv beta in Ho4.
  apply good_ret. cbn [snd]. lia.
Qed.

(* a tile-part (SOT, tile-part header, data) is parsed without panic (with the QCD length check),
   within length+2 loop iterations, with small allocation requests, and consumes at least 2 bytes *)
Theorem k_parse_tile_no_panic : forall cs d o, bytes d -> 0 <= o -> fst (k_parse_tile (fuel_of d) cs d o) <> Panic.
Proof. intros cs d o Hb Ho. apply (good_np _ _ _ (k_parse_tile_good cs d o Hb Ho)). Qed.
Theorem k_parse_tile_fuel : forall cs d o, bytes d -> 0 <= o -> fst (k_parse_tile (fuel_of d) cs d o) <> OutOfFuel.
Proof. intros cs d o Hb Ho. apply (good_nf _ _ _ _ (k_parse_tile_good cs d o Hb Ho)). Qed.
Theorem k_parse_tile_progress : forall cs d o i o', bytes d -> 0 <= o ->
  fst (k_parse_tile (fuel_of d) cs d o) = Ok (i, o') -> o + 2 <= o'.
Proof.
  intros cs d o i o' Hb Ho E. destruct (k_parse_tile_good cs d o Hb Ho) as (_ & _ & _ & P).
  apply (P (i, o') E).
Qed.

(* ================= NewTileAssembler on a validated SIZ (F39/F40) ================= *)
Lemma k_comp_allocs_good : forall k n B, 0 <= n -> n * 4 <= maxAlloc -> n * 4 <= B ->
  good true B (fun _ => True) (k_comp_allocs k n).
Proof.
  induction k as [|k IH]; intros n B H0 H1 H2; cbn [k_comp_allocs]; [apply good_ret; exact I|].
  eapply good_bind; [apply good_alloc with (post := fun _ => True); [lia|lia|lia|exact I]|]. intros _ _. apply IH; lia.
Qed.
Definition siz_S (s : ksiz) : Z := (s_x s - s_xo s) * (s_y s - s_yo s) * s_c s.
Lemma k_assembler_good : forall s, siz_ok s -> good true (4 * siz_S s + 393216) (fun _ => True) (k_assembler s).
Proof.
  intros s (X1 & X2 & Y1 & Y2 & T1 & T2 & C & A). unfold k_assembler, siz_S.
  assert (H0 : 1 <= (s_x s - s_xo s) * (s_y s - s_yo s)) by nia.
  change (2 ^ 31) with 2147483648 in A.
  assert (Hi : i64 ((s_x s - s_xo s) * (s_y s - s_yo s)) = (s_x s - s_xo s) * (s_y s - s_yo s)).
  { unfold i64, wrapS. change (2 ^ 64) with 18446744073709551616. change (2 ^ (64 - 1)) with 9223372036854775808.
    rewrite Z.mod_small by lia. destruct (Z.ltb_spec ((s_x s - s_xo s) * (s_y s - s_yo s)) 9223372036854775808); lia. }
  rewrite Hi.
  assert (HS : (s_x s - s_xo s) * (s_y s - s_yo s) <= (s_x s - s_xo s) * (s_y s - s_yo s) * s_c s) by nia.
  eapply good_bind; [apply good_alloc with (post := fun _ => True); [lia|rewrite maxAlloc_val; lia|lia|exact I]|]. intros _ _.
  apply k_comp_allocs_good; [lia|rewrite maxAlloc_val; lia|lia].
Qed.

(* whatever main header the parser accepts, the image buffers of the decoder can be requested
   without panic and each request is at most 4 bytes per declared sample *)
Theorem k_header_then_assembler : forall d s o, bytes d -> fst (k_main_header (fuel_of d) d) = Ok (s, o) ->
  fst (k_assembler s) <> Panic /\ Forall (fun a => a <= 4 * siz_S s + 393216) (snd (k_assembler s)).
Proof.
  intros d s o Hb E. destruct (k_main_header_good d Hb) as (_ & _ & _ & P). specialize (P (s, o) E). cbn [fst] in P.
  destruct (k_assembler_good s P) as (A & _ & B & _). split; [apply A; reflexivity|exact B].
Qed.
