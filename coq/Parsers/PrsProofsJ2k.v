(* Parsers: theorems about the JPEG 2000 main-header model (PrsJ2k.v). *)
From V Require Import Common.Base Parsers.PrsOutcome Parsers.PrsJ2k Parsers.PrsProofsBase.

Definition hexb (l : list Z) : Prop := bytes l.

(* ---------- witnesses: the code as it stands panics ---------- *)
(* SOC, SIZ (1x1, one component), QCD with Lqcd = 2 : make([]byte, -1) *)
Definition k_siz_1x1 : list Z :=
  [255; 81; 0; 41; 0; 0;  0;0;0;1; 0;0;0;1; 0;0;0;0; 0;0;0;0; 0;0;0;1; 0;0;0;1; 0;0;0;0; 0;0;0;0; 0;1; 7;1;1].
Definition k_qcd_witness : list Z := [255; 79] ++ k_siz_1x1 ++ [255; 92; 0; 2; 0].
Definition k_com_witness : list Z := [255; 79] ++ k_siz_1x1 ++ [255; 100; 0; 2; 0; 0].

Theorem k_parse_qcd_panics_refuted : exists d, bytes d /\ fst (k_main_header false (fuel_of d) d) = Panic.
Proof.
  exists k_qcd_witness. split; [|vm_compute; reflexivity].
  unfold bytes, k_qcd_witness, k_siz_1x1. cbn [app]. repeat constructor; lia.
Qed.
Theorem k_parse_com_panics_refuted : exists d, bytes d /\ fst (k_main_header false (fuel_of d) d) = Panic.
Proof.
  exists k_com_witness. split; [|vm_compute; reflexivity].
  unfold bytes, k_com_witness, k_siz_1x1. cbn [app]. repeat constructor; lia.
Qed.

(* NewTileAssembler: SIZ with Xsiz = Ysiz = 2^32-1 asks for (2^32-1)^2 int32 -> makeslice panic;
   the request is not bounded by anything the 64 KiB input could justify *)
Definition siz_max : ksiz := mkSiz 4294967295 4294967295 0 0 4294967295 4294967295 0 0 1.
Theorem k_assembler_panics_refuted : fst (k_assembler siz_max) = Panic.
Proof. vm_compute. reflexivity. Qed.
(* and with extents 2^20 x 2^20 it does not panic but requests 4 TiB *)
Definition siz_big : ksiz := mkSiz 1048576 1048576 0 0 1048576 1048576 0 0 1.
Theorem k_assembler_alloc_big : fst (k_assembler siz_big) = Ok tt /\ In (4 * (1048576 * 1048576)) (snd (k_assembler siz_big)).
Proof. vm_compute. split; [reflexivity|tauto]. Qed.

(* the request of the assembler is 4 bytes per declared sample: 4 * W*H per component, for
   every SIZ whose offsets do not exceed the extents *)
Lemma k_comp_allocs_bound : forall k n B, n * 4 <= B -> Forall (fun a => a <= B) (snd (k_comp_allocs k n)).
Proof.
  induction k as [|k IH]; intros n B H; cbn [k_comp_allocs]; [constructor|].
  apply bind_allocs; [apply alloc_allocs; exact H|]. intros [] l _. apply IH; exact H.
Qed.
Theorem k_assembler_alloc : forall s,
  0 <= s_xo s <= s_x s -> s_x s < 2 ^ 32 -> 0 <= s_yo s <= s_y s -> s_y s < 2 ^ 32 -> 0 <= s_c s <= 16384 ->
  Forall (fun a => a <= 4 * ((s_x s - s_xo s) * (s_y s - s_yo s)) + 24 * 16384) (snd (k_assembler s)).
Proof.
  intros s Hx Hx2 Hy Hy2 Hc. unfold k_assembler.
  assert (H0 : 0 <= (s_x s - s_xo s) * (s_y s - s_yo s)) by (apply Z.mul_nonneg_nonneg; lia).
  assert (H1 : (s_x s - s_xo s) * (s_y s - s_yo s) <= 2 ^ 32 * 2 ^ 32) by (apply Z.mul_le_mono_nonneg; lia).
  assert (Hi : i64 ((s_x s - s_xo s) * (s_y s - s_yo s)) <= (s_x s - s_xo s) * (s_y s - s_yo s)).
  { unfold i64, wrapS. set (v := (s_x s - s_xo s) * (s_y s - s_yo s)) in *.
    assert (v mod 2 ^ 64 <= v) by (apply Z.mod_le; [lia|apply Z.pow_pos_nonneg; lia]).
    destruct (v mod 2 ^ 64 <? 2 ^ (64 - 1)); [lia|]. assert (0 < 2 ^ 64) by (apply Z.pow_pos_nonneg; lia). lia. }
  apply bind_allocs.
  - apply alloc_allocs. lia.
  - intros [] l _. apply k_comp_allocs_bound. lia.
Qed.
