(* Parsers: theorems about the JPEG 2000 main-header model (PrsJ2k.v). *)
From V Require Import Common.Base Parsers.PrsOutcome Parsers.PrsJ2k Parsers.PrsProofsBase.

Definition hexb (l : list Z) : Prop := bytes l.

(* ---------- witnesses: the code as it stands panics ---------- *)
(* SOC, SIZ (1x1, one component), QCD with Lqcd = 2 : make([]byte, -1) *)
Definition k_siz_1x1 : list Z :=
  [255; 81; 0; 41; 0; 0;  0;0;0;1; 0;0;0;1; 0;0;0;0; 0;0;0;0; 0;0;0;1; 0;0;0;1; 0;0;0;0; 0;0;0;0; 0;1; 7;1;1].
Definition k_qcd_witness : list Z := [255; 79] ++ k_siz_1x1 ++ [255; 92; 0; 2; 0].
Definition k_com_witness : list Z := [255; 79] ++ k_siz_1x1 ++ [255; 100; 0; 2; 0; 0].

Theorem k_parse_qcd_panics_refuted : exists d, bytes d /\ fst (k_main_header false (fuel_of d) d) = Panic.
Proof.
  exists k_qcd_witness. split; [|vm_compute; reflexivity].
  unfold bytes, k_qcd_witness, k_siz_1x1. cbn [app]. repeat constructor; lia.
Qed.
Theorem k_parse_com_panics_refuted : exists d, bytes d /\ fst (k_main_header false (fuel_of d) d) = Panic.
Proof.
  exists k_com_witness. split; [|vm_compute; reflexivity].
  unfold bytes, k_com_witness, k_siz_1x1. cbn [app]. repeat constructor; lia.
Qed.

(* NewTileAssembler: SIZ with Xsiz = Ysiz = 2^32-1 asks for (2^32-1)^2 int32 -> makeslice panic;
   the request is not bounded by anything the 64 KiB input could justify *)
Definition siz_max : ksiz := mkSiz 4294967295 4294967295 0 0 4294967295 4294967295 0 0 1.
Theorem k_assembler_panics_refuted : fst (k_assembler siz_max) = Panic.
Proof. vm_compute. reflexivity. Qed.
(* and with extents 2^20 x 2^20 it does not panic but requests 4 TiB *)
Definition siz_big : ksiz := mkSiz 1048576 1048576 0 0 1048576 1048576 0 0 1.
Theorem k_assembler_alloc_big : fst (k_assembler siz_big) = Ok tt /\ In (4 * (1048576 * 1048576)) (snd (k_assembler siz_big)).
Proof. vm_compute. split; [reflexivity|tauto]. Qed.

(* the request of the assembler is 4 bytes per declared sample: 4 * W*H per component, for
   every SIZ whose offsets do not exceed the extents *)
Lemma k_comp_allocs_bound : forall k n B, n * 4 <= B -> Forall (fun a => a <= B) (snd (k_comp_allocs k n)).
Proof.
  induction k as [|k IH]; intros n B H; cbn [k_comp_allocs]; [constructor|].
  apply bind_allocs; [apply alloc_allocs; exact H|]. intros [] l _. apply IH; exact H.
Qed.
Theorem k_assembler_alloc : forall s,
  0 <= s_xo s <= s_x s -> s_x s < 2 ^ 32 -> 0 <= s_yo s <= s_y s -> s_y s < 2 ^ 32 -> 0 <= s_c s <= 16384 ->
  Forall (fun a => a <= 4 * ((s_x s - s_xo s) * (s_y s - s_yo s)) + 24 * 16384) (snd (k_assembler s)).
Proof.
  intros s Hx Hx2 Hy Hy2 Hc. unfold k_assembler.
  assert (H0 : 0 <= (s_x s - s_xo s) * (s_y s - s_yo s)) by (apply Z.mul_nonneg_nonneg; lia).
  assert (H1 : (s_x s - s_xo s) * (s_y s - s_yo s) <= 2 ^ 32 * 2 ^ 32) by (apply Z.mul_le_mono_nonneg; lia).
  assert (Hi : i64 ((s_x s - s_xo s) * (s_y s - s_yo s)) <= (s_x s - s_xo s) * (s_y s - s_yo s)).
  { unfold i64, wrapS. set (v := (s_x s - s_xo s) * (s_y s - s_yo s)) in *.
    assert (v mod 2 ^ 64 <= v) by (apply Z.mod_le; [lia|apply Z.pow_pos_nonneg; lia]).
    destruct (v mod 2 ^ 64 <? 2 ^ (64 - 1)); [lia|]. assert (0 < 2 ^ 64) by (apply Z.pow_pos_nonneg; lia). lia. }
  apply bind_allocs.
  - apply alloc_allocs. lia.
  - intros [] l _. apply k_comp_allocs_bound. lia.
Qed.

(* ================= no panic / fuel / small requests for the main header ================= *)
Definition KB : Z := 1048576.

Lemma k_rd8_good : forall g d o, bytes d -> 0 <= o ->
  good g KB (fun x => snd x = o + 1 /\ 0 <= fst x < 256) (k_rd8 d o).
Proof.
  intros. unfold k_rd8. destruct (zlen d <? o + 1); [apply good_err|].
  apply good_ret. cbn [fst snd]. split; [reflexivity|apply bytes_znth; auto].
Qed.
Lemma k_rd16_good : forall g d o, bytes d -> 0 <= o ->
  good g KB (fun x => snd x = o + 2 /\ 0 <= fst x <= 65535 /\ o + 2 <= zlen d) (k_rd16 d o).
Proof.
  intros. unfold k_rd16. destruct (Z.ltb_spec (zlen d) (o + 2)); [apply good_err|].
  apply good_ret. cbn [fst snd]. split; [reflexivity|].
  pose proof (bytes_znth d o H). pose proof (bytes_znth d (o + 1) H). lia.
Qed.
Lemma k_rd32_good : forall g d o, bytes d -> 0 <= o ->
  good g KB (fun x => snd x = o + 4 /\ 0 <= fst x < 4294967296) (k_rd32 d o).
Proof.
  intros. unfold k_rd32. destruct (zlen d <? o + 4); [apply good_err|].
  apply good_ret. cbn [fst snd]. split; [reflexivity|].
  pose proof (bytes_znth d o H). pose proof (bytes_znth d (o + 1) H).
  pose proof (bytes_znth d (o + 2) H). pose proof (bytes_znth d (o + 3) H). lia.
Qed.
Lemma k_read_buf_good : forall g d o n, 0 <= n <= 65535 ->
  good g KB (fun o' => o' = o + n) (k_read_buf d o n).
Proof.
  intros. unfold k_read_buf.
  eapply good_bind; [apply good_alloc with (post := fun _ => True); [lia|rewrite maxAlloc_val; lia|unfold KB; lia|exact I]|].
  intros _ _. destruct (zlen d <? o + n); [apply good_err|apply good_ret; reflexivity].
Qed.
Lemma k_rd_bytes_good : forall g d k o, bytes d -> 0 <= o -> good g KB (fun o' => o <= o') (k_rd_bytes d k o).
Proof.
  intros g d k. induction k as [|k IH]; intros o Hb Ho; cbn [k_rd_bytes]; [apply good_ret; lia|].
  eapply good_bind; [apply k_rd8_good; auto|]. intros [v o1] (E & _). cbn [fst snd] in *. subst o1.
  eapply good_weaken; [apply IH; [auto|lia]|lia|]. cbv beta; intros; lia.
Qed.
Lemma k_rd_comp_good : forall g cs d o, bytes d -> 0 <= o ->
  good g KB (fun x => o <= snd x /\ 0 <= fst x <= 65535) (k_rd_comp cs d o).
Proof.
  intros. unfold k_rd_comp. destruct (comp_bytes cs =? 2).
  - eapply good_weaken; [apply k_rd16_good; auto|lia|]. cbv beta. intros a (E & R & _). lia.
  - eapply good_weaken; [apply k_rd8_good; auto|lia|]. cbv beta. intros a (E & R). lia.
Qed.
Lemma comp_bytes_range : forall cs, 1 <= comp_bytes cs <= 2.
Proof. intros. unfold comp_bytes. destruct (256 <? cs); lia. Qed.

Ltac rd8 v o E := eapply good_bind; [apply k_rd8_good; [assumption|lia]|]; intros [v o] (E & ?); cbn [fst snd] in *; subst o.
Ltac rd16 v o E := eapply good_bind; [apply k_rd16_good; [assumption|lia]|]; intros [v o] (E & ? & ?); cbn [fst snd] in *; subst o.
Ltac rd32 v o E := eapply good_bind; [apply k_rd32_good; [assumption|lia]|]; intros [v o] (E & ?); cbn [fst snd] in *; subst o.

Lemma k_skip_good : forall g d o, bytes d -> 0 <= o -> good g KB (fun o' => o <= o') (k_skip_segment d o).
Proof.
  intros. unfold k_skip_segment. rd16 l o1 E.
  destruct (zlen d <? o + 2 + (l - 2)); [apply good_err|apply good_ret; lia].
Qed.

Lemma k_siz_comps_good : forall g d k o, bytes d -> 0 <= o -> good g KB (fun o' => o <= o') (k_siz_comps d k o).
Proof.
  intros g d k. induction k as [|k IH]; intros o Hb Ho; cbn [k_siz_comps]; [apply good_ret; lia|].
  rd8 a o1 E1. rd8 b o2 E2. rd8 c o3 E3.
  eapply good_weaken; [apply IH; [auto|lia]|lia|]. cbv beta; intros; lia.
Qed.

Lemma k_parse_siz_good : forall g d o, bytes d -> 0 <= o ->
  good g KB (fun x => o <= snd x /\ 0 <= s_c (fst x) <= 65535) (k_parse_siz d o).
Proof.
  intros. unfold k_parse_siz.
  rd16 len o1 E1. rd16 rs o2 E2. rd32 x o3 E3. rd32 y o4 E4. rd32 xo o5 E5. rd32 yo o6 E6.
  rd32 xt o7 E7. rd32 yt o8 E8. rd32 xto o9 E9. rd32 yto o10 E10. rd16 cs o11 E11.
  eapply good_bind; [apply good_alloc with (post := fun _ => True); [lia|rewrite maxAlloc_val; lia|unfold KB; lia|exact I]|].
  intros _ _.
  eapply good_bind; [apply k_siz_comps_good; [auto|lia]|]. intros o12 Ho12. cbv beta in Ho12.
  destruct (negb (len =? 38 + 3 * cs)); [apply good_err|].
  apply good_ret. cbn [fst snd s_c]. lia.
Qed.

Lemma k_coding_style_good : forall g d sc o, bytes d -> 0 <= o -> good g KB (fun o' => o <= o') (k_coding_style d sc o).
Proof.
  intros. unfold k_coding_style.
  rd8 nl o1 E1. rd8 a o2 E2. rd8 b o3 E3. rd8 c o4 E4. rd8 t o5 E5.
  destruct (Z.odd sc); [|apply good_ret; lia].
  eapply good_bind; [apply good_alloc with (post := fun _ => True); [lia|rewrite maxAlloc_val; lia|unfold KB; lia|exact I]|].
  intros _ _. eapply good_weaken; [apply k_rd_bytes_good; [auto|lia]|lia|]. cbv beta; intros; lia.
Qed.

Lemma k_len_fix_good : forall g len start o, 0 <= len -> start <= o ->
  good g KB (fun o' => start + len - 2 <= o' /\ o <= o') (k_len_fix len start o).
Proof.
  intros. unfold k_len_fix. destruct (Z.ltb_spec (len - 2) (o - start)); [apply good_err|].
  apply good_ret. lia.
Qed.

Lemma k_parse_cod_good : forall g d o, bytes d -> 0 <= o -> good g KB (fun o' => o <= o') (k_parse_cod d o).
Proof.
  intros. unfold k_parse_cod.
  rd16 len o1 E1. rd8 sc o2 E2. rd8 pr o3 E3. rd16 ly o4 E4. rd8 mc o5 E5.
  eapply good_bind; [apply k_coding_style_good; [auto|lia]|]. intros o6 Ho6. cbv beta in Ho6.
  eapply good_weaken; [apply k_len_fix_good; lia|lia|]. cbv beta; intros; lia.
Qed.

Lemma k_parse_coc_good : forall g cs d o, bytes d -> 0 <= o ->
  good g KB (fun x => o <= snd x) (k_parse_coc cs d o).
Proof.
  intros. unfold k_parse_coc.
  rd16 len o1 E1.
  eapply good_bind; [apply k_rd_comp_good; [auto|lia]|]. intros [cp o2] (Ho2 & _). cbn [fst snd] in *.
  rd8 sc o3 E3.
  eapply good_bind; [apply k_coding_style_good; [auto|lia]|]. intros o4 Ho4. cbv beta in Ho4.
  eapply good_bind; [apply k_len_fix_good; lia|]. intros o5 (Ho5 & Ho5'). cbv beta in *.
  apply good_ret. cbn [snd]. lia.
Qed.

Lemma k_parse_qcd_good : forall g d o, bytes d -> 0 <= o -> good g KB (fun o' => o <= o') (k_parse_qcd g d o).
Proof.
  intros. unfold k_parse_qcd. rd16 len o1 E1. rd8 sq o2 E2.
  destruct g; cbn [andb].
  - destruct (Z.ltb_spec len 3); [apply good_err|].
    eapply good_weaken; [apply k_read_buf_good; lia|lia|]. cbv beta; intros; lia.
  - (* code as it stands: make([]byte, len-3) may panic; nothing to show for g = false but fuel and sizes *)
    unfold k_read_buf, alloc.
    destruct ((len - 3 <? 0) || (maxAlloc <? (len - 3) * 1)) eqn:Ea.
    + unfold bind; cbn [fst snd]. unfold good; cbn [fst snd]. split; [discriminate|]. split; [discriminate|].
      split; [repeat constructor; unfold KB; lia|intros; discriminate].
    + unfold bind; cbn [fst snd]. apply orb_false_iff in Ea. destruct Ea as [Ea _]. apply Z.ltb_ge in Ea.
      destruct (zlen d <? o + 2 + 1 + (len - 3)); unfold good, err, ret; cbn [fst snd].
      * split; [discriminate|]. split; [discriminate|]. split; [repeat constructor; unfold KB; lia|intros; discriminate].
      * split; [discriminate|]. split; [discriminate|]. split; [repeat constructor; unfold KB; lia|].
        intros a Ha. inversion Ha; subst. lia.
Qed.

Lemma k_parse_qcc_good : forall g cs d o, bytes d -> 0 <= o ->
  good g KB (fun x => o <= snd x) (k_parse_qcc cs d o).
Proof.
  intros. unfold k_parse_qcc. pose proof (comp_bytes_range cs).
  rd16 len o1 E1.
  eapply good_bind; [apply k_rd_comp_good; [auto|lia]|]. intros [cp o2] (Ho2 & _). cbn [fst snd] in *.
  rd8 sq o3 E3.
  destruct (Z.ltb_spec (len - 3 - comp_bytes cs) 0); [apply good_err|].
  eapply good_bind; [apply k_read_buf_good; lia|]. intros o4 Ho4. cbv beta in Ho4.
  eapply good_bind; [apply k_len_fix_good; lia|]. intros o5 (Ho5 & Ho5'). cbv beta in *.
  apply good_ret. cbn [snd]. lia.
Qed.

Lemma k_poc_entries_good : forall g cs d k o, bytes d -> 0 <= o -> good g KB (fun o' => o <= o') (k_poc_entries cs d k o).
Proof.
  intros g cs d k. induction k as [|k IH]; intros o Hb Ho; cbn [k_poc_entries]; [apply good_ret; lia|].
  rd8 a o1 E1.
  eapply good_bind; [apply k_rd_comp_good; [auto|lia]|]. intros [b o2] (Ho2 & _). cbn [fst snd] in *.
  rd16 c o3 E3. rd8 e o4 E4.
  eapply good_bind; [apply k_rd_comp_good; [auto|lia]|]. intros [f o5] (Ho5 & _). cbn [fst snd] in *.
  rd8 h o6 E6.
  eapply good_weaken; [apply IH; [auto|lia]|lia|]. cbv beta; intros; lia.
Qed.

Lemma k_parse_poc_good : forall g cs d o, bytes d -> 0 <= o -> good g KB (fun o' => o <= o') (k_parse_poc cs d o).
Proof.
  intros. unfold k_parse_poc. pose proof (comp_bytes_range cs).
  rd16 len o1 E1.
  destruct (Z.ltb_spec (len - 2) (5 + 2 * comp_bytes cs)); cbn [orb]; [apply good_err|].
  destruct (negb (Z.rem (len - 2) (5 + 2 * comp_bytes cs) =? 0)); [apply good_err|].
  assert (Hq : 0 <= Z.quot (len - 2) (5 + 2 * comp_bytes cs) <= 65535).
  { rewrite Z.quot_div_nonneg by lia. split; [apply Z.div_pos; lia|].
    apply Z.div_le_upper_bound; lia. }
  eapply good_bind; [apply good_alloc with (post := fun _ => True); [lia|rewrite maxAlloc_val; lia|unfold KB; lia|exact I]|].
  intros _ _. eapply good_weaken; [apply k_poc_entries_good; [auto|lia]|lia|]. cbv beta; intros; lia.
Qed.

Lemma k_parse_rgn_good : forall g cs d o, bytes d -> 0 <= o -> good g KB (fun o' => o <= o') (k_parse_rgn cs d o).
Proof.
  intros. unfold k_parse_rgn. pose proof (comp_bytes_range cs).
  rd16 len o1 E1.
  destruct (Z.ltb_spec len (4 + comp_bytes cs)); [apply good_err|].
  eapply good_bind; [apply k_rd_comp_good; [auto|lia]|]. intros [a o2] (Ho2 & _). cbn [fst snd] in *.
  rd8 b o3 E3. rd8 c o4 E4.
  destruct (Z.ltb_spec 0 (len - (4 + comp_bytes cs))); [|apply good_ret; lia].
  eapply good_weaken; [apply k_read_buf_good; lia|lia|]. cbv beta; intros; lia.
Qed.

Lemma k_parse_com_good : forall g d o, bytes d -> 0 <= o -> good g KB (fun o' => o <= o') (k_parse_com g d o).
Proof.
  intros. unfold k_parse_com. rd16 len o1 E1. rd16 rc o2 E2.
  destruct g; cbn [andb].
  - destruct (Z.ltb_spec len 4); [apply good_err|].
    eapply good_weaken; [apply k_read_buf_good; lia|lia|]. cbv beta; intros; lia.
  - unfold k_read_buf, alloc.
    destruct ((len - 4 <? 0) || (maxAlloc <? (len - 4) * 1)) eqn:Ea.
    + unfold bind; cbn [fst snd]. unfold good; cbn [fst snd]. split; [discriminate|]. split; [discriminate|].
      split; [repeat constructor; unfold KB; lia|intros; discriminate].
    + unfold bind; cbn [fst snd]. apply orb_false_iff in Ea. destruct Ea as [Ea _]. apply Z.ltb_ge in Ea.
      destruct (zlen d <? o + 2 + 2 + (len - 4)); unfold good, err, ret; cbn [fst snd].
      * split; [discriminate|]. split; [discriminate|]. split; [repeat constructor; unfold KB; lia|intros; discriminate].
      * split; [discriminate|]. split; [discriminate|]. split; [repeat constructor; unfold KB; lia|].
        intros a Ha. inversion Ha; subst. lia.
Qed.

Lemma k_parse_mct_good : forall g d o, bytes d -> 0 <= o -> good g KB (fun o' => o <= o') (k_parse_mct d o).
Proof.
  intros. unfold k_parse_mct. rd16 len o1 E1.
  destruct (Z.ltb_spec (len - 2) 6); [apply good_err|].
  rd16 z o2 E2. destruct (negb (z =? 0)); [apply good_err|].
  rd16 im o3 E3. rd16 ym o4 E4. destruct (negb (ym =? 0)); [apply good_err|].
  eapply good_weaken; [apply k_read_buf_good; lia|lia|]. cbv beta; intros; lia.
Qed.

Lemma k_rd_ids_good : forall g two d k o, bytes d -> 0 <= o -> good g KB (fun o' => o <= o') (k_rd_ids two d k o).
Proof.
  intros g two d k. induction k as [|k IH]; intros o Hb Ho; cbn [k_rd_ids]; [apply good_ret; lia|].
  eapply good_bind with (pa := fun x => o <= snd x).
  { destruct two.
    - eapply good_weaken; [apply k_rd16_good; auto|lia|]. cbv beta. intros a (E & _ & _). lia.
    - eapply good_weaken; [apply k_rd8_good; auto|lia|]. cbv beta. intros a (E & _). lia. }
  intros [v o1] Ho1. cbn [fst snd] in *.
  eapply good_weaken; [apply IH; [auto|lia]|lia|]. cbv beta; intros; lia.
Qed.

Lemma mod_32768 : forall x, 0 <= x <= 65535 -> 0 <= x mod 32768 <= 32767.
Proof. intros. pose proof (Z.mod_pos_bound x 32768 ltac:(lia)). lia. Qed.

Lemma k_parse_mcc_good : forall g d o, bytes d -> 0 <= o -> good g KB (fun o' => o <= o') (k_parse_mcc d o).
Proof.
  intros. unfold k_parse_mcc. rd16 len o1 E1.
  destruct (Z.ltb_spec (len - 2) 7); [apply good_err|].
  rd16 z o2 E2. destruct (negb (z =? 0)); [apply good_err|].
  rd8 ix o3 E3. rd16 ym o4 E4. destruct (negb (ym =? 0)); [apply good_err|].
  rd16 qm o5 E5. destruct (qm =? 0); [apply good_err|].
  rd8 ct o6 E6. rd16 nm o7 E7.
  pose proof (mod_32768 nm ltac:(lia)) as Hn1.
  eapply good_bind; [apply good_alloc with (post := fun _ => True); [lia|rewrite maxAlloc_val; lia|unfold KB; lia|exact I]|].
  intros _ _.
  eapply good_bind; [apply k_rd_ids_good; [auto|lia]|]. intros o8 Ho8. cbv beta in Ho8.
  rd16 mm o9 E9.
  pose proof (mod_32768 mm ltac:(lia)) as Hn2.
  eapply good_bind; [apply good_alloc with (post := fun _ => True); [lia|rewrite maxAlloc_val; lia|unfold KB; lia|exact I]|].
  intros _ _.
  eapply good_bind; [apply k_rd_ids_good; [auto|lia]|]. intros o10 Ho10. cbv beta in Ho10.
  rd8 t0 o11 E11. rd8 t1 o12 E12. rd8 t2 o13 E13.
  match goal with |- context [if 0 <? ?r then _ else _] => destruct (Z.ltb_spec 0 r) end; [|apply good_ret; lia].
  eapply good_weaken; [apply k_read_buf_good| |].
  - assert (1 <= (if 32768 <=? nm then 2 else 1)) by (destruct (32768 <=? nm); lia).
    assert (1 <= (if 32768 <=? mm then 2 else 1)) by (destruct (32768 <=? mm); lia).
    assert (0 <= (if 32768 <=? nm then 2 else 1) * (nm mod 32768)) by (apply Z.mul_nonneg_nonneg; lia).
    assert (0 <= (if 32768 <=? mm then 2 else 1) * (mm mod 32768)) by (apply Z.mul_nonneg_nonneg; lia).
    lia.
  - lia.
  - cbv beta; intros; lia.
Qed.

Lemma k_parse_mco_good : forall g d o, bytes d -> 0 <= o -> good g KB (fun o' => o <= o') (k_parse_mco d o).
Proof.
  intros. unfold k_parse_mco. rd16 len o1 E1.
  destruct (Z.ltb_spec (len - 2) 1); [apply good_err|].
  rd8 ns o2 E2.
  eapply good_bind; [apply good_alloc with (post := fun _ => True); [lia|rewrite maxAlloc_val; lia|unfold KB; lia|exact I]|].
  intros _ _.
  eapply good_bind; [apply k_rd_bytes_good; [auto|lia]|]. intros o3 Ho3. cbv beta in Ho3.
  destruct (Z.ltb_spec 0 (len - 2 - (1 + ns))); [|apply good_ret; lia].
  eapply good_weaken; [apply k_read_buf_good; lia|lia|]. cbv beta; intros; lia.
Qed.

Lemma k_main_segment_good : forall g st m d o, bytes d -> 0 <= o ->
  good g KB (fun x => o <= snd x) (k_main_segment g st m d o).
Proof.
  intros g st m d o Hb Ho. unfold k_main_segment.
  set (seen := match k_siz st with Some _ => true | None => false end).
  destruct (m =? 81).
  { destruct seen; [apply good_err|].
    eapply good_bind; [apply k_parse_siz_good; auto|]. intros [s o2] (Ho2 & _). apply good_ret. exact Ho2. }
  destruct (m =? 82).
  { destruct (negb seen); [apply good_err|]. destruct (k_cod st); [apply good_err|].
    eapply good_bind; [apply k_parse_cod_good; auto|]. intros o2 Ho2. apply good_ret. exact Ho2. }
  destruct (m =? 83).
  { destruct (negb seen); [apply good_err|]. destruct (negb (k_cod st)); [apply good_err|].
    eapply good_bind; [apply k_parse_coc_good; auto|]. intros [[c body] o2] Ho2. cbn [snd] in Ho2.
    destruct (assoc (k_coc st) c); [destruct (negb (zlist_eqb l body)); [apply good_err|]|]; apply good_ret; exact Ho2. }
  destruct (m =? 92).
  { destruct (negb seen); [apply good_err|]. destruct (k_qcd st); [apply good_err|].
    eapply good_bind; [apply k_parse_qcd_good; auto|]. intros o2 Ho2. apply good_ret. exact Ho2. }
  destruct (m =? 93).
  { destruct (negb seen); [apply good_err|]. destruct (negb (k_qcd st)); [apply good_err|].
    eapply good_bind; [apply k_parse_qcc_good; auto|]. intros [[c body] o2] Ho2. cbn [snd] in Ho2.
    destruct (assoc (k_qcc st) c); [destruct (negb (zlist_eqb l body)); [apply good_err|]|]; apply good_ret; exact Ho2. }
  destruct (m =? 95).
  { destruct (negb seen); [apply good_err|]. destruct (negb (k_cod st)); [apply good_err|].
    eapply good_bind; [apply k_parse_poc_good; auto|]. intros o2 Ho2. apply good_ret. exact Ho2. }
  destruct (m =? 94).
  { destruct (negb seen); [apply good_err|].
    eapply good_bind; [apply k_parse_rgn_good; auto|]. intros o2 Ho2. apply good_ret. exact Ho2. }
  destruct (m =? 100).
  { destruct (negb seen); [apply good_err|].
    eapply good_bind; [apply k_parse_com_good; auto|]. intros o2 Ho2. apply good_ret. exact Ho2. }
  destruct (m =? 116).
  { destruct (negb seen); [apply good_err|].
    eapply good_bind; [apply k_parse_mct_good; auto|]. intros o2 Ho2. apply good_ret. exact Ho2. }
  destruct (m =? 117).
  { destruct (negb seen); [apply good_err|].
    eapply good_bind; [apply k_parse_mcc_good; auto|]. intros o2 Ho2. apply good_ret. exact Ho2. }
  destruct (m =? 119).
  { destruct (negb seen); [apply good_err|].
    eapply good_bind; [apply k_parse_mco_good; auto|]. intros o2 Ho2. apply good_ret. exact Ho2. }
  destruct (negb seen); [apply good_err|].
  eapply good_bind; [apply k_skip_good; auto|]. intros o2 Ho2. apply good_ret. exact Ho2.
Qed.

(* the loop: every iteration advances the offset by at least 2 (skipSegment with length 0 moves
   back by 2 after 4 bytes were consumed) *)
Lemma k_main_loop_good : forall g fuel st d o, bytes d -> 0 <= o -> Z.max 0 (zlen d - o) < Z.of_nat fuel ->
  good g KB (fun _ => True) (k_main_loop g fuel st d o).
Proof.
  intros g fuel. induction fuel as [|k IH]; intros st d o Hb Ho Hf.
  - exfalso. simpl in Hf. lia.
  - cbn [k_main_loop].
    eapply good_bind; [apply k_rd16_good; auto|]. intros [marker o1] (E & Hm & Hlen). cbn [fst snd] in *. subst o1.
    destruct ((marker =? 65424) || (marker =? 65497)); [apply good_ret; exact I|].
    eapply good_bind; [apply k_main_segment_good; [auto|lia]|]. intros [st' o2] Ho2. cbn [fst snd] in *.
    apply IH; [auto|lia|lia].
Qed.

Lemma k_main_header_good : forall g d, bytes d -> good g KB (fun _ => True) (k_main_header g (fuel_of d) d).
Proof.
  intros g d Hb. unfold k_main_header.
  eapply good_bind; [apply k_rd16_good; [auto|lia]|]. intros [soc o1] (E & _ & _). cbn [fst snd] in *. subst o1.
  destruct (negb (soc =? 65359)); [apply good_err|].
  eapply good_bind.
  { apply k_main_loop_good; [auto|lia|]. unfold fuel_of, zlen. lia. }
  intros [st o2] _. cbn [fst snd].
  destruct (k_siz st); [|apply good_err].
  destruct (negb (k_cod st)); [apply good_err|]. destruct (negb (k_qcd st)); [apply good_err|].
  apply good_ret. exact I.
Qed.

(* with the proposed checks in parseQCD / parseCOM the main-header parser never panics *)
Theorem k_main_header_no_panic : forall d, bytes d -> fst (k_main_header true (fuel_of d) d) <> Panic.
Proof. intros d Hb. apply (good_np _ _ _ (k_main_header_good true d Hb)). Qed.

(* termination: length + 2 iterations suffice, also through skipSegment with length 0 or 1 *)
Theorem k_main_header_fuel : forall g d, bytes d -> fst (k_main_header g (fuel_of d) d) <> OutOfFuel.
Proof. intros g d Hb. apply (good_nf _ _ _ _ (k_main_header_good g d Hb)). Qed.

(* every allocation request of the main-header parser is below 1 MiB, whatever the header says *)
Theorem k_main_header_alloc : forall g d, bytes d ->
  Forall (fun a => a <= 1048576) (snd (k_main_header g (fuel_of d) d)).
Proof. intros g d Hb. apply (good_allocs _ _ _ _ (k_main_header_good g d Hb)). Qed.

(* ================= tile-parts ================= *)
Lemma k_scan_marker_range : forall fuel d o, o <= k_scan_marker fuel d o /\ (o <= zlen d -> k_scan_marker fuel d o <= zlen d).
Proof.
  induction fuel as [|k IH]; intros d o; cbn [k_scan_marker]; [lia|].
  destruct (Z.leb_spec (zlen d) o); [lia|].
  destruct ((znth d o 0 =? 255) && (o + 1 <? zlen d) && negb (znth d (o + 1) 0 =? 0) && (79 <=? znth d (o + 1) 0)); [lia|].
  destruct (IH d (o + 1)) as [A B]. split; [lia|]. intros _. apply B. lia.
Qed.

Lemma k_read_tile_data_good : forall g d o, 0 <= o <= zlen d -> good g KB (fun e => o <= e <= zlen d) (k_read_tile_data d o).
Proof.
  intros g d o Ho. unfold k_read_tile_data.
  destruct (k_scan_marker_range (S (length d)) d o) as [A B]. specialize (B ltac:(lia)).
  destruct (Z.ltb_spec o 0); [lia|]. destruct (Z.ltb_spec (k_scan_marker (S (length d)) d o) o); [lia|].
  destruct (Z.ltb_spec (zlen d) (k_scan_marker (S (length d)) d o)); [lia|]. cbn [orb].
  apply good_ret. lia.
Qed.

Lemma k_read_tile_data_len_good : forall g d ts psot o, 0 <= o <= zlen d -> 0 <= psot ->
  good g KB (fun e => o <= e) (k_read_tile_data_len d ts psot o).
Proof.
  intros g d ts psot o Ho Hp. unfold k_read_tile_data_len.
  assert (W : good g KB (fun e => o <= e) (k_read_tile_data d o)).
  { eapply good_weaken; [apply k_read_tile_data_good; lia|lia|]. cbv beta; intros; lia. }
  destruct (psot =? 0); [exact W|].
  destruct (Z.ltb_spec psot (o - ts)); [exact W|].
  destruct (zlen d <? o + (psot - (o - ts))); [exact W|].
  destruct (Z.ltb_spec o 0); [lia|]. destruct (Z.ltb_spec (o + (psot - (o - ts))) o); [lia|]. cbn [orb].
  apply good_ret. lia.
Qed.

Lemma k_parse_sot_good : forall g d o, bytes d -> 0 <= o ->
  good g KB (fun x => let '(i, p, o') := x in o <= o' /\ o' <= zlen d /\ 0 <= p) (k_parse_sot d o).
Proof.
  intros. unfold k_parse_sot. rd16 len o1 E1.
  destruct (negb (len =? 10)); [apply good_err|].
  rd16 isot o2 E2. rd32 psot o3 E3.
  eapply good_bind; [apply k_rd8_good; [assumption|lia]|]. intros [tp o4] (E4 & _). cbn [fst snd] in *. subst o4.
  unfold k_rd8. destruct (Z.ltb_spec (zlen d) (o + 2 + 2 + 4 + 1 + 1)); [apply good_err|].
  unfold bind, ret; cbn [fst snd app]. unfold good; cbn [fst snd].
  split; [discriminate|]. split; [discriminate|]. split; [constructor|].
  intros a Ha. inversion Ha; subst. lia.
Qed.

Lemma k_tile_segment_good : forall g cs ts m d o, bytes d -> 0 <= o ->
  good g KB (fun x => o <= snd x) (k_tile_segment g cs ts m d o).
Proof.
  intros g cs ts m d o Hb Ho. unfold k_tile_segment.
  destruct (m =? 82).
  { eapply good_bind; [apply k_parse_cod_good; auto|]. intros o2 Ho2. apply good_ret. exact Ho2. }
  destruct (m =? 83).
  { eapply good_bind; [apply k_parse_coc_good; auto|]. intros [[c body] o2] Ho2. cbn [snd] in Ho2.
    destruct (assoc (t_coc ts) c); [destruct (negb (zlist_eqb l body)); [apply good_err|]|]; apply good_ret; exact Ho2. }
  destruct (m =? 92).
  { eapply good_bind; [apply k_parse_qcd_good; auto|]. intros o2 Ho2. apply good_ret. exact Ho2. }
  destruct (m =? 93).
  { eapply good_bind; [apply k_parse_qcc_good; auto|]. intros [[c body] o2] Ho2. cbn [snd] in Ho2.
    destruct (assoc (t_qcc ts) c); [destruct (negb (zlist_eqb l body)); [apply good_err|]|]; apply good_ret; exact Ho2. }
  destruct (m =? 95).
  { eapply good_bind; [apply k_parse_poc_good; auto|]. intros o2 Ho2. apply good_ret. exact Ho2. }
  destruct (m =? 94).
  { eapply good_bind; [apply k_parse_rgn_good; auto|]. intros o2 Ho2. apply good_ret. exact Ho2. }
  destruct (m =? 116).
  { eapply good_bind; [apply k_parse_mct_good; auto|]. intros o2 Ho2. apply good_ret. exact Ho2. }
  destruct (m =? 117).
  { eapply good_bind; [apply k_parse_mcc_good; auto|]. intros o2 Ho2. apply good_ret. exact Ho2. }
  destruct (m =? 119).
  { eapply good_bind; [apply k_parse_mco_good; auto|]. intros o2 Ho2. apply good_ret. exact Ho2. }
  eapply good_bind; [apply k_skip_good; auto|]. intros o2 Ho2. apply good_ret. exact Ho2.
Qed.

(* the tile-part header loop ends right after a SOD marker that was read inside the data, so
   readTileData's slice expression p.data[start:offset] has start <= len(data) *)
Lemma k_tile_loop_good : forall g fuel cs ts d o, bytes d -> 0 <= o -> Z.max 0 (zlen d - o) < Z.of_nat fuel ->
  good g KB (fun o' => o <= o' <= zlen d) (k_tile_loop g fuel cs ts d o).
Proof.
  intros g fuel. induction fuel as [|k IH]; intros cs ts d o Hb Ho Hf.
  - exfalso. simpl in Hf. lia.
  - cbn [k_tile_loop].
    eapply good_bind; [apply k_rd16_good; auto|]. intros [marker o1] (E & Hm & Hlen). cbn [fst snd] in *. subst o1.
    destruct (marker =? 65427); [apply good_ret; lia|].
    eapply good_bind; [apply k_tile_segment_good; [auto|lia]|]. intros [ts' o2] Ho2. cbn [fst snd] in *.
    eapply good_weaken; [apply IH; [auto|lia|lia]|apply Z.le_refl|]. cbv beta; intros; lia.
Qed.

Lemma k_parse_tile_good : forall g cs d o, bytes d -> 0 <= o ->
  good g KB (fun x => o + 2 <= snd x) (k_parse_tile g (fuel_of d) cs d o).
Proof.
  intros g cs d o Hb Ho. unfold k_parse_tile.
  rd16 mk o1 E1. destruct (negb (mk =? 65424)); [apply good_err|].
  eapply good_bind; [apply k_parse_sot_good; [auto|lia]|]. intros [[isot psot] o2] (A & B & C).
  eapply good_bind.
  { apply k_tile_loop_good; [auto|lia|]. unfold fuel_of, zlen. lia. }
  intros o3 Ho3. cbv beta in Ho3.
  eapply good_bind; [apply k_read_tile_data_len_good; lia|]. intros o4 Ho4. cbv beta in Ho4.
  apply good_ret. cbn [snd]. lia.
Qed.

(* a tile-part (SOT, tile-part header, data) is parsed without panic (with the QCD length check),
   within length+2 loop iterations, with small allocation requests, and consumes at least 2 bytes *)
Theorem k_parse_tile_no_panic : forall cs d o, bytes d -> 0 <= o -> fst (k_parse_tile true (fuel_of d) cs d o) <> Panic.
Proof. intros cs d o Hb Ho. apply (good_np _ _ _ (k_parse_tile_good true cs d o Hb Ho)). Qed.
Theorem k_parse_tile_fuel : forall g cs d o, bytes d -> 0 <= o -> fst (k_parse_tile g (fuel_of d) cs d o) <> OutOfFuel.
Proof. intros g cs d o Hb Ho. apply (good_nf _ _ _ _ (k_parse_tile_good g cs d o Hb Ho)). Qed.
Theorem k_parse_tile_progress : forall g cs d o i o', bytes d -> 0 <= o ->
  fst (k_parse_tile g (fuel_of d) cs d o) = Ok (i, o') -> o + 2 <= o'.
Proof.
  intros g cs d o i o' Hb Ho E. destruct (k_parse_tile_good g cs d o Hb Ho) as (_ & _ & _ & P).
  apply (P (i, o') E).
Qed.
