(* C08 — no decoder panics: property-level theorems about the header-parser models.
   g = true : model with the proposed range checks; g = false : the code as it stands in /repo.
   `bytes bs` : every element of the input list is a byte (0..255). Property theorems only. *)
From V Require Import Common.Base Parsers.PrsOutcome Parsers.PrsJls Parsers.PrsJpeg Parsers.PrsBaseline Parsers.PrsJ2k
  Parsers.PrsProofsBase Parsers.PrsProofsJls Parsers.PrsProofsJpeg Parsers.PrsProofsBaseline Parsers.PrsProofsJ2k.

(* ---- JPEG-LS (jpegls/lossless, jpegls/nearlossless): header loop + parameter derivation ---- *)
Theorem C08_jls_lossless_no_panic_with_precision_check : forall bs, bytes bs ->
  fst (jlsl_decode true (fuel_of bs) bs) <> Panic.
Proof. exact jlsl_decode_no_panic. Qed.
Print Assumptions C08_jls_lossless_no_panic_with_precision_check.

Theorem C08_jls_lossless_panics_as_is : exists bs, bytes bs /\ fst (jlsl_decode false (fuel_of bs) bs) = Panic.
Proof. exact jlsl_decode_panics_refuted. Qed.
Print Assumptions C08_jls_lossless_panics_as_is.

Theorem C08_jls_near_no_panic_with_precision_check : forall bs, bytes bs ->
  fst (jlsn_decode true (fuel_of bs) bs) <> Panic.
Proof. exact jlsn_decode_no_panic. Qed.
Print Assumptions C08_jls_near_no_panic_with_precision_check.

Theorem C08_jls_near_panics_as_is : exists bs, bytes bs /\ fst (jlsn_decode false (fuel_of bs) bs) = Panic.
Proof. exact jlsn_decode_panics_refuted. Qed.
Print Assumptions C08_jls_near_panics_as_is.

(* the check only turns results into errors *)
Theorem C08_jls_precision_check_conservative : forall st bs,
  jlsl_parse_sof55 true st bs = jlsl_parse_sof55 false st bs \/ fst (jlsl_parse_sof55 true st bs) = Err.
Proof. exact jls_sof55_check_conservative. Qed.
Print Assumptions C08_jls_precision_check_conservative.

(* the parameter derivation is total for every non-negative MAXVAL *)
Theorem C08_jls_coding_parameters_total : forall maxVal near reset, 0 <= maxVal ->
  exists p, jls_coding_params maxVal near reset = Ok p.
Proof. exact coding_params_ok. Qed.
Print Assumptions C08_jls_coding_parameters_total.

(* ---- Huffman table construction (jpeg/standard HuffmanTable.Build) ---- *)
Theorem C08_huffman_build_no_panic_with_table_check : forall bits l p nv,
  bytes bits -> huff_ok bits l p = true -> p + zsum bits <= nv -> huff_build bits l p nv <> Panic.
Proof. exact huff_ok_build. Qed.
Print Assumptions C08_huffman_build_no_panic_with_table_check.

Theorem C08_huffman_build_panics_as_is : huff_build [3;0;0;0;0;0;0;0;0;0;0;0;0;0;0;0] 0 0 3 = Panic.
Proof. exact huff_build_panics. Qed.
Print Assumptions C08_huffman_build_panics_as_is.

(* ---- JPEG lossless (jpeg/lossless) and SV1 (jpeg/lossless14sv1) ---- *)
Theorem C08_jpeg_lossless_no_panic_with_table_check : forall bs, bytes bs ->
  fst (jll_decode true (fuel_of bs) bs) <> Panic.
Proof. exact jll_decode_no_panic. Qed.
Print Assumptions C08_jpeg_lossless_no_panic_with_table_check.

Theorem C08_jpeg_lossless_panics_as_is : exists bs, bytes bs /\ fst (jll_decode false (fuel_of bs) bs) = Panic.
Proof. exact jll_decode_panics_refuted. Qed.
Print Assumptions C08_jpeg_lossless_panics_as_is.

Theorem C08_jpeg_sv1_no_panic_with_table_check : forall bs, bytes bs ->
  fst (sv1_decode true (fuel_of bs) bs) <> Panic.
Proof. exact sv1_decode_no_panic. Qed.
Print Assumptions C08_jpeg_sv1_no_panic_with_table_check.

Theorem C08_jpeg_sv1_panics_as_is : exists bs, bytes bs /\ fst (sv1_decode false (fuel_of bs) bs) = Panic.
Proof. exact sv1_decode_panics_refuted. Qed.
Print Assumptions C08_jpeg_sv1_panics_as_is.

Theorem C08_dht_table_check_conservative : forall fuel data dc ac,
  dht_tables true fuel data dc ac = dht_tables false fuel data dc ac \/ fst (dht_tables true fuel data dc ac) = Err.
Proof. exact dht_check_conservative. Qed.
Print Assumptions C08_dht_table_check_conservative.

(* ---- JPEG baseline (jpeg/baseline): header path up to the first table lookup of the scan ---- *)
Theorem C08_jpeg_baseline_no_panic_with_selector_checks : forall bs, bytes bs ->
  fst (bl_decode true (fuel_of bs) bs) <> Panic.
Proof. exact bl_decode_no_panic. Qed.
Print Assumptions C08_jpeg_baseline_no_panic_with_selector_checks.

Theorem C08_jpeg_baseline_panics_as_is_scan_without_frame :
  bytes bl_nosof_witness /\ fst (bl_decode false (fuel_of bl_nosof_witness) bl_nosof_witness) = Panic.
Proof. exact bl_decode_panics_refuted_no_frame. Qed.
Print Assumptions C08_jpeg_baseline_panics_as_is_scan_without_frame.

Theorem C08_jpeg_baseline_panics_as_is_table_selector :
  bytes bl_td_witness /\ fst (bl_decode false (fuel_of bl_td_witness) bl_td_witness) = Panic.
Proof. exact bl_decode_panics_refuted_selector. Qed.
Print Assumptions C08_jpeg_baseline_panics_as_is_table_selector.

(* ---- JPEG 2000 codestream main header (jpeg2000/codestream/parser.go) ---- *)
Theorem C08_j2k_main_header_no_panic_with_length_checks : forall d, bytes d ->
  fst (k_main_header true (fuel_of d) d) <> Panic.
Proof. exact k_main_header_no_panic. Qed.
Print Assumptions C08_j2k_main_header_no_panic_with_length_checks.

Theorem C08_j2k_tile_part_no_panic_with_length_checks : forall cs d o, bytes d -> 0 <= o ->
  fst (k_parse_tile true (fuel_of d) cs d o) <> Panic.
Proof. exact k_parse_tile_no_panic. Qed.
Print Assumptions C08_j2k_tile_part_no_panic_with_length_checks.

Theorem C08_j2k_parse_qcd_panics_as_is : exists d, bytes d /\ fst (k_main_header false (fuel_of d) d) = Panic.
Proof. exact k_parse_qcd_panics_refuted. Qed.
Print Assumptions C08_j2k_parse_qcd_panics_as_is.

Theorem C08_j2k_tile_assembler_panics_as_is : fst (k_assembler siz_max) = Panic.
Proof. exact k_assembler_panics_refuted. Qed.
Print Assumptions C08_j2k_tile_assembler_panics_as_is.

(* ---- non-vacuity: concrete byte strings satisfy the hypotheses and reach the scan ---- *)
Example C08_nonvacuous_jls :
  bytes [255;216;255;247;0;11;8;0;1;0;1;1;1;17;0;255;218;0;8;1;1;0;0;0;0] /\
  fst (jlsl_decode true 40 [255;216;255;247;0;11;8;0;1;0;1;1;1;17;0;255;218;0;8;1;1;0;0;0;0]) = Ok (1, 1, 1, 8, 0).
Proof. split; [unfold bytes; repeat constructor; lia|vm_compute; reflexivity]. Qed.

Example C08_nonvacuous_jpeg_lossless :
  bytes [255;216;255;195;0;11;8;0;1;0;1;1;1;17;0;255;196;0;20;0;0;1;0;0;0;0;0;0;0;0;0;0;0;0;0;0;0;255;218;0;8;1;1;0;1;0;0] /\
  fst (jll_decode true 60 [255;216;255;195;0;11;8;0;1;0;1;1;1;17;0;255;196;0;20;0;0;1;0;0;0;0;0;0;0;0;0;0;0;0;0;0;0;255;218;0;8;1;1;0;1;0;0]) = Ok (1, 1, 1, 8) /\
  huff_ok [0;1;0;0;0;0;0;0;0;0;0;0;0;0;0;0] 0 0 = true.
Proof. split; [unfold bytes; repeat constructor; lia|]. split; vm_compute; reflexivity. Qed.

Example C08_nonvacuous_j2k :
  bytes ([255; 79] ++ k_siz_1x1 ++ [255;82;0;12;0;0;0;1;0;0;4;4;0;1; 255;92;0;4;64;64; 255;144]) /\
  exists s o, fst (k_main_header true 80 ([255; 79] ++ k_siz_1x1 ++ [255;82;0;12;0;0;0;1;0;0;4;4;0;1; 255;92;0;4;64;64; 255;144])) = Ok (s, o) /\ s_x s = 1 /\ s_c s = 1.
Proof.
  split; [unfold bytes, k_siz_1x1; cbn [app]; repeat constructor; lia|].
  eexists; eexists. vm_compute. split; [reflexivity|split; reflexivity].
Qed.

Example C08_nonvacuous_j2k_tile :
  bytes [255;144;0;10;0;0;0;0;0;0;0;1;255;147;1;2;3;255;217] /\
  fst (k_parse_tile true 30 1 [255;144;0;10;0;0;0;0;0;0;0;1;255;147;1;2;3;255;217] 0) = Ok (0, 17).
Proof. split; [unfold bytes; repeat constructor; lia|vm_compute; reflexivity]. Qed.

Example C08_nonvacuous_jpeg_baseline :
  bytes bl_td_witness /\ exists r, fst (bl_decode true (fuel_of bl_td_witness) bl_td_witness) = r /\ r = Err.
Proof. split; [unfold bytes, bl_td_witness; repeat constructor; lia|]. eexists. split; [reflexivity|vm_compute; reflexivity]. Qed.
