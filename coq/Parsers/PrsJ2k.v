(* EXTRACT *)
(* JPEG 2000 codestream parser, jpeg2000/codestream/parser.go: SOC and the main header.
     k_rd8/16/32/n     = Parser.readUint8 / readUint16 / readUint32 / read
     k_skip_segment    = Parser.skipSegment (length 0/1 moves the offset BACK by 2/1)
     k_parse_siz ...   = parseSIZ, parseCOD (+ parseCodingStyleParams), parseCOC, parseQCD, parseQCC,
                         parsePOC, parseRGN, parseCOM, parseMCT, parseMCC, parseMCO
     k_main_loop       = consumeMainHeader with the mainXXX handlers (order and duplicate rules)
     k_main_header     = Parse up to the end of parseMainHeader (SOC check, required segments)
     k_assembler       = jpeg2000/tile_assembler.go NewTileLayout + NewTileAssembler: the image
                         buffers requested from the SIZ fields (reached when at least one tile parsed)
   The parser state is the offset into the data (Go int); it can run past len(data) after
   parseCOD/parseCOC (`p.offset += expected - consumed`), every later read then fails with EOF.
   The model is the fixed code: b1d8a5c (F38: parseQCD / parseCOM reject a negative payload length,
   before: make([]byte, -1) panicked), 09d3ca7 (F39/F40: parseSIZ validates the geometry, before:
   XTsiz = 0 divided by zero and 2^32-1 extents overflowed make), aa24b1a (F41: code-block
   exponents and level count validated). *)
From V Require Import Common.Base Parsers.PrsOutcome.

Definition k_rd8 (d : list Z) (o : Z) : M (Z * Z) :=
  if zlen d <? o + 1 then err else ret (znth d o 0, o + 1).
Definition k_rd16 (d : list Z) (o : Z) : M (Z * Z) :=
  if zlen d <? o + 2 then err else ret (znth d o 0 * 256 + znth d (o + 1) 0, o + 2).
Definition k_rd32 (d : list Z) (o : Z) : M (Z * Z) :=
  if zlen d <? o + 4 then err
  else ret (((znth d o 0 * 256 + znth d (o + 1) 0) * 256 + znth d (o + 2) 0) * 256 + znth d (o + 3) 0, o + 4).
(* make([]byte, n) followed by p.read(buf) *)
Definition k_read_buf (d : list Z) (o n : Z) : M Z :=
  _ <- alloc n 1 ;;
  if zlen d <? o + n then err else ret (o + n).
(* bytes o .. o+n-1 (for the COC/QCC equality tests) *)
Definition k_slice (d : list Z) (o n : Z) : list Z := firstn (Z.to_nat n) (skipn (Z.to_nat o) d).

Definition k_skip_segment (d : list Z) (o : Z) : M Z :=
  x <- k_rd16 d o ;;
  let skip := fst x - 2 in
  if zlen d <? snd x + skip then err else ret (snd x + skip).

Record ksiz := mkSiz { s_x : Z; s_y : Z; s_xo : Z; s_yo : Z; s_xt : Z; s_yt : Z; s_xto : Z; s_yto : Z; s_c : Z }.

(* Csiz component triples: readUint8 x 3 each *)
Fixpoint k_siz_comps (d : list Z) (k : nat) (o : Z) : M Z :=
  match k with
  | O => ret o
  | S k' =>
    a <- k_rd8 d o ;; b <- k_rd8 d (snd a) ;; c <- k_rd8 d (snd b) ;;
    if (fst b =? 0) || (fst c =? 0) then err else k_siz_comps d k' (snd c)
  end.

Definition k_parse_siz (d : list Z) (o : Z) : M (ksiz * Z) :=
  len <- k_rd16 d o ;;
  rs <- k_rd16 d (snd len) ;;
  x <- k_rd32 d (snd rs) ;; y <- k_rd32 d (snd x) ;;
  xo <- k_rd32 d (snd y) ;; yo <- k_rd32 d (snd xo) ;;
  xt <- k_rd32 d (snd yo) ;; yt <- k_rd32 d (snd xt) ;;
  xto <- k_rd32 d (snd yt) ;; yto <- k_rd32 d (snd xto) ;;
  cs <- k_rd16 d (snd yto) ;;
  if (fst x =? 0) || (fst y =? 0) || (fst x <=? fst xo) || (fst y <=? fst yo) then err else
  if (fst xt =? 0) || (fst yt =? 0) then err else
  if (fst xo <? fst xto) || (fst yo <? fst yto) || (fst xto + fst xt <=? fst xo) || (fst yto + fst yt <=? fst yo) then err else
  if (fst cs =? 0) || (16384 <? fst cs) then err else
  if 2 ^ 31 <? (fst x - fst xo) * (fst y - fst yo) then err else
  _ <- alloc (fst cs) 3 ;;
  o2 <- k_siz_comps d (Z.to_nat (fst cs)) (snd cs) ;;
  if negb (fst len =? 38 + 3 * fst cs) then err
  else ret (mkSiz (fst x) (fst y) (fst xo) (fst yo) (fst xt) (fst yt) (fst xto) (fst yto) (fst cs), o2).

Definition comp_bytes (csiz : Z) : Z := if 256 <? csiz then 2 else 1.
Definition k_rd_comp (csiz : Z) (d : list Z) (o : Z) : M (Z * Z) :=
  if comp_bytes csiz =? 2 then k_rd16 d o else k_rd8 d o.

Fixpoint k_rd_bytes (d : list Z) (k : nat) (o : Z) : M Z :=
  match k with O => ret o | S k' => a <- k_rd8 d o ;; k_rd_bytes d k' (snd a) end.

(* parseCodingStyleParams: 5 bytes, then numLevels+1 precinct bytes when scod&1 *)
Definition k_coding_style (d : list Z) (scod o : Z) : M Z :=
  nl <- k_rd8 d o ;; a <- k_rd8 d (snd nl) ;; b <- k_rd8 d (snd a) ;; c <- k_rd8 d (snd b) ;; t <- k_rd8 d (snd c) ;;
  if (8 <? fst a) || (8 <? fst b) || (8 <? fst a + fst b) then err else
  if 32 <? fst nl then err else
  if Z.odd scod then
    _ <- alloc (fst nl + 1) 2 ;;
    k_rd_bytes d (Z.to_nat (fst nl + 1)) (snd t)
  else ret (snd t).

Definition k_len_fix (len start o : Z) : M Z :=
  let consumed := o - start in
  let expected := len - 2 in
  if expected <? consumed then err else ret (o + (expected - consumed)).

Definition k_parse_cod (d : list Z) (o : Z) : M Z :=
  len <- k_rd16 d o ;;
  let start := snd len in
  sc <- k_rd8 d start ;; pr <- k_rd8 d (snd sc) ;; ly <- k_rd16 d (snd pr) ;; mc <- k_rd8 d (snd ly) ;;
  o2 <- k_coding_style d (fst sc) (snd mc) ;;
  k_len_fix (fst len) start o2.

(* parseCOC returns (component, bytes of the parsed segment body for cocEqual, new offset) *)
Definition k_parse_coc (csiz : Z) (d : list Z) (o : Z) : M (Z * list Z * Z) :=
  len <- k_rd16 d o ;;
  let start := snd len in
  cp <- k_rd_comp csiz d start ;;
  sc <- k_rd8 d (snd cp) ;;
  o2 <- k_coding_style d (fst sc) (snd sc) ;;
  o3 <- k_len_fix (fst len) start o2 ;;
  ret (fst cp, k_slice d start (o2 - start), o3).

Definition k_parse_qcd (d : list Z) (o : Z) : M Z :=
  len <- k_rd16 d o ;;
  sq <- k_rd8 d (snd len) ;;
  if fst len <? 3 then err else
  k_read_buf d (snd sq) (fst len - 3).

Definition k_parse_qcc (csiz : Z) (d : list Z) (o : Z) : M (Z * list Z * Z) :=
  len <- k_rd16 d o ;;
  let start := snd len in
  cp <- k_rd_comp csiz d start ;;
  sq <- k_rd8 d (snd cp) ;;
  let dl := fst len - 3 - comp_bytes csiz in
  if dl <? 0 then err else
  o2 <- k_read_buf d (snd sq) dl ;;
  o3 <- k_len_fix (fst len) start o2 ;;
  ret (fst cp, k_slice d start (o2 - start), o3).

Fixpoint k_poc_entries (csiz : Z) (d : list Z) (k : nat) (o : Z) : M Z :=
  match k with
  | O => ret o
  | S k' =>
    a <- k_rd8 d o ;; b <- k_rd_comp csiz d (snd a) ;; c <- k_rd16 d (snd b) ;; e <- k_rd8 d (snd c) ;;
    f <- k_rd_comp csiz d (snd e) ;; h <- k_rd8 d (snd f) ;; k_poc_entries csiz d k' (snd h)
  end.
Definition k_parse_poc (csiz : Z) (d : list Z) (o : Z) : M Z :=
  len <- k_rd16 d o ;;
  let remaining := fst len - 2 in
  let el := 5 + 2 * comp_bytes csiz in
  if (remaining <? el) || negb (Z.rem remaining el =? 0) then err else
  _ <- alloc (Z.quot remaining el) 8 ;;
  k_poc_entries csiz d (Z.to_nat (Z.quot remaining el)) (snd len).

Definition k_parse_rgn (csiz : Z) (d : list Z) (o : Z) : M Z :=
  len <- k_rd16 d o ;;
  let minlen := 4 + comp_bytes csiz in
  if fst len <? minlen then err else
  a <- k_rd_comp csiz d (snd len) ;; b <- k_rd8 d (snd a) ;; c <- k_rd8 d (snd b) ;;
  let remain := fst len - minlen in
  if 0 <? remain then k_read_buf d (snd c) remain else ret (snd c).

Definition k_parse_com (d : list Z) (o : Z) : M Z :=
  len <- k_rd16 d o ;;
  rc <- k_rd16 d (snd len) ;;
  if fst len <? 4 then err else
  k_read_buf d (snd rc) (fst len - 4).

Definition k_parse_mct (d : list Z) (o : Z) : M Z :=
  len <- k_rd16 d o ;;
  let pl := fst len - 2 in
  if pl <? 6 then err else
  z <- k_rd16 d (snd len) ;;
  if negb (fst z =? 0) then err else
  im <- k_rd16 d (snd z) ;;
  ym <- k_rd16 d (snd im) ;;
  if negb (fst ym =? 0) then err else
  k_read_buf d (snd ym) (pl - 6).

Fixpoint k_rd_ids (two : bool) (d : list Z) (k : nat) (o : Z) : M Z :=
  match k with
  | O => ret o
  | S k' => a <- (if two then k_rd16 d o else k_rd8 d o) ;; k_rd_ids two d k' (snd a)
  end.
Definition k_parse_mcc (d : list Z) (o : Z) : M Z :=
  len <- k_rd16 d o ;;
  let pl := fst len - 2 in
  if pl <? 7 then err else
  z <- k_rd16 d (snd len) ;;
  if negb (fst z =? 0) then err else
  ix <- k_rd8 d (snd z) ;;
  ym <- k_rd16 d (snd ix) ;;
  if negb (fst ym =? 0) then err else
  qm <- k_rd16 d (snd ym) ;;
  if fst qm =? 0 then err else
  ct <- k_rd8 d (snd qm) ;;
  nm <- k_rd16 d (snd ct) ;;
  let two1 := 32768 <=? fst nm in
  let n1 := fst nm mod 32768 in
  _ <- alloc n1 2 ;;
  o1 <- k_rd_ids two1 d (Z.to_nat n1) (snd nm) ;;
  mm <- k_rd16 d o1 ;;
  let two2 := 32768 <=? fst mm in
  let n2 := fst mm mod 32768 in
  _ <- alloc n2 2 ;;
  o2 <- k_rd_ids two2 d (Z.to_nat n2) (snd mm) ;;
  t0 <- k_rd8 d o2 ;; t1 <- k_rd8 d (snd t0) ;; t2 <- k_rd8 d (snd t1) ;;
  let consumed := 2 + 1 + 2 + 2 + 1 + 2 + (if two1 then 2 else 1) * n1 + 2 + (if two2 then 2 else 1) * n2 + 3 in
  let remain := pl - consumed in
  if 0 <? remain then k_read_buf d (snd t2) remain else ret (snd t2).

Definition k_parse_mco (d : list Z) (o : Z) : M Z :=
  len <- k_rd16 d o ;;
  let pl := fst len - 2 in
  if pl <? 1 then err else
  ns <- k_rd8 d (snd len) ;;
  _ <- alloc (fst ns) 1 ;;
  o1 <- k_rd_bytes d (Z.to_nat (fst ns)) (snd ns) ;;
  let remain := pl - (1 + fst ns) in
  if 0 <? remain then k_read_buf d o1 remain else ret o1.

Record kst := mkK { k_siz : option ksiz; k_cod : bool; k_qcd : bool; k_coc : list (Z * list Z); k_qcc : list (Z * list Z) }.
Definition kst0 : kst := mkK None false false [] [].

Fixpoint assoc (l : list (Z * list Z)) (c : Z) : option (list Z) :=
  match l with [] => None | (c', v) :: r => if c' =? c then Some v else assoc r c end.
Fixpoint zlist_eqb (a b : list Z) : bool :=
  match a, b with
  | [], [] => true
  | x :: a', y :: b' => (x =? y) && zlist_eqb a' b'
  | _, _ => false
  end.
(* map update: replace or add *)
Fixpoint upd (l : list (Z * list Z)) (c : Z) (v : list Z) : list (Z * list Z) :=
  match l with
  | [] => [(c, v)]
  | (c', v') :: r => if c' =? c then (c, v) :: r else (c', v') :: upd r c v
  end.

Definition csiz_of (st : kst) : Z := match k_siz st with Some s => s_c s | None => 0 end.

(* one marker segment of the main header; m = second marker byte (first is 0xFF, checked by the caller) *)
Definition k_main_segment (st : kst) (m : Z) (d : list Z) (o : Z) : M (kst * Z) :=
  let seen := match k_siz st with Some _ => true | None => false end in
  if m =? 81 then (* SIZ *)
    if seen then err else
    x <- k_parse_siz d o ;;
    ret (mkK (Some (fst x)) (k_cod st) (k_qcd st) (k_coc st) (k_qcc st), snd x)
  else if m =? 82 then (* COD *)
    if negb seen then err else if k_cod st then err else
    o2 <- k_parse_cod d o ;; ret (mkK (k_siz st) true (k_qcd st) (k_coc st) (k_qcc st), o2)
  else if m =? 83 then (* COC *)
    if negb seen then err else if negb (k_cod st) then err else
    x <- k_parse_coc (csiz_of st) d o ;;
    let '(c, body, o2) := x in
    match assoc (k_coc st) c with
    | Some old => if negb (zlist_eqb old body) then err else ret (mkK (k_siz st) (k_cod st) (k_qcd st) (upd (k_coc st) c body) (k_qcc st), o2)
    | None => ret (mkK (k_siz st) (k_cod st) (k_qcd st) (upd (k_coc st) c body) (k_qcc st), o2)
    end
  else if m =? 92 then (* QCD *)
    if negb seen then err else if k_qcd st then err else
    o2 <- k_parse_qcd d o ;; ret (mkK (k_siz st) (k_cod st) true (k_coc st) (k_qcc st), o2)
  else if m =? 93 then (* QCC *)
    if negb seen then err else if negb (k_qcd st) then err else
    x <- k_parse_qcc (csiz_of st) d o ;;
    let '(c, body, o2) := x in
    match assoc (k_qcc st) c with
    | Some old => if negb (zlist_eqb old body) then err else ret (mkK (k_siz st) (k_cod st) (k_qcd st) (k_coc st) (upd (k_qcc st) c body), o2)
    | None => ret (mkK (k_siz st) (k_cod st) (k_qcd st) (k_coc st) (upd (k_qcc st) c body), o2)
    end
  else if m =? 95 then (* POC *)
    if negb seen then err else if negb (k_cod st) then err else
    o2 <- k_parse_poc (csiz_of st) d o ;; ret (st, o2)
  else if m =? 94 then (* RGN *)
    if negb seen then err else o2 <- k_parse_rgn (csiz_of st) d o ;; ret (st, o2)
  else if m =? 100 then (* COM *)
    if negb seen then err else o2 <- k_parse_com d o ;; ret (st, o2)
  else if m =? 116 then (* MCT *)
    if negb seen then err else o2 <- k_parse_mct d o ;; ret (st, o2)
  else if m =? 117 then (* MCC *)
    if negb seen then err else o2 <- k_parse_mcc d o ;; ret (st, o2)
  else if m =? 119 then (* MCO *)
    if negb seen then err else o2 <- k_parse_mco d o ;; ret (st, o2)
  else
    if negb seen then err else o2 <- k_skip_segment d o ;; ret (st, o2).

(* consumeMainHeader: peekMarker; SOT (0xFF90) or EOC (0xFFD9) ends the main header *)
Fixpoint k_main_loop (fuel : nat) (st : kst) (d : list Z) (o : Z) : M (kst * Z) :=
  match fuel with
  | O => oof
  | S k =>
    mk <- k_rd16 d o ;;
    let marker := fst mk in
    if (marker =? 65424) || (marker =? 65497) then ret (st, o)
    else
      (* handlers are keyed by the full 16-bit marker: 0xFF51.. ; anything else is skipped *)
      let m := if marker / 256 =? 255 then marker mod 256 else 0 in
      x <- k_main_segment st m d (snd mk) ;;
      k_main_loop k (fst x) d (snd x)
  end.

Definition k_main_header (fuel : nat) (d : list Z) : M (ksiz * Z) :=
  soc <- k_rd16 d 0 ;;
  if negb (fst soc =? 65359) then err else
  x <- k_main_loop fuel kst0 d (snd soc) ;;
  match k_siz (fst x) with
  | Some s => if negb (k_cod (fst x)) then err else if negb (k_qcd (fst x)) then err else ret (s, snd x)
  | None => err
  end.

(* NewTileLayout / NewTileAssembler: numPixels = (int(Xsiz)-int(XOsiz)) * (int(Ysiz)-int(YOsiz)),
   make([][]int32, Csiz), Csiz times make([]int32, numPixels) *)
Fixpoint k_comp_allocs (k : nat) (n : Z) : M unit :=
  match k with O => ret tt | S k' => _ <- alloc n 4 ;; k_comp_allocs k' n end.
Definition k_assembler (s : ksiz) : M unit :=
  let n := i64 ((s_x s - s_xo s) * (s_y s - s_yo s)) in
  _ <- alloc (s_c s) 24 ;;
  k_comp_allocs (Z.to_nat (s_c s)) n.

(* ---------------- tile-parts: parseSOT, parseTileHeader, readTileData(WithLength), parseTile ---------------- *)

Definition k_parse_sot (d : list Z) (o : Z) : M (Z * Z * Z) :=   (* (Isot, Psot, new offset) *)
  len <- k_rd16 d o ;;
  if negb (fst len =? 10) then err else
  isot <- k_rd16 d (snd len) ;;
  psot <- k_rd32 d (snd isot) ;;
  tp <- k_rd8 d (snd psot) ;;
  tn <- k_rd8 d (snd tp) ;;
  ret (fst isot, fst psot, snd tn).

(* readTileData: advance to the next 0xFF xx with xx >= 0x4F (and xx <> 0), or to the end of the
   data; then the slice expression p.data[start:p.offset] (bounds: start <= offset <= len) *)
Fixpoint k_scan_marker (fuel : nat) (d : list Z) (o : Z) : Z :=
  match fuel with
  | O => o
  | S k =>
    if zlen d <=? o then o
    else if (znth d o 0 =? 255) && (o + 1 <? zlen d) && negb (znth d (o + 1) 0 =? 0) && (79 <=? znth d (o + 1) 0) then o
    else k_scan_marker k d (o + 1)
  end.
Definition k_read_tile_data (d : list Z) (o : Z) : M Z :=
  let e := k_scan_marker (S (length d)) d o in
  if (o <? 0) || (e <? o) || (zlen d <? e) then pan else ret e.

Definition k_read_tile_data_len (d : list Z) (tile_start psot o : Z) : M Z :=
  if psot =? 0 then k_read_tile_data d o
  else
    let consumed := o - tile_start in
    if psot <? consumed then k_read_tile_data d o
    else
      let remaining := psot - consumed in
      if zlen d <? o + remaining then k_read_tile_data d o
      else if (o <? 0) || (o + remaining <? o) then pan else ret (o + remaining).

Record ktile := mkT { t_coc : list (Z * list Z); t_qcc : list (Z * list Z) }.

Definition k_tile_segment (csiz : Z) (ts : ktile) (m : Z) (d : list Z) (o : Z) : M (ktile * Z) :=
  if m =? 82 then o2 <- k_parse_cod d o ;; ret (ts, o2)
  else if m =? 83 then
    x <- k_parse_coc csiz d o ;;
    let '(c, body, o2) := x in
    match assoc (t_coc ts) c with
    | Some old => if negb (zlist_eqb old body) then err else ret (mkT (upd (t_coc ts) c body) (t_qcc ts), o2)
    | None => ret (mkT (upd (t_coc ts) c body) (t_qcc ts), o2)
    end
  else if m =? 92 then o2 <- k_parse_qcd d o ;; ret (ts, o2)
  else if m =? 93 then
    x <- k_parse_qcc csiz d o ;;
    let '(c, body, o2) := x in
    match assoc (t_qcc ts) c with
    | Some old => if negb (zlist_eqb old body) then err else ret (mkT (t_coc ts) (upd (t_qcc ts) c body), o2)
    | None => ret (mkT (t_coc ts) (upd (t_qcc ts) c body), o2)
    end
  else if m =? 95 then o2 <- k_parse_poc csiz d o ;; ret (ts, o2)
  else if m =? 94 then o2 <- k_parse_rgn csiz d o ;; ret (ts, o2)
  else if m =? 116 then o2 <- k_parse_mct d o ;; ret (ts, o2)
  else if m =? 117 then o2 <- k_parse_mcc d o ;; ret (ts, o2)
  else if m =? 119 then o2 <- k_parse_mco d o ;; ret (ts, o2)
  else o2 <- k_skip_segment d o ;; ret (ts, o2).

(* parseTileHeader: until SOD (0xFF93) *)
Fixpoint k_tile_loop (fuel : nat) (csiz : Z) (ts : ktile) (d : list Z) (o : Z) : M Z :=
  match fuel with
  | O => oof
  | S k =>
    mk <- k_rd16 d o ;;
    if fst mk =? 65427 then ret (snd mk)
    else
      let m := if fst mk / 256 =? 255 then fst mk mod 256 else 0 in
      x <- k_tile_segment csiz ts m d (snd mk) ;;
      k_tile_loop k csiz (fst x) d (snd x)
  end.

(* parseTile: returns (Isot, offset after the tile-part data) *)
Definition k_parse_tile (fuel : nat) (csiz : Z) (d : list Z) (o : Z) : M (Z * Z) :=
  mk <- k_rd16 d o ;;
  if negb (fst mk =? 65424) then err else
  sot <- k_parse_sot d (snd mk) ;;
  let '(isot, psot, o1) := sot in
  o2 <- k_tile_loop fuel csiz (mkT [] []) d o1 ;;
  o3 <- k_read_tile_data_len d o psot o2 ;;
  ret (isot, o3).
