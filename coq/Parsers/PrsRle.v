(* EXTRACT *)
(* DICOM RLE, rle/rle.go Codec.decodeFrame (after fix 36b998d, finding F45) up to and including the
   output allocation, for an ARBITRARY frame description (all FrameInfo fields are uint16):
   empty source -> error; Width/Height 0 -> error; BitsAllocated 0 -> error; newRLEDecoder
   (64-byte header, 1..15 segments, offsets within the data) -> error; segment count of the stream
   <> bytesAllocated*SamplesPerPixel -> error; only then make([]byte, frameSize).
   Before the fix the allocation came first: BitsAllocated = 0 wrapped to 8192 bytes per sample and
   65535 x 65535 x 65535 panicked in makeslice (smaller values aborted with out of memory).
   The segment decoding that follows is modelled in coq/RLE (RleModel.dec_segs). *)
From V Require Import Common.Base Parsers.PrsOutcome.

Definition le32 (d : list Z) (o : Z) : Z :=
  znth d o 0 + 256 * znth d (o + 1) 0 + 65536 * znth d (o + 2) 0 + 16777216 * znth d (o + 3) 0.

Fixpoint rle_offsets_ok (d : list Z) (k : nat) (i : Z) : bool :=
  match k with
  | O => true
  | S k' => if zlen d <? le32 d (4 + 4 * i) then false else rle_offsets_ok d k' (i + 1)
  end.

Definition rle_bytes_allocated (ba : Z) : Z := wrapU 16 (wrapU 16 (ba - 1) / 8 + 1).

Definition rle_frame_prefix (w h ba spp : Z) (data : list Z) : M unit :=
  if zlen data =? 0 then err else
  if (w =? 0) || (h =? 0) then err else
  if ba =? 0 then err else
  let b := rle_bytes_allocated ba in
  let nseg := b * spp in
  if zlen data <? 64 then err else
  let n := le32 data 0 in
  if (n <? 1) || (15 <? n) then err else
  if negb (rle_offsets_ok data (Z.to_nat n) 0) then err else
  if negb (n =? nseg) then err else
  let fs := b * spp * w * h in
  alloc (if Z.odd fs then fs + 1 else fs) 1.
