(* Proofs about the abstract machine of CtrConcurrency.v (C18). *)
From V Require Import Common.Base Contract.CtrConcurrency.

Definition all_reads (tr : list access) : Prop := Forall (fun a => a_kind a = ARead) tr.

Lemma conflict_reads : forall a b, a_kind a = ARead -> a_kind b = ARead -> conflict a b = false.
Proof.
  intros a b Ha Hb. unfold conflict. rewrite Ha, Hb. cbn [is_write orb].
  rewrite Bool.andb_false_r. reflexivity.
Qed.

Lemma all_reads_race_free : forall tr, all_reads tr -> race_free tr = true.
Proof.
  induction tr as [|a r IH]; intros H; [reflexivity|].
  inversion H as [|x l Ha Hr]; subst. cbn [race_free].
  rewrite IH by assumption. rewrite Bool.andb_true_r.
  apply forallb_forall. intros b Hb.
  unfold all_reads in Hr. rewrite Forall_forall in Hr.
  rewrite conflict_reads; auto.
Qed.

(* one instruction of a thread without IStore: shared store untouched, still no IStore,
   only read accesses *)
Lemma exec_instr_no_store : forall i sh t,
  no_shared_write t = true ->
  let '(sh', t', acc) := exec_instr i sh t in
  sh' = sh /\ no_shared_write t' = true /\ all_reads acc.
Proof.
  intros i sh [pr pv] H. unfold no_shared_write in *. cbn [prog] in H.
  unfold exec_instr. cbn [prog priv].
  destruct pr as [|x rest].
  - repeat split; auto. constructor.
  - cbn [existsb] in H. destruct x as [p s|p f|s p]; cbn [is_store orb] in H.
    + repeat split; auto. repeat constructor.
    + repeat split; auto. constructor.
    + discriminate H.
Qed.

Lemma nth_error_set_nth_eq : forall A (l : list A) i x y,
  nth_error l i = Some y -> nth_error (set_nth l i x) i = Some x.
Proof.
  induction l as [|a l IH]; intros [|i] x y H; cbn in *; try discriminate; auto.
  eapply IH; eauto.
Qed.

Lemma nth_error_set_nth_neq : forall A (l : list A) i j x,
  i <> j -> nth_error (set_nth l i x) j = nth_error l j.
Proof.
  induction l as [|a l IH]; intros [|i] [|j] x H; cbn in *; auto; try congruence.
Qed.

Lemma length_set_nth : forall A (l : list A) i x, length (set_nth l i x) = length l.
Proof. induction l as [|a l IH]; intros [|i] x; cbn; auto. Qed.

Lemma forallb_set_nth : forall A (f : A -> bool) (l : list A) i x,
  forallb f l = true -> f x = true -> forallb f (set_nth l i x) = true.
Proof.
  induction l as [|a l IH]; intros [|i] x Hl Hx; cbn in *; auto.
  - apply andb_prop in Hl. destruct Hl as [_ Hl]. rewrite Hx, Hl. reflexivity.
  - apply andb_prop in Hl. destruct Hl as [Ha Hl]. rewrite Ha. cbn. apply IH; auto.
Qed.

Lemma forallb_nth_error : forall A (f : A -> bool) (l : list A) i x,
  forallb f l = true -> nth_error l i = Some x -> f x = true.
Proof.
  intros A f l i x Hl Hn. rewrite forallb_forall in Hl. apply Hl.
  eapply nth_error_In; eauto.
Qed.

(* The invariant of a run from an arbitrary trace prefix. *)
Lemma run_invariant : forall sch sh ts tr0,
  forallb no_shared_write ts = true ->
  let '(sh', ts', tr) := fold_left sched_step sch (sh, ts, tr0) in
  sh' = sh /\
  length ts' = length ts /\
  (forall i t, nth_error ts i = Some t ->
     nth_error ts' i = Some (run_alone (count_tid i sch) i sh t)) /\
  exists tr1, tr = tr0 ++ tr1 /\ all_reads tr1.
Proof.
  induction sch as [|j sch IH]; intros sh ts tr0 Hns.
  - cbn [fold_left]. repeat split; auto.
    exists []. rewrite app_nil_r. split; [reflexivity|constructor].
  - cbn [fold_left]. unfold sched_step at 2.
    destruct (nth_error ts j) as [tj|] eqn:Hj.
    + pose proof (exec_instr_no_store j sh tj (forallb_nth_error _ _ _ _ _ Hns Hj)) as Hex.
      destruct (exec_instr j sh tj) as [[sh1 tj1] acc] eqn:Hexec.
      destruct Hex as [Hsh [Hns1 Hacc]]. subst sh1.
      specialize (IH sh (set_nth ts j tj1) (tr0 ++ acc)
                     (forallb_set_nth _ _ _ _ _ Hns Hns1)).
      destruct (fold_left sched_step sch (sh, set_nth ts j tj1, tr0 ++ acc)) as [[sh' ts'] tr].
      destruct IH as [Hsh' [Hlen [Hth [tr1 [Htr Hr1]]]]].
      split; [assumption|]. split; [rewrite Hlen; apply length_set_nth|]. split.
      * intros i t Hi. cbn [count_tid].
        destruct (Nat.eqb_spec i j) as [->|Hne].
        -- rewrite Hj in Hi. inversion Hi; subst t.
           rewrite (Hth j tj1 (nth_error_set_nth_eq _ _ _ _ _ Hj)).
           cbn [Nat.add run_alone]. rewrite Hexec. reflexivity.
        -- apply Hth. rewrite nth_error_set_nth_neq by congruence. assumption.
      * exists (acc ++ tr1). split.
        -- rewrite Htr. rewrite app_assoc. reflexivity.
        -- unfold all_reads in *. apply Forall_app. split; assumption.
    + specialize (IH sh ts tr0 Hns).
      destruct (fold_left sched_step sch (sh, ts, tr0)) as [[sh' ts'] tr].
      destruct IH as [Hsh' [Hlen [Hth [tr1 [Htr Hr1]]]]].
      repeat split; auto.
      * intros i t Hi. cbn [count_tid].
        destruct (Nat.eqb_spec i j) as [->|Hne]; [congruence|]. apply Hth; assumption.
      * exists tr1. split; assumption.
Qed.

(* C18 main theorem: if no thread instruction writes the shared store then, under ANY
   schedule, the shared store is unchanged, every thread is exactly where it would be had it
   executed the same number of its own instructions alone, and the execution has no data
   race (no two conflicting accesses at all, hence none unordered by happens-before). *)
Theorem noninterference : forall (ts : list thread) (sh : store) (sch : list nat),
  forallb no_shared_write ts = true ->
  let '(sh', ts', tr) := run sch sh ts in
  sh' = sh /\
  length ts' = length ts /\
  (forall i t, nth_error ts i = Some t ->
     nth_error ts' i = Some (run_alone (count_tid i sch) i sh t)) /\
  race_free tr = true.
Proof.
  intros ts sh sch Hns. unfold run.
  pose proof (run_invariant sch sh ts [] Hns) as H.
  destruct (fold_left sched_step sch (sh, ts, [])) as [[sh' ts'] tr].
  destruct H as [Hsh [Hlen [Hth [tr1 [Htr Hr]]]]].
  repeat split; auto. rewrite Htr. cbn [app]. apply all_reads_race_free; assumption.
Qed.

(* running a finished thread changes nothing *)
Lemma run_alone_done : forall n i sh t, prog t = [] -> run_alone n i sh t = t.
Proof.
  induction n as [|n IH]; intros i sh t Hp; [reflexivity|].
  cbn [run_alone]. unfold exec_instr. rewrite Hp. apply IH; assumption.
Qed.

Lemma exec_instr_prog : forall i sh t x rest,
  prog t = x :: rest -> prog (snd (fst (exec_instr i sh t))) = rest.
Proof.
  intros i sh t x rest Hp. unfold exec_instr. rewrite Hp.
  destruct x; reflexivity.
Qed.

Lemma run_alone_enough : forall n i sh t,
  (length (prog t) <= n)%nat -> run_alone n i sh t = run_alone_full i sh t.
Proof.
  unfold run_alone_full.
  induction n as [|n IH]; intros i sh t Hle.
  - destruct (prog t) eqn:Hp; cbn [length] in Hle; [|lia]. reflexivity.
  - destruct (prog t) as [|x rest] eqn:Hp.
    + cbn [length]. cbn [run_alone]. unfold exec_instr. rewrite Hp.
      rewrite run_alone_done by assumption. reflexivity.
    + cbn [length run_alone].
      pose proof (exec_instr_prog i sh t x rest Hp) as Hrest.
      destruct (exec_instr i sh t) as [[sh1 t1] acc]. cbn [fst snd] in Hrest.
      rewrite IH by (rewrite Hrest; cbn [length] in Hle; lia).
      rewrite Hrest. reflexivity.
Qed.

Lemma run_alone_full_done : forall i sh t, prog (run_alone_full i sh t) = [].
Proof.
  unfold run_alone_full. intros i sh t.
  remember (length (prog t)) as n eqn:Hn. revert t Hn.
  induction n as [|n IH]; intros t Hn.
  - destruct (prog t) eqn:Hp; [|discriminate]. cbn [run_alone]. assumption.
  - destruct (prog t) as [|x rest] eqn:Hp; [discriminate|].
    cbn [run_alone].
    pose proof (exec_instr_prog i sh t x rest Hp) as Hrest.
    destruct (exec_instr i sh t) as [[sh1 t1] acc]. cbn [fst snd] in Hrest.
    apply IH. rewrite Hrest. cbn [length] in Hn. lia.
Qed.

(* Complete schedules: every thread was given at least as many turns as it has
   instructions. Then every call has finished and returned exactly what it returns when it
   runs alone — whatever the other threads are and however they were interleaved. *)
Theorem noninterference_complete : forall (ts : list thread) (sh : store) (sch : list nat),
  forallb no_shared_write ts = true ->
  (forall i t, nth_error ts i = Some t -> (length (prog t) <= count_tid i sch)%nat) ->
  let '(sh', ts', tr) := run sch sh ts in
  sh' = sh /\
  (forall i t, nth_error ts i = Some t ->
     nth_error ts' i = Some (run_alone_full i sh t) /\ prog (run_alone_full i sh t) = []) /\
  race_free tr = true.
Proof.
  intros ts sh sch Hns Hfair.
  pose proof (noninterference ts sh sch Hns) as H.
  destruct (run sch sh ts) as [[sh' ts'] tr].
  destruct H as [Hsh [_ [Hth Hrf]]].
  repeat split; auto.
  - rewrite (Hth i t H). rewrite run_alone_enough by (apply Hfair; assumption). reflexivity.
  - apply run_alone_full_done.
Qed.

(* The result of a thread under two different schedules and in two different pools is the
   same as long as it got its turns: schedule independence as an equation between runs. *)
Corollary schedule_independent : forall ts1 ts2 sh sch1 sch2 i t,
  forallb no_shared_write ts1 = true -> forallb no_shared_write ts2 = true ->
  nth_error ts1 i = Some t -> nth_error ts2 i = Some t ->
  (length (prog t) <= count_tid i sch1)%nat -> (length (prog t) <= count_tid i sch2)%nat ->
  nth_error (snd (fst (run sch1 sh ts1))) i = nth_error (snd (fst (run sch2 sh ts2))) i.
Proof.
  intros ts1 ts2 sh sch1 sch2 i t H1 H2 Hn1 Hn2 Hc1 Hc2.
  pose proof (noninterference ts1 sh sch1 H1) as A.
  pose proof (noninterference ts2 sh sch2 H2) as B.
  destruct (run sch1 sh ts1) as [[sa ta] tra]. destruct (run sch2 sh ts2) as [[sb tb] trb].
  cbn [fst snd]. destruct A as [_ [_ [A _]]]. destruct B as [_ [_ [B _]]].
  rewrite (A i t Hn1), (B i t Hn2).
  rewrite !run_alone_enough by assumption. reflexivity.
Qed.

(* The hypothesis matters: with one shared write there are two schedules after which the
   same thread holds different results, and the trace has a conflict. *)
Definition writer_thread : thread := mkThread [IOp 0 (fun _ => 7); IStore 5 0] (fun _ => 0).
Definition reader_thread : thread := mkThread [ILoad 0 5] (fun _ => 0).

Lemma interference_with_shared_write :
  let pool := [writer_thread; reader_thread] in
  let sh0 : store := fun _ => 0 in
  (exists t1 t2,
     nth_error (snd (fst (run [1; 0; 0]%nat sh0 pool))) 1 = Some t1 /\
     nth_error (snd (fst (run [0; 0; 1]%nat sh0 pool))) 1 = Some t2 /\
     priv t1 0 = 0 /\ priv t2 0 = 7) /\
  race_free (snd (run [0; 0; 1]%nat sh0 pool)) = false.
Proof.
  cbv zeta. split.
  - eexists. eexists. split; [reflexivity|]. split; [reflexivity|]. split; reflexivity.
  - reflexivity.
Qed.
