(* Proofs about the field-dataflow language of CtrDataflow.v (C10: history independence). *)
From Coq Require Import String List Bool Arith Lia.
Import ListNotations.
From V Require Import Contract.CtrDataflow.
Open Scope string_scope.
Open Scope list_scope.

(* ---------- small facts about the string-list helpers ---------- *)
Lemma mem_In : forall x l, mem x l = true <-> In x l.
Proof.
  intros x l. unfold mem. rewrite existsb_exists. split.
  - intros [y [Hy He]]. apply String.eqb_eq in He. subst. assumption.
  - intros H. exists x. split; [assumption|apply String.eqb_refl].
Qed.

Lemma mem_false_not_In : forall x l, mem x l = false -> ~ In x l.
Proof. intros x l H Hin. apply mem_In in Hin. congruence. Qed.

Lemma subset_In : forall a b, subset a b = true -> forall x, In x a -> In x b.
Proof.
  intros a b H x Hx. unfold subset in H. rewrite forallb_forall in H.
  apply mem_In. apply H. assumption.
Qed.

Lemma list_eqb_eq : forall a b, list_eqb a b = true -> a = b.
Proof.
  induction a as [|x a IH]; intros [|y b] H; cbn in H; try discriminate; auto.
  apply andb_prop in H. destruct H as [H1 H2]. apply String.eqb_eq in H1. subst.
  f_equal. apply IH. assumption.
Qed.

Lemma memo_eqb_eq : forall m1 m2 : memo, memo_eqb m1 m2 = true -> m1 = m2.
Proof.
  intros [[f1 g1] r1] [[f2 g2] r2] H. unfold memo_eqb in H. cbn [fst snd] in H.
  apply andb_prop in H. destruct H as [H H3]. apply andb_prop in H. destruct H as [H1 H2].
  apply String.eqb_eq in H1. apply String.eqb_eq in H2. apply list_eqb_eq in H3. subst. reflexivity.
Qed.

Section Proofs.
  Variables (D A : Type).
  Variable app : string -> A -> list (option D) -> D.
  Variable app0 : string -> list (option D) -> D.
  Variable appendD : option D -> D -> D.

  Notation rec := (rec D).
  Notation exec_step := (exec_step D A app app0 appendD).
  Notation exec_steps := (exec_steps D A app app0 appendD).
  Notation exec_call := (exec_call D A app app0 appendD).
  Notation run_history := (run_history D A app app0 appendD).

  Definition agree (X : list field) (r1 r2 : rec) : Prop := forall f, In f X -> r1 f = r2 f.

  Lemma agree_map : forall X r1 r2 rs, agree X r1 r2 -> (forall x, In x rs -> In x X) ->
    map r1 rs = map r2 rs.
  Proof.
    intros X r1 r2 rs Ha Hs. apply map_ext_in. intros x Hx. apply Ha. apply Hs. assumption.
  Qed.

  Lemma rupd_same : forall (r : rec) f v, rupd D r f v f = v.
  Proof. intros. unfold rupd. rewrite String.eqb_refl. reflexivity. Qed.

  Lemma rupd_other : forall (r : rec) f v x, x <> f -> rupd D r f v x = r x.
  Proof.
    intros r f v x H. unfold rupd. destruct (String.eqb_spec x f); [contradiction|reflexivity].
  Qed.

  (* a step only changes its target field *)
  Lemma exec_step_other : forall a r s x, x <> step_target s -> exec_step a r s x = r x.
  Proof.
    intros a r s x H. destruct s as [m f g rs|m f g rs|m f|m f g rs]; cbn [exec_step step_target] in *;
      try (apply rupd_other; assumption).
    destruct (r f); [reflexivity|apply rupd_other; assumption].
  Qed.

  (* ---------- the invariant carried through a history ---------- *)
  (* r0: the object as configured (fresh caches).  A record r reachable by a history agrees
     with r0 on the configuration fields, and every cache of c is either still unset or holds
     the value its function gives on the configuration. *)
  Definition hinv (cfg : list field) (ml : list memo) (r0 r : rec) : Prop :=
    agree cfg r r0 /\
    forall f g rs, In (f, g, rs) ml -> r f = None \/ r f = Some (app0 g (map r0 rs)).

  Lemma memo_wf_spec : forall cfg ml, memo_wf cfg ml = true ->
    forall f g rs, In (f, g, rs) ml ->
      (forall x, In x rs -> In x cfg) /\ ~ In f cfg /\
      (forall g' rs', In (f, g', rs') ml -> g' = g /\ rs' = rs).
  Proof.
    intros cfg ml H f g rs Hin. unfold memo_wf in H. rewrite forallb_forall in H.
    specialize (H _ Hin). cbn [fst snd] in H.
    apply andb_prop in H. destruct H as [H H3]. apply andb_prop in H. destruct H as [H1 H2].
    split; [apply subset_In; assumption|]. split.
    - apply mem_false_not_In. destruct (mem f cfg); [discriminate|reflexivity].
    - intros g' rs' Hin'. rewrite forallb_forall in H3. specialize (H3 _ Hin'). cbn [fst snd] in H3.
      rewrite String.eqb_refl in H3. apply memo_eqb_eq in H3. inversion H3. auto.
  Qed.

  Lemma memo_list_In : forall ss m f g rs, In (SMemo m f g rs) ss -> In (f, g, rs) (memo_list ss).
  Proof.
    intros ss m f g rs H. unfold memo_list. apply in_flat_map. exists (SMemo m f g rs).
    split; [assumption|left; reflexivity].
  Qed.

  Lemma memo_fields_In : forall ss f g rs, In (f, g, rs) (memo_list ss) -> In f (memo_fields ss).
  Proof.
    intros ss f g rs H. unfold memo_fields. apply in_map_iff. exists (f, g, rs). auto.
  Qed.

  Lemma In_memo_fields : forall ss f, In f (memo_fields ss) -> exists g rs, In (f, g, rs) (memo_list ss).
  Proof.
    intros ss f H. unfold memo_fields in H. apply in_map_iff in H.
    destruct H as [[[f' g] rs] [Hf Hin]]. cbn in Hf. subst. eauto.
  Qed.

  (* one step that respects c's configuration and caches keeps the invariant *)
  Definition step_ok (cfg : list field) (ml : list memo) (s : dstep) : Prop :=
    ~ In (step_target s) cfg /\
    ((forall g rs, ~ In (step_target s, g, rs) ml) \/
     (exists m f g rs, s = SMemo m f g rs /\ In (f, g, rs) ml)).

  Lemma exec_step_hinv : forall cfg ml r0 a r s,
    memo_wf cfg ml = true -> step_ok cfg ml s -> hinv cfg ml r0 r -> hinv cfg ml r0 (exec_step a r s).
  Proof.
    intros cfg ml r0 a r s Hwf [Hcfg Hmemo] [Hag Hm]. split.
    - intros x Hx. rewrite exec_step_other; [apply Hag; assumption|].
      intros ->. contradiction.
    - intros f g rs Hin.
      destruct (string_dec f (step_target s)) as [->|Hne].
      + destruct Hmemo as [Hno|[m [f' [g' [rs' [-> Hin']]]]]].
        * exfalso. eapply Hno; eauto.
        * cbn [step_target] in *.
          destruct (memo_wf_spec _ _ Hwf _ _ _ Hin) as [Hsub [_ Huniq]].
          destruct (Huniq _ _ Hin') as [-> ->].
          cbn [exec_step]. destruct (r f') as [v|] eqn:Hr.
          -- rewrite Hr. destruct (Hm _ _ _ Hin) as [H|H]; [congruence|]. right. congruence.
          -- right. rewrite rupd_same. f_equal. f_equal.
             apply (agree_map cfg); auto.
      + rewrite exec_step_other by assumption. apply Hm. assumption.
  Qed.

  Lemma exec_steps_hinv : forall cfg ml r0 a ss r,
    memo_wf cfg ml = true -> Forall (step_ok cfg ml) ss -> hinv cfg ml r0 r ->
    hinv cfg ml r0 (exec_steps a r ss).
  Proof.
    intros cfg ml r0 a ss. induction ss as [|s ss IH]; intros r Hwf Hok Hi; [assumption|].
    inversion Hok; subst. cbn [exec_steps fold_left]. apply IH; auto.
    apply exec_step_hinv; assumption.
  Qed.

  (* compatible (decidable) implies step_ok for every step *)
  Lemma compatible_step_ok : forall cfg c m, compatible cfg c m = true ->
    Forall (step_ok cfg (memo_list (c_steps c))) (c_steps m).
  Proof.
    intros cfg c m H. unfold compatible in H. rewrite forallb_forall in H.
    apply Forall_forall. intros s Hs. specialize (H s Hs).
    apply andb_prop in H. destruct H as [H1 H2]. split.
    - apply mem_false_not_In. destruct (mem (step_target s) cfg); [discriminate|reflexivity].
    - destruct (mem (step_target s) (memo_fields (c_steps c))) eqn:Hmf.
      + right. destruct s as [m' f g rs|m' f g rs|m' f|m' f g rs]; cbn [memo_of] in H2; try discriminate.
        apply existsb_exists in H2. destruct H2 as [x [Hx He]]. apply memo_eqb_eq in He. subst x.
        exists m', f, g, rs. auto.
      + left. intros g rs Hin. apply memo_fields_In in Hin. apply mem_In in Hin. congruence.
  Qed.

  (* ---------- the simulation for a self-initialising call ---------- *)
  Lemma si_step_sim : forall cfg ml mfs r0 a known known' s r1 r2,
    memo_wf cfg ml = true ->
    (forall f, In f mfs <-> exists g rs, In (f, g, rs) ml) ->
    (forall m f g rs, s = SMemo m f g rs -> In (f, g, rs) ml) ->
    si_step cfg mfs known s = Some known' ->
    hinv cfg ml r0 r1 -> hinv cfg ml r0 r2 -> agree known r1 r2 ->
    hinv cfg ml r0 (exec_step a r1 s) /\ hinv cfg ml r0 (exec_step a r2 s) /\
    agree known' (exec_step a r1 s) (exec_step a r2 s).
  Proof.
    intros cfg ml mfs r0 a known known' s r1 r2 Hwf Hmfs Hmemo Hsi H1 H2 Hag.
    assert (Hagc : agree (cfg ++ known) r1 r2).
    { intros x Hx. apply in_app_or in Hx. destruct Hx as [Hx|Hx].
      - destruct H1 as [A1 _]. destruct H2 as [A2 _]. rewrite (A1 _ Hx), (A2 _ Hx). reflexivity.
      - apply Hag. assumption. }
    (* step_ok for s *)
    assert (Hok : step_ok cfg ml s).
    { destruct s as [m f g rs|m f g rs|m f|m f g rs]; cbn [si_step] in Hsi.
      - destruct (subset rs (cfg ++ known)); [|discriminate]. cbn [andb] in Hsi.
        destruct (mem f cfg) eqn:E1; [discriminate|]. destruct (mem f mfs) eqn:E2; [discriminate|].
        split; [apply mem_false_not_In; assumption|]. left. intros g' rs' Hin.
        apply mem_false_not_In in E2. apply E2. apply Hmfs. eauto.
      - destruct (subset (f :: rs) (cfg ++ known)); [|discriminate]. cbn [andb] in Hsi.
        destruct (mem f cfg) eqn:E1; [discriminate|]. destruct (mem f mfs) eqn:E2; [discriminate|].
        split; [apply mem_false_not_In; assumption|]. left. intros g' rs' Hin.
        apply mem_false_not_In in E2. apply E2. apply Hmfs. eauto.
      - destruct (mem f cfg) eqn:E1; [discriminate|]. destruct (mem f mfs) eqn:E2; [discriminate|].
        split; [apply mem_false_not_In; assumption|]. left. intros g' rs' Hin.
        apply mem_false_not_In in E2. apply E2. apply Hmfs. eauto.
      - pose proof (Hmemo _ _ _ _ eq_refl) as Hin.
        destruct (memo_wf_spec _ _ Hwf _ _ _ Hin) as [_ [Hnc _]].
        split; [assumption|]. right. exists m, f, g, rs. auto. }
    split; [apply exec_step_hinv; assumption|]. split; [apply exec_step_hinv; assumption|].
    destruct s as [m f g rs|m f g rs|m f|m f g rs]; cbn [si_step] in Hsi.
    - destruct (subset rs (cfg ++ known)) eqn:Hs; [|discriminate]. cbn [andb] in Hsi.
      destruct (negb (mem f cfg) && negb (mem f mfs)); [|discriminate]. inversion Hsi; subst known'.
      intros x Hx. cbn [exec_step]. destruct (string_dec x f) as [->|Hne].
      + rewrite !rupd_same. f_equal. f_equal. apply (agree_map (cfg ++ known)); auto.
        apply subset_In; assumption.
      + rewrite !rupd_other by assumption. apply Hag. destruct Hx as [Hx|Hx]; [congruence|assumption].
    - destruct (subset (f :: rs) (cfg ++ known)) eqn:Hs; [|discriminate]. cbn [andb] in Hsi.
      destruct (negb (mem f cfg) && negb (mem f mfs)); [|discriminate]. inversion Hsi; subst known'.
      pose proof (subset_In _ _ Hs) as Hsub.
      intros x Hx. cbn [exec_step]. destruct (string_dec x f) as [->|Hne].
      + rewrite !rupd_same. f_equal. f_equal.
        * apply Hagc. apply Hsub. left. reflexivity.
        * f_equal. apply (agree_map (cfg ++ known)); auto. intros y Hy. apply Hsub. right. assumption.
      + rewrite !rupd_other by assumption. apply Hag. assumption.
    - destruct (negb (mem f cfg) && negb (mem f mfs)); [|discriminate]. inversion Hsi; subst known'.
      intros x Hx. cbn [exec_step]. destruct (string_dec x f) as [->|Hne].
      + rewrite !rupd_same. reflexivity.
      + rewrite !rupd_other by assumption. apply Hag. destruct Hx as [Hx|Hx]; [congruence|assumption].
    - inversion Hsi; subst known'.
      pose proof (Hmemo _ _ _ _ eq_refl) as Hin.
      destruct (memo_wf_spec _ _ Hwf _ _ _ Hin) as [Hsub _].
      assert (Hv : forall r, hinv cfg ml r0 r ->
                exec_step a r (SMemo m f g rs) f = Some (app0 g (map r0 rs))).
      { intros r [Ha Hm]. cbn [exec_step]. destruct (r f) as [v|] eqn:Hr.
        - rewrite Hr. destruct (Hm _ _ _ Hin) as [H|H]; congruence.
        - rewrite rupd_same. f_equal. f_equal. apply (agree_map cfg); auto. }
      intros x Hx. destruct (string_dec x f) as [->|Hne].
      + rewrite (Hv r1 H1), (Hv r2 H2). reflexivity.
      + rewrite !exec_step_other by (cbn [step_target]; assumption).
        apply Hag. destruct Hx as [Hx|Hx]; [congruence|assumption].
  Qed.

  Lemma si_steps_sim : forall cfg ml mfs r0 a ss known known' r1 r2,
    memo_wf cfg ml = true ->
    (forall f, In f mfs <-> exists g rs, In (f, g, rs) ml) ->
    (forall m f g rs, In (SMemo m f g rs) ss -> In (f, g, rs) ml) ->
    si_steps cfg mfs known ss = Some known' ->
    hinv cfg ml r0 r1 -> hinv cfg ml r0 r2 -> agree known r1 r2 ->
    agree (cfg ++ known') (exec_steps a r1 ss) (exec_steps a r2 ss).
  Proof.
    intros cfg ml mfs r0 a ss. induction ss as [|s ss IH];
      intros known known' r1 r2 Hwf Hmfs Hmemo Hsi H1 H2 Hag.
    - cbn in Hsi. inversion Hsi; subst. cbn. intros x Hx. apply in_app_or in Hx.
      destruct Hx as [Hx|Hx]; [|apply Hag; assumption].
      destruct H1 as [A1 _]. destruct H2 as [A2 _]. rewrite (A1 _ Hx), (A2 _ Hx). reflexivity.
    - cbn [si_steps] in Hsi. destruct (si_step cfg mfs known s) as [k|] eqn:Hs; [|discriminate].
      destruct (si_step_sim cfg ml mfs r0 a known k s r1 r2 Hwf Hmfs) as [I1 [I2 Hag']]; auto.
      { intros m f g rs ->. eapply Hmemo. left. reflexivity. }
      cbn [exec_steps fold_left]. eapply IH; eauto.
      intros m f g rs Hin. eapply Hmemo. right. eassumption.
  Qed.

  (* ---------- the theorems ---------- *)

  (* One call: on any two records that satisfy the invariant for the same configuration the
     call returns the same value. *)
  Lemma call_output_determined : forall cfg c r0 r1 r2 a,
    self_initialising cfg c = true ->
    hinv cfg (memo_list (c_steps c)) r0 r1 -> hinv cfg (memo_list (c_steps c)) r0 r2 ->
    snd (exec_call a r1 c) = snd (exec_call a r2 c).
  Proof.
    intros cfg c r0 r1 r2 a Hsi H1 H2. unfold self_initialising in Hsi.
    apply andb_prop in Hsi. destruct Hsi as [Hwf Hsi].
    destruct (si_steps cfg (memo_fields (c_steps c)) [] (c_steps c)) as [known|] eqn:Hs; [|discriminate].
    unfold exec_call. cbn [snd]. f_equal.
    apply (agree_map (cfg ++ known)); [|apply subset_In; assumption].
    eapply si_steps_sim with (known := []); eauto.
    - intros f. split; [apply In_memo_fields|]. intros [g [rs H]]. eapply memo_fields_In; eauto.
    - intros m f g rs. apply memo_list_In.
    - intros x [].
  Qed.

  (* histories made of calls compatible with c keep the invariant *)
  Lemma history_hinv : forall cfg c ms h r0 r,
    memo_wf cfg (memo_list (c_steps c)) = true ->
    forallb (compatible cfg c) ms = true ->
    Forall (fun ca => In (fst ca) ms) h ->
    hinv cfg (memo_list (c_steps c)) r0 r ->
    hinv cfg (memo_list (c_steps c)) r0 (run_history h r).
  Proof.
    intros cfg c ms h r0. induction h as [|[m a] h IH]; intros r Hwf Hms Hh Hi; [assumption|].
    inversion Hh as [|x l Hm Hrest]; subst. cbn [fst] in Hm.
    cbn [run_history fold_left]. apply IH; auto.
    unfold exec_call. cbn [fst snd]. apply exec_steps_hinv; auto.
    apply compatible_step_ok. rewrite forallb_forall in Hms. apply Hms. assumption.
  Qed.

  Lemma hinv_init : forall cfg ml (r0 : rec),
    (forall f g rs, In (f, g, rs) ml -> r0 f = None) -> hinv cfg ml r0 r0.
  Proof. intros cfg ml r0 H. split; [intros f _; reflexivity|]. intros f g rs Hin. left. eauto. Qed.

  (* C10, history independence.  c: a call summary with self_initialising cfg c = true.
     ms: the methods that may be called on the object (each compatible with c: they do not
     write configuration fields, and touch c's caches only by the same cache step).
     r0: the object as constructed/configured, caches unset.  For EVERY history h of calls
     from ms with arbitrary arguments, the value returned by c(a) after h equals the value
     c(a) returns on the object as constructed. *)
  Theorem history_independent : forall (cfg : list field) (c : call) (ms : list call) (r0 : rec),
    self_initialising cfg c = true ->
    forallb (compatible cfg c) ms = true ->
    (forall f, In f (memo_fields (c_steps c)) -> r0 f = None) ->
    forall (h : list (call * A)) (a : A),
      Forall (fun ca => In (fst ca) ms) h ->
      snd (exec_call a (run_history h r0) c) = snd (exec_call a r0 c).
  Proof.
    intros cfg c ms r0 Hsi Hms Hfresh h a Hh.
    assert (Hwf : memo_wf cfg (memo_list (c_steps c)) = true).
    { unfold self_initialising in Hsi. apply andb_prop in Hsi. tauto. }
    assert (H0 : hinv cfg (memo_list (c_steps c)) r0 r0).
    { apply hinv_init. intros f g rs Hin. apply Hfresh. eapply memo_fields_In; eauto. }
    apply (call_output_determined cfg c r0); auto.
    eapply history_hinv; eauto.
  Qed.

  (* C10, frame independence: the output of a self-initialising call is a function of its
     argument (and of the configuration) only — there is ONE function F such that after every
     history the call returns F(argument).  In particular frame k of a sequence coded by one
     reused object depends on frame k only. *)
  Theorem frame_independent : forall (cfg : list field) (c : call) (ms : list call) (r0 : rec),
    self_initialising cfg c = true ->
    forallb (compatible cfg c) ms = true ->
    (forall f, In f (memo_fields (c_steps c)) -> r0 f = None) ->
    exists F : A -> D,
      forall (h : list (call * A)) (a : A),
        Forall (fun ca => In (fst ca) ms) h ->
        snd (exec_call a (run_history h r0) c) = F a.
  Proof.
    intros cfg c ms r0 Hsi Hms Hfresh.
    exists (fun a => snd (exec_call a r0 c)). intros h a Hh.
    apply (history_independent cfg c ms r0); assumption.
  Qed.

  (* the same, as an equation between two arbitrary histories, also on two objects that were
     configured alike *)
  Corollary two_histories_agree : forall cfg c ms (r0 r0' : rec),
    self_initialising cfg c = true ->
    forallb (compatible cfg c) ms = true ->
    (forall f, In f (memo_fields (c_steps c)) -> r0 f = None) ->
    (forall f, In f (memo_fields (c_steps c)) -> r0' f = None) ->
    agree cfg r0' r0 ->
    forall h h' a, Forall (fun ca => In (fst ca) ms) h -> Forall (fun ca => In (fst ca) ms) h' ->
      snd (exec_call a (run_history h r0) c) = snd (exec_call a (run_history h' r0') c).
  Proof.
    intros cfg c ms r0 r0' Hsi Hms Hf Hf' Hag h h' a Hh Hh'.
    rewrite (history_independent cfg c ms r0) by assumption.
    rewrite (history_independent cfg c ms r0') by assumption.
    assert (Hwf : memo_wf cfg (memo_list (c_steps c)) = true).
    { unfold self_initialising in Hsi. apply andb_prop in Hsi. tauto. }
    apply (call_output_determined cfg c r0); auto.
    - apply hinv_init. intros f g rs Hin. apply Hf. eapply memo_fields_In; eauto.
    - split; [assumption|]. intros f g rs Hin. left. apply Hf'. eapply memo_fields_In; eauto.
  Qed.
  (* Without caches the statement is stronger: the value returned by a self-initialising call
     is determined by its argument and the CURRENT values of the configuration fields, whatever
     was called before — including calls that changed the configuration. *)
  Theorem config_determines_output : forall (cfg : list field) (c : call),
    self_initialising cfg c = true -> memo_list (c_steps c) = [] ->
    forall (r r' : rec) (a : A), agree cfg r r' ->
      snd (exec_call a r c) = snd (exec_call a r' c).
  Proof.
    intros cfg c Hsi Hm r r' a Hag.
    apply (call_output_determined cfg c r'); auto; rewrite Hm.
    - split; [assumption|]. intros f g rs [].
    - split; [intros f _; reflexivity|]. intros f g rs [].
  Qed.
End Proofs.

(* ---------- the link to the frame loop with a reused encoder (CtrFrames shape B) ---------- *)
(* With the state of the reused object a record, the per-frame function `exec_call` and the
   invariant `hinv`, a self-initialising summary gives exactly the hypothesis Inv_step of
   CtrProofsFrames.shapeB_equals_shapeA. *)
Theorem reused_object_inv_step : forall (D A : Type) app app0 appendD (cfg : list field) (c : call) (r0 : rec D),
  self_initialising cfg c = true ->
  compatible cfg c c = true ->
  (forall f, In f (memo_fields (c_steps c)) -> r0 f = None) ->
  forall (s : rec D) (a : A),
    hinv D app0 cfg (memo_list (c_steps c)) r0 s ->
    snd (exec_call D A app app0 appendD a s c) = snd (exec_call D A app app0 appendD a r0 c) /\
    hinv D app0 cfg (memo_list (c_steps c)) r0 (fst (exec_call D A app app0 appendD a s c)).
Proof.
  intros D A app app0 appendD cfg c r0 Hsi Hc Hfresh s a Hs.
  assert (Hwf : memo_wf cfg (memo_list (c_steps c)) = true).
  { unfold self_initialising in Hsi. apply andb_prop in Hsi. tauto. }
  split.
  - apply (call_output_determined D A app app0 appendD cfg c r0); auto.
    apply hinv_init. intros f g rs Hin. apply Hfresh. eapply memo_fields_In; eauto.
  - unfold exec_call. cbn [fst]. apply exec_steps_hinv; auto.
    apply compatible_step_ok. assumption.
Qed.
