(* EXTRACT *)
(* Abstract machine for C18 (safe for concurrent use).

   Threads (= concurrent Encode/Decode calls) each own a private store and a program; one
   shared store stands for everything two calls can both reach: package-level variables, the
   fields of the codec instance taken from the registry, and the fields of a parameters object
   that a Transcoder passes to every call.  An instruction reads shared and private state and
   writes private state only (ILoad, IOp) or additionally writes the shared store (IStore).
   A schedule is an arbitrary interleaving: a list of thread ids; entry i runs the next
   instruction of thread i (nothing happens when that thread has finished or does not exist).

   The Go side of the tie: Gen/Facts_gen.v lists every write site of a package-level variable,
   of a codec receiver field and of a possibly shared parameters object; CtrProofsFacts.v
   re-proves on every run that there is none outside init / guarded normalisation, i.e. that
   the programs of the modelled threads contain no IStore. *)
From V Require Import Common.Base.

Definition store := Z -> Z.                      (* location -> value *)
Definition upd (st : store) (k v : Z) : store := fun x => if x =? k then v else st x.

Inductive instr : Type :=
| ILoad (p s : Z)                  (* private[p] := shared[s] *)
| IOp (p : Z) (f : store -> Z)     (* private[p] := f(private)      arbitrary private computation *)
| IStore (s p : Z).                (* shared[s]  := private[p] *)

Record thread : Type := mkThread { prog : list instr; priv : store }.

(* one access to the shared store, for the race definition *)
Inductive akind : Type := ARead | AWrite.
Record access : Type := mkAccess { a_tid : nat; a_loc : Z; a_kind : akind }.

Definition is_write (k : akind) : bool := match k with AWrite => true | ARead => false end.

(* two accesses conflict: same shared location, different threads, at least one a write *)
Definition conflict (a b : access) : bool :=
  negb (Nat.eqb (a_tid a) (a_tid b)) && (a_loc a =? a_loc b) && (is_write (a_kind a) || is_write (a_kind b)).

(* one instruction of thread t (id i) against shared store sh *)
Definition exec_instr (i : nat) (sh : store) (t : thread) : store * thread * list access :=
  match prog t with
  | [] => (sh, t, [])
  | ILoad p s :: rest => (sh, mkThread rest (upd (priv t) p (sh s)), [mkAccess i s ARead])
  | IOp p f :: rest => (sh, mkThread rest (upd (priv t) p (f (priv t))), [])
  | IStore s p :: rest => (upd sh s (priv t p), mkThread rest (priv t), [mkAccess i s AWrite])
  end.

Fixpoint set_nth {A} (l : list A) (i : nat) (x : A) : list A :=
  match l, i with
  | [], _ => []
  | _ :: r, O => x :: r
  | y :: r, S k => y :: set_nth r k x
  end.

(* machine state: shared store, thread pool, access trace (most recent last) *)
Definition mstate : Type := store * list thread * list access.

Definition sched_step (st : mstate) (i : nat) : mstate :=
  let '(sh, ts, tr) := st in
  match nth_error ts i with
  | None => st
  | Some t => let '(sh', t', acc) := exec_instr i sh t in (sh', set_nth ts i t', tr ++ acc)
  end.

Definition run (sch : list nat) (sh : store) (ts : list thread) : mstate :=
  fold_left sched_step sch (sh, ts, []).

(* the same thread run alone for n instructions against an unchanging shared store *)
Fixpoint run_alone (n : nat) (i : nat) (sh : store) (t : thread) : thread :=
  match n with
  | O => t
  | S k => let '(_, t', _) := exec_instr i sh t in run_alone k i sh t'
  end.

(* run alone to completion *)
Definition run_alone_full (i : nat) (sh : store) (t : thread) : thread :=
  run_alone (length (prog t)) i sh t.

Definition is_store (x : instr) : bool := match x with IStore _ _ => true | _ => false end.
Definition no_shared_write (t : thread) : bool := negb (existsb is_store (prog t)).

Fixpoint count_tid (i : nat) (sch : list nat) : nat :=
  match sch with [] => O | j :: r => ((if Nat.eqb i j then 1 else 0) + count_tid i r)%nat end.

(* no pair of accesses in the trace conflicts *)
Fixpoint race_free (tr : list access) : bool :=
  match tr with
  | [] => true
  | a :: r => forallb (fun b => negb (conflict a b)) r && race_free r
  end.
