(* Proofs about the frame loops of CtrFrames.v (C10: one output per input, same order,
   output i a function of frame i only; both loop shapes; any number of frames). *)
From V Require Import Common.Base Contract.CtrFrames.

(* outputs up to the first failure, and whether there was none *)
Fixpoint take_some {A} (l : list (option A)) : list A :=
  match l with
  | Some a :: r => a :: take_some r
  | _ => []
  end.
Definition all_some {A} (l : list (option A)) : bool :=
  forallb (fun x => match x with Some _ => true | None => false end) l.

Lemma all_some_take : forall A (l : list (option A)),
  all_some l = true -> map Some (take_some l) = l.
Proof.
  induction l as [|[a|] l IH]; cbn; intros H; try discriminate; auto.
  rewrite IH by assumption. reflexivity.
Qed.

Lemma take_some_length : forall A (l : list (option A)),
  all_some l = true -> length (take_some l) = length l.
Proof.
  intros A l H. rewrite <- (map_length Some). rewrite all_some_take by assumption. reflexivity.
Qed.

Lemma take_some_short : forall A (l : list (option A)),
  all_some l = false ->
  (length (take_some l) < length l)%nat /\ nth_error l (length (take_some l)) = Some None.
Proof.
  induction l as [|[a|] l IH]; cbn; intros H; try discriminate.
  - destruct (IH H) as [H1 H2]. split; [lia|assumption].
  - split; [lia|reflexivity].
Qed.

Section FramesProofs.
  Variables (F O : Type).

  (* ---------------- shape A ---------------- *)
  Variable enc1 : F -> option O.

  Lemma foldA_failed : forall fs out, fold_left (stepA F O enc1) fs (out, false) = (out, false).
  Proof. induction fs as [|f fs IH]; intros out; cbn; auto. Qed.

  Lemma foldA_spec : forall fs out0,
    fold_left (stepA F O enc1) fs (out0, true)
    = (out0 ++ take_some (map enc1 fs), all_some (map enc1 fs)).
  Proof.
    induction fs as [|f fs IH]; intros out0.
    - cbn. rewrite app_nil_r. reflexivity.
    - cbn [fold_left map]. unfold stepA at 2. destruct (enc1 f) as [o|] eqn:He.
      + rewrite IH. cbn [take_some all_some forallb]. rewrite <- app_assoc. reflexivity.
      + rewrite foldA_failed. cbn [take_some all_some forallb]. rewrite app_nil_r. reflexivity.
  Qed.

  Lemma framesA_spec : forall e dst0 fs, fs <> [] ->
    framesA F O enc1 e dst0 fs = (dst0 ++ take_some (map enc1 fs), all_some (map enc1 fs)).
  Proof.
    intros e dst0 [|f fs] H; [congruence|]. unfold framesA. apply foldA_spec.
  Qed.

  (* One output per input, in order: on success the new frames are exactly enc1 applied to
     frame 0, 1, ..., n-1; n arbitrary. *)
  Theorem one_to_one_in_order_A : forall e dst0 fs out,
    framesA F O enc1 e dst0 fs = (out, true) ->
    exists outs, out = dst0 ++ outs /\ length outs = length fs /\ map Some outs = map enc1 fs.
  Proof.
    intros e dst0 fs out H. destruct fs as [|f fs].
    - cbn in H. inversion H; subst. exists []. rewrite app_nil_r. auto.
    - rewrite framesA_spec in H by discriminate. inversion H as [[Ho Hok]].
      exists (take_some (map enc1 (f :: fs))). repeat split.
      + rewrite take_some_length by assumption. apply map_length.
      + apply all_some_take; assumption.
  Qed.

  (* positional form *)
  Corollary output_i_is_f_of_frame_i : forall e dst0 fs out i f,
    framesA F O enc1 e dst0 fs = (out, true) -> nth_error fs i = Some f ->
    exists o, nth_error out (length dst0 + i) = Some o /\ enc1 f = Some o.
  Proof.
    intros e dst0 fs out i f H Hi.
    destruct (one_to_one_in_order_A _ _ _ _ H) as [outs [Ho [Hlen Hmap]]]. subst out.
    assert (Hn : nth_error (map enc1 fs) i = Some (enc1 f)) by (apply map_nth_error; assumption).
    rewrite <- Hmap in Hn. rewrite nth_error_map in Hn.
    destruct (nth_error outs i) as [o|] eqn:Hoi; cbn in Hn; [|discriminate].
    exists o. split; [|congruence].
    rewrite nth_error_app2 by lia. replace (length dst0 + i - length dst0)%nat with i by lia.
    assumption.
  Qed.

  (* On failure the destination holds the outputs of the frames before the first failing
     frame, still in order, and that frame is the one whose per-frame call failed. *)
  Theorem failure_is_a_prefix : forall e dst0 fs out, fs <> [] ->
    framesA F O enc1 e dst0 fs = (out, false) ->
    exists outs, out = dst0 ++ outs /\ (length outs < length fs)%nat /\
      map Some outs = firstn (length outs) (map enc1 fs) /\
      exists f, nth_error fs (length outs) = Some f /\ enc1 f = None.
  Proof.
    intros e dst0 fs out Hne H. rewrite framesA_spec in H by assumption.
    inversion H as [[Ho Hok]]. exists (take_some (map enc1 fs)).
    destruct (take_some_short _ _ Hok) as [Hlt Hnth]. rewrite map_length in Hlt.
    repeat split; auto.
    - clear. induction fs as [|f fs IH]; cbn; [reflexivity|].
      destruct (enc1 f); cbn; [rewrite IH; reflexivity|reflexivity].
    - rewrite nth_error_map in Hnth.
      destruct (nth_error fs (length (take_some (map enc1 fs)))) as [f|]; cbn in Hnth; [|discriminate].
      exists f. split; congruence.
  Qed.

  (* Frame independence, consequences of `out = map enc1 fs`: *)

  (* a frame alone gives the same output it gives inside any sequence *)
  Corollary alone_equals_in_sequence : forall e e' fs out i f o,
    framesA F O enc1 e [] fs = (out, true) -> nth_error fs i = Some f ->
    framesA F O enc1 e' [] [f] = ([o], true) -> nth_error out i = Some o.
  Proof.
    intros e e' fs out i f o H Hi H1.
    destruct (output_i_is_f_of_frame_i _ _ _ _ _ _ H Hi) as [o' [Hn He]]. cbn in Hn.
    cbn in H1. unfold stepA in H1. rewrite He in H1. inversion H1; subst. assumption.
  Qed.

  (* two sequences that agree at position i give the same output at position i *)
  Corollary same_frame_same_output : forall e fs fs' out out' i,
    framesA F O enc1 e [] fs = (out, true) -> framesA F O enc1 e [] fs' = (out', true) ->
    nth_error fs i = nth_error fs' i -> nth_error out i = nth_error out' i.
  Proof.
    intros e fs fs' out out' i H H' Hi.
    destruct (one_to_one_in_order_A _ _ _ _ H) as [o1 [E1 [L1 M1]]].
    destruct (one_to_one_in_order_A _ _ _ _ H') as [o2 [E2 [L2 M2]]].
    cbn in E1, E2. subst out out'.
    assert (A : nth_error (map Some o1) i = nth_error (map Some o2) i).
    { rewrite M1, M2, !nth_error_map, Hi. reflexivity. }
    rewrite !nth_error_map in A.
    destruct (nth_error o1 i), (nth_error o2 i); cbn in A; congruence.
  Qed.

  (* concatenating sequences concatenates outputs (sub-sequences, repeats, permutations) *)
  Corollary frames_app : forall e fs1 fs2 o1 o2, fs1 <> [] -> fs2 <> [] ->
    framesA F O enc1 e [] fs1 = (o1, true) -> framesA F O enc1 e [] fs2 = (o2, true) ->
    framesA F O enc1 e [] (fs1 ++ fs2) = (o1 ++ o2, true).
  Proof.
    intros e fs1 fs2 o1 o2 N1 N2 H1 H2.
    rewrite framesA_spec in * by (try assumption; destruct fs1; cbn; congruence).
    cbn [app] in *. inversion H1 as [[A1 B1]]. inversion H2 as [[A2 B2]].
    rewrite map_app. f_equal.
    - clear - B1. induction (map enc1 fs1) as [|[a|] l IH]; cbn in *; try discriminate; auto.
      rewrite IH by assumption. reflexivity.
    - unfold all_some in *. rewrite forallb_app, B1, B2. reflexivity.
  Qed.

  (* ---------------- shape B ---------------- *)
  Variable S : Type.
  Variable encS : S -> F -> option O * S.
  (* History independence of the reused coder object, as an invariant: on every state the
     object can be in, a frame is coded as on the state it had at creation.  This is what
     CtrProofsDataflow.history_independent establishes for a self-initialising summary. *)
  Variable Inv : S -> Prop.
  Hypothesis Inv_step : forall s f, Inv s -> fst (encS s f) = enc1 f /\ Inv (snd (encS s f)).

  Lemma foldB_failed : forall fs s out,
    fold_left (stepB F O S encS) fs (s, out, false) = (s, out, false).
  Proof. induction fs as [|f fs IH]; intros s out; cbn; auto. Qed.

  Lemma foldB_is_foldA : forall fs s out0, Inv s ->
    let '(s', out, ok) := fold_left (stepB F O S encS) fs (s, out0, true) in
    (out, ok) = fold_left (stepA F O enc1) fs (out0, true) /\ Inv s'.
  Proof.
    induction fs as [|f fs IH]; intros s out0 Hs.
    - cbn. auto.
    - cbn [fold_left]. unfold stepB at 2. unfold stepA at 2.
      destruct (Inv_step s f Hs) as [He Hi].
      destruct (encS s f) as [r s1]. cbn [fst snd] in He, Hi. subst r.
      destruct (enc1 f) as [o|].
      + apply IH; assumption.
      + rewrite foldB_failed, foldA_failed. auto.
  Qed.

  Theorem shapeB_equals_shapeA : forall e s0 dst0 fs, Inv s0 ->
    framesB F O S encS e s0 dst0 fs = framesA F O enc1 e dst0 fs.
  Proof.
    intros e s0 dst0 [|f fs] H0; [reflexivity|].
    unfold framesB, framesA.
    pose proof (foldB_is_foldA (f :: fs) s0 dst0 H0) as H.
    destruct (fold_left (stepB F O S encS) (f :: fs) (s0, dst0, true)) as [[s' out] ok].
    destruct H as [H _]. assumption.
  Qed.

  Theorem one_to_one_in_order_B : forall e s0 dst0 fs out, Inv s0 ->
    framesB F O S encS e s0 dst0 fs = (out, true) ->
    exists outs, out = dst0 ++ outs /\ length outs = length fs /\ map Some outs = map enc1 fs.
  Proof.
    intros e s0 dst0 fs out H0 H. rewrite shapeB_equals_shapeA in H by assumption.
    eapply one_to_one_in_order_A; eauto.
  Qed.

  (* the coder object stays inside the invariant over any number of frames and calls *)
  Lemma stateB_inv : forall fs s0, Inv s0 -> Inv (stateB F O S encS s0 fs).
  Proof.
    intros fs s0 H0. unfold stateB.
    pose proof (foldB_is_foldA fs s0 [] H0) as H.
    destruct (fold_left (stepB F O S encS) fs (s0, [], true)) as [[s' out] ok].
    cbn [fst]. tauto.
  Qed.
End FramesProofs.

(* One theorem for both shapes, as stated in the property: n input frames give exactly n
   output frames and output i = f(frame i). *)
Theorem one_to_one_in_order : forall (F O S : Type) (enc1 : F -> option O)
    (encS : S -> F -> option O * S) (Inv : S -> Prop),
  (forall s f, Inv s -> fst (encS s f) = enc1 f /\ Inv (snd (encS s f))) ->
  forall e s0 dst0 fs out, Inv s0 ->
    (framesA F O enc1 e dst0 fs = (out, true) \/ framesB F O S encS e s0 dst0 fs = (out, true)) ->
    exists outs, out = dst0 ++ outs /\ length outs = length fs /\
      forall i f, nth_error fs i = Some f ->
        exists o, nth_error outs i = Some o /\ enc1 f = Some o.
Proof.
  intros F O S enc1 encS Inv Hstep e s0 dst0 fs out H0 H.
  assert (HA : framesA F O enc1 e dst0 fs = (out, true)).
  { destruct H as [H|H]; [assumption|].
    rewrite (shapeB_equals_shapeA F O enc1 S encS Inv Hstep) in H; assumption. }
  destruct (one_to_one_in_order_A F O enc1 _ _ _ _ HA) as [outs [Ho [Hl Hm]]].
  exists outs. repeat split; auto.
  intros i f Hi.
  assert (Hn : nth_error (map enc1 fs) i = Some (enc1 f)) by (apply map_nth_error; assumption).
  rewrite <- Hm, nth_error_map in Hn.
  destruct (nth_error outs i) as [o|]; cbn in Hn; [|discriminate].
  exists o. split; congruence.
Qed.

(* Lossless syntaxes: if the per-frame decoder inverts the per-frame encoder (C01-C06), then
   decoding the encoded sequence returns the source sequence, frame by frame. *)
Theorem sequence_roundtrip : forall (F O : Type) (enc1 : F -> option O) (dec1 : O -> option F),
  (forall f o, enc1 f = Some o -> dec1 o = Some f) ->
  forall e e' fs outs, fs <> [] ->
    framesA F O enc1 e [] fs = (outs, true) ->
    framesA O F dec1 e' [] outs = (fs, true).
Proof.
  intros F O enc1 dec1 Hinv e e' fs outs Hne H.
  destruct (one_to_one_in_order_A F O enc1 _ _ _ _ H) as [o1 [Ho [Hl Hm]]]. cbn in Ho. subst o1.
  assert (Hne' : outs <> []) by (destruct outs, fs; cbn in *; congruence).
  rewrite framesA_spec by assumption. cbn [app].
  assert (Hd : map dec1 outs = map Some fs).
  { clear - Hinv Hm. revert fs Hm. induction outs as [|o outs IH]; intros [|f fs] Hm; cbn in *; try discriminate; auto.
    inversion Hm as [[A B]]. rewrite (Hinv f o) by congruence. rewrite (IH fs) by assumption. reflexivity. }
  rewrite Hd. f_equal.
  - clear. induction fs; cbn; congruence.
  - clear. induction fs; cbn; auto.
Qed.

(* A history of calls on one stateless codec object: call k returns what it returns alone. *)
Theorem codec_history_independent : forall (C R : Type) (call : C -> R) (before after : list C) (c : C),
  nth_error (history_outputs call (before ++ c :: after)) (length before) = Some (call c).
Proof.
  intros. unfold history_outputs. rewrite map_app. cbn [map].
  rewrite nth_error_app2 by (rewrite map_length; lia).
  rewrite map_length, Nat.sub_diag. reflexivity.
Qed.

(* Size formulas *)
Lemma rle_decoded_len_even : forall r c s b, (rle_decoded_len r c s b) mod 2 = 0.
Proof.
  intros. unfold rle_decoded_len. cbv zeta.
  set (n := decoded_len r c s b).
  pose proof (Z.mod_pos_bound n 2 ltac:(lia)) as Hb.
  assert (Hc : n mod 2 = 0 \/ n mod 2 = 1) by lia.
  destruct Hc as [Hc|Hc]; rewrite Hc.
  - rewrite Z.add_0_r. assumption.
  - rewrite Z.add_mod, Hc by lia. reflexivity.
Qed.

Lemma rle_decoded_len_bounds : forall r c s b,
  decoded_len r c s b <= rle_decoded_len r c s b <= decoded_len r c s b + 1.
Proof.
  intros. unfold rle_decoded_len. cbv zeta.
  pose proof (Z.mod_pos_bound (decoded_len r c s b) 2 ltac:(lia)). lia.
Qed.

Lemma rle_bytes_allocated_ok : forall b, 1 <= b <= 65536 -> rle_bytes_allocated b = bytes_per_sample b.
Proof.
  intros b Hb. unfold rle_bytes_allocated, bytes_per_sample, wrapU.
  change (2 ^ 16) with 65536. rewrite Z.mod_small by lia.
  replace (b + 7) with (b - 1 + 1 * 8) by ring. rewrite Z.div_add by lia. reflexivity.
Qed.

Lemma decoded_len_values :
  decoded_len 4 5 1 8 = 20 /\ decoded_len 4 5 3 8 = 60 /\ decoded_len 4 5 1 16 = 40 /\
  decoded_len 3 3 1 8 = 9 /\ rle_decoded_len 3 3 1 8 = 10 /\ rle_decoded_len 4 5 3 16 = 120.
Proof. repeat split; reflexivity. Qed.
